import OxiddModel.Dddmp.LemmasLoop
import OxiddModel.Mtbdd.PropertiesTerminalRecord

/-!
# ASCII mode: `importAsciiLoop` applied to the exporter's node section rebuilds the node list (C15)

The ASCII counterpart of `importBin_nodeSection` (`LemmasLoop.lean`): for any number of terminals
and any edge algebra with binary inner nodes, the byte string `nodeSection true nvars d` is read
back, line by line, as the terminals followed by the edges of `buildNodesA` — the reference
semantics of the node list in which *both* children may carry a complement mark.
-/
namespace OxiddModel.Dddmp
open OxiddModel.Mtbdd.TermText (parseUnsigned_decBytes utf8Lossy_ascii valFrom valFrom_nil valFrom_cons
  valFrom_zero valFrom_ge isDigit_iff decBytes_ne_nil decBytes_head_digit termLine asciiTermRecords_cons)

/-! ## definitions -/

/-- reference semantics of one ASCII inner-node record: both children may be complemented -/
def buildNodeA {E : Type} (A : Alg E) (tl : Nat → Nat) (acc : List E) (n : SNode) : Option E :=
  match n.children with
  | [t, e] =>
    match acc[t.natAbs - 1]?, acc[e.natAbs - 1]? with
    | some te, some ee =>
      some (A.reduce (tl n.level) [if t < 0 then A.complement te else te, if e < 0 then A.complement ee else ee])
    | _, _ => none
  | _ => none

def buildNodesA {E : Type} (A : Alg E) (tl : Nat → Nat) : List SNode → List E → Option (List E)
  | [], acc => some acc
  | n :: rest, acc =>
    match buildNodeA A tl acc n with
    | some x => buildNodesA A tl rest (acc ++ [x])
    | none => none

/-- an ASCII-mode node list as the exporter produces it: `nterms` terminals (ids `1..=nterms`), inner node `i` has id
`nterms + i + 1`; ids are assigned bottom-up (children have smaller ids and larger levels) -/
def WFNodesA (nterms nvars : Nat) (all : List SNode) : Prop :=
  nterms + all.length < isizeMax ∧ nvars ≤ levelMax ∧
  ∀ i (h : i < all.length), ∃ t e : Int, all[i].children = [t, e] ∧ t ≠ 0 ∧ t.natAbs < nterms + i + 1 ∧ e ≠ 0 ∧
    e.natAbs < nterms + i + 1 ∧ all[i].level < nvars ∧
    all[i].level < levelOfId nterms all t.natAbs ∧ all[i].level < levelOfId nterms all e.natAbs

/-- a terminal descriptor that survives the line tokeniser: non-empty, ASCII, no blank / tab / LF / CR -/
def DescSafe (d : List Nat) : Prop := d ≠ [] ∧ ∀ b ∈ d, b < 128 ∧ b ≠ 32 ∧ b ≠ 9 ∧ b ≠ 10 ∧ b ≠ 13

instance (d : List Nat) : Decidable (DescSafe d) := by unfold DescSafe; exact inferInstance

/-! ## the tokeniser on clean input -/

/-- `read_until(b'\n')` + popping trailing `\n` / `\r` returns a line without LF / CR unchanged -/
theorem readLine_clean (ln rest : List Nat) (h : ∀ b ∈ ln, b ≠ 10 ∧ b ≠ 13) :
    readLine (ln ++ 10 :: rest) = some (ln, rest) := by
  have hno : ∀ b ∈ ln, (decide (b ≠ 10)) = true := by
    intro b hb; simpa using (h b hb).1
  have hne : ln ++ 10 :: rest ≠ [] := by simp
  have htw : (ln ++ 10 :: rest).takeWhile (· ≠ 10) = ln := by
    rw [List.takeWhile_append_of_pos hno]; simp
  have hdw : (ln ++ 10 :: rest).dropWhile (· ≠ 10) = 10 :: rest := by
    rw [List.dropWhile_append_of_pos hno]; simp
  unfold readLine
  rw [if_neg hne]
  simp only [htw, hdw, List.drop_one, List.tail_cons]
  have hpop : ln.reverse.dropWhile (fun b => b = 10 || b = 13) = ln.reverse := by
    cases hr : ln.reverse with
    | nil => rfl
    | cons c tl =>
      have hc : c ∈ ln := by rw [← List.mem_reverse, hr]; simp
      have := h c hc
      rw [List.dropWhile_cons_of_neg (by simp [this.1, this.2])]
  rw [hpop, List.reverse_reverse]

theorem digit_not_blank {c : Nat} (h : 48 ≤ c ∧ c ≤ 57) : isBlank c = false := by
  simp only [isBlank, Bool.or_eq_false_iff, decide_eq_false_iff_not]; omega

theorem trimStart_cons_of_not_blank (c : Nat) (r : List Nat) (h : isBlank c = false) :
    trimStart (c :: r) = c :: r := by
  simp [trimStart, h]

theorem trimStart_decBytes (n : Nat) (r : List Nat) : trimStart (decBytes n ++ r) = decBytes n ++ r := by
  obtain ⟨c, rest, hcr, hcd⟩ := decBytes_head_digit n
  rw [hcr]
  exact trimStart_cons_of_not_blank c _ (digit_not_blank ((isDigit_iff c).1 hcd))

theorem trimStart_sp_decBytes (n : Nat) (r : List Nat) : trimStart (32 :: (decBytes n ++ r)) = decBytes n ++ r := by
  show (if isBlank 32 then trimStart (decBytes n ++ r) else _) = _
  rw [if_pos (by decide), trimStart_decBytes]

/-- `memchr2(b' ', b'\t')` split after a blank-free token -/
theorem splitBlank_tok (tok rest : List Nat) (h : ∀ b ∈ tok, isBlank b = false) :
    splitBlank (tok ++ 32 :: rest) = some (tok, rest) := by
  have hnb : ∀ b ∈ tok, (!isBlank b) = true := by
    intro b hb; simp [h b hb]
  have htw : (tok ++ 32 :: rest).takeWhile (fun b => !isBlank b) = tok := by
    rw [List.takeWhile_append_of_pos hnb]
    simp [isBlank]
  unfold splitBlank
  simp only [htw]
  rw [if_pos (by simp)]
  simp

theorem splitBlank_decBytes (v : Nat) (rest : List Nat) :
    splitBlank (decBytes v ++ 32 :: rest) = some (decBytes v, rest) :=
  splitBlank_tok _ _ (fun b hb => digit_not_blank (isDigits_decBytes v b hb))

theorem parseUnsigned_go_digits_end (max : Nat) : ∀ (ds : List Nat) (res : Nat) (num : Bool),
    IsDigits ds → valFrom res ds ≤ max → (ds ≠ [] ∨ num = true) →
    parseUnsigned.go max res num ds = .ok (valFrom res ds, []) := by
  intro ds
  induction ds with
  | nil =>
    intro res num _ _ hnum
    have hn : num = true := by rcases hnum with h | h; exact absurd rfl h; exact h
    subst hn
    simp [parseUnsigned.go, valFrom_nil]
  | cons c cs ih =>
    intro res num hd hv _
    have hc := hd c (by simp)
    have hcd : isDigit c = true := (isDigit_iff c).2 hc
    rw [valFrom_cons] at hv ⊢
    have hge := valFrom_ge cs (res * 10 + (c - 48))
    have hd' : IsDigits cs := fun d h => hd d (List.mem_cons_of_mem _ h)
    unfold parseUnsigned.go
    simp only [hcd, if_true]
    rw [if_neg (by omega)]
    exact ih _ true hd' hv (Or.inr rfl)

/-- `parse_u32` on a complete decimal token -/
theorem parseUnsigned_decBytes_end (max v : Nat) (h : v ≤ max) :
    parseUnsigned max (decBytes v) = .ok (v, []) := by
  unfold parseUnsigned
  rw [parseUnsigned_go_digits_end max (decBytes v) 0 false (isDigits_decBytes v)
    (by rw [valFrom_zero, valOf_decBytes]; exact h) (Or.inl (decBytes_ne_nil v)),
    valFrom_zero, valOf_decBytes]

/-! ## `parse_edge_list` -/

theorem parseEdgeList_go_digits (neg : Bool) (acc : List Int) (r : List Nat) :
    ∀ (ds : List Nat) (i : Nat) (num : Bool),
    IsDigits ds → valFrom i ds ≤ isizeMax → (ds ≠ [] ∨ num = true) →
    parseEdgeList.go i neg num acc (ds ++ r) = parseEdgeList.go (valFrom i ds) neg true acc r := by
  intro ds
  induction ds with
  | nil =>
    intro i num _ _ hnum
    have hn : num = true := by rcases hnum with h | h; exact absurd rfl h; exact h
    subst hn
    simp [valFrom_nil]
  | cons c cs ih =>
    intro i num hd hv _
    have hc := hd c (by simp)
    have hcd : isDigit c = true := (isDigit_iff c).2 hc
    rw [valFrom_cons] at hv ⊢
    have hge := valFrom_ge cs (i * 10 + (c - 48))
    have hd' : IsDigits cs := fun d h => hd d (List.mem_cons_of_mem _ h)
    rw [← ih _ true hd' hv (Or.inr rfl)]
    show parseEdgeList.go i neg num acc (c :: (cs ++ r)) = _
    rw [parseEdgeList.go]
    simp only [hcd, if_true]
    rw [if_neg (by omega)]

/-- one signed id, starting from the state after a separator -/
theorem parseEdgeList_go_int (x : Int) (hx : x.natAbs ≤ isizeMax) (acc : List Int) (r : List Nat) :
    parseEdgeList.go 0 false false acc (intBytes x ++ r)
      = parseEdgeList.go x.natAbs (decide (x < 0)) true acc r := by
  have hdig := parseEdgeList_go_digits (decide (x < 0)) acc r (decBytes x.natAbs) 0 false (isDigits_decBytes _)
    (by rw [valFrom_zero, valOf_decBytes]; exact hx) (Or.inl (decBytes_ne_nil _))
  rw [valFrom_zero, valOf_decBytes] at hdig
  unfold intBytes
  by_cases hneg : x < 0
  · rw [if_pos hneg]
    simp only [hneg, decide_true] at hdig ⊢
    show parseEdgeList.go 0 false false acc (45 :: (decBytes x.natAbs ++ r)) = _
    rw [parseEdgeList.go]
    simp only [show isDigit 45 = false by decide]
    simpa using hdig
  · rw [if_neg hneg]
    simp only [hneg, decide_false] at hdig ⊢
    exact hdig

theorem signed_natAbs (x : Int) : (if decide (x < 0) = true then -((x.natAbs : Nat) : Int) else (x.natAbs : Int)) = x := by
  by_cases h : x < 0
  · simp only [h, decide_true, if_true]; omega
  · simp only [h, decide_false]; simp only [Bool.false_eq_true, if_false]; omega

/-- the two signed child ids as the exporter writes them (after the importer consumed the blank
behind the variable index) -/
theorem parseEdgeList_pair (t e : Int) (ht : t.natAbs ≤ isizeMax) (he : e.natAbs ≤ isizeMax) :
    parseEdgeList (intBytes t ++ 32 :: intBytes e) = .ok [t, e] := by
  unfold parseEdgeList
  rw [parseEdgeList_go_int t ht]
  rw [parseEdgeList.go]
  simp only [show isDigit 32 = false by decide, show isBlank 32 = true by decide, if_true]
  simp only [show ((32 : Nat) = 45) = False by decide, if_false, Bool.false_eq_true]
  have he' := parseEdgeList_go_int e he [if decide (t < 0) = true then -((t.natAbs : Nat) : Int) else (t.natAbs : Int)] []
  rw [List.append_nil] at he'
  rw [he', parseEdgeList.go]
  simp only [if_true, signed_natAbs, List.reverse_cons, List.reverse_nil, List.nil_append, List.singleton_append]

/-! ## one line -/

theorem descSafe_not_blank {d : List Nat} (h : DescSafe d) : ∀ b ∈ d, isBlank b = false := by
  intro b hb
  have := h.2 b hb
  simp only [isBlank, Bool.or_eq_false_iff, decide_eq_false_iff_not]; omega

theorem trimStart_desc {d : List Nat} (h : DescSafe d) (rest : List Nat) : trimStart (d ++ rest) = d ++ rest := by
  cases hd : d with
  | nil => exact absurd hd h.1
  | cons c t =>
    exact trimStart_cons_of_not_blank c _ (descSafe_not_blank h c (by rw [hd]; simp))

/-- a terminal line: the importer hands exactly the descriptor to `Terminal::parse` -/
theorem importAsciiLine_term {E : Type} (A : Alg E) (hA : A.arity = 2) (slm : List Nat) (nodes : List E)
    (id : Nat) (hid : id < usize64) {tok : List Nat} (hs : DescSafe tok) (x : E)
    (hp : A.parseTerminal tok = some x) :
    importAsciiLine A 4 slm id nodes (termLine id tok) = .ok x := by
  unfold importAsciiLine termLine
  rw [parseUnsigned_decBytes _ id (by omega)]
  simp only [ne_eq, not_true_eq_false, if_false]
  have ht1 : trimStart (32 :: (tok ++ [32, 48, 32, 48])) = tok ++ [32, 48, 32, 48] := by
    show (if isBlank 32 then trimStart (tok ++ [32, 48, 32, 48]) else _) = _
    rw [if_pos (by decide), trimStart_desc hs]
  rw [ht1, trimStart_desc hs]
  have hsp := splitBlank_tok tok [48, 32, 48] (descSafe_not_blank hs)
  have he : tok ++ [32, 48, 32, 48] = tok ++ 32 :: [48, 32, 48] := rfl
  rw [he, hsp]
  have hel : parseEdgeList [48, 32, 48] = .ok [0, 0] := by decide
  simp only [hel]
  rw [if_neg (by rw [hA]; decide), if_pos (by decide),
    if_neg (by rw [utf8Lossy_ascii (fun b hb => (hs.2 b hb).1)]; simp), hp]

theorem readLine_termLine' (id : Nat) {tok : List Nat} (h : DescSafe tok) (rest : List Nat) :
    readLine (termLine id tok ++ 10 :: rest) = some (termLine id tok, rest) := by
  apply readLine_clean
  intro b hb
  simp only [termLine, List.mem_append, List.mem_cons] at hb
  rcases hb with hb | hb | hb | hb
  · have := isDigits_decBytes id b hb; omega
  · omega
  · have := h.2 b hb; omega
  · simp at hb; omega

/-- the line of an inner node (without the line feed) -/
def nodeLine (id v : Nat) (t e : Int) : List Nat :=
  decBytes id ++ 32 :: (decBytes v ++ 32 :: (intBytes t ++ 32 :: intBytes e))

theorem asciiNodeRecord_eq (supp : List Nat) (id : Nat) (n : SNode) (t e : Int) (hch : n.children = [t, e]) :
    asciiNodeRecord supp id n = nodeLine id (suppIdx supp n.level) t e ++ [10] := by
  simp [asciiNodeRecord, nodeLine, joinSp, sp, nl, hch]

theorem intBytes_clean (x : Int) : ∀ b ∈ intBytes x, b ≠ 10 ∧ b ≠ 13 := by
  intro b hb
  unfold intBytes at hb
  split at hb
  · rcases List.mem_cons.mp hb with hb | hb
    · omega
    · have := isDigits_decBytes _ b hb; omega
  · have := isDigits_decBytes _ b hb; omega

theorem readLine_nodeLine (id v : Nat) (t e : Int) (rest : List Nat) :
    readLine (nodeLine id v t e ++ 10 :: rest) = some (nodeLine id v t e, rest) := by
  apply readLine_clean
  intro b hb
  simp only [nodeLine, List.mem_append, List.mem_cons] at hb
  rcases hb with hb | hb | hb | hb | hb | hb | hb
  · have := isDigits_decBytes id b hb; omega
  · omega
  · have := isDigits_decBytes v b hb; omega
  · omega
  · exact intBytes_clean t b hb
  · omega
  · exact intBytes_clean e b hb

theorem asciiChildren_pair {E : Type} (A : Alg E) (lvl id : Nat) (acc : List E) (t e : Int) (te ee : E)
    (htlt : t.natAbs < id) (helt : e.natAbs < id)
    (hte : acc[t.natAbs - 1]? = some te) (hee : acc[e.natAbs - 1]? = some ee)
    (hlt : lvl < A.level (if t < 0 then A.complement te else te))
    (hle : lvl < A.level (if e < 0 then A.complement ee else ee)) :
    asciiChildren A lvl id acc [t, e]
      = .ok [if t < 0 then A.complement te else te, if e < 0 then A.complement ee else ee] := by
  simp only [asciiChildren, hte, hee]
  rw [if_neg (by omega), if_neg (by omega), if_neg (by omega), if_neg (by omega)]

/-- an inner-node line -/
theorem importAsciiLine_node {E : Type} (A : Alg E) (hA : A.arity = 2) (slm : List Nat) (id : Nat) (acc : List E)
    (v : Nat) (t e : Int) (lvl : Nat) (te ee : E)
    (hid : id ≤ isizeMax) (hv : v ≤ u32Max) (hslm : slm[v]? = some lvl)
    (ht0 : t ≠ 0) (he0 : e ≠ 0) (htlt : t.natAbs < id) (helt : e.natAbs < id)
    (hte : acc[t.natAbs - 1]? = some te) (hee : acc[e.natAbs - 1]? = some ee)
    (hlt : lvl < A.level (if t < 0 then A.complement te else te))
    (hle : lvl < A.level (if e < 0 then A.complement ee else ee)) :
    importAsciiLine A 4 slm id acc (nodeLine id v t e)
      = .ok (A.reduce lvl [if t < 0 then A.complement te else te, if e < 0 then A.complement ee else ee]) := by
  unfold importAsciiLine nodeLine
  rw [parseUnsigned_decBytes _ id (by unfold isizeMax at hid; unfold usize64; omega)]
  simp only [ne_eq, not_true_eq_false, if_false]
  rw [trimStart_sp_decBytes, trimStart_decBytes, splitBlank_decBytes]
  simp only
  rw [parseEdgeList_pair t e (by omega) (by omega)]
  simp only
  have hc0 : [t, e].contains 0 = false := by
    simp only [List.contains_cons, List.contains_nil, Bool.or_false, Bool.or_eq_false_iff, beq_eq_false_iff_ne, ne_eq]
    exact ⟨fun h => ht0 h.symm, fun h => he0 h.symm⟩
  rw [if_neg (by rw [hA]; simp), hc0]
  simp only [Bool.false_eq_true, if_false]
  rw [parseUnsigned_decBytes_end _ v hv]
  simp only [hslm]
  rw [asciiChildren_pair A lvl id acc t e te ee htlt helt hte hee hlt hle]

/-! ## levels of ids, with `nterms` terminals -/

theorem levelOfId_termA (nterms : Nat) (all : List SNode) (id : Nat) (h : id ≤ nterms) :
    levelOfId nterms all id = levelMax := by
  simp [levelOfId, h]

theorem levelOfId_innerA (nterms : Nat) (all : List SNode) (id : Nat) (h1 : nterms < id)
    (h2 : id - nterms - 1 < all.length) :
    levelOfId nterms all id = (all[id - nterms - 1]'h2).level := by
  have : ¬ id ≤ nterms := by omega
  simp [levelOfId, this, List.getElem?_eq_getElem h2]

theorem levelOfId_domA (nterms nvars : Nat) (all : List SNode) (hw : WFNodesA nterms nvars all) (id : Nat)
    (h : id < nterms + all.length + 1) :
    levelOfId nterms all id = levelMax ∨ levelOfId nterms all id ∈ suppLevels nvars all := by
  by_cases h1 : id ≤ nterms
  · left; exact levelOfId_termA nterms all id h1
  · right
    have h2 : id - nterms - 1 < all.length := by omega
    rw [levelOfId_innerA nterms all id (by omega) h2]
    obtain ⟨t, e, _, _, _, _, _, hl, _, _⟩ := hw.2.2 (id - nterms - 1) h2
    exact mem_suppLevels nvars all _ (List.getElem_mem _) hl

theorem suppLevels_length_le (nvars : Nat) (nodes : List SNode) : (suppLevels nvars nodes).length ≤ nvars := by
  unfold suppLevels
  have := List.length_filter_le (fun l => nodes.any (fun n => decide (n.level = l))) (List.range nvars)
  simpa using this

/-! ## the loops -/

/-- invariant of the ASCII loop after the terminals and `k` inner nodes -/
def LoopInvA {E : Type} (A : Alg E) (supp slm : List Nat) (nterms : Nat) (all : List SNode) (k : Nat)
    (acc : List E) : Prop :=
  acc.length = nterms + k ∧
  ∀ id, 1 ≤ id → id ≤ nterms + k →
    ∃ x, acc[id - 1]? = some x ∧ A.level x = tlev supp slm (levelOfId nterms all id)

theorem asciiNodeRecords_cons (supp : List Nat) (id : Nat) (n : SNode) (rest : List SNode) (t e : Int)
    (hch : n.children = [t, e]) (r : List Nat) :
    asciiNodeRecords supp id (n :: rest) ++ r
      = nodeLine id (suppIdx supp n.level) t e ++ 10 :: (asciiNodeRecords supp (id + 1) rest ++ r) := by
  simp [asciiNodeRecords, asciiNodeRecord_eq supp id n t e hch]

theorem importAsciiLoop_nodeRecords {E : Type} (A : Alg E) (hA : A.arity = 2) (nterms nvars numLevels : Nat)
    (slm : List Nat) (all : List SNode) (r : List Nat)
    (hw : WFNodesA nterms nvars all) (M : LevelMaps (suppLevels nvars all) slm numLevels)
    (hred : ∀ l cs, A.level (A.reduce l cs) = l) (hcl : ∀ x, A.level (A.complement x) = A.level x) :
    ∀ (m k : Nat) (acc : List E), k + m = all.length → LoopInvA A (suppLevels nvars all) slm nterms all k acc →
      ∃ built, buildNodesA A (tlev (suppLevels nvars all) slm) (all.drop k) acc = some built ∧
        importAsciiLoop A 4 slm m (nterms + k + 1) acc
          (asciiNodeRecords (suppLevels nvars all) (nterms + k + 1) (all.drop k) ++ r) = .ok (built, r) := by
  intro m
  induction m with
  | zero =>
    intro k acc hk _
    have : all.drop k = [] := List.drop_eq_nil_of_le (by omega)
    rw [this]
    exact ⟨acc, rfl, by simp [asciiNodeRecords, importAsciiLoop]⟩
  | succ m ih =>
    intro k acc hk hinv
    have hkl : k < all.length := by omega
    rw [List.drop_eq_getElem_cons hkl]
    obtain ⟨t, e, hch, ht0, htlt, he0, helt, hlv, hLt, hLe⟩ := hw.2.2 k hkl
    have htpos : 0 < t.natAbs := by omega
    have hepos : 0 < e.natAbs := by omega
    obtain ⟨te, hte, hlte⟩ := hinv.2 t.natAbs (by omega) (by omega)
    obtain ⟨ee, hee, hlee⟩ := hinv.2 e.natAbs (by omega) (by omega)
    have hmem : all[k].level ∈ suppLevels nvars all := mem_suppLevels nvars all _ (List.getElem_mem _) hlv
    have hne : all[k].level ≠ levelMax := by have := hw.2.1; omega
    obtain ⟨hvl, etl, _⟩ := tlev_of_mem M _ hmem hne
    have hslm : slm[suppIdx (suppLevels nvars all) all[k].level]?
        = some (tlev (suppLevels nvars all) slm all[k].level) := by
      rw [etl]; exact List.getElem?_eq_getElem hvl
    have hv32 : suppIdx (suppLevels nvars all) all[k].level ≤ u32Max := by
      have h1 := suppIdx_lt_length _ M.hsupp _ hmem
      have h2 := suppLevels_length_le nvars all
      have h3 := hw.2.1
      unfold levelMax at h3; unfold u32Max; omega
    have hlt : tlev (suppLevels nvars all) slm all[k].level < A.level (if t < 0 then A.complement te else te) := by
      have : A.level (if t < 0 then A.complement te else te) = A.level te := by
        split
        · exact hcl te
        · rfl
      rw [this, hlte]
      exact tlev_strict M _ _ hmem (levelOfId_domA nterms nvars all hw _ (by omega)) hLt
    have hle : tlev (suppLevels nvars all) slm all[k].level < A.level (if e < 0 then A.complement ee else ee) := by
      have : A.level (if e < 0 then A.complement ee else ee) = A.level ee := by
        split
        · exact hcl ee
        · rfl
      rw [this, hlee]
      exact tlev_strict M _ _ hmem (levelOfId_domA nterms nvars all hw _ (by omega)) hLe
    have hstep := importAsciiLine_node A hA slm (nterms + k + 1) acc (suppIdx (suppLevels nvars all) all[k].level) t e
      (tlev (suppLevels nvars all) slm all[k].level) te ee (by have := hw.1; omega) hv32 hslm ht0 he0 htlt helt
      hte hee hlt hle
    generalize hx : A.reduce (tlev (suppLevels nvars all) slm all[k].level)
      [if t < 0 then A.complement te else te, if e < 0 then A.complement ee else ee] = x at hstep
    have hinv' : LoopInvA A (suppLevels nvars all) slm nterms all (k + 1) (acc ++ [x]) := by
      refine ⟨by simp [hinv.1]; omega, ?_⟩
      intro id h1 h2
      by_cases hid : id ≤ nterms + k
      · obtain ⟨y, hy, hly⟩ := hinv.2 id h1 hid
        refine ⟨y, ?_, hly⟩
        rw [List.getElem?_append_left (by rw [hinv.1]; omega)]
        exact hy
      · have hid' : id = nterms + k + 1 := by omega
        subst hid'
        refine ⟨x, ?_, ?_⟩
        · have : nterms + k + 1 - 1 = acc.length := by rw [hinv.1]; omega
          rw [this]; simp
        · have hidx : nterms + k + 1 - nterms - 1 = k := by omega
          rw [levelOfId_innerA nterms all (nterms + k + 1) (by omega) (by rw [hidx]; exact hkl)]
          rw [← hx, hred]
          simp only [hidx]
    obtain ⟨built, hb, hl⟩ := ih (k + 1) (acc ++ [x]) (by omega) hinv'
    refine ⟨built, ?_, ?_⟩
    · simp only [buildNodesA, buildNodeA, hch, hte, hee, hx]
      exact hb
    · rw [asciiNodeRecords_cons _ _ _ _ t e hch]
      unfold importAsciiLoop
      rw [readLine_nodeLine]
      simp only [hstep]
      exact hl

/-- the terminal lines -/
theorem importAsciiLoop_termRecords {E : Type} (A : Alg E) (hA : A.arity = 2) (slm : List Nat)
    (terms : List (List Nat)) (termsE : List E) (hlen : terms.length = termsE.length)
    (hterms : ∀ k (h : k < terms.length), DescSafe terms[k] ∧
        A.parseTerminal terms[k] = some (termsE[k]'(hlen ▸ h)))
    (hb : terms.length < usize64) (q : Nat) (R : List Nat) :
    ∀ (m k : Nat), k + m = terms.length →
      importAsciiLoop A 4 slm (m + q) (k + 1) (termsE.take k) (asciiTermRecords (k + 1) (terms.drop k) ++ R)
        = importAsciiLoop A 4 slm q (terms.length + 1) termsE R := by
  intro m
  induction m with
  | zero =>
    intro k hk
    have hk' : k = terms.length := by omega
    subst hk'
    rw [List.drop_eq_nil_of_le (Nat.le_refl _), List.take_of_length_le (by omega)]
    simp [asciiTermRecords]
  | succ m ih =>
    intro k hk
    have hkl : k < terms.length := by omega
    have hkE : k < termsE.length := by omega
    obtain ⟨hs, hp⟩ := hterms k hkl
    rw [List.drop_eq_getElem_cons hkl, asciiTermRecords_cons, List.append_assoc]
    have hmq : m + 1 + q = (m + q) + 1 := by omega
    rw [hmq]
    conv => lhs; unfold importAsciiLoop
    rw [List.cons_append, readLine_termLine' (k + 1) hs]
    simp only [importAsciiLine_term A hA slm _ (k + 1) (by omega) hs _ hp]
    have htake : termsE.take k ++ [termsE[k]] = termsE.take (k + 1) := by
      rw [List.take_add_one, List.getElem?_eq_getElem hkE]; rfl
    rw [htake]
    exact ih (k + 1) (by omega)

/-- **importAscii_nodeSection.** The ASCII node section of the exporter, read back by the node loop
of `import_ascii`: the result is the terminals followed by the reference edges `buildNodesA`, and
exactly the node section is consumed. -/
theorem importAscii_nodeSection {E : Type} (A : Alg E) (hA : A.arity = 2) (termsE : List E)
    (nvars numLevels : Nat) (slm : List Nat) (d : Diagram) (r : List Nat)
    (hlen : d.terms.length = termsE.length)
    (hterms : ∀ k (h : k < d.terms.length), DescSafe d.terms[k] ∧
        A.parseTerminal d.terms[k] = some (termsE[k]'(hlen ▸ h)) ∧ A.level (termsE[k]'(hlen ▸ h)) = levelMax)
    (hred : ∀ l cs, A.level (A.reduce l cs) = l) (hcl : ∀ x, A.level (A.complement x) = A.level x)
    (hw : WFNodesA d.terms.length nvars d.nodes)
    (M : LevelMaps (suppLevels nvars d.nodes) slm numLevels) :
    ∃ built, buildNodesA A (tlev (suppLevels nvars d.nodes) slm) d.nodes termsE = some built ∧
      importAsciiLoop A 4 slm (d.terms.length + d.nodes.length) 1 [] (nodeSection true nvars d ++ r) = .ok (built, r) := by
  have hinv : LoopInvA A (suppLevels nvars d.nodes) slm d.terms.length d.nodes 0 termsE := by
    refine ⟨by omega, ?_⟩
    intro id h1 h2
    have hk : id - 1 < d.terms.length := by omega
    obtain ⟨_, _, hl⟩ := hterms (id - 1) hk
    refine ⟨termsE[id - 1]'(hlen ▸ hk), List.getElem?_eq_getElem _, ?_⟩
    rw [levelOfId_termA _ _ _ (by omega), tlev_levelMax]
    exact hl
  obtain ⟨built, hb, hl⟩ := importAsciiLoop_nodeRecords A hA d.terms.length nvars numLevels slm d.nodes r hw M
    hred hcl d.nodes.length 0 termsE (by omega) hinv
  refine ⟨built, by simpa using hb, ?_⟩
  have ht := importAsciiLoop_termRecords A hA slm d.terms termsE hlen (fun k h => ⟨(hterms k h).1, (hterms k h).2.1⟩)
    (by have := hw.1; unfold isizeMax at this; unfold usize64; omega) d.nodes.length
    (asciiNodeRecords (suppLevels nvars d.nodes) (d.terms.length + 1) d.nodes ++ r) d.terms.length 0 (by omega)
  simp only [nodeSection, if_true, List.append_assoc]
  simp only [Nat.zero_add, List.take_zero, List.drop_zero] at ht
  rw [ht]
  simpa using hl

/-! ## non-vacuity: two terminals, complement marks, a tiny free algebra -/

/-- unreduced trees over numbered terminals with an explicit complement constructor -/
inductive T2 where
  | term (n : Nat)
  | neg (x : T2)
  | node (l : Nat) (t e : T2)
deriving DecidableEq, Repr

def T2.level : T2 → Nat
  | .term _ => levelMax
  | .neg x => x.level
  | .node l _ _ => l

/-- terminals `a` and `b`; nothing is reduced -/
def alg2 : Alg T2 where
  level := T2.level
  complement := .neg
  reduce l cs :=
    match cs with
    | [t, e] => .node l t e
    | _ => .node l (.term 0) (.term 0)
  parseTerminal s := if s = [97] then some (.term 0) else if s = [98] then some (.term 1) else none
  arity := 2

/-- ids 1, 2: the terminals `a`, `b`; id 3: node at level 2 over (1, 2); id 4: node at level 0 over (3, ¬2) -/
def dEx : Diagram := { terms := [[97], [98]], nodes := [⟨2, [1, 2]⟩, ⟨0, [3, -2]⟩], roots := [4], rootNames := none }

/-- the bytes: `1 a 0 0⏎2 b 0 0⏎3 1 1 2⏎4 0 3 -2⏎` -/
example : nodeSection true 3 dEx =
    [49, 32, 97, 32, 48, 32, 48, 10, 50, 32, 98, 32, 48, 32, 48, 10,
     51, 32, 49, 32, 49, 32, 50, 10, 52, 32, 48, 32, 51, 32, 45, 50, 10] := by decide

/-- the importer on these bytes (support levels 0, 2 go to the target levels 1, 5) -/
example : importAsciiLoop alg2 4 [1, 5] 4 1 [] (nodeSection true 3 dEx ++ [46, 101, 110, 100, 10])
    = .ok ([.term 0, .term 1, .node 5 (.term 0) (.term 1), .node 1 (.node 5 (.term 0) (.term 1)) (.neg (.term 1))],
           [46, 101, 110, 100, 10]) := by decide

theorem wfNodesA_dEx : WFNodesA 2 3 dEx.nodes := by
  refine ⟨by decide, by decide, ?_⟩
  intro i h
  match i, h with
  | 0, _ =>
    exact ⟨1, 2, rfl, by decide, by decide, by decide, by decide, (by decide : (2 : Nat) < 3),
      (by decide : 2 < levelOfId 2 dEx.nodes 1), (by decide : 2 < levelOfId 2 dEx.nodes 2)⟩
  | 1, _ =>
    exact ⟨3, -2, rfl, by decide, by decide, by decide, by decide, (by decide : (0 : Nat) < 3),
      (by decide : 0 < levelOfId 2 dEx.nodes 3), (by decide : 0 < levelOfId 2 dEx.nodes 2)⟩

/-- all hypotheses of `importAscii_nodeSection` are satisfiable together (and the reference value
is the one computed above) -/
example : ∃ built,
    buildNodesA alg2 (tlev (suppLevels 3 dEx.nodes) [1, 5]) dEx.nodes [.term 0, .term 1] = some built ∧
    importAsciiLoop alg2 4 [1, 5] (dEx.terms.length + dEx.nodes.length) 1 []
      (nodeSection true 3 dEx ++ [46, 101, 110, 100, 10]) = .ok (built, [46, 101, 110, 100, 10]) :=
  importAscii_nodeSection alg2 rfl [.term 0, .term 1] 3 6 [1, 5] dEx [46, 101, 110, 100, 10] rfl
    (by
      intro k h
      match k, h with
      | 0, _ => exact ⟨(by decide : DescSafe [97]), rfl, rfl⟩
      | 1, _ => exact ⟨(by decide : DescSafe [98]), rfl, rfl⟩)
    (by intro l cs; unfold alg2; simp only; split <;> rfl)
    (fun _ => rfl)
    wfNodesA_dEx
    { hsupp := by decide, hslm := by decide, hlen := by decide, hbound := by decide, hnl := by decide,
      hsl := by decide, hsb := by decide }

example : buildNodesA alg2 (tlev (suppLevels 3 dEx.nodes) [1, 5]) dEx.nodes [.term 0, .term 1]
    = some [.term 0, .term 1, .node 5 (.term 0) (.term 1), .node 1 (.node 5 (.term 0) (.term 1)) (.neg (.term 1))] := by
  decide

end OxiddModel.Dddmp
