import OxiddModel.Dddmp.Model

/-! Helper lemmas for the byte-level codecs of the DDDMP model (escaping, 7-bit integers,
node-code byte, id codes). -/
namespace OxiddModel.Dddmp

/-! ### escaping -/

theorem readUnescape_escByte (c : Nat) (r : List Nat) : readUnescape (escByte c ++ r) = .ok (c, r) := by
  unfold escByte
  by_cases h0 : c = 0
  · subst h0; simp [readUnescape]
  by_cases h1 : c = 10
  · subst h1; simp [readUnescape]
  by_cases h2 : c = 13
  · subst h2; simp [readUnescape]
  by_cases h3 : c = 26
  · subst h3; simp [readUnescape]
  simp [h0, h1, h2, h3, readUnescape]

theorem readUnescape_length {inp : List Nat} {b : Nat} {r : List Nat}
    (h : readUnescape inp = .ok (b, r)) : r.length < inp.length := by
  match inp with
  | [] => simp [readUnescape] at h
  | x :: rest =>
    unfold readUnescape at h
    by_cases hx : x ≠ 0
    · simp [hx] at h; obtain ⟨_, rfl⟩ := h; simp
    · simp only [hx, ↓reduceIte] at h
      match rest with
      | [] => simp at h
      | c :: r' =>
        simp only at h
        split at h
        · simp at h; obtain ⟨_, rfl⟩ := h; simp; omega
        · split at h
          · simp at h; obtain ⟨_, rfl⟩ := h; simp; omega
          · split at h
            · simp at h; obtain ⟨_, rfl⟩ := h; simp; omega
            · split at h
              · simp at h; obtain ⟨_, rfl⟩ := h; simp; omega
              · simp at h

theorem escByte_length_pos (c : Nat) : 0 < (escByte c).length := by
  unfold escByte; split <;> (try split) <;> (try split) <;> (try split) <;> simp

theorem writeEscaped_append (a b : List Nat) : writeEscaped (a ++ b) = writeEscaped a ++ writeEscaped b := by
  induction a with
  | nil => simp [writeEscaped]
  | cons x xs ih => simp [writeEscaped, ih]

theorem writeEscaped_length_ge (a : List Nat) : a.length ≤ (writeEscaped a).length := by
  induction a with
  | nil => simp [writeEscaped]
  | cons x xs ih =>
    simp only [writeEscaped, List.length_cons, List.length_append]
    have := escByte_length_pos x
    omega

theorem unescapeAll_writeEscaped (l : List Nat) (fuel : Nat) (h : l.length < fuel) :
    unescapeAll fuel (writeEscaped l) = .ok l := by
  induction l generalizing fuel with
  | nil =>
    match fuel with
    | 0 => omega
    | f + 1 => simp [writeEscaped, unescapeAll]
  | cons x xs ih =>
    match fuel with
    | 0 => omega
    | f + 1 =>
      have hne : writeEscaped (x :: xs) ≠ [] := by
        intro h0
        have := writeEscaped_length_ge (x :: xs)
        rw [h0] at this; simp at this
      unfold unescapeAll
      split
      · contradiction
      · simp only [writeEscaped, readUnescape_escByte]
        rw [ih f (by simp at h; omega)]

/-! ### 7-bit integers -/

/-- with enough fuel the result of `dec7Go` does not depend on the fuel -/
theorem dec7Go_fuel (inp : List Nat) : ∀ (f f' res : Nat), inp.length < f → inp.length < f' →
    dec7Go f res inp = dec7Go f' res inp := by
  induction h : inp.length using Nat.strongRecOn generalizing inp with
  | _ n ih =>
    intro f f' res hf hf'
    match f, f' with
    | 0, _ => omega
    | _, 0 => omega
    | f + 1, f' + 1 =>
      unfold dec7Go
      match hr : readUnescape inp with
      | .err => rfl
      | .panic => rfl
      | .ok (b, r) =>
        simp only
        split
        · rfl
        · have hl := readUnescape_length hr
          exact ih r.length (by omega) r rfl f f' _ (by omega) (by omega)

/-- one unfolding of `dec7Go` on an escaped byte, with normalised fuel -/
theorem dec7Go_step (c : Nat) (rest : List Nat) (res f : Nat) (hf : (escByte c ++ rest).length < f) :
    dec7Go f res (escByte c ++ rest) =
      if c % 2 = 0 then .ok ((res * 128) % usize64 + c / 2, rest)
      else dec7Go (rest.length + 1) ((res * 128) % usize64 + c / 2) rest := by
  match f with
  | 0 => omega
  | f + 1 =>
    conv => lhs; unfold dec7Go
    rw [readUnescape_escByte]
    simp only
    split
    · rfl
    · apply dec7Go_fuel
      · have := escByte_length_pos c
        simp at hf; omega
      · omega

theorem enc7Go_zero (f : Nat) (acc : List Nat) : enc7Go f 0 acc = acc := by
  cases f <;> simp [enc7Go]

theorem enc7Go_fuel (v : Nat) : ∀ (f : Nat) (acc : List Nat), v ≤ f → enc7Go f v acc = enc7Go v v acc := by
  induction v using Nat.strongRecOn with
  | _ v ih =>
    intro f acc hf
    cases v with
    | zero => simp [enc7Go_zero]
    | succ v =>
      cases f with
      | zero => omega
      | succ f =>
        have h : v + 1 ≠ 0 := by omega
        simp only [enc7Go, h, ↓reduceIte]
        have hlt : (v + 1) / 128 < v + 1 := Nat.div_lt_self (by omega) (by decide)
        rw [ih _ hlt f _ (by omega), ih _ hlt v _ (by omega)]

theorem enc7Go_pos (v : Nat) (acc : List Nat) (h : v ≠ 0) :
    enc7Go v v acc = enc7Go (v / 128) (v / 128) (((v % 128) * 2 + 1) :: acc) := by
  cases v with
  | zero => exact absurd rfl h
  | succ v =>
    simp only [enc7Go, h, ↓reduceIte]
    have hlt : (v + 1) / 128 < v + 1 := Nat.div_lt_self (by omega) (by decide)
    exact enc7Go_fuel _ v _ (by omega)

/-- decoding the groups written by `enc7Go v` from accumulator `0` leaves accumulator `v` -/
theorem dec7Go_enc7Go (v : Nat) (hv : v < usize64) (acc r : List Nat) :
    dec7Go ((writeEscaped (enc7Go v v acc) ++ r).length + 1) 0 (writeEscaped (enc7Go v v acc) ++ r)
      = dec7Go ((writeEscaped acc ++ r).length + 1) v (writeEscaped acc ++ r) := by
  induction v using Nat.strongRecOn generalizing acc with
  | _ v ih =>
    by_cases h : v = 0
    · subst h; simp [enc7Go_zero]
    · rw [enc7Go_pos v acc h]
      have hlt : v / 128 < v := Nat.div_lt_self (Nat.pos_of_ne_zero h) (by decide)
      rw [ih _ hlt (by omega)]
      simp only [writeEscaped, List.append_assoc]
      rw [dec7Go_step _ _ _ _ (by omega)]
      have hodd : ((v % 128) * 2 + 1) % 2 ≠ 0 := by omega
      simp only [hodd, ↓reduceIte]
      have hval : (v / 128 * 128) % usize64 + ((v % 128) * 2 + 1) / 2 = v := by
        have : v / 128 * 128 < usize64 := by omega
        rw [Nat.mod_eq_of_lt this]; omega
      rw [hval]

theorem decode7_encode7 (n : Nat) (hn : n < usize64) (r : List Nat) :
    decode7 (encode7 n ++ r) = .ok (n, r) := by
  unfold decode7 encode7 raw7
  rw [dec7Go_enc7Go (n / 128) (by omega)]
  simp only [writeEscaped, List.append_nil]
  rw [dec7Go_step _ _ _ _ (by omega)]
  have hev : ((n % 128) * 2) % 2 = 0 := by omega
  simp only [hev, ↓reduceIte]
  have : (n / 128 * 128) % usize64 + (n % 128) * 2 / 2 = n := by
    have : n / 128 * 128 < usize64 := by omega
    rw [Nat.mod_eq_of_lt this]; omega
  rw [this]

/-! ### codes -/

theorem decodeNodeCode_nodeCode (v t : Code) (ec : Bool) (e : Code) :
    decodeNodeCode (nodeCode v t ec e) = (v, t, ec, e) := by
  cases v <;> cases t <;> cases ec <;> cases e <;> decide



theorem readIdx_binIdx (g : Guards) (child nodeId : Nat) (r : List Nat)
    (h0 : 0 < child) (h1 : child < nodeId) (h2 : nodeId < usize64) :
    readIdx g (argBytes (binIdx 1 child nodeId) ++ r) nodeId (binIdx 1 child nodeId).1
      = .ok (child - 1, r) := by
  unfold binIdx
  by_cases hc : child ≤ 1
  · have : child = 1 := by omega
    subst this
    simp [argBytes, Code.hasArg, readIdx, idFinish]
    omega
  · simp only [hc, ↓reduceIte]
    by_cases hr1 : child = nodeId - 1
    · simp only [hr1, ↓reduceIte, argBytes, Code.hasArg, readIdx, idFinish]
      simp
      have : ¬ (nodeId - 1 = 0) := by omega
      simp [this]
      omega
    · simp only [hr1, ↓reduceIte]
      by_cases hr2 : nodeId - child < child
      · simp only [hr2, ↓reduceIte, argBytes, Code.hasArg, readIdx]
        rw [decode7_encode7 _ (by omega)]
        simp only
        have : ¬ (nodeId - child > nodeId) := by omega
        simp only [this, ↓reduceIte, idFinish]
        have e : nodeId - (nodeId - child) = child := by omega
        rw [e]
        have : ¬ (child = 0) := by omega
        have : ¬ (child ≥ nodeId) := by omega
        simp [*]
      · simp only [hr2, ↓reduceIte, argBytes, Code.hasArg, readIdx]
        rw [decode7_encode7 _ (by omega)]
        simp only [idFinish]
        have : ¬ (child = 0) := by omega
        have : ¬ (child ≥ nodeId) := by omega
        simp [*]

/-- the value of `vid` before `resolveVid`: the decoded argument, or `1` for `Relative1` -/
def vidRead (c : Code × Nat) : Nat := if c.1.hasArg then c.2 else 1

theorem varCodeOf_ne_terminal (vi : Nat) (m : Option Nat) : (varCodeOf vi m).1 ≠ .terminal := by
  unfold varCodeOf
  cases m with
  | none => simp
  | some m => simp only; split <;> (try split) <;> simp

theorem resolveVid_varCodeOf_none (vi : Nat) (lsm slm : List Nat) (h : vi < slm.length) :
    resolveVid (varCodeOf vi none).1 (vidRead (varCodeOf vi none)) levelMax lsm slm = .ok vi := by
  simp [varCodeOf, vidRead, Code.hasArg, resolveVid]
  omega

theorem resolveVid_varCodeOf_some (vi m minLevel : Nat) (lsm slm : List Nat)
    (h : vi < slm.length) (hm : vi < m) (hml : minLevel ≠ levelMax) (hl : lsm[minLevel]? = some m) :
    resolveVid (varCodeOf vi (some m)).1 (vidRead (varCodeOf vi (some m))) minLevel lsm slm = .ok vi := by
  unfold varCodeOf
  simp only
  by_cases h1 : vi = m - 1
  · simp only [h1, ↓reduceIte, vidRead, Code.hasArg, resolveVid]
    simp only [hml, hl]
    have hc : ¬ (m < 1) := by omega
    have hd : ¬ (m - 1 ≥ slm.length) := by omega
    simp [hc]
  · simp only [h1, ↓reduceIte]
    by_cases h2 : m - vi < vi
    · simp only [h2, ↓reduceIte, vidRead, Code.hasArg, resolveVid]
      simp only [hml, hl]
      have hc : ¬ (m < m - vi) := by omega
      have e : m - (m - vi) = vi := by omega
      have hd : ¬ (vi ≥ slm.length) := by omega
      simp [hc, e]
    · simp only [h2, ↓reduceIte, vidRead, Code.hasArg, resolveVid]
      have hd : ¬ (vi ≥ slm.length) := by omega
      simp [hd]

end OxiddModel.Dddmp
