import OxiddModel.Dddmp.Header

/-!
# Lemmas for the header reader: parser bounds, loop invariants, fuel adequacy (C15)
-/
namespace OxiddModel.Dddmp.Hdr
open OxiddModel.Dddmp

/-! ## parser bounds -/

theorem parseSingleGo_le (max : Nat) : ∀ (s : List Nat) (res : Nat) (num : Bool) (v : Nat),
    res ≤ max → parseSingleGo max res num s = .ok v → v ≤ max := by
  intro s
  induction s with
  | nil =>
    intro res num v hr h
    unfold parseSingleGo at h
    split at h
    · injection h with h; omega
    · cases h
  | cons c r ih =>
    intro res num v hr h
    unfold parseSingleGo at h
    split at h
    · simp only at h
      split at h
      · cases h
      · exact ih _ _ _ (by omega) h
    · cases h

theorem parseSingleC_le {max : Nat} {s : List Nat} {v : Nat} (h : parseSingleC max s = .ok v) : v ≤ max :=
  parseSingleGo_le max s 0 false v (Nat.zero_le _) h

theorem parseU32ListGo_le : ∀ (s : List Nat) (i : Nat) (num : Bool) (acc out : List Nat),
    i ≤ u32Max → (∀ x ∈ acc, x ≤ u32Max) → parseU32ListGo i num acc s = .ok out → ∀ x ∈ out, x ≤ u32Max := by
  intro s
  induction s with
  | nil =>
    intro i num acc out hi hacc h
    unfold parseU32ListGo at h
    injection h with h
    subst h
    intro x hx
    split at hx
    · simp only [List.reverse_cons, List.mem_append, List.mem_reverse, List.mem_singleton] at hx
      rcases hx with hx | hx
      · exact hacc x hx
      · omega
    · exact hacc x (List.mem_reverse.mp hx)
  | cons c r ih =>
    intro i num acc out hi hacc h
    unfold parseU32ListGo at h
    split at h
    · simp only at h
      split at h
      · cases h
      · exact ih _ _ _ _ (by omega) hacc h
    · split at h
      · split at h
        · refine ih _ _ _ _ (Nat.zero_le _) ?_ h
          intro x hx
          rcases List.mem_cons.mp hx with hx | hx
          · omega
          · exact hacc x hx
        · exact ih _ _ _ _ hi hacc h
      · cases h

theorem parseU32ListC_le {s out : List Nat} (h : parseU32ListC s = .ok out) : ∀ x ∈ out, x ≤ u32Max :=
  parseU32ListGo_le s 0 false [] out (Nat.zero_le _) (by intro x hx; cases hx) h

theorem parseEdgeListGo_le : ∀ (s : List Nat) (i : Nat) (neg num : Bool) (acc out : List Int),
    i ≤ isizeMax → (∀ x ∈ acc, x.natAbs ≤ isizeMax) → parseEdgeListGo i neg num acc s = .ok out →
    ∀ x ∈ out, x.natAbs ≤ isizeMax := by
  intro s
  induction s with
  | nil =>
    intro i neg num acc out hi hacc h
    unfold parseEdgeListGo at h
    injection h with h
    subst h
    intro x hx
    split at hx
    · simp only [List.reverse_cons, List.mem_append, List.mem_reverse, List.mem_singleton] at hx
      rcases hx with hx | hx
      · exact hacc x hx
      · subst hx; split <;> omega
    · exact hacc x (List.mem_reverse.mp hx)
  | cons c r ih =>
    intro i neg num acc out hi hacc h
    unfold parseEdgeListGo at h
    split at h
    · simp only at h
      split at h
      · cases h
      · exact ih _ _ _ _ _ (by omega) hacc h
    · split at h
      · split at h
        · cases h
        · split at h
          · cases h
          · exact ih _ _ _ _ _ hi hacc h
      · split at h
        · split at h
          · refine ih _ _ _ _ _ (Nat.zero_le _) ?_ h
            intro x hx
            rcases List.mem_cons.mp hx with hx | hx
            · subst hx; split <;> omega
            · exact hacc x hx
          · exact ih _ _ _ _ _ hi hacc h
        · cases h

theorem parseEdgeListC_le {s : List Nat} {out : List Int} (h : parseEdgeListC s = .ok out) :
    ∀ x ∈ out, x.natAbs ≤ isizeMax :=
  parseEdgeListGo_le s 0 false false [] out (Nat.zero_le _) (by intro x hx; cases hx) h

/-! ## `readLine` consumes input -/

theorem readLine_rest_lt {inp ln rest : List Nat} (h : readLine inp = some (ln, rest)) :
    rest.length < inp.length := by
  unfold readLine at h
  split at h
  · cases h
  · rename_i hne
    simp only [Option.some.injEq, Prod.mk.injEq] at h
    obtain ⟨_, hr⟩ := h
    subst hr
    cases inp with
    | nil => exact absurd rfl hne
    | cons a t =>
      have h1 : ((a :: t).dropWhile (· ≠ 10)).length ≤ (a :: t).length := by
        exact List.Sublist.length_le (List.dropWhile_sublist _)
      simp only [List.drop_one, List.length_tail]
      by_cases ha : a = 10
      · subst ha
        simp
      · have : (a :: t).dropWhile (· ≠ 10) = t.dropWhile (· ≠ 10) := by
          rw [List.dropWhile_cons_of_pos (by simpa using ha)]
        rw [this]
        have h2 : (t.dropWhile (· ≠ 10)).length ≤ t.length := List.Sublist.length_le (List.dropWhile_sublist _)
        simp only [List.length_cons]
        omega

/-- the rest after a line is a suffix of the input -/
theorem readLine_suffix {inp ln rest : List Nat} (h : readLine inp = some (ln, rest)) :
    ∃ pre, inp = pre ++ rest := by
  unfold readLine at h
  split at h
  · cases h
  · simp only [Option.some.injEq, Prod.mk.injEq] at h
    obtain ⟨_, hr⟩ := h
    subst hr
    refine ⟨inp.takeWhile (· ≠ 10) ++ (inp.dropWhile (· ≠ 10)).take 1, ?_⟩
    rw [List.append_assoc, List.take_append_drop, List.takeWhile_append_dropWhile]

/-! ## fuel adequacy -/

theorem loadLinesC_fuel : ∀ (f1 f2 : Nat) (acc : HdrAcc) (lineNo : Nat) (inp : List Nat),
    inp.length < f1 → inp.length < f2 → loadLinesC f1 acc lineNo inp = loadLinesC f2 acc lineNo inp := by
  intro f1
  induction f1 with
  | zero => intro f2 acc lineNo inp h; omega
  | succ f1 ih =>
    intro f2 acc lineNo inp h1 h2
    cases f2 with
    | zero => omega
    | succ f2 =>
      unfold loadLinesC
      cases hr : readLine inp with
      | none => rfl
      | some p =>
        obtain ⟨ln, rest⟩ := p
        have hlt := readLine_rest_lt hr
        simp only
        cases applyLine acc ln with
        | cont a => exact ih f2 a _ rest (by omega) (by omega)
        | stop => rfl
        | fail e => rfl

/-- the rest after the header is a suffix of the input, and line numbers only grow -/
theorem loadLinesC_suffix : ∀ (f : Nat) (acc : HdrAcc) (lineNo : Nat) (inp : List Nat) (a : HdrAcc) (n : Nat)
    (rest : List Nat), loadLinesC f acc lineNo inp = .ok (a, n, rest) → (∃ pre, inp = pre ++ rest) ∧ lineNo ≤ n := by
  intro f
  induction f with
  | zero => intro acc lineNo inp a n rest h; cases h
  | succ f ih =>
    intro acc lineNo inp a n rest h
    unfold loadLinesC at h
    cases hr : readLine inp with
    | none => rw [hr] at h; cases h
    | some p =>
      obtain ⟨ln, rest1⟩ := p
      rw [hr] at h
      simp only at h
      obtain ⟨pre1, hp1⟩ := readLine_suffix hr
      cases hl : applyLine acc ln with
      | cont a1 =>
        rw [hl] at h
        obtain ⟨⟨pre2, hp2⟩, hn⟩ := ih a1 _ rest1 a n rest h
        exact ⟨⟨pre1 ++ pre2, by rw [hp1, hp2, List.append_assoc]⟩, by omega⟩
      | stop =>
        rw [hl] at h
        injection h with h
        simp only [Prod.mk.injEq] at h
        obtain ⟨_, h2, h3⟩ := h
        subst h2; subst h3
        exact ⟨⟨pre1, hp1⟩, Nat.le_refl _⟩
      | fail e => rw [hl] at h; cases h

end OxiddModel.Dddmp.Hdr
