import OxiddModel.Dddmp.LemmasHeader

/-!
# Loop invariant of the header reader (numeric bounds of everything parsed) (C15)
-/
namespace OxiddModel.Dddmp.Hdr
open OxiddModel.Dddmp

/-- what the integer parsers guarantee about the accumulator -/
def AccBounds (a : HdrAcc) : Prop :=
  a.h.varinfo ≤ 4 ∧ a.h.nnodes < usize64 ∧ a.h.nvars ≤ u32Max ∧ a.nsuppvars ≤ u32Max ∧ a.nroots < usize64
    ∧ (∀ x ∈ a.h.rootids, x.natAbs ≤ isizeMax) ∧ (∀ x ∈ a.h.auxids, x ≤ u32Max)

theorem accBounds_init : AccBounds {} := by
  refine ⟨by decide, by decide, by decide, by decide, by decide, ?_, ?_⟩ <;> intro x hx <;> cases hx

theorem onParse_cont {α : Type} {r : Except HErr α} {f : α → HdrAcc} {a : HdrAcc}
    (h : onParse r f = .cont a) : ∃ v, r = .ok v ∧ a = f v := by
  unfold onParse at h
  split at h
  · injection h with h; exact ⟨_, rfl, h.symm⟩
  · cases h

/-- All the ways a header line can be accepted: the key and the update it performs. -/
inductive Accepts (acc : HdrAcc) (key value : List Nat) : HdrAcc → Prop where
  | ver : key = kVer → (value = vV2 ∨ value = vV3) → Accepts acc key value acc
  | mode (b : Bool) : key = kMode → value = [if b then 65 else 66] → Accepts acc key value (setAscii acc b)
  | varinfo (c : Nat) : key = kVarinfo → value = [c] → 48 ≤ c → c ≤ 52 → Accepts acc key value (setVarinfo acc (c - 48))
  | dd : key = kDd → Accepts acc key value (setDd acc (utf8Lossy value))
  | nnodes (v : Nat) : key = kNnodes → parseSingleC (usize64 - 1) value = .ok v → Accepts acc key value (setNnodes acc v)
  | nvars (v : Nat) : key = kNvars → parseSingleC u32Max value = .ok v → Accepts acc key value (setNvars acc v)
  | nsupp (v : Nat) : key = kNsuppvars → parseSingleC u32Max value = .ok v → Accepts acc key value (setNsupp acc v)
  | varnames : key = kVarnames → Accepts acc key value (setVarnames acc (parseStrList value))
  | svn : key = kSuppvarnames → Accepts acc key value (setSvn acc (parseStrList value))
  | ovn : key = kOrderedvarnames → Accepts acc key value (setOvn acc (parseStrList value))
  | ids (v : List Nat) : key = kIds → parseU32ListC value = .ok v → Accepts acc key value (setIds acc v)
  | permids (v : List Nat) : key = kPermids → parseU32ListC value = .ok v → Accepts acc key value (setPermids acc v)
  | auxids (v : List Nat) : key = kAuxids → parseU32ListC value = .ok v → Accepts acc key value (setAuxids acc v)
  | nroots (v : Nat) : key = kNroots → parseSingleC (usize64 - 1) value = .ok v → Accepts acc key value (setNroots acc v)
  | rootids (v : List Int) : key = kRootids → parseEdgeListC value = .ok v → Accepts acc key value (setRootids acc v)
  | rootnames : key = kRootnames → Accepts acc key value (setRootnames acc (parseStrList value))

theorem applyKV_accepts {acc a : HdrAcc} {key value : List Nat}
    (h : applyKV acc key value = .cont a) : Accepts acc key value a := by
  unfold applyKV at h
  by_cases hk : key = kVer
  · rw [if_pos hk] at h
    unfold versionLine at h
    split at h
    · rename_i hv
      injection h with h; subst h
      simp only [Bool.or_eq_true, decide_eq_true_eq] at hv
      exact .ver hk hv
    · cases h
  rw [if_neg hk] at h; clear hk
  by_cases hk : key = kMode
  · rw [if_pos hk] at h
    unfold modeLine at h
    split at h
    · rename_i hv
      injection h with h; subst h
      exact .mode true hk hv
    · split at h
      · rename_i hv
        injection h with h; subst h
        exact .mode false hk hv
      · cases h
  rw [if_neg hk] at h; clear hk
  by_cases hk : key = kVarinfo
  · rw [if_pos hk] at h
    unfold varinfoLine at h
    split at h
    · split at h
      · rename_i hc
        simp only [Bool.and_eq_true, decide_eq_true_eq] at hc
        injection h with h; subst h
        exact .varinfo _ hk rfl hc.1 hc.2
      · cases h
    · cases h
  rw [if_neg hk] at h; clear hk
  by_cases hk : key = kDd
  · rw [if_pos hk] at h
    injection h with h; subst h
    exact .dd hk
  rw [if_neg hk] at h; clear hk
  by_cases hk : key = kNnodes
  · rw [if_pos hk] at h
    obtain ⟨v, hp, rfl⟩ := onParse_cont h
    exact .nnodes v hk hp
  rw [if_neg hk] at h; clear hk
  by_cases hk : key = kNvars
  · rw [if_pos hk] at h
    obtain ⟨v, hp, rfl⟩ := onParse_cont h
    exact .nvars v hk hp
  rw [if_neg hk] at h; clear hk
  by_cases hk : key = kNsuppvars
  · rw [if_pos hk] at h
    obtain ⟨v, hp, rfl⟩ := onParse_cont h
    exact .nsupp v hk hp
  rw [if_neg hk] at h; clear hk
  by_cases hk : key = kVarnames
  · rw [if_pos hk] at h
    injection h with h; subst h
    exact .varnames hk
  rw [if_neg hk] at h; clear hk
  by_cases hk : key = kSuppvarnames
  · rw [if_pos hk] at h
    injection h with h; subst h
    exact .svn hk
  rw [if_neg hk] at h; clear hk
  by_cases hk : key = kOrderedvarnames
  · rw [if_pos hk] at h
    injection h with h; subst h
    exact .ovn hk
  rw [if_neg hk] at h; clear hk
  by_cases hk : key = kIds
  · rw [if_pos hk] at h
    obtain ⟨v, hp, rfl⟩ := onParse_cont h
    exact .ids v hk hp
  rw [if_neg hk] at h; clear hk
  by_cases hk : key = kPermids
  · rw [if_pos hk] at h
    obtain ⟨v, hp, rfl⟩ := onParse_cont h
    exact .permids v hk hp
  rw [if_neg hk] at h; clear hk
  by_cases hk : key = kAuxids
  · rw [if_pos hk] at h
    obtain ⟨v, hp, rfl⟩ := onParse_cont h
    exact .auxids v hk hp
  rw [if_neg hk] at h; clear hk
  by_cases hk : key = kNroots
  · rw [if_pos hk] at h
    obtain ⟨v, hp, rfl⟩ := onParse_cont h
    exact .nroots v hk hp
  rw [if_neg hk] at h; clear hk
  by_cases hk : key = kRootids
  · rw [if_pos hk] at h
    obtain ⟨v, hp, rfl⟩ := onParse_cont h
    exact .rootids v hk hp
  rw [if_neg hk] at h; clear hk
  by_cases hk : key = kRootnames
  · rw [if_pos hk] at h
    injection h with h; subst h
    exact .rootnames hk
  rw [if_neg hk] at h; clear hk
  by_cases hk : key = kNodes
  · rw [if_pos hk] at h; cases h
  · rw [if_neg hk] at h; cases h

theorem applyKV_bounds {acc a : HdrAcc} {key value : List Nat} (hb : AccBounds acc)
    (h : applyKV acc key value = .cont a) : AccBounds a := by
  obtain ⟨b1, b2, b3, b4, b5, b6, b7⟩ := hb
  cases applyKV_accepts h with
  | ver => exact ⟨b1, b2, b3, b4, b5, b6, b7⟩
  | mode => exact ⟨b1, b2, b3, b4, b5, b6, b7⟩
  | varinfo c _ _ h1 h2 => exact ⟨by show c - 48 ≤ 4; omega, b2, b3, b4, b5, b6, b7⟩
  | dd => exact ⟨b1, b2, b3, b4, b5, b6, b7⟩
  | nnodes v _ hp =>
    have := parseSingleC_le hp
    exact ⟨b1, by show v < usize64; unfold usize64 at this ⊢; omega, b3, b4, b5, b6, b7⟩
  | nvars v _ hp => exact ⟨b1, b2, parseSingleC_le hp, b4, b5, b6, b7⟩
  | nsupp v _ hp => exact ⟨b1, b2, b3, parseSingleC_le hp, b5, b6, b7⟩
  | varnames => exact ⟨b1, b2, b3, b4, b5, b6, b7⟩
  | svn => exact ⟨b1, b2, b3, b4, b5, b6, b7⟩
  | ovn => exact ⟨b1, b2, b3, b4, b5, b6, b7⟩
  | ids => exact ⟨b1, b2, b3, b4, b5, b6, b7⟩
  | permids => exact ⟨b1, b2, b3, b4, b5, b6, b7⟩
  | auxids v _ hp => exact ⟨b1, b2, b3, b4, b5, b6, parseU32ListC_le hp⟩
  | nroots v _ hp =>
    have := parseSingleC_le hp
    exact ⟨b1, b2, b3, b4, by show v < usize64; unfold usize64 at this ⊢; omega, b6, b7⟩
  | rootids v _ hp => exact ⟨b1, b2, b3, b4, b5, parseEdgeListC_le hp, b7⟩
  | rootnames => exact ⟨b1, b2, b3, b4, b5, b6, b7⟩

/-- generic invariant rule for the line loop -/
theorem loadLinesC_inv (P : HdrAcc → Prop)
    (step : ∀ acc key value a, P acc → applyKV acc key value = .cont a → P a) :
    ∀ (f : Nat) (acc : HdrAcc) (lineNo : Nat) (inp : List Nat) (a : HdrAcc) (n : Nat)
    (rest : List Nat), P acc → loadLinesC f acc lineNo inp = .ok (a, n, rest) → P a := by
  intro f
  induction f with
  | zero => intro acc lineNo inp a n rest _ h; cases h
  | succ f ih =>
    intro acc lineNo inp a n rest hb h
    unfold loadLinesC at h
    cases hr : readLine inp with
    | none => rw [hr] at h; cases h
    | some p =>
      obtain ⟨ln, rest1⟩ := p
      rw [hr] at h
      simp only at h
      cases hl : applyLine acc ln with
      | cont a1 =>
        rw [hl] at h
        exact ih a1 _ rest1 a n rest (step _ _ _ _ hb hl) h
      | stop =>
        rw [hl] at h
        injection h with h
        simp only [Prod.mk.injEq] at h
        obtain ⟨h1, _, _⟩ := h
        subst h1
        exact hb
      | fail e => rw [hl] at h; cases h

theorem loadLinesC_bounds {f : Nat} {lineNo : Nat} {inp : List Nat} {a : HdrAcc} {n : Nat} {rest : List Nat}
    (h : loadLinesC f {} lineNo inp = .ok (a, n, rest)) : AccBounds a :=
  loadLinesC_inv AccBounds (fun _ _ _ _ hb h => applyKV_bounds hb h) f {} lineNo inp a n rest accBounds_init h

end OxiddModel.Dddmp.Hdr
