import OxiddModel.Dddmp.LemmasHeaderRound

/-!
# Each header line the writer emits is accepted with the intended update (C15)
-/
namespace OxiddModel.Dddmp.Hdr
open OxiddModel.Dddmp
open OxiddModel.Mtbdd.TermText (utf8Lossy_ascii)

/-! ## `applyKV` on each key -/

theorem applyKV_ver (acc : HdrAcc) (v : List Nat) : applyKV acc kVer v = versionLine acc v := by
  unfold applyKV; rw [if_pos rfl]
theorem applyKV_mode (acc : HdrAcc) (v : List Nat) : applyKV acc kMode v = modeLine acc v := by
  unfold applyKV; rw [if_neg (by decide), if_pos rfl]
theorem applyKV_varinfo (acc : HdrAcc) (v : List Nat) : applyKV acc kVarinfo v = varinfoLine acc v := by
  unfold applyKV; rw [if_neg (by decide), if_neg (by decide), if_pos rfl]
theorem applyKV_dd (acc : HdrAcc) (v : List Nat) : applyKV acc kDd v = .cont (setDd acc (utf8Lossy v)) := by
  unfold applyKV; rw [if_neg (by decide), if_neg (by decide), if_neg (by decide), if_pos rfl]
theorem applyKV_nnodes (acc : HdrAcc) (v : List Nat) :
    applyKV acc kNnodes v = onParse (parseSingleC (usize64 - 1) v) (setNnodes acc) := by
  unfold applyKV
  rw [if_neg (by decide), if_neg (by decide), if_neg (by decide), if_neg (by decide), if_pos rfl]
theorem applyKV_nvars (acc : HdrAcc) (v : List Nat) :
    applyKV acc kNvars v = onParse (parseSingleC u32Max v) (setNvars acc) := by
  unfold applyKV
  rw [if_neg (by decide), if_neg (by decide), if_neg (by decide), if_neg (by decide), if_neg (by decide),
    if_pos rfl]
theorem applyKV_nsupp (acc : HdrAcc) (v : List Nat) :
    applyKV acc kNsuppvars v = onParse (parseSingleC u32Max v) (setNsupp acc) := by
  unfold applyKV
  rw [if_neg (by decide), if_neg (by decide), if_neg (by decide), if_neg (by decide), if_neg (by decide),
    if_neg (by decide), if_pos rfl]
theorem applyKV_varnames (acc : HdrAcc) (v : List Nat) :
    applyKV acc kVarnames v = .cont (setVarnames acc (parseStrList v)) := by
  unfold applyKV
  rw [if_neg (by decide), if_neg (by decide), if_neg (by decide), if_neg (by decide), if_neg (by decide),
    if_neg (by decide), if_neg (by decide), if_pos rfl]
theorem applyKV_svn (acc : HdrAcc) (v : List Nat) :
    applyKV acc kSuppvarnames v = .cont (setSvn acc (parseStrList v)) := by
  unfold applyKV
  rw [if_neg (by decide), if_neg (by decide), if_neg (by decide), if_neg (by decide), if_neg (by decide),
    if_neg (by decide), if_neg (by decide), if_neg (by decide), if_pos rfl]
theorem applyKV_ovn (acc : HdrAcc) (v : List Nat) :
    applyKV acc kOrderedvarnames v = .cont (setOvn acc (parseStrList v)) := by
  unfold applyKV
  rw [if_neg (by decide), if_neg (by decide), if_neg (by decide), if_neg (by decide), if_neg (by decide),
    if_neg (by decide), if_neg (by decide), if_neg (by decide), if_neg (by decide), if_pos rfl]
theorem applyKV_ids (acc : HdrAcc) (v : List Nat) :
    applyKV acc kIds v = onParse (parseU32ListC v) (setIds acc) := by
  unfold applyKV
  rw [if_neg (by decide), if_neg (by decide), if_neg (by decide), if_neg (by decide), if_neg (by decide),
    if_neg (by decide), if_neg (by decide), if_neg (by decide), if_neg (by decide), if_neg (by decide),
    if_pos rfl]
theorem applyKV_permids (acc : HdrAcc) (v : List Nat) :
    applyKV acc kPermids v = onParse (parseU32ListC v) (setPermids acc) := by
  unfold applyKV
  rw [if_neg (by decide), if_neg (by decide), if_neg (by decide), if_neg (by decide), if_neg (by decide),
    if_neg (by decide), if_neg (by decide), if_neg (by decide), if_neg (by decide), if_neg (by decide),
    if_neg (by decide), if_pos rfl]
theorem applyKV_nroots (acc : HdrAcc) (v : List Nat) :
    applyKV acc kNroots v = onParse (parseSingleC (usize64 - 1) v) (setNroots acc) := by
  unfold applyKV
  rw [if_neg (by decide), if_neg (by decide), if_neg (by decide), if_neg (by decide), if_neg (by decide),
    if_neg (by decide), if_neg (by decide), if_neg (by decide), if_neg (by decide), if_neg (by decide),
    if_neg (by decide), if_neg (by decide), if_neg (by decide), if_pos rfl]
theorem applyKV_rootids (acc : HdrAcc) (v : List Nat) :
    applyKV acc kRootids v = onParse (parseEdgeListC v) (setRootids acc) := by
  unfold applyKV
  rw [if_neg (by decide), if_neg (by decide), if_neg (by decide), if_neg (by decide), if_neg (by decide),
    if_neg (by decide), if_neg (by decide), if_neg (by decide), if_neg (by decide), if_neg (by decide),
    if_neg (by decide), if_neg (by decide), if_neg (by decide), if_neg (by decide), if_pos rfl]
theorem applyKV_rootnames (acc : HdrAcc) (v : List Nat) :
    applyKV acc kRootnames v = .cont (setRootnames acc (parseStrList v)) := by
  unfold applyKV
  rw [if_neg (by decide), if_neg (by decide), if_neg (by decide), if_neg (by decide), if_neg (by decide),
    if_neg (by decide), if_neg (by decide), if_neg (by decide), if_neg (by decide), if_neg (by decide),
    if_neg (by decide), if_neg (by decide), if_neg (by decide), if_neg (by decide), if_neg (by decide),
    if_pos rfl]

/-! ## names -/

/-- a name the format can carry: non-empty, no blank, no CR/LF, valid UTF-8 (a fixed point of
`from_utf8_lossy`; every ASCII string is one, `utf8Lossy_ascii`) -/
def NameOk (t : List Nat) : Prop := Tok t ∧ (∀ b ∈ t, b ≠ 10 ∧ b ≠ 13) ∧ utf8Lossy t = t

theorem parseStrListRaw_go_tok (t : List Nat) (ht : ∀ b ∈ t, isBlank b = false) : ∀ (cur r : List Nat),
    parseStrListRaw.go cur (t ++ r) = parseStrListRaw.go (t.reverse ++ cur) r := by
  induction t with
  | nil => intro cur r; rfl
  | cons c cs ih =>
    intro cur r
    show parseStrListRaw.go cur (c :: (cs ++ r)) = _
    rw [parseStrListRaw.go, if_neg (by rw [ht c (by simp)]; decide),
      ih (fun b hb => ht b (List.mem_cons_of_mem _ hb))]
    simp

theorem parseStrListRaw_join : ∀ (ts : List (List Nat)) (t : List Nat), Tok t → (∀ u ∈ ts, Tok u) →
    parseStrListRaw.go [] (t ++ joinSp ts) = t :: ts := by
  intro ts
  induction ts with
  | nil =>
    intro t ht _
    rw [joinSp_nil, parseStrListRaw_go_tok t ht.2]
    have hne : t.reverse ++ [] ≠ [] := by simpa using ht.1
    rw [parseStrListRaw.go, if_neg hne]
    simp
  | cons u us ih =>
    intro t ht hts
    rw [joinSp_cons, parseStrListRaw_go_tok t ht.2]
    have hne : t.reverse ++ [] ≠ [] := by simpa using ht.1
    rw [parseStrListRaw.go, if_pos (by decide), if_neg hne,
      ih u (hts u (by simp)) (fun v hv => hts v (List.mem_cons_of_mem _ hv))]
    simp

/-- `parse_str_list` reads `n1 n2 … nk` (single spaces) back as the list of names -/
theorem parseStrList_written (ns : List (List Nat)) (h : ∀ n ∈ ns, NameOk n) :
    ∀ key, (∀ b ∈ key, isBlank b = false) →
    (keyValue (key ++ joinSp ns)).1 = key ∧ parseStrList (keyValue (key ++ joinSp ns)).2 = ns := by
  intro key hk
  cases ns with
  | nil =>
    rw [joinSp_nil, List.append_nil, keyValue_bare key hk]
    exact ⟨rfl, rfl⟩
  | cons t ts =>
    rw [keyValue_join key hk t ts (h t (by simp)).1 (fun u hu => (h u (List.mem_cons_of_mem _ hu)).1)]
    refine ⟨rfl, ?_⟩
    unfold parseStrList parseStrListRaw
    rw [parseStrListRaw_join ts t (h t (by simp)).1 (fun u hu => (h u (List.mem_cons_of_mem _ hu)).1)]
    have : ∀ (l : List (List Nat)), (∀ n ∈ l, NameOk n) → l.map utf8Lossy = l := by
      intro l
      induction l with
      | nil => intro _; rfl
      | cons a r ih =>
        intro hl
        rw [List.map_cons, (hl a (by simp)).2.2, ih (fun n hn => hl n (List.mem_cons_of_mem _ hn))]
    exact this _ h

theorem joinSp_clean : ∀ (ts : List (List Nat)), (∀ t ∈ ts, ∀ b ∈ t, b ≠ 10 ∧ b ≠ 13) →
    ∀ b ∈ joinSp ts, b ≠ 10 ∧ b ≠ 13 := by
  intro ts
  induction ts with
  | nil => intro _ b hb; cases hb
  | cons t r ih =>
    intro h b hb
    rw [joinSp_cons] at hb
    rcases List.mem_cons.mp hb with hb | hb
    · subst hb; decide
    · rcases List.mem_append.mp hb with hb | hb
      · exact h t (by simp) b hb
      · exact ih (fun u hu => h u (List.mem_cons_of_mem _ hu)) b hb

theorem intBytes_clean' (x : Int) : ∀ b ∈ intBytes x, b ≠ 10 ∧ b ≠ 13 := by
  intro b hb
  unfold intBytes at hb
  split at hb
  · rcases List.mem_cons.mp hb with hb | hb
    · subst hb; decide
    · exact decBytes_clean _ b hb
  · exact decBytes_clean _ b hb

end OxiddModel.Dddmp.Hdr
