import OxiddModel.Dddmp.LemmasHeaderValidate

/-!
# The `unwrap` in the 2.0-style name reconstruction cannot fail (C15)

`non_suppvarnames.next().unwrap()` (import.rs line 277): the number of empty slots in `varnames`
after placing the support variables' names equals `nvars − nsuppvars`, and at least that many
non-empty names remain in `.orderedvarnames`. This needs `.ids` strictly ascending (with the check
weakened to `<=` the unwrap does fail — mutation M1 of REPORT.md).
-/
namespace OxiddModel.Dddmp.Hdr
open OxiddModel.Dddmp

def cntE (l : List (List Nat)) : Nat := (l.filter (· = [])).length
def cntNE (l : List (List Nat)) : Nat := (l.filter (· ≠ [])).length

theorem cntE_cons (a : List Nat) (l : List (List Nat)) : cntE (a :: l) = (if a = [] then 1 else 0) + cntE l := by
  unfold cntE
  by_cases h : a = []
  · simp [h]; omega
  · simp [h]

theorem cntNE_cons (a : List Nat) (l : List (List Nat)) : cntNE (a :: l) = (if a = [] then 0 else 1) + cntNE l := by
  unfold cntNE
  by_cases h : a = []
  · simp [h]
  · simp [h]; omega

theorem cntE_replicate (n : Nat) : cntE (List.replicate n []) = n := by
  induction n with
  | zero => rfl
  | succ n ih => rw [List.replicate_succ, cntE_cons, ih]; simp; omega

theorem cntNE_all {l : List (List Nat)} (h : ∀ x ∈ l, x ≠ []) : cntNE l = l.length := by
  induction l with
  | nil => rfl
  | cons a r ih =>
    rw [cntNE_cons, ih (fun x hx => h x (List.mem_cons_of_mem _ hx)), if_neg (h a (by simp))]
    simp; omega

/-- filling an empty slot with a non-empty name removes exactly one empty slot -/
theorem cntE_set_fill : ∀ (l : List (List Nat)) (i : Nat) (x : List Nat), i < l.length → l.getD i [] = [] → x ≠ [] →
    cntE (listSet l i x) + 1 = cntE l := by
  intro l
  induction l with
  | nil => intro i x hi; simp at hi
  | cons a r ih =>
    intro i x hi hg hx
    cases i with
    | zero =>
      have ha : a = [] := by simpa using hg
      subst ha
      simp only [listSet, List.set_cons_zero]
      rw [cntE_cons, cntE_cons, if_neg hx, if_pos rfl]
      omega
    | succ i =>
      simp only [listSet, List.set_cons_succ]
      rw [cntE_cons, cntE_cons]
      have := ih i x (by simpa using hi) (by simpa using hg) hx
      simp only [listSet] at this
      omega

/-- blanking one entry loses at most one non-empty name -/
theorem cntNE_set_blank : ∀ (l : List (List Nat)) (i : Nat), cntNE l ≤ cntNE (listSet l i []) + 1 := by
  intro l
  induction l with
  | nil => intro i; simp [listSet, cntNE]
  | cons a r ih =>
    intro i
    cases i with
    | zero =>
      simp only [listSet, List.set_cons_zero]
      rw [cntNE_cons, cntNE_cons, if_pos rfl]
      split <;> omega
    | succ i =>
      simp only [listSet, List.set_cons_succ]
      rw [cntNE_cons, cntNE_cons]
      have := ih i
      simp only [listSet] at this
      omega

theorem getD_listSet_ne {l : List (List Nat)} {i j : Nat} {x : List Nat} (h : i ≠ j) :
    (listSet l i x).getD j [] = l.getD j [] := by
  simp only [listSet, List.getD_eq_getElem?_getD]
  rw [List.getElem?_set_ne h]

/-- all later entries of a strictly ascending list are greater than its head -/
theorem asc_head_lt : ∀ (r : List Nat) (a : Nat), isStrictlyAscending (a :: r) = true → ∀ x ∈ r, a < x := by
  intro r
  induction r with
  | nil => intro a _ x hx; cases hx
  | cons b r ih =>
    intro a h x hx
    unfold isStrictlyAscending at h
    simp only [Bool.and_eq_true, decide_eq_true_eq] at h
    rcases List.mem_cons.mp hx with hx | hx
    · subst hx; exact h.1
    · have := ih b h.2 x hx; omega

theorem asc_tail {a : Nat} {r : List Nat} (h : isStrictlyAscending (a :: r) = true) : isStrictlyAscending r = true := by
  cases r with
  | nil => rfl
  | cons b r' =>
    unfold isStrictlyAscending at h
    simp only [Bool.and_eq_true, decide_eq_true_eq] at h
    exact h.2

/-- placing the support variables' names: one empty slot less per pair -/
theorem vn0_cntE (ovn : List (List Nat)) : ∀ (ps : List (Nat × Nat)) (vn : List (List Nat)) (bound : Nat),
    isStrictlyAscending (ps.map Prod.fst) = true →
    (∀ p ∈ ps, bound ≤ p.1 ∧ p.1 < vn.length ∧ ovn.getD p.2 [] ≠ []) →
    (∀ j, bound ≤ j → vn.getD j [] = []) →
    cntE (ps.foldl (fun vn (p : Nat × Nat) => listSet vn p.1 (ovn.getD p.2 [])) vn) + ps.length = cntE vn ∧
    (ps.foldl (fun vn (p : Nat × Nat) => listSet vn p.1 (ovn.getD p.2 [])) vn).length = vn.length := by
  intro ps
  induction ps with
  | nil => intro vn bound _ _ _; exact ⟨rfl, rfl⟩
  | cons p ps ih =>
    intro vn bound hasc hp hempty
    have hp0 := hp p (by simp)
    simp only [List.foldl_cons]
    have hstep := cntE_set_fill vn p.1 (ovn.getD p.2 []) hp0.2.1 (hempty p.1 hp0.1) hp0.2.2
    have hlen : (listSet vn p.1 (ovn.getD p.2 [])).length = vn.length := by simp [listSet]
    simp only [List.map_cons] at hasc
    have hgt := asc_head_lt _ _ hasc
    obtain ⟨h1, h2⟩ := ih (listSet vn p.1 (ovn.getD p.2 [])) (p.1 + 1) (asc_tail hasc)
      (by
        intro q hq
        have hq0 := hp q (List.mem_cons_of_mem _ hq)
        have : p.1 < q.1 := hgt q.1 (List.mem_map.mpr ⟨q, hq, rfl⟩)
        exact ⟨by omega, by rw [hlen]; exact hq0.2.1, hq0.2.2⟩)
      (by
        intro j hj
        rw [getD_listSet_ne (by omega)]
        exact hempty j (by omega))
    refine ⟨?_, by rw [h2, hlen]⟩
    simp only [List.length_cons]
    omega

/-- blanking the taken `.orderedvarnames` entries: at most one name less per pair -/
theorem ovn'_cntNE : ∀ (ps : List (Nat × Nat)) (o : List (List Nat)),
    cntNE o ≤ cntNE (ps.foldl (fun o (p : Nat × Nat) => listSet o p.2 []) o) + ps.length := by
  intro ps
  induction ps with
  | nil => intro o; simp
  | cons p ps ih =>
    intro o
    simp only [List.foldl_cons, List.length_cons]
    have h1 := cntNE_set_blank o p.2
    have h2 := ih (listSet o p.2 [])
    omega

/-- enough names left: the `unwrap` flag stays clear -/
theorem fill_ok : ∀ (vn : List (List Nat)) (st : List (List Nat) × List (List Nat) × Bool),
    st.2.2 = false → cntE vn ≤ st.2.1.length → (vn.foldl fillStep st).2.2 = false := by
  intro vn
  induction vn with
  | nil => intro st h _; exact h
  | cons a r ih =>
    intro st hf hc
    simp only [List.foldl_cons]
    rw [cntE_cons] at hc
    have key : (fillStep st a).2.2 = false ∧ cntE r ≤ (fillStep st a).2.1.length := by
      unfold fillStep
      by_cases ha : a = []
      · rw [if_pos ha] at hc
        rw [if_pos ha]
        cases hs : st.2.1 with
        | nil => rw [hs] at hc; simp at hc
        | cons x xs =>
          rw [hs] at hc
          simp only [List.length_cons] at hc
          exact ⟨hf, by simp only; omega⟩
      · rw [if_neg ha] at hc
        rw [if_neg ha]
        exact ⟨hf, by simpa using hc⟩
    exact ih _ key.1 key.2

/-- **the `unwrap` cannot fail** for validated `.ids` / `.permids` and non-empty ordered names -/
theorem namesFromOrdered_isSome (nvars : Nat) (ids permids : List Nat) (ovn : List (List Nat))
    (hasc : isStrictlyAscending ids = true) (hidlt : ∀ v ∈ ids, v < nvars)
    (hlen : permids.length = ids.length) (hplt : ∀ l ∈ permids, l < nvars)
    (hovn : ovn.length = nvars) (hne : ∀ x ∈ ovn, x ≠ []) :
    namesFromOrdered nvars ids permids ovn ≠ none := by
  unfold namesFromOrdered
  simp only
  have hmapfst : (ids.zip permids).map Prod.fst = ids := by
    rw [List.map_fst_zip]; omega
  have hzlen : (ids.zip permids).length = ids.length := by
    rw [List.length_zip]; omega
  have h0 := vn0_cntE ovn (ids.zip permids) (List.replicate nvars []) 0 (by rw [hmapfst]; exact hasc)
    (by
      intro p hp
      have hm := List.of_mem_zip hp
      refine ⟨Nat.zero_le _, by simpa using hidlt p.1 hm.1, ?_⟩
      have hl := hplt p.2 hm.2
      rw [List.getD_eq_getElem?_getD, List.getElem?_eq_getElem (by omega)]
      exact hne _ (List.getElem_mem _))
    (by intro j _; simp [List.getD_eq_getElem?_getD, List.getElem?_replicate]; split <;> rfl)
  have h1 := ovn'_cntNE (ids.zip permids) ovn
  rw [cntNE_all hne, hovn] at h1
  rw [cntE_replicate] at h0
  have hfill := fill_ok
    (List.foldl (fun vn (p : Nat × Nat) => listSet vn p.1 (ovn.getD p.2 [])) (List.replicate nvars []) (ids.zip permids))
    ([], List.filter (· ≠ []) (List.foldl (fun o (p : Nat × Nat) => listSet o p.2 []) ovn (ids.zip permids)), false)
    rfl (by
      show _ ≤ cntNE _
      omega)
  rw [hfill]
  simp

end OxiddModel.Dddmp.Hdr
