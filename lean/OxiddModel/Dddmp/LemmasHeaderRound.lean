import OxiddModel.Dddmp.PropertiesHeader

/-!
# Lemmas for the header round trip: one written line is read back as the field update (C15)
-/
namespace OxiddModel.Dddmp.Hdr
open OxiddModel.Dddmp
open OxiddModel.Mtbdd.TermText (valFrom valFrom_nil valFrom_cons valFrom_zero valFrom_ge isDigit_iff
  decBytes_ne_nil decBytes_head_digit utf8Lossy_ascii)

/-- the line loop with the fuel `DumpHeader::load`'s model uses -/
def loadAll (acc : HdrAcc) (n : Nat) (inp : List Nat) : Except HErr (HdrAcc × Nat × List Nat) :=
  loadLinesC (inp.length + 1) acc n inp

theorem parseHeaderN_eq (inp : List Nat) :
    parseHeaderN inp = match loadAll {} 1 inp with
      | .error e => .error e
      | .ok (acc, lineNo, rest) =>
        match validateC acc lineNo with
        | .error e => .error e
        | .ok h => .ok (h, rest) := rfl

/-- a line without CR/LF that is accepted: continue behind it with the updated accumulator -/
theorem loadAll_line {acc a : HdrAcc} (n : Nat) {ln : List Nat} (rest : List Nat)
    (hclean : ∀ b ∈ ln, b ≠ 10 ∧ b ≠ 13) (hap : applyLine acc ln = .cont a) :
    loadAll acc n (ln ++ 10 :: rest) = loadAll a (n + 1) rest := by
  unfold loadAll
  unfold loadLinesC
  rw [readLine_clean _ _ hclean]
  simp only
  rw [hap]
  simp only
  exact loadLinesC_fuel (ln ++ 10 :: rest).length (rest.length + 1) a (n + 1) rest (by simp; omega) (by omega)

theorem loadAll_nodes (acc : HdrAcc) (n : Nat) (rest : List Nat) :
    loadAll acc n (kNodes ++ 10 :: rest) = .ok (acc, n, rest) := by
  unfold loadAll
  unfold loadLinesC
  rw [readLine_clean _ _ (by decide)]
  simp only
  have hkv : applyKV acc kNodes [] = .stop := by
    unfold applyKV
    rw [if_neg (by decide), if_neg (by decide), if_neg (by decide), if_neg (by decide), if_neg (by decide),
      if_neg (by decide), if_neg (by decide), if_neg (by decide), if_neg (by decide), if_neg (by decide),
      if_neg (by decide), if_neg (by decide), if_neg (by decide), if_neg (by decide), if_neg (by decide),
      if_neg (by decide), if_pos rfl]
  have : applyLine acc kNodes = .stop := by
    unfold applyLine
    have hk : keyValue kNodes = (kNodes, []) := by decide
    rw [hk]
    exact hkv
  rw [this]

theorem takeWhile_all {p : Nat → Bool} : ∀ (l : List Nat), (∀ b ∈ l, p b = true) → l.takeWhile p = l := by
  intro l
  induction l with
  | nil => intro _; rfl
  | cons a r ih =>
    intro h
    rw [List.takeWhile_cons_of_pos (h a (by simp)), ih (fun b hb => h b (List.mem_cons_of_mem _ hb))]

/-! ## trimming -/

/-- a value whose first and last byte are not blank is not changed by `trim` -/
def EndsOk (s : List Nat) : Prop :=
  (∀ c t, s = c :: t → isBlank c = false) ∧ (∀ c t, s.reverse = c :: t → isBlank c = false)

theorem trim_endsOk {s : List Nat} (h : EndsOk s) : trim s = s := by
  unfold trim trimEnd
  have h1 : trimStart s = s := by
    cases hs : s with
    | nil => rfl
    | cons c t => exact trimStart_cons_of_not_blank c t (h.1 c t hs)
  rw [h1]
  have h2 : trimStart s.reverse = s.reverse := by
    cases hs : s.reverse with
    | nil => rfl
    | cons c t => exact trimStart_cons_of_not_blank c t (h.2 c t hs)
  rw [h2, List.reverse_reverse]

/-- a token: non-empty, no blank -/
def Tok (t : List Nat) : Prop := t ≠ [] ∧ ∀ b ∈ t, isBlank b = false

theorem endsOk_tok {t : List Nat} (h : Tok t) : EndsOk t := by
  refine ⟨?_, ?_⟩
  · intro c r hc; exact h.2 c (by rw [hc]; simp)
  · intro c r hc
    exact h.2 c (by rw [← List.mem_reverse, hc]; simp)

theorem joinSp_cons (x : List Nat) (xs : List (List Nat)) : joinSp (x :: xs) = 32 :: (x ++ joinSp xs) := by
  simp [joinSp, sp]

theorem joinSp_nil : joinSp [] = [] := rfl

/-- `t1 t2 … tn` separated by single spaces starts and ends with a non-blank -/
theorem endsOk_join : ∀ (ts : List (List Nat)) (t : List Nat), Tok t → (∀ u ∈ ts, Tok u) →
    EndsOk (t ++ joinSp ts) := by
  intro ts
  induction ts with
  | nil => intro t ht _; rw [joinSp_nil, List.append_nil]; exact endsOk_tok ht
  | cons u us ih =>
    intro t ht hts
    have hu := ih u (hts u (by simp)) (fun v hv => hts v (List.mem_cons_of_mem _ hv))
    refine ⟨?_, ?_⟩
    · intro c r hc
      cases ht' : t with
      | nil => exact absurd ht' ht.1
      | cons c' t' =>
        rw [ht'] at hc
        simp only [List.cons_append, List.cons.injEq] at hc
        exact ht.2 c (by rw [ht', ← hc.1]; simp)
    · intro c r hc
      rw [joinSp_cons] at hc
      have hne : u ++ joinSp us ≠ [] := by
        intro h0
        exact (hts u (by simp)).1 (List.append_eq_nil_iff.mp h0).1
      cases hr : (u ++ joinSp us).reverse with
      | nil => exact absurd (List.reverse_eq_nil_iff.mp hr) hne
      | cons c' r' =>
        have : (t ++ 32 :: (u ++ joinSp us)).reverse = c' :: (r' ++ 32 :: t.reverse) := by
          simp [hr]
        rw [this] at hc
        injection hc with hc1 _
        subst hc1
        exact hu.2 c' r' hr

theorem tok_decBytes (n : Nat) : Tok (decBytes n) :=
  ⟨decBytes_ne_nil n, fun b hb => digit_not_blank (isDigits_decBytes n b hb)⟩

theorem tok_intBytes (x : Int) : Tok (intBytes x) := by
  unfold intBytes
  split
  · refine ⟨by simp, ?_⟩
    intro b hb
    rcases List.mem_cons.mp hb with hb | hb
    · subst hb; decide
    · exact (tok_decBytes _).2 b hb
  · exact tok_decBytes _

/-! ## key / value -/

theorem keyValue_sp (key v : List Nat) (hk : ∀ b ∈ key, isBlank b = false) :
    keyValue (key ++ 32 :: v) = (key, trim v) := by
  unfold keyValue
  rw [splitBlank_tok key _ hk]

theorem keyValue_bare (key : List Nat) (hk : ∀ b ∈ key, isBlank b = false) : keyValue key = (key, []) := by
  unfold keyValue
  have : splitBlank key = none := by
    unfold splitBlank
    have htw : key.takeWhile (fun b => !isBlank b) = key := by
      apply takeWhile_all
      intro b hb; simp [hk b hb]
    simp only [htw]
    rw [if_neg (by omega)]
  rw [this]

/-- key followed by a space-joined token list: the key and the tokens joined by single spaces -/
theorem keyValue_join (key : List Nat) (hk : ∀ b ∈ key, isBlank b = false) (t : List Nat) (ts : List (List Nat))
    (ht : Tok t) (hts : ∀ u ∈ ts, Tok u) :
    keyValue (key ++ joinSp (t :: ts)) = (key, t ++ joinSp ts) := by
  rw [joinSp_cons, keyValue_sp key _ hk, trim_endsOk (endsOk_join ts t ht hts)]

/-! ## integer parsers on what the writer emits -/

theorem parseSingleGo_digits (max : Nat) : ∀ (ds : List Nat) (res : Nat) (num : Bool),
    OxiddModel.Dddmp.IsDigits ds → valFrom res ds ≤ max → (ds ≠ [] ∨ num = true) →
    parseSingleGo max res num ds = .ok (valFrom res ds) := by
  intro ds
  induction ds with
  | nil =>
    intro res num _ _ hnum
    have hn : num = true := by rcases hnum with h | h; exact absurd rfl h; exact h
    subst hn
    simp [parseSingleGo, valFrom_nil]
  | cons c cs ih =>
    intro res num hd hv _
    have hc := hd c (by simp)
    have hcd : isDigit c = true := (isDigit_iff c).2 hc
    rw [valFrom_cons] at hv ⊢
    have hge := valFrom_ge cs (res * 10 + (c - 48))
    unfold parseSingleGo
    rw [if_pos hcd]
    simp only
    rw [if_neg (by omega)]
    exact ih _ true (fun d h => hd d (List.mem_cons_of_mem _ h)) hv (Or.inr rfl)

theorem parseSingleC_decBytes (max v : Nat) (h : v ≤ max) : parseSingleC max (decBytes v) = .ok v := by
  unfold parseSingleC
  rw [parseSingleGo_digits max (decBytes v) 0 false (isDigits_decBytes v)
    (by rw [valFrom_zero, valOf_decBytes]; exact h) (Or.inl (decBytes_ne_nil v)), valFrom_zero, valOf_decBytes]

theorem parseU32ListGo_digits (acc : List Nat) (r : List Nat) : ∀ (ds : List Nat) (i : Nat) (num : Bool),
    OxiddModel.Dddmp.IsDigits ds → valFrom i ds ≤ u32Max → (ds ≠ [] ∨ num = true) →
    parseU32ListGo i num acc (ds ++ r) = parseU32ListGo (valFrom i ds) true acc r := by
  intro ds
  induction ds with
  | nil =>
    intro i num _ _ hnum
    have hn : num = true := by rcases hnum with h | h; exact absurd rfl h; exact h
    subst hn
    simp [valFrom_nil]
  | cons c cs ih =>
    intro i num hd hv _
    have hc := hd c (by simp)
    have hcd : isDigit c = true := (isDigit_iff c).2 hc
    rw [valFrom_cons] at hv ⊢
    have hge := valFrom_ge cs (i * 10 + (c - 48))
    rw [← ih _ true (fun d h => hd d (List.mem_cons_of_mem _ h)) hv (Or.inr rfl)]
    show parseU32ListGo i num acc (c :: (cs ++ r)) = _
    rw [parseU32ListGo]
    rw [if_pos hcd]
    simp only
    rw [if_neg (by omega)]

/-- `parse_u32_list` reads `x1 x2 … xn` (single spaces) back as the list -/
theorem parseU32ListGo_join : ∀ (xs : List Nat) (x : Nat) (acc : List Nat), x ≤ u32Max → (∀ y ∈ xs, y ≤ u32Max) →
    parseU32ListGo 0 false acc (decBytes x ++ joinSp (xs.map decBytes)) = .ok (acc.reverse ++ x :: xs) := by
  intro xs
  induction xs with
  | nil =>
    intro x acc hx _
    have := parseU32ListGo_digits acc [] (decBytes x) 0 false (isDigits_decBytes x)
      (by rw [valFrom_zero, valOf_decBytes]; exact hx) (Or.inl (decBytes_ne_nil x))
    simp only [List.map_nil, joinSp_nil]
    rw [this, valFrom_zero, valOf_decBytes]
    simp [parseU32ListGo]
  | cons y ys ih =>
    intro x acc hx hys
    have := parseU32ListGo_digits acc (joinSp ((y :: ys).map decBytes)) (decBytes x) 0 false (isDigits_decBytes x)
      (by rw [valFrom_zero, valOf_decBytes]; exact hx) (Or.inl (decBytes_ne_nil x))
    rw [this, valFrom_zero, valOf_decBytes, List.map_cons, joinSp_cons, parseU32ListGo]
    rw [if_neg (by decide), if_pos (by decide), if_pos rfl]
    rw [ih y (x :: acc) (hys y (by simp)) (fun z hz => hys z (List.mem_cons_of_mem _ hz))]
    simp

theorem parseU32ListC_written (xs : List Nat) (h : ∀ y ∈ xs, y ≤ u32Max) :
    ∀ key, (∀ b ∈ key, isBlank b = false) →
    (keyValue (key ++ joinSp (xs.map decBytes))).1 = key ∧
      parseU32ListC (keyValue (key ++ joinSp (xs.map decBytes))).2 = .ok xs := by
  intro key hk
  cases xs with
  | nil =>
    simp only [List.map_nil, joinSp_nil, List.append_nil]
    rw [keyValue_bare key hk]
    exact ⟨rfl, rfl⟩
  | cons x xs =>
    rw [List.map_cons, keyValue_join key hk (decBytes x) (xs.map decBytes) (tok_decBytes x)
      (by intro u hu; obtain ⟨z, _, rfl⟩ := List.mem_map.mp hu; exact tok_decBytes z)]
    refine ⟨rfl, ?_⟩
    unfold parseU32ListC
    rw [parseU32ListGo_join xs x [] (h x (by simp)) (fun y hy => h y (List.mem_cons_of_mem _ hy))]
    simp

theorem parseEdgeListGo_digits (neg : Bool) (acc : List Int) (r : List Nat) :
    ∀ (ds : List Nat) (i : Nat) (num : Bool),
    OxiddModel.Dddmp.IsDigits ds → valFrom i ds ≤ isizeMax → (ds ≠ [] ∨ num = true) →
    parseEdgeListGo i neg num acc (ds ++ r) = parseEdgeListGo (valFrom i ds) neg true acc r := by
  intro ds
  induction ds with
  | nil =>
    intro i num _ _ hnum
    have hn : num = true := by rcases hnum with h | h; exact absurd rfl h; exact h
    subst hn
    simp [valFrom_nil]
  | cons c cs ih =>
    intro i num hd hv _
    have hc := hd c (by simp)
    have hcd : isDigit c = true := (isDigit_iff c).2 hc
    rw [valFrom_cons] at hv ⊢
    have hge := valFrom_ge cs (i * 10 + (c - 48))
    rw [← ih _ true (fun d h => hd d (List.mem_cons_of_mem _ h)) hv (Or.inr rfl)]
    show parseEdgeListGo i neg num acc (c :: (cs ++ r)) = _
    rw [parseEdgeListGo]
    rw [if_pos hcd]
    simp only
    rw [if_neg (by omega)]

theorem parseEdgeListGo_int (x : Int) (hx : x.natAbs ≤ isizeMax) (acc : List Int) (r : List Nat) :
    parseEdgeListGo 0 false false acc (intBytes x ++ r)
      = parseEdgeListGo x.natAbs (decide (x < 0)) true acc r := by
  have hdig := parseEdgeListGo_digits (decide (x < 0)) acc r (decBytes x.natAbs) 0 false (isDigits_decBytes _)
    (by rw [valFrom_zero, valOf_decBytes]; exact hx) (Or.inl (decBytes_ne_nil _))
  rw [valFrom_zero, valOf_decBytes] at hdig
  unfold intBytes
  by_cases hneg : x < 0
  · rw [if_pos hneg]
    simp only [hneg, decide_true] at hdig ⊢
    show parseEdgeListGo 0 false false acc (45 :: (decBytes x.natAbs ++ r)) = _
    rw [parseEdgeListGo]
    rw [if_neg (by decide), if_pos rfl]
    simpa using hdig
  · rw [if_neg hneg]
    simp only [hneg, decide_false] at hdig ⊢
    exact hdig

/-- `parse_edge_list` reads `r1 r2 … rn` (signed, single spaces) back as the list -/
theorem parseEdgeListGo_join : ∀ (xs : List Int) (x : Int) (acc : List Int), x.natAbs ≤ isizeMax →
    (∀ y ∈ xs, y.natAbs ≤ isizeMax) →
    parseEdgeListGo 0 false false acc (intBytes x ++ joinSp (xs.map intBytes)) = .ok (acc.reverse ++ x :: xs) := by
  intro xs
  induction xs with
  | nil =>
    intro x acc hx _
    simp only [List.map_nil, joinSp_nil]
    rw [parseEdgeListGo_int x hx acc [], parseEdgeListGo]
    simp only [if_true, signed_natAbs]
    simp
  | cons y ys ih =>
    intro x acc hx hys
    rw [parseEdgeListGo_int x hx acc _, List.map_cons, joinSp_cons, parseEdgeListGo]
    rw [if_neg (by decide), if_neg (by decide), if_pos (by decide), if_pos rfl]
    rw [signed_natAbs, ih y (x :: acc) (hys y (by simp)) (fun z hz => hys z (List.mem_cons_of_mem _ hz))]
    simp

theorem parseEdgeListC_written (xs : List Int) (h : ∀ y ∈ xs, y.natAbs ≤ isizeMax) :
    ∀ key, (∀ b ∈ key, isBlank b = false) →
    (keyValue (key ++ joinSp (xs.map intBytes))).1 = key ∧
      parseEdgeListC (keyValue (key ++ joinSp (xs.map intBytes))).2 = .ok xs := by
  intro key hk
  cases xs with
  | nil =>
    simp only [List.map_nil, joinSp_nil, List.append_nil]
    rw [keyValue_bare key hk]
    exact ⟨rfl, rfl⟩
  | cons x xs =>
    rw [List.map_cons, keyValue_join key hk (intBytes x) (xs.map intBytes) (tok_intBytes x)
      (by intro u hu; obtain ⟨z, _, rfl⟩ := List.mem_map.mp hu; exact tok_intBytes z)]
    refine ⟨rfl, ?_⟩
    unfold parseEdgeListC
    rw [parseEdgeListGo_join xs x [] (h x (by simp)) (fun y hy => h y (List.mem_cons_of_mem _ hy))]
    simp

end OxiddModel.Dddmp.Hdr
