import OxiddModel.Dddmp.LemmasHeaderInv

/-!
# What the validation of `DumpHeader::load` establishes (C15)
-/
namespace OxiddModel.Dddmp.Hdr
open OxiddModel.Dddmp

/-! ## the individual checks -/

theorem permCheck_none (nvars : Nat) : ∀ (l seen : List Nat), permCheck nvars l seen = none →
    (∀ x ∈ l, x < nvars ∧ x ∉ seen) ∧ l.Nodup := by
  intro l
  induction l with
  | nil => intro seen _; exact ⟨fun x hx => (nomatch hx), List.nodup_nil⟩
  | cons a r ih =>
    intro seen h
    unfold permCheck at h
    by_cases h1 : a ≥ nvars
    · rw [if_pos h1] at h; cases h
    rw [if_neg h1] at h
    by_cases h2 : seen.contains a = true
    · rw [if_pos h2] at h; cases h
    rw [if_neg h2] at h
    obtain ⟨hr, hnd⟩ := ih (a :: seen) h
    have h2' : a ∉ seen := by simpa using h2
    refine ⟨?_, ?_⟩
    · intro x hx
      rcases List.mem_cons.mp hx with hx | hx
      · subst hx; exact ⟨by omega, h2'⟩
      · have := hr x hx
        exact ⟨this.1, fun hm => this.2 (List.mem_cons_of_mem _ hm)⟩
    · refine List.nodup_cons.mpr ⟨?_, hnd⟩
      intro hm
      exact (hr a hm).2 (by simp)

/-- conversely: entries in range and pairwise distinct pass the check -/
theorem permCheck_of (nvars : Nat) : ∀ (l seen : List Nat), (∀ x ∈ l, x < nvars ∧ x ∉ seen) → l.Nodup →
    permCheck nvars l seen = none := by
  intro l
  induction l with
  | nil => intro seen _ _; rfl
  | cons a r ih =>
    intro seen h hnd
    have ha := h a (by simp)
    obtain ⟨hna, hnd'⟩ := List.nodup_cons.mp hnd
    unfold permCheck
    rw [if_neg (by omega), if_neg (by simpa using ha.2)]
    refine ih _ ?_ hnd'
    intro x hx
    have := h x (List.mem_cons_of_mem _ hx)
    refine ⟨this.1, ?_⟩
    intro hm
    rcases List.mem_cons.mp hm with hm | hm
    · subst hm; exact hna hx
    · exact this.2 hm

theorem rootCheck_none (nnodes : Nat) : ∀ (l : List Int), rootCheck nnodes l = none →
    ∀ r ∈ l, r ≠ 0 ∧ r.natAbs ≤ nnodes := by
  intro l
  induction l with
  | nil => intro _ r hr; cases hr
  | cons a t ih =>
    intro h r hr
    unfold rootCheck at h
    by_cases h1 : a = 0
    · rw [if_pos h1] at h; cases h
    rw [if_neg h1] at h
    by_cases h2 : a.natAbs > nnodes
    · rw [if_pos h2] at h; cases h
    rw [if_neg h2] at h
    rcases List.mem_cons.mp hr with hr | hr
    · subst hr; exact ⟨h1, by omega⟩
    · exact ih h r hr

theorem rootCheck_of (nnodes : Nat) : ∀ (l : List Int), (∀ r ∈ l, r ≠ 0 ∧ r.natAbs ≤ nnodes) →
    rootCheck nnodes l = none := by
  intro l
  induction l with
  | nil => intro _; rfl
  | cons a t ih =>
    intro h
    have ha := h a (by simp)
    unfold rootCheck
    rw [if_neg ha.1, if_neg (by omega)]
    exact ih (fun r hr => h r (List.mem_cons_of_mem _ hr))

/-- in a strictly ascending list every entry is at most the last one -/
theorem asc_le_getLast : ∀ (l : List Nat) (d : Nat), isStrictlyAscending l = true →
    ∀ x ∈ l, x ≤ l.getLastD d := by
  intro l
  induction l with
  | nil => intro d _ x hx; cases hx
  | cons a r ih =>
    intro d h x hx
    cases r with
    | nil =>
      simp only [List.mem_singleton] at hx
      subst hx
      simp
    | cons b r' =>
      unfold isStrictlyAscending at h
      simp only [Bool.and_eq_true, decide_eq_true_eq] at h
      have hb := ih d h.2
      have hlast : (a :: b :: r').getLastD d = (b :: r').getLastD d := by simp [List.getLastD]
      rw [hlast]
      rcases List.mem_cons.mp hx with hx | hx
      · subst hx
        have := hb b (by simp)
        omega
      · exact hb x hx

theorem getLast!_eq_getLastD (l : List Nat) (hne : l ≠ []) : l.getLast! = l.getLastD 0 := by
  cases l with
  | nil => exact absurd rfl hne
  | cons a r =>
    show (a :: r).getLast (List.cons_ne_nil a r) = _
    rw [List.getLast_eq_getLastD, List.getLastD_cons]

/-! ## lengths of the reconstructed name lists -/

theorem foldl_listSet_length {α β : Type} (f : β → Nat) (g : β → α) : ∀ (l : List β) (init : List α),
    (l.foldl (fun vn p => listSet vn (f p) (g p)) init).length = init.length := by
  intro l
  induction l with
  | nil => intro init; rfl
  | cons a r ih =>
    intro init
    simp only [List.foldl_cons]
    rw [ih]
    simp [listSet]

theorem fill_length : ∀ (l : List (List Nat)) (st : List (List Nat) × List (List Nat) × Bool),
    (l.foldl fillStep st).1.length = st.1.length + l.length := by
  intro l
  induction l with
  | nil => intro st; rfl
  | cons a r ih =>
    intro st
    simp only [List.foldl_cons]
    rw [ih]
    unfold fillStep
    split
    · split <;> simp <;> omega
    · simp; omega

theorem namesFromOrdered_length {nvars : Nat} {ids permids : List Nat} {ovn vn : List (List Nat)}
    (h : namesFromOrdered nvars ids permids ovn = some vn) : vn.length = nvars := by
  unfold namesFromOrdered at h
  simp only at h
  split at h
  · cases h
  · injection h with h
    subst h
    rw [List.length_reverse, fill_length, foldl_listSet_length]
    simp

theorem namesC_length {h : Header} {svn ovn vn : List (List Nat)} (hn : namesC h svn ovn = .ok vn) :
    vn = [] ∨ vn.length = h.nvars := by
  unfold namesC at hn
  by_cases h1 : h.varnames = []
  · rw [if_pos h1] at hn
    by_cases h2 : ovn = []
    · rw [if_pos h2] at hn
      by_cases h3 : svn = []
      · rw [if_pos h3] at hn; injection hn with hn; exact Or.inl hn.symm
      · rw [if_neg h3] at hn
        by_cases h4 : 24 * h.nvars > allocLimit
        · rw [if_pos h4] at hn; cases hn
        rw [if_neg h4] at hn
        injection hn with hn; subst hn
        right
        have := foldl_listSet_length (fun (p : List Nat × Nat) => p.2) (fun (p : List Nat × Nat) => p.1)
          (svn.zip h.ids) (List.replicate h.nvars [])
        rw [this]; simp
    · rw [if_neg h2] at hn
      cases hf : namesFromOrdered h.nvars h.ids h.permids ovn with
      | none => rw [hf] at hn; cases hn
      | some v =>
        rw [hf] at hn
        simp only at hn
        split at hn
        · cases hn
        · injection hn with hn; subst hn; exact Or.inr (namesFromOrdered_length hf)
  · rw [if_neg h1] at hn
    by_cases h2 : h.varnames.length ≠ h.nvars
    · rw [if_pos h2] at hn; cases hn
    rw [if_neg h2] at hn
    split at hn
    · cases hn
    · split at hn
      · cases hn
      · injection hn with hn; subst hn; right; omega

end OxiddModel.Dddmp.Hdr
