import OxiddModel.Dddmp.LemmasHeaderValid

/-!
# `validateC` succeeds exactly when every clause holds (C15)
-/
namespace OxiddModel.Dddmp.Hdr
open OxiddModel.Dddmp

/-- every clause of the validation of `DumpHeader::load` (except the name reconciliation, which is
`namesC … = .ok vn`), on the accumulator of the line loop -/
structure Valid (acc : HdrAcc) : Prop where
  nsupp : acc.nsuppvars ≤ acc.h.nvars
  cIds : acc.h.ids.length = acc.nsuppvars
  cPermids : acc.h.permids.length = acc.nsuppvars
  cAuxids : acc.h.auxids = [] ∨ acc.h.auxids.length = acc.nsuppvars
  idsAsc : acc.h.ids = [] ∨ isStrictlyAscending acc.h.ids = true
  idsRange : acc.h.ids = [] ∨ acc.h.ids.getLast! < acc.h.nvars
  perm : permCheck acc.h.nvars acc.h.permids [] = none
  cOrdered : acc.orderedvarnames = [] ∨ acc.orderedvarnames.length = acc.h.nvars
  cSupp : acc.suppvarnames = [] ∨ acc.suppvarnames.length = acc.nsuppvars
  cRootids : acc.h.rootids.length = acc.nroots
  roots : rootCheck acc.h.nnodes acc.h.rootids = none
  cRootnames : acc.h.rootnames = [] ∨ acc.h.rootnames.length = acc.nroots

theorem not_and_ne {p : Prop} {a b : Nat} (h : ¬ (¬ p ∧ a ≠ b)) : p ∨ a = b := by
  by_cases hp : p
  · exact Or.inl hp
  · right
    by_cases hab : a = b
    · exact hab
    · exact absurd ⟨hp, hab⟩ h

theorem validateC_ok {acc : HdrAcc} {n : Nat} {h : Header} (hv : validateC acc n = .ok h) :
    Valid acc ∧ ∃ vn, namesC acc.h acc.suppvarnames acc.orderedvarnames = .ok vn ∧ h = finish acc.h n vn := by
  unfold validateC at hv
  by_cases c1 : acc.nsuppvars > acc.h.nvars
  · rw [if_pos c1] at hv; cases hv
  rw [if_neg c1] at hv
  by_cases c2 : acc.h.ids.length ≠ acc.nsuppvars
  · rw [if_pos c2] at hv; cases hv
  rw [if_neg c2] at hv
  by_cases c3 : acc.h.permids.length ≠ acc.nsuppvars
  · rw [if_pos c3] at hv; cases hv
  rw [if_neg c3] at hv
  by_cases c4 : acc.h.auxids ≠ [] ∧ acc.h.auxids.length ≠ acc.nsuppvars
  · rw [if_pos c4] at hv; cases hv
  rw [if_neg c4] at hv
  by_cases c5 : acc.h.ids ≠ [] ∧ isStrictlyAscending acc.h.ids = false
  · rw [if_pos c5] at hv; cases hv
  rw [if_neg c5] at hv
  by_cases c6 : acc.h.ids ≠ [] ∧ acc.h.ids.getLast! ≥ acc.h.nvars
  · rw [if_pos c6] at hv; cases hv
  rw [if_neg c6] at hv
  cases c7 : permCheck acc.h.nvars acc.h.permids [] with
  | some e => simp only [c7] at hv; cases hv
  | none =>
    simp only [c7] at hv
    by_cases c8 : acc.orderedvarnames ≠ [] ∧ acc.orderedvarnames.length ≠ acc.h.nvars
    · rw [if_pos c8] at hv; cases hv
    rw [if_neg c8] at hv
    by_cases c9 : acc.suppvarnames ≠ [] ∧ acc.suppvarnames.length ≠ acc.nsuppvars
    · rw [if_pos c9] at hv; cases hv
    rw [if_neg c9] at hv
    cases c10 : namesC acc.h acc.suppvarnames acc.orderedvarnames with
    | error e => simp only [c10] at hv; cases hv
    | ok vn =>
      simp only [c10] at hv
      unfold rootsPart at hv
      by_cases c11 : acc.h.rootids.length ≠ acc.nroots
      · rw [if_pos c11] at hv; cases hv
      rw [if_neg c11] at hv
      cases c12 : rootCheck acc.h.nnodes acc.h.rootids with
      | some e => simp only [c12] at hv; cases hv
      | none =>
        simp only [c12] at hv
        by_cases c13 : acc.h.rootnames ≠ [] ∧ acc.h.rootnames.length ≠ acc.nroots
        · rw [if_pos c13] at hv; cases hv
        rw [if_neg c13] at hv
        injection hv with hv
        refine ⟨⟨by omega, by omega, by omega, not_and_ne c4, ?_, ?_, c7, not_and_ne c8, not_and_ne c9,
          by omega, c12, not_and_ne c13⟩, vn, rfl, hv.symm⟩
        · by_cases hi : acc.h.ids = []
          · exact Or.inl hi
          · right
            cases hb : isStrictlyAscending acc.h.ids with
            | true => rfl
            | false => exact absurd ⟨hi, hb⟩ c5
        · by_cases hi : acc.h.ids = []
          · exact Or.inl hi
          · right
            by_cases hb : acc.h.ids.getLast! < acc.h.nvars
            · exact hb
            · exact absurd ⟨hi, by omega⟩ c6

theorem or_to_not_and {p : Prop} {a b : Nat} (h : p ∨ a = b) : ¬ (¬ p ∧ a ≠ b) := by
  rintro ⟨h1, h2⟩
  rcases h with h | h
  · exact h1 h
  · exact h2 h

theorem validateC_of_valid {acc : HdrAcc} (n : Nat) {vn : List (List Nat)} (v : Valid acc)
    (hn : namesC acc.h acc.suppvarnames acc.orderedvarnames = .ok vn) :
    validateC acc n = .ok (finish acc.h n vn) := by
  unfold validateC
  rw [if_neg (by have := v.nsupp; omega), if_neg (by have := v.cIds; omega),
    if_neg (by have := v.cPermids; omega), if_neg (or_to_not_and v.cAuxids)]
  rw [if_neg (by
    rintro ⟨h1, h2⟩
    rcases v.idsAsc with h | h
    · exact h1 h
    · rw [h] at h2; cases h2)]
  rw [if_neg (by
    rintro ⟨h1, h2⟩
    rcases v.idsRange with h | h
    · exact h1 h
    · omega)]
  simp only [v.perm]
  rw [if_neg (or_to_not_and v.cOrdered), if_neg (or_to_not_and v.cSupp)]
  simp only [hn]
  unfold rootsPart
  rw [if_neg (by have := v.cRootids; omega)]
  simp only [v.roots]
  rw [if_neg (or_to_not_and v.cRootnames)]

end OxiddModel.Dddmp.Hdr
