import OxiddModel.Dddmp.LemmasStep

/-! The node loop: `importBinLoop` applied to `binNodeRecords` rebuilds the node list. -/
namespace OxiddModel.Dddmp

/-- the edge the importer must create for node `n`, given the edges `acc` created so far
(position `id - 1` holds the edge of node `id`) and the level translation `tl` -/
def buildNode {E : Type} (A : Alg E) (tl : Nat → Nat) (acc : List E) (n : SNode) : Option E :=
  match n.children with
  | [t, e] =>
    match acc[t.natAbs - 1]?, acc[e.natAbs - 1]? with
    | some te, some ee => some (A.reduce (tl n.level) [te, if e < 0 then A.complement ee else ee])
    | _, _ => none
  | _ => none

/-- all edges: the reference semantics of a node list (children looked up by id, complement
applied to negative else ids, `reduce` at the translated level) -/
def buildNodes {E : Type} (A : Alg E) (tl : Nat → Nat) : List SNode → List E → Option (List E)
  | [], acc => some acc
  | n :: rest, acc =>
    match buildNode A tl acc n with
    | some x => buildNodes A tl rest (acc ++ [x])
    | none => none

/-- A binary-mode node list as the exporter produces it: one terminal (id 1), node `i` has id
`i + 2` (the node vector must be allocatable: `Vec::with_capacity(nnodes)` of 4-byte edges); ids are assigned bottom-up (children have smaller ids and larger levels), the then edge
is never complemented. -/
def WFNodes (nvars : Nat) (all : List SNode) : Prop :=
  (all.length + 1) * 4 ≤ isizeMax ∧ nvars ≤ levelMax ∧
  ∀ i (h : i < all.length), ∃ t e : Int, all[i].children = [t, e] ∧ 0 < t ∧ t.natAbs < i + 2 ∧ e ≠ 0 ∧
    e.natAbs < i + 2 ∧ all[i].level < nvars ∧
    all[i].level < levelOfId 1 all t.natAbs ∧ all[i].level < levelOfId 1 all e.natAbs

theorem WFNodes.lt_usize {nvars : Nat} {all : List SNode} (hw : WFNodes nvars all) :
    all.length + 2 < usize64 := by
  have := hw.1; unfold isizeMax at this; unfold usize64; omega

theorem levelOfId_terminal (all : List SNode) (id : Nat) (h : id ≤ 1) : levelOfId 1 all id = levelMax := by
  simp [levelOfId, h]

theorem levelOfId_inner (all : List SNode) (id : Nat) (h1 : 1 < id) (h2 : id - 2 < all.length) :
    levelOfId 1 all id = (all[id - 2]'h2).level := by
  have : ¬ id ≤ 1 := by omega
  have e : id - 1 - 1 = id - 2 := by omega
  simp [levelOfId, this, e, List.getElem?_eq_getElem h2]

theorem levelOfId_dom (nvars : Nat) (all : List SNode) (hw : WFNodes nvars all) (id : Nat)
    (h : id < all.length + 2) :
    levelOfId 1 all id = levelMax ∨ levelOfId 1 all id ∈ suppLevels nvars all := by
  by_cases h1 : id ≤ 1
  · left; exact levelOfId_terminal all id h1
  · right
    have h2 : id - 2 < all.length := by omega
    rw [levelOfId_inner all id (by omega) h2]
    obtain ⟨t, e, _, _, _, _, _, hl, _, _⟩ := hw.2.2 (id - 2) h2
    exact mem_suppLevels nvars all _ (List.getElem_mem _) hl

/-- invariant of the loop after `k` inner nodes -/
def LoopInv {E : Type} (A : Alg E) (supp slm : List Nat) (all : List SNode) (k : Nat) (acc : List E) : Prop :=
  acc.length = k + 1 ∧
  ∀ id, 1 ≤ id → id ≤ k + 1 → ∃ x, acc[id - 1]? = some x ∧ A.level x = tlev supp slm (levelOfId 1 all id)

theorem importBinLoop_records {E : Type} (g : Guards) (A : Alg E) (term : E) (nvars numLevels : Nat)
    (slm : List Nat) (all : List SNode) (r : List Nat)
    (hw : WFNodes nvars all) (M : LevelMaps (suppLevels nvars all) slm numLevels)
    (hred : ∀ l cs, A.level (A.reduce l cs) = l) (hcl : ∀ x, A.level (A.complement x) = A.level x) :
    ∀ (m k : Nat) (acc : List E), k + m = all.length → LoopInv A (suppLevels nvars all) slm all k acc →
      ∃ built, buildNodes A (tlev (suppLevels nvars all) slm) (all.drop k) acc = some built ∧
        importBinLoop g A term (mkLevelSuppvarMap numLevels slm) slm m (k + 2) acc
          (binNodeRecords 1 (suppLevels nvars all) all (k + 2) (all.drop k) ++ r) = .ok (built, r) := by
  intro m
  induction m with
  | zero =>
    intro k acc hk _
    have : all.drop k = [] := List.drop_eq_nil_of_le (by omega)
    rw [this]
    exact ⟨acc, rfl, by simp [binNodeRecords, importBinLoop]⟩
  | succ m ih =>
    intro k acc hk hinv
    have hkl : k < all.length := by omega
    rw [List.drop_eq_getElem_cons hkl]
    obtain ⟨t, e, hch, ht0, htlt, he0, helt, hlv, hLt, hLe⟩ := hw.2.2 k hkl
    have htpos : 0 < t.natAbs := by omega
    have hepos : 0 < e.natAbs := by omega
    obtain ⟨te, hte, hlte⟩ := hinv.2 t.natAbs (by omega) (by omega)
    obtain ⟨ee, hee, hlee⟩ := hinv.2 e.natAbs (by omega) (by omega)
    have hstep := importBinStep_record g A term (suppLevels nvars all) slm numLevels all (k + 2) acc all[k] t e
      te ee (binNodeRecords 1 (suppLevels nvars all) all (k + 2 + 1) (all.drop (k + 1)) ++ r) M hch ht0 htlt he0 helt
      (by have := hw.lt_usize; omega) hte hee (mem_suppLevels nvars all _ (List.getElem_mem _) hlv) hLt hLe
      (levelOfId_dom nvars all hw _ (by omega)) (levelOfId_dom nvars all hw _ (by omega)) hlte hlee hcl
    -- the new edge
    generalize hx : A.reduce (tlev (suppLevels nvars all) slm all[k].level)
      [te, if e < 0 then A.complement ee else ee] = x at hstep
    have hinv' : LoopInv A (suppLevels nvars all) slm all (k + 1) (acc ++ [x]) := by
      refine ⟨by simp [hinv.1], ?_⟩
      intro id h1 h2
      by_cases hid : id ≤ k + 1
      · obtain ⟨y, hy, hly⟩ := hinv.2 id h1 hid
        refine ⟨y, ?_, hly⟩
        rw [List.getElem?_append_left (by rw [hinv.1]; omega)]
        exact hy
      · have hid' : id = k + 2 := by omega
        subst hid'
        refine ⟨x, ?_, ?_⟩
        · have : k + 2 - 1 = acc.length := by rw [hinv.1]; omega
          rw [this]; simp
        · rw [levelOfId_inner all (k + 2) (by omega) (by simpa using hkl)]
          rw [← hx, hred]
          simp
    obtain ⟨built, hb, hl⟩ := ih (k + 1) (acc ++ [x]) (by omega) hinv'
    refine ⟨built, ?_, ?_⟩
    · simp only [buildNodes, buildNode, hch, hte, hee, hx]
      exact hb
    · simp only [binNodeRecords, importBinLoop, List.append_assoc]
      rw [hstep]
      simp only
      exact hl

/-! ### the free edge algebra: nothing is reduced, an edge is its unfolded raw tree -/

/-- raw (unreduced) trees with complement bits on both child edges -/
inductive RT where
  | term
  | node (level : Nat) (tneg : Bool) (t : RT) (eneg : Bool) (e : RT)
deriving DecidableEq, Repr, Inhabited

def RT.level : RT → Nat
  | .term => levelMax
  | .node l _ _ _ _ => l

/-- edges = (complement bit, raw tree); `reduce` only builds the node, `complement` flips the bit -/
def freeAlg : Alg (Bool × RT) where
  level x := x.2.level
  complement x := (!x.1, x.2)
  reduce l cs :=
    match cs with
    | [t, e] => (false, .node l t.1 t.2 e.1 e.2)
    | _ => (false, .node l false .term false .term)
  parseTerminal s := if s = [84] then some (false, .term) else none
  arity := 2

theorem freeAlg_level_reduce (l : Nat) (cs : List (Bool × RT)) : freeAlg.level (freeAlg.reduce l cs) = l := by
  unfold freeAlg
  simp only
  split <;> rfl

/-- the assembled statement for `importBin`: terminal record, then the loop -/
theorem importBin_nodeSection {E : Type} (g : Guards) (A : Alg E) (term : E) (nvars numLevels : Nat)
    (slm : List Nat) (d : Diagram) (r : List Nat)
    (hT : A.parseTerminal [84] = some term) (hterm : A.level term = levelMax)
    (hred : ∀ l cs, A.level (A.reduce l cs) = l) (hcl : ∀ x, A.level (A.complement x) = A.level x)
    (hd : d.terms.length = 1) (hw : WFNodes nvars d.nodes)
    (M : LevelMaps (suppLevels nvars d.nodes) slm numLevels) :
    ∃ built, buildNodes A (tlev (suppLevels nvars d.nodes) slm) d.nodes [term] = some built ∧
      importBin g A (d.nodes.length + 1) numLevels slm (nodeSection false nvars d ++ r) = .ok (built, r) := by
  have hinv : LoopInv A (suppLevels nvars d.nodes) slm d.nodes 0 [term] := by
    refine ⟨rfl, ?_⟩
    intro id h1 h2
    have : id = 1 := by omega
    subst this
    exact ⟨term, rfl, by rw [levelOfId_terminal _ _ (Nat.le_refl 1), tlev_levelMax]; exact hterm⟩
  obtain ⟨built, hb, hl⟩ := importBinLoop_records g A term nvars numLevels slm d.nodes r hw M hred hcl
    d.nodes.length 0 [term] (by omega) hinv
  refine ⟨built, by simpa using hb, ?_⟩
  unfold importBin
  simp only [hT]
  have hcap : ¬ ((d.nodes.length + 1) * 4 > isizeMax) := by
    have := hw.1; omega
  simp only [hcap]
  -- the terminal record
  match hterms : d.terms with
  | [] => simp [hterms] at hd
  | [x] =>
    simp only [nodeSection, Bool.false_eq_true, ↓reduceIte, hterms, List.flatMap_cons, List.flatMap_nil,
      List.append_nil, List.length_cons, List.length_nil, Nat.zero_add]
    unfold importBinLoop
    have hrec : writeEscaped [nodeCode Code.terminal Code.terminal false Code.terminal]
        ++ binNodeRecords 1 (suppLevels nvars d.nodes) d.nodes (1 + 1) d.nodes ++ r
        = escByte 0 ++ (binNodeRecords 1 (suppLevels nvars d.nodes) d.nodes 2 d.nodes ++ r) := by
      simp [writeEscaped, nodeCode, Code.toBits]
    rw [hrec]
    unfold importBinStep
    rw [readUnescape_escByte]
    simp only [decodeNodeCode, Code.ofBits]
    simp only [List.nil_append]
    simpa using hl
  | _ :: _ :: _ => simp [hterms] at hd

end OxiddModel.Dddmp
