import OxiddModel.Dddmp.Model

/-! Name sanitising and the generated-name scheme of the exporter. -/
namespace OxiddModel.Dddmp

/-- bytes the DDDMP name lists cannot carry: ASCII control characters and the space -/
def badByte (b : Nat) : Bool := isAsciiControl b || b = 32

theorem replace_fst_length (s : List Nat) : (replaceSpaceAndControl s).1.length = s.length := by
  simp [replaceSpaceAndControl]

theorem replace_fst_clean (s : List Nat) : ∀ b ∈ (replaceSpaceAndControl s).1, badByte b = false := by
  intro b hb
  simp only [replaceSpaceAndControl, List.mem_map] at hb
  obtain ⟨x, _, rfl⟩ := hb
  by_cases h : (isAsciiControl x || decide (x = 32)) = true
  · simp only [h, ↓reduceIte]; decide
  · simp only [h]
    simpa [badByte] using h

theorem replace_snd_iff (s : List Nat) : (replaceSpaceAndControl s).2 = true ↔ ∃ b ∈ s, badByte b = true := by
  simp [replaceSpaceAndControl, badByte]

theorem replace_unchanged_iff (s : List Nat) : (replaceSpaceAndControl s).1 = s ↔ (replaceSpaceAndControl s).2 = false := by
  induction s with
  | nil => simp [replaceSpaceAndControl]
  | cons a s ih =>
    simp only [replaceSpaceAndControl, List.map_cons, List.any_cons] at ih ⊢
    by_cases h : (isAsciiControl a || decide (a = 32)) = true
    · simp only [h, ↓reduceIte, Bool.true_or]
      constructor
      · intro hh
        have h1 := (List.cons.injEq _ _ _ _ ▸ hh).1
        subst h1
        revert h; decide
      · intro hh; simp at hh
    · have h' : (isAsciiControl a || decide (a = 32)) = false := by simpa using h
      simp only [h', Bool.false_eq_true, ↓reduceIte, Bool.false_or]
      constructor
      · intro hh
        exact ih.mp (List.cons.injEq _ _ _ _ ▸ hh).2
      · intro hh
        rw [ih.mpr hh]

/-! ### decimal digits -/

def valOf (l : List Nat) : Nat := l.foldl (fun a d => a * 10 + (d - 48)) 0

theorem valOf_append_single (l : List Nat) (d : Nat) : valOf (l ++ [d]) = valOf l * 10 + (d - 48) := by
  simp [valOf, List.foldl_append]

def IsDigits (l : List Nat) : Prop := ∀ d ∈ l, 48 ≤ d ∧ d ≤ 57

theorem decDigitsGo_spec : ∀ (f n : Nat) (acc : List Nat), n < f →
    decDigitsGo f n acc = decDigitsGo f n [] ++ acc ∧ valOf (decDigitsGo f n []) = n ∧
      IsDigits (decDigitsGo f n []) := by
  intro f
  induction f with
  | zero => intro n acc h; omega
  | succ f ih =>
    intro n acc h
    unfold decDigitsGo
    by_cases h0 : n / 10 = 0
    · simp only [h0, ↓reduceIte]
      refine ⟨by simp, ?_, ?_⟩
      · simp [valOf]; omega
      · intro d hd; simp at hd; subst hd; omega
    · simp only [h0, ↓reduceIte]
      have hlt : n / 10 < f := by omega
      obtain ⟨e1, _, _⟩ := ih (n / 10) ((48 + n % 10) :: acc) hlt
      obtain ⟨e2, v2, d2⟩ := ih (n / 10) [48 + n % 10] hlt
      obtain ⟨_, v3, d3⟩ := ih (n / 10) [] hlt
      refine ⟨?_, ?_, ?_⟩
      · rw [e1, e2]; simp
      · rw [e2, valOf_append_single, v3]; omega
      · rw [e2]
        intro d hd
        rcases List.mem_append.mp hd with hd | hd
        · exact d3 d hd
        · simp at hd; subst hd; omega

theorem valOf_decBytes (n : Nat) : valOf (decBytes n) = n := (decDigitsGo_spec (n + 1) n [] (by omega)).2.1
theorem isDigits_decBytes (n : Nat) : IsDigits (decBytes n) := (decDigitsGo_spec (n + 1) n [] (by omega)).2.2

theorem decBytes_inj {i j : Nat} (h : decBytes i = decBytes j) : i = j := by
  have := congrArg valOf h
  rwa [valOf_decBytes, valOf_decBytes] at this

/-- a run of digits followed by nothing or by an underscore determines the run -/
theorem digits_prefix_unique : ∀ (a b ta tb : List Nat), IsDigits a → IsDigits b →
    (ta = [] ∨ ta.head? = some 95) → (tb = [] ∨ tb.head? = some 95) → a ++ ta = b ++ tb → a = b := by
  intro a
  induction a with
  | nil =>
    intro b ta tb _ hb hta _ h
    cases b with
    | nil => rfl
    | cons y b' =>
      exfalso
      simp only [List.nil_append, List.cons_append] at h
      have hy := hb y (by simp)
      rcases hta with hta | hta
      · rw [hta] at h; simp at h
      · rw [h] at hta; simp at hta; omega
  | cons x a' ih =>
    intro b ta tb ha hb hta htb h
    cases b with
    | nil =>
      exfalso
      simp only [List.nil_append, List.cons_append] at h
      have hx := ha x (by simp)
      rcases htb with htb | htb
      · rw [htb] at h; simp at h
      · rw [← h] at htb; simp at htb; omega
    | cons y b' =>
      simp only [List.cons_append, List.cons.injEq] at h
      obtain ⟨rfl, h'⟩ := h
      have := ih b' ta tb (fun d hd => ha d (by simp [hd])) (fun d hd => hb d (by simp [hd])) hta htb h'
      rw [this]

theorem count_replicate_x (L : Nat) (rest : List Nat) :
    countLeadingUnderscores (List.replicate L 95 ++ 120 :: rest) = L := by
  induction L with
  | zero => simp [countLeadingUnderscores]
  | succ L ih => simp [List.replicate_succ, countLeadingUnderscores, ih]

/-! ### generated names -/

/-- a generated name: `lead` underscores, `x`, the variable number, then nothing or `_name` -/
def genName (lead i : Nat) (tail : List Nat) : List Nat := List.replicate lead 95 ++ [120] ++ decBytes i ++ tail

theorem genName_inj {lead i j : Nat} {ti tj : List Nat} (hti : ti = [] ∨ ti.head? = some 95)
    (htj : tj = [] ∨ tj.head? = some 95) (h : genName lead i ti = genName lead j tj) : i = j := by
  unfold genName at h
  simp only [List.append_assoc] at h
  have h1 := List.append_cancel_left h
  simp only [List.cons_append, List.nil_append, List.cons.injEq, true_and] at h1
  exact decBytes_inj (digits_prefix_unique _ _ _ _ (isDigits_decBytes i) (isDigits_decBytes j) hti htj h1)

theorem count_genName (lead i : Nat) (tail : List Nat) : countLeadingUnderscores (genName lead i tail) = lead := by
  unfold genName
  simp only [List.append_assoc, List.cons_append, List.nil_append]
  exact count_replicate_x lead _

theorem writeVarName_cases (lead : Nat) (pao : Bool) (i : Nat) (n : List Nat) (o : Bool) :
    (n = [] ∧ o = false ∧ writeVarName lead pao i (n, o) = genName lead i []) ∨
    (n ≠ [] ∧ o = false ∧ writeVarName lead pao i (n, o) = n) ∨
    (o = true ∧ pao = false ∧ writeVarName lead pao i (n, o) = n) ∨
    (o = true ∧ pao = true ∧ writeVarName lead pao i (n, o) = genName lead i (95 :: n)) := by
  cases o with
  | false =>
    cases n with
    | nil => left; simp [writeVarName, genName]
    | cons a n' => right; left; simp [writeVarName]
  | true =>
    cases pao with
    | false => right; right; left; simp [writeVarName]
    | true => right; right; right; simp [writeVarName, genName]

/-- what `prefix_all_owned = false` says about the sanitised (owned) names -/
theorem prefixAllOwnedGo_false (orig : List (List Nat)) : ∀ (l : List (List Nat × Bool)) (seen : List (List Nat)),
    prefixAllOwnedGo orig l seen = false →
      (∀ p ∈ l, p.2 = true → p.1 ∉ orig ∧ p.1 ∉ seen) ∧
      l.Pairwise (fun p q => p.2 = true → q.2 = true → p.1 ≠ q.1) := by
  intro l
  induction l with
  | nil => intro seen _; simp
  | cons p l ih =>
    intro seen h
    obtain ⟨n, o⟩ := p
    unfold prefixAllOwnedGo at h
    cases o with
    | false =>
      simp only [Bool.false_eq_true, ↓reduceIte] at h
      obtain ⟨h1, h2⟩ := ih seen h
      refine ⟨?_, ?_⟩
      · intro q hq hq2
        rcases List.mem_cons.mp hq with rfl | hq
        · simp at hq2
        · exact h1 q hq hq2
      · rw [List.pairwise_cons]
        exact ⟨fun q _ hp => by simp at hp, h2⟩
    | true =>
      simp only [↓reduceIte] at h
      split at h
      · simp at h
      · rename_i hc
        simp only [Bool.or_eq_true, List.contains_iff_mem, not_or] at hc
        obtain ⟨h1, h2⟩ := ih (n :: seen) h
        refine ⟨?_, ?_⟩
        · intro q hq hq2
          rcases List.mem_cons.mp hq with rfl | hq
          · exact ⟨hc.1, hc.2⟩
          · have := h1 q hq hq2
            exact ⟨this.1, fun hm => this.2 (List.mem_cons_of_mem _ hm)⟩
        · rw [List.pairwise_cons]
          refine ⟨?_, h2⟩
          intro q hq _ hq2 heq
          have := (h1 q hq hq2).2
          simp only at heq
          exact this (by rw [← heq]; simp)

/-- the manager's invariant on variable names: non-empty names are pairwise distinct -/
def ManagerNames (names : List (List Nat)) : Prop := names.Pairwise (fun a b => a ≠ [] → a ≠ b)

instance (names : List (List Nat)) : Decidable (ManagerNames names) := by
  unfold ManagerNames; infer_instance

/-- `leading_underscores` really exceeds the number of leading underscores of every exported
(sanitised) name — what the documentation promises and the code only achieves when the *last*
name with leading underscores has the most of them -/
def LeadOK (mx : Bool) (names : List (List Nat)) : Prop :=
  ∀ n ∈ names, countLeadingUnderscores (replaceSpaceAndControl n).1
    < leadingUnderscores mx ((names.map replaceSpaceAndControl).map (·.1))

/-- taking the maximum (the repaired code) establishes `LeadOK` for every list of names -/
theorem leadingUnderscores_max_spec : ∀ (l : List (List Nat)) (acc : Nat), 1 ≤ acc →
    acc ≤ l.foldl (leadStep true) acc ∧
    ∀ n ∈ l, countLeadingUnderscores n < l.foldl (leadStep true) acc := by
  intro l
  induction l with
  | nil => intro acc h; simp
  | cons a l ih =>
    intro acc h
    simp only [List.foldl_cons]
    have hs : acc ≤ leadStep true acc a ∧ countLeadingUnderscores a < leadStep true acc a := by
      unfold leadStep
      by_cases hk : countLeadingUnderscores a = 0
      · simp only [hk, ↓reduceIte]; omega
      · simp only [hk, ↓reduceIte]; omega
    obtain ⟨h1, h2⟩ := ih (leadStep true acc a) (by omega)
    refine ⟨by omega, ?_⟩
    intro n hn
    rcases List.mem_cons.mp hn with rfl | hn
    · omega
    · exact h2 n hn

theorem leadOK_max (names : List (List Nat)) : LeadOK true names := by
  intro n hn
  unfold leadingUnderscores
  apply (leadingUnderscores_max_spec _ 1 (Nat.le_refl 1)).2
  simp only [List.map_map, List.mem_map, Function.comp]
  exact ⟨n, hn, rfl⟩

theorem writeVarName_ne (names : List (List Nat)) (lead : Nat) (pao : Bool)
    (hm : ManagerNames names)
    (hlead : ∀ n ∈ names, countLeadingUnderscores (replaceSpaceAndControl n).1 < lead)
    (hown : pao = false → (∀ p ∈ names.map replaceSpaceAndControl, p.2 = true → p.1 ∉ names.filter (· ≠ [])) ∧
      (names.map replaceSpaceAndControl).Pairwise (fun p q => p.2 = true → q.2 = true → p.1 ≠ q.1))
    (i j : Nat) (hij : i < j) (hj : j < names.length) :
    writeVarName lead pao i (replaceSpaceAndControl (names[i]'(by omega)))
      ≠ writeVarName lead pao j (replaceSpaceAndControl names[j]) := by
  have hi : i < names.length := by omega
  intro heq
  generalize hsi : replaceSpaceAndControl names[i] = pi at heq
  generalize hsj : replaceSpaceAndControl names[j] = pj at heq
  obtain ⟨si, oi⟩ := pi
  obtain ⟨sj, oj⟩ := pj
  have hci : countLeadingUnderscores si < lead := by
    have := hlead names[i] (List.getElem_mem _); rw [hsi] at this; exact this
  have hcj : countLeadingUnderscores sj < lead := by
    have := hlead names[j] (List.getElem_mem _); rw [hsj] at this; exact this
  have unch_i : oi = false → si = names[i] := by
    intro h
    have := (replace_unchanged_iff names[i]).mpr (by rw [hsi]; exact h)
    rw [hsi] at this; exact this
  have unch_j : oj = false → sj = names[j] := by
    intro h
    have := (replace_unchanged_iff names[j]).mpr (by rw [hsj]; exact h)
    rw [hsj] at this; exact this
  have hne : i ≠ j := by omega
  have cnt := congrArg countLeadingUnderscores heq
  have t0 : ([] : List Nat) = [] ∨ ([] : List Nat).head? = some 95 := Or.inl rfl
  have t1 : ∀ n : List Nat, (95 :: n) = [] ∨ (95 :: n).head? = some 95 := fun n => Or.inr rfl
  have memi : (si, oi) ∈ names.map replaceSpaceAndControl := by
    rw [← hsi]; exact List.mem_map_of_mem (List.getElem_mem _)
  have memj : (sj, oj) ∈ names.map replaceSpaceAndControl := by
    rw [← hsj]; exact List.mem_map_of_mem (List.getElem_mem _)
  have pw : ∀ (_ : pao = false), oi = true → oj = true → si ≠ sj := by
    intro hp h1 h2
    have hpw := (hown hp).2
    rw [List.pairwise_iff_getElem] at hpw
    have := hpw i j (by simpa using hi) (by simpa using hj) hij
    simp only [List.getElem_map, hsi, hsj] at this
    exact this h1 h2
  rcases writeVarName_cases lead pao i si oi with ⟨_, _, wi⟩ | ⟨ni, ei, wi⟩ | ⟨ei, pi, wi⟩ | ⟨ei, pi, wi⟩ <;>
  rcases writeVarName_cases lead pao j sj oj with ⟨_, _, wj⟩ | ⟨nj, ej, wj⟩ | ⟨ej, pj, wj⟩ | ⟨ej, pj, wj⟩
  -- E, *
  · rw [wi, wj] at heq; exact hne (genName_inj t0 t0 heq)
  · rw [wi, wj, count_genName] at cnt; omega
  · rw [wi, wj, count_genName] at cnt; omega
  · rw [wi, wj] at heq; exact hne (genName_inj t0 (t1 _) heq)
  -- B, *
  · rw [wi, wj, count_genName] at cnt; omega
  · rw [wi, wj] at heq
    have hpw := hm
    unfold ManagerNames at hpw
    rw [List.pairwise_iff_getElem] at hpw
    have := hpw i j hi hj hij
    rw [← unch_i ei, ← unch_j ej] at this
    exact this ni heq
  · rw [wi, wj] at heq
    have h1 := ((hown pj).1 (sj, oj) memj ej)
    apply h1
    simp only
    rw [← heq, unch_i ei]
    simp only [List.mem_filter, List.getElem_mem, true_and]
    rw [← unch_i ei]; simpa using ni
  · rw [wi, wj, count_genName] at cnt; omega
  -- On, *
  · rw [wi, wj, count_genName] at cnt; omega
  · rw [wi, wj] at heq
    have h1 := ((hown pi).1 (si, oi) memi ei)
    apply h1
    simp only
    rw [heq, unch_j ej]
    simp only [List.mem_filter, List.getElem_mem, true_and]
    rw [← unch_j ej]; simpa using nj
  · rw [wi, wj] at heq; exact pw pi ei ej heq
  · rw [pi] at pj; simp at pj
  -- Op, *
  · rw [wi, wj] at heq; exact hne (genName_inj (t1 _) t0 heq)
  · rw [wi, wj, count_genName] at cnt; omega
  · rw [pi] at pj; simp at pj
  · rw [wi, wj] at heq; exact hne (genName_inj (t1 _) (t1 _) heq)

theorem exported_names_nodup (g : Guards) (strict : Bool) (names : List (List Nat)) (hm : ManagerNames names)
    (hlead : LeadOK g.leadMax names) (out : List (List Nat)) (h : (exportedVarNames g strict names).1 = some out) :
    out.Nodup := by
  unfold exportedVarNames at h
  simp only at h
  split at h
  · simp only [Option.some.injEq] at h
    rw [← h]
    unfold List.Nodup
    rw [List.pairwise_map]
    apply List.Pairwise.imp_of_mem _ List.pairwise_lt_range
    intro a b ha hb hab
    have ha' : a < names.length := by simpa using ha
    have hb' : b < names.length := by simpa using hb
    have ga : (names.map replaceSpaceAndControl).getD a ([], false) = replaceSpaceAndControl names[a] := by
      simp [List.getD_eq_getElem?_getD, ha']
    have gb : (names.map replaceSpaceAndControl).getD b ([], false) = replaceSpaceAndControl names[b] := by
      simp [List.getD_eq_getElem?_getD, hb']
    rw [ga, gb]
    apply writeVarName_ne names _ _ hm hlead _ a b hab hb'
    intro hp
    split at hp
    · have := prefixAllOwnedGo_false _ _ _ hp
      exact ⟨fun p hp' h2 => (this.1 p hp' h2).1, this.2⟩
    · rename_i hz
      have hz' : ((names.map replaceSpaceAndControl).filter (·.2)).length = 0 := by simpa using hz
      have hall : ∀ p ∈ names.map replaceSpaceAndControl, p.2 = false := by
        intro p hp'
        by_cases hp2 : p.2 = true
        · have : p ∈ (names.map replaceSpaceAndControl).filter (·.2) := List.mem_filter.mpr ⟨hp', hp2⟩
          rw [List.eq_nil_of_length_eq_zero hz'] at this
          simp at this
        · simpa using hp2
      refine ⟨fun p hp' h2 => by rw [hall p hp'] at h2; simp at h2, ?_⟩
      apply List.Pairwise.imp_of_mem _ (List.pairwise_of_forall (R := fun _ _ => True) (fun _ _ => trivial))
      intro p q hp' _ _ h2
      rw [hall p hp'] at h2; simp at h2
  · simp at h

end OxiddModel.Dddmp
