import OxiddModel.Dddmp.LemmasStruct

/-! One node: the reader's `importBinStep` inverts the writer's `binNodeRecord`. -/
namespace OxiddModel.Dddmp

theorem suppIdx_le_length (s : List Nat) (l : Nat) : suppIdx s l ≤ s.length := by
  unfold suppIdx; exact List.length_filter_le _ _

theorem tlev_levelMax (supp slm : List Nat) : tlev supp slm levelMax = levelMax := by simp [tlev]

/-- the smaller of the children's levels, translated -/
theorem min_tlev {supp slm : List Nat} {numLevels : Nat} (M : LevelMaps supp slm numLevels)
    (a b : Nat) (ha : a = levelMax ∨ a ∈ supp) (hb : b = levelMax ∨ b ∈ supp) :
    min (tlev supp slm a) (tlev supp slm b) = tlev supp slm (min a b) := by
  have key : ∀ x y, (x = levelMax ∨ x ∈ supp) → (y = levelMax ∨ y ∈ supp) → x ≤ y →
      tlev supp slm x ≤ tlev supp slm y := by
    intro x y hx hy hxy
    by_cases hxe : x = y
    · subst hxe; exact Nat.le_refl _
    · have hlt : x < y := by omega
      rcases hx with hx | hx
      · subst hx
        rcases hy with hy | hy
        · omega
        · have := M.hsb y hy; omega
      · exact Nat.le_of_lt (tlev_strict M x y hx hy hlt)
  by_cases hab : a ≤ b
  · rw [Nat.min_eq_left hab, Nat.min_eq_left (key a b ha hb hab)]
  · have hba : b ≤ a := by omega
    rw [Nat.min_eq_right hba, Nat.min_eq_right (key b a hb ha hba)]

theorem varCodeOf_snd_lt (vi : Nat) (mo : Option Nat) (B : Nat) (h1 : vi < B)
    (h2 : ∀ m, mo = some m → m < B) : (varCodeOf vi mo).2 < B := by
  unfold varCodeOf
  cases mo with
  | none => simpa using h1
  | some m =>
    have := h2 m rfl
    simp only
    split
    · simpa using h1
    · split
      · simp only; omega
      · simpa using h1

theorem importBinStep_record {E : Type} (g : Guards) (A : Alg E) (term : E) (supp slm : List Nat)
    (numLevels : Nat) (all : List SNode) (nodeId : Nat) (acc : List E) (n : SNode) (t e : Int)
    (te ee : E) (r : List Nat)
    (M : LevelMaps supp slm numLevels)
    (hch : n.children = [t, e]) (ht0 : 0 < t) (htlt : t.natAbs < nodeId) (he0 : e ≠ 0)
    (helt : e.natAbs < nodeId) (hid : nodeId < usize64)
    (hte : acc[t.natAbs - 1]? = some te) (hee : acc[e.natAbs - 1]? = some ee)
    (hL : n.level ∈ supp)
    (hLt : n.level < levelOfId 1 all t.natAbs) (hLe : n.level < levelOfId 1 all e.natAbs)
    (hts : levelOfId 1 all t.natAbs = levelMax ∨ levelOfId 1 all t.natAbs ∈ supp)
    (hes : levelOfId 1 all e.natAbs = levelMax ∨ levelOfId 1 all e.natAbs ∈ supp)
    (hlt : A.level te = tlev supp slm (levelOfId 1 all t.natAbs))
    (hle : A.level ee = tlev supp slm (levelOfId 1 all e.natAbs))
    (hcl : ∀ x, A.level (A.complement x) = A.level x) :
    importBinStep g A term (mkLevelSuppvarMap numLevels slm) slm nodeId acc
        (binNodeRecord 1 supp all nodeId n ++ r)
      = .ok (A.reduce (tlev supp slm n.level) [te, if e < 0 then A.complement ee else ee], r) := by
  -- abbreviations
  generalize hLtd : levelOfId 1 all t.natAbs = Lt at *
  generalize hLed : levelOfId 1 all e.natAbs = Le at *
  have hLne : n.level ≠ levelMax := by have := M.hsb _ hL; omega
  obtain ⟨hvi, evi, bvi⟩ := tlev_of_mem M n.level hL hLne
  have htpos : 0 < t.natAbs := by omega
  have hepos : 0 < e.natAbs := by omega
  -- shape of the record
  unfold binNodeRecord
  simp only [hch, List.getD_cons_zero, List.getD_cons_succ, hLtd, hLed]
  generalize hvc : varCodeOf (suppIdx supp n.level)
    (if min Lt Le ≠ levelMax then some (suppIdx supp (min Lt Le)) else none) = vc
  generalize htc : binIdx 1 t.natAbs nodeId = tc
  generalize hec : binIdx 1 e.natAbs nodeId = ec
  have hrec : writeEscaped [nodeCode vc.1 tc.1 (decide (e < 0)) ec.1] ++ argBytes vc ++ argBytes tc
        ++ argBytes ec ++ r
      = escByte (nodeCode vc.1 tc.1 (decide (e < 0)) ec.1)
        ++ (argBytes vc ++ (argBytes tc ++ (argBytes ec ++ r))) := by
    simp [writeEscaped, List.append_assoc]
  rw [hrec]
  unfold importBinStep
  rw [readUnescape_escByte]
  simp only [decodeNodeCode_nodeCode]
  have hvne : vc.1 ≠ Code.terminal := by rw [← hvc]; exact varCodeOf_ne_terminal _ _
  simp only [hvne, ↓reduceIte]
  -- the argument of the variable code
  have hvarg : (if vc.1.hasArg = true then decode7 (argBytes vc ++ (argBytes tc ++ (argBytes ec ++ r)))
        else Res.ok (1, argBytes vc ++ (argBytes tc ++ (argBytes ec ++ r))))
      = Res.ok (vidRead vc, argBytes tc ++ (argBytes ec ++ r)) := by
    unfold argBytes vidRead
    by_cases hh : vc.1.hasArg = true
    · simp only [hh, ↓reduceIte]
      apply decode7_encode7
      -- the argument is a support-variable index or a difference of two
      rw [← hvc]
      have h1 := suppIdx_le_length supp n.level
      have h2 := suppIdx_le_length supp (min Lt Le)
      have := M.hsl
      apply varCodeOf_snd_lt _ _ _ (by omega)
      intro m hm
      split at hm
      · simp at hm; omega
      · simp at hm
    · simp [hh]
  rw [hvarg]
  simp only
  -- then / else ids
  rw [← htc, readIdx_binIdx g t.natAbs nodeId _ htpos htlt hid]
  simp only [hte]
  rw [← hec, readIdx_binIdx g e.natAbs nodeId _ hepos helt hid]
  simp only [hee]
  -- the variable index
  have hle' : A.level (if decide (e < 0) = true then A.complement ee else ee) = tlev supp slm Le := by
    split
    · rw [hcl]; exact hle
    · exact hle
  have hres : resolveVid vc.1 (vidRead vc) (min (A.level te) (A.level (if decide (e < 0) = true then A.complement ee else ee)))
      (mkLevelSuppvarMap numLevels slm) slm = .ok (suppIdx supp n.level) := by
    rw [hlt, hle', min_tlev M Lt Le hts hes, ← hvc]
    by_cases hmin : min Lt Le = levelMax
    · simp only [hmin, ne_eq, not_true_eq_false, ↓reduceIte, tlev_levelMax]
      exact resolveVid_varCodeOf_none _ _ _ hvi
    · simp only [ne_eq, hmin, not_false_eq_true, ↓reduceIte]
      have hmem : min Lt Le ∈ supp := by
        by_cases hab : Lt ≤ Le
        · rw [Nat.min_eq_left hab] at hmin ⊢
          rcases hts with h | h; exact absurd h hmin; exact h
        · have hba : Le ≤ Lt := by omega
          rw [Nat.min_eq_right hba] at hmin ⊢
          rcases hes with h | h; exact absurd h hmin; exact h
      obtain ⟨hm, em, bm⟩ := tlev_of_mem M (min Lt Le) hmem hmin
      have hlt' : n.level < min Lt Le := by
        by_cases hab : Lt ≤ Le
        · rw [Nat.min_eq_left hab]; exact hLt
        · rw [Nat.min_eq_right (by omega)]; exact hLe
      apply resolveVid_varCodeOf_some _ _ _ _ _ hvi (suppIdx_strictMono supp _ _ hlt' hL)
      · have := M.hnl; omega
      · rw [em]
        exact mkLevelSuppvarMap_getElem? numLevels slm M.hslm _ hm (by rw [← em]; exact bm)
  rw [hres]
  simp only
  rw [List.getElem?_eq_getElem hvi]
  simp only
  -- level check
  have c1 : ¬ (slm[suppIdx supp n.level] ≥ A.level te) := by
    rw [hlt, ← evi]; have := tlev_strict M n.level Lt hL hts hLt; omega
  have c2 : ¬ (slm[suppIdx supp n.level] ≥ A.level (if decide (e < 0) = true then A.complement ee else ee)) := by
    rw [hle', ← evi]; have := tlev_strict M n.level Le hL hes hLe; omega
  simp only [c1, c2, decide_false, Bool.or_self, Bool.false_eq_true, ↓reduceIte, evi]
  simp

end OxiddModel.Dddmp
