import OxiddModel.Dddmp.LemmasCodec

/-! Lemmas for the structured export → import round trip (binary mode). -/
namespace OxiddModel.Dddmp

/-! ### support-variable indices -/

theorem suppIdx_cons_lt (a : Nat) (s : List Nat) (l : Nat) (h : a < l) :
    suppIdx (a :: s) l = suppIdx s l + 1 := by
  simp [suppIdx, h]

theorem suppIdx_cons_ge (a : Nat) (s : List Nat) (l : Nat) (h : ¬ a < l) :
    suppIdx (a :: s) l = suppIdx s l := by
  simp [suppIdx, h]

theorem suppIdx_of_all_ge (s : List Nat) (l : Nat) (h : ∀ x ∈ s, l ≤ x) : suppIdx s l = 0 := by
  induction s with
  | nil => simp [suppIdx]
  | cons a s ih =>
    rw [suppIdx_cons_ge a s l (by have := h a (by simp); omega)]
    exact ih (fun x hx => h x (by simp [hx]))

/-- a member of a strictly ascending list sits at its `suppIdx` -/
theorem getElem?_suppIdx (s : List Nat) (hs : s.Pairwise (· < ·)) (l : Nat) (hl : l ∈ s) :
    s[suppIdx s l]? = some l := by
  induction s with
  | nil => simp at hl
  | cons a s ih =>
    rw [List.pairwise_cons] at hs
    rcases List.mem_cons.mp hl with rfl | hl'
    · rw [suppIdx_cons_ge l s l (by omega), suppIdx_of_all_ge s l (fun x hx => by have := hs.1 x hx; omega)]
      simp
    · have : a < l := hs.1 l hl'
      rw [suppIdx_cons_lt a s l this]
      simp [ih hs.2 hl']

theorem suppIdx_lt_length (s : List Nat) (hs : s.Pairwise (· < ·)) (l : Nat) (hl : l ∈ s) :
    suppIdx s l < s.length := by
  have := getElem?_suppIdx s hs l hl
  by_cases h : suppIdx s l < s.length
  · exact h
  · rw [List.getElem?_eq_none (by omega)] at this; simp at this

theorem suppIdx_mono (s : List Nat) (l1 l2 : Nat) (h : l1 ≤ l2) : suppIdx s l1 ≤ suppIdx s l2 := by
  induction s with
  | nil => simp [suppIdx]
  | cons a s ih =>
    by_cases h1 : a < l1
    · rw [suppIdx_cons_lt a s l1 h1, suppIdx_cons_lt a s l2 (by omega)]; omega
    · rw [suppIdx_cons_ge a s l1 h1]
      by_cases h2 : a < l2
      · rw [suppIdx_cons_lt a s l2 h2]; omega
      · rw [suppIdx_cons_ge a s l2 h2]; exact ih

theorem suppIdx_strictMono (s : List Nat) (l1 l2 : Nat) (h : l1 < l2) (hl : l1 ∈ s) :
    suppIdx s l1 < suppIdx s l2 := by
  induction s with
  | nil => simp at hl
  | cons a s ih =>
    rcases List.mem_cons.mp hl with rfl | hl'
    · rw [suppIdx_cons_ge l1 s l1 (by omega), suppIdx_cons_lt l1 s l2 h]
      have := suppIdx_mono s l1 l2 (by omega)
      omega
    · by_cases h1 : a < l1
      · rw [suppIdx_cons_lt a s l1 h1, suppIdx_cons_lt a s l2 (by omega)]
        have := ih hl'; omega
      · rw [suppIdx_cons_ge a s l1 h1]
        by_cases h2 : a < l2
        · rw [suppIdx_cons_lt a s l2 h2]; have := ih hl'; omega
        · rw [suppIdx_cons_ge a s l2 h2]; exact ih hl'

theorem suppLevels_pairwise (nvars : Nat) (nodes : List SNode) : (suppLevels nvars nodes).Pairwise (· < ·) := by
  unfold suppLevels
  apply List.Pairwise.filter
  exact List.pairwise_lt_range

theorem mem_suppLevels (nvars : Nat) (nodes : List SNode) (n : SNode) (hn : n ∈ nodes) (hl : n.level < nvars) :
    n.level ∈ suppLevels nvars nodes := by
  unfold suppLevels
  simp only [List.mem_filter, List.mem_range, List.any_eq_true, decide_eq_true_eq]
  exact ⟨hl, n, hn, rfl⟩

/-! ### `level_suppvar_map` -/

theorem pairwise_getElem_lt (s : List Nat) (hs : s.Pairwise (· < ·)) (i j : Nat) (hi : i < j) (hj : j < s.length) :
    s[i]'(by omega) < s[j] := by
  exact (List.pairwise_iff_getElem.mp hs) i j (by omega) hj hi

theorem idxOf_getElem_of_pairwise (s : List Nat) (hs : s.Pairwise (· < ·)) (k : Nat) (hk : k < s.length) :
    s.idxOf s[k] = k := by
  induction s generalizing k with
  | nil => simp at hk
  | cons a s ih =>
    rw [List.pairwise_cons] at hs
    match k with
    | 0 => simp
    | k + 1 =>
      simp only [List.getElem_cons_succ]
      have hne : a ≠ s[k]'(by simp at hk; omega) := by
        have := hs.1 (s[k]'(by simp at hk; omega)) (List.getElem_mem _)
        omega
      have hb : (a == s[k]'(by simp at hk; omega)) = false := by simpa using hne
      rw [List.idxOf_cons, hb]
      simp only [cond_false]
      rw [ih hs.2 k (by simp at hk; omega)]

theorem mkLevelSuppvarMap_getElem? (numLevels : Nat) (slm : List Nat) (hs : slm.Pairwise (· < ·))
    (k : Nat) (hk : k < slm.length) (hb : slm[k] < numLevels) :
    (mkLevelSuppvarMap numLevels slm)[slm[k]]? = some k := by
  unfold mkLevelSuppvarMap
  rw [List.getElem?_map, List.getElem?_range hb]
  simp only [Option.map_some, indexOf?]
  rw [idxOf_getElem_of_pairwise slm hs k hk]
  simp [hk]

theorem mkLevelSuppvarMap_length (numLevels : Nat) (slm : List Nat) :
    (mkLevelSuppvarMap numLevels slm).length = numLevels := by
  simp [mkLevelSuppvarMap]

/-! ### target levels -/

/-- level in the importing manager of a source level: terminals keep `levelMax`, a support level
`l` goes to `slm[suppIdx supp l]` -/
def tlev (supp slm : List Nat) (l : Nat) : Nat :=
  if l = levelMax then levelMax else slm.getD (suppIdx supp l) 0

structure LevelMaps (supp slm : List Nat) (numLevels : Nat) : Prop where
  hsupp : supp.Pairwise (· < ·)
  hslm : slm.Pairwise (· < ·)
  hlen : slm.length = supp.length
  hbound : ∀ x ∈ slm, x < numLevels
  hnl : numLevels ≤ levelMax
  hsl : supp.length < usize64
  hsb : ∀ x ∈ supp, x < levelMax

theorem tlev_of_mem {supp slm : List Nat} {numLevels : Nat} (M : LevelMaps supp slm numLevels)
    (l : Nat) (hl : l ∈ supp) (hne : l ≠ levelMax) :
    ∃ h : suppIdx supp l < slm.length, tlev supp slm l = slm[suppIdx supp l] ∧ tlev supp slm l < numLevels := by
  have h : suppIdx supp l < slm.length := by rw [M.hlen]; exact suppIdx_lt_length supp M.hsupp l hl
  refine ⟨h, ?_, ?_⟩
  · simp [tlev, hne, List.getD_eq_getElem?_getD, List.getElem?_eq_getElem h]
  · simp only [tlev, hne, ↓reduceIte, List.getD_eq_getElem?_getD, List.getElem?_eq_getElem h, Option.getD_some]
    exact M.hbound _ (List.getElem_mem _)

/-- strict monotonicity of the level translation (first argument a support level) -/
theorem tlev_strict {supp slm : List Nat} {numLevels : Nat} (M : LevelMaps supp slm numLevels)
    (a b : Nat) (ha : a ∈ supp) (hb : b = levelMax ∨ b ∈ supp) (hab : a < b) :
    tlev supp slm a < tlev supp slm b := by
  have hane : a ≠ levelMax := by have := M.hsb a ha; omega
  obtain ⟨h1, e1, b1⟩ := tlev_of_mem M a ha hane
  by_cases hbm : b = levelMax
  · subst hbm
    have : tlev supp slm levelMax = levelMax := by simp [tlev]
    rw [this]; have := M.hnl; omega
  · have hb' : b ∈ supp := by rcases hb with h | h; exact absurd h hbm; exact h
    obtain ⟨h2, e2, _⟩ := tlev_of_mem M b hb' hbm
    rw [e1, e2]
    exact pairwise_getElem_lt slm M.hslm _ _ (suppIdx_strictMono supp a b hab ha) h2

end OxiddModel.Dddmp
