import OxiddModel.Dddmp.LemmasLoop

/-! With the range checks of fix 2741478 (`g.relId`, `g.relVar`) the binary importer never panics. -/
namespace OxiddModel.Dddmp

theorem readUnescape_ne_panic (inp : List Nat) : readUnescape inp ≠ .panic := by
  unfold readUnescape
  split
  · simp
  · split
    · simp
    · split
      · simp
      · split <;> (try split) <;> (try split) <;> (try split) <;> simp

theorem dec7Go_ne_panic (fuel res : Nat) (inp : List Nat) : dec7Go fuel res inp ≠ .panic := by
  induction fuel generalizing res inp with
  | zero => simp [dec7Go]
  | succ f ih =>
    unfold dec7Go
    cases h : readUnescape inp with
    | err => simp
    | panic => exact absurd h (readUnescape_ne_panic inp)
    | ok p =>
      obtain ⟨b, r⟩ := p
      simp only
      split
      · simp
      · exact ih _ _

theorem decode7_ne_panic (inp : List Nat) : decode7 inp ≠ .panic := dec7Go_ne_panic _ _ _

theorem idFinish_ok {nodeId id : Nat} {r : List Nat} {i : Nat} {r' : List Nat}
    (h : idFinish nodeId id r = .ok (i, r')) : i + 1 < nodeId := by
  unfold idFinish at h
  split at h
  · simp at h
  · split at h
    · simp at h
    · simp at h; omega

theorem idFinish_ne_panic (nodeId id : Nat) (r : List Nat) : idFinish nodeId id r ≠ .panic := by
  unfold idFinish; split <;> (try split) <;> simp

theorem readIdx_all_ne_panic (g : Guards) (hg : g.relId = true) (inp : List Nat) (nodeId : Nat) (c : Code) :
    readIdx g inp nodeId c ≠ .panic := by
  unfold readIdx
  cases c with
  | terminal => exact idFinish_ne_panic _ _ _
  | relative1 => exact idFinish_ne_panic _ _ _
  | absoluteID =>
    simp only
    cases h : decode7 inp with
    | err => simp
    | panic => exact absurd h (decode7_ne_panic inp)
    | ok p => exact idFinish_ne_panic _ _ _
  | relativeID =>
    simp only
    cases h : decode7 inp with
    | err => simp
    | panic => exact absurd h (decode7_ne_panic inp)
    | ok p =>
      simp only
      split
      · simp
      · exact idFinish_ne_panic _ _ _

theorem readIdx_ok {g : Guards} {inp : List Nat} {nodeId : Nat} {c : Code} {i : Nat} {r : List Nat}
    (h : readIdx g inp nodeId c = .ok (i, r)) : i + 1 < nodeId := by
  unfold readIdx at h
  cases c with
  | terminal => exact idFinish_ok h
  | relative1 => exact idFinish_ok h
  | absoluteID =>
    simp only at h
    cases hd : decode7 inp with
    | err => simp [hd] at h
    | panic => simp [hd] at h
    | ok p => simp only [hd] at h; exact idFinish_ok h
  | relativeID =>
    simp only at h
    cases hd : decode7 inp with
    | err => simp [hd] at h
    | panic => simp [hd] at h
    | ok p =>
      simp only [hd] at h
      split at h
      · split at h <;> simp at h
      · exact idFinish_ok h

/-- `resolveVid` panics only on a level outside `level_suppvar_map` -/
theorem resolveVid_ne_panic {varCode : Code} {vid minLevel : Nat} {lsm slm : List Nat}
    (hml : minLevel = levelMax ∨ minLevel < lsm.length) :
    resolveVid varCode vid minLevel lsm slm ≠ .panic := by
  unfold resolveVid
  by_cases ha : varCode = .absoluteID
  · simp only [ha, ↓reduceIte]
    split <;> simp
  · simp only [ha, ↓reduceIte]
    by_cases hm : minLevel = levelMax
    · simp only [hm, ↓reduceIte]
      split <;> simp
    · simp only [hm, ↓reduceIte]
      have hlt : minLevel < lsm.length := by rcases hml with h | h; exact absurd h hm; exact h
      rw [List.getElem?_eq_getElem hlt]
      simp only
      split <;> simp

/-- laws of the manager side needed for totality: where the node returned by `reduce` sits, and
that the caller's `complement` does not move an edge to another level -/
structure LevelLaws {E : Type} (A : Alg E) : Prop where
  reduce2 : ∀ l t e, A.level (A.reduce l [t, e]) = l ∨ A.level (A.reduce l [t, e]) = A.level t ∨
    A.level (A.reduce l [t, e]) = A.level e
  complement : ∀ e, A.level (A.complement e) = A.level e

def LevelsOK {E : Type} (A : Alg E) (bound : Nat) (acc : List E) : Prop :=
  ∀ x ∈ acc, A.level x = levelMax ∨ A.level x < bound

theorem importBinStep_all {E : Type} (A : Alg E) (L : LevelLaws A) (term : E) (lsm slm : List Nat)
    (nodeId : Nat) (acc : List E) (inp : List Nat)
    (hlen : acc.length + 1 = nodeId) (hacc : LevelsOK A lsm.length acc)
    (hterm : A.level term = levelMax ∨ A.level term < lsm.length) (hslm : ∀ x ∈ slm, x < lsm.length)
    (g : Guards) (hg1 : g.relId = true) (hg2 : g.relVar = true) :
    importBinStep g A term lsm slm nodeId acc inp ≠ .panic ∧
      ∀ x r, importBinStep g A term lsm slm nodeId acc inp = .ok (x, r) →
        (A.level x = levelMax ∨ A.level x < lsm.length) := by
  unfold importBinStep
  cases h1 : readUnescape inp with
  | err => simp
  | panic => exact absurd h1 (readUnescape_ne_panic inp)
  | ok p1 =>
    obtain ⟨code, inp1⟩ := p1
    simp only
    by_cases hvt : (decodeNodeCode code).1 = .terminal
    · simp only [hvt, ↓reduceIte]
      refine ⟨by simp, ?_⟩
      intro x r h; simp at h; rw [← h.1]; exact hterm
    · simp only [hvt, ↓reduceIte]
      cases h2 : (if (decodeNodeCode code).1.hasArg = true then decode7 inp1 else Res.ok (1, inp1)) with
      | err => simp
      | panic =>
        exfalso
        split at h2
        · exact decode7_ne_panic _ h2
        · simp at h2
      | ok p2 =>
        obtain ⟨vid, inp2⟩ := p2
        simp only
        cases h3 : readIdx g inp2 nodeId (decodeNodeCode code).2.1 with
        | err => simp
        | panic => exact absurd h3 (readIdx_all_ne_panic g hg1 _ _ _)
        | ok p3 =>
          obtain ⟨ti, inp3⟩ := p3
          simp only
          have hti := readIdx_ok h3
          have htl : ti < acc.length := by omega
          rw [List.getElem?_eq_getElem htl]
          simp only
          cases h4 : readIdx g inp3 nodeId (decodeNodeCode code).2.2.2 with
          | err => simp
          | panic => exact absurd h4 (readIdx_all_ne_panic g hg1 _ _ _)
          | ok p4 =>
            obtain ⟨ei, inp4⟩ := p4
            simp only
            have hei := readIdx_ok h4
            have hel : ei < acc.length := by omega
            rw [List.getElem?_eq_getElem hel]
            simp only
            have ht := hacc acc[ti] (List.getElem_mem _)
            have he0 := hacc acc[ei] (List.getElem_mem _)
            generalize hedef : (if (decodeNodeCode code).2.2.1 = true then A.complement acc[ei] else acc[ei]) = e
            have he : A.level e = levelMax ∨ A.level e < lsm.length := by
              rw [← hedef]; split
              · rw [L.complement]; exact he0
              · exact he0
            have hmin : min (A.level acc[ti]) (A.level e) = levelMax ∨
                min (A.level acc[ti]) (A.level e) < lsm.length := by
              rcases ht with ht | ht <;> rcases he with he | he <;> simp only [Nat.min_def] <;> split <;> omega
            have hnp := @resolveVid_ne_panic (decodeNodeCode code).1 vid _ lsm slm hmin
            cases h5 : resolveVid (decodeNodeCode code).1 vid (min (A.level acc[ti]) (A.level e)) lsm slm with
            | err => simp
            | panic => exact absurd h5 hnp
            | ok v =>
              simp only
              cases hv : slm[v]? with
              | none => simp [hg2]
              | some level =>
                simp only
                split
                · simp
                · refine ⟨by simp, ?_⟩
                  intro x r h
                  simp at h
                  rw [← h.1]
                  have hs := hslm level (List.mem_of_getElem? hv)
                  rcases L.reduce2 level acc[ti] e with h | h | h
                  · rw [h]; right; exact hs
                  · rw [h]; exact ht
                  · rw [h]; exact he

/-- **totality**: the node loop of `import_bin` returns `ok` or `err` on every input once the two
range checks are present -/
theorem importBinLoop_all_ne_panic {E : Type} (A : Alg E) (L : LevelLaws A) (term : E) (lsm slm : List Nat)
    (hterm : A.level term = levelMax ∨ A.level term < lsm.length) (hslm : ∀ x ∈ slm, x < lsm.length)
    (g : Guards) (hg1 : g.relId = true) (hg2 : g.relVar = true) :
    ∀ (m nodeId : Nat) (acc : List E) (inp : List Nat), acc.length + 1 = nodeId →
      LevelsOK A lsm.length acc → importBinLoop g A term lsm slm m nodeId acc inp ≠ .panic := by
  intro m
  induction m with
  | zero => intro nodeId acc inp _ _; simp [importBinLoop]
  | succ m ih =>
    intro nodeId acc inp hlen hacc
    unfold importBinLoop
    obtain ⟨hnp, hok⟩ := importBinStep_all A L term lsm slm nodeId acc inp hlen hacc hterm hslm g hg1 hg2
    cases h : importBinStep g A term lsm slm nodeId acc inp with
    | err => simp
    | panic => exact absurd h hnp
    | ok p =>
      obtain ⟨x, r⟩ := p
      simp only
      apply ih
      · simp; omega
      · intro y hy
        rcases List.mem_append.mp hy with hy | hy
        · exact hacc y hy
        · simp at hy; rw [hy]; exact hok x r h

theorem importBinLoop_length {E : Type} (g : Guards) (A : Alg E) (term : E) (lsm slm : List Nat) :
    ∀ (m nodeId : Nat) (acc : List E) (inp : List Nat) (nodes : List E) (r : List Nat),
      importBinLoop g A term lsm slm m nodeId acc inp = .ok (nodes, r) → nodes.length = acc.length + m := by
  intro m
  induction m with
  | zero => intro nodeId acc inp nodes r h; simp [importBinLoop] at h; rw [← h.1]; rfl
  | succ m ih =>
    intro nodeId acc inp nodes r h
    unfold importBinLoop at h
    cases hs : importBinStep g A term lsm slm nodeId acc inp with
    | err => simp [hs] at h
    | panic => simp [hs] at h
    | ok p =>
      obtain ⟨x, r'⟩ := p
      simp only [hs] at h
      have := ih _ _ _ _ _ h
      simp at this; omega

/-! ### ASCII mode -/

theorem parseUnsigned_go_ne_panic (max : Nat) : ∀ (s : List Nat) (res : Nat) (num : Bool),
    parseUnsigned.go max res num s ≠ .panic := by
  intro s
  induction s with
  | nil => intro res num; unfold parseUnsigned.go; split <;> simp
  | cons c r ih =>
    intro res num
    unfold parseUnsigned.go
    split
    · simp only
      split
      · simp
      · exact ih _ _
    · split
      · split
        · simp
        · exact ih _ _
      · simp

theorem parseUnsigned_ne_panic (max : Nat) (s : List Nat) : parseUnsigned max s ≠ .panic :=
  parseUnsigned_go_ne_panic max s 0 false

theorem parseEdgeList_go_ne_panic : ∀ (s : List Nat) (i : Nat) (neg num : Bool) (acc : List Int),
    parseEdgeList.go i neg num acc s ≠ .panic := by
  intro s
  induction s with
  | nil => intro i neg num acc; unfold parseEdgeList.go; simp
  | cons c r ih =>
    intro i neg num acc
    unfold parseEdgeList.go
    split
    · simp only
      split
      · simp
      · exact ih _ _ _ _
    · split
      · split
        · simp
        · split
          · simp
          · exact ih _ _ _ _
      · split
        · split
          · exact ih _ _ _ _
          · exact ih _ _ _ _
        · simp

theorem parseEdgeList_ne_panic (s : List Nat) : parseEdgeList s ≠ .panic :=
  parseEdgeList_go_ne_panic s 0 false false []

theorem asciiChildren_ne_panic {E : Type} (A : Alg E) (level nodeId : Nat) (nodes : List E)
    (hlen : nodes.length + 1 = nodeId) : ∀ (cs : List Int), (∀ c ∈ cs, c ≠ 0) →
    asciiChildren A level nodeId nodes cs ≠ .panic := by
  intro cs
  induction cs with
  | nil => intro _; simp [asciiChildren]
  | cons c cs ih =>
    intro h
    unfold asciiChildren
    simp only
    split
    · simp
    · rename_i hlt
      have hc := h c (by simp)
      have : c.natAbs - 1 < nodes.length := by omega
      rw [List.getElem?_eq_getElem this]
      simp only
      generalize (if c < 0 then A.complement nodes[c.natAbs - 1] else nodes[c.natAbs - 1]) = ce
      split
      · simp
      · have := ih (fun x hx => h x (by simp [hx]))
        cases hr : asciiChildren A level nodeId nodes cs with
        | ok es => simp
        | err => simp
        | panic => exact absurd hr this

theorem importAsciiLine_ne_panic {E : Type} (A : Alg E) (varinfo : Nat) (slm : List Nat) (nodeId : Nat)
    (nodes : List E) (ln : List Nat) (hlen : nodes.length + 1 = nodeId) :
    importAsciiLine A varinfo slm nodeId nodes ln ≠ .panic := by
  unfold importAsciiLine
  cases h1 : parseUnsigned (usize64 - 1) ln with
  | err => simp
  | panic => exact absurd h1 (parseUnsigned_ne_panic _ _)
  | ok p =>
    obtain ⟨idNo, rest⟩ := p
    simp only
    split
    · simp
    · split
      · simp
      · rename_i heq
        exfalso
        split at heq
        · split at heq <;> simp at heq
        · simp at heq
      · rename_i rest' hrest
        split
        · simp
        · rename_i varId rest2 _
          cases h2 : parseEdgeList rest2 with
          | err => simp
          | panic => exact absurd h2 (parseEdgeList_ne_panic _)
          | ok children =>
            simp only
            split
            · simp
            · split
              · split
                · simp
                · split <;> simp
              · rename_i hc0
                cases h3 : parseUnsigned u32Max varId with
                | err => simp
                | panic => exact absurd h3 (parseUnsigned_ne_panic _ _)
                | ok q =>
                  obtain ⟨var, _⟩ := q
                  simp only
                  split
                  · simp
                  · rename_i level _
                    have hnz : ∀ c ∈ children, c ≠ 0 := by
                      intro c hc h0
                      subst h0
                      exact hc0 (by simpa using hc)
                    have := asciiChildren_ne_panic A level nodeId nodes hlen children hnz
                    cases h4 : asciiChildren A level nodeId nodes children with
                    | ok es => simp
                    | err => simp
                    | panic => exact absurd h4 this

theorem importAsciiLoop_ne_panic {E : Type} (A : Alg E) (varinfo : Nat) (slm : List Nat) :
    ∀ (m nodeId : Nat) (nodes : List E) (inp : List Nat), nodes.length + 1 = nodeId →
      importAsciiLoop A varinfo slm m nodeId nodes inp ≠ .panic ∧
      ∀ ns r, importAsciiLoop A varinfo slm m nodeId nodes inp = .ok (ns, r) → ns.length = nodes.length + m := by
  intro m
  induction m with
  | zero =>
    intro nodeId nodes inp _
    refine ⟨by simp [importAsciiLoop], ?_⟩
    intro ns r h; simp [importAsciiLoop] at h; rw [← h.1]; rfl
  | succ m ih =>
    intro nodeId nodes inp hlen
    unfold importAsciiLoop
    cases hr : readLine inp with
    | none => simp
    | some p =>
      obtain ⟨ln, rest⟩ := p
      simp only
      cases hl : importAsciiLine A varinfo slm nodeId nodes ln with
      | err => simp
      | panic => exact absurd hl (importAsciiLine_ne_panic A varinfo slm nodeId nodes ln hlen)
      | ok e =>
        simp only
        obtain ⟨h1, h2⟩ := ih (nodeId + 1) (nodes ++ [e]) rest (by simp; omega)
        refine ⟨h1, ?_⟩
        intro ns r h
        have := h2 ns r h
        simp at this; omega

theorem importRoots_ne_panic {E : Type} (A : Alg E) (nodes : List E) (roots : List Int)
    (h : ∀ r ∈ roots, r ≠ 0 ∧ r.natAbs ≤ nodes.length) : importRoots A nodes roots ≠ .panic := by
  induction roots with
  | nil => simp [importRoots]
  | cons r rs ih =>
    have hr := h r (by simp)
    have : r.natAbs - 1 < nodes.length := by omega
    have ih' := ih (fun x hx => h x (by simp [hx]))
    unfold importRoots
    rw [List.getElem?_eq_getElem this]
    simp only
    cases hrs : importRoots A nodes rs with
    | ok es => simp
    | err => simp
    | panic => exact absurd hrs ih'

end OxiddModel.Dddmp
