import OxiddModel.Dddmp.LemmasLoop

/-! With the two missing range checks (`Guards.all`) the binary importer never panics. -/
namespace OxiddModel.Dddmp

theorem readUnescape_ne_panic (inp : List Nat) : readUnescape inp ≠ .panic := by
  unfold readUnescape
  split
  · simp
  · split
    · simp
    · split
      · simp
      · split <;> (try split) <;> (try split) <;> (try split) <;> simp

theorem dec7Go_ne_panic (fuel res : Nat) (inp : List Nat) : dec7Go fuel res inp ≠ .panic := by
  induction fuel generalizing res inp with
  | zero => simp [dec7Go]
  | succ f ih =>
    unfold dec7Go
    cases h : readUnescape inp with
    | err => simp
    | panic => exact absurd h (readUnescape_ne_panic inp)
    | ok p =>
      obtain ⟨b, r⟩ := p
      simp only
      split
      · simp
      · exact ih _ _

theorem decode7_ne_panic (inp : List Nat) : decode7 inp ≠ .panic := dec7Go_ne_panic _ _ _

theorem idFinish_ok {nodeId id : Nat} {r : List Nat} {i : Nat} {r' : List Nat}
    (h : idFinish nodeId id r = .ok (i, r')) : i + 1 < nodeId := by
  unfold idFinish at h
  split at h
  · simp at h
  · split at h
    · simp at h
    · simp at h; omega

theorem idFinish_ne_panic (nodeId id : Nat) (r : List Nat) : idFinish nodeId id r ≠ .panic := by
  unfold idFinish; split <;> (try split) <;> simp

theorem readIdx_all_ne_panic (inp : List Nat) (nodeId : Nat) (c : Code) :
    readIdx Guards.all inp nodeId c ≠ .panic := by
  unfold readIdx
  cases c with
  | terminal => exact idFinish_ne_panic _ _ _
  | relative1 => exact idFinish_ne_panic _ _ _
  | absoluteID =>
    simp only
    cases h : decode7 inp with
    | err => simp
    | panic => exact absurd h (decode7_ne_panic inp)
    | ok p => exact idFinish_ne_panic _ _ _
  | relativeID =>
    simp only
    cases h : decode7 inp with
    | err => simp
    | panic => exact absurd h (decode7_ne_panic inp)
    | ok p =>
      simp only
      split
      · simp [Guards.all]
      · exact idFinish_ne_panic _ _ _

theorem readIdx_ok {g : Guards} {inp : List Nat} {nodeId : Nat} {c : Code} {i : Nat} {r : List Nat}
    (h : readIdx g inp nodeId c = .ok (i, r)) : i + 1 < nodeId := by
  unfold readIdx at h
  cases c with
  | terminal => exact idFinish_ok h
  | relative1 => exact idFinish_ok h
  | absoluteID =>
    simp only at h
    cases hd : decode7 inp with
    | err => simp [hd] at h
    | panic => simp [hd] at h
    | ok p => simp only [hd] at h; exact idFinish_ok h
  | relativeID =>
    simp only at h
    cases hd : decode7 inp with
    | err => simp [hd] at h
    | panic => simp [hd] at h
    | ok p =>
      simp only [hd] at h
      split at h
      · split at h <;> simp at h
      · exact idFinish_ok h

/-- with the guard, a resolved variable index is in range; it panics only on a level outside
`level_suppvar_map` -/
theorem resolveVid_all {varCode : Code} {vid minLevel : Nat} {lsm slm : List Nat}
    (hml : minLevel = levelMax ∨ minLevel < lsm.length) :
    resolveVid Guards.all varCode vid minLevel lsm slm ≠ .panic ∧
      ∀ v, resolveVid Guards.all varCode vid minLevel lsm slm = .ok v → v < slm.length := by
  unfold resolveVid
  by_cases ha : varCode = .absoluteID
  · simp only [ha, ↓reduceIte]
    split
    · simp
    · simp; omega
  · simp only [ha, ↓reduceIte]
    by_cases hm : minLevel = levelMax
    · simp only [hm, ↓reduceIte]
      split
      · simp
      · split
        · simp
        · simp [Guards.all] at *; omega
    · simp only [hm, ↓reduceIte]
      have hlt : minLevel < lsm.length := by rcases hml with h | h; exact absurd h hm; exact h
      rw [List.getElem?_eq_getElem hlt]
      simp only
      split
      · simp
      · split
        · simp
        · simp [Guards.all] at *; omega

/-- laws of the manager side needed for totality: where the node returned by `reduce` sits, and
that the caller's `complement` does not move an edge to another level -/
structure LevelLaws {E : Type} (A : Alg E) : Prop where
  reduce2 : ∀ l t e, A.level (A.reduce l [t, e]) = l ∨ A.level (A.reduce l [t, e]) = A.level t ∨
    A.level (A.reduce l [t, e]) = A.level e
  complement : ∀ e, A.level (A.complement e) = A.level e

def LevelsOK {E : Type} (A : Alg E) (bound : Nat) (acc : List E) : Prop :=
  ∀ x ∈ acc, A.level x = levelMax ∨ A.level x < bound

theorem importBinStep_all {E : Type} (A : Alg E) (L : LevelLaws A) (term : E) (lsm slm : List Nat)
    (nodeId : Nat) (acc : List E) (inp : List Nat)
    (hlen : acc.length + 1 = nodeId) (hacc : LevelsOK A lsm.length acc)
    (hterm : A.level term = levelMax ∨ A.level term < lsm.length) (hslm : ∀ x ∈ slm, x < lsm.length) :
    importBinStep Guards.all A term lsm slm nodeId acc inp ≠ .panic ∧
      ∀ x r, importBinStep Guards.all A term lsm slm nodeId acc inp = .ok (x, r) →
        (A.level x = levelMax ∨ A.level x < lsm.length) := by
  unfold importBinStep
  cases h1 : readUnescape inp with
  | err => simp
  | panic => exact absurd h1 (readUnescape_ne_panic inp)
  | ok p1 =>
    obtain ⟨code, inp1⟩ := p1
    simp only
    by_cases hvt : (decodeNodeCode code).1 = .terminal
    · simp only [hvt, ↓reduceIte]
      refine ⟨by simp, ?_⟩
      intro x r h; simp at h; rw [← h.1]; exact hterm
    · simp only [hvt, ↓reduceIte]
      cases h2 : (if (decodeNodeCode code).1.hasArg = true then decode7 inp1 else Res.ok (1, inp1)) with
      | err => simp
      | panic =>
        exfalso
        split at h2
        · exact decode7_ne_panic _ h2
        · simp at h2
      | ok p2 =>
        obtain ⟨vid, inp2⟩ := p2
        simp only
        cases h3 : readIdx Guards.all inp2 nodeId (decodeNodeCode code).2.1 with
        | err => simp
        | panic => exact absurd h3 (readIdx_all_ne_panic _ _ _)
        | ok p3 =>
          obtain ⟨ti, inp3⟩ := p3
          simp only
          have hti := readIdx_ok h3
          have htl : ti < acc.length := by omega
          rw [List.getElem?_eq_getElem htl]
          simp only
          cases h4 : readIdx Guards.all inp3 nodeId (decodeNodeCode code).2.2.2 with
          | err => simp
          | panic => exact absurd h4 (readIdx_all_ne_panic _ _ _)
          | ok p4 =>
            obtain ⟨ei, inp4⟩ := p4
            simp only
            have hei := readIdx_ok h4
            have hel : ei < acc.length := by omega
            rw [List.getElem?_eq_getElem hel]
            simp only
            have ht := hacc acc[ti] (List.getElem_mem _)
            have he := hacc acc[ei] (List.getElem_mem _)
            have hmin : min (A.level acc[ti]) (A.level acc[ei]) = levelMax ∨
                min (A.level acc[ti]) (A.level acc[ei]) < lsm.length := by
              rcases ht with ht | ht <;> rcases he with he | he <;> simp only [Nat.min_def] <;> split <;> omega
            obtain ⟨hnp, hok⟩ := @resolveVid_all (decodeNodeCode code).1 vid _ lsm slm hmin
            cases h5 : resolveVid Guards.all (decodeNodeCode code).1 vid (min (A.level acc[ti]) (A.level acc[ei])) lsm slm with
            | err => simp
            | panic => exact absurd h5 hnp
            | ok v =>
              simp only
              have hv := hok v h5
              rw [List.getElem?_eq_getElem hv]
              simp only
              split
              · simp
              · refine ⟨by simp, ?_⟩
                intro x r h
                simp at h
                rw [← h.1]
                have hs := hslm slm[v] (List.getElem_mem _)
                rcases L.reduce2 slm[v] acc[ti] (if (decodeNodeCode code).2.2.1 = true then A.complement acc[ei] else acc[ei]) with h | h | h
                · rw [h]; right; exact hs
                · rw [h]; exact ht
                · rw [h]
                  split
                  · rw [L.complement]; exact he
                  · exact he

/-- **totality with the guards**: the node loop of `import_bin` returns `ok` or `err` on every
input once the two range checks are present -/
theorem importBinLoop_all_ne_panic {E : Type} (A : Alg E) (L : LevelLaws A) (term : E) (lsm slm : List Nat)
    (hterm : A.level term = levelMax ∨ A.level term < lsm.length) (hslm : ∀ x ∈ slm, x < lsm.length) :
    ∀ (m nodeId : Nat) (acc : List E) (inp : List Nat), acc.length + 1 = nodeId →
      LevelsOK A lsm.length acc → importBinLoop Guards.all A term lsm slm m nodeId acc inp ≠ .panic := by
  intro m
  induction m with
  | zero => intro nodeId acc inp _ _; simp [importBinLoop]
  | succ m ih =>
    intro nodeId acc inp hlen hacc
    unfold importBinLoop
    obtain ⟨hnp, hok⟩ := importBinStep_all A L term lsm slm nodeId acc inp hlen hacc hterm hslm
    cases h : importBinStep Guards.all A term lsm slm nodeId acc inp with
    | err => simp
    | panic => exact absurd h hnp
    | ok p =>
      obtain ⟨x, r⟩ := p
      simp only
      apply ih
      · simp; omega
      · intro y hy
        rcases List.mem_append.mp hy with hy | hy
        · exact hacc y hy
        · simp at hy; rw [hy]; exact hok x r h

end OxiddModel.Dddmp
