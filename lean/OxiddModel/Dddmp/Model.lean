/-!
# DDDMP export / import — executable model (property C15)

Mirrors `crates/oxidd-dump/src/dddmp/{mod,export,import}.rs`.

* bytes are `Nat`s (`< 256` whenever they come from a file; the codecs are total on all `Nat`s),
* `usize` is 64 bit (`usize64 = 2^64`), `u32::MAX = LevelNo::MAX = 4294967295` is the level of a
  terminal node,
* every Rust function returning `io::Result<T>` becomes a total function into `Res T`
  (`ok` / `err` / `panic`): `panic` marks the places where the Rust code indexes a slice or
  subtracts without a guard, so that "the importer never panics" is a statement about the model.

The structured level: a diagram handed to the exporter is the list of its terminals followed by
the list of its inner nodes *in export order* (the order of the exporter's per-level hash maps,
bottom level first); node ids are the 1-based positions in that combined list, children are
signed ids (negative = complemented edge), exactly the numbers the ASCII format prints.
-/
namespace OxiddModel.Dddmp

/-! ## results -/

inductive Res (α : Type) where
  | ok (a : α)
  | err
  | panic
deriving Repr, DecidableEq, Inhabited

namespace Res
@[inline] def bind {α β : Type} (x : Res α) (f : α → Res β) : Res β :=
  match x with
  | .ok a => f a
  | .err => .err
  | .panic => .panic
instance : Monad Res where
  pure := .ok
  bind := Res.bind
def isOk {α : Type} : Res α → Bool
  | .ok _ => true
  | _ => false
end Res

def usize64 : Nat := 18446744073709551616
def isizeMax : Nat := 9223372036854775807
def u32Max : Nat := 4294967295
/-- `LevelNo::MAX`, the level reported for terminal nodes -/
def levelMax : Nat := 4294967295

/-- Switches for the repairs of /verif/work/proposed_fixes/Dddmp-*.diff. `Guards.code` is the code
as it is in /repo now (fix commits 2741478, 675d3b1, 178db83, 87032be: every repair except the
exporter's mode selection `binT`), `Guards.before` the code before these commits (kept for the
`…_before_fix` regression examples), `Guards.all` additionally contains the one repair that was
not applied. -/
structure Guards where
  /-- `import_bin`: check `decode_7bit(..) <= node_id` before `node_id - decode_7bit(..)` -/
  relId : Bool
  /-- `import_bin`: check `vid < suppvar_level_map.len()` also for the relative variable codes -/
  relVar : Bool
  /-- `import_bin`: return an error instead of panicking when the terminal `T` does not exist -/
  noT : Bool
  /-- importer: do not pre-allocate `nnodes` / `nroots` elements (capacity overflow panics) -/
  cap : Bool
  /-- exporter: `leading_underscores` is the maximum, not the last assignment -/
  leadMax : Bool
  /-- exporter: binary mode only if every terminal of the manager is displayed as `T` -/
  binT : Bool
deriving Repr, DecidableEq, Inhabited

def Guards.before : Guards := ⟨false, false, false, false, false, false⟩
def Guards.code : Guards := ⟨true, true, true, true, true, false⟩
def Guards.all : Guards := ⟨true, true, true, true, true, true⟩

/-- the importer-side repairs are present -/
def Guards.ImportSafe (g : Guards) : Prop :=
  g.relId = true ∧ g.relVar = true ∧ g.noT = true ∧ g.cap = true

/-! ## (2) escaping layer: `write_escaped` / `read_unescape` -/

/-- one byte as written by `write_escaped` -/
def escByte (c : Nat) : List Nat :=
  if c = 0 then [0, 0]
  else if c = 10 then [0, 1]
  else if c = 13 then [0, 2]
  else if c = 26 then [0, 3]
  else [c]

def writeEscaped : List Nat → List Nat
  | [] => []
  | c :: cs => escByte c ++ writeEscaped cs

/-- `read_unescape`: one (unescaped) byte and the remaining input; EOF and an invalid escape
sequence are errors -/
def readUnescape : List Nat → Res (Nat × List Nat)
  | [] => .err
  | b :: r =>
    if b ≠ 0 then .ok (b, r)
    else match r with
      | [] => .err
      | c :: r' =>
        if c = 0 then .ok (0, r')
        else if c = 1 then .ok (10, r')
        else if c = 2 then .ok (13, r')
        else if c = 3 then .ok (26, r')
        else .err

/-- inverse of `writeEscaped` on a whole buffer (used to state `escape_roundtrip`) -/
def unescapeAll (fuel : Nat) (inp : List Nat) : Res (List Nat) :=
  match fuel with
  | 0 => .err
  | fuel + 1 =>
    match inp with
    | [] => .ok []
    | _ =>
      match readUnescape inp with
      | .ok (b, r) =>
        match unescapeAll fuel r with
        | .ok bs => .ok (b :: bs)
        | .err => .err
        | .panic => .panic
      | .err => .err
      | .panic => .panic

/-! ## (1) 7-bit integers: `encode_7bit` / `decode_7bit` -/

/-- the `while value != 0` loop of `encode_7bit`, filling the buffer from the back (fuel: the
value itself is more than enough, every round divides it by 128) -/
def enc7Go (fuel v : Nat) (acc : List Nat) : List Nat :=
  match fuel with
  | 0 => acc
  | fuel + 1 => if v = 0 then acc else enc7Go fuel (v / 128) (((v % 128) * 2 + 1) :: acc)

/-- the unescaped bytes of `encode_7bit(value)`: most significant group first, bit 0 of a byte is
the continuation flag (set on all but the last byte), the payload sits in bits 1..7 -/
def raw7 (n : Nat) : List Nat := enc7Go (n / 128) (n / 128) [(n % 128) * 2]

def encode7 (n : Nat) : List Nat := writeEscaped (raw7 n)

/-- `decode_7bit`; `res.checked_shl(7)` only checks the shift amount, hence never fails:
the accumulator silently wraps at 64 bits. Fuel = an upper bound on the number of bytes. -/
def dec7Go (fuel : Nat) (res : Nat) (inp : List Nat) : Res (Nat × List Nat) :=
  match fuel with
  | 0 => .err
  | fuel + 1 =>
    match readUnescape inp with
    | .ok (b, r) =>
      let res := (res * 128) % usize64 + b / 2
      if b % 2 = 0 then .ok (res, r) else dec7Go fuel res r
    | .err => .err
    | .panic => .panic

def decode7 (inp : List Nat) : Res (Nat × List Nat) := dec7Go (inp.length + 1) 0 inp

/-! ## (3) node-code byte and (4,5) id / variable codes -/

inductive Code where
  | terminal | absoluteID | relativeID | relative1
deriving Repr, DecidableEq, Inhabited

def Code.toBits : Code → Nat
  | .terminal => 0 | .absoluteID => 1 | .relativeID => 2 | .relative1 => 3

/-- `Code::from(u8)` — only ever applied to a 2-bit value -/
def Code.ofBits (n : Nat) : Code :=
  match n % 4 with
  | 0 => .terminal | 1 => .absoluteID | 2 => .relativeID | _ => .relative1

/-- `node_code(var, t, e_complement, e)` -/
def nodeCode (var t : Code) (ec : Bool) (e : Code) : Nat :=
  var.toBits * 32 + t.toBits * 8 + (if ec then 4 else 0) + e.toBits

/-- the four fields the reader extracts from a node-code byte (bit 7 is ignored) -/
def decodeNodeCode (b : Nat) : Code × Code × Bool × Code :=
  (Code.ofBits ((b / 32) % 4), Code.ofBits ((b / 8) % 4), (b / 4) % 2 ≠ 0, Code.ofBits (b % 4))

def Code.hasArg : Code → Bool
  | .absoluteID | .relativeID => true
  | _ => false

/-- writer: `bin_idx(e, node_id)`; `nterms` = number of terminal nodes (ids `1..=nterms`) -/
def binIdx (nterms : Nat) (child : Nat) (nodeId : Nat) : Code × Nat :=
  if child ≤ nterms then (.terminal, 0)
  else if child = nodeId - 1 then (.relative1, 0)
  else if nodeId - child < child then (.relativeID, nodeId - child)
  else (.absoluteID, child)

/-- the range checks at the end of `idx(..)` -/
def idFinish (nodeId id : Nat) (r : List Nat) : Res (Nat × List Nat) :=
  if id = 0 then .err else if id ≥ nodeId then .err else .ok (id - 1, r)

/-- reader: the nested `idx(input, node_id, code)` of `import_bin`; returns the 0-based position
in the node vector. `node_id - decode_7bit(..)` is an unguarded subtraction (panics when
overflow checks are on, which they are in the harness and in debug builds). -/
def readIdx (g : Guards) (inp : List Nat) (nodeId : Nat) (code : Code) : Res (Nat × List Nat) :=
  match code with
  | .terminal => idFinish nodeId 1 inp
  | .absoluteID =>
    match decode7 inp with
    | .ok (d, r) => idFinish nodeId d r
    | .err => .err
    | .panic => .panic
  | .relativeID =>
    match decode7 inp with
    | .ok (d, r) => if d > nodeId then (if g.relId then .err else .panic) else idFinish nodeId (nodeId - d) r
    | .err => .err
    | .panic => .panic
  | .relative1 => idFinish nodeId (nodeId - 1) inp

/-- writer: variable code of a node with support-variable index `varIdx` whose topmost child sits
at support-variable index `minVarIdx` (`none`: both children are terminals) -/
def varCodeOf (varIdx : Nat) (minVarIdx : Option Nat) : Code × Nat :=
  match minVarIdx with
  | none => (.absoluteID, varIdx)
  | some m =>
    if varIdx = m - 1 then (.relative1, varIdx)
    else if m - varIdx < varIdx then (.relativeID, m - varIdx)
    else (.absoluteID, varIdx)

/-! ## (6) name sanitising -/

def isAsciiControl (b : Nat) : Bool := b < 32 || b = 127

/-- `replace_space_and_control`: the new bytes and whether the result is `Cow::Owned` -/
def replaceSpaceAndControl (s : List Nat) : List Nat × Bool :=
  (s.map (fun b => if isAsciiControl b || b = 32 then 95 else b),
   s.any (fun b => isAsciiControl b || b = 32))

/-- `write_replacing_control`: new bytes and `did_replace` -/
def replaceControl (s : List Nat) : List Nat × Bool :=
  (s.map (fun b => if isAsciiControl b then 32 else b), s.any isAsciiControl)

def countLeadingUnderscores : List Nat → Nat
  | 95 :: r => countLeadingUnderscores r + 1
  | _ => 0

/-- the `leading_underscores` variable after scanning all (sanitised) names in variable order:
every name with `k ≥ 1` leading underscores *assigns* `k + 1` (it does not take the maximum) -/
def leadStep (mx : Bool) (acc : Nat) (n : List Nat) : Nat :=
  if countLeadingUnderscores n = 0 then acc
  else if mx then max acc (countLeadingUnderscores n + 1) else countLeadingUnderscores n + 1

def leadingUnderscores (mx : Bool) (names : List (List Nat)) : Nat := names.foldl (leadStep mx) 1

def strBytes (s : String) : List Nat := s.toUTF8.toList.map (·.toNat)
/-- decimal digits, most significant first (kernel-reducible replacement of `toString`) -/
def decDigitsGo (fuel n : Nat) (acc : List Nat) : List Nat :=
  match fuel with
  | 0 => acc
  | fuel + 1 =>
    if n / 10 = 0 then (48 + n % 10) :: acc
    else decDigitsGo fuel (n / 10) ((48 + n % 10) :: acc)

def decBytes (n : Nat) : List Nat := decDigitsGo (n + 1) n []
def intBytes (i : Int) : List Nat := if i < 0 then 45 :: decBytes i.natAbs else decBytes i.natAbs

/-- does a sanitised name collide: `manager.name_to_var(name).is_some() || !replaced_set.insert(name)` -/
def prefixAllOwnedGo (orig : List (List Nat)) : List (List Nat × Bool) → List (List Nat) → Bool
  | [], _ => false
  | (n, owned) :: rest, seen =>
    if owned then
      if orig.contains n || seen.contains n then true
      else prefixAllOwnedGo orig rest (n :: seen)
    else prefixAllOwnedGo orig rest seen

/-- the name written for variable `i` by the `write_var` closure (without the leading space) -/
def writeVarName (lead : Nat) (prefixAllOwned : Bool) (i : Nat) (name : List Nat × Bool) : List Nat :=
  match name with
  | ([], false) => List.replicate lead 95 ++ [120] ++ decBytes i
  | (n, false) => n
  | (n, true) =>
    if !prefixAllOwned then n
    else List.replicate lead 95 ++ [120] ++ decBytes i ++ [95] ++ n

/-- all names as exported (`none` if the exporter writes no name section) plus the strict-mode
error flag; `names[i]` are the bytes of `manager.var_name(i)` (`[]` = unnamed) -/
def exportedVarNames (g : Guards) (strict : Bool) (names : List (List Nat)) : Option (List (List Nat)) × Bool :=
  let nvars := names.length
  let numNamed := (names.filter (· ≠ [])).length
  if numNamed = nvars || (!strict && numNamed ≠ 0) then
    let san := names.map replaceSpaceAndControl
    let lead := leadingUnderscores g.leadMax (san.map (·.1))
    let replaced := (san.filter (·.2)).length
    let pao := if replaced ≠ 0 then prefixAllOwnedGo (names.filter (· ≠ [])) san [] else false
    let out := (List.range nvars).map (fun i => writeVarName lead pao i (san.getD i ([], false)))
    (some out, strict && replaced ≠ 0)
  else (none, false)

/-- root names as sanitised by `export_with_names` -/
def exportedRootNames (strict : Bool) (names : List (List Nat)) : List (List Nat) × Bool :=
  let out := (List.range names.length).map (fun i =>
    let n := names.getD i []
    if n = [] then [95, 102] ++ decBytes i
    else n.map (fun b => if isAsciiControl b || b = 32 then 95 else b))
  (out, strict && names.any (fun n => n = [] || n.any (fun b => isAsciiControl b || b = 32)))

/-! ## (7) structured export -/

/-- an inner node in export order: its level in the manager and the signed ids of its children -/
structure SNode where
  level : Nat
  children : List Int
deriving Repr, DecidableEq, Inhabited

structure MgrView where
  nvars : Nat
  /-- `var_name(i)` as UTF-8 bytes, `[]` for an unnamed variable -/
  names : List (List Nat)
  /-- `var_to_level` -/
  v2l : List Nat
  /-- `InnerNode::ARITY` -/
  arity : Nat
  /-- `manager.num_terminals()` at export time -/
  numTerminals : Nat
  /-- every terminal of the manager is displayed as `T` -/
  allTermsT : Bool := true
deriving Repr, Inhabited

structure Settings where
  v3 : Bool
  ascii : Bool
  strict : Bool
  ddName : List Nat
deriving Repr, Inhabited

structure Diagram where
  /-- ASCII descriptors of the terminal nodes, in the order of the exporter's terminal map -/
  terms : List (List Nat)
  nodes : List SNode
  roots : List Int
  /-- raw `Display` output of the root names (`export_with_names`), `none` for `export` -/
  rootNames : Option (List (List Nat))
deriving Repr, Inhabited

/-- levels that carry at least one exported node, ascending (`supp_levels`) -/
def suppLevels (nvars : Nat) (nodes : List SNode) : List Nat :=
  (List.range nvars).filter (fun l => nodes.any (fun n => n.level = l))

/-- the support-variable index stored with level `l` in `node_map` (rank among support levels) -/
def suppIdx (supp : List Nat) (l : Nat) : Nat := (supp.filter (· < l)).length

/-- level of the node with (unsigned) id `id`: terminals report `LevelNo::MAX` -/
def levelOfId (nterms : Nat) (nodes : List SNode) (id : Nat) : Nat :=
  if id ≤ nterms then levelMax
  else match nodes[id - nterms - 1]? with
    | some n => n.level
    | none => levelMax

def sp : Nat := 32
def nl : Nat := 10

def joinSp (xs : List (List Nat)) : List Nat := xs.flatMap (fun x => sp :: x)

/-- the bytes following the node-code byte for a code/argument pair chosen by the writer -/
def argBytes (c : Code × Nat) : List Nat := if c.1.hasArg then encode7 c.2 else []

/-- binary record of one inner node with id `nodeId` -/
def binNodeRecord (nterms : Nat) (supp : List Nat) (nodes : List SNode) (nodeId : Nat) (n : SNode) : List Nat :=
  let t := n.children.getD 0 0
  let e := n.children.getD 1 0
  let minLvl := min (levelOfId nterms nodes t.natAbs) (levelOfId nterms nodes e.natAbs)
  let vc := varCodeOf (suppIdx supp n.level) (if minLvl ≠ levelMax then some (suppIdx supp minLvl) else none)
  let tc := binIdx nterms t.natAbs nodeId
  let ec := binIdx nterms e.natAbs nodeId
  writeEscaped [nodeCode vc.1 tc.1 (decide (e < 0)) ec.1] ++ argBytes vc ++ argBytes tc ++ argBytes ec

def binNodeRecords (nterms : Nat) (supp : List Nat) (all : List SNode) : Nat → List SNode → List Nat
  | _, [] => []
  | nodeId, n :: rest => binNodeRecord nterms supp all nodeId n ++ binNodeRecords nterms supp all (nodeId + 1) rest

def asciiNodeRecord (supp : List Nat) (nodeId : Nat) (n : SNode) : List Nat :=
  decBytes nodeId ++ [sp] ++ decBytes (suppIdx supp n.level) ++ joinSp (n.children.map intBytes) ++ [nl]

def asciiNodeRecords (supp : List Nat) : Nat → List SNode → List Nat
  | _, [] => []
  | nodeId, n :: rest => asciiNodeRecord supp nodeId n ++ asciiNodeRecords supp (nodeId + 1) rest

def asciiTermRecords : Nat → List (List Nat) → List Nat
  | _, [] => []
  | nodeId, d :: rest => decBytes nodeId ++ [sp] ++ d ++ [32, 48, 32, 48, 10] ++ asciiTermRecords (nodeId + 1) rest

/-- the node section (between `.nodes\n` and `.end\n`) -/
def nodeSection (ascii : Bool) (nvars : Nat) (d : Diagram) : List Nat :=
  let supp := suppLevels nvars d.nodes
  let nterms := d.terms.length
  if ascii then
    asciiTermRecords 1 d.terms ++ asciiNodeRecords supp (nterms + 1) d.nodes
  else
    (d.terms.flatMap (fun _ => writeEscaped [nodeCode .terminal .terminal false .terminal]))
      ++ binNodeRecords nterms supp d.nodes (nterms + 1) d.nodes

def line (key : String) (value : List Nat) : List Nat := strBytes key ++ value ++ [nl]

def indexOf? (xs : List Nat) (x : Nat) : Option Nat :=
  let i := xs.idxOf x
  if i < xs.length then some i else none

/-- `export_common` (and the name handling of `export_with_names`): the file and whether an
error is reported after writing it -/
def exportFile (g : Guards) (s : Settings) (m : MgrView) (d : Diagram) : List Nat × Bool :=
  let ascii := s.ascii || !(m.arity = 2 && m.numTerminals = 1) || (g.binT && !m.allTermsT)
  let (dd, ddRepl) := replaceControl s.ddName
  let supp := suppLevels m.nvars d.nodes
  let nnodes := d.terms.length + d.nodes.length
  let inSupp (var : Nat) : Bool := supp.contains (m.v2l.getD var 0)
  let (varNames, nameErr) := exportedVarNames g s.strict m.names
  let l2v (level : Nat) : Nat := (indexOf? m.v2l level).getD 0
  let vars := List.range m.nvars
  let nameLines : List Nat :=
    match varNames with
    | none => []
    | some ns =>
      (if s.v3 then line ".varnames" (joinSp ns) else [])
      ++ line ".suppvarnames" (joinSp ((vars.filter inSupp).map (fun v => ns.getD v [])))
      ++ line ".orderedvarnames" (joinSp (vars.map (fun lvl => ns.getD (l2v lvl) [])))
  let (rootNames, rootErr) :=
    match d.rootNames with
    | none => (none, false)
    | some rn => let (o, e) := exportedRootNames s.strict rn; (some o, e)
  let file :=
    line ".ver " (strBytes (if s.v3 then "DDDMP-3.0" else "DDDMP-2.0"))
    ++ line ".mode " (strBytes (if ascii then "A" else "B"))
    ++ line ".varinfo " (strBytes "4")
    ++ (if s.ddName ≠ [] then line ".dd " dd else [])
    ++ line ".nnodes " (decBytes nnodes)
    ++ line ".nvars " (decBytes m.nvars)
    ++ line ".nsuppvars " (decBytes supp.length)
    ++ nameLines
    ++ line ".ids" (joinSp ((vars.filter inSupp).map decBytes))
    ++ line ".permids" (joinSp ((vars.filter inSupp).map (fun v => decBytes (m.v2l.getD v 0))))
    ++ line ".nroots " (decBytes d.roots.length)
    ++ line ".rootids" (joinSp (d.roots.map intBytes))
    ++ (match rootNames with
        | none => []
        | some rn => line ".rootnames" (joinSp rn))
    ++ line ".nodes" []
    ++ nodeSection ascii m.nvars d
    ++ line ".end" []
  (file, (s.ddName ≠ [] && ddRepl && s.strict) || nameErr || rootErr)

/-! ## header: `DumpHeader::load` -/

structure Header where
  ascii : Bool := true
  varinfo : Nat := 4
  dd : List Nat := []
  nnodes : Nat := 0
  nvars : Nat := 0
  ids : List Nat := []
  supportVarOrder : List Nat := []
  permids : List Nat := []
  auxids : List Nat := []
  varnames : List (List Nat) := []
  rootids : List Int := []
  rootnames : List (List Nat) := []
  lines : Nat := 1
deriving Repr, Inhabited, DecidableEq

def isBlank (b : Nat) : Bool := b = 32 || b = 9

def trimStart : List Nat → List Nat
  | b :: r => if isBlank b then trimStart r else b :: r
  | [] => []

def trimEnd (s : List Nat) : List Nat := (trimStart s.reverse).reverse
def trim (s : List Nat) : List Nat := trimEnd (trimStart s)

def isDigit (b : Nat) : Bool := 48 ≤ b && b ≤ 57

/-- `read_until(b'\n')` followed by popping all trailing `\n` / `\r`; `none` at end of input -/
def readLine (inp : List Nat) : Option (List Nat × List Nat) :=
  if inp = [] then none else
  let raw := inp.takeWhile (· ≠ 10)
  let rest := (inp.dropWhile (· ≠ 10)).drop 1
  let popped := (raw.reverse.dropWhile (fun b => b = 10 || b = 13)).reverse
  some (popped, rest)

/-- split at the first space / tab (`memchr2`) -/
def splitBlank (s : List Nat) : Option (List Nat × List Nat) :=
  let pre := s.takeWhile (fun b => !isBlank b)
  if pre.length < s.length then some (pre, s.drop (pre.length + 1)) else none

/-- `parse_single_u32` / `parse_single_usize` with the type's maximum -/
def parseSingle (max : Nat) (s : List Nat) : Res Nat :=
  let rec go (res : Nat) (num : Bool) : List Nat → Res Nat
    | [] => if num then .ok res else .err
    | c :: r =>
      if isDigit c then
        let v := res * 10 + (c - 48)
        if v > max then .err else go v true r
      else .err
  go 0 false s

/-- `parse_u32` / `parse_usize`: value and remaining input -/
def parseUnsigned (max : Nat) (s : List Nat) : Res (Nat × List Nat) :=
  let rec go (res : Nat) (num : Bool) : List Nat → Res (Nat × List Nat)
    | [] => if num then .ok (res, []) else .err
    | c :: r =>
      if isDigit c then
        let v := res * 10 + (c - 48)
        if v > max then .err else go v true r
      else if isBlank c then
        if num then .ok (res, c :: r) else go res num r
      else .err
  go 0 false s

/-- `String::from_utf8_lossy` on bytes: every maximal invalid chunk (1–3 bytes) becomes U+FFFD -/
def utf8LossyGo (fuel : Nat) (s : List Nat) (acc : List Nat) : List Nat :=
  match fuel with
  | 0 => acc.reverse
  | fuel + 1 =>
    match s with
    | [] => acc.reverse
    | b0 :: r =>
      let bad (k : Nat) : List Nat := utf8LossyGo fuel (r.drop (k - 1)) (189 :: 191 :: 239 :: acc)
      let cont (b : Nat) : Bool := 128 ≤ b && b ≤ 191
      if b0 < 128 then utf8LossyGo fuel r (b0 :: acc)
      else if 194 ≤ b0 && b0 ≤ 223 then
        match r with
        | b1 :: r' => if cont b1 then utf8LossyGo fuel r' (b1 :: b0 :: acc) else bad 1
        | [] => bad 1
      else if 224 ≤ b0 && b0 ≤ 239 then
        let lo := if b0 = 224 then 160 else 128
        let hi := if b0 = 237 then 159 else 191
        match r with
        | b1 :: r' =>
          if lo ≤ b1 && b1 ≤ hi then
            match r' with
            | b2 :: r'' => if cont b2 then utf8LossyGo fuel r'' (b2 :: b1 :: b0 :: acc) else bad 2
            | [] => bad 2
          else bad 1
        | [] => bad 1
      else if 240 ≤ b0 && b0 ≤ 244 then
        let lo := if b0 = 240 then 144 else 128
        let hi := if b0 = 244 then 143 else 191
        match r with
        | b1 :: r' =>
          if lo ≤ b1 && b1 ≤ hi then
            match r' with
            | b2 :: r'' =>
              if cont b2 then
                match r'' with
                | b3 :: r3 => if cont b3 then utf8LossyGo fuel r3 (b3 :: b2 :: b1 :: b0 :: acc) else bad 3
                | [] => bad 3
              else bad 2
            | [] => bad 2
          else bad 1
        | [] => bad 1
      else bad 1

def utf8Lossy (s : List Nat) : List Nat := utf8LossyGo (s.length + 1) s []

def parseStrListRaw (s : List Nat) : List (List Nat) :=
  let rec go (cur : List Nat) : List Nat → List (List Nat)
    | [] => if cur = [] then [] else [cur.reverse]
    | c :: r =>
      if isBlank c then (if cur = [] then go [] r else cur.reverse :: go [] r)
      else go (c :: cur) r
  go [] s

/-- `parse_str_list`: non-empty blank-separated strings, converted with `from_utf8_lossy` -/
def parseStrList (s : List Nat) : List (List Nat) := (parseStrListRaw s).map utf8Lossy

def parseU32List (s : List Nat) : Res (List Nat) :=
  let rec go (i : Nat) (num : Bool) (acc : List Nat) : List Nat → Res (List Nat)
    | [] => .ok (if num then (i :: acc).reverse else acc.reverse)
    | c :: r =>
      if isDigit c then
        let v := i * 10 + (c - 48)
        if v > u32Max then .err else go v true acc r
      else if isBlank c then
        if num then go 0 false (i :: acc) r else go i num acc r
      else .err
  go 0 false [] s

def parseEdgeList (s : List Nat) : Res (List Int) :=
  let rec go (i : Nat) (neg num : Bool) (acc : List Int) : List Nat → Res (List Int)
    | [] => .ok (if num then ((if neg then -(i : Int) else i) :: acc).reverse else acc.reverse)
    | c :: r =>
      if isDigit c then
        let v := i * 10 + (c - 48)
        if v > isizeMax then .err else go v neg true acc r
      else if c = 45 then
        if neg then .err else if num then .err else go i true num acc r
      else if isBlank c then
        if num then go 0 false false ((if neg then -(i : Int) else i) :: acc) r else go i neg num acc r
      else .err
  go 0 false false [] s

structure HdrAcc where
  h : Header := {}
  nsuppvars : Nat := 0
  nroots : Nat := 0
  suppvarnames : List (List Nat) := []
  orderedvarnames : List (List Nat) := []
deriving Inhabited

def isStrictlyAscending : List Nat → Bool
  | a :: b :: r => a < b && isStrictlyAscending (b :: r)
  | _ => true

def hasDup : List Nat → Bool
  | [] => false
  | a :: r => r.contains a || hasDup r

/-- the key/value loop of `DumpHeader::load`; returns the accumulator and the input after the
`.nodes` line -/
def loadLines (g : Guards) (fuel : Nat) (acc : HdrAcc) (lineNo : Nat) (inp : List Nat) : Res (HdrAcc × Nat × List Nat) :=
  match fuel with
  | 0 => .err
  | fuel + 1 =>
    match readLine inp with
    | none => .err
    | some (ln, rest) =>
      let (key, value) := match splitBlank ln with
        | some (k, v) => (k, v)
        | none => (ln, [])
      let value := trim value
      let cont (a : HdrAcc) : Res (HdrAcc × Nat × List Nat) := loadLines g fuel a (lineNo + 1) rest
      let is (s : String) : Bool := key = strBytes s
      if is ".ver" then
        if value = strBytes "DDDMP-2.0" || value = strBytes "DDDMP-3.0" then cont acc else .err
      else if is ".mode" then
        if value = [65] then cont { acc with h := { acc.h with ascii := true } }
        else if value = [66] then cont { acc with h := { acc.h with ascii := false } }
        else .err
      else if is ".varinfo" then
        match value with
        | [c] => if 48 ≤ c && c ≤ 52 then cont { acc with h := { acc.h with varinfo := c - 48 } } else .err
        | _ => .err
      else if is ".dd" then cont { acc with h := { acc.h with dd := utf8Lossy value } }
      else if is ".nnodes" then
        match parseSingle (usize64 - 1) value with
        | .ok v => cont { acc with h := { acc.h with nnodes := v } }
        | _ => .err
      else if is ".nvars" then
        match parseSingle u32Max value with
        | .ok v => cont { acc with h := { acc.h with nvars := v } }
        | _ => .err
      else if is ".nsuppvars" then
        match parseSingle u32Max value with
        | .ok v => cont { acc with nsuppvars := v }
        | _ => .err
      else if is ".varnames" then cont { acc with h := { acc.h with varnames := parseStrList value } }
      else if is ".suppvarnames" then cont { acc with suppvarnames := parseStrList value }
      else if is ".orderedvarnames" then cont { acc with orderedvarnames := parseStrList value }
      else if is ".ids" then
        match parseU32List value with
        | .ok v => cont { acc with h := { acc.h with ids := v } }
        | _ => .err
      else if is ".permids" then
        match parseU32List value with
        | .ok v => cont { acc with h := { acc.h with permids := v } }
        | _ => .err
      else if is ".auxids" then
        match parseU32List value with
        | .ok v => cont { acc with h := { acc.h with auxids := v } }
        | _ => .err
      else if is ".nroots" then
        match parseSingle (usize64 - 1) value with
        | .ok v => cont { acc with nroots := v }
        | _ => .err
      else if is ".rootids" then
        -- `header.rootids.reserve(nroots)`: capacity overflow panics
        if !g.cap && acc.nroots * 8 > isizeMax then .panic else
        match parseEdgeList value with
        | .ok v => cont { acc with h := { acc.h with rootids := v } }
        | _ => .err
      else if is ".rootnames" then
        -- `parse_str_list(value, nroots)`: `Vec::<String>::with_capacity(nroots)` (24-byte elements)
        if !g.cap && acc.nroots * 24 > isizeMax then .panic else
        cont { acc with h := { acc.h with rootnames := parseStrList value } }
      else if is ".nodes" then .ok (acc, lineNo, rest)
      else .err

def listSet {α : Type} (xs : List α) (i : Nat) (x : α) : List α := xs.set i x

/-- `DumpHeader::load`: header and the input positioned after the `.nodes` line -/
def loadHeader (g : Guards) (inp : List Nat) : Res (Header × List Nat) :=
  match loadLines g (inp.length + 1) {} 1 inp with
  | .err => .err
  | .panic => .panic
  | .ok (acc, lineNo, rest) =>
    let h : Header := { acc.h with lines := lineNo }
    let nsupp := acc.nsuppvars
    let nroots := acc.nroots
    if nsupp > h.nvars then .err else
    if h.ids.length ≠ nsupp then .err else
    if h.permids.length ≠ nsupp then .err else
    if h.auxids ≠ [] && h.auxids.length ≠ nsupp then .err else
    if h.ids ≠ [] && (!isStrictlyAscending h.ids || h.ids.getLast! ≥ h.nvars) then .err else
    if h.permids.any (· ≥ h.nvars) || hasDup h.permids then .err else
    -- position of a level among the support levels
    let pos (level : Nat) : Nat := (h.permids.filter (· < level)).length
    let svo := (h.ids.zip h.permids).foldl (fun o (p : Nat × Nat) => listSet o (pos p.2) p.1) (List.replicate nsupp 0)
    let h : Header := { h with supportVarOrder := svo }
    let ovn := acc.orderedvarnames
    let svn := acc.suppvarnames
    if ovn ≠ [] && ovn.length ≠ h.nvars then .err else
    if svn ≠ [] && svn.length ≠ nsupp then .err else
    let idp := h.ids.zip h.permids
    let names : Res (List (List Nat)) :=
      if h.varnames = [] then
        if ovn = [] then
          if svn = [] then .ok []
          else .ok ((svn.zip h.ids).foldl (fun vn (p : List Nat × Nat) => listSet vn p.2 p.1) (List.replicate h.nvars []))
        else
          let vn0 := idp.foldl (fun vn (p : Nat × Nat) => listSet vn p.1 (ovn.getD p.2 [])) (List.replicate h.nvars [])
          let ovn' := idp.foldl (fun o (p : Nat × Nat) => listSet o p.2 []) ovn
          let rest := ovn'.filter (· ≠ [])
          -- fill the remaining (empty) entries in order
          let fill := vn0.foldl (fun (st : List (List Nat) × List (List Nat) × Bool) n =>
            if n = [] then
              match st.2.1 with
              | x :: xs => (x :: st.1, xs, st.2.2)
              | [] => (n :: st.1, [], true)
            else (n :: st.1, st.2.1, st.2.2)) ([], rest, false)
          if fill.2.2 then .panic
          else if svn.zip h.ids |>.any (fun (p : List Nat × Nat) => p.1 ≠ fill.1.reverse.getD p.2 []) then .err
          else .ok fill.1.reverse
      else
        if h.varnames.length ≠ h.nvars then .err
        else if ovn ≠ [] && idp.any (fun (p : Nat × Nat) => h.varnames.getD p.1 [] ≠ ovn.getD p.2 []) then .err
        else if svn.zip h.ids |>.any (fun (p : List Nat × Nat) => p.1 ≠ h.varnames.getD p.2 []) then .err
        else .ok h.varnames
    match names with
    | .err => .err
    | .panic => .panic
    | .ok vn =>
      let h : Header := { h with varnames := vn }
      if h.rootids.length ≠ nroots then .err else
      if h.rootids.any (fun id => id = 0 || id.natAbs > h.nnodes) then .err else
      if h.rootnames ≠ [] && h.rootnames.length ≠ nroots then .err else
      .ok (h, rest)

/-! ## edge algebras: what the importer needs from the manager and the diagram rules -/

/-- The importer's view of the target manager: a type of edges with the level of the node an edge
points to, the caller-supplied `complement`, the rules' `reduce(...).then_insert(...)` and the
terminal parser `ParseTagged::parse` (on bytes). Node creation cannot run out of memory in the
model. -/
structure Alg (E : Type) where
  level : E → Nat
  complement : E → E
  reduce : Nat → List E → E
  parseTerminal : List Nat → Option E
  arity : Nat

/-- `reads_expected(input, b".end")` -/
def readsEnd (inp : List Nat) : Bool :=
  inp.take 4 = [46, 101, 110, 100] && (inp.drop 4).all (fun b => b = 32 || b = 9 || b = 10 || b = 12 || b = 13)

/-- reader: the support-variable index of a node from its variable code, the decoded argument
`vid` and the smaller of the children's levels (`import_bin`, second `match var_code`) -/
def resolveVid (varCode : Code) (vid minLevel : Nat) (lsm slm : List Nat) : Res Nat :=
  if varCode = .absoluteID then
    if vid ≥ slm.length then .err else .ok vid
  else
    let childMin : Res Nat :=
      if minLevel = levelMax then .ok lsm.length
      else match lsm[minLevel]? with
        | some v => .ok v
        | none => .panic
    match childMin with
    | .ok c =>
      if c < vid then .err else .ok (c - vid)
    | .err => .err
    | .panic => .panic

/-- one iteration of the node loop of `import_bin`: the new edge and the remaining input -/
def importBinStep {E : Type} (g : Guards) (A : Alg E) (terminal : E) (lsm slm : List Nat)
    (nodeId : Nat) (nodes : List E) (inp : List Nat) : Res (E × List Nat) :=
  match readUnescape inp with
  | .err => .err
  | .panic => .panic
  | .ok (code, inp) =>
    let varCode := (decodeNodeCode code).1
    let tCode := (decodeNodeCode code).2.1
    let eCompl := (decodeNodeCode code).2.2.1
    let eCode := (decodeNodeCode code).2.2.2
    if varCode = .terminal then .ok (terminal, inp)
    else
      match (if varCode.hasArg then decode7 inp else .ok (1, inp)) with
      | .err => .err
      | .panic => .panic
      | .ok (vid, inp) =>
        match readIdx g inp nodeId tCode with
        | .err => .err
        | .panic => .panic
        | .ok (ti, inp) =>
          match nodes[ti]? with
          | none => .panic
          | some t =>
            match readIdx g inp nodeId eCode with
            | .err => .err
            | .panic => .panic
            | .ok (ei, inp) =>
              match nodes[ei]? with
              | none => .panic
              | some e0 =>
                -- the level of the else child is taken after complementing (fix 16c2a8d)
                let e := if eCompl then A.complement e0 else e0
                match resolveVid varCode vid (min (A.level t) (A.level e)) lsm slm with
                | .err => .err
                | .panic => .panic
                | .ok vid =>
                  match slm[vid]? with
                  | none => if g.relVar then .err else .panic      -- `suppvar_level_map.get(vid)`
                  | some level =>
                    if level ≥ A.level t || level ≥ A.level e then .err
                    else .ok (A.reduce level [t, e], inp)

/-- the node loop of `import_bin` -/
def importBinLoop {E : Type} (g : Guards) (A : Alg E) (terminal : E) (lsm slm : List Nat) :
    (remaining : Nat) → (nodeId : Nat) → (nodes : List E) → (inp : List Nat) → Res (List E × List Nat)
  | 0, _, nodes, inp => .ok (nodes, inp)
  | k + 1, nodeId, nodes, inp =>
    match importBinStep g A terminal lsm slm nodeId nodes inp with
    | .err => .err
    | .panic => .panic
    | .ok (e, inp) => importBinLoop g A terminal lsm slm k (nodeId + 1) (nodes ++ [e]) inp

/-- `level_suppvar_map` as built in `import` -/
def mkLevelSuppvarMap (numLevels : Nat) (slm : List Nat) : List Nat :=
  (List.range numLevels).map (fun l => match indexOf? slm l with
    | some i => i
    | none => u32Max)

/-- `import_bin` -/
def importBin {E : Type} (g : Guards) (A : Alg E) (nnodes numLevels : Nat) (slm : List Nat) (inp : List Nat) :
    Res (List E × List Nat) :=
  match A.parseTerminal [84] with
  | none => if g.noT then .err else .panic           -- "could not find the T terminal"
  | some terminal =>
    -- `Vec::with_capacity(header.nnodes)` (4-byte edges): capacity overflow
    if !g.cap && nnodes * 4 > isizeMax then .panic else
    importBinLoop g A terminal (mkLevelSuppvarMap numLevels slm) slm nnodes 1 [] inp

/-- the per-child checks of `import_ascii` (`child < node_id`, `level < child level`) and the
children handed to `reduce` -/
def asciiChildren {E : Type} (A : Alg E) (level nodeId : Nat) (nodes : List E) : List Int → Res (List E)
  | [] => .ok []
  | c :: cs =>
    let child := c.natAbs
    if child ≥ nodeId then .err
    else match nodes[child - 1]? with
      | none => .panic
      | some ce0 =>
        -- complement first, then compare levels (fix 16c2a8d)
        let ce := if c < 0 then A.complement ce0 else ce0
        if level ≥ A.level ce then .err
        else match asciiChildren A level nodeId nodes cs with
          | .ok es => .ok (ce :: es)
          | .err => .err
          | .panic => .panic

/-- one node line of `import_ascii` -/
def importAsciiLine {E : Type} (A : Alg E) (varinfo : Nat) (slm : List Nat) (nodeId : Nat) (nodes : List E)
    (ln : List Nat) : Res E :=
  match parseUnsigned (usize64 - 1) ln with
  | .err => .err
  | .panic => .panic
  | .ok (idNo, rest) =>
    if idNo ≠ nodeId then .err else
    let rest := trimStart rest
    let restR : Res (List Nat) :=
      if varinfo ≠ 4 then
        match splitBlank rest with
        | some (_, r) => .ok r
        | none => .err
      else .ok rest
    match restR with
    | .err => .err
    | .panic => .panic
    | .ok rest =>
      let rest := trimStart rest
      match splitBlank rest with
      | none => .err
      | some (varId, rest) =>
        match parseEdgeList rest with
        | .err => .err
        | .panic => .panic
        | .ok children =>
          if children.length ≠ A.arity then .err
          else if children.contains 0 then
            -- `std::str::from_utf8(var_id)` must succeed
            if utf8Lossy varId ≠ varId then .err else
            match A.parseTerminal varId with
            | none => .err
            | some t => .ok t
          else
            match parseUnsigned u32Max varId with
            | .err => .err
            | .panic => .panic
            | .ok (var, _) =>
              match slm[var]? with
              | none => .err
              | some level =>
                match asciiChildren A level nodeId nodes children with
                | .err => .err
                | .panic => .panic
                | .ok es => .ok (A.reduce level es)

def importAsciiLoop {E : Type} (A : Alg E) (varinfo : Nat) (slm : List Nat) :
    (remaining : Nat) → (nodeId : Nat) → (nodes : List E) → (inp : List Nat) → Res (List E × List Nat)
  | 0, _, nodes, inp => .ok (nodes, inp)
  | k + 1, nodeId, nodes, inp =>
    match readLine inp with
    | none => .err
    | some (ln, rest) =>
      match importAsciiLine A varinfo slm nodeId nodes ln with
      | .err => .err
      | .panic => .panic
      | .ok e => importAsciiLoop A varinfo slm k (nodeId + 1) (nodes ++ [e]) rest

/-- `import_ascii` -/
def importAscii {E : Type} (g : Guards) (A : Alg E) (h : Header) (slm : List Nat) (inp : List Nat) : Res (List E × List Nat) :=
  if !g.cap && h.nnodes * 4 > isizeMax then .panic else
  importAsciiLoop A h.varinfo slm h.nnodes 1 [] inp

/-- the root loop of `import` -/
def importRoots {E : Type} (A : Alg E) (nodes : List E) : List Int → Res (List E)
  | [] => .ok []
  | r :: rs =>
    match nodes[r.natAbs - 1]? with
    | none => .panic
    | some e =>
      match importRoots A nodes rs with
      | .ok es => .ok ((if r > 0 then e else A.complement e) :: es)
      | .err => .err
      | .panic => .panic

/-- `import` after the caller computed `suppvar_level_map` (`slm`, one level per support
variable, strictly ascending — the function's two `assert!`s are the caller's obligation) -/
def importNodes {E : Type} (g : Guards) (A : Alg E) (h : Header) (numLevels : Nat) (slm : List Nat) (inp : List Nat) :
    Res (List E) :=
  let nodesR : Res (List E × List Nat) :=
    if h.ascii then importAscii g A h slm inp else importBin g A h.nnodes numLevels slm inp
  match nodesR with
  | .err => .err
  | .panic => .panic
  | .ok (nodes, rest) =>
    if !readsEnd rest then .err else importRoots A nodes h.rootids

end OxiddModel.Dddmp
