import OxiddModel.Dddmp.LemmasTotal
import OxiddModel.Dddmp.LemmasNames

/-!
# C15 — DDDMP export / import: headline theorems

Property text: *exporting … and importing the file yields, in the same manager, handles equal to
the originals, and in a fresh manager with a compatible order, handles denoting the same
functions … every file the exporter writes without reporting an error is accepted by the
importer, names that the format cannot carry are sanitised as documented …, and arbitrary
malformed or truncated input makes the importer return an error rather than panic or build a
wrong diagram.*

What is proved here, about the executable model in `Model.lean` (tied to the Rust code by the
`dddmp` correspondence stream):

* the byte-level codecs of the binary mode are exact inverses (7-bit integers, escaping,
  node-code byte, id codes, variable codes) — for all values, not samples;
* the binary node section written by the exporter for *any* bottom-up numbered node list is
  decoded by the importer to exactly that node list (same level, same children, same
  complement bits), in the same manager and in any manager with a compatible order;
* name sanitising does what is documented; the generated-name scheme is **not** always
  injective (witness), and is injective whenever `leading_underscores` is what the documentation
  says it is;
* the binary importer **can panic** on crafted input (three witnesses, each a few bytes); with
  the two missing range checks it is total (`ok`/`err` on every input).

ASCII mode, the header parser and the truth of "handles are equal" inside a real manager are
covered by the correspondence stream and the oracles only.
-/
namespace OxiddModel.Dddmp

/-! ## (1) 7-bit integers -/

/-- `decode_7bit` inverts `encode_7bit` for every `usize` value, whatever follows in the input
(continuation flag = bit 0, most significant group first, escaping included). -/
theorem varint7_roundtrip (n : Nat) (hn : n < usize64) (r : List Nat) :
    decode7 (encode7 n ++ r) = .ok (n, r) :=
  decode7_encode7 n hn r

example : encode7 1000 = [15, 208] ∧ decode7 ([15, 208] ++ [7]) = .ok (1000, [7]) := by decide
/-- the value `5` is the byte `0x0a`, which is escaped -/
example : encode7 5 = [0, 1] ∧ encode7 0 = [0, 0] := by decide

/-- The accumulator of `decode_7bit` silently wraps (`checked_shl` checks the shift amount only):
an over-long encoding is accepted with a truncated value. -/
theorem decode7_wraps : decode7 [5, 1, 1, 1, 1, 1, 1, 1, 1, 0, 0] = .ok (0, []) := by decide

/-! ## (2) escaping -/

/-- `read_unescape` inverts `write_escaped` byte by byte, for every byte value and every
continuation of the input. -/
theorem escape_roundtrip_byte (c : Nat) (r : List Nat) : readUnescape (escByte c ++ r) = .ok (c, r) :=
  readUnescape_escByte c r

/-- … and on whole buffers. -/
theorem escape_roundtrip (l : List Nat) : unescapeAll (l.length + 1) (writeEscaped l) = .ok l :=
  unescapeAll_writeEscaped l _ (Nat.lt_succ_self _)

example : writeEscaped [0, 10, 13, 26, 65] = [0, 0, 0, 1, 0, 2, 0, 3, 65] := by decide

/-! ## (3) node-code byte -/

/-- all 128 field combinations survive the trip through the node-code byte -/
theorem nodecode_roundtrip (v t : Code) (ec : Bool) (e : Code) :
    decodeNodeCode (nodeCode v t ec e) = (v, t, ec, e) :=
  decodeNodeCode_nodeCode v t ec e

/-- every byte is read as some field combination; re-encoding it loses only bit 7 -/
theorem nodecode_byte_roundtrip : ∀ b, b < 256 →
    nodeCode (decodeNodeCode b).1 (decodeNodeCode b).2.1 (decodeNodeCode b).2.2.1 (decodeNodeCode b).2.2.2
      = b % 128 := by
  decide +kernel

example : nodeCode .relative1 .absoluteID true .terminal = 108 := by decide

/-! ## (4) id codes -/

/-- For every child id `0 < child < node_id` the code chosen by `bin_idx` (`Terminal`,
`Relative1`, `RelativeID`, `AbsoluteID`) and its argument are decoded by the reader's `idx` to
the same id (as the 0-based position `child - 1`), with or without the extra guard. -/
theorem idcode_roundtrip (g : Guards) (child nodeId : Nat) (r : List Nat)
    (h0 : 0 < child) (h1 : child < nodeId) (h2 : nodeId < usize64) :
    readIdx g (argBytes (binIdx 1 child nodeId) ++ r) nodeId (binIdx 1 child nodeId).1 = .ok (child - 1, r) :=
  readIdx_binIdx g child nodeId r h0 h1 h2

example : binIdx 1 1 9 = (.terminal, 0) ∧ binIdx 1 8 9 = (.relative1, 0) ∧ binIdx 1 6 9 = (.relativeID, 3)
    ∧ binIdx 1 3 9 = (.absoluteID, 3) := by decide

/-! ## (5) variable codes -/

/-- The variable code chosen by the writer for a node at support index `vi` whose topmost child
is at support index `m > vi` (on level `minLevel`) is resolved by the reader to `vi`. -/
theorem varcode_roundtrip (g : Guards) (vi m minLevel : Nat) (lsm slm : List Nat)
    (h : vi < slm.length) (hm : vi < m) (hml : minLevel ≠ levelMax) (hl : lsm[minLevel]? = some m) :
    resolveVid g (varCodeOf vi (some m)).1 (vidRead (varCodeOf vi (some m))) minLevel lsm slm = .ok vi :=
  resolveVid_varCodeOf_some g vi m minLevel lsm slm h hm hml hl

/-- … and with two terminal children (`AbsoluteID` is used). -/
theorem varcode_roundtrip_terminal (g : Guards) (vi : Nat) (lsm slm : List Nat) (h : vi < slm.length) :
    resolveVid g (varCodeOf vi none).1 (vidRead (varCodeOf vi none)) levelMax lsm slm = .ok vi :=
  resolveVid_varCodeOf_none g vi lsm slm h

example : varCodeOf 4 (some 5) = (.relative1, 4) ∧ varCodeOf 4 (some 6) = (.relativeID, 2)
    ∧ varCodeOf 1 (some 6) = (.absoluteID, 1) := by decide

/-! ## (6) names -/

/-- `replace_space_and_control`: the result has the same length, contains no space / control
byte, and is `Cow::Borrowed` (unchanged) exactly if the input had none. -/
theorem sanitize_ok (s : List Nat) :
    (replaceSpaceAndControl s).1.length = s.length ∧
    (∀ b ∈ (replaceSpaceAndControl s).1, badByte b = false) ∧
    ((replaceSpaceAndControl s).1 = s ↔ (replaceSpaceAndControl s).2 = false) ∧
    ((replaceSpaceAndControl s).2 = true ↔ ∃ b ∈ s, badByte b = true) :=
  ⟨replace_fst_length s, replace_fst_clean s, replace_unchanged_iff s, replace_snd_iff s⟩

example : replaceSpaceAndControl [97, 32, 9, 98, 127] = ([97, 95, 95, 98, 95], true) := by decide

/-
Full statement (FALSE for the code as it is):

  theorem gen_names_distinct (strict) (names) (hm : ManagerNames names) (out)
      (h : (exportedVarNames Guards.code strict names).1 = some out) : out.Nodup

`leading_underscores` is *assigned* by every name with leading underscores instead of being
maximised, so a later name with fewer underscores lowers it again.
-/

/-- **defect witness**: variables named `__x1`, (unnamed), `_y` — the unnamed variable 1 is
exported as `__x1`, the name of variable 0. -/
theorem gen_names_distinct_false :
    ¬ ∀ (names : List (List Nat)), ManagerNames names → ∀ out,
        (exportedVarNames Guards.code false names).1 = some out → out.Nodup := by
  intro h
  have := h [[95, 95, 120, 49], [], [95, 121]] (by decide)
    [[95, 95, 120, 49], [95, 95, 120, 49], [95, 121]] (by decide)
  revert this
  decide

/-- If `leading_underscores` exceeds the number of leading underscores of every exported name
(`LeadOK`, what the documentation describes) the exported names — untouched, sanitised and
generated (`_…x{i}` / `_…x{i}_{name}`) — are pairwise distinct, in strict and non-strict mode. -/
theorem gen_names_distinct_partial (g : Guards) (strict : Bool) (names : List (List Nat)) (hm : ManagerNames names)
    (hlead : LeadOK g.leadMax names) (out : List (List Nat)) (h : (exportedVarNames g strict names).1 = some out) :
    out.Nodup :=
  exported_names_nodup g strict names hm hlead out h

/-- With the one-word repair (`leading_underscores = leading_underscores.max(i + 2)`) the
hypothesis is always met: the exported names are pairwise distinct for every manager. -/
theorem gen_names_distinct_fixed (strict : Bool) (names : List (List Nat)) (hm : ManagerNames names)
    (out : List (List Nat)) (h : (exportedVarNames Guards.all strict names).1 = some out) : out.Nodup :=
  exported_names_nodup Guards.all strict names hm (leadOK_max names) out h

/-- non-vacuity: `a b`, `a_b`, unnamed, `_c` (collision after sanitising ⇒ prefix scheme) -/
example : ManagerNames [[97, 32, 98], [97, 95, 98], [], [95, 99]] ∧
    LeadOK false [[97, 32, 98], [97, 95, 98], [], [95, 99]] ∧
    (exportedVarNames Guards.code false [[97, 32, 98], [97, 95, 98], [], [95, 99]]).1
      = some [[95, 95, 120, 48, 95, 97, 95, 98], [97, 95, 98], [95, 95, 120, 50], [95, 99]] := by
  refine ⟨by decide, ?_, by decide⟩
  intro n hn
  simp only [List.mem_cons, List.not_mem_nil, or_false] at hn
  rcases hn with rfl | rfl | rfl | rfl <;> decide

/-! ## (7) structured export → import -/

/-- **Round trip of the binary node section.** Let `d` be any diagram with one terminal whose
inner nodes are numbered bottom-up (`WFNodes`), exported from a manager with `nvars` levels. Let
the importing manager have `numLevels` levels and let `slm` (`suppvar_level_map`) assign to the
support variables strictly increasing levels (`LevelMaps`: a *compatible order*; `slm` = the
support levels themselves in the same manager). For every edge algebra whose `reduce` creates a
node at the requested level (nothing in the file is reducible — true of every file the exporter
writes, and of the free algebra) the importer accepts the bytes, consumes exactly the node
section, and the edges it creates are those of the reference construction `buildNodes`: node by
node the same level (translated by `tlev`), the same children, the same complement bit — for the
code as it is (`Guards.code`) and with the extra range checks. -/
theorem export_import_struct {E : Type} (g : Guards) (A : Alg E) (term : E) (nvars numLevels : Nat)
    (slm : List Nat) (d : Diagram) (r : List Nat)
    (hT : A.parseTerminal [84] = some term) (hterm : A.level term = levelMax)
    (hred : ∀ l cs, A.level (A.reduce l cs) = l)
    (hd : d.terms.length = 1) (hw : WFNodes nvars d.nodes)
    (M : LevelMaps (suppLevels nvars d.nodes) slm numLevels) :
    ∃ built, buildNodes A (tlev (suppLevels nvars d.nodes) slm) d.nodes [term] = some built ∧
      importBin g A (d.nodes.length + 1) numLevels slm (nodeSection false nvars d ++ r) = .ok (built, r) :=
  importBin_nodeSection g A term nvars numLevels slm d r hT hterm hred hd hw M

/-- In the free algebra an edge *is* its unfolded tree: equal results mean node-by-node equal
`(level, then, else, complement)` records. -/
theorem freeAlg_reduce_inj (l l' : Nat) (t e t' e' : Bool × RT)
    (h : freeAlg.reduce l [t, e] = freeAlg.reduce l' [t', e']) : l = l' ∧ t = t' ∧ e = e' := by
  simp only [freeAlg, Prod.mk.injEq, RT.node.injEq, true_and] at h
  obtain ⟨h1, h2, h3, h4, h5⟩ := h
  exact ⟨h1, Prod.ext h2 h3, Prod.ext h4 h5⟩

/-- the round trip, instantiated: free algebra, importing manager = exporting manager -/
theorem export_import_struct_free (nvars : Nat) (d : Diagram) (r : List Nat)
    (hd : d.terms.length = 1) (hw : WFNodes nvars d.nodes)
    (M : LevelMaps (suppLevels nvars d.nodes) (suppLevels nvars d.nodes) nvars) :
    ∃ built, buildNodes freeAlg (tlev (suppLevels nvars d.nodes) (suppLevels nvars d.nodes)) d.nodes [(false, RT.term)]
        = some built ∧
      importBin Guards.code freeAlg (d.nodes.length + 1) nvars (suppLevels nvars d.nodes)
        (nodeSection false nvars d ++ r) = .ok (built, r) :=
  export_import_struct Guards.code freeAlg (false, RT.term) nvars nvars _ d r (by decide) rfl
    freeAlg_level_reduce hd hw M

/-- in the same manager the level translation is the identity on support levels -/
theorem tlev_same_manager (supp : List Nat) (hs : supp.Pairwise (· < ·)) (l : Nat) (hl : l ∈ supp)
    (hne : l ≠ levelMax) : tlev supp supp l = l := by
  have := getElem?_suppIdx supp hs l hl
  simp [tlev, hne, List.getD_eq_getElem?_getD, this]

/-- The root loop: valid root ids (`0 < |r| ≤ nnodes`, checked by the header) select the edges. -/
theorem importRoots_ok {E : Type} (A : Alg E) (nodes : List E) (roots : List Int)
    (h : ∀ r ∈ roots, r ≠ 0 ∧ r.natAbs ≤ nodes.length) :
    ∃ es, importRoots A nodes roots = .ok es ∧ es.length = roots.length := by
  induction roots with
  | nil => exact ⟨[], rfl, rfl⟩
  | cons r rs ih =>
    obtain ⟨es, he, hl⟩ := ih (fun x hx => h x (by simp [hx]))
    have hr := h r (by simp)
    have : r.natAbs - 1 < nodes.length := by omega
    refine ⟨(if r > 0 then nodes[r.natAbs - 1] else A.complement nodes[r.natAbs - 1]) :: es, ?_, ?_⟩
    · simp only [importRoots, List.getElem?_eq_getElem this, he]
    · simp [hl]

/-- non-vacuity of `export_import_struct`: x1 ∧ ¬x2 over three levels with level 0 unused,
written and read back (two support levels, `AbsoluteID` and `Relative1` variable codes,
`Terminal` / `Relative1` / `AbsoluteID` child codes, complemented else edges, the escaped
terminal record). -/
def exampleDiagram : Diagram :=
  { terms := [[84]], nodes := [⟨2, [1, -1]⟩, ⟨1, [2, 1]⟩, ⟨1, [1, -2]⟩], roots := [-3, 4], rootNames := none }

example : nodeSection false 3 exampleDiagram = [0, 0, 36, 2, 120, 101, 4] := by decide

example : WFNodes 3 exampleDiagram.nodes ∧
    LevelMaps (suppLevels 3 exampleDiagram.nodes) (suppLevels 3 exampleDiagram.nodes) 3 := by
  refine ⟨⟨by decide, by decide, ?_⟩, ⟨by decide, by decide, by decide, by decide, by decide, by decide, by decide⟩⟩
  intro i h
  match i, h with
  | 0, _ => exact ⟨1, -1, rfl, by decide, by decide, by decide, by decide, by decide +revert, by decide +revert, by decide +revert⟩
  | 1, _ => exact ⟨2, 1, rfl, by decide, by decide, by decide, by decide, by decide +revert, by decide +revert, by decide +revert⟩
  | 2, _ => exact ⟨1, -2, rfl, by decide, by decide, by decide, by decide, by decide +revert, by decide +revert, by decide +revert⟩
  | n + 3, h => exact absurd h (by simp [exampleDiagram])

example : importBin Guards.code freeAlg 4 3 [1, 2] (nodeSection false 3 exampleDiagram ++ [46, 101, 110, 100, 10])
    = .ok ([(false, .term),
            (false, .node 2 false .term true .term),
            (false, .node 1 false (.node 2 false .term true .term) false .term),
            (false, .node 1 false .term true (.node 2 false .term true .term))],
           [46, 101, 110, 100, 10]) := by decide

/-! ## importer totality -/

/-
Full statement (FALSE for the code as it is):

  theorem importBin_never_panics (A : Alg E) (L : LevelLaws A) … (inp : List Nat) :
      importBin Guards.code A nnodes numLevels slm inp ≠ .panic
-/

/-- **defect witness 1** (`suppvar_level_map[vid]` out of bounds): `.nsuppvars 1` in a 3-level
manager, one node with variable code `Relative1` and two terminal children. -/
theorem importBin_panics_relative_var :
    importBin Guards.code freeAlg 2 3 [0] [0, 0, 100, 46, 101, 110, 100, 10] = .panic := by decide

/-- **defect witness 2** (`node_id - decode_7bit(..)` underflows): then-id `RelativeID 5` at node 2
(panics with overflow checks, i.e. in debug builds and in the harness). -/
theorem importBin_panics_relative_id :
    importBin Guards.code freeAlg 2 1 [0] [0, 0, 52, 0, 0, 10 ] = .panic := by decide

/-- **defect witness 3**: a binary-mode file for a diagram kind whose terminals do not parse `T`
(ZBDD, MTBDD) panics before reading a byte (`"could not find the T terminal"`). -/
theorem importBin_panics_without_T {E : Type} (A : Alg E) (h : A.parseTerminal [84] = none)
    (nnodes numLevels : Nat) (slm inp : List Nat) : importBin Guards.code A nnodes numLevels slm inp = .panic := by
  simp [importBin, h, Guards.code]

/-- **Totality with the two range checks** (`Guards.all`, the proposed repair): for every input,
every node count and every target manager whose `reduce` / `complement`
respect levels, the binary importer returns `ok` or `err`. In particular every index into the node
vector, into `level_suppvar_map` and into `suppvar_level_map` is in range — the guards the code
already has (`id != 0`, `id < node_id`, `checked_sub`, `AbsoluteID` range check) plus the two
missing ones suffice. -/
theorem importBin_guarded_never_panics {E : Type} (A : Alg E) (L : LevelLaws A)
    (nnodes numLevels : Nat) (slm inp : List Nat)
    (hterm : ∀ t, A.parseTerminal [84] = some t → A.level t = levelMax ∨ A.level t < numLevels)
    (hslm : ∀ x ∈ slm, x < numLevels) :
    importBin Guards.all A nnodes numLevels slm inp ≠ .panic := by
  unfold importBin
  cases hT : A.parseTerminal [84] with
  | none => simp [Guards.all]
  | some term =>
    simp only [Guards.all, Bool.not_true, Bool.false_and, Bool.false_eq_true, ↓reduceIte]
    apply importBinLoop_all_ne_panic A L term
    · rw [mkLevelSuppvarMap_length]; exact hterm term hT
    · rw [mkLevelSuppvarMap_length]; exact hslm
    · rfl
    · intro x hx; simp at hx

/-- the free algebra satisfies the level laws (non-vacuity of the totality theorem) -/
example : LevelLaws freeAlg :=
  ⟨fun l t e => Or.inl (freeAlg_level_reduce l [t, e]), fun _ => rfl⟩

/-- with the guards the three witnesses are rejected / still flagged as the kind mismatch -/
example : importBin Guards.all freeAlg 2 3 [0] [0, 0, 100, 46, 101, 110, 100, 10] = .err ∧
    importBin Guards.all freeAlg 2 1 [0] [0, 0, 52, 0, 0, 10] = .err := by decide

end OxiddModel.Dddmp
