import OxiddModel.Dddmp.LemmasTotal
import OxiddModel.Dddmp.LemmasNames

/-!
# C15 — DDDMP export / import: headline theorems

Property text: *exporting … and importing the file yields, in the same manager, handles equal to
the originals, and in a fresh manager with a compatible order, handles denoting the same
functions … every file the exporter writes without reporting an error is accepted by the
importer, names that the format cannot carry are sanitised as documented …, and arbitrary
malformed or truncated input makes the importer return an error rather than panic or build a
wrong diagram.*

What is proved here, about the executable model in `Model.lean` (tied to the Rust code by the
`dddmp` correspondence stream):

* the byte-level codecs of the binary mode are exact inverses (7-bit integers, escaping,
  node-code byte, id codes, variable codes) — for all values, not samples;
* the binary node section written by the exporter for *any* bottom-up numbered node list is
  decoded by the importer to exactly that node list (same level, same children, same
  complement bits), in the same manager and in any manager with a compatible order;
* name sanitising does what is documented and the exported names (untouched, sanitised,
  generated) are pairwise distinct for every manager;
* after the header is loaded the importer is total: ASCII and binary node sections and the root
  loop return `ok` or `err` on every input, no index is ever out of range.

The model follows /repo after the fix commits 2741478, 675d3b1, 178db83, 87032be, 16c2a8d
(`Guards.code`). The code before these commits (`Guards.before`) is kept for the `…_before_fix`
regression examples: generated names could collide and the binary importer could panic on three
crafted inputs of a few bytes each. One defect is left in /repo as a known finding (an MTBDD
manager holding a single constant is exported in binary mode; `binary_mode_loses_constant`).

The header parser, the exporter's header lines and the truth of "handles are equal" inside a
real manager are covered by the correspondence stream and the oracles only.
-/
namespace OxiddModel.Dddmp

/-! ## (1) 7-bit integers -/

/-- `decode_7bit` inverts `encode_7bit` for every `usize` value, whatever follows in the input
(continuation flag = bit 0, most significant group first, escaping included). -/
theorem varint7_roundtrip (n : Nat) (hn : n < usize64) (r : List Nat) :
    decode7 (encode7 n ++ r) = .ok (n, r) :=
  decode7_encode7 n hn r

example : encode7 1000 = [15, 208] ∧ decode7 ([15, 208] ++ [7]) = .ok (1000, [7]) := by decide
/-- the value `5` is the byte `0x0a`, which is escaped -/
example : encode7 5 = [0, 1] ∧ encode7 0 = [0, 0] := by decide

/-- The accumulator of `decode_7bit` silently wraps (`checked_shl` checks the shift amount only):
an over-long encoding is accepted with a truncated value. -/
theorem decode7_wraps : decode7 [5, 1, 1, 1, 1, 1, 1, 1, 1, 0, 0] = .ok (0, []) := by decide

/-! ## (2) escaping -/

/-- `read_unescape` inverts `write_escaped` byte by byte, for every byte value and every
continuation of the input. -/
theorem escape_roundtrip_byte (c : Nat) (r : List Nat) : readUnescape (escByte c ++ r) = .ok (c, r) :=
  readUnescape_escByte c r

/-- … and on whole buffers. -/
theorem escape_roundtrip (l : List Nat) : unescapeAll (l.length + 1) (writeEscaped l) = .ok l :=
  unescapeAll_writeEscaped l _ (Nat.lt_succ_self _)

example : writeEscaped [0, 10, 13, 26, 65] = [0, 0, 0, 1, 0, 2, 0, 3, 65] := by decide

/-! ## (3) node-code byte -/

/-- all 128 field combinations survive the trip through the node-code byte -/
theorem nodecode_roundtrip (v t : Code) (ec : Bool) (e : Code) :
    decodeNodeCode (nodeCode v t ec e) = (v, t, ec, e) :=
  decodeNodeCode_nodeCode v t ec e

/-- every byte is read as some field combination; re-encoding it loses only bit 7 -/
theorem nodecode_byte_roundtrip : ∀ b, b < 256 →
    nodeCode (decodeNodeCode b).1 (decodeNodeCode b).2.1 (decodeNodeCode b).2.2.1 (decodeNodeCode b).2.2.2
      = b % 128 := by
  decide +kernel

example : nodeCode .relative1 .absoluteID true .terminal = 108 := by decide

/-! ## (4) id codes -/

/-- For every child id `0 < child < node_id` the code chosen by `bin_idx` (`Terminal`,
`Relative1`, `RelativeID`, `AbsoluteID`) and its argument are decoded by the reader's `idx` to
the same id (as the 0-based position `child - 1`), with or without the extra guard. -/
theorem idcode_roundtrip (g : Guards) (child nodeId : Nat) (r : List Nat)
    (h0 : 0 < child) (h1 : child < nodeId) (h2 : nodeId < usize64) :
    readIdx g (argBytes (binIdx 1 child nodeId) ++ r) nodeId (binIdx 1 child nodeId).1 = .ok (child - 1, r) :=
  readIdx_binIdx g child nodeId r h0 h1 h2

example : binIdx 1 1 9 = (.terminal, 0) ∧ binIdx 1 8 9 = (.relative1, 0) ∧ binIdx 1 6 9 = (.relativeID, 3)
    ∧ binIdx 1 3 9 = (.absoluteID, 3) := by decide

/-! ## (5) variable codes -/

/-- The variable code chosen by the writer for a node at support index `vi` whose topmost child
is at support index `m > vi` (on level `minLevel`) is resolved by the reader to `vi`. -/
theorem varcode_roundtrip (vi m minLevel : Nat) (lsm slm : List Nat)
    (h : vi < slm.length) (hm : vi < m) (hml : minLevel ≠ levelMax) (hl : lsm[minLevel]? = some m) :
    resolveVid (varCodeOf vi (some m)).1 (vidRead (varCodeOf vi (some m))) minLevel lsm slm = .ok vi :=
  resolveVid_varCodeOf_some vi m minLevel lsm slm h hm hml hl

/-- … and with two terminal children (`AbsoluteID` is used). -/
theorem varcode_roundtrip_terminal (vi : Nat) (lsm slm : List Nat) (h : vi < slm.length) :
    resolveVid (varCodeOf vi none).1 (vidRead (varCodeOf vi none)) levelMax lsm slm = .ok vi :=
  resolveVid_varCodeOf_none vi lsm slm h

example : varCodeOf 4 (some 5) = (.relative1, 4) ∧ varCodeOf 4 (some 6) = (.relativeID, 2)
    ∧ varCodeOf 1 (some 6) = (.absoluteID, 1) := by decide

/-! ## (6) names -/

/-- `replace_space_and_control`: the result has the same length, contains no space / control
byte, and is `Cow::Borrowed` (unchanged) exactly if the input had none. -/
theorem sanitize_ok (s : List Nat) :
    (replaceSpaceAndControl s).1.length = s.length ∧
    (∀ b ∈ (replaceSpaceAndControl s).1, badByte b = false) ∧
    ((replaceSpaceAndControl s).1 = s ↔ (replaceSpaceAndControl s).2 = false) ∧
    ((replaceSpaceAndControl s).2 = true ↔ ∃ b ∈ s, badByte b = true) :=
  ⟨replace_fst_length s, replace_fst_clean s, replace_unchanged_iff s, replace_snd_iff s⟩

example : replaceSpaceAndControl [97, 32, 9, 98, 127] = ([97, 95, 95, 98, 95], true) := by decide

/-- **The exported variable names are pairwise distinct** — untouched names, sanitised names and
generated names (`_…x{i}` for unnamed variables, `_…x{i}_{name}` when a sanitised name collides) —
for every manager (non-empty names pairwise distinct), in strict and non-strict mode: the
`leading_underscores` argument of the documentation, for the code as it is now. -/
theorem gen_names_distinct (strict : Bool) (names : List (List Nat)) (hm : ManagerNames names)
    (out : List (List Nat)) (h : (exportedVarNames Guards.code strict names).1 = some out) : out.Nodup :=
  exported_names_nodup Guards.code strict names hm (leadOK_max names) out h

/-- The same for any variant of the code, given that `leading_underscores` exceeds the number of
leading underscores of every exported name (`LeadOK`). -/
theorem gen_names_distinct_of_leadOK (g : Guards) (strict : Bool) (names : List (List Nat)) (hm : ManagerNames names)
    (hlead : LeadOK g.leadMax names) (out : List (List Nat)) (h : (exportedVarNames g strict names).1 = some out) :
    out.Nodup :=
  exported_names_nodup g strict names hm hlead out h

/-- regression example (code before fix 87032be, `leading_underscores` assigned instead of
maximised): variables named `__x1`, (unnamed), `_y` — the unnamed variable 1 was exported as
`__x1`, the name of variable 0. -/
theorem gen_names_distinct_before_fix :
    ¬ ∀ (names : List (List Nat)), ManagerNames names → ∀ out,
        (exportedVarNames Guards.before false names).1 = some out → out.Nodup := by
  intro h
  have := h [[95, 95, 120, 49], [], [95, 121]] (by decide)
    [[95, 95, 120, 49], [95, 95, 120, 49], [95, 121]] (by decide)
  revert this
  decide

/-- the same manager with the current code: three underscores -/
example : (exportedVarNames Guards.code false [[95, 95, 120, 49], [], [95, 121]]).1
    = some [[95, 95, 120, 49], [95, 95, 95, 120, 49], [95, 121]] := by decide

/-- non-vacuity: `a b`, `a_b`, unnamed, `_c` (collision after sanitising ⇒ prefix scheme) -/
example : ManagerNames [[97, 32, 98], [97, 95, 98], [], [95, 99]] ∧
    (exportedVarNames Guards.code false [[97, 32, 98], [97, 95, 98], [], [95, 99]]).1
      = some [[95, 95, 120, 48, 95, 97, 95, 98], [97, 95, 98], [95, 95, 120, 50], [95, 99]] := by
  exact ⟨by decide, by decide⟩

/-! ## (7) structured export → import -/

/-- **Round trip of the binary node section.** Let `d` be any diagram with one terminal whose
inner nodes are numbered bottom-up (`WFNodes`), exported from a manager with `nvars` levels. Let
the importing manager have `numLevels` levels and let `slm` (`suppvar_level_map`) assign to the
support variables strictly increasing levels (`LevelMaps`: a *compatible order*; `slm` = the
support levels themselves in the same manager). For every edge algebra whose `reduce` creates a
node at the requested level (nothing in the file is reducible — true of every file the exporter
writes, and of the free algebra) the importer accepts the bytes, consumes exactly the node
section, and the edges it creates are those of the reference construction `buildNodes`: node by
node the same level (translated by `tlev`), the same children, the same complement bit — for
every variant `g` of the code (in particular `Guards.code`). `complement` must not move an edge to
another level (true for BDD `not`, BCDD tag flip, the identity; not for ZBDD `not`, which a file
written by the exporter never needs). -/
theorem export_import_struct {E : Type} (g : Guards) (A : Alg E) (term : E) (nvars numLevels : Nat)
    (slm : List Nat) (d : Diagram) (r : List Nat)
    (hT : A.parseTerminal [84] = some term) (hterm : A.level term = levelMax)
    (hred : ∀ l cs, A.level (A.reduce l cs) = l) (hcl : ∀ x, A.level (A.complement x) = A.level x)
    (hd : d.terms.length = 1) (hw : WFNodes nvars d.nodes)
    (M : LevelMaps (suppLevels nvars d.nodes) slm numLevels) :
    ∃ built, buildNodes A (tlev (suppLevels nvars d.nodes) slm) d.nodes [term] = some built ∧
      importBin g A (d.nodes.length + 1) numLevels slm (nodeSection false nvars d ++ r) = .ok (built, r) :=
  importBin_nodeSection g A term nvars numLevels slm d r hT hterm hred hcl hd hw M

/-- In the free algebra an edge *is* its unfolded tree: equal results mean node-by-node equal
`(level, then, else, complement)` records. -/
theorem freeAlg_reduce_inj (l l' : Nat) (t e t' e' : Bool × RT)
    (h : freeAlg.reduce l [t, e] = freeAlg.reduce l' [t', e']) : l = l' ∧ t = t' ∧ e = e' := by
  simp only [freeAlg, Prod.mk.injEq, RT.node.injEq, true_and] at h
  obtain ⟨h1, h2, h3, h4, h5⟩ := h
  exact ⟨h1, Prod.ext h2 h3, Prod.ext h4 h5⟩

/-- the round trip, instantiated: free algebra, importing manager = exporting manager -/
theorem export_import_struct_free (nvars : Nat) (d : Diagram) (r : List Nat)
    (hd : d.terms.length = 1) (hw : WFNodes nvars d.nodes)
    (M : LevelMaps (suppLevels nvars d.nodes) (suppLevels nvars d.nodes) nvars) :
    ∃ built, buildNodes freeAlg (tlev (suppLevels nvars d.nodes) (suppLevels nvars d.nodes)) d.nodes [(false, RT.term)]
        = some built ∧
      importBin Guards.code freeAlg (d.nodes.length + 1) nvars (suppLevels nvars d.nodes)
        (nodeSection false nvars d ++ r) = .ok (built, r) :=
  export_import_struct Guards.code freeAlg (false, RT.term) nvars nvars _ d r (by decide) rfl
    freeAlg_level_reduce (fun _ => rfl) hd hw M

/-- in the same manager the level translation is the identity on support levels -/
theorem tlev_same_manager (supp : List Nat) (hs : supp.Pairwise (· < ·)) (l : Nat) (hl : l ∈ supp)
    (hne : l ≠ levelMax) : tlev supp supp l = l := by
  have := getElem?_suppIdx supp hs l hl
  simp [tlev, hne, List.getD_eq_getElem?_getD, this]

/-- The root loop: valid root ids (`0 < |r| ≤ nnodes`, checked by the header) select the edges. -/
theorem importRoots_ok {E : Type} (A : Alg E) (nodes : List E) (roots : List Int)
    (h : ∀ r ∈ roots, r ≠ 0 ∧ r.natAbs ≤ nodes.length) :
    ∃ es, importRoots A nodes roots = .ok es ∧ es.length = roots.length := by
  induction roots with
  | nil => exact ⟨[], rfl, rfl⟩
  | cons r rs ih =>
    obtain ⟨es, he, hl⟩ := ih (fun x hx => h x (by simp [hx]))
    have hr := h r (by simp)
    have : r.natAbs - 1 < nodes.length := by omega
    refine ⟨(if r > 0 then nodes[r.natAbs - 1] else A.complement nodes[r.natAbs - 1]) :: es, ?_, ?_⟩
    · simp only [importRoots, List.getElem?_eq_getElem this, he]
    · simp [hl]

/-- non-vacuity of `export_import_struct`: x1 ∧ ¬x2 over three levels with level 0 unused,
written and read back (two support levels, `AbsoluteID` and `Relative1` variable codes,
`Terminal` / `Relative1` / `AbsoluteID` child codes, complemented else edges, the escaped
terminal record). -/
def exampleDiagram : Diagram :=
  { terms := [[84]], nodes := [⟨2, [1, -1]⟩, ⟨1, [2, 1]⟩, ⟨1, [1, -2]⟩], roots := [-3, 4], rootNames := none }

example : nodeSection false 3 exampleDiagram = [0, 0, 36, 2, 120, 101, 4] := by decide

example : WFNodes 3 exampleDiagram.nodes ∧
    LevelMaps (suppLevels 3 exampleDiagram.nodes) (suppLevels 3 exampleDiagram.nodes) 3 := by
  refine ⟨⟨by decide, by decide, ?_⟩, ⟨by decide, by decide, by decide, by decide, by decide, by decide, by decide⟩⟩
  intro i h
  match i, h with
  | 0, _ => exact ⟨1, -1, rfl, by decide, by decide, by decide, by decide, by decide +revert, by decide +revert, by decide +revert⟩
  | 1, _ => exact ⟨2, 1, rfl, by decide, by decide, by decide, by decide, by decide +revert, by decide +revert, by decide +revert⟩
  | 2, _ => exact ⟨1, -2, rfl, by decide, by decide, by decide, by decide, by decide +revert, by decide +revert, by decide +revert⟩
  | n + 3, h => exact absurd h (by simp [exampleDiagram])

example : importBin Guards.code freeAlg 4 3 [1, 2] (nodeSection false 3 exampleDiagram ++ [46, 101, 110, 100, 10])
    = .ok ([(false, .term),
            (false, .node 2 false .term true .term),
            (false, .node 1 false (.node 2 false .term true .term) false .term),
            (false, .node 1 false .term true (.node 2 false .term true .term))],
           [46, 101, 110, 100, 10]) := by decide

/-! ## importer totality -/

/-- **The binary importer never panics**: for every input, every node count and every target
manager whose `reduce` / `complement` respect levels, `import_bin` returns `ok` or `err` — every
index into the node vector, into `level_suppvar_map` and into `suppvar_level_map` is in range, the
relative-id subtraction cannot underflow, a diagram kind without a `T` terminal is an error, no
capacity is taken from the file. Stated for every variant with the importer-side fixes
(`Guards.ImportSafe`), hence for the code as it is (`importBin_never_panics`). -/
theorem importBin_never_panics_of_safe {E : Type} (g : Guards) (hg : g.ImportSafe) (A : Alg E) (L : LevelLaws A)
    (nnodes numLevels : Nat) (slm inp : List Nat)
    (hterm : ∀ t, A.parseTerminal [84] = some t → A.level t = levelMax ∨ A.level t < numLevels)
    (hslm : ∀ x ∈ slm, x < numLevels) :
    importBin g A nnodes numLevels slm inp ≠ .panic := by
  obtain ⟨h1, h2, h3, h4⟩ := hg
  unfold importBin
  cases hT : A.parseTerminal [84] with
  | none => simp [h3]
  | some term =>
    simp only [h4, Bool.not_true, Bool.false_and, Bool.false_eq_true, ↓reduceIte]
    apply importBinLoop_all_ne_panic A L term _ _ _ _ g h1 h2
    · rfl
    · intro x hx; simp at hx
    · rw [mkLevelSuppvarMap_length]; exact hterm term hT
    · rw [mkLevelSuppvarMap_length]; exact hslm

theorem importBin_never_panics {E : Type} (A : Alg E) (L : LevelLaws A)
    (nnodes numLevels : Nat) (slm inp : List Nat)
    (hterm : ∀ t, A.parseTerminal [84] = some t → A.level t = levelMax ∨ A.level t < numLevels)
    (hslm : ∀ x ∈ slm, x < numLevels) :
    importBin Guards.code A nnodes numLevels slm inp ≠ .panic :=
  importBin_never_panics_of_safe Guards.code ⟨rfl, rfl, rfl, rfl⟩ A L nnodes numLevels slm inp hterm hslm

/-- **The ASCII importer never panics** (no hypothesis on the manager side at all): node ids are
checked against the line number, children against the node id, so every lookup in the node vector
is in range. -/
theorem importAscii_never_panics {E : Type} (A : Alg E) (h : Header) (slm inp : List Nat) :
    importAscii Guards.code A h slm inp ≠ .panic := by
  unfold importAscii
  simp only [Guards.code, Bool.not_true, Bool.false_and, Bool.false_eq_true, ↓reduceIte]
  exact (importAsciiLoop_ne_panic A h.varinfo slm h.nnodes 1 [] inp rfl).1

/-- **`import` never panics** once the header is loaded: both node-section readers and the root
loop. `hroots` is what `DumpHeader::load` has checked (`.rootids` non-zero and `≤ .nnodes`),
`hslm` what the caller guarantees (levels of the target manager). -/
theorem importNodes_never_panics {E : Type} (A : Alg E) (L : LevelLaws A) (h : Header)
    (numLevels : Nat) (slm inp : List Nat)
    (hroots : ∀ r ∈ h.rootids, r ≠ 0 ∧ r.natAbs ≤ h.nnodes)
    (hterm : ∀ t, A.parseTerminal [84] = some t → A.level t = levelMax ∨ A.level t < numLevels)
    (hslm : ∀ x ∈ slm, x < numLevels) :
    importNodes Guards.code A h numLevels slm inp ≠ .panic := by
  unfold importNodes
  simp only
  by_cases ha : h.ascii = true
  · simp only [ha, ↓reduceIte]
    have h1 := importAscii_never_panics A h slm inp
    cases hr : importAscii Guards.code A h slm inp with
    | err => simp
    | panic => exact absurd hr h1
    | ok p =>
      obtain ⟨nodes, rest⟩ := p
      simp only
      split
      · simp
      · apply importRoots_ne_panic
        have hlen : nodes.length = h.nnodes := by
          unfold importAscii at hr
          simp only [Guards.code, Bool.not_true, Bool.false_and, Bool.false_eq_true, ↓reduceIte] at hr
          have := (importAsciiLoop_ne_panic A h.varinfo slm h.nnodes 1 [] inp rfl).2 nodes rest hr
          simpa using this
        rw [hlen]; exact hroots
  · simp only [ha, Bool.false_eq_true, ↓reduceIte]
    have h1 := importBin_never_panics A L h.nnodes numLevels slm inp hterm hslm
    cases hr : importBin Guards.code A h.nnodes numLevels slm inp with
    | err => simp
    | panic => exact absurd hr h1
    | ok p =>
      obtain ⟨nodes, rest⟩ := p
      simp only
      split
      · simp
      · apply importRoots_ne_panic
        have hlen : nodes.length = h.nnodes := by
          unfold importBin at hr
          cases hT : A.parseTerminal [84] with
          | none => simp [hT, Guards.code] at hr
          | some term =>
            simp only [hT, Guards.code, Bool.not_true, Bool.false_and, Bool.false_eq_true, ↓reduceIte] at hr
            have := importBinLoop_length _ A term _ slm h.nnodes 1 [] inp nodes rest hr
            simpa using this
        rw [hlen]; exact hroots

/-- the free algebra satisfies the level laws (non-vacuity of the totality theorems) -/
example : LevelLaws freeAlg :=
  ⟨fun l t e => Or.inl (freeAlg_level_reduce l [t, e]), fun _ => rfl⟩

/-- regression examples (code before fix 2741478 / 675d3b1): three inputs of a few bytes on which
`import_bin` panicked, and what the current code answers.
1. `.nsuppvars 1` in a 3-level manager, a node with variable code `Relative1` and two terminal
   children: `suppvar_level_map[vid]` out of bounds;
2. then-id `RelativeID 5` at node 2: `node_id - decode_7bit(..)` underflowed (overflow checks);
3. any binary file for a kind whose terminals do not parse `T`. -/
theorem importBin_panics_relative_var_before_fix :
    importBin Guards.before freeAlg 2 3 [0] [0, 0, 100, 46, 101, 110, 100, 10] = .panic ∧
    importBin Guards.code freeAlg 2 3 [0] [0, 0, 100, 46, 101, 110, 100, 10] = .err := by decide

theorem importBin_panics_relative_id_before_fix :
    importBin Guards.before freeAlg 2 1 [0] [0, 0, 52, 0, 0, 10] = .panic ∧
    importBin Guards.code freeAlg 2 1 [0] [0, 0, 52, 0, 0, 10] = .err := by decide

theorem importBin_panics_without_T_before_fix {E : Type} (A : Alg E) (h : A.parseTerminal [84] = none)
    (nnodes numLevels : Nat) (slm inp : List Nat) :
    importBin Guards.before A nnodes numLevels slm inp = .panic ∧
    importBin Guards.code A nnodes numLevels slm inp = .err := by
  simp [importBin, h, Guards.before, Guards.code]

/-! ## the remaining defect (known finding) -/

/-- **Known finding** (`binary_supported` looks at the *current* number of terminals): a manager
with binary nodes and exactly one terminal that is not `T` — an MTBDD holding a single constant,
here `5` — is exported in binary mode although ASCII was not ruled out by the caller; the file
does not contain the value (`.mode B`, node section `00 00`), and no kind whose terminal parser
rejects `T` can read it back. With the unapplied repair (`Guards.all`) ASCII mode is chosen. -/
theorem binary_mode_loses_constant :
    let m : MgrView := { nvars := 2, names := [[], []], v2l := [0, 1], arity := 2, numTerminals := 1, allTermsT := false }
    let d : Diagram := { terms := [[53]], nodes := [], roots := [1], rootNames := none }
    let s : Settings := { v3 := false, ascii := false, strict := true, ddName := [] }
    (exportFile Guards.code s m d).2 = false ∧
    nodeSection (s.ascii || !(m.arity = 2 && m.numTerminals = 1)) m.nvars d = [0, 0] ∧
    nodeSection (s.ascii || !(m.arity = 2 && m.numTerminals = 1) || (Guards.all.binT && !m.allTermsT)) m.nvars d
      = [49, 32, 53, 32, 48, 32, 48, 10] := by
  decide

end OxiddModel.Dddmp
