import OxiddModel.Dddmp.ImportCapOrd
import OxiddModel.Dddmp.PropertiesStoreS

/-!
# C14 / C15 — a DDDMP import under a node capacity: failure leaves the manager intact, the
threshold is exact

Operation kind "DDDMP import" of property C14 (*out of memory is an error and leaves the manager
intact*). `importCapped cap compl slm nvars r d` is `StoreS.importS` (`dddmp::import` +
`import_ascii` on the hash-consed counter store, `reduce(..).then_insert(..)?` failing when `cap`
nodes are stored; the `?` leaves through the `EdgeVecDropGuard`s of `child_edges`, of the node
table and of the roots built so far). `importU` is the same code with `add_node` never failing.
`needed := count (importU …).store − count store` — the number of slots the import takes when
nothing stops it; its definition does not mention the capacity.

For **all** stores, counter arrays, caches, files (node lists, well formed or not), root lists,
level maps, capacities, and every complement callback that only moves counters (`ComplPure`;
the simple-BDD exporter writes no negative id, so on its files no callback runs at all):

* (c) `import_oom_iff_needed`: the import reports OutOfMemory **iff**
  `0 < needed ∧ cap < count + needed` (or the capacity-free import itself reports it — impossible
  for a callback that cannot fail, `importU_never_oom`);
  `import_threshold_exact`: every capacity in `[count, count + needed)` fails, every capacity
  `≥ count + needed` gives the capacity-free result; `import_success_iff_free`: for a file the
  capacity-free importer accepts, success iff `needed ≤ free slots`.
* what `needed` is: one slot for **every file entry** (reached by a root or not) whose reduced
  node (`t ≠ e`) is not in the unique table when its line is read; so `needed ≤ d.nodes.length`
  (`needed_le_nodes`), `needed = 0` for the re-import into the exporting manager
  (`needed_same_manager`), `needed = d.nodes.length` for an exported file read into an empty
  manager (`needed_fresh_empty`). `needed_counts_unreached_entries` is the witness that the
  count is over file entries, not over the diagrams of the roots.
* (b) `import_monotone`, (d) `import_success_is_uncapped`, `import_other_failure_is_uncapped`.
* (a) `import_failure_clean`: after ANY failure (OutOfMemory at any entry, malformed record, level
  check) `RcInv` holds for the caller's unchanged reference list (nothing leaked, nothing dropped
  twice), the node table is only extended (every earlier handle denotes what it denoted), the
  store is still ordered, and a collection afterwards leaves slot by slot the store a collection
  before the import leaves = exactly the part reachable from the caller's references.
-/
namespace OxiddModel.Dddmp.C14I
open OxiddModel.Bdd OxiddModel.Bdd.BDD OxiddModel.Bdd.Refine OxiddModel.Bdd.Rc
open OxiddModel.Dddmp OxiddModel.Dddmp.StoreS OxiddModel.Dddmp.ImportCap

/-- slots the import takes when nothing stops it -/
def neededImport (compl : Compl) (slm : List Nat) (nvars : Nat) (r : RSt) (d : Diagram) : Nat :=
  (importU compl slm nvars r d).2.st.store.count - r.st.store.count

section
variable {compl : Compl} (hp : ComplPure compl) (slm : List Nat) (nvars : Nat) (r : RSt) (d : Diagram)
include hp

theorem importU_count_eq :
    (importU compl slm nvars r d).2.st.store.count = r.st.store.count + neededImport compl slm nvars r d := by
  have := (import_thr 0 hp slm nvars r d).2.2
  unfold neededImport; omega

theorem fits_iff (cap : Nat) :
    Fits cap r.st.store (importU compl slm nvars r d).2.st.store ↔
      ¬ (0 < neededImport compl slm nvars r d ∧ cap < r.st.store.count + neededImport compl slm nvars r d) := by
  have := importU_count_eq hp slm nvars r d
  unfold Fits; omega

/-- **(c) `import_oom_iff_needed`.** No hypothesis on store, file or capacity. -/
theorem import_oom_iff_needed (cap : Nat) :
    (importCapped cap compl slm nvars r d).1 = .fail .oom ↔
      (0 < neededImport compl slm nvars r d ∧ cap < r.st.store.count + neededImport compl slm nvars r d) ∨
      (importU compl slm nvars r d).1 = .fail .oom := by
  obtain ⟨h1, h2, _⟩ := import_thr cap hp slm nvars r d
  rw [fits_iff hp] at h1 h2
  constructor
  · intro h
    by_cases hn : 0 < neededImport compl slm nvars r d ∧ cap < r.st.store.count + neededImport compl slm nvars r d
    · exact .inl hn
    · right; rw [← h1 hn]; exact h
  · rintro (hn | hU)
    · exact h2 (fun h => h hn)
    · by_cases hn : 0 < neededImport compl slm nvars r d ∧ cap < r.st.store.count + neededImport compl slm nvars r d
      · exact h2 (fun h => h hn)
      · rw [h1 hn]; exact hU

/-- **(c) `import_threshold_exact`.** `count + needed` is the minimal capacity: every capacity from
the current count up to it fails with OutOfMemory, every capacity from it on gives exactly the
capacity-free import (result or non-memory error, store, cache, counters). -/
theorem import_threshold_exact :
    let k := r.st.store.count + neededImport compl slm nvars r d
    (∀ cap, r.st.store.count ≤ cap → cap < k → (importCapped cap compl slm nvars r d).1 = .fail .oom) ∧
    (∀ cap, k ≤ cap → importCapped cap compl slm nvars r d = importU compl slm nvars r d) := by
  intro k
  constructor
  · intro cap hc hk
    exact (import_thr cap hp slm nvars r d).2.1 (by rw [fits_iff hp]; intro h; apply h; omega)
  · intro cap hk
    exact (import_thr cap hp slm nvars r d).1 (by rw [fits_iff hp]; omega)

/-- **(d) `import_success_is_uncapped`.** A successful capped import is the capacity-free import:
same roots, same node table, cache, time stamp and counters. -/
theorem import_success_is_uncapped (cap : Nat) (roots : List Refine.Edge)
    (h : (importCapped cap compl slm nvars r d).1 = .ok roots) :
    importCapped cap compl slm nvars r d = importU compl slm nvars r d := by
  obtain ⟨h1, h2, _⟩ := import_thr cap hp slm nvars r d
  by_cases hf : Fits cap r.st.store (importU compl slm nvars r d).2.st.store
  · exact h1 hf
  · rw [h2 hf] at h; cases h

/-- a failure other than OutOfMemory (malformed record, failed level check) is the failure of
the capacity-free import, with the same state -/
theorem import_other_failure_is_uncapped (cap : Nat) (e : Err) (he : e ≠ .oom)
    (h : (importCapped cap compl slm nvars r d).1 = .fail e) :
    importCapped cap compl slm nvars r d = importU compl slm nvars r d := by
  obtain ⟨h1, h2, _⟩ := import_thr cap hp slm nvars r d
  by_cases hf : Fits cap r.st.store (importU compl slm nvars r d).2.st.store
  · exact h1 hf
  · rw [h2 hf] at h; cases h; exact absurd rfl he

/-- **(b) `import_monotone`.** Success at `cap` ⇒ the same result and the same final state at every
larger capacity. -/
theorem import_monotone (cap cap' : Nat) (hc : cap ≤ cap') (roots : List Refine.Edge)
    (h : (importCapped cap compl slm nvars r d).1 = .ok roots) :
    importCapped cap' compl slm nvars r d = importCapped cap compl slm nvars r d := by
  rw [import_success_is_uncapped hp slm nvars r d cap roots h]
  obtain ⟨h1, h2, _⟩ := import_thr cap hp slm nvars r d
  have hf : Fits cap r.st.store (importU compl slm nvars r d).2.st.store := by
    by_cases hf : Fits cap r.st.store (importU compl slm nvars r d).2.st.store
    · exact hf
    · rw [h2 hf] at h; cases h
  exact (import_thr cap' hp slm nvars r d).1 (hf.mono hc)

/-- **(c) `import_success_iff_free`.** For a file the capacity-free importer accepts and a store
within its capacity: the import succeeds iff at least `needed` slots are free. -/
theorem import_success_iff_free (cap : Nat) (hc : r.st.store.count ≤ cap) (roots : List Refine.Edge)
    (hU : (importU compl slm nvars r d).1 = .ok roots) :
    (importCapped cap compl slm nvars r d).1 = .ok roots ↔
      neededImport compl slm nvars r d ≤ cap - r.st.store.count := by
  obtain ⟨h1, h2, _⟩ := import_thr cap hp slm nvars r d
  rw [fits_iff hp] at h1 h2
  constructor
  · intro h
    by_cases hn : 0 < neededImport compl slm nvars r d ∧ cap < r.st.store.count + neededImport compl slm nvars r d
    · rw [h2 (fun h => h hn)] at h; cases h
    · omega
  · intro h
    rw [h1 (by omega)]; exact hU

/-- at most one slot per file entry -/
theorem needed_le_nodes : neededImport compl slm nvars r d ≤ d.nodes.length := by
  have := importU_count hp slm nvars r d
  unfold neededImport; omega

/-- after a capped import that succeeded exactly `needed` more slots are in use -/
theorem import_final_count (cap : Nat) (roots : List Refine.Edge)
    (h : (importCapped cap compl slm nvars r d).1 = .ok roots) :
    (importCapped cap compl slm nvars r d).2.st.store.count =
      r.st.store.count + neededImport compl slm nvars r d := by
  rw [import_success_is_uncapped hp slm nvars r d cap roots h]
  exact importU_count_eq hp slm nvars r d

end

/-! ## the capacity-free import never reports OutOfMemory when the callback cannot fail -/

/-- the callback never fails (`|_, e| Ok(e)`, a tag flip) -/
def ComplTotal (compl : Compl) : Prop := ∀ r e, (compl r e).1 ≠ none

theorem complId_total : ComplTotal complId := fun _ _ h => by cases h

theorem childLoop_not_oom {compl : Compl} (ht : ComplTotal compl) (nodeId level : Nat) (table : List Refine.Edge) :
    ∀ (cs : List Int) (r : RSt) (acc : List Refine.Edge),
      (childLoop compl nodeId level table r acc cs).1 ≠ .error .oom := by
  intro cs
  induction cs with
  | nil => intro r acc h; cases h
  | cons c cs ih =>
    intro r acc
    simp only [childLoop]
    split
    · intro h; cases h
    · split
      · intro h; cases h
      · rename_i x hx
        split
        · rename_i r2 hcm
          split at hcm
          · exact absurd (congrArg Prod.fst hcm) (ht _ _)
          · cases hcm
        · split
          · intro h; cases h
          · exact ih _ _

theorem rootLoop_not_oom {compl : Compl} (ht : ComplTotal compl) (table : List Refine.Edge) :
    ∀ (cs : List Int) (r : RSt) (acc : List Refine.Edge), (rootLoop compl table r acc cs).1 ≠ .error .oom := by
  intro cs
  induction cs with
  | nil => intro r acc h; cases h
  | cons c cs ih =>
    intro r acc
    simp only [rootLoop]
    split
    · intro h; cases h
    · split
      · rename_i r2 hcm
        split at hcm
        · cases hcm
        · exact absurd (congrArg Prod.fst hcm) (ht _ _)
      · exact ih _ _

theorem nodeStepU_not_oom {compl : Compl} (ht : ComplTotal compl) (slm supp : List Nat) (nodeId : Nat)
    (table : List Refine.Edge) (r : RSt) (n : SNode) :
    (nodeStepG mkNodeU compl slm supp nodeId table r n).1 ≠ .error .oom := by
  unfold nodeStepG
  split
  · intro h; cases h
  · split
    · split <;> (intro h; cases h)
    · split
      · intro h; cases h
      · rename_i level _
        have hl := childLoop_not_oom ht nodeId level table n.children r []
        generalize childLoop compl nodeId level table r [] n.children = CL at hl
        match CL, hl with
        | (.error e, r'), hl =>
          intro h; simp only at h hl; injection h with h1; exact hl (by rw [h1])
        | (.ok [], r'), _ => intro h; cases h
        | (.ok [_], r'), _ => intro h; cases h
        | (.ok (_ :: _ :: _ :: _), r'), _ => intro h; cases h
        | (.ok [t, e], r'), _ =>
          simp only
          have := mkNodeU_total r' level t e
          generalize mkNodeU r' level t e = M at this
          obtain ⟨o, r2⟩ := M
          cases o with
          | none => exact absurd rfl this
          | some x => intro h; cases h

theorem nodeLoopU_not_oom {compl : Compl} (ht : ComplTotal compl) (slm supp : List Nat) :
    ∀ (ns : List SNode) (r : RSt) (table : List Refine.Edge),
      (nodeLoopG mkNodeU compl slm supp r table ns).1 ≠ .error .oom := by
  intro ns
  induction ns with
  | nil => intro r table h; cases h
  | cons n ns ih =>
    intro r table
    simp only [nodeLoopG]
    have hs := nodeStepU_not_oom ht slm supp (table.length + 1) table r n
    generalize nodeStepG mkNodeU compl slm supp (table.length + 1) table r n = S at hs
    obtain ⟨o, r'⟩ := S
    cases o with
    | error e => intro h; apply hs; simp only at h ⊢; injection h with h1; rw [h1]
    | ok x => exact ih _ _

/-- **`importU_never_oom`.** With a callback that cannot fail, the capacity-free import never
reports OutOfMemory — so for such callbacks `import_oom_iff_needed` is the pure threshold. -/
theorem importU_never_oom {compl : Compl} (ht : ComplTotal compl) (slm : List Nat) (nvars : Nat)
    (r : RSt) (d : Diagram) : (importU compl slm nvars r d).1 ≠ .fail .oom := by
  unfold importU importG
  split
  · intro h; cases h
  · cases htl : termLoop d.terms with
    | error e =>
      intro h
      simp only at h
      injection h with h1
      subst h1
      -- `termLoop` has no OutOfMemory branch
      have : ∀ ds, termLoop ds ≠ .error .oom := by
        intro ds
        induction ds with
        | nil => intro h; cases h
        | cons a ds ih =>
          simp only [termLoop]
          split
          · intro h; cases h
          · split
            · intro h; cases h
            · rename_i e he; intro h; injection h with h1; subst h1; exact ih he
      exact this _ htl
    | ok tt =>
      simp only
      have hn := nodeLoopU_not_oom ht slm (suppLevels nvars d.nodes) d.nodes r tt
      generalize nodeLoopG mkNodeU compl slm (suppLevels nvars d.nodes) r tt d.nodes = L at hn
      obtain ⟨o, r'⟩ := L
      cases o with
      | error e => intro h; apply hn; simp only at h ⊢; injection h with h1; rw [h1]
      | ok table =>
        simp only
        have hr := rootLoop_not_oom ht table d.roots r' []
        generalize rootLoop compl table r' [] d.roots = RL at hr
        obtain ⟨o2, r2⟩ := RL
        cases o2 with
        | error e => intro h; apply hr; simp only at h ⊢; injection h with h1; rw [h1]
        | ok roots => intro h; cases h

/-- the pure threshold for the identity callback (what the simple-BDD importer is given when the
file has no negative id; any total counter-only callback works the same way) -/
theorem import_oom_iff_needed_total {compl : Compl} (hp : ComplPure compl) (ht : ComplTotal compl)
    (slm : List Nat) (nvars : Nat) (r : RSt) (d : Diagram) (cap : Nat) :
    (importCapped cap compl slm nvars r d).1 = .fail .oom ↔
      0 < neededImport compl slm nvars r d ∧ cap < r.st.store.count + neededImport compl slm nvars r d := by
  rw [import_oom_iff_needed hp]
  constructor
  · rintro (h | h)
    · exact h
    · exact absurd h (importU_never_oom ht slm nvars r d)
  · exact .inl

/-! ## (a) a failed import leaves the manager intact -/

/-- **(a) `import_failure_clean`.** From `RcInv r ext` (counters exact for the caller's references)
and `OrdInv N r`, level map within the `N` levels: after ANY failure of the import —
OutOfMemory at whatever entry, a malformed record, a failed level check —

1. `RcInv` holds for the **same** `ext`: every clone the importer made (children, table, roots)
   has been released exactly once;
2. the node table is only extended, so every earlier handle denotes what it denoted;
3. the store is still ordered with levels `< N`;
4. `gc` afterwards: counters exact again, the stored nodes are exactly those reachable from `ext`
   in the store before the import, and slot by slot the store equals what `gc` before the import
   leaves. -/
theorem import_failure_clean {compl : Compl} (hc : ComplOK compl) (hp : ComplPure compl) {N : Nat}
    (cap : Nat) (slm : List Nat) (hslm : ∀ l ∈ slm, l < N) (nvars : Nat) (r : RSt) (d : Diagram)
    (ext : List Refine.Edge) (hi : RcInv r ext) (ho : OrdInv N r) (e : Err)
    (herr : (importCapped cap compl slm nvars r d).1 = .fail e) :
    let r' := (importCapped cap compl slm nvars r d).2
    RcInv r' ext ∧ r.st.store.Le r'.st.store ∧
    (∀ x T, Denotes r.st.store x T → Denotes r'.st.store x T) ∧ OrdInv N r' ∧
    RcInv (gcR N r') ext ∧ RcInv (gcR N r) ext ∧
    (∀ i, (∃ n, (gcR N r').st.store.get? i = some n) ↔ Reach r.st.store ext i) ∧
    (∀ i, (gcR N r').st.store.get? i = (gcR N r).st.store.get? i) := by
  intro r'
  have hrc := importS_rc (cfg := ⟨cap, compl, slm⟩) hc nvars r d ext hi
  have hord := importS_ord (cfg := ⟨cap, compl, slm⟩) hc hp hslm nvars r d ext hi ho
  have hinv : RcInv r' ext := by
    show RcInv (importS ⟨cap, compl, slm⟩ nvars r d).2 ext
    have herr' : (importS ⟨cap, compl, slm⟩ nvars r d).1 = .fail e := herr
    generalize importS ⟨cap, compl, slm⟩ nvars r d = R at hrc herr'
    obtain ⟨o, r2⟩ := R
    simp only at herr'
    subst herr'
    exact hrc
  obtain ⟨g1, g2, g3, g4⟩ := failure_clean_of hi ho hinv hord.2 hord.1
  exact ⟨hinv, hord.2, fun x T h => h.mono hord.2, hord.1, g1, g2, g3, g4⟩

/-- a successful import: counters exact with the new roots owned, table only extended, ordered -/
theorem import_success_clean {compl : Compl} (hc : ComplOK compl) (hp : ComplPure compl) {N : Nat}
    (cap : Nat) (slm : List Nat) (hslm : ∀ l ∈ slm, l < N) (nvars : Nat) (r : RSt) (d : Diagram)
    (ext : List Refine.Edge) (hi : RcInv r ext) (ho : OrdInv N r) (roots : List Refine.Edge)
    (hok : (importCapped cap compl slm nvars r d).1 = .ok roots) :
    let r' := (importCapped cap compl slm nvars r d).2
    RcInv r' (roots ++ ext) ∧ r.st.store.Le r'.st.store ∧ OrdInv N r' := by
  intro r'
  have hrc := importS_rc (cfg := ⟨cap, compl, slm⟩) hc nvars r d ext hi
  have hord := importS_ord (cfg := ⟨cap, compl, slm⟩) hc hp hslm nvars r d ext hi ho
  refine ⟨?_, hord.2, hord.1⟩
  show RcInv (importS ⟨cap, compl, slm⟩ nvars r d).2 (roots ++ ext)
  have hok' : (importS ⟨cap, compl, slm⟩ nvars r d).1 = .ok roots := hok
  generalize importS ⟨cap, compl, slm⟩ nvars r d = R at hrc hok'
  obtain ⟨o, r2⟩ := R
  simp only at hok'
  subst hok'
  exact hrc

/-! ## what `needed` is for exported files -/

/-- **`needed_same_manager`.** Re-import into the exporting manager (hash-consed, reduced, ordered):
`needed = 0` — every `reduce` is a unique-table hit, so the import succeeds at every capacity. -/
theorem needed_same_manager (ord : List Refine.Edge → List Refine.Edge) (hord : ∀ l, (ord l).Perm l)
    (nvars : Nat) (r : RSt) (roots ext : List Refine.Edge) (h : RcInv r ext)
    (ok : StoreOK nvars r.st.store) (hu : r.st.store.Unique) (hn : r.st.store.NoRed)
    (hroots : ∀ x ∈ roots, r.st.store.has x) :
    ∃ d, (exportS false ord nvars r roots).1 = some d ∧
      ∀ compl, ComplOK compl → ComplPure compl →
        neededImport compl (suppLevels nvars d.nodes) nvars (exportS false ord nvars r roots).2 d = 0 := by
  obtain ⟨d, hd, himp⟩ := import_export_same_manager ord hord nvars r roots ext h ok hu hn hroots
  refine ⟨d, hd, ?_⟩
  intro compl hc hp
  obtain ⟨r', hi, hst, _⟩ := himp ⟨0, compl, suppLevels nvars d.nodes⟩ rfl hc
  have hU := import_success_is_uncapped hp (suppLevels nvars d.nodes) nvars
    (exportS false ord nvars r roots).2 d 0 roots (by show (importS _ _ _ _).1 = _; rw [hi])
  unfold neededImport
  rw [← hU]
  show (importS _ _ _ _).2.st.store.count - _ = 0
  rw [hi]
  simp only [hst, exportS_st]
  exact Nat.sub_self _

/-- **`needed_fresh_empty`.** An exported file read into an EMPTY manager with the same levels:
`needed = d.nodes.length` — the number of nodes of the exported diagrams; so the import succeeds
iff the capacity is at least the number of nodes in the file. -/
theorem needed_fresh_empty (ord : List Refine.Edge → List Refine.Edge) (hord : ∀ l, (ord l).Perm l)
    (nvars : Nat) (r : RSt) (roots : List Refine.Edge)
    (ok : StoreOK nvars r.st.store) (hu : r.st.store.Unique) (hn : r.st.store.NoRed)
    (hroots : ∀ x ∈ roots, r.st.store.has x) :
    ∃ d, (exportS false ord nvars r roots).1 = some d ∧
      ∀ compl, ComplOK compl → ComplPure compl → ∀ (r0 : RSt) (ext0 : List Refine.Edge), RcInv r0 ext0 →
        (∀ j, r0.st.store.get? j = none) →
        neededImport compl (suppLevels nvars d.nodes) nvars r0 d = d.nodes.length ∧
        ∀ cap, r0.st.store.count ≤ cap →
          ((∃ roots', (importCapped cap compl (suppLevels nvars d.nodes) nvars r0 d).1 = .ok roots') ↔
            d.nodes.length ≤ cap - r0.st.store.count) := by
  obtain ⟨d, hd, himp⟩ := import_export_fresh_manager ord hord nvars r roots ok hu hn hroots
  refine ⟨d, hd, ?_⟩
  intro compl hc hp r0 ext0 h0 hempty
  obtain ⟨roots', r', hi, _, _, _, _, _, hcount⟩ :=
    himp ⟨r0.st.store.count + d.nodes.length, compl, suppLevels nvars d.nodes⟩ r0 ext0 rfl hc h0
      (Nat.le_refl _)
  have hU := import_success_is_uncapped hp (suppLevels nvars d.nodes) nvars r0 d
    (r0.st.store.count + d.nodes.length) roots' (by show (importS _ _ _ _).1 = _; rw [hi])
  have hneed : neededImport compl (suppLevels nvars d.nodes) nvars r0 d = d.nodes.length := by
    unfold neededImport
    rw [← hU]
    show (importS _ _ _ _).2.st.store.count - _ = _
    rw [hi]
    simp only [hcount hempty]
    omega
  refine ⟨hneed, ?_⟩
  intro cap hcap
  have hUok : (importU compl (suppLevels nvars d.nodes) nvars r0 d).1 = .ok roots' := by
    rw [← hU]; show (importS _ _ _ _).1 = _; rw [hi]
  rw [← hneed]
  constructor
  · rintro ⟨roots2, h2⟩
    have := import_success_is_uncapped hp (suppLevels nvars d.nodes) nvars r0 d cap roots2 h2
    rw [this, hUok] at h2
    cases h2
    exact (import_success_iff_free hp (suppLevels nvars d.nodes) nvars r0 d cap hcap roots' hUok).mp
      (by rw [this]; exact hUok)
  · intro hle
    exact ⟨roots', (import_success_iff_free hp (suppLevels nvars d.nodes) nvars r0 d cap hcap roots'
      hUok).mpr hle⟩

/-! ## non-vacuity -/

/-- the file the example manager of `PropertiesStoreS` exports: `x1`, `x0 ∧ x1`, `x0 ∨ x1` -/
def exFile : Diagram := ⟨[[84], [70]], [⟨1, [1, 2]⟩, ⟨0, [3, 2]⟩, ⟨0, [1, 3]⟩], [4, 5], none⟩

/-- a target that already holds `x1` (one handle) -/
def exTgt : RSt := ⟨⟨⟨#[some ⟨1, .term true, .term false⟩]⟩, [], 0⟩, #[2]⟩

/-- into the empty manager: `needed = 3`; capacities 0, 1, 2 fail, 3 succeeds with three nodes -/
example : neededImport complId [0, 1] 2 RSt.empty exFile = 3 ∧
    (importCapped 0 complId [0, 1] 2 RSt.empty exFile).1 = .fail .oom ∧
    (importCapped 2 complId [0, 1] 2 RSt.empty exFile).1 = .fail .oom ∧
    (importCapped 3 complId [0, 1] 2 RSt.empty exFile).1 = .ok [.inner 1, .inner 2] := by
  decide +kernel

/-- into a manager that holds `x1` already: `needed = 2`; capacity 2 (one free slot) fails,
capacity 3 succeeds; the failed run leaves one garbage node with counter 1 and the counter of
`x1` where it was -/
example : neededImport complId [0, 1] 2 exTgt exFile = 2 ∧
    (importCapped 2 complId [0, 1] 2 exTgt exFile).1 = .fail .oom ∧
    (importCapped 2 complId [0, 1] 2 exTgt exFile).2.rc.toList = [3, 1] ∧
    (gcR 2 (importCapped 2 complId [0, 1] 2 exTgt exFile).2).rc.toList = [2, 1] ∧
    (gcR 2 (importCapped 2 complId [0, 1] 2 exTgt exFile).2).st.store.count = 1 ∧
    (importCapped 3 complId [0, 1] 2 exTgt exFile).1 = .ok [.inner 1, .inner 2] := by
  decide +kernel

/-- **`needed_counts_unreached_entries`**: the count is over FILE ENTRIES. The file below has the
single root `x0 ∧ x1` (two nodes), an entry `(v0 x1 x1)` that `reduce` eliminates (no slot) and an
entry `(v0 F x1)` that no root reaches (one slot): `needed = 3` in the empty manager, so capacity
2 — enough for the root's diagram — fails. -/
theorem needed_counts_unreached_entries :
    let f : Diagram := ⟨[[84], [70]], [⟨1, [1, 2]⟩, ⟨0, [3, 3]⟩, ⟨0, [2, 3]⟩, ⟨0, [3, 2]⟩], [6], none⟩
    neededImport complId [0, 1] 2 RSt.empty f = 3 ∧
    (importCapped 2 complId [0, 1] 2 RSt.empty f).1 = .fail .oom ∧
    (importCapped 3 complId [0, 1] 2 RSt.empty f).1 = .ok [.inner 2] := by
  decide +kernel

/-- hypotheses of `import_failure_clean` on the failing run above, conclusion instantiated -/
example : ∀ i, (gcR 2 (importCapped 2 complId [0, 1] 2 exTgt exFile).2).st.store.get? i =
    (gcR 2 exTgt).st.store.get? i := by
  have hi : RcInv exTgt [.inner 0] := rcinv_of_rcInvB (by decide +kernel)
  have ho : OrdInv 2 exTgt := by
    refine ⟨ordered_of_orderedB (by decide +kernel), ?_, fun _ _ h => by cases h⟩
    intro i n h
    have := checkSlots_sound (s := exTgt.st.store) (p := fun _ n => decide (n.level < 2))
      (by decide +kernel) i n h
    simpa using this
  exact (import_failure_clean complId_ok complId_pure 2 [0, 1] (by decide) 2 exTgt exFile
    [.inner 0] hi ho .oom (by decide +kernel)).2.2.2.2.2.2.2

/-- `needed_same_manager` / `needed_fresh_empty`: hypotheses discharged on the example manager -/
example : ∃ d, (exportS false id 2 exR exRoots).1 = some d ∧
    ∀ compl, ComplOK compl → ComplPure compl →
      neededImport compl (suppLevels 2 d.nodes) 2 (exportS false id 2 exR exRoots).2 d = 0 :=
  needed_same_manager id (fun _ => List.Perm.refl _) 2 exR exRoots exRoots exR_rcinv exR_ok
    exR_unique exR_nored exR_roots

example : ∃ d, (exportS false id 2 exR exRoots).1 = some d ∧
    neededImport complId (suppLevels 2 d.nodes) 2 RSt.empty d = d.nodes.length := by
  obtain ⟨d, hd, h⟩ := needed_fresh_empty id (fun _ => List.Perm.refl _) 2 exR exRoots exR_ok
    exR_unique exR_nored exR_roots
  exact ⟨d, hd, (h complId complId_ok complId_pure RSt.empty [] (rcinv_of_rcInvB (by decide +kernel))
    (fun j => by simp [RSt.empty, Store.get?])).1⟩

end OxiddModel.Dddmp.C14I
