import OxiddModel.Dddmp.ImportCapC

/-!
# C14 / C15 — a DDDMP import into a BCDD manager under a node capacity (binary mode)

The BCDD counterpart of `PropertiesC14Import.lean`, on `StoreSC.importSC` (`import_bin` on the
complement-edge counter store). `neededImportC` is the growth of the capacity-free import
`importUC`; no capacity in its definition. For all stores, counter arrays, caches, files, root
lists, level maps, capacities and counter-only callbacks (`not_edge_owned` of BCDD — a tag flip —
and the identity):

* (c) `importC_oom_iff_needed`, `importC_threshold_exact`, `importC_success_iff_free`;
* (b) `importC_monotone`; (d) `importC_success_is_uncapped`, `importC_other_failure_is_uncapped`;
* (a, counters) `importC_failure_rc`: after any failure `RcInv` for the caller's unchanged
  reference list (from `StoreSC.importSC_rc`).
-/
namespace OxiddModel.Dddmp.C14IC
open OxiddModel.Bcdd OxiddModel.Bcdd.Refine OxiddModel.Bcdd.Rc
open OxiddModel.Dddmp OxiddModel.Dddmp.StoreSC OxiddModel.Dddmp.ImportCapC

/-- slots the BCDD import takes when nothing stops it -/
def neededImportC (compl : ComplC) (slm : List Nat) (nvars : Nat) (r : RStC) (d : Diagram) : Nat :=
  (importUC compl slm nvars r d).2.st.store.count - r.st.store.count

section
variable {compl : ComplC} (hp : ComplPureC compl) (slm : List Nat) (nvars : Nat) (r : RStC) (d : Diagram)
include hp

theorem importUC_count_eq :
    (importUC compl slm nvars r d).2.st.store.count = r.st.store.count + neededImportC compl slm nvars r d := by
  have := (importC_thr 0 hp slm nvars r d).2.2
  unfold neededImportC; omega

theorem fitsC_iff (cap : Nat) :
    Fits cap r.st.store (importUC compl slm nvars r d).2.st.store ↔
      ¬ (0 < neededImportC compl slm nvars r d ∧ cap < r.st.store.count + neededImportC compl slm nvars r d) := by
  have := importUC_count_eq hp slm nvars r d
  unfold Fits; omega

/-- **(c)** OutOfMemory iff the import allocates at all and the capacity is below
`count + needed` (or the capacity-free import itself reports it: impossible for `not_edge_owned`
of BCDD, which cannot fail). No hypothesis on store, file or capacity. -/
theorem importC_oom_iff_needed (cap : Nat) :
    (importCappedC cap compl slm nvars r d).1 = .fail .oom ↔
      (0 < neededImportC compl slm nvars r d ∧ cap < r.st.store.count + neededImportC compl slm nvars r d) ∨
      (importUC compl slm nvars r d).1 = .fail .oom := by
  obtain ⟨h1, h2, _⟩ := importC_thr cap hp slm nvars r d
  rw [fitsC_iff hp] at h1 h2
  constructor
  · intro h
    by_cases hn : 0 < neededImportC compl slm nvars r d ∧ cap < r.st.store.count + neededImportC compl slm nvars r d
    · exact .inl hn
    · right; rw [← h1 hn]; exact h
  · rintro (hn | hU)
    · exact h2 (fun h => h hn)
    · by_cases hn : 0 < neededImportC compl slm nvars r d ∧ cap < r.st.store.count + neededImportC compl slm nvars r d
      · exact h2 (fun h => h hn)
      · rw [h1 hn]; exact hU

/-- **(c)** `count + needed` is the minimal capacity -/
theorem importC_threshold_exact :
    let k := r.st.store.count + neededImportC compl slm nvars r d
    (∀ cap, r.st.store.count ≤ cap → cap < k → (importCappedC cap compl slm nvars r d).1 = .fail .oom) ∧
    (∀ cap, k ≤ cap → importCappedC cap compl slm nvars r d = importUC compl slm nvars r d) := by
  intro k
  constructor
  · intro cap hc hk
    exact (importC_thr cap hp slm nvars r d).2.1 (by rw [fitsC_iff hp]; intro h; apply h; omega)
  · intro cap hk
    exact (importC_thr cap hp slm nvars r d).1 (by rw [fitsC_iff hp]; omega)

/-- **(d)** a successful capped import is the capacity-free import -/
theorem importC_success_is_uncapped (cap : Nat) (roots : List EdgeC)
    (h : (importCappedC cap compl slm nvars r d).1 = .ok roots) :
    importCappedC cap compl slm nvars r d = importUC compl slm nvars r d := by
  obtain ⟨h1, h2, _⟩ := importC_thr cap hp slm nvars r d
  by_cases hf : Fits cap r.st.store (importUC compl slm nvars r d).2.st.store
  · exact h1 hf
  · rw [h2 hf] at h; cases h

theorem importC_other_failure_is_uncapped (cap : Nat) (e : Err) (he : e ≠ .oom)
    (h : (importCappedC cap compl slm nvars r d).1 = .fail e) :
    importCappedC cap compl slm nvars r d = importUC compl slm nvars r d := by
  obtain ⟨h1, h2, _⟩ := importC_thr cap hp slm nvars r d
  by_cases hf : Fits cap r.st.store (importUC compl slm nvars r d).2.st.store
  · exact h1 hf
  · rw [h2 hf] at h; cases h; exact absurd rfl he

/-- **(b)** monotone in the capacity, same result and same final state -/
theorem importC_monotone (cap cap' : Nat) (hc : cap ≤ cap') (roots : List EdgeC)
    (h : (importCappedC cap compl slm nvars r d).1 = .ok roots) :
    importCappedC cap' compl slm nvars r d = importCappedC cap compl slm nvars r d := by
  rw [importC_success_is_uncapped hp slm nvars r d cap roots h]
  obtain ⟨h1, h2, _⟩ := importC_thr cap hp slm nvars r d
  have hf : Fits cap r.st.store (importUC compl slm nvars r d).2.st.store := by
    by_cases hf : Fits cap r.st.store (importUC compl slm nvars r d).2.st.store
    · exact hf
    · rw [h2 hf] at h; cases h
  exact (importC_thr cap' hp slm nvars r d).1 (by unfold Fits at hf ⊢; omega)

/-- **(c)** for an accepted file and a store within its capacity: success iff `needed ≤ free` -/
theorem importC_success_iff_free (cap : Nat) (hc : r.st.store.count ≤ cap) (roots : List EdgeC)
    (hU : (importUC compl slm nvars r d).1 = .ok roots) :
    (importCappedC cap compl slm nvars r d).1 = .ok roots ↔
      neededImportC compl slm nvars r d ≤ cap - r.st.store.count := by
  obtain ⟨h1, h2, _⟩ := importC_thr cap hp slm nvars r d
  rw [fitsC_iff hp] at h1 h2
  constructor
  · intro h
    by_cases hn : 0 < neededImportC compl slm nvars r d ∧ cap < r.st.store.count + neededImportC compl slm nvars r d
    · rw [h2 (fun h => h hn)] at h; cases h
    · omega
  · intro h
    rw [h1 (by omega)]; exact hU

end


/-! ## the capacity-free import never reports OutOfMemory when the callback cannot fail -/

def ComplTotalC (compl : ComplC) : Prop := ∀ r e, (compl r e).1 ≠ none

theorem complIdC_total : ComplTotalC complIdC := fun _ _ h => by cases h
theorem complNotC_total : ComplTotalC complNotC := fun _ _ h => by cases h

theorem rootLoopC_not_oom {compl : ComplC} (ht : ComplTotalC compl) (table : List EdgeC) :
    ∀ (cs : List Int) (r : RStC) (acc : List EdgeC), (rootLoopC compl table r acc cs).1 ≠ .error .oom := by
  intro cs
  induction cs with
  | nil => intro r acc h; cases h
  | cons c cs ih =>
    intro r acc
    simp only [rootLoopC]
    split
    · intro h; cases h
    · split
      · rename_i r2 hcm
        split at hcm
        · cases hcm
        · exact absurd (congrArg Prod.fst hcm) (ht _ _)
      · exact ih _ _

theorem finishUC_not_oom (r3 : RStC) (level : Nat) (t e : EdgeC) :
    ((match mkNodeUC r3 level t e with
      | (some x, r4) => (.ok x, r4)
      | (none, r4) => (.error .oom, r4) : Step EdgeC × RStC)).1 ≠ .error .oom := by
  have := mkNodeUC_total r3 level t e
  generalize mkNodeUC r3 level t e = M at this
  obtain ⟨o, r4⟩ := M
  cases o with
  | none => exact absurd rfl this
  | some x => intro h; cases h

theorem nodeStepUC_not_oom {compl : ComplC} (ht : ComplTotalC compl) (slm supp : List Nat) (nodeId : Nat)
    (table : List EdgeC) (r : RStC) (n : SNode) :
    (nodeStepGC mkNodeUC compl slm supp nodeId table r n).1 ≠ .error .oom := by
  unfold nodeStepGC
  split
  · split
    · intro h; cases h
    · split
      · intro h; cases h
      · simp only
        split
        · intro h; cases h
        · split
          · intro h; cases h
          · split
            · rename_i r3 hcm
              split at hcm
              · exact absurd (congrArg Prod.fst hcm) (ht _ _)
              · cases hcm
            · split
              · intro h; cases h
              · split
                · intro h; cases h
                · exact finishUC_not_oom _ _ _ _
  · intro h; cases h

theorem nodeLoopUC_not_oom {compl : ComplC} (ht : ComplTotalC compl) (slm supp : List Nat) :
    ∀ (ns : List SNode) (r : RStC) (table : List EdgeC),
      (nodeLoopGC mkNodeUC compl slm supp r table ns).1 ≠ .error .oom := by
  intro ns
  induction ns with
  | nil => intro r table h; cases h
  | cons n ns ih =>
    intro r table
    simp only [nodeLoopGC]
    have hs := nodeStepUC_not_oom ht slm supp (table.length + 1) table r n
    generalize nodeStepGC mkNodeUC compl slm supp (table.length + 1) table r n = S at hs
    obtain ⟨o, r'⟩ := S
    cases o with
    | error e => intro h; apply hs; simp only at h ⊢; injection h with h1; rw [h1]
    | ok x => exact ih _ _

/-- with a callback that cannot fail the capacity-free BCDD import never reports OutOfMemory -/
theorem importUC_never_oom {compl : ComplC} (ht : ComplTotalC compl) (slm : List Nat) (nvars : Nat)
    (r : RStC) (d : Diagram) : (importUC compl slm nvars r d).1 ≠ .fail .oom := by
  unfold importUC importGC
  split
  · intro h; cases h
  · have hn := nodeLoopUC_not_oom ht slm (suppLevels nvars d.nodes) d.nodes r (termTable d.terms)
    generalize nodeLoopGC mkNodeUC compl slm (suppLevels nvars d.nodes) r (termTable d.terms) d.nodes = L at hn
    obtain ⟨o, r'⟩ := L
    cases o with
    | error e => intro h; apply hn; simp only at h ⊢; injection h with h1; rw [h1]
    | ok table =>
      simp only
      have hr := rootLoopC_not_oom ht table d.roots r' []
      generalize rootLoopC compl table r' [] d.roots = RL at hr
      obtain ⟨o2, r2⟩ := RL
      cases o2 with
      | error e => intro h; apply hr; simp only at h ⊢; injection h with h1; rw [h1]
      | ok roots => intro h; cases h

/-- **the pure threshold for `not_edge_owned` of BCDD** (what the BCDD importer is given) -/
theorem importC_oom_iff_needed_not (slm : List Nat) (nvars : Nat) (r : RStC) (d : Diagram) (cap : Nat) :
    (importCappedC cap complNotC slm nvars r d).1 = .fail .oom ↔
      0 < neededImportC complNotC slm nvars r d ∧
        cap < r.st.store.count + neededImportC complNotC slm nvars r d := by
  rw [importC_oom_iff_needed complNotC_pure]
  constructor
  · rintro (h | h)
    · exact h
    · exact absurd h (importUC_never_oom complNotC_total slm nvars r d)
  · exact .inl

/-- **(a), counters.** After any failed import the counters are exact for the caller's unchanged
reference list: every clone made for children, table and roots has been released exactly once. -/
theorem importC_failure_rc {compl : ComplC} (hc : ComplOKC compl) (cap : Nat) (slm : List Nat)
    (nvars : Nat) (r : RStC) (d : Diagram) (ext : List EdgeC) (hi : RcInv r ext) (e : Err)
    (herr : (importCappedC cap compl slm nvars r d).1 = .fail e) :
    RcInv (importCappedC cap compl slm nvars r d).2 ext := by
  have hrc := importSC_rc (cfg := ⟨cap, compl, slm⟩) hc nvars r d ext hi
  show RcInv (importSC ⟨cap, compl, slm⟩ nvars r d).2 ext
  have herr' : (importSC ⟨cap, compl, slm⟩ nvars r d).1 = .fail e := herr
  generalize importSC ⟨cap, compl, slm⟩ nvars r d = R at hrc herr'
  obtain ⟨o, r2⟩ := R
  simp only at herr'
  subst herr'
  exact hrc

/-! ## non-vacuity (`StoreSC.exDiagram`: three nodes with complemented else edges, a complemented
root; `exSmall` holds `x2`) -/

/-- into the empty manager `needed = 3`: capacities 0 and 2 fail, 3 succeeds; into `exSmall`
`needed = 2`: capacity 2 fails, 3 succeeds -/
example : neededImportC complNotC [0, 1, 2] 3 RStC.empty exDiagram = 3 ∧
    (importCappedC 0 complNotC [0, 1, 2] 3 RStC.empty exDiagram).1 = .fail .oom ∧
    (importCappedC 2 complNotC [0, 1, 2] 3 RStC.empty exDiagram).1 = .fail .oom ∧
    (importCappedC 3 complNotC [0, 1, 2] 3 RStC.empty exDiagram).1 = .ok exRoots ∧
    neededImportC complNotC [0, 1, 2] 3 exSmall exDiagram = 2 ∧
    (importCappedC 2 complNotC [0, 1, 2] 3 exSmall exDiagram).1 = .fail .oom ∧
    (importCappedC 3 complNotC [0, 1, 2] 3 exSmall exDiagram).1 = .ok exRoots := by
  decide +kernel

end OxiddModel.Dddmp.C14IC
