import OxiddModel.Dddmp.Model

/-!
# C15 — three off-by-one variants of importer guards that cannot change the behaviour

A mutation campaign reported three surviving mutants of `crates/oxidd-dump/src/dddmp/import.rs`.
On the byte-level model each of them is *equal* to the original — the guards are shadowed by a
second check or by a normalisation directly behind them, so no input can tell the variants apart:

* line 784 `Code::AbsoluteID if vid >= suppvar_level_map.len()` → `>`: with `vid = len` the next
  statement `suppvar_level_map.get(vid)` (line 802) returns `None` and the same error is raised
  (`guard784_step_eq`, `guard784_loop_eq`);
* line 670 `if child < 0` → `<=`: the branch is only reached when `children.contains(&0)` is false
  (line 638), so no child is `0` (`guard670_children_eq`, `guard670_line_eq`);
* line 87 `&line[p + 1..]` → `&line[p + 0..]`: the value is only ever used as `trim(value)`
  (line 90), and the extra first byte is the blank / tab found by `memchr2`
  (`guard87_value_eq`); the same holds for the two `pos + 1` of `import_ascii` (lines 609, 621:
  `trim_start` resp. the blank skipping of `parse_edge_list`, `sep_kept_trimStart`,
  `sep_kept_parseEdgeList`) and for `root > 0` → `>=` in `import` (line 558: `.rootids` entries
  are non-zero after `DumpHeader::load`, `guard558_roots_eq`).
-/
namespace OxiddModel.Dddmp

/-! ## line 784 -/

/-- `resolveVid` with the guard of line 784 weakened to `vid > len` -/
def resolveVidGt (varCode : Code) (vid minLevel : Nat) (lsm slm : List Nat) : Res Nat :=
  if varCode = .absoluteID then
    if vid > slm.length then .err else .ok vid
  else
    let childMin : Res Nat :=
      if minLevel = levelMax then .ok lsm.length
      else match lsm[minLevel]? with
        | some v => .ok v
        | none => .panic
    match childMin with
    | .ok c =>
      if c < vid then .err else .ok (c - vid)
    | .err => .err
    | .panic => .panic

/-- what `import_bin` does with the resolved variable index (lines 802–817) -/
def afterVid {E : Type} (g : Guards) (A : Alg E) (slm : List Nat) (t e : E) (inp : List Nat) (r : Res Nat) :
    Res (E × List Nat) :=
  match r with
  | .err => .err
  | .panic => .panic
  | .ok vid =>
    match slm[vid]? with
    | none => if g.relVar then .err else .panic
    | some level =>
      if level ≥ A.level t || level ≥ A.level e then .err
      else .ok (A.reduce level [t, e], inp)

/-- one iteration of the node loop with the weakened guard (copy of `importBinStep`) -/
def importBinStepGt {E : Type} (g : Guards) (A : Alg E) (terminal : E) (lsm slm : List Nat)
    (nodeId : Nat) (nodes : List E) (inp : List Nat) : Res (E × List Nat) :=
  match readUnescape inp with
  | .err => .err
  | .panic => .panic
  | .ok (code, inp) =>
    let varCode := (decodeNodeCode code).1
    let tCode := (decodeNodeCode code).2.1
    let eCompl := (decodeNodeCode code).2.2.1
    let eCode := (decodeNodeCode code).2.2.2
    if varCode = .terminal then .ok (terminal, inp)
    else
      match (if varCode.hasArg then decode7 inp else .ok (1, inp)) with
      | .err => .err
      | .panic => .panic
      | .ok (vid, inp) =>
        match readIdx g inp nodeId tCode with
        | .err => .err
        | .panic => .panic
        | .ok (ti, inp) =>
          match nodes[ti]? with
          | none => .panic
          | some t =>
            match readIdx g inp nodeId eCode with
            | .err => .err
            | .panic => .panic
            | .ok (ei, inp) =>
              match nodes[ei]? with
              | none => .panic
              | some e0 =>
                let e := if eCompl then A.complement e0 else e0
                afterVid g A slm t e inp (resolveVidGt varCode vid (min (A.level t) (A.level e)) lsm slm)

theorem afterVid_resolveVidGt {E : Type} (g : Guards) (hg : g.relVar = true) (A : Alg E) (slm lsm : List Nat)
    (t e : E) (inp : List Nat) (c : Code) (vid ml : Nat) :
    afterVid g A slm t e inp (resolveVidGt c vid ml lsm slm) = afterVid g A slm t e inp (resolveVid c vid ml lsm slm) := by
  unfold resolveVidGt resolveVid
  by_cases hc : c = .absoluteID
  · simp only [hc, if_true]
    by_cases h1 : vid > slm.length
    · have h2 : vid ≥ slm.length := Nat.le_of_lt h1
      simp only [h1, h2, if_true]
    · by_cases h2 : vid ≥ slm.length
      · -- the boundary: vid = len; `get(vid)` is `None`
        have h3 : vid = slm.length := Nat.le_antisymm (Nat.le_of_not_lt h1) h2
        have h4 : slm[vid]? = none := by rw [h3]; exact List.getElem?_eq_none (Nat.le_refl _)
        simp only [h1, h2, if_true, if_false, afterVid, h4, hg]
      · simp only [h1, h2, if_false]
  · simp only [hc, if_false]
    try rfl

/-- the original step written with `afterVid` -/
theorem importBinStep_afterVid {E : Type} (g : Guards) (A : Alg E) (terminal : E) (lsm slm : List Nat)
    (nodeId : Nat) (nodes : List E) (inp : List Nat) :
    importBinStep g A terminal lsm slm nodeId nodes inp =
      (match readUnescape inp with
      | .err => .err
      | .panic => .panic
      | .ok (code, inp) =>
        if (decodeNodeCode code).1 = .terminal then .ok (terminal, inp)
        else
          match (if (decodeNodeCode code).1.hasArg then decode7 inp else .ok (1, inp)) with
          | .err => .err
          | .panic => .panic
          | .ok (vid, inp) =>
            match readIdx g inp nodeId (decodeNodeCode code).2.1 with
            | .err => .err
            | .panic => .panic
            | .ok (ti, inp) =>
              match nodes[ti]? with
              | none => .panic
              | some t =>
                match readIdx g inp nodeId (decodeNodeCode code).2.2.2 with
                | .err => .err
                | .panic => .panic
                | .ok (ei, inp) =>
                  match nodes[ei]? with
                  | none => .panic
                  | some e0 =>
                    afterVid g A slm t (if (decodeNodeCode code).2.2.1 then A.complement e0 else e0) inp
                      (resolveVid (decodeNodeCode code).1 vid
                        (min (A.level t) (A.level (if (decodeNodeCode code).2.2.1 then A.complement e0 else e0))) lsm slm)) := by
  unfold importBinStep afterVid
  repeat (first | rfl | split)

/-- **Line 784, `>=` → `>`: the same result on every input** (one node record). -/
theorem guard784_step_eq {E : Type} (g : Guards) (hg : g.relVar = true) (A : Alg E) (terminal : E) (lsm slm : List Nat)
    (nodeId : Nat) (nodes : List E) (inp : List Nat) :
    importBinStepGt g A terminal lsm slm nodeId nodes inp = importBinStep g A terminal lsm slm nodeId nodes inp := by
  rw [importBinStep_afterVid]
  unfold importBinStepGt
  simp only [afterVid_resolveVidGt g hg]

/-- the node loop over the weakened step -/
def importBinLoopGt {E : Type} (g : Guards) (A : Alg E) (terminal : E) (lsm slm : List Nat) :
    (remaining : Nat) → (nodeId : Nat) → (nodes : List E) → (inp : List Nat) → Res (List E × List Nat)
  | 0, _, nodes, inp => .ok (nodes, inp)
  | k + 1, nodeId, nodes, inp =>
    match importBinStepGt g A terminal lsm slm nodeId nodes inp with
    | .err => .err
    | .panic => .panic
    | .ok (e, inp) => importBinLoopGt g A terminal lsm slm k (nodeId + 1) (nodes ++ [e]) inp

/-- **Line 784, whole node section**: for every number of nodes and every byte sequence. -/
theorem guard784_loop_eq {E : Type} (g : Guards) (hg : g.relVar = true) (A : Alg E) (terminal : E) (lsm slm : List Nat)
    (k nodeId : Nat) (nodes : List E) (inp : List Nat) :
    importBinLoopGt g A terminal lsm slm k nodeId nodes inp = importBinLoop g A terminal lsm slm k nodeId nodes inp := by
  induction k generalizing nodeId nodes inp with
  | zero => rfl
  | succ k ih =>
    unfold importBinLoopGt importBinLoop
    rw [guard784_step_eq g hg]
    cases importBinStep g A terminal lsm slm nodeId nodes inp with
    | err => rfl
    | panic => rfl
    | ok p =>
      obtain ⟨e, inp'⟩ := p
      exact ih _ _ _

/-- non-vacuity: the boundary input itself (absolute variable id 4 with 4 support variables) is
rejected by both, a smaller id is accepted by both -/
example : resolveVid .absoluteID 4 0 [0, 1, 2, 3] [0, 1, 2, 3] = .err ∧
    resolveVidGt .absoluteID 4 0 [0, 1, 2, 3] [0, 1, 2, 3] = .ok 4 ∧
    ([0, 1, 2, 3] : List Nat)[4]? = none ∧
    resolveVidGt .absoluteID 3 0 [0, 1, 2, 3] [0, 1, 2, 3] = .ok 3 := by decide

/-! ## line 670 -/

/-- `asciiChildren` with `child <= 0` as the complement test -/
def asciiChildrenLe {E : Type} (A : Alg E) (level nodeId : Nat) (nodes : List E) : List Int → Res (List E)
  | [] => .ok []
  | c :: cs =>
    let child := c.natAbs
    if child ≥ nodeId then .err
    else match nodes[child - 1]? with
      | none => .panic
      | some ce0 =>
        let ce := if c ≤ 0 then A.complement ce0 else ce0
        if level ≥ A.level ce then .err
        else match asciiChildrenLe A level nodeId nodes cs with
          | .ok es => .ok (ce :: es)
          | .err => .err
          | .panic => .panic

/-- **Line 670, `<` → `<=`**: equal on every child list without a `0` — and `import_ascii` takes the
inner-node branch only if `children.contains(&0)` is false. -/
theorem guard670_children_eq {E : Type} (A : Alg E) (level nodeId : Nat) (nodes : List E) (cs : List Int)
    (h : cs.contains 0 = false) :
    asciiChildrenLe A level nodeId nodes cs = asciiChildren A level nodeId nodes cs := by
  induction cs with
  | nil => rfl
  | cons c cs ih =>
    have hc : c ≠ 0 := by
      intro h0; subst h0; simp at h
    have hcs : cs.contains 0 = false := by
      cases hh : cs.contains 0 with
      | false => rfl
      | true =>
        have : (c :: cs).contains 0 = true := by
          simp only [List.contains_cons, hh, Bool.or_true]
        rw [this] at h; cases h
    unfold asciiChildrenLe asciiChildren
    rw [ih hcs]
    by_cases h1 : c < 0
    · have h2 : c ≤ 0 := by omega
      simp only [h1, h2, if_true]
      all_goals rfl
    · have h2 : ¬ c ≤ 0 := by omega
      simp only [h1, h2, if_false]
      all_goals rfl

/-- `importAsciiLine` with the per-child function as a parameter (copy of `importAsciiLine`) -/
def importAsciiLineWith {E : Type} (ch : Alg E → Nat → Nat → List E → List Int → Res (List E))
    (A : Alg E) (varinfo : Nat) (slm : List Nat) (nodeId : Nat) (nodes : List E)
    (ln : List Nat) : Res E :=
  match parseUnsigned (usize64 - 1) ln with
  | .err => .err
  | .panic => .panic
  | .ok (idNo, rest) =>
    if idNo ≠ nodeId then .err else
    match (if varinfo ≠ 4 then
        (match splitBlank (trimStart rest) with
        | some (_, r) => Res.ok r
        | none => Res.err)
      else Res.ok (trimStart rest)) with
    | .err => .err
    | .panic => .panic
    | .ok rest =>
      match splitBlank (trimStart rest) with
      | none => .err
      | some (varId, rest) =>
        match parseEdgeList rest with
        | .err => .err
        | .panic => .panic
        | .ok children =>
          if children.length ≠ A.arity then .err
          else if children.contains 0 then
            if utf8Lossy varId ≠ varId then .err else
            match A.parseTerminal varId with
            | none => .err
            | some t => .ok t
          else
            match parseUnsigned u32Max varId with
            | .err => .err
            | .panic => .panic
            | .ok (var, _) =>
              match slm[var]? with
              | none => .err
              | some level =>
                match ch A level nodeId nodes children with
                | .err => .err
                | .panic => .panic
                | .ok es => .ok (A.reduce level es)

/-- the copy is the model's node-line function -/
theorem importAsciiLine_eq_with {E : Type} (A : Alg E) (varinfo : Nat) (slm : List Nat) (nodeId : Nat) (nodes : List E)
    (ln : List Nat) :
    importAsciiLine A varinfo slm nodeId nodes ln = importAsciiLineWith asciiChildren A varinfo slm nodeId nodes ln := by
  unfold importAsciiLine importAsciiLineWith
  rfl

/-- **Line 670 on a whole node line**: the same result for every line. -/
theorem guard670_line_eq {E : Type} (A : Alg E) (varinfo : Nat) (slm : List Nat) (nodeId : Nat) (nodes : List E)
    (ln : List Nat) :
    importAsciiLineWith asciiChildrenLe A varinfo slm nodeId nodes ln = importAsciiLine A varinfo slm nodeId nodes ln := by
  rw [importAsciiLine_eq_with]
  unfold importAsciiLineWith
  repeat (first | rfl | split)
  all_goals simp_all [guard670_children_eq]

example : asciiChildrenLe (E := Nat) ⟨fun e => e, fun e => e + 100, fun _ _ => 0, fun _ => none, 2⟩ 0 3 [7, 8] [-1, 2]
    = .ok [107, 8] := by decide

/-! ## line 87 (and 609, 621): a kept separator is trimmed away -/

/-- `splitBlank` with the separator left in front of the value (`&line[p + 0..]`) -/
def splitBlankKeep (s : List Nat) : Option (List Nat × List Nat) :=
  let pre := s.takeWhile (fun b => !isBlank b)
  if pre.length < s.length then some (pre, s.drop pre.length) else none

theorem drop_takeWhile_length {α : Type} (p : α → Bool) (s : List α) :
    s.drop (s.takeWhile p).length = s.dropWhile p := by
  induction s with
  | nil => rfl
  | cons a r ih =>
    cases h : p a with
    | true => simp only [List.takeWhile_cons, h, if_true, List.length_cons, List.drop_succ_cons, List.dropWhile_cons, ih]
    | false => simp [h]

theorem dropWhile_head_not {α : Type} (p : α → Bool) (s : List α) (b : α) (r : List α)
    (h : s.dropWhile p = b :: r) : p b = false := by
  induction s with
  | nil => simp at h
  | cons a t ih =>
    cases hp : p a with
    | true =>
      rw [List.dropWhile_cons, hp] at h
      exact ih h
    | false =>
      rw [List.dropWhile_cons, hp] at h
      simp only [Bool.false_eq_true, if_false, List.cons.injEq] at h
      rw [← h.1]; exact hp

/-- the kept byte is the blank / tab that ended the key -/
theorem splitBlankKeep_spec (s : List Nat) :
    (splitBlank s = none ∧ splitBlankKeep s = none) ∨
    ∃ k v b, isBlank b = true ∧ splitBlank s = some (k, v) ∧ splitBlankKeep s = some (k, b :: v) := by
  by_cases h : (s.takeWhile (fun b => !isBlank b)).length < s.length
  · right
    have hd := drop_takeWhile_length (fun b => !isBlank b) s
    cases hdw : s.dropWhile (fun b => !isBlank b) with
    | nil =>
      have := congrArg List.length hd
      rw [hdw, List.length_drop] at this
      simp only [List.length_nil] at this
      omega
    | cons b r =>
      have hb : (!isBlank b) = false := dropWhile_head_not (fun b => !isBlank b) s b r hdw
      have hb' : isBlank b = true := by
        cases hh : isBlank b with
        | true => rfl
        | false => rw [hh] at hb; cases hb
      have h1 : s.drop ((s.takeWhile (fun b => !isBlank b)).length + 1) = r := by
        rw [← List.drop_drop, hd, hdw]; rfl
      refine ⟨s.takeWhile (fun b => !isBlank b), r, b, hb', ?_, ?_⟩
      · unfold splitBlank
        simp only [h, if_true, h1]
      · unfold splitBlankKeep
        simp only [h, if_true, hd, hdw]
  · left
    constructor
    · unfold splitBlank; simp only [h, if_false]
    · unfold splitBlankKeep; simp only [h, if_false]

theorem sep_kept_trimStart (b : Nat) (hb : isBlank b = true) (v : List Nat) : trimStart (b :: v) = trimStart v := by
  simp only [trimStart, hb, if_true]

theorem sep_kept_trim (b : Nat) (hb : isBlank b = true) (v : List Nat) : trim (b :: v) = trim v := by
  unfold trim; rw [sep_kept_trimStart b hb]

/-- **Line 87, `p + 1` → `p + 0`**: key and trimmed value are the same for every header line. -/
theorem guard87_value_eq (s : List Nat) :
    (splitBlankKeep s).map (fun p => (p.1, trim p.2)) = (splitBlank s).map (fun p => (p.1, trim p.2)) := by
  rcases splitBlankKeep_spec s with ⟨h1, h2⟩ | ⟨k, v, b, hb, h1, h2⟩
  · rw [h1, h2]
  · rw [h1, h2]
    simp only [Option.map_some, sep_kept_trim b hb]

/-- **Line 621**: a blank in front of the child list is skipped by `parse_edge_list`. -/
theorem sep_kept_parseEdgeList (b : Nat) (hb : isBlank b = true) (v : List Nat) :
    parseEdgeList (b :: v) = parseEdgeList v := by
  have hd : isDigit b = false := by
    unfold isBlank at hb; unfold isDigit
    cases h : (b == 32) <;> simp_all <;> omega
  have h45 : b ≠ 45 := by
    unfold isBlank at hb
    intro h; subst h; simp at hb
  unfold parseEdgeList
  rw [parseEdgeList.go]
  simp only [hd, h45, hb, if_true, if_false, Bool.false_eq_true]

example : splitBlank [46, 105, 100, 115, 32, 48, 32, 49] = some ([46, 105, 100, 115], [48, 32, 49]) ∧
    splitBlankKeep [46, 105, 100, 115, 32, 48, 32, 49] = some ([46, 105, 100, 115], [32, 48, 32, 49]) := by decide

/-! ## line 558 -/

/-- the root loop with `root >= 0` -/
def importRootsGe {E : Type} (A : Alg E) (nodes : List E) : List Int → Res (List E)
  | [] => .ok []
  | r :: rs =>
    match nodes[r.natAbs - 1]? with
    | none => .panic
    | some e =>
      match importRootsGe A nodes rs with
      | .ok es => .ok ((if r ≥ 0 then e else A.complement e) :: es)
      | .err => .err
      | .panic => .panic

/-- **Line 558, `>` → `>=`**: equal whenever no root id is `0` (what `DumpHeader::load` checks). -/
theorem guard558_roots_eq {E : Type} (A : Alg E) (nodes : List E) (rs : List Int) (h : ∀ r ∈ rs, r ≠ 0) :
    importRootsGe A nodes rs = importRoots A nodes rs := by
  induction rs with
  | nil => rfl
  | cons r rs ih =>
    have hr : r ≠ 0 := h r (List.mem_cons_self ..)
    have hrs : ∀ x ∈ rs, x ≠ 0 := fun x hx => h x (List.mem_cons_of_mem _ hx)
    unfold importRootsGe importRoots
    rw [ih hrs]
    by_cases h1 : r > 0
    · have h2 : r ≥ 0 := by omega
      simp only [h1, h2, if_true]
      all_goals rfl
    · have h2 : ¬ r ≥ 0 := by omega
      simp only [h1, h2, if_false]
      all_goals rfl

end OxiddModel.Dddmp
