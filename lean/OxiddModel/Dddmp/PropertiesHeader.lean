import OxiddModel.Dddmp.LemmasHeaderValidate
import OxiddModel.Dddmp.LemmasAsciiRound

/-!
# C15, header of a DDDMP file: accepted headers are well-formed; malformed headers are rejected with the right class

Property text (C15): "…header metadata survives the trip… arbitrary malformed or truncated input
makes the importer return an error rather than panic or build a wrong diagram."

`parseHeaderN` (`Header.lean`) is the byte-level model of `DumpHeader::load`; it is a total function
by construction (structural recursion on fuel `= input length + 1`, `loadLinesC_fuel`: the fuel is
never the reason for a result). This file proves, for ALL inputs:

* `parseHeaderN_ok_wf`: every accepted header satisfies `HeaderOk` (each validation clause and every
  numeric bound spelled out), the rest is a suffix of the input;
* one rejection theorem per validation clause (`reject_*`), the overflow theorems
  (`parseSingleC_overflow`, `parseHeaderN_nvars_overflow`), and `missing_nnodes_no_roots`;
* `parseHeaderN_eof_of_no_nodes`-style truncation facts: the empty input is `eof`.

The byte-level round trip is in `PropertiesHeaderRound.lean`.
-/
namespace OxiddModel.Dddmp.Hdr
open OxiddModel.Dddmp
open OxiddModel.Mtbdd.TermText (valFrom valFrom_nil valFrom_cons valFrom_zero valFrom_ge isDigit_iff)

/-! ## (a) accepted headers are well-formed -/

/-- Well-formedness of a header record as `DumpHeader::load` returns it: every clause of the
validation and every bound the integer parsers enforce. Decidable. -/
structure HeaderOk (h : Header) : Prop where
  varinfo : h.varinfo ≤ 4
  nnodes : h.nnodes < usize64
  nvars : h.nvars ≤ u32Max
  nsupp : h.ids.length ≤ h.nvars
  permLen : h.permids.length = h.ids.length
  auxLen : h.auxids = [] ∨ h.auxids.length = h.ids.length
  auxBound : ∀ x ∈ h.auxids, x ≤ u32Max
  idsAsc : isStrictlyAscending h.ids = true
  idsLt : ∀ v ∈ h.ids, v < h.nvars
  permLt : ∀ l ∈ h.permids, l < h.nvars
  permNodup : h.permids.Nodup
  order : h.supportVarOrder = svoOf h.ids h.permids
  varnames : h.varnames = [] ∨ h.varnames.length = h.nvars
  nroots : h.rootids.length < usize64
  roots : ∀ r ∈ h.rootids, r ≠ 0 ∧ r.natAbs ≤ h.nnodes ∧ r.natAbs ≤ isizeMax
  rootnames : h.rootnames = [] ∨ h.rootnames.length = h.rootids.length
  lines : 1 ≤ h.lines

/-- the same as a Boolean (for `decide` on concrete headers) -/
def headerOkB (h : Header) : Bool :=
  decide (h.varinfo ≤ 4) && decide (h.nnodes < usize64) && decide (h.nvars ≤ u32Max)
    && decide (h.ids.length ≤ h.nvars) && decide (h.permids.length = h.ids.length)
    && decide (h.auxids = [] ∨ h.auxids.length = h.ids.length) && h.auxids.all (· ≤ u32Max)
    && isStrictlyAscending h.ids && h.ids.all (· < h.nvars) && h.permids.all (· < h.nvars)
    && decide h.permids.Nodup && decide (h.supportVarOrder = svoOf h.ids h.permids)
    && decide (h.varnames = [] ∨ h.varnames.length = h.nvars) && decide (h.rootids.length < usize64)
    && h.rootids.all (fun r => decide (r ≠ 0) && decide (r.natAbs ≤ h.nnodes) && decide (r.natAbs ≤ isizeMax))
    && decide (h.rootnames = [] ∨ h.rootnames.length = h.rootids.length) && decide (1 ≤ h.lines)

theorem headerOk_of_B {h : Header} (hb : headerOkB h = true) : HeaderOk h := by
  unfold headerOkB at hb
  simp only [Bool.and_eq_true, decide_eq_true_eq, List.all_eq_true] at hb
  obtain ⟨⟨⟨⟨⟨⟨⟨⟨⟨⟨⟨⟨⟨⟨⟨⟨h1, h2⟩, h3⟩, h4⟩, h5⟩, h6⟩, h7⟩, h8⟩, h9⟩, h10⟩, h11⟩, h12⟩, h13⟩, h14⟩, h15⟩, h16⟩, h17⟩ := hb
  exact ⟨h1, h2, h3, h4, h5, h6, h7, h8, h9, h10, h11, h12, h13, h14,
    fun r hr => by have := h15 r hr; exact ⟨this.1.1, this.1.2, this.2⟩, h16, h17⟩

instance (h : Header) : Decidable (HeaderOk h) :=
  if hb : headerOkB h = true then isTrue (headerOk_of_B hb)
  else isFalse (by
    intro ok
    apply hb
    unfold headerOkB
    simp only [Bool.and_eq_true, decide_eq_true_eq, List.all_eq_true]
    exact ⟨⟨⟨⟨⟨⟨⟨⟨⟨⟨⟨⟨⟨⟨⟨⟨ok.varinfo, ok.nnodes⟩, ok.nvars⟩, ok.nsupp⟩, ok.permLen⟩, ok.auxLen⟩, ok.auxBound⟩,
      ok.idsAsc⟩, ok.idsLt⟩, ok.permLt⟩, ok.permNodup⟩, ok.order⟩, ok.varnames⟩, ok.nroots⟩,
      fun r hr => by have := ok.roots r hr; exact ⟨⟨this.1, this.2.1⟩, this.2.2⟩⟩, ok.rootnames⟩, ok.lines⟩)

/-- the header returned for a valid accumulator is well-formed -/
theorem finish_ok {acc : HdrAcc} {n : Nat} {vn : List (List Nat)} (v : Valid acc) (b : AccBounds acc)
    (hn : namesC acc.h acc.suppvarnames acc.orderedvarnames = .ok vn) (hl : 1 ≤ n) :
    HeaderOk (finish acc.h n vn) := by
  obtain ⟨b1, b2, b3, b4, b5, b6, b7⟩ := b
  have hperm := permCheck_none acc.h.nvars acc.h.permids [] v.perm
  have hroots := rootCheck_none acc.h.nnodes acc.h.rootids v.roots
  have hasc : isStrictlyAscending acc.h.ids = true := by
    rcases v.idsAsc with h | h
    · rw [h]; rfl
    · exact h
  refine ⟨b1, b2, b3, ?_, ?_, ?_, b7, hasc, ?_, fun l hl => (hperm.1 l hl).1, hperm.2, rfl,
    (namesC_length hn : vn = [] ∨ vn.length = acc.h.nvars), ?_, ?_, ?_, hl⟩
  · show acc.h.ids.length ≤ acc.h.nvars
    rw [v.cIds]; exact v.nsupp
  · show acc.h.permids.length = acc.h.ids.length
    rw [v.cPermids, v.cIds]
  · show acc.h.auxids = [] ∨ acc.h.auxids.length = acc.h.ids.length
    rw [v.cIds]; exact v.cAuxids
  · show ∀ x ∈ acc.h.ids, x < acc.h.nvars
    intro x hx
    have hne : acc.h.ids ≠ [] := by intro h; rw [h] at hx; cases hx
    rcases v.idsRange with h | h
    · exact absurd h hne
    · have := asc_le_getLast acc.h.ids 0 hasc x hx
      rw [getLast!_eq_getLastD _ hne] at h
      omega
  · show acc.h.rootids.length < usize64
    rw [v.cRootids]; exact b5
  · show ∀ r ∈ acc.h.rootids, r ≠ 0 ∧ r.natAbs ≤ acc.h.nnodes ∧ r.natAbs ≤ isizeMax
    intro r hr
    exact ⟨(hroots r hr).1, (hroots r hr).2, b6 r hr⟩
  · show acc.h.rootnames = [] ∨ acc.h.rootnames.length = acc.h.rootids.length
    rw [v.cRootids]; exact v.cRootnames

/-- **parseHeaderN_ok_wf.** For every input: if the reader accepts, the header it returns is
well-formed (`HeaderOk`: counts match, `.ids` strictly ascending and below `.nvars`, `.permids`
pairwise distinct and below `.nvars`, `support_var_order` is the order they define, every root id
non-zero and at most `.nnodes` in absolute value, names lists empty or of the right length, all
numbers within their Rust types), and the rest is a suffix of the input (`inp = pre ++ rest`). -/
theorem parseHeaderN_ok_wf {inp : List Nat} {h : Header} {rest : List Nat}
    (hp : parseHeaderN inp = .ok (h, rest)) : HeaderOk h ∧ ∃ pre, inp = pre ++ rest := by
  unfold parseHeaderN at hp
  cases hl : loadLinesC (inp.length + 1) {} 1 inp with
  | error e => rw [hl] at hp; cases hp
  | ok r =>
    obtain ⟨acc, n, rest'⟩ := r
    rw [hl] at hp
    simp only at hp
    cases hv : validateC acc n with
    | error e => rw [hv] at hp; cases hp
    | ok h' =>
      rw [hv] at hp
      injection hp with hp
      simp only [Prod.mk.injEq] at hp
      obtain ⟨rfl, rfl⟩ := hp
      obtain ⟨v, vn, hn, rfl⟩ := validateC_ok hv
      obtain ⟨hsuf, hn1⟩ := loadLinesC_suffix _ _ _ _ _ _ _ hl
      exact ⟨finish_ok v (loadLinesC_bounds hl) hn hn1, hsuf⟩

/-- the `List UInt8` form: accepted ⇒ well-formed, and the rest is a suffix of the input -/
theorem parseHeader_ok_wf {inp : List UInt8} {h : Header} {rest : List UInt8}
    (hp : parseHeader inp = .ok (h, rest)) : HeaderOk h ∧ ∃ pre, inp = pre ++ rest := by
  unfold parseHeader at hp
  cases hn : parseHeaderN (inp.map UInt8.toNat) with
  | error e => rw [hn] at hp; cases hp
  | ok r =>
    obtain ⟨h', rest'⟩ := r
    rw [hn] at hp
    injection hp with hp
    simp only [Prod.mk.injEq] at hp
    obtain ⟨rfl, rfl⟩ := hp
    exact ⟨(parseHeaderN_ok_wf hn).1, inp.take (inp.length - rest'.length), (List.take_append_drop _ _).symm⟩

/-- non-vacuity: a complete header with complemented root, reordered support, names -/
def exampleBytes : List Nat :=
  kVer ++ 32 :: vV2 ++ [10] ++ kMode ++ [32, 66, 13, 10] ++ kNnodes ++ [32, 53, 10] ++ kNvars ++ [9, 51, 10]
    ++ kNsuppvars ++ [32, 50, 10] ++ kIds ++ [32, 48, 32, 50, 10] ++ kPermids ++ [32, 50, 32, 32, 48, 10]
    ++ kNroots ++ [32, 50, 10] ++ kRootids ++ [32, 53, 32, 45, 52, 10] ++ kRootnames ++ [32, 102, 32, 103, 10]
    ++ kNodes ++ [10, 1, 2, 3]

def exampleHeader : Header :=
  { ascii := false, nnodes := 5, nvars := 3, ids := [0, 2], permids := [2, 0], supportVarOrder := [2, 0],
    rootids := [5, -4], rootnames := [[102], [103]], lines := 11 }

example : parseHeaderN exampleBytes = .ok (exampleHeader, [1, 2, 3]) := by decide +kernel
example : HeaderOk exampleHeader := by decide

/-! ## (c) rejection: one theorem per validation clause -/

/-- `.nsuppvars` greater than `.nvars` -/
theorem reject_nsupp {acc : HdrAcc} (n : Nat) (h : acc.nsuppvars > acc.h.nvars) :
    validateC acc n = .error .nsupp := by
  unfold validateC; rw [if_pos h]

/-- count mismatch: number of `.ids` entries ≠ `.nsuppvars` -/
theorem reject_countIds {acc : HdrAcc} (n : Nat) (h1 : acc.nsuppvars ≤ acc.h.nvars)
    (h : acc.h.ids.length ≠ acc.nsuppvars) : validateC acc n = .error .countIds := by
  unfold validateC; rw [if_neg (by omega), if_pos h]

/-- count mismatch: number of `.permids` entries ≠ `.nsuppvars` -/
theorem reject_countPermids {acc : HdrAcc} (n : Nat) (h1 : acc.nsuppvars ≤ acc.h.nvars)
    (h2 : acc.h.ids.length = acc.nsuppvars) (h : acc.h.permids.length ≠ acc.nsuppvars) :
    validateC acc n = .error .countPermids := by
  unfold validateC; rw [if_neg (by omega), if_neg (by omega), if_pos h]

/-- count mismatch: `.auxids` present with the wrong number of entries -/
theorem reject_countAuxids {acc : HdrAcc} (n : Nat) (h1 : acc.nsuppvars ≤ acc.h.nvars)
    (h2 : acc.h.ids.length = acc.nsuppvars) (h3 : acc.h.permids.length = acc.nsuppvars)
    (h : acc.h.auxids ≠ [] ∧ acc.h.auxids.length ≠ acc.nsuppvars) : validateC acc n = .error .countAuxids := by
  unfold validateC; rw [if_neg (by omega), if_neg (by omega), if_neg (by omega), if_pos h]

/-- the four count clauses in front of the `.ids` checks -/
structure Counts (acc : HdrAcc) : Prop where
  nsupp : acc.nsuppvars ≤ acc.h.nvars
  cIds : acc.h.ids.length = acc.nsuppvars
  cPermids : acc.h.permids.length = acc.nsuppvars
  cAuxids : acc.h.auxids = [] ∨ acc.h.auxids.length = acc.nsuppvars

/-- `.ids` not strictly ascending (equal neighbours included) -/
theorem reject_idsOrder {acc : HdrAcc} (n : Nat) (c : Counts acc)
    (h : isStrictlyAscending acc.h.ids = false) : validateC acc n = .error .idsOrder := by
  have hne : acc.h.ids ≠ [] := by intro h0; rw [h0] at h; cases h
  unfold validateC
  rw [if_neg (by have := c.nsupp; omega), if_neg (by have := c.cIds; omega),
    if_neg (by have := c.cPermids; omega), if_neg (or_to_not_and c.cAuxids), if_pos ⟨hne, h⟩]

/-- an entry of `.ids` is not below `.nvars` (ascending list: its last entry) -/
theorem reject_idsRange {acc : HdrAcc} (n : Nat) (c : Counts acc) (ha : isStrictlyAscending acc.h.ids = true)
    (x : Nat) (hx : x ∈ acc.h.ids) (h : x ≥ acc.h.nvars) : validateC acc n = .error .idsRange := by
  have hne : acc.h.ids ≠ [] := by intro h0; rw [h0] at hx; cases hx
  have hl := asc_le_getLast acc.h.ids 0 ha x hx
  rw [← getLast!_eq_getLastD _ hne] at hl
  unfold validateC
  rw [if_neg (by have := c.nsupp; omega), if_neg (by have := c.cIds; omega),
    if_neg (by have := c.cPermids; omega), if_neg (or_to_not_and c.cAuxids),
    if_neg (by rintro ⟨_, h2⟩; rw [ha] at h2; cases h2), if_pos ⟨hne, by omega⟩]

/-- everything in front of the `.permids` loop -/
structure BeforePerm (acc : HdrAcc) : Prop extends Counts acc where
  idsAsc : isStrictlyAscending acc.h.ids = true
  idsLt : ∀ x ∈ acc.h.ids, x < acc.h.nvars

theorem validateC_perm {acc : HdrAcc} (n : Nat) (c : BeforePerm acc) {e : HErr}
    (h : permCheck acc.h.nvars acc.h.permids [] = some e) : validateC acc n = .error e := by
  unfold validateC
  rw [if_neg (by have := c.nsupp; omega), if_neg (by have := c.cIds; omega),
    if_neg (by have := c.cPermids; omega), if_neg (or_to_not_and c.cAuxids),
    if_neg (by rintro ⟨_, h2⟩; rw [c.idsAsc] at h2; cases h2)]
  rw [if_neg (by
    rintro ⟨h1, h2⟩
    have hm : acc.h.ids.getLast! ∈ acc.h.ids := by
      cases hi : acc.h.ids with
      | nil => exact absurd hi h1
      | cons a r => exact List.getLast_mem _
    have := c.idsLt _ hm
    omega)]
  simp only [h]

theorem permCheck_dup (nvars : Nat) : ∀ (l seen : List Nat), (∀ x ∈ l, x < nvars) →
    (¬ l.Nodup ∨ ∃ x ∈ l, x ∈ seen) → permCheck nvars l seen = some .permDup := by
  intro l
  induction l with
  | nil =>
    intro seen _ h
    rcases h with h | ⟨x, hx, _⟩
    · exact absurd List.nodup_nil h
    · cases hx
  | cons a r ih =>
    intro seen hlt h
    unfold permCheck
    rw [if_neg (by have := hlt a (by simp); omega)]
    by_cases hs : seen.contains a = true
    · rw [if_pos hs]
    · rw [if_neg hs]
      have hs' : a ∉ seen := by simpa using hs
      refine ih (a :: seen) (fun x hx => hlt x (List.mem_cons_of_mem _ hx)) ?_
      rcases h with h | ⟨x, hx, hxs⟩
      · by_cases har : a ∈ r
        · exact Or.inr ⟨a, har, by simp⟩
        · left
          intro hnd
          exact h (List.nodup_cons.mpr ⟨har, hnd⟩)
      · rcases List.mem_cons.mp hx with hx | hx
        · subst hx; exact absurd hxs hs'
        · exact Or.inr ⟨x, hx, List.mem_cons_of_mem _ hxs⟩

/-- a level occurs twice in `.permids` (all levels below `.nvars`) -/
theorem reject_permDup {acc : HdrAcc} (n : Nat) (c : BeforePerm acc)
    (hlt : ∀ x ∈ acc.h.permids, x < acc.h.nvars) (h : ¬ acc.h.permids.Nodup) :
    validateC acc n = .error .permDup :=
  validateC_perm n c (permCheck_dup _ _ _ hlt (Or.inl h))

theorem permCheck_range (nvars : Nat) : ∀ (l seen : List Nat), l.Nodup → (∀ x ∈ l, x ∉ seen) →
    (∃ x ∈ l, x ≥ nvars) → permCheck nvars l seen = some .permRange := by
  intro l
  induction l with
  | nil => intro seen _ _ h; obtain ⟨x, hx, _⟩ := h; cases hx
  | cons a r ih =>
    intro seen hnd hds h
    unfold permCheck
    by_cases ha : a ≥ nvars
    · rw [if_pos ha]
    · rw [if_neg ha, if_neg (by simpa using hds a (by simp))]
      obtain ⟨hna, hnd'⟩ := List.nodup_cons.mp hnd
      refine ih (a :: seen) hnd' ?_ ?_
      · intro x hx hm
        rcases List.mem_cons.mp hm with hm | hm
        · subst hm; exact hna hx
        · exact hds x (List.mem_cons_of_mem _ hx) hm
      · obtain ⟨x, hx, hge⟩ := h
        rcases List.mem_cons.mp hx with hx | hx
        · subst hx; exact absurd hge ha
        · exact ⟨x, hx, hge⟩

/-- a level in `.permids` is not below `.nvars` (levels pairwise distinct) -/
theorem reject_permRange {acc : HdrAcc} (n : Nat) (c : BeforePerm acc) (hnd : acc.h.permids.Nodup)
    (x : Nat) (hx : x ∈ acc.h.permids) (h : x ≥ acc.h.nvars) : validateC acc n = .error .permRange :=
  validateC_perm n c (permCheck_range _ _ _ hnd (fun _ _ hm => nomatch hm) ⟨x, hx, h⟩)

/-- everything in front of the root checks -/
structure BeforeRoots (acc : HdrAcc) (vn : List (List Nat)) : Prop extends BeforePerm acc where
  perm : permCheck acc.h.nvars acc.h.permids [] = none
  cOrdered : acc.orderedvarnames = [] ∨ acc.orderedvarnames.length = acc.h.nvars
  cSupp : acc.suppvarnames = [] ∨ acc.suppvarnames.length = acc.nsuppvars
  names : namesC acc.h acc.suppvarnames acc.orderedvarnames = .ok vn

theorem validateC_roots {acc : HdrAcc} {vn : List (List Nat)} (n : Nat) (c : BeforeRoots acc vn) :
    validateC acc n = rootsPart acc n vn := by
  unfold validateC
  rw [if_neg (by have := c.nsupp; omega), if_neg (by have := c.cIds; omega),
    if_neg (by have := c.cPermids; omega), if_neg (or_to_not_and c.cAuxids),
    if_neg (by rintro ⟨_, h2⟩; rw [c.idsAsc] at h2; cases h2)]
  rw [if_neg (by
    rintro ⟨h1, h2⟩
    have hm : acc.h.ids.getLast! ∈ acc.h.ids := by
      cases hi : acc.h.ids with
      | nil => exact absurd hi h1
      | cons a r => exact List.getLast_mem _
    have := c.idsLt _ hm
    omega)]
  simp only [c.perm]
  rw [if_neg (or_to_not_and c.cOrdered), if_neg (or_to_not_and c.cSupp)]
  simp only [c.names]

/-- count mismatch: number of `.rootids` entries ≠ `.nroots` -/
theorem reject_countRootids {acc : HdrAcc} {vn : List (List Nat)} (n : Nat) (c : BeforeRoots acc vn)
    (h : acc.h.rootids.length ≠ acc.nroots) : validateC acc n = .error .countRootids := by
  rw [validateC_roots n c]; unfold rootsPart; rw [if_pos h]

theorem rootCheck_zero (nnodes : Nat) : ∀ (l : List Int), (∀ r ∈ l, r.natAbs ≤ nnodes) → (0 : Int) ∈ l →
    rootCheck nnodes l = some .rootZero := by
  intro l
  induction l with
  | nil => intro _ h; cases h
  | cons a t ih =>
    intro hle h
    unfold rootCheck
    by_cases ha : a = 0
    · rw [if_pos ha]
    · rw [if_neg ha, if_neg (by have := hle a (by simp); omega)]
      refine ih (fun r hr => hle r (List.mem_cons_of_mem _ hr)) ?_
      rcases List.mem_cons.mp h with h | h
      · exact absurd h.symm ha
      · exact h

/-- a root id is 0 -/
theorem reject_rootZero {acc : HdrAcc} {vn : List (List Nat)} (n : Nat) (c : BeforeRoots acc vn)
    (hc : acc.h.rootids.length = acc.nroots) (hle : ∀ r ∈ acc.h.rootids, r.natAbs ≤ acc.h.nnodes)
    (h : (0 : Int) ∈ acc.h.rootids) : validateC acc n = .error .rootZero := by
  rw [validateC_roots n c]; unfold rootsPart; rw [if_neg (by omega), rootCheck_zero _ _ hle h]

theorem rootCheck_range (nnodes : Nat) : ∀ (l : List Int), (∀ r ∈ l, r ≠ 0) → (∃ r ∈ l, r.natAbs > nnodes) →
    rootCheck nnodes l = some .rootRange := by
  intro l
  induction l with
  | nil => intro _ h; obtain ⟨r, hr, _⟩ := h; cases hr
  | cons a t ih =>
    intro hnz h
    unfold rootCheck
    rw [if_neg (hnz a (by simp))]
    by_cases ha : a.natAbs > nnodes
    · rw [if_pos ha]
    · rw [if_neg ha]
      refine ih (fun r hr => hnz r (List.mem_cons_of_mem _ hr)) ?_
      obtain ⟨r, hr, hgt⟩ := h
      rcases List.mem_cons.mp hr with hr | hr
      · subst hr; exact absurd hgt ha
      · exact ⟨r, hr, hgt⟩

/-- root id out of range: `|id| > .nnodes` (positive or — complemented, BCDD — negative) -/
theorem reject_rootRange {acc : HdrAcc} {vn : List (List Nat)} (n : Nat) (c : BeforeRoots acc vn)
    (hc : acc.h.rootids.length = acc.nroots) (hnz : ∀ r ∈ acc.h.rootids, r ≠ 0)
    (r : Int) (hr : r ∈ acc.h.rootids) (h : r.natAbs > acc.h.nnodes) : validateC acc n = .error .rootRange := by
  rw [validateC_roots n c]; unfold rootsPart; rw [if_neg (by omega), rootCheck_range _ _ hnz ⟨r, hr, h⟩]

/-- count mismatch: `.rootnames` present with the wrong number of names -/
theorem reject_countRootnames {acc : HdrAcc} {vn : List (List Nat)} (n : Nat) (c : BeforeRoots acc vn)
    (hc : acc.h.rootids.length = acc.nroots) (hr : ∀ r ∈ acc.h.rootids, r ≠ 0 ∧ r.natAbs ≤ acc.h.nnodes)
    (h : acc.h.rootnames ≠ [] ∧ acc.h.rootnames.length ≠ acc.nroots) :
    validateC acc n = .error .countRootnames := by
  rw [validateC_roots n c]; unfold rootsPart; rw [if_neg (by omega), rootCheck_of _ _ hr]
  simp only
  rw [if_pos h]

/-- non-vacuity of the rejection theorems: concrete byte strings for each class -/
example : parseHeaderN (kNvars ++ [32, 49, 10] ++ kNsuppvars ++ [32, 50, 10] ++ kNodes ++ [10]) = .error .nsupp := by decide
example : parseHeaderN (kNvars ++ [32, 51, 10] ++ kNsuppvars ++ [32, 50, 10] ++ kIds ++ [32, 49, 32, 49, 10]
    ++ kPermids ++ [32, 48, 32, 49, 10] ++ kNodes ++ [10]) = .error .idsOrder := by decide
example : parseHeaderN (kNvars ++ [32, 51, 10] ++ kNsuppvars ++ [32, 50, 10] ++ kIds ++ [32, 48, 32, 49, 10]
    ++ kPermids ++ [32, 49, 32, 49, 10] ++ kNodes ++ [10]) = .error .permDup := by decide
example : parseHeaderN (kNvars ++ [32, 51, 10] ++ kNsuppvars ++ [32, 50, 10] ++ kIds ++ [32, 48, 10]
    ++ kPermids ++ [32, 49, 32, 48, 10] ++ kNodes ++ [10]) = .error .countIds := by decide
example : parseHeaderN (kNnodes ++ [32, 50, 10] ++ kNroots ++ [32, 49, 10] ++ kRootids ++ [32, 45, 51, 10]
    ++ kNodes ++ [10]) = .error .rootRange := by decide
example : parseHeaderN (kNnodes ++ [32, 50, 10] ++ kNroots ++ [32, 49, 10] ++ kRootids ++ [32, 45, 50, 10]
    ++ kNodes ++ [10]) = .ok ({ nnodes := 2, rootids := [-2], lines := 4 }, []) := by decide

/-! ## integer overflow -/

theorem parseSingleGo_overflow (max : Nat) : ∀ (ds : List Nat) (res : Nat) (num : Bool),
    OxiddModel.Dddmp.IsDigits ds → res ≤ max → valFrom res ds > max →
    parseSingleGo max res num ds = .error .overflow := by
  intro ds
  induction ds with
  | nil => intro res num _ hr hv; rw [valFrom_nil] at hv; omega
  | cons c cs ih =>
    intro res num hd hr hv
    have hc := hd c (by simp)
    have hcd : isDigit c = true := (isDigit_iff c).2 hc
    rw [valFrom_cons] at hv
    unfold parseSingleGo
    rw [if_pos hcd]
    simp only
    by_cases hgt : res * 10 + (c - 48) > max
    · rw [if_pos hgt]
    · rw [if_neg hgt]
      exact ih _ true (fun d h => hd d (List.mem_cons_of_mem _ h)) (by omega) hv

/-- **integer overflow.** A decimal number greater than the maximum of the field's Rust type
(`u32` for `.nvars` / `.nsuppvars`, `usize` for `.nnodes` / `.nroots`) is rejected with class
`overflow` — it is never wrapped or truncated. -/
theorem parseSingleC_overflow (max n : Nat) (h : n > max) : parseSingleC max (decBytes n) = .error .overflow :=
  parseSingleGo_overflow max (decBytes n) 0 false (isDigits_decBytes n) (Nat.zero_le _)
    (by rw [valFrom_zero, valOf_decBytes]; exact h)

theorem keyValue_key_dec (key : List Nat) (n : Nat) (hk : ∀ b ∈ key, isBlank b = false) :
    keyValue (key ++ 32 :: decBytes n) = (key, decBytes n) := by
  unfold keyValue
  rw [splitBlank_tok key _ hk]
  simp only
  have h1 : trimStart (decBytes n) = decBytes n := by
    have := trimStart_decBytes n []
    rwa [List.append_nil] at this
  unfold trim trimEnd
  rw [h1]
  have h2 : trimStart (decBytes n).reverse = (decBytes n).reverse := by
    cases hr : (decBytes n).reverse with
    | nil => rfl
    | cons c t =>
      have hc : c ∈ decBytes n := by rw [← List.mem_reverse, hr]; simp
      exact trimStart_cons_of_not_blank c t (digit_not_blank (isDigits_decBytes n c hc))
  rw [h2, List.reverse_reverse]

theorem decBytes_clean (n : Nat) : ∀ b ∈ decBytes n, b ≠ 10 ∧ b ≠ 13 := by
  intro b hb
  have := isDigits_decBytes n b hb
  omega

/-- a file that starts with `.nvars N`, `N > u32::MAX`, is rejected with class `overflow`,
whatever follows -/
theorem parseHeaderN_nvars_overflow (n : Nat) (h : n > u32Max) (rest : List Nat) :
    parseHeaderN (kNvars ++ 32 :: decBytes n ++ 10 :: rest) = .error .overflow := by
  have hline : readLine ((kNvars ++ 32 :: decBytes n) ++ 10 :: rest) = some (kNvars ++ 32 :: decBytes n, rest) := by
    apply readLine_clean
    intro b hb
    rcases List.mem_append.mp hb with hb | hb
    · exact (by decide : ∀ b ∈ kNvars, b ≠ 10 ∧ b ≠ 13) b hb
    · rcases List.mem_cons.mp hb with hb | hb
      · subst hb; decide
      · exact decBytes_clean n b hb
  have hkv := keyValue_key_dec kNvars n (by decide)
  unfold parseHeaderN
  have happ : kNvars ++ 32 :: decBytes n ++ 10 :: rest = (kNvars ++ 32 :: decBytes n) ++ 10 :: rest := by simp
  rw [happ]
  unfold loadLinesC
  rw [hline]
  simp only
  unfold applyLine
  rw [hkv]
  simp only
  have : applyKV {} kNvars (decBytes n) = .fail .overflow := by
    unfold applyKV
    rw [if_neg (by decide), if_neg (by decide), if_neg (by decide), if_neg (by decide), if_neg (by decide),
      if_pos rfl, parseSingleC_overflow u32Max n h]
    rfl
  rw [this]

example : parseHeaderN (kNvars ++ 32 :: decBytes 4294967296 ++ 10 :: [1, 2]) = .error .overflow :=
  parseHeaderN_nvars_overflow 4294967296 (by decide) [1, 2]

/-- truncation: the empty input is an `eof` error -/
theorem parseHeaderN_nil : parseHeaderN [] = .error .eof := by decide

end OxiddModel.Dddmp.Hdr
