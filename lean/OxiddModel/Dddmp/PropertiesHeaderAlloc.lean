import OxiddModel.Dddmp.PropertiesHeaderKeys

/-!
# C15, header: after commit 5fa35fa everything `DumpHeader::load` builds is bounded by the input

`alloc_bounded_by_input`: for every input that is accepted, every list of the returned header —
`.ids`, `.permids` (and with them the `seen` set, `sorted_levels` and `support_var_order` of the
validation), `.auxids`, `.rootids`, `.rootnames` — has at most as many entries as the input has
bytes, and the names vector has at most `max(input bytes, allocLimit / 24)` entries: the only
allocation still proportional to `.nvars` is the `try_reserve_exact` of the `.suppvarnames`-only
case, whose failure is the error class `alloc`. (`alloc_not_bounded_by_input_before_fix`: what the
old code did.)
-/
namespace OxiddModel.Dddmp.Hdr
open OxiddModel.Dddmp

/-! ## parsers: at most one entry per input byte -/

theorem parseU32ListGo_length : ∀ (s : List Nat) (i : Nat) (num : Bool) (acc out : List Nat),
    parseU32ListGo i num acc s = .ok out → out.length ≤ acc.length + s.length + (if num then 1 else 0) := by
  intro s
  induction s with
  | nil =>
    intro i num acc out h
    unfold parseU32ListGo at h
    injection h with h
    subst h
    cases num <;> simp
  | cons c r ih =>
    intro i num acc out h
    unfold parseU32ListGo at h
    split at h
    · simp only at h
      split at h
      · cases h
      · have := ih _ _ _ _ h
        simp only [if_true, List.length_cons] at this ⊢
        omega
    · split at h
      · split at h
        · have := ih _ _ _ _ h
          simp only [List.length_cons, Bool.false_eq_true, if_false] at this ⊢
          omega
        · have := ih _ _ _ _ h
          simp only [List.length_cons] at this ⊢
          split at this <;> split <;> omega
      · cases h

theorem parseU32ListC_length {s out : List Nat} (h : parseU32ListC s = .ok out) : out.length ≤ s.length + 1 := by
  have := parseU32ListGo_length s 0 false [] out h
  simp at this
  omega

theorem parseEdgeListGo_length : ∀ (s : List Nat) (i : Nat) (neg num : Bool) (acc out : List Int),
    parseEdgeListGo i neg num acc s = .ok out → out.length ≤ acc.length + s.length + (if num then 1 else 0) := by
  intro s
  induction s with
  | nil =>
    intro i neg num acc out h
    unfold parseEdgeListGo at h
    injection h with h
    subst h
    cases num <;> simp
  | cons c r ih =>
    intro i neg num acc out h
    unfold parseEdgeListGo at h
    split at h
    · simp only at h
      split at h
      · cases h
      · have := ih _ _ _ _ _ h
        simp only [if_true, List.length_cons] at this ⊢
        omega
    · split at h
      · split at h
        · cases h
        · split at h
          · cases h
          · have := ih _ _ _ _ _ h
            simp only [List.length_cons] at this ⊢
            split at this <;> split <;> omega
      · split at h
        · split at h
          · have := ih _ _ _ _ _ h
            simp only [List.length_cons, Bool.false_eq_true, if_false] at this ⊢
            omega
          · have := ih _ _ _ _ _ h
            simp only [List.length_cons] at this ⊢
            split at this <;> split <;> omega
        · cases h

theorem parseEdgeListC_length {s : List Nat} {out : List Int} (h : parseEdgeListC s = .ok out) :
    out.length ≤ s.length + 1 := by
  have := parseEdgeListGo_length s 0 false false [] out h
  simp at this
  omega

theorem parseStrListRaw_go_length : ∀ (s cur : List Nat), (parseStrListRaw.go cur s).length ≤ s.length + 1 := by
  intro s
  induction s with
  | nil => intro cur; unfold parseStrListRaw.go; split <;> simp
  | cons c r ih =>
    intro cur
    unfold parseStrListRaw.go
    split
    · split
      · have := ih []; simp only [List.length_cons]; omega
      · have := ih []; simp only [List.length_cons]; omega
    · have := ih (c :: cur); simp only [List.length_cons]; omega

theorem parseStrList_length (s : List Nat) : (parseStrList s).length ≤ s.length + 1 := by
  unfold parseStrList parseStrListRaw
  rw [List.length_map]
  exact parseStrListRaw_go_length s []

/-! ## a value is not longer than its line, a line not longer than the input -/

theorem trimStart_length : ∀ (s : List Nat), (trimStart s).length ≤ s.length := by
  intro s
  induction s with
  | nil => simp [trimStart]
  | cons b r ih =>
    unfold trimStart
    split
    · simp only [List.length_cons]; omega
    · exact Nat.le_refl _

theorem trim_length (s : List Nat) : (trim s).length ≤ s.length := by
  unfold trim trimEnd
  have h1 := trimStart_length s
  have h2 := trimStart_length (trimStart s).reverse
  simp only [List.length_reverse] at h2 ⊢
  omega

theorem keyValue_length (ln : List Nat) : (keyValue ln).2.length + 1 ≤ ln.length + 1 ∧ (keyValue ln).2.length ≤ ln.length := by
  unfold keyValue
  cases hs : splitBlank ln with
  | none => simp
  | some p =>
    obtain ⟨k, v⟩ := p
    simp only
    unfold splitBlank at hs
    simp only at hs
    split at hs
    · injection hs with hs
      simp only [Prod.mk.injEq] at hs
      have hv : v.length ≤ ln.length := by rw [← hs.2]; simp
      have := trim_length v
      omega
    · cases hs

theorem readLine_line_length {inp ln rest : List Nat} (h : readLine inp = some (ln, rest)) :
    ln.length ≤ inp.length := by
  unfold readLine at h
  split at h
  · cases h
  · simp only [Option.some.injEq, Prod.mk.injEq] at h
    obtain ⟨hl, _⟩ := h
    subst hl
    have h1 : (inp.takeWhile (· ≠ 10)).length ≤ inp.length := List.Sublist.length_le (List.takeWhile_sublist _)
    have h2 : ((inp.takeWhile (· ≠ 10)).reverse.dropWhile (fun b => b = 10 || b = 13)).length
        ≤ (inp.takeWhile (· ≠ 10)).reverse.length := List.Sublist.length_le (List.dropWhile_sublist _)
    simp only [List.length_reverse] at h2 ⊢
    omega

/-! ## loop invariant -/

structure LenBound (B : Nat) (a : HdrAcc) : Prop where
  ids : a.h.ids.length ≤ B
  permids : a.h.permids.length ≤ B
  auxids : a.h.auxids.length ≤ B
  rootids : a.h.rootids.length ≤ B
  rootnames : a.h.rootnames.length ≤ B
  varnames : a.h.varnames.length ≤ B
  svn : a.suppvarnames.length ≤ B
  ovn : a.orderedvarnames.length ≤ B

theorem applyKV_lenBound {B : Nat} {acc a : HdrAcc} {key value : List Nat} (hv : value.length + 1 ≤ B)
    (hb : LenBound B acc) (h : applyKV acc key value = .cont a) : LenBound B a := by
  cases applyKV_accepts h with
  | varnames => exact { hb with varnames := by have := parseStrList_length value; show (parseStrList value).length ≤ B; omega }
  | svn => exact { hb with svn := by have := parseStrList_length value; show (parseStrList value).length ≤ B; omega }
  | ovn => exact { hb with ovn := by have := parseStrList_length value; show (parseStrList value).length ≤ B; omega }
  | rootnames => exact { hb with rootnames := by have := parseStrList_length value; show (parseStrList value).length ≤ B; omega }
  | ids v _ hp => exact { hb with ids := by have := parseU32ListC_length hp; show v.length ≤ B; omega }
  | permids v _ hp => exact { hb with permids := by have := parseU32ListC_length hp; show v.length ≤ B; omega }
  | auxids v _ hp => exact { hb with auxids := by have := parseU32ListC_length hp; show v.length ≤ B; omega }
  | rootids v _ hp => exact { hb with rootids := by have := parseEdgeListC_length hp; show v.length ≤ B; omega }
  | _ => exact ⟨hb.ids, hb.permids, hb.auxids, hb.rootids, hb.rootnames, hb.varnames, hb.svn, hb.ovn⟩

theorem loadLinesC_lenBound (B : Nat) : ∀ (f : Nat) (acc : HdrAcc) (lineNo : Nat) (inp : List Nat) (a : HdrAcc)
    (n : Nat) (rest : List Nat), inp.length + 1 ≤ B → LenBound B acc →
    loadLinesC f acc lineNo inp = .ok (a, n, rest) → LenBound B a := by
  intro f
  induction f with
  | zero => intro acc lineNo inp a n rest _ _ h; cases h
  | succ f ih =>
    intro acc lineNo inp a n rest hB hb h
    unfold loadLinesC at h
    cases hr : readLine inp with
    | none => rw [hr] at h; cases h
    | some p =>
      obtain ⟨ln, rest1⟩ := p
      rw [hr] at h
      simp only at h
      have hlt := readLine_rest_lt hr
      have hln := readLine_line_length hr
      cases hl : applyLine acc ln with
      | cont a1 =>
        rw [hl] at h
        have hv := (keyValue_length ln).2
        exact ih a1 _ rest1 a n rest (by omega) (applyKV_lenBound (by omega) hb hl) h
      | stop =>
        rw [hl] at h
        injection h with h
        simp only [Prod.mk.injEq] at h
        obtain ⟨h1, _, _⟩ := h
        subst h1
        exact hb
      | fail e => rw [hl] at h; cases h

/-! ## the validation adds nothing that is not bounded -/

theorem svoOf_length (ids permids : List Nat) : (svoOf ids permids).length = ids.length := by
  unfold svoOf
  rw [foldl_listSet_length (fun (p : Nat × Nat) => levelPos permids p.2) (fun (p : Nat × Nat) => p.1)]
  simp

theorem namesC_bound {h : Header} {svn ovn vn : List (List Nat)} (hn : namesC h svn ovn = .ok vn)
    (hovn : ovn = [] ∨ ovn.length = h.nvars) :
    vn.length ≤ h.varnames.length ∨ vn.length ≤ ovn.length ∨ 24 * vn.length ≤ allocLimit := by
  unfold namesC at hn
  by_cases h1 : h.varnames = []
  · rw [if_pos h1] at hn
    by_cases h2 : ovn = []
    · rw [if_pos h2] at hn
      by_cases h3 : svn = []
      · rw [if_pos h3] at hn; injection hn with hn; subst hn; left; simp
      · rw [if_neg h3] at hn
        by_cases h4 : 24 * h.nvars > allocLimit
        · rw [if_pos h4] at hn; cases hn
        rw [if_neg h4] at hn
        injection hn with hn; subst hn
        right; right
        rw [foldl_listSet_length (fun (p : List Nat × Nat) => p.2) (fun (p : List Nat × Nat) => p.1)]
        simp only [List.length_replicate]
        omega
    · rw [if_neg h2] at hn
      cases hf : namesFromOrdered h.nvars h.ids h.permids ovn with
      | none => rw [hf] at hn; cases hn
      | some v =>
        rw [hf] at hn
        simp only at hn
        split at hn
        · cases hn
        · injection hn with hn; subst hn
          right; left
          rw [namesFromOrdered_length hf]
          rcases hovn with h0 | h0
          · exact absurd h0 h2
          · omega
  · rw [if_neg h1] at hn
    by_cases h2 : h.varnames.length ≠ h.nvars
    · rw [if_pos h2] at hn; cases hn
    rw [if_neg h2] at hn
    split at hn
    · cases hn
    · split at hn
      · cases hn
      · injection hn with hn; subst hn; left; exact Nat.le_refl _

/-- **alloc_bounded_by_input** (code since commit 5fa35fa). For every input and every header the
reader returns: each list it has built has at most `input length + 1` entries — including
`support_var_order` (and hence the `seen` set and the sorted copy of `.permids`, which have
`|.permids|` entries) — except the names vector in the `.suppvarnames`-only case, which is bounded by
`allocLimit` bytes because `try_reserve_exact` is checked (`err alloc` otherwise). In particular
nothing of size `.nvars` is built for `.nvars 4294967295`. -/
theorem alloc_bounded_by_input {inp : List Nat} {h : Header} {rest : List Nat}
    (hp : parseHeaderN inp = .ok (h, rest)) :
    h.ids.length ≤ inp.length + 1 ∧ h.permids.length ≤ inp.length + 1 ∧ h.supportVarOrder.length ≤ inp.length + 1 ∧
    h.auxids.length ≤ inp.length + 1 ∧ h.rootids.length ≤ inp.length + 1 ∧ h.rootnames.length ≤ inp.length + 1 ∧
    (h.varnames.length ≤ inp.length + 1 ∨ 24 * h.varnames.length ≤ allocLimit) := by
  obtain ⟨acc, n, vn, hl, v, rfl⟩ := parseHeaderN_ok_acc hp
  have hb := loadLinesC_lenBound (inp.length + 1) _ {} 1 inp acc n rest (Nat.le_refl _)
    ⟨Nat.zero_le _, Nat.zero_le _, Nat.zero_le _, Nat.zero_le _, Nat.zero_le _, Nat.zero_le _, Nat.zero_le _,
      Nat.zero_le _⟩ hl
  refine ⟨hb.ids, hb.permids, ?_, hb.auxids, hb.rootids, hb.rootnames, ?_⟩
  · show (svoOf acc.h.ids acc.h.permids).length ≤ _
    rw [svoOf_length]; exact hb.ids
  · show vn.length ≤ _ ∨ _
    -- the names come from `namesC` (validateC_ok)
    have hv : validateC acc n = .ok (finish acc.h n vn) := by
      unfold parseHeaderN at hp
      rw [hl] at hp
      simp only at hp
      cases hvv : validateC acc n with
      | error e => rw [hvv] at hp; cases hp
      | ok h' => rw [hvv] at hp; injection hp with hp; simp only [Prod.mk.injEq] at hp; rw [hp.1]
    obtain ⟨_, vn', hn, heq⟩ := validateC_ok hv
    have hvn : vn = vn' := by
      have := congrArg Header.varnames heq
      simpa [finish] using this
    subst hvn
    rcases namesC_bound hn v.cOrdered with h0 | h0 | h0
    · left; have := hb.varnames; omega
    · left; have := hb.ovn; omega
    · right; exact h0

/-- non-vacuity: the 25-byte witness of the old finding is accepted, all lists are empty -/
example : parseHeaderN allocWitness = .ok ({ nvars := 4294967295, lines := 2 }, []) :=
  alloc_not_bounded_by_input_before_fix.2.1

/-- the `.suppvarnames`-only header with a huge `.nvars` is the error class `alloc` (under the
allocator assumption `allocLimit`), with a small `.nvars` it is accepted -/
example : parseHeaderN (kNvars ++ 32 :: decBytes 4294967295 ++ [10] ++ kNsuppvars ++ [32, 49, 10]
    ++ kSuppvarnames ++ [32, 97, 10] ++ kIds ++ [32, 48, 10] ++ kPermids ++ [32, 48, 10] ++ kNodes ++ [10])
    = .error .alloc := by decide +kernel

end OxiddModel.Dddmp.Hdr
