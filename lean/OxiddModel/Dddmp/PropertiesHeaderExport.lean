import OxiddModel.Dddmp.Header

/-!
# C15: the header writer `writeHeaderN` is the header part of the exporter model `exportFile`

`exportFile` (`Model.lean`) is the byte-level model of `export_common`, tied to the real exporter
byte by byte by the `dddmp` stream. `exportFile_header`: its output is
`writeHeaderN (headerOfExport …) ++ nodeSection … ++ ".end\n"` — so the round-trip theorems about
`writeHeaderN` (`PropertiesHeaderRound*.lean`) are theorems about what the exporter model writes.
Two corner cases are excluded by hypotheses, in which the exporter writes a name line without a
name: a manager with zero variables, and `export_with_names` with zero functions.
-/
namespace OxiddModel.Dddmp.Hdr
open OxiddModel.Dddmp

theorem k_ver : strBytes ".ver " = kVer ++ [sp] := by decide +kernel
theorem k_mode : strBytes ".mode " = kMode ++ [sp] := by decide +kernel
theorem k_varinfo : strBytes ".varinfo " = kVarinfo ++ [sp] := by decide +kernel
theorem k_dd : strBytes ".dd " = kDd ++ [sp] := by decide +kernel
theorem k_nnodes : strBytes ".nnodes " = kNnodes ++ [sp] := by decide +kernel
theorem k_nvars : strBytes ".nvars " = kNvars ++ [sp] := by decide +kernel
theorem k_nsupp : strBytes ".nsuppvars " = kNsuppvars ++ [sp] := by decide +kernel
theorem k_varnames : strBytes ".varnames" = kVarnames := by decide +kernel
theorem k_svn : strBytes ".suppvarnames" = kSuppvarnames := by decide +kernel
theorem k_ovn : strBytes ".orderedvarnames" = kOrderedvarnames := by decide +kernel
theorem k_ids : strBytes ".ids" = kIds := by decide +kernel
theorem k_permids : strBytes ".permids" = kPermids := by decide +kernel
theorem k_nroots : strBytes ".nroots " = kNroots ++ [sp] := by decide +kernel
theorem k_rootids : strBytes ".rootids" = kRootids := by decide +kernel
theorem k_rootnames : strBytes ".rootnames" = kRootnames := by decide +kernel
theorem k_nodes : strBytes ".nodes" = kNodes := by decide +kernel
theorem v_v2 : strBytes "DDDMP-2.0" = vV2 := by decide +kernel
theorem v_v3 : strBytes "DDDMP-3.0" = vV3 := by decide +kernel
theorem v_A : strBytes "A" = [65] := by decide +kernel
theorem v_B : strBytes "B" = [66] := by decide +kernel
theorem v_4 : strBytes "4" = decBytes 4 := by decide +kernel

theorem line_sp (k : List Nat) (v : List Nat) (s : String) (hs : strBytes s = k ++ [sp]) :
    line s v = kvLine k (sp :: v) := by
  unfold line kvLine; rw [hs]; simp

theorem line_bare (k : List Nat) (v : List Nat) (s : String) (hs : strBytes s = k) :
    line s v = kvLine k v := by
  unfold line kvLine; rw [hs]

theorem strBytes_ite (c : Prop) [Decidable c] (a b : String) :
    strBytes (if c then a else b) = if c then strBytes a else strBytes b := by
  split <;> rfl

/-- the exporter's choice of the mode -/
def exportAscii (g : Guards) (s : Settings) (m : MgrView) : Bool :=
  s.ascii || !(m.arity = 2 && m.numTerminals = 1) || (g.binT && !m.allTermsT)

def exportIds (m : MgrView) (d : Diagram) : List Nat :=
  (List.range m.nvars).filter (fun var => (suppLevels m.nvars d.nodes).contains (m.v2l.getD var 0))

/-- the header record that `export_common` writes for a manager view and a diagram -/
def headerOfExport (g : Guards) (s : Settings) (m : MgrView) (d : Diagram) : Header :=
  { ascii := exportAscii g s m
    varinfo := 4
    dd := if s.ddName ≠ [] then (replaceControl s.ddName).1 else []
    nnodes := d.terms.length + d.nodes.length
    nvars := m.nvars
    ids := exportIds m d
    permids := (exportIds m d).map (fun v => m.v2l.getD v 0)
    supportVarOrder := svoOf (exportIds m d) ((exportIds m d).map (fun v => m.v2l.getD v 0))
    varnames := ((exportedVarNames g s.strict m.names).1).getD []
    rootids := d.roots
    rootnames := match d.rootNames with
      | none => []
      | some rn => (exportedRootNames s.strict rn).1 }

/-- the level order the exporter uses for `.orderedvarnames` -/
def exportL2v (m : MgrView) : List Nat :=
  (List.range m.nvars).map (fun level => (indexOf? m.v2l level).getD 0)

theorem replaceControl_ne_nil {s : List Nat} (h : s ≠ []) : (replaceControl s).1 ≠ [] := by
  unfold replaceControl
  simpa using h

theorem exportedRootNames_ne_nil (strict : Bool) {rn : List (List Nat)} (h : rn ≠ []) :
    (exportedRootNames strict rn).1 ≠ [] := by
  unfold exportedRootNames
  simp only [ne_eq, List.map_eq_nil_iff, List.range_eq_nil]
  intro h0
  exact h (List.eq_nil_of_length_eq_zero h0)

set_option linter.unusedSimpArgs false in
/-- **exportFile_header.** What the exporter model writes is the header of `writeHeaderN` for the
record `headerOfExport`, followed by the node section and `.end`. Hypotheses exclude the two corner
cases in which a name line without any name is written. -/
theorem exportFile_header (g : Guards) (s : Settings) (m : MgrView) (d : Diagram)
    (hnames : ∀ ns, (exportedVarNames g s.strict m.names).1 = some ns → ns ≠ [])
    (hroots : d.rootNames ≠ some [])
    (hperm : (exportIds m d).length = (suppLevels m.nvars d.nodes).length) :
    (exportFile g s m d).1 =
      writeHeaderN { v3 := s.v3 } (headerOfExport g s m d) (exportL2v m)
        ++ nodeSection (exportAscii g s m) m.nvars d ++ line ".end" [] := by
  unfold exportFile writeHeaderN nameLines
  simp only [line_sp _ _ _ k_ver, line_sp _ _ _ k_mode, line_sp _ _ _ k_varinfo, line_sp _ _ _ k_dd,
    line_sp _ _ _ k_nnodes, line_sp _ _ _ k_nvars, line_sp _ _ _ k_nsupp, line_sp _ _ _ k_nroots,
    line_bare _ _ _ k_varnames, line_bare _ _ _ k_svn, line_bare _ _ _ k_ovn, line_bare _ _ _ k_ids,
    line_bare _ _ _ k_permids, line_bare _ _ _ k_rootids, line_bare _ _ _ k_rootnames, line_bare _ _ _ k_nodes]
  have hnsupp : (List.filter (fun var => (suppLevels m.nvars d.nodes).contains (m.v2l.getD var 0))
      (List.range m.nvars)).length = (suppLevels m.nvars d.nodes).length := hperm
  rw [← hnsupp]
  cases hv : (exportedVarNames g s.strict m.names).1 with
  | none =>
    cases hr : d.rootNames with
    | none =>
      by_cases h0 : s.ddName = [] <;>
        simp [headerOfExport, exportAscii, exportIds, exportL2v, strBytes_ite, v_A, v_B, v_v2, v_v3, v_4, hv, hr, h0,
          Function.comp_def, replaceControl_ne_nil]
    | some rn =>
      have hrn : rn ≠ [] := by intro h1; exact hroots (by rw [hr, h1])
      have := exportedRootNames_ne_nil s.strict hrn
      by_cases h0 : s.ddName = [] <;>
        simp [headerOfExport, exportAscii, exportIds, exportL2v, strBytes_ite, v_A, v_B, v_v2, v_v3, v_4, hv, hr, h0,
          Function.comp_def, replaceControl_ne_nil, this]
  | some ns =>
    have hns := hnames ns hv
    cases hr : d.rootNames with
    | none =>
      by_cases h0 : s.ddName = [] <;>
        simp [headerOfExport, exportAscii, exportIds, exportL2v, strBytes_ite, v_A, v_B, v_v2, v_v3, v_4, hv, hr, h0,
          Function.comp_def, replaceControl_ne_nil, hns]
    | some rn =>
      have hrn : rn ≠ [] := by intro h1; exact hroots (by rw [hr, h1])
      have := exportedRootNames_ne_nil s.strict hrn
      by_cases h0 : s.ddName = [] <;>
        simp [headerOfExport, exportAscii, exportIds, exportL2v, strBytes_ite, v_A, v_B, v_v2, v_v3, v_4, hv, hr, h0,
          Function.comp_def, replaceControl_ne_nil, this, hns]

/-- non-vacuity: two unnamed variables, one node at level 1, one root -/
def exM : MgrView := { nvars := 2, names := [[], []], v2l := [0, 1], arity := 2, numTerminals := 1 }
def exD : Diagram := { terms := [[84]], nodes := [⟨1, [1, -1]⟩], roots := [2], rootNames := none }

example : (exportFile Guards.all ⟨false, true, true, [102, 111, 111]⟩ exM exD).1 =
    writeHeaderN { v3 := false } (headerOfExport Guards.all ⟨false, true, true, [102, 111, 111]⟩ exM exD) (exportL2v exM)
      ++ nodeSection (exportAscii Guards.all ⟨false, true, true, [102, 111, 111]⟩ exM) exM.nvars exD ++ line ".end" [] :=
  exportFile_header _ _ _ _
    (by intro ns h; rw [show (exportedVarNames Guards.all true exM.names).1 = none by decide] at h; cases h)
    (by decide) (by decide)

end OxiddModel.Dddmp.Hdr
