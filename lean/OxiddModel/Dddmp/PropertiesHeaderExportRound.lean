import OxiddModel.Dddmp.PropertiesHeaderExport
import OxiddModel.Dddmp.PropertiesHeaderRoundNames

/-!
# C15: the header of a file written by the exporter model is read back unchanged
-/
namespace OxiddModel.Dddmp.Hdr
open OxiddModel.Dddmp

/-- **export_header_roundtrip.** Composition of `exportFile_header` and `header_roundtrip_names`:
the reader applied to the complete file the exporter model writes returns the exporter's header
record (with its line count) and is positioned at the first byte of the node section. -/
theorem export_header_roundtrip (g : Guards) (s : Settings) (m : MgrView) (d : Diagram) (lines : Nat)
    (hnames : ∀ ns, (exportedVarNames g s.strict m.names).1 = some ns → ns ≠ [])
    (hroots : d.rootNames ≠ some [])
    (hperm : (exportIds m d).length = (suppLevels m.nvars d.nodes).length)
    (ok : HeaderOk { headerOfExport g s m d with lines := lines })
    (c : CarriableN { v3 := s.v3 } { headerOfExport g s m d with lines := lines } (exportL2v m)) :
    parseHeaderN (exportFile g s m d).1 =
      .ok ({ headerOfExport g s m d with lines := lines },
           nodeSection (exportAscii g s m) m.nvars d ++ line ".end" []) := by
  rw [exportFile_header g s m d hnames hroots hperm, List.append_assoc]
  have hw : writeHeaderN { v3 := s.v3 } (headerOfExport g s m d) (exportL2v m)
      = writeHeaderN { v3 := s.v3 } { headerOfExport g s m d with lines := lines } (exportL2v m) := rfl
  rw [hw]
  exact header_roundtrip_names _ _ _ ok c _

end OxiddModel.Dddmp.Hdr
