import OxiddModel.Dddmp.Properties
import OxiddModel.Dddmp.PropertiesHeaderNoPanic

/-!
# C15: header reader + importer on raw bytes never panic

`importNodes_never_panics` (`Properties.lean`) assumes what `DumpHeader::load` has checked about
the root ids (`hroots`). With the byte-level header model that assumption is a theorem
(`parseHeaderN_ok_wf`), so the whole path `DumpHeader::load` → `import` is panic-free for every
byte string.
-/
namespace OxiddModel.Dddmp.Hdr
open OxiddModel.Dddmp

/-- **import_bytes_never_panics.** For every byte string: the header reader returns an error class
or a header, never the panic class; and with the header it returns, the importer (node section in
either mode, root loop) never panics on the remaining bytes. The hypotheses concern the target
manager only (levels of the support variables, level of a `T` terminal). -/
theorem import_bytes_never_panics {E : Type} (A : Alg E) (L : LevelLaws A) (numLevels : Nat) (slm : List Nat)
    (hterm : ∀ t, A.parseTerminal [84] = some t → A.level t = levelMax ∨ A.level t < numLevels)
    (hslm : ∀ x ∈ slm, x < numLevels) (inp : List Nat) :
    parseHeaderN inp ≠ .error .unwrapNone ∧
    ∀ h rest, parseHeaderN inp = .ok (h, rest) → importNodes Guards.code A h numLevels slm rest ≠ .panic := by
  refine ⟨parseHeaderN_never_panics inp, ?_⟩
  intro h rest hp
  have ok := (parseHeaderN_ok_wf hp).1
  exact importNodes_never_panics A L h numLevels slm rest
    (fun r hr => ⟨(ok.roots r hr).1, (ok.roots r hr).2.1⟩) hterm hslm

/-- non-vacuity: the free algebra (a manager without reduction rules), 3 levels, any bytes -/
example (inp : List Nat) :=
  import_bytes_never_panics freeAlg ⟨fun l t e => Or.inl (freeAlg_level_reduce l [t, e]), fun _ => rfl⟩ 3 [0, 2]
    (by
      intro t ht
      left
      have : t = (false, RT.term) := by
        simp only [freeAlg] at ht
        exact (Option.some.inj ht).symm
      subst this
      rfl)
    (by decide) inp

end OxiddModel.Dddmp.Hdr
