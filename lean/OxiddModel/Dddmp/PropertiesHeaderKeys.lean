import OxiddModel.Dddmp.PropertiesHeader

/-!
# C15, header: missing keys, and the allocation that is not bounded by the input

`DumpHeader::load` has no "missing key" error: a key that never occurs leaves the field at its
default (0 / empty), and the validation then decides. The theorems here say what that means:
a header without `.nnodes` (or without `.nroots`) is accepted only if it has no roots at all, so a
file that names a root but lacks `.nnodes` is rejected (`missing_nnodes_rejected`, class
`root-zero`/`root-range`). Duplicated keys: the last one counts (comment in the Rust code); this is
what `applyKV` does (each update overwrites), correlated by the stream.

Finding (resource, fixed by /repo commit 5fa35fa): `load` allocated `vec![0u32; nvars]` (and
`vec![String::new(); nvars]` in the `.suppvarnames`-only case) for an `.nvars` value that is not
bounded by the size of the input: `alloc_not_bounded_by_input_before_fix`.
-/
namespace OxiddModel.Dddmp.Hdr
open OxiddModel.Dddmp

/-- the keys of the lines `DumpHeader::load` reads (up to and including `.nodes`) -/
def headerKeys : Nat → List Nat → List (List Nat)
  | 0, _ => []
  | f + 1, inp =>
    match readLine inp with
    | none => []
    | some (ln, rest) => (keyValue ln).1 :: headerKeys f rest

/-- invariant rule for the line loop with knowledge about the keys that occur -/
theorem loadLinesC_inv_keys (P : HdrAcc → Prop) (K : List Nat → Prop)
    (step : ∀ acc key value a, K key → P acc → applyKV acc key value = .cont a → P a) :
    ∀ (f : Nat) (acc : HdrAcc) (lineNo : Nat) (inp : List Nat) (a : HdrAcc) (n : Nat) (rest : List Nat),
    (∀ k ∈ headerKeys f inp, K k) → P acc → loadLinesC f acc lineNo inp = .ok (a, n, rest) → P a := by
  intro f
  induction f with
  | zero => intro acc lineNo inp a n rest _ _ h; cases h
  | succ f ih =>
    intro acc lineNo inp a n rest hk hb h
    unfold loadLinesC at h
    unfold headerKeys at hk
    cases hr : readLine inp with
    | none => rw [hr] at h; cases h
    | some p =>
      obtain ⟨ln, rest1⟩ := p
      rw [hr] at h hk
      simp only at h hk
      cases hl : applyLine acc ln with
      | cont a1 =>
        rw [hl] at h
        exact ih a1 _ rest1 a n rest (fun k hkm => hk k (List.mem_cons_of_mem _ hkm))
          (step _ _ _ _ (hk _ (by simp)) hb hl) h
      | stop =>
        rw [hl] at h
        injection h with h
        simp only [Prod.mk.injEq] at h
        obtain ⟨h1, _, _⟩ := h
        subst h1
        exact hb
      | fail e => rw [hl] at h; cases h

theorem nnodes_kept {acc a : HdrAcc} {key value : List Nat} (hk : key ≠ kNnodes)
    (h : applyKV acc key value = .cont a) : a.h.nnodes = acc.h.nnodes := by
  cases applyKV_accepts h with
  | nnodes v hk' _ => exact absurd hk' hk
  | _ => rfl

theorem nroots_kept {acc a : HdrAcc} {key value : List Nat} (hk : key ≠ kNroots)
    (h : applyKV acc key value = .cont a) : a.nroots = acc.nroots := by
  cases applyKV_accepts h with
  | nroots v hk' _ => exact absurd hk' hk
  | _ => rfl

theorem parseHeaderN_ok_acc {inp : List Nat} {h : Header} {rest : List Nat}
    (hp : parseHeaderN inp = .ok (h, rest)) :
    ∃ acc n vn, loadLinesC (inp.length + 1) {} 1 inp = .ok (acc, n, rest) ∧ Valid acc ∧ h = finish acc.h n vn := by
  unfold parseHeaderN at hp
  cases hl : loadLinesC (inp.length + 1) {} 1 inp with
  | error e => rw [hl] at hp; cases hp
  | ok r =>
    obtain ⟨acc, n, rest'⟩ := r
    rw [hl] at hp
    simp only at hp
    cases hv : validateC acc n with
    | error e => rw [hv] at hp; cases hp
    | ok h' =>
      rw [hv] at hp
      injection hp with hp
      simp only [Prod.mk.injEq] at hp
      obtain ⟨rfl, rfl⟩ := hp
      obtain ⟨v, vn, _, rfl⟩ := validateC_ok hv
      exact ⟨acc, n, vn, rfl, v, rfl⟩

theorem rootCheck_zero_nil : ∀ (l : List Int), rootCheck 0 l = none → l = [] := by
  intro l h
  cases l with
  | nil => rfl
  | cons a t =>
    have := rootCheck_none 0 (a :: t) h a (by simp)
    omega

/-- **missing `.nnodes`.** A header in which no line has the key `.nnodes` is accepted only with
`nnodes = 0` and without roots: any file that lists a root but lacks `.nnodes` is rejected. -/
theorem missing_nnodes_no_roots {inp : List Nat} {h : Header} {rest : List Nat}
    (hk : kNnodes ∉ headerKeys (inp.length + 1) inp) (hp : parseHeaderN inp = .ok (h, rest)) :
    h.nnodes = 0 ∧ h.rootids = [] := by
  obtain ⟨acc, n, vn, hl, v, rfl⟩ := parseHeaderN_ok_acc hp
  have h0 : acc.h.nnodes = 0 :=
    loadLinesC_inv_keys (fun a => a.h.nnodes = 0) (fun k => k ≠ kNnodes)
      (fun _ _ _ _ hk' hb hh => by rw [nnodes_kept hk' hh]; exact hb)
      _ {} 1 inp acc n rest (fun k hkm heq => hk (heq ▸ hkm)) rfl hl
  refine ⟨h0, ?_⟩
  have := v.roots
  rw [h0] at this
  exact rootCheck_zero_nil _ this

/-- **missing `.nroots`.** Without a `.nroots` line a header is accepted only without roots. -/
theorem missing_nroots_no_roots {inp : List Nat} {h : Header} {rest : List Nat}
    (hk : kNroots ∉ headerKeys (inp.length + 1) inp) (hp : parseHeaderN inp = .ok (h, rest)) :
    h.rootids = [] := by
  obtain ⟨acc, n, vn, hl, v, rfl⟩ := parseHeaderN_ok_acc hp
  have h0 : acc.nroots = 0 :=
    loadLinesC_inv_keys (fun a => a.nroots = 0) (fun k => k ≠ kNroots)
      (fun _ _ _ _ hk' hb hh => by rw [nroots_kept hk' hh]; exact hb)
      _ {} 1 inp acc n rest (fun k hkm heq => hk (heq ▸ hkm)) rfl hl
  have := v.cRootids
  rw [h0] at this
  exact List.eq_nil_of_length_eq_zero this

/-- non-vacuity: `.nroots 1` / `.rootids 1` without `.nnodes` is rejected (class `root-range`), with
`.nnodes 1` accepted -/
example : parseHeaderN (kNroots ++ [32, 49, 10] ++ kRootids ++ [32, 49, 10] ++ kNodes ++ [10]) = .error .rootRange := by
  decide
example : kNnodes ∉ headerKeys 40 (kNroots ++ [32, 49, 10] ++ kRootids ++ [32, 49, 10] ++ kNodes ++ [10]) := by
  decide
example : parseHeaderN (kNnodes ++ [32, 49, 10] ++ kNroots ++ [32, 49, 10] ++ kRootids ++ [32, 49, 10] ++ kNodes ++ [10])
    = .ok ({ nnodes := 1, rootids := [1], lines := 4 }, []) := by decide

/-! ## the allocation proportional to `.nvars` (code before commit 5fa35fa) -/

/-- bytes of `vec![0u32; header.nvars as usize]` that the code BEFORE commit 5fa35fa allocated and
wrote for every input that passes the count and `.ids` checks (old import.rs line 210) -/
def levelCountBytesBeforeFix (h : Header) : Nat := 4 * h.nvars

def allocWitness : List Nat := kNvars ++ 32 :: decBytes 4294967295 ++ [10] ++ kNodes ++ [10]

/-- **finding (resource), fixed by /repo commit 5fa35fa.** A 25-byte input is accepted (before and
after the fix) and made the old `load` allocate and touch `4 · (2^32 − 1)` bytes ≈ 16 GiB: the
allocation was bounded by the type of `.nvars` only (SIGABRT under a memory limit, 60 s / 16 GiB
without). The code now takes the level positions from the sorted `.permids`
(`levelPos`, `PropertiesHeaderAlloc.alloc_bounded_by_input`); the stream runs this very input
(case family `nvhuge`, oracle `header-alloc-by-nvars`). -/
theorem alloc_not_bounded_by_input_before_fix :
    allocWitness.length = 25 ∧
    parseHeaderN allocWitness = .ok ({ nvars := 4294967295, lines := 2 }, []) ∧
    levelCountBytesBeforeFix { nvars := 4294967295, lines := 2 } = 17179869180 := by
  refine ⟨by decide, by decide +kernel, by decide⟩

end OxiddModel.Dddmp.Hdr
