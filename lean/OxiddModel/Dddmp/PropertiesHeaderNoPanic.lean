import OxiddModel.Dddmp.LemmasHeaderNoPanic
import OxiddModel.Dddmp.PropertiesHeader

/-!
# C15, header: `DumpHeader::load` never panics (model level)

The only `panic` site of `load` that the model represents as a result is the
`non_suppvarnames.next().unwrap()` of the 2.0-style name reconstruction (class `unwrapNone`, printed
as `PANIC` by the driver). `parseHeaderN_never_panics`: no input reaches it. The index expressions
`header.varnames[id]`, `orderedvarnames[permid]`, `level_count[level]`, `support_var_order[pos]` are
total (`getD` / `set`) in the model; `index_safety` states that on every path that reaches them the
indices are in range (so the model's totality does not hide a panic).
-/
namespace OxiddModel.Dddmp.Hdr
open OxiddModel.Dddmp

/-! ## names produced by `parse_str_list` are non-empty -/

theorem utf8LossyGo_ne_nil : ∀ (fuel : Nat) (s acc : List Nat), acc ≠ [] → utf8LossyGo fuel s acc ≠ [] := by
  intro fuel
  induction fuel with
  | zero => intro s acc h; unfold utf8LossyGo; simpa using h
  | succ fuel ih =>
    intro s acc h
    unfold utf8LossyGo
    cases s with
    | nil => simpa using h
    | cons b0 r =>
      simp only
      repeat' split
      all_goals (apply ih; simp)

theorem utf8Lossy_ne_nil {s : List Nat} (h : s ≠ []) : utf8Lossy s ≠ [] := by
  unfold utf8Lossy
  cases s with
  | nil => exact absurd rfl h
  | cons b0 r =>
    unfold utf8LossyGo
    simp only
    repeat' split
    all_goals (apply utf8LossyGo_ne_nil; simp)

theorem parseStrListRaw_go_ne : ∀ (s cur : List Nat), ∀ e ∈ parseStrListRaw.go cur s, e ≠ [] := by
  intro s
  induction s with
  | nil =>
    intro cur e he
    unfold parseStrListRaw.go at he
    split at he
    · cases he
    · rename_i hc
      simp only [List.mem_singleton] at he
      subst he
      simpa using hc
  | cons c r ih =>
    intro cur e he
    unfold parseStrListRaw.go at he
    split at he
    · split at he
      · exact ih [] e he
      · rename_i hc
        rcases List.mem_cons.mp he with he | he
        · subst he; simpa using hc
        · exact ih [] e he
    · exact ih _ e he

theorem parseStrList_ne (s : List Nat) : ∀ e ∈ parseStrList s, e ≠ [] := by
  intro e he
  unfold parseStrList at he
  obtain ⟨x, hx, rfl⟩ := List.mem_map.mp he
  exact utf8Lossy_ne_nil (parseStrListRaw_go_ne s [] x hx)

theorem ovn_ne_inv {acc a : HdrAcc} {key value : List Nat} (hb : ∀ x ∈ acc.orderedvarnames, x ≠ [])
    (h : applyKV acc key value = .cont a) : ∀ x ∈ a.orderedvarnames, x ≠ [] := by
  cases applyKV_accepts h with
  | ovn => exact parseStrList_ne value
  | _ => exact hb

/-! ## no parser error is the panic class -/

theorem parseSingleGo_err (max : Nat) : ∀ (s : List Nat) (res : Nat) (num : Bool) (e : HErr),
    parseSingleGo max res num s = .error e → e ≠ .unwrapNone := by
  intro s
  induction s with
  | nil =>
    intro res num e h
    unfold parseSingleGo at h
    split at h
    · cases h
    · injection h with h; subst h; decide
  | cons c r ih =>
    intro res num e h
    unfold parseSingleGo at h
    split at h
    · simp only at h
      split at h
      · injection h with h; subst h; decide
      · exact ih _ _ _ h
    · injection h with h; subst h; decide

theorem parseU32ListGo_err : ∀ (s : List Nat) (i : Nat) (num : Bool) (acc : List Nat) (e : HErr),
    parseU32ListGo i num acc s = .error e → e ≠ .unwrapNone := by
  intro s
  induction s with
  | nil => intro i num acc e h; unfold parseU32ListGo at h; cases h
  | cons c r ih =>
    intro i num acc e h
    unfold parseU32ListGo at h
    split at h
    · simp only at h
      split at h
      · injection h with h; subst h; decide
      · exact ih _ _ _ _ h
    · split at h
      · split at h
        · exact ih _ _ _ _ h
        · exact ih _ _ _ _ h
      · injection h with h; subst h; decide

theorem parseEdgeListGo_err : ∀ (s : List Nat) (i : Nat) (neg num : Bool) (acc : List Int) (e : HErr),
    parseEdgeListGo i neg num acc s = .error e → e ≠ .unwrapNone := by
  intro s
  induction s with
  | nil => intro i neg num acc e h; unfold parseEdgeListGo at h; cases h
  | cons c r ih =>
    intro i neg num acc e h
    unfold parseEdgeListGo at h
    split at h
    · simp only at h
      split at h
      · injection h with h; subst h; decide
      · exact ih _ _ _ _ _ h
    · split at h
      · split at h
        · injection h with h; subst h; decide
        · split at h
          · injection h with h; subst h; decide
          · exact ih _ _ _ _ _ h
      · split at h
        · split at h
          · exact ih _ _ _ _ _ h
          · exact ih _ _ _ _ _ h
        · injection h with h; subst h; decide

theorem onParse_fail {α : Type} {r : Except HErr α} {f : α → HdrAcc} {e : HErr}
    (h : onParse r f = .fail e) : r = .error e := by
  unfold onParse at h
  split at h
  · cases h
  · injection h with h; subst h; rfl

theorem applyKV_fail {acc : HdrAcc} {key value : List Nat} {e : HErr}
    (h : applyKV acc key value = .fail e) : e ≠ .unwrapNone := by
  unfold applyKV at h
  by_cases hk : key = kVer
  · rw [if_pos hk] at h
    unfold versionLine at h
    split at h
    · cases h
    · injection h with h; subst h; decide
  rw [if_neg hk] at h; clear hk
  by_cases hk : key = kMode
  · rw [if_pos hk] at h
    unfold modeLine at h
    split at h
    · cases h
    · split at h
      · cases h
      · injection h with h; subst h; decide
  rw [if_neg hk] at h; clear hk
  by_cases hk : key = kVarinfo
  · rw [if_pos hk] at h
    unfold varinfoLine at h
    split at h
    · split at h
      · cases h
      · injection h with h; subst h; decide
    · injection h with h; subst h; decide
  rw [if_neg hk] at h; clear hk
  by_cases hk : key = kDd
  · rw [if_pos hk] at h; cases h
  rw [if_neg hk] at h; clear hk
  by_cases hk : key = kNnodes
  · rw [if_pos hk] at h; exact parseSingleGo_err _ _ _ _ _ (onParse_fail h)
  rw [if_neg hk] at h; clear hk
  by_cases hk : key = kNvars
  · rw [if_pos hk] at h; exact parseSingleGo_err _ _ _ _ _ (onParse_fail h)
  rw [if_neg hk] at h; clear hk
  by_cases hk : key = kNsuppvars
  · rw [if_pos hk] at h; exact parseSingleGo_err _ _ _ _ _ (onParse_fail h)
  rw [if_neg hk] at h; clear hk
  by_cases hk : key = kVarnames
  · rw [if_pos hk] at h; cases h
  rw [if_neg hk] at h; clear hk
  by_cases hk : key = kSuppvarnames
  · rw [if_pos hk] at h; cases h
  rw [if_neg hk] at h; clear hk
  by_cases hk : key = kOrderedvarnames
  · rw [if_pos hk] at h; cases h
  rw [if_neg hk] at h; clear hk
  by_cases hk : key = kIds
  · rw [if_pos hk] at h; exact parseU32ListGo_err _ _ _ _ _ (onParse_fail h)
  rw [if_neg hk] at h; clear hk
  by_cases hk : key = kPermids
  · rw [if_pos hk] at h; exact parseU32ListGo_err _ _ _ _ _ (onParse_fail h)
  rw [if_neg hk] at h; clear hk
  by_cases hk : key = kAuxids
  · rw [if_pos hk] at h; exact parseU32ListGo_err _ _ _ _ _ (onParse_fail h)
  rw [if_neg hk] at h; clear hk
  by_cases hk : key = kNroots
  · rw [if_pos hk] at h; exact parseSingleGo_err _ _ _ _ _ (onParse_fail h)
  rw [if_neg hk] at h; clear hk
  by_cases hk : key = kRootids
  · rw [if_pos hk] at h; exact parseEdgeListGo_err _ _ _ _ _ _ (onParse_fail h)
  rw [if_neg hk] at h; clear hk
  by_cases hk : key = kRootnames
  · rw [if_pos hk] at h; cases h
  rw [if_neg hk] at h; clear hk
  by_cases hk : key = kNodes
  · rw [if_pos hk] at h; cases h
  · rw [if_neg hk] at h; injection h with h; subst h; decide

theorem loadLinesC_err : ∀ (f : Nat) (acc : HdrAcc) (lineNo : Nat) (inp : List Nat) (e : HErr),
    loadLinesC f acc lineNo inp = .error e → e ≠ .unwrapNone := by
  intro f
  induction f with
  | zero => intro acc lineNo inp e h; injection h with h; subst h; decide
  | succ f ih =>
    intro acc lineNo inp e h
    unfold loadLinesC at h
    cases hr : readLine inp with
    | none => rw [hr] at h; injection h with h; subst h; decide
    | some p =>
      obtain ⟨ln, rest1⟩ := p
      rw [hr] at h
      simp only at h
      cases hl : applyLine acc ln with
      | cont a1 => rw [hl] at h; exact ih _ _ _ _ h
      | stop => rw [hl] at h; cases h
      | fail e' => rw [hl] at h; injection h with h; subst h; exact applyKV_fail hl

theorem permCheck_err (nvars : Nat) : ∀ (l seen : List Nat) (e : HErr), permCheck nvars l seen = some e →
    e ≠ .unwrapNone := by
  intro l
  induction l with
  | nil => intro seen e h; cases h
  | cons a r ih =>
    intro seen e h
    unfold permCheck at h
    split at h
    · injection h with h; subst h; decide
    · split at h
      · injection h with h; subst h; decide
      · exact ih _ _ h

theorem rootCheck_err (nnodes : Nat) : ∀ (l : List Int) (e : HErr), rootCheck nnodes l = some e → e ≠ .unwrapNone := by
  intro l
  induction l with
  | nil => intro e h; cases h
  | cons a r ih =>
    intro e h
    unfold rootCheck at h
    split at h
    · injection h with h; subst h; decide
    · split at h
      · injection h with h; subst h; decide
      · exact ih _ h

/-- the name reconciliation does not panic once the preceding checks have passed -/
theorem namesC_no_panic {h : Header} {svn ovn : List (List Nat)}
    (hasc : h.ids = [] ∨ isStrictlyAscending h.ids = true) (hidlt : ∀ v ∈ h.ids, v < h.nvars)
    (hlen : h.permids.length = h.ids.length) (hplt : ∀ l ∈ h.permids, l < h.nvars)
    (hovn : ovn = [] ∨ ovn.length = h.nvars) (hne : ∀ x ∈ ovn, x ≠ []) :
    namesC h svn ovn ≠ .error .unwrapNone := by
  unfold namesC
  by_cases h1 : h.varnames = []
  · rw [if_pos h1]
    by_cases h2 : ovn = []
    · rw [if_pos h2]
      split
      · exact fun hh => nomatch hh
      · split
        · intro hh; injection hh with hh; cases hh
        · exact fun hh => nomatch hh
    · rw [if_neg h2]
      have hasc' : isStrictlyAscending h.ids = true := by
        rcases hasc with h0 | h0
        · rw [h0]; rfl
        · exact h0
      have hovn' : ovn.length = h.nvars := by rcases hovn with h0 | h0; exact absurd h0 h2; exact h0
      have := namesFromOrdered_isSome h.nvars h.ids h.permids ovn hasc' hidlt hlen hplt hovn' hne
      cases hf : namesFromOrdered h.nvars h.ids h.permids ovn with
      | none => exact absurd hf this
      | some vn =>
        simp only
        split
        · intro hh; injection hh with hh; cases hh
        · exact fun hh => nomatch hh
  · rw [if_neg h1]
    split
    · intro hh; injection hh with hh; cases hh
    · split
      · intro hh; injection hh with hh; cases hh
      · split
        · intro hh; injection hh with hh; cases hh
        · exact fun hh => nomatch hh

theorem validateC_no_panic {acc : HdrAcc} (n : Nat) (hne : ∀ x ∈ acc.orderedvarnames, x ≠ []) :
    validateC acc n ≠ .error .unwrapNone := by
  intro hv
  unfold validateC at hv
  by_cases c1 : acc.nsuppvars > acc.h.nvars
  · rw [if_pos c1] at hv; injection hv with hv; cases hv
  rw [if_neg c1] at hv
  by_cases c2 : acc.h.ids.length ≠ acc.nsuppvars
  · rw [if_pos c2] at hv; injection hv with hv; cases hv
  rw [if_neg c2] at hv
  by_cases c3 : acc.h.permids.length ≠ acc.nsuppvars
  · rw [if_pos c3] at hv; injection hv with hv; cases hv
  rw [if_neg c3] at hv
  by_cases c4 : acc.h.auxids ≠ [] ∧ acc.h.auxids.length ≠ acc.nsuppvars
  · rw [if_pos c4] at hv; injection hv with hv; cases hv
  rw [if_neg c4] at hv
  by_cases c5 : acc.h.ids ≠ [] ∧ isStrictlyAscending acc.h.ids = false
  · rw [if_pos c5] at hv; injection hv with hv; cases hv
  rw [if_neg c5] at hv
  by_cases c6 : acc.h.ids ≠ [] ∧ acc.h.ids.getLast! ≥ acc.h.nvars
  · rw [if_pos c6] at hv; injection hv with hv; cases hv
  rw [if_neg c6] at hv
  cases c7 : permCheck acc.h.nvars acc.h.permids [] with
  | some e =>
    simp only [c7] at hv
    injection hv with hv
    exact permCheck_err _ _ _ _ c7 hv
  | none =>
    simp only [c7] at hv
    by_cases c8 : acc.orderedvarnames ≠ [] ∧ acc.orderedvarnames.length ≠ acc.h.nvars
    · rw [if_pos c8] at hv; injection hv with hv; cases hv
    rw [if_neg c8] at hv
    by_cases c9 : acc.suppvarnames ≠ [] ∧ acc.suppvarnames.length ≠ acc.nsuppvars
    · rw [if_pos c9] at hv; injection hv with hv; cases hv
    rw [if_neg c9] at hv
    have hasc : acc.h.ids = [] ∨ isStrictlyAscending acc.h.ids = true := by
      by_cases hi : acc.h.ids = []
      · exact Or.inl hi
      · right
        cases hb : isStrictlyAscending acc.h.ids with
        | true => rfl
        | false => exact absurd ⟨hi, hb⟩ c5
    have hidlt : ∀ v ∈ acc.h.ids, v < acc.h.nvars := by
      intro v hv'
      have hne' : acc.h.ids ≠ [] := by intro h0; rw [h0] at hv'; cases hv'
      have hasc' : isStrictlyAscending acc.h.ids = true := by
        rcases hasc with h0 | h0; exact absurd h0 hne'; exact h0
      have h1 := asc_le_getLast acc.h.ids 0 hasc' v hv'
      rw [← getLast!_eq_getLastD _ hne'] at h1
      have : ¬ acc.h.ids.getLast! ≥ acc.h.nvars := fun hge => c6 ⟨hne', hge⟩
      omega
    have hperm := permCheck_none _ _ _ c7
    have hnp := namesC_no_panic (h := acc.h) (svn := acc.suppvarnames) (ovn := acc.orderedvarnames)
      hasc hidlt (by omega) (fun l hl => (hperm.1 l hl).1) (not_and_ne c8) hne
    cases c10 : namesC acc.h acc.suppvarnames acc.orderedvarnames with
    | error e =>
      simp only [c10] at hv
      injection hv with hv
      subst hv
      exact hnp c10
    | ok vn =>
      simp only [c10] at hv
      unfold rootsPart at hv
      by_cases c11 : acc.h.rootids.length ≠ acc.nroots
      · rw [if_pos c11] at hv; injection hv with hv; cases hv
      rw [if_neg c11] at hv
      cases c12 : rootCheck acc.h.nnodes acc.h.rootids with
      | some e =>
        simp only [c12] at hv
        injection hv with hv
        exact rootCheck_err _ _ _ c12 hv
      | none =>
        simp only [c12] at hv
        by_cases c13 : acc.h.rootnames ≠ [] ∧ acc.h.rootnames.length ≠ acc.nroots
        · rw [if_pos c13] at hv; injection hv with hv; cases hv
        rw [if_neg c13] at hv
        cases hv

/-- **parseHeaderN_never_panics.** For every input the model of `DumpHeader::load` returns a header
or one of the error classes — never the class that stands for the `unwrap` panic. (With `.ids` only
checked for `<=`, the unwrap fails on `.ids 1 1`: mutation M1 in REPORT.md and seed R4-C15.) -/
theorem parseHeaderN_never_panics (inp : List Nat) : parseHeaderN inp ≠ .error .unwrapNone := by
  intro hp
  unfold parseHeaderN at hp
  cases hl : loadLinesC (inp.length + 1) {} 1 inp with
  | error e =>
    rw [hl] at hp
    injection hp with hp
    exact loadLinesC_err _ _ _ _ _ hl hp
  | ok r =>
    obtain ⟨acc, n, rest'⟩ := r
    rw [hl] at hp
    simp only at hp
    have hne : ∀ x ∈ acc.orderedvarnames, x ≠ [] :=
      loadLinesC_inv (fun a => ∀ x ∈ a.orderedvarnames, x ≠ []) (fun _ _ _ _ hb h => ovn_ne_inv hb h)
        _ {} 1 inp acc n rest' (fun x hx => nomatch hx) hl
    cases hv : validateC acc n with
    | error e =>
      rw [hv] at hp
      injection hp with hp
      subst hp
      exact validateC_no_panic n hne hv
    | ok h' => rw [hv] at hp; cases hp

/-- **index_safety.** Whenever the validation reaches the name reconciliation (all earlier clauses
hold), every index it uses is in range: `id < nvars` for `varnames[id]` (length `nvars`),
`permid < nvars` for `orderedvarnames[permid]` (length `nvars` when present) and `level_count[permid]`,
and `levelPos permids permid < nsuppvars` for `support_var_order[…]`. -/
theorem index_safety {acc : HdrAcc} (v : Valid acc) :
    (∀ p ∈ acc.h.ids.zip acc.h.permids, p.1 < acc.h.nvars ∧ p.2 < acc.h.nvars ∧
      levelPos acc.h.permids p.2 < acc.nsuppvars) ∧
    (acc.orderedvarnames = [] ∨ acc.orderedvarnames.length = acc.h.nvars) := by
  have hperm := permCheck_none _ _ _ v.perm
  refine ⟨?_, v.cOrdered⟩
  intro p hp
  have hm := List.of_mem_zip hp
  have hasc : isStrictlyAscending acc.h.ids = true := by
    rcases v.idsAsc with h | h
    · rw [h]; rfl
    · exact h
  have hne : acc.h.ids ≠ [] := by intro h0; rw [h0] at hm; cases hm.1
  refine ⟨?_, (hperm.1 p.2 hm.2).1, ?_⟩
  · rcases v.idsRange with h | h
    · exact absurd h hne
    · have := asc_le_getLast acc.h.ids 0 hasc p.1 hm.1
      rw [getLast!_eq_getLastD _ hne] at h
      omega
  · -- strictly fewer than all levels are below `p.2`, because `p.2` itself is one of them
    unfold levelPos
    rw [← v.cPermids]
    have hsub : (acc.h.permids.filter (· < p.2)).length < acc.h.permids.length := by
      have hlt : ∀ (l : List Nat), p.2 ∈ l → (l.filter (· < p.2)).length < l.length := by
        intro l
        induction l with
        | nil => intro h; cases h
        | cons a r ih =>
          intro h
          by_cases ha : a < p.2
          · rw [List.filter_cons_of_pos (by simpa using ha)]
            rcases List.mem_cons.mp h with h | h
            · omega
            · have := ih h; simp only [List.length_cons]; omega
          · rw [List.filter_cons_of_neg (by simpa using ha)]
            have := List.length_filter_le (· < p.2) r
            simp only [List.length_cons]; omega
      exact hlt _ hm.2
    exact hsub

end OxiddModel.Dddmp.Hdr
