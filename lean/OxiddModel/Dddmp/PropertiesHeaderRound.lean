import OxiddModel.Dddmp.LemmasHeaderLines

/-!
# C15, header round trip on bytes: what the writer emits is read back as the same header

`header_roundtrip`: for every well-formed header record `h` (`HeaderOk`) that the format can carry
(`Carriable`: names without blanks / control characters and valid UTF-8, i.e. after the exporter's
sanitising; no `.auxids`, which the exporter never writes) and every continuation `body` (the node
section): `parseHeaderN (writeHeaderN ws h l2v ++ body) = .ok (h, body)` — every field of the
header survives, the reader stops exactly behind the `.nodes` line.

Cut (stated, not hidden): the variable-name lines are covered for headers without names
(`h.varnames = []`); see REPORT.md for the 2.0-format limitation on names of non-support variables.
-/
namespace OxiddModel.Dddmp.Hdr
open OxiddModel.Dddmp
open OxiddModel.Mtbdd.TermText (utf8Lossy_ascii)

theorem kvLine_append (k v rest : List Nat) : kvLine k v ++ rest = (k ++ v) ++ 10 :: rest := by
  simp [kvLine, nl]

theorem onParse_ok {α : Type} (r : Except HErr α) (f : α → HdrAcc) (v : α) (h : r = .ok v) :
    onParse r f = .cont (f v) := by
  rw [h]; rfl

/-- a `key N` line -/
theorem step_single (key : List Nat) (hk : ∀ b ∈ key, isBlank b = false) (hkc : ∀ b ∈ key, b ≠ 10 ∧ b ≠ 13)
    (max : Nat) (set : HdrAcc → Nat → HdrAcc)
    (hkv : ∀ acc v, applyKV acc key v = onParse (parseSingleC max v) (set acc))
    (acc : HdrAcc) (n v : Nat) (hv : v ≤ max) (rest : List Nat) :
    loadAll acc n (kvLine key (sp :: decBytes v) ++ rest) = loadAll (set acc v) (n + 1) rest := by
  rw [kvLine_append]
  apply loadAll_line
  · intro b hb
    rcases List.mem_append.mp hb with hb | hb
    · exact hkc b hb
    · rcases List.mem_cons.mp hb with hb | hb
      · subst hb; decide
      · exact decBytes_clean v b hb
  · unfold applyLine
    show applyKV acc (keyValue (key ++ 32 :: decBytes v)).1 (keyValue (key ++ 32 :: decBytes v)).2 = _
    rw [keyValue_key_dec key v hk, hkv]
    exact onParse_ok _ _ _ (parseSingleC_decBytes max v hv)

/-- a `key x1 x2 …` line of unsigned numbers -/
theorem step_u32list (key : List Nat) (hk : ∀ b ∈ key, isBlank b = false) (hkc : ∀ b ∈ key, b ≠ 10 ∧ b ≠ 13)
    (set : HdrAcc → List Nat → HdrAcc)
    (hkv : ∀ acc v, applyKV acc key v = onParse (parseU32ListC v) (set acc))
    (acc : HdrAcc) (n : Nat) (xs : List Nat) (hxs : ∀ y ∈ xs, y ≤ u32Max) (rest : List Nat) :
    loadAll acc n (kvLine key (joinSp (xs.map decBytes)) ++ rest) = loadAll (set acc xs) (n + 1) rest := by
  rw [kvLine_append]
  apply loadAll_line
  · intro b hb
    rcases List.mem_append.mp hb with hb | hb
    · exact hkc b hb
    · refine joinSp_clean _ ?_ b hb
      intro t ht
      obtain ⟨z, _, rfl⟩ := List.mem_map.mp ht
      exact decBytes_clean z
  · unfold applyLine
    obtain ⟨h1, h2⟩ := parseU32ListC_written xs hxs key hk
    rw [h1, hkv]
    exact onParse_ok _ _ _ h2

/-- the `.rootids` line -/
theorem step_edgelist (acc : HdrAcc) (n : Nat) (xs : List Int) (hxs : ∀ y ∈ xs, y.natAbs ≤ isizeMax)
    (rest : List Nat) :
    loadAll acc n (kvLine kRootids (joinSp (xs.map intBytes)) ++ rest) = loadAll (setRootids acc xs) (n + 1) rest := by
  rw [kvLine_append]
  apply loadAll_line
  · intro b hb
    rcases List.mem_append.mp hb with hb | hb
    · exact (by decide : ∀ b ∈ kRootids, b ≠ 10 ∧ b ≠ 13) b hb
    · refine joinSp_clean _ ?_ b hb
      intro t ht
      obtain ⟨z, _, rfl⟩ := List.mem_map.mp ht
      exact intBytes_clean' z
  · unfold applyLine
    obtain ⟨h1, h2⟩ := parseEdgeListC_written xs hxs kRootids (by decide)
    rw [h1, applyKV_rootids]
    exact onParse_ok _ _ _ h2

/-- the `.rootnames` line -/
theorem step_rootnames (acc : HdrAcc) (n : Nat) (ns : List (List Nat)) (hns : ∀ t ∈ ns, NameOk t)
    (rest : List Nat) :
    loadAll acc n (kvLine kRootnames (joinSp ns) ++ rest) = loadAll (setRootnames acc ns) (n + 1) rest := by
  rw [kvLine_append]
  apply loadAll_line
  · intro b hb
    rcases List.mem_append.mp hb with hb | hb
    · exact (by decide : ∀ b ∈ kRootnames, b ≠ 10 ∧ b ≠ 13) b hb
    · exact joinSp_clean _ (fun t ht => (hns t ht).2.1) b hb
  · unfold applyLine
    obtain ⟨h1, h2⟩ := parseStrList_written ns hns kRootnames (by decide)
    rw [h1, applyKV_rootnames, h2]

theorem step_ver (acc : HdrAcc) (n : Nat) (v3 : Bool) (rest : List Nat) :
    loadAll acc n (kvLine kVer (sp :: (if v3 then vV3 else vV2)) ++ rest) = loadAll acc (n + 1) rest := by
  rw [kvLine_append]
  cases v3
  · apply loadAll_line _ _ (by decide)
    unfold applyLine
    have hk : keyValue (kVer ++ sp :: (if false = true then vV3 else vV2)) = (kVer, vV2) := by decide
    rw [hk, applyKV_ver]
    rfl
  · apply loadAll_line _ _ (by decide)
    unfold applyLine
    have hk : keyValue (kVer ++ sp :: (if true = true then vV3 else vV2)) = (kVer, vV3) := by decide
    rw [hk, applyKV_ver]
    rfl

theorem step_mode (acc : HdrAcc) (n : Nat) (a : Bool) (rest : List Nat) :
    loadAll acc n (kvLine kMode (sp :: (if a then [65] else [66])) ++ rest) = loadAll (setAscii acc a) (n + 1) rest := by
  rw [kvLine_append]
  cases a
  · apply loadAll_line _ _ (by decide)
    unfold applyLine
    have hk : keyValue (kMode ++ sp :: (if false = true then [65] else [66])) = (kMode, [66]) := by decide
    rw [hk, applyKV_mode]
    rfl
  · apply loadAll_line _ _ (by decide)
    unfold applyLine
    have hk : keyValue (kMode ++ sp :: (if true = true then [65] else [66])) = (kMode, [65]) := by decide
    rw [hk, applyKV_mode]
    rfl

theorem step_varinfo (acc : HdrAcc) (n v : Nat) (hv : v ≤ 4) (rest : List Nat) :
    loadAll acc n (kvLine kVarinfo (sp :: decBytes v) ++ rest) = loadAll (setVarinfo acc v) (n + 1) rest := by
  rw [kvLine_append]
  have h5 : v = 0 ∨ v = 1 ∨ v = 2 ∨ v = 3 ∨ v = 4 := by omega
  rcases h5 with rfl | rfl | rfl | rfl | rfl <;>
  · apply loadAll_line _ _ (by decide)
    unfold applyLine
    have hk := fun v => keyValue_key_dec kVarinfo v (by decide)
    show applyKV acc (keyValue (kVarinfo ++ 32 :: decBytes _)).1 (keyValue (kVarinfo ++ 32 :: decBytes _)).2 = _
    rw [hk, applyKV_varinfo]
    rfl

/-- a diagram name the format can carry: no leading/trailing blank, no CR/LF, valid UTF-8
(inner blanks are fine) -/
def DdOk (dd : List Nat) : Prop := EndsOk dd ∧ (∀ b ∈ dd, b ≠ 10 ∧ b ≠ 13) ∧ utf8Lossy dd = dd

theorem step_dd (acc : HdrAcc) (n : Nat) (dd : List Nat) (h : DdOk dd) (rest : List Nat) :
    loadAll acc n (kvLine kDd (sp :: dd) ++ rest) = loadAll (setDd acc dd) (n + 1) rest := by
  rw [kvLine_append]
  apply loadAll_line
  · intro b hb
    rcases List.mem_append.mp hb with hb | hb
    · exact (by decide : ∀ b ∈ kDd, b ≠ 10 ∧ b ≠ 13) b hb
    · rcases List.mem_cons.mp hb with hb | hb
      · subst hb; decide
      · exact h.2.1 b hb
  · unfold applyLine
    show applyKV acc (keyValue (kDd ++ 32 :: dd)).1 (keyValue (kDd ++ 32 :: dd)).2 = _
    rw [keyValue_sp kDd dd (by decide), trim_endsOk h.1, applyKV_dd, h.2.2]

/-- what the format (as written by `export_common`) can carry of a header record -/
structure Carriable (h : Header) : Prop where
  /-- the exporter never writes `.auxids` (TODO in export.rs) -/
  aux : h.auxids = []
  /-- cut of this theorem: no variable names -/
  noNames : h.varnames = []
  dd : h.dd = [] ∨ DdOk h.dd
  rootnames : ∀ t ∈ h.rootnames, NameOk t
  /-- number of lines up to and including `.nodes` -/
  lines : h.lines = 11 + (if h.dd ≠ [] then 1 else 0) + (if h.rootnames ≠ [] then 1 else 0)

/-- the accumulator after all lines of `writeHeaderN` -/
def accOf (h : Header) : HdrAcc :=
  { h := { ascii := h.ascii, varinfo := h.varinfo, dd := h.dd, nnodes := h.nnodes, nvars := h.nvars,
           ids := h.ids, permids := h.permids, rootids := h.rootids, rootnames := h.rootnames },
    nsuppvars := h.ids.length, nroots := h.rootids.length }

theorem loadAll_written (ws : WSettings) (h : Header) (l2v : List Nat) (ok : HeaderOk h) (c : Carriable h)
    (body : List Nat) : loadAll {} 1 (writeHeaderN ws h l2v ++ body) = .ok (accOf h, h.lines, body) := by
  have hidsB : ∀ y ∈ h.ids, y ≤ u32Max := fun y hy => by have := ok.idsLt y hy; have := ok.nvars; omega
  have hpermB : ∀ y ∈ h.permids, y ≤ u32Max := fun y hy => by have := ok.permLt y hy; have := ok.nvars; omega
  have hrootB : ∀ y ∈ h.rootids, y.natAbs ≤ isizeMax := fun y hy => (ok.roots y hy).2.2
  have hnsupp : h.ids.length ≤ u32Max := by have := ok.nsupp; have := ok.nvars; omega
  unfold writeHeaderN nameLines
  rw [if_pos c.noNames]
  simp only [List.append_assoc, List.nil_append]
  rw [step_ver, step_mode, step_varinfo _ _ _ ok.varinfo]
  by_cases hdd : h.dd = []
  · by_cases hrn : h.rootnames = []
    · rw [if_neg (by simpa using hdd), if_neg (by simpa using hrn)]
      simp only [List.nil_append]
      rw [step_single kNnodes (by decide) (by decide) _ _ applyKV_nnodes _ _ _ (by have := ok.nnodes; unfold usize64 at *; omega),
        step_single kNvars (by decide) (by decide) _ _ applyKV_nvars _ _ _ ok.nvars,
        step_single kNsuppvars (by decide) (by decide) _ _ applyKV_nsupp _ _ _ hnsupp,
        step_u32list kIds (by decide) (by decide) _ applyKV_ids _ _ _ hidsB,
        step_u32list kPermids (by decide) (by decide) _ applyKV_permids _ _ _ hpermB,
        step_single kNroots (by decide) (by decide) _ _ applyKV_nroots _ _ _ (by have := ok.nroots; unfold usize64 at *; omega),
        step_edgelist _ _ _ hrootB]
      show loadAll _ _ ((kNodes ++ []) ++ 10 :: body) = _
      rw [List.append_nil, loadAll_nodes]
      have hl := c.lines
      rw [if_neg (by simpa using hdd), if_neg (by simpa using hrn)] at hl
      simp only [Nat.add_zero] at hl
      rw [hl]
      simp only [accOf, setRootids, setNroots, setPermids, setIds, setNsupp, setNvars, setNnodes, setVarinfo,
        setAscii, hdd, hrn]
    · rw [if_neg (by simpa using hdd), if_pos hrn]
      simp only [List.nil_append]
      rw [step_single kNnodes (by decide) (by decide) _ _ applyKV_nnodes _ _ _ (by have := ok.nnodes; unfold usize64 at *; omega),
        step_single kNvars (by decide) (by decide) _ _ applyKV_nvars _ _ _ ok.nvars,
        step_single kNsuppvars (by decide) (by decide) _ _ applyKV_nsupp _ _ _ hnsupp,
        step_u32list kIds (by decide) (by decide) _ applyKV_ids _ _ _ hidsB,
        step_u32list kPermids (by decide) (by decide) _ applyKV_permids _ _ _ hpermB,
        step_single kNroots (by decide) (by decide) _ _ applyKV_nroots _ _ _ (by have := ok.nroots; unfold usize64 at *; omega),
        step_edgelist _ _ _ hrootB, step_rootnames _ _ _ c.rootnames]
      show loadAll _ _ ((kNodes ++ []) ++ 10 :: body) = _
      rw [List.append_nil, loadAll_nodes]
      have hl := c.lines
      rw [if_neg (by simpa using hdd), if_pos hrn] at hl
      rw [hl]
      simp only [accOf, setRootnames, setRootids, setNroots, setPermids, setIds, setNsupp, setNvars, setNnodes,
        setVarinfo, setAscii, hdd]
  · have hddok : DdOk h.dd := by rcases c.dd with h0 | h0; exact absurd h0 hdd; exact h0
    by_cases hrn : h.rootnames = []
    · rw [if_pos hdd, if_neg (by simpa using hrn)]
      simp only [List.nil_append]
      rw [step_dd _ _ _ hddok,
        step_single kNnodes (by decide) (by decide) _ _ applyKV_nnodes _ _ _ (by have := ok.nnodes; unfold usize64 at *; omega),
        step_single kNvars (by decide) (by decide) _ _ applyKV_nvars _ _ _ ok.nvars,
        step_single kNsuppvars (by decide) (by decide) _ _ applyKV_nsupp _ _ _ hnsupp,
        step_u32list kIds (by decide) (by decide) _ applyKV_ids _ _ _ hidsB,
        step_u32list kPermids (by decide) (by decide) _ applyKV_permids _ _ _ hpermB,
        step_single kNroots (by decide) (by decide) _ _ applyKV_nroots _ _ _ (by have := ok.nroots; unfold usize64 at *; omega),
        step_edgelist _ _ _ hrootB]
      show loadAll _ _ ((kNodes ++ []) ++ 10 :: body) = _
      rw [List.append_nil, loadAll_nodes]
      have hl := c.lines
      rw [if_pos hdd, if_neg (by simpa using hrn)] at hl
      rw [hl]
      simp only [accOf, setRootids, setNroots, setPermids, setIds, setNsupp, setNvars, setNnodes, setDd,
        setVarinfo, setAscii, hrn]
    · rw [if_pos hdd, if_pos hrn]
      rw [step_dd _ _ _ hddok,
        step_single kNnodes (by decide) (by decide) _ _ applyKV_nnodes _ _ _ (by have := ok.nnodes; unfold usize64 at *; omega),
        step_single kNvars (by decide) (by decide) _ _ applyKV_nvars _ _ _ ok.nvars,
        step_single kNsuppvars (by decide) (by decide) _ _ applyKV_nsupp _ _ _ hnsupp,
        step_u32list kIds (by decide) (by decide) _ applyKV_ids _ _ _ hidsB,
        step_u32list kPermids (by decide) (by decide) _ applyKV_permids _ _ _ hpermB,
        step_single kNroots (by decide) (by decide) _ _ applyKV_nroots _ _ _ (by have := ok.nroots; unfold usize64 at *; omega),
        step_edgelist _ _ _ hrootB, step_rootnames _ _ _ c.rootnames]
      show loadAll _ _ ((kNodes ++ []) ++ 10 :: body) = _
      rw [List.append_nil, loadAll_nodes]
      have hl := c.lines
      rw [if_pos hdd, if_pos hrn] at hl
      rw [hl]
      simp only [accOf, setRootnames, setRootids, setNroots, setPermids, setIds, setNsupp, setNvars, setNnodes,
        setDd, setVarinfo, setAscii]

end OxiddModel.Dddmp.Hdr

namespace OxiddModel.Dddmp.Hdr
open OxiddModel.Dddmp

theorem valid_accOf {h : Header} (ok : HeaderOk h) : Valid (accOf h) := by
  refine ⟨ok.nsupp, rfl, ok.permLen, Or.inl rfl, Or.inr ok.idsAsc, ?_, ?_, Or.inl rfl, Or.inl rfl, rfl, ?_,
    ok.rootnames⟩
  · show h.ids = [] ∨ h.ids.getLast! < h.nvars
    cases hi : h.ids with
    | nil => exact Or.inl rfl
    | cons a r =>
      right
      have : (a :: r).getLast! ∈ h.ids := by rw [hi]; exact List.getLast_mem _
      exact ok.idsLt _ this
  · exact permCheck_of _ _ _ (fun x hx => ⟨ok.permLt x hx, fun hm => nomatch hm⟩) ok.permNodup
  · exact rootCheck_of _ _ (fun r hr => ⟨(ok.roots r hr).1, (ok.roots r hr).2.1⟩)

theorem finish_accOf {h : Header} (ok : HeaderOk h) (c : Carriable h) : finish (accOf h).h h.lines [] = h := by
  have h1 := ok.order
  have h2 := c.aux
  have h3 := c.noNames
  cases h with
  | mk ascii varinfo dd nnodes nvars ids svo permids auxids varnames rootids rootnames lines =>
    simp only at h1 h2 h3
    subst h1; subst h2; subst h3
    rfl

/-- **header_roundtrip.** For every header record `h` that is well-formed (`HeaderOk h`) and that
the format can carry (`Carriable h`), every version setting and every continuation `body`: reading
what the writer emits, followed by `body`, returns exactly `h` and leaves exactly `body` — mode,
`.varinfo`, diagram name, `.nnodes`, `.nvars`, support variables, their levels and order, root ids
(negative = complemented, BCDD), root names and the line count all survive. -/
theorem header_roundtrip (ws : WSettings) (h : Header) (l2v : List Nat) (ok : HeaderOk h) (c : Carriable h)
    (body : List Nat) : parseHeaderN (writeHeaderN ws h l2v ++ body) = .ok (h, body) := by
  rw [parseHeaderN_eq, loadAll_written ws h l2v ok c body]
  simp only
  have hn : namesC (accOf h).h (accOf h).suppvarnames (accOf h).orderedvarnames = .ok [] := by
    unfold namesC
    rw [if_pos (by rfl), if_pos (by rfl), if_pos (by rfl)]
  rw [validateC_of_valid h.lines (valid_accOf ok) hn, finish_accOf ok c]

/-- non-vacuity: a BCDD-style header (complemented root, reordered support, diagram name with an
inner blank, root names) satisfies the hypotheses; the bytes are what the exporter writes -/
def rtHeader : Header :=
  { ascii := false, dd := [97, 32, 98], nnodes := 5, nvars := 3, ids := [0, 2], permids := [2, 0],
    supportVarOrder := [2, 0], rootids := [5, -4], rootnames := [[102], [103]], lines := 13 }

example : HeaderOk rtHeader := by decide

theorem nameOk_ascii {t : List Nat} (hne : t ≠ []) (h : ∀ b ∈ t, 32 < b ∧ b < 127) : NameOk t := by
  refine ⟨⟨hne, ?_⟩, ?_, ?_⟩
  · intro b hb
    have := h b hb
    simp only [isBlank, Bool.or_eq_false_iff, decide_eq_false_iff_not]
    omega
  · intro b hb; have := h b hb; omega
  · exact OxiddModel.Mtbdd.TermText.utf8Lossy_ascii (fun b hb => by have := h b hb; omega)

theorem carriable_rtHeader : Carriable rtHeader := by
  refine ⟨rfl, rfl, Or.inr ⟨⟨?_, ?_⟩, by decide, ?_⟩, ?_, by decide⟩
  · intro c t hc; injection hc with h1 _; subst h1; decide
  · intro c t hc
    have : rtHeader.dd.reverse = [98, 32, 97] := by decide
    rw [this] at hc
    injection hc with h1 _; subst h1; decide
  · exact OxiddModel.Mtbdd.TermText.utf8Lossy_ascii (by decide)
  · intro t ht
    have : t = [102] ∨ t = [103] := by simpa [rtHeader] using ht
    rcases this with rfl | rfl
    · exact nameOk_ascii (by decide) (by decide)
    · exact nameOk_ascii (by decide) (by decide)

example : parseHeaderN (writeHeaderN {} rtHeader [] ++ [49, 32, 84]) = .ok (rtHeader, [49, 32, 84]) :=
  header_roundtrip {} rtHeader [] (by decide) carriable_rtHeader _

/-- the same on `UInt8`: all bytes the writer emits are below 256, so nothing is lost in the cast -/
theorem writeHeaderN_toNat_lt (ws : WSettings) (h : Header) (l2v : List Nat)
    (hb : ∀ b ∈ writeHeaderN ws h l2v, b < 256) :
    (writeHeader ws h l2v).map UInt8.toNat = writeHeaderN ws h l2v := by
  unfold writeHeader
  rw [List.map_map]
  have : ∀ (l : List Nat), (∀ b ∈ l, b < 256) → l.map (UInt8.toNat ∘ UInt8.ofNat) = l := by
    intro l
    induction l with
    | nil => intro _; rfl
    | cons a r ih =>
      intro hl
      rw [List.map_cons, ih (fun b hb => hl b (List.mem_cons_of_mem _ hb))]
      have ha := hl a (by simp)
      simp only [Function.comp, UInt8.toNat_ofNat']
      rw [Nat.mod_eq_of_lt (by simpa using ha)]
  exact this _ hb

/-- **header_roundtrip_bytes.** `List UInt8` form of the round trip (names are byte strings, so the
hypothesis "all written bytes are bytes" only concerns the names and the diagram name). -/
theorem header_roundtrip_bytes (ws : WSettings) (h : Header) (l2v : List Nat) (ok : HeaderOk h) (c : Carriable h)
    (hb : ∀ b ∈ writeHeaderN ws h l2v, b < 256) (body : List UInt8) :
    parseHeader (writeHeader ws h l2v ++ body) = .ok (h, body) := by
  unfold parseHeader
  rw [List.map_append, writeHeaderN_toNat_lt ws h l2v hb, header_roundtrip ws h l2v ok c]
  simp only
  congr 2
  simp

end OxiddModel.Dddmp.Hdr
