import OxiddModel.Dddmp.PropertiesHeaderRound

/-!
# C15, header round trip with variable names (format 3.0), and what format 2.0 cannot carry

`header_roundtrip_names`: like `header_roundtrip`, for headers with variable names written in
format 3.0 (`.varnames` + `.suppvarnames` + `.orderedvarnames`, as `export_common` does): every
name of every variable survives, provided the level order `l2v` given to the writer is consistent
with `.ids` / `.permids` (it is the manager's order in the exporter).

`v2_nonsupport_names_not_preserved`: in format 2.0 (no `.varnames` line) the names of variables
outside the support are assigned in level order — `.ids`/`.permids` only identify the support
variables (comment in import.rs, lines 265–267) — so they are permuted whenever the non-support
variables are not in level order. A concrete header shows it. The set of names and the names of
the support variables survive (harness oracle `rt-varnames`, counter
`rt-v2-nonsupport-names-permuted`).
-/
namespace OxiddModel.Dddmp.Hdr
open OxiddModel.Dddmp

/-- a `key n1 n2 …` line of names -/
theorem step_strlist (key : List Nat) (hk : ∀ b ∈ key, isBlank b = false) (hkc : ∀ b ∈ key, b ≠ 10 ∧ b ≠ 13)
    (set : HdrAcc → List (List Nat) → HdrAcc)
    (hkv : ∀ acc v, applyKV acc key v = .cont (set acc (parseStrList v)))
    (acc : HdrAcc) (n : Nat) (ns : List (List Nat)) (hns : ∀ t ∈ ns, NameOk t) (rest : List Nat) :
    loadAll acc n (kvLine key (joinSp ns) ++ rest) = loadAll (set acc ns) (n + 1) rest := by
  rw [kvLine_append]
  apply loadAll_line
  · intro b hb
    rcases List.mem_append.mp hb with hb | hb
    · exact hkc b hb
    · exact joinSp_clean _ (fun t ht => (hns t ht).2.1) b hb
  · unfold applyLine
    obtain ⟨h1, h2⟩ := parseStrList_written ns hns key hk
    rw [h1, hkv, h2]

/-- an optional line -/
theorem step_opt (c : Prop) [Decidable c] (acc a' : HdrAcc) (n : Nat) (L rest : List Nat)
    (hstep : c → loadAll acc n (L ++ rest) = loadAll a' (n + 1) rest) :
    loadAll acc n ((if c then L else []) ++ rest)
      = loadAll (if c then a' else acc) (n + (if c then 1 else 0)) rest := by
  by_cases hc : c
  · rw [if_pos hc, if_pos hc, if_pos hc]; exact hstep hc
  · rw [if_neg hc, if_neg hc, if_neg hc]; rfl

/-- what the format carries of the variable names: none, or (format 3.0) names that are legal
tokens together with a level order that agrees with `.ids` / `.permids` -/
def NamesCarriable (ws : WSettings) (h : Header) (l2v : List Nat) : Prop :=
  h.varnames = [] ∨
    (ws.v3 = true ∧ (∀ t ∈ h.varnames, NameOk t) ∧ l2v.length = h.nvars ∧ (∀ v ∈ l2v, v < h.nvars) ∧
      ∀ p ∈ h.ids.zip h.permids, l2v.getD p.2 0 = p.1)

structure CarriableN (ws : WSettings) (h : Header) (l2v : List Nat) : Prop where
  aux : h.auxids = []
  names : NamesCarriable ws h l2v
  dd : h.dd = [] ∨ DdOk h.dd
  rootnames : ∀ t ∈ h.rootnames, NameOk t
  lines : h.lines = 11 + (if h.dd ≠ [] then 1 else 0) + (if h.varnames ≠ [] then 3 else 0)
    + (if h.rootnames ≠ [] then 1 else 0)

abbrev svnOf (h : Header) : List (List Nat) := h.ids.map (fun v => h.varnames.getD v [])
abbrev ovnOf (h : Header) (l2v : List Nat) : List (List Nat) := l2v.map (fun v => h.varnames.getD v [])

/-- the accumulator after all lines -/
def accOfN (h : Header) (l2v : List Nat) : HdrAcc :=
  { h := { ascii := h.ascii, varinfo := h.varinfo, dd := h.dd, nnodes := h.nnodes, nvars := h.nvars,
           ids := h.ids, permids := h.permids, varnames := h.varnames, rootids := h.rootids,
           rootnames := h.rootnames },
    nsuppvars := h.ids.length, nroots := h.rootids.length,
    suppvarnames := if h.varnames = [] then [] else svnOf h,
    orderedvarnames := if h.varnames = [] then [] else ovnOf h l2v }

theorem getD_mem_of_lt {l : List (List Nat)} {i : Nat} (h : i < l.length) : l.getD i [] ∈ l := by
  rw [List.getD_eq_getElem?_getD, List.getElem?_eq_getElem h]
  exact List.getElem_mem _

theorem loadAll_writtenN (ws : WSettings) (h : Header) (l2v : List Nat) (ok : HeaderOk h)
    (c : CarriableN ws h l2v) (body : List Nat) :
    loadAll {} 1 (writeHeaderN ws h l2v ++ body) = .ok (accOfN h l2v, h.lines, body) := by
  have hidsB : ∀ y ∈ h.ids, y ≤ u32Max := fun y hy => by have := ok.idsLt y hy; have := ok.nvars; omega
  have hpermB : ∀ y ∈ h.permids, y ≤ u32Max := fun y hy => by have := ok.permLt y hy; have := ok.nvars; omega
  have hrootB : ∀ y ∈ h.rootids, y.natAbs ≤ isizeMax := fun y hy => (ok.roots y hy).2.2
  have hnsupp : h.ids.length ≤ u32Max := by have := ok.nsupp; have := ok.nvars; omega
  by_cases hvn : h.varnames = []
  · -- no names: the three name lines are absent
    unfold writeHeaderN nameLines
    rw [if_pos hvn]
    simp only [List.append_assoc, List.nil_append]
    rw [step_ver, step_mode, step_varinfo _ _ _ ok.varinfo,
      step_opt (h.dd ≠ []) _ (setDd (setVarinfo (setAscii {} h.ascii) h.varinfo) h.dd) _ _ _
        (fun hdd => step_dd _ _ _ (by rcases c.dd with h0 | h0; exact absurd h0 hdd; exact h0) _),
      step_single kNnodes (by decide) (by decide) _ _ applyKV_nnodes _ _ _ (by have := ok.nnodes; unfold usize64 at *; omega),
      step_single kNvars (by decide) (by decide) _ _ applyKV_nvars _ _ _ ok.nvars,
      step_single kNsuppvars (by decide) (by decide) _ _ applyKV_nsupp _ _ _ hnsupp,
      step_u32list kIds (by decide) (by decide) _ applyKV_ids _ _ _ hidsB,
      step_u32list kPermids (by decide) (by decide) _ applyKV_permids _ _ _ hpermB,
      step_single kNroots (by decide) (by decide) _ _ applyKV_nroots _ _ _ (by have := ok.nroots; unfold usize64 at *; omega),
      step_edgelist _ _ _ hrootB,
      step_opt (h.rootnames ≠ []) _ _ _ _ _ (fun _ => step_rootnames _ _ _ c.rootnames _)]
    show loadAll _ _ ((kNodes ++ []) ++ 10 :: body) = _
    rw [List.append_nil, loadAll_nodes]
    have hl := c.lines
    refine congrArg Except.ok (Prod.ext ?_ (Prod.ext ?_ rfl))
    · by_cases hdd : h.dd = [] <;> by_cases hrn : h.rootnames = [] <;>
        simp only [hdd, hrn, hvn, accOfN, setRootnames, setRootids, setNroots, setPermids, setIds, setNsupp,
          setNvars, setNnodes, setDd, setVarinfo, setAscii, ne_eq, not_true_eq_false, not_false_eq_true,
          if_true, if_false]
    · show _ = h.lines
      rw [hl]
      by_cases hdd : h.dd = [] <;> by_cases hrn : h.rootnames = [] <;> simp [hdd, hrn, hvn]
  · -- format 3.0 names
    obtain ⟨hv3, hnames, hl2v, hl2vlt, _⟩ : ws.v3 = true ∧ (∀ t ∈ h.varnames, NameOk t) ∧ l2v.length = h.nvars ∧
        (∀ v ∈ l2v, v < h.nvars) ∧ ∀ p ∈ h.ids.zip h.permids, l2v.getD p.2 0 = p.1 := by
      rcases c.names with h0 | h0
      · exact absurd h0 hvn
      · exact h0
    have hvlen : h.varnames.length = h.nvars := by
      rcases ok.varnames with h0 | h0
      · exact absurd h0 hvn
      · exact h0
    have hsvn : ∀ t ∈ svnOf h, NameOk t := by
      intro t ht
      obtain ⟨v, hv, rfl⟩ := List.mem_map.mp ht
      exact hnames _ (getD_mem_of_lt (by rw [hvlen]; exact ok.idsLt v hv))
    have hovn : ∀ t ∈ ovnOf h l2v, NameOk t := by
      intro t ht
      obtain ⟨v, hv, rfl⟩ := List.mem_map.mp ht
      exact hnames _ (getD_mem_of_lt (by rw [hvlen]; exact hl2vlt v hv))
    unfold writeHeaderN nameLines
    rw [if_neg hvn]
    simp only [List.append_assoc]
    rw [step_ver, step_mode, step_varinfo _ _ _ ok.varinfo,
      step_opt (h.dd ≠ []) _ (setDd (setVarinfo (setAscii {} h.ascii) h.varinfo) h.dd) _ _ _
        (fun hdd => step_dd _ _ _ (by rcases c.dd with h0 | h0; exact absurd h0 hdd; exact h0) _),
      step_single kNnodes (by decide) (by decide) _ _ applyKV_nnodes _ _ _ (by have := ok.nnodes; unfold usize64 at *; omega),
      step_single kNvars (by decide) (by decide) _ _ applyKV_nvars _ _ _ ok.nvars,
      step_single kNsuppvars (by decide) (by decide) _ _ applyKV_nsupp _ _ _ hnsupp,
      if_pos hv3,
      step_strlist kVarnames (by decide) (by decide) _ applyKV_varnames _ _ _ hnames,
      step_strlist kSuppvarnames (by decide) (by decide) _ applyKV_svn _ _ (svnOf h) hsvn,
      step_strlist kOrderedvarnames (by decide) (by decide) _ applyKV_ovn _ _ (ovnOf h l2v) hovn,
      step_u32list kIds (by decide) (by decide) _ applyKV_ids _ _ _ hidsB,
      step_u32list kPermids (by decide) (by decide) _ applyKV_permids _ _ _ hpermB,
      step_single kNroots (by decide) (by decide) _ _ applyKV_nroots _ _ _ (by have := ok.nroots; unfold usize64 at *; omega),
      step_edgelist _ _ _ hrootB,
      step_opt (h.rootnames ≠ []) _ _ _ _ _ (fun _ => step_rootnames _ _ _ c.rootnames _)]
    show loadAll _ _ ((kNodes ++ []) ++ 10 :: body) = _
    rw [List.append_nil, loadAll_nodes]
    have hl := c.lines
    refine congrArg Except.ok (Prod.ext ?_ (Prod.ext ?_ rfl))
    · by_cases hdd : h.dd = [] <;> by_cases hrn : h.rootnames = [] <;>
        simp only [hdd, hrn, hvn, accOfN, setRootnames, setRootids, setNroots, setPermids, setIds, setNsupp,
          setNvars, setNnodes, setDd, setVarinfo, setAscii, setVarnames, setSvn, setOvn, ne_eq,
          not_true_eq_false, not_false_eq_true, if_true, if_false]
    · show _ = h.lines
      rw [hl]
      by_cases hdd : h.dd = [] <;> by_cases hrn : h.rootnames = [] <;> simp [hdd, hrn, hvn]

end OxiddModel.Dddmp.Hdr

namespace OxiddModel.Dddmp.Hdr
open OxiddModel.Dddmp

theorem zip_map_self {α : Type} (f : Nat → α) : ∀ (l : List Nat), ∀ p ∈ (l.map f).zip l, p.1 = f p.2 := by
  intro l
  induction l with
  | nil => intro p hp; cases hp
  | cons a r ih =>
    intro p hp
    simp only [List.map_cons, List.zip_cons_cons] at hp
    rcases List.mem_cons.mp hp with hp | hp
    · subst hp; rfl
    · exact ih p hp

theorem valid_accOfN {ws : WSettings} {h : Header} {l2v : List Nat} (ok : HeaderOk h) (c : CarriableN ws h l2v) :
    Valid (accOfN h l2v) := by
  refine ⟨ok.nsupp, rfl, ok.permLen, Or.inl rfl, Or.inr ok.idsAsc, ?_, ?_, ?_, ?_, rfl, ?_, ok.rootnames⟩
  · show h.ids = [] ∨ h.ids.getLast! < h.nvars
    cases hi : h.ids with
    | nil => exact Or.inl rfl
    | cons a r =>
      right
      have : (a :: r).getLast! ∈ h.ids := by rw [hi]; exact List.getLast_mem _
      exact ok.idsLt _ this
  · exact permCheck_of _ _ _ (fun x hx => ⟨ok.permLt x hx, fun hm => nomatch hm⟩) ok.permNodup
  · show (if h.varnames = [] then [] else ovnOf h l2v) = [] ∨ (if h.varnames = [] then [] else ovnOf h l2v).length = h.nvars
    by_cases hvn : h.varnames = []
    · rw [if_pos hvn]; exact Or.inl rfl
    · rw [if_neg hvn]
      right
      rcases c.names with h0 | h0
      · exact absurd h0 hvn
      · simp only [ovnOf, List.length_map]; exact h0.2.2.1
  · show (if h.varnames = [] then [] else svnOf h) = [] ∨ (if h.varnames = [] then [] else svnOf h).length = h.ids.length
    by_cases hvn : h.varnames = []
    · rw [if_pos hvn]; exact Or.inl rfl
    · rw [if_neg hvn]; right; simp [svnOf]
  · exact rootCheck_of _ _ (fun r hr => ⟨(ok.roots r hr).1, (ok.roots r hr).2.1⟩)

theorem namesC_accOfN {ws : WSettings} {h : Header} {l2v : List Nat} (ok : HeaderOk h) (c : CarriableN ws h l2v) :
    namesC (accOfN h l2v).h (accOfN h l2v).suppvarnames (accOfN h l2v).orderedvarnames = .ok h.varnames := by
  unfold namesC
  show (if h.varnames = [] then _ else _) = _
  by_cases hvn : h.varnames = []
  · rw [if_pos hvn]
    show (if (if h.varnames = [] then [] else ovnOf h l2v) = [] then _ else _) = _
    rw [if_pos hvn, if_pos rfl]
    show (if (if h.varnames = [] then [] else svnOf h) = [] then _ else _) = _
    rw [if_pos hvn, if_pos rfl, hvn]
  · rw [if_neg hvn]
    obtain ⟨_, _, hl2v, _, hcons⟩ : ws.v3 = true ∧ (∀ t ∈ h.varnames, NameOk t) ∧ l2v.length = h.nvars ∧
        (∀ v ∈ l2v, v < h.nvars) ∧ ∀ p ∈ h.ids.zip h.permids, l2v.getD p.2 0 = p.1 := by
      rcases c.names with h0 | h0
      · exact absurd h0 hvn
      · exact h0
    have hvlen : h.varnames.length = h.nvars := by
      rcases ok.varnames with h0 | h0
      · exact absurd h0 hvn
      · exact h0
    show (if h.varnames.length ≠ h.nvars then _ else _) = _
    rw [if_neg (by omega)]
    show (if ((if h.varnames = [] then [] else ovnOf h l2v) ≠ [] &&
        (h.ids.zip h.permids).any (fun (p : Nat × Nat) => h.varnames.getD p.1 [] ≠ (if h.varnames = [] then [] else ovnOf h l2v).getD p.2 [])) = true
        then _ else _) = _
    rw [if_neg hvn]
    have hany : (h.ids.zip h.permids).any (fun (p : Nat × Nat) => h.varnames.getD p.1 [] ≠ (ovnOf h l2v).getD p.2 []) = false := by
      rw [List.any_eq_false]
      intro p hp
      have hm := List.of_mem_zip hp
      have hlt : p.2 < l2v.length := by rw [hl2v]; exact ok.permLt p.2 hm.2
      have h1 := hcons p hp
      simp only [ovnOf, List.getD_eq_getElem?_getD, List.getElem?_map, List.getElem?_eq_getElem hlt,
        Option.map_some, Option.getD_some] at h1 ⊢
      rw [h1]
      simp
    rw [hany, Bool.and_false]
    simp only [Bool.false_eq_true, if_false]
    show (if suppMismatch (if h.varnames = [] then [] else svnOf h) h.ids h.varnames = true then _ else _) = _
    rw [if_neg hvn]
    have hsm : suppMismatch (svnOf h) h.ids h.varnames = false := by
      unfold suppMismatch
      rw [List.any_eq_false]
      intro p hp
      have := zip_map_self (fun v => h.varnames.getD v []) h.ids p hp
      simp [this]
    rw [hsm]
    simp only [Bool.false_eq_true, if_false]
    rfl

theorem finish_accOfN {ws : WSettings} {h : Header} {l2v : List Nat} (ok : HeaderOk h) (c : CarriableN ws h l2v) :
    finish (accOfN h l2v).h h.lines h.varnames = h := by
  have h1 := ok.order
  have h2 := c.aux
  cases h with
  | mk ascii varinfo dd nnodes nvars ids svo permids auxids varnames rootids rootnames lines =>
    simp only at h1 h2
    subst h1; subst h2
    rfl

/-- **header_roundtrip_names.** The byte-level round trip including variable names: for every
well-formed header `h`, written in format 3.0 when it has variable names (all names legal tokens,
the level order `l2v` of the writer consistent with `.ids`/`.permids`), and every `body`:
`parseHeaderN (writeHeaderN ws h l2v ++ body) = .ok (h, body)`. -/
theorem header_roundtrip_names (ws : WSettings) (h : Header) (l2v : List Nat) (ok : HeaderOk h)
    (c : CarriableN ws h l2v) (body : List Nat) :
    parseHeaderN (writeHeaderN ws h l2v ++ body) = .ok (h, body) := by
  rw [parseHeaderN_eq, loadAll_writtenN ws h l2v ok c body]
  simp only
  rw [validateC_of_valid h.lines (valid_accOfN ok c) (namesC_accOfN ok c), finish_accOfN ok c]

/-- non-vacuity: three named variables, order `z x y` (levels), support `{y, z}` -/
def rtNamed : Header :=
  { ascii := true, nnodes := 4, nvars := 3, ids := [1, 2], permids := [2, 0], supportVarOrder := [2, 1],
    varnames := [[120], [121], [122]], rootids := [4], lines := 14 }

theorem carriable_rtNamed : CarriableN { v3 := true } rtNamed [2, 0, 1] := by
  refine ⟨rfl, Or.inr ⟨rfl, ?_, rfl, by decide, by decide⟩, Or.inl rfl, (fun t ht => nomatch ht), by decide⟩
  intro t ht
  have : t = [120] ∨ t = [121] ∨ t = [122] := by simpa [rtNamed] using ht
  rcases this with rfl | rfl | rfl <;> exact nameOk_ascii (by decide) (by decide)

example : parseHeaderN (writeHeaderN { v3 := true } rtNamed [2, 0, 1] ++ [49]) = .ok (rtNamed, [49]) :=
  header_roundtrip_names _ _ _ (by decide) carriable_rtNamed _

/-- **format 2.0 cannot carry the names of non-support variables** (negation of the naive round
trip, concrete witness): variables `a b c`, level order `a c b`, support `{a}`. The 2.0 header has
`.suppvarnames a` and `.orderedvarnames a c b`; the reader returns the names `a c b` — `b` and `c`
exchanged — because nothing in a 2.0 header says which of the non-support variables is which. -/
def v2Witness : Header :=
  { ascii := true, nnodes := 2, nvars := 3, ids := [0], permids := [0], supportVarOrder := [0],
    varnames := [[97], [98], [99]], rootids := [2], lines := 13 }

theorem v2_nonsupport_names_not_preserved :
    HeaderOk v2Witness ∧
    parseHeaderN (writeHeaderN { v3 := false } v2Witness [0, 2, 1])
      = .ok ({ v2Witness with varnames := [[97], [99], [98]] }, []) ∧
    parseHeaderN (writeHeaderN { v3 := true } v2Witness [0, 2, 1])
      = .ok ({ v2Witness with lines := 14 }, []) := by
  refine ⟨by decide, by decide +kernel, by decide +kernel⟩

end OxiddModel.Dddmp.Hdr
