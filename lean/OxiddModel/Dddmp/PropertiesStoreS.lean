import OxiddModel.Dddmp.StoreSLemmasFresh
import OxiddModel.Dddmp.StoreSLemmasBytes
import OxiddModel.Bdd.RcSHistory

/-!
# C15 / C05 / C14 — DDDMP export and import at store level with reference counters

Property C15: *exporting … and importing the file yields, in the same manager, handles equal to
the originals, and in a fresh manager with a compatible order, handles denoting the same
functions*. C05 / C14 for this code path: the export and the import neither leak nor lose a
reference, and an import that runs out of memory at any node leaves the manager clean.

The model (`StoreS.lean`) is `ExportSettings::export` / `export_common` / `rec_add_map` with
`EdgeHashMap`, and `dddmp::import` / `import_ascii` with `EdgeVecDropGuard`, on the counter store
of `Bdd/RcS.lean` (hash-consed node table, one `rc` per slot, `mkNodeR` = `reduce` under a
capacity); the file is the structured `Dddmp.Diagram` whose bytes are `Dddmp.nodeSection`.

Headlines:

* `exportS_rc_unchanged` — the exporter changes no counter and nothing else, for EVERY store, root
  list, hash-map iteration order (no hypothesis); `exportS_insert_leak` — with `EdgeHashMap::insert`
  cloning a key that is present (seeded `R3-C05-edgehashmap-insert-leak`) a counter is one too high;
* `importS_rc_exact` — `RcInv` is kept by the importer for EVERY structured file (well formed or
  not), capacity and callback: roots owned on success, nothing more owned after a malformed record,
  a failed level check, OutOfMemory in `reduce` or in the complement callback at ANY node;
  `importS_rc_exact_not` — instance `not_edge_owned`; `import_notedge_leak` — without the drop
  guard in `not_edge_owned` (seeded `R3-C14-notedgeowned-no-guard`) the operand leaks;
* `import_export_same_manager` — `importS (exportS r roots) = ok roots` with the store unchanged
  and exact counters, for every hash-consed, reduced, ordered manager, every iteration order,
  every capacity (even 0) and callback: C15's "handles equal to the originals";
* `import_export_fresh_manager` — into any other manager with the same levels and enough room
  (in particular the empty one): success, roots denoting the same trees, the target only grows,
  no garbage, exact counters; into the empty manager the node count equals the number of exported
  nodes;
* `import_export_bytes_same_manager` — the same over BYTES: `nodeSection true` of the exported
  file read by the byte-level importer model (`importAsciiLoop`, `importRoots`) with the
  manager's unique table yields the original edges.
-/
namespace OxiddModel.Dddmp.StoreS
open OxiddModel.Bdd OxiddModel.Bdd.BDD OxiddModel.Bdd.Refine OxiddModel.Bdd.Rc
open OxiddModel.Dddmp

/-! ## concrete managers for the examples -/

/-- slot 0 = x1, slot 1 = x0 ∧ x1, slot 2 = x0 ∨ x1 (slot 0 is shared); handles on slots 1, 2 -/
def exStore : Store :=
  ⟨#[some ⟨1, .term true, .term false⟩, some ⟨0, .inner 0, .term false⟩, some ⟨0, .term true, .inner 0⟩]⟩
def exR : RSt := ⟨⟨exStore, [], 0⟩, #[3, 2, 2]⟩
def exRoots : List Refine.Edge := [.inner 1, .inner 2]

/-- executable checks of the store invariants -/
def checkSlots (s : Store) (p : Nat → Node → Bool) : Bool :=
  (List.range s.nodes.size).all fun i =>
    match s.get? i with
    | some n => p i n
    | none => true

theorem get?_lt {s : Store} {i : Nat} {n : Node} (h : s.get? i = some n) : i < s.nodes.size := by
  by_cases hlt : i < s.nodes.size
  · exact hlt
  · simp [Store.get?, hlt] at h

theorem checkSlots_sound {s : Store} {p : Nat → Node → Bool} (h : checkSlots s p = true) :
    ∀ i n, s.get? i = some n → p i n = true := by
  intro i n hi
  unfold checkSlots at h
  rw [List.all_eq_true] at h
  have := h i (List.mem_range.mpr (get?_lt hi))
  simpa [hi] using this

def uniqueB (s : Store) : Bool :=
  checkSlots s fun i n => (List.range s.nodes.size).all fun j => s.get? j != some n || i == j

theorem unique_of_uniqueB {s : Store} (h : uniqueB s = true) : s.Unique := by
  intro i j n hi hj
  have := checkSlots_sound h i n hi
  rw [List.all_eq_true] at this
  have := this j (List.mem_range.mpr (get?_lt hj))
  simpa [hj] using this

/-- `RcInv` for a concrete manager, checked slot by slot -/
def rcInvB (r : RSt) (ext : List Refine.Edge) : Bool :=
  let hasB : Refine.Edge → Bool := fun x =>
    match x with
    | .term _ => true
    | .inner i => (r.st.store.get? i).isSome
  ext.all hasB && r.st.cache.all (fun kv => hasB kv.2) &&
  checkSlots r.st.store (fun i n => hasB n.t && hasB n.e &&
    rcGet r.rc i == 1 + ext.count (.inner i) + parents r.st.store i)

theorem rcinv_of_rcInvB {r : RSt} {ext : List Refine.Edge} (h : rcInvB r ext = true) : RcInv r ext := by
  unfold rcInvB at h
  simp only [Bool.and_eq_true] at h
  obtain ⟨⟨h1, h2⟩, h3⟩ := h
  have hb : ∀ x : Refine.Edge, (match x with
      | .term _ => true
      | .inner i => (r.st.store.get? i).isSome) = true → r.st.store.has x := by
    intro x hx
    cases x with
    | term b => trivial
    | inner i =>
      simp only [Option.isSome_iff_exists] at hx
      exact hx
  refine ⟨?_, ?_, ?_, ?_⟩
  · intro e he
    exact hb e (List.all_eq_true.mp h1 e he)
  · intro i n hi
    have := checkSlots_sound h3 i n hi
    simp only [Bool.and_eq_true] at this
    exact ⟨hb _ this.1.1, hb _ this.1.2⟩
  · intro k v hkv
    exact hb v (List.all_eq_true.mp h2 (k, v) hkv)
  · intro i n hi
    have := checkSlots_sound h3 i n hi
    simp only [Bool.and_eq_true, beq_iff_eq] at this
    exact this.2

theorem storeOK_of_checks {nvars : Nat} {r : RSt} {ext : List Refine.Edge} (h : RcInv r ext)
    (ho : r.st.store.Ordered) (hb : ∀ i n, r.st.store.get? i = some n → n.level < nvars)
    (hl : nvars ≤ levelMax) : StoreOK nvars r.st.store :=
  ⟨h.kids_ok, ho, hb, hl⟩

theorem exR_rcinv : RcInv exR exRoots := rcinv_of_rcInvB (by decide +kernel)
theorem exR_ok : StoreOK 2 exR.st.store :=
  storeOK_of_checks exR_rcinv (ordered_of_orderedB (by decide +kernel))
    (fun i n h => by
      have := checkSlots_sound (s := exStore) (p := fun _ n => decide (n.level < 2)) (by decide +kernel) i n h
      simpa using this)
    (by decide)
theorem exR_unique : exR.st.store.Unique := unique_of_uniqueB (by decide +kernel)
theorem exR_nored : exR.st.store.NoRed := fun i n h => by
  have := checkSlots_sound (s := exStore) (p := fun _ n => n.t != n.e) (by decide +kernel) i n h
  simpa using this
theorem exR_roots : ∀ x ∈ exRoots, exR.st.store.has x := fun x hx => exR_rcinv.ext_ok x hx

/-! ## (1) export -/

/-- **The exporter changes no counter and nothing in the store** — for every store (no invariant
needed), every list of roots, every iteration order `ord` of the hash maps and every `nvars`:
`EdgeHashMap::insert` clones exactly the keys that `EdgeHashMap::drop` releases, and the `roots`
guard releases the clones of the roots. -/
theorem exportS_rc_unchanged (ord : List Refine.Edge → List Refine.Edge) (nvars : Nat) (r : RSt)
    (roots : List Refine.Edge) :
    (exportS false ord nvars r roots).2.st = r.st ∧
    ∀ k, rcGet (exportS false ord nvars r roots).2.rc k = rcGet r.rc k :=
  ⟨exportS_st ord nvars r roots, exportS_rcGet ord nvars r roots⟩

/-- … hence the counter invariant survives an export, with the same external references -/
theorem exportS_rcinv (ord : List Refine.Edge → List Refine.Edge) (nvars : Nat) {r : RSt}
    {ext : List Refine.Edge} (roots : List Refine.Edge) (h : RcInv r ext) :
    RcInv (exportS false ord nvars r roots).2 ext :=
  RcInv.of_rcGet h (exportS_st ord nvars r roots) (exportS_rcGet ord nvars r roots)

/-- non-vacuity: the example manager; the file written -/
def view (d : Option Diagram) : Option (List (List Nat) × List SNode × List Int) :=
  d.map (fun d => (d.terms, d.nodes, d.roots))

example : (exportS false id 2 exR exRoots).2.rc.toList = [3, 2, 2] ∧
    view (exportS false id 2 exR exRoots).1 =
      some ([[84], [70]], [⟨1, [1, 2]⟩, ⟨0, [3, 2]⟩, ⟨0, [1, 3]⟩], [4, 5]) := by decide +kernel

/-- **Seeded defect `R3-C05-edgehashmap-insert-leak`** (`insert` clones the key although it is
present): the shared node of the example keeps one reference too many after the export, the
counter invariant is broken although the file is the same. -/
theorem exportS_insert_leak :
    rcGet (exportS true id 2 exR exRoots).2.rc 0 = rcGet exR.rc 0 + 1 ∧
    view (exportS true id 2 exR exRoots).1 = view (exportS false id 2 exR exRoots).1 ∧
    ¬ RcInv (exportS true id 2 exR exRoots).2 exRoots := by
  refine ⟨by decide +kernel, by decide +kernel, ?_⟩
  intro h
  have := h.rc_eq 0 ⟨1, .term true, .term false⟩ (by decide +kernel)
  revert this
  decide +kernel

/-! ## (2) import: counters -/

/-- **The importer keeps the counters exact**, for every structured file `d` (well formed or
not), every capacity, every `suppvar_level_map` and every complement callback that honours the
ownership contract (`ComplOK`): on success the caller additionally owns the returned roots; on a
malformed record, a failed level check, `OutOfMemory` of `reduce` or of the callback — at any node
or root — it owns nothing more: the `nodes` table, the `child_edges` and the roots created so far
have all been released. -/
theorem importS_rc_exact (cfg : ICfg) (hc : ComplOK cfg.compl) (nvars : Nat) (r : RSt) (d : Diagram)
    (ext : List Refine.Edge) (h : RcInv r ext) :
    match importS cfg nvars r d with
    | (.ok roots, r') => RcInv r' (roots ++ ext)
    | (.fail _, r') => RcInv r' ext :=
  importS_rc hc nvars r d ext h

/-- instance: the callback `BDDFunction::not_edge_owned` (with its `EdgeDropGuard`), any cache
policy, any fuel -/
theorem importS_rc_exact_not {p : Policy} (pok : p.OK) (cap fuel : Nat) (slm : List Nat) (nvars : Nat)
    (r : RSt) (d : Diagram) (ext : List Refine.Edge) (h : RcInv r ext) :
    match importS ⟨cap, complNot cap p fuel, slm⟩ nvars r d with
    | (.ok roots, r') => RcInv r' (roots ++ ext)
    | (.fail _, r') => RcInv r' ext :=
  importS_rc (cfg := ⟨cap, complNot cap p fuel, slm⟩) (complNot_ok pok cap fuel) nvars r d ext h

/-- the file `x0` with a complemented root: `.rootids -3` -/
def negRootFile : Diagram :=
  { terms := [[84], [70]], nodes := [⟨0, [1, 2]⟩], roots := [-3], rootNames := none }

/-- non-vacuity of the OutOfMemory clause: one free slot, the negation needs a second one — the
import fails with OutOfMemory and the node created so far is left with the table's reference only
(`rc = 1`, reclaimable by `gc`) -/
example :
    (importS ⟨1, complNot 1 Policy.none 5, [0]⟩ 1 RSt.empty negRootFile).1 = .fail .oom ∧
    (importS ⟨1, complNot 1 Policy.none 5, [0]⟩ 1 RSt.empty negRootFile).2.rc.toList = [1] ∧
    (importS ⟨2, complNot 2 Policy.none 5, [0]⟩ 1 RSt.empty negRootFile).1 = .ok [.inner 1] := by
  decide +kernel

/-- **Seeded defect `R3-C14-notedgeowned-no-guard`** (`not_edge_owned` without the drop guard):
when the negation of a complemented root runs out of memory the operand leaks — the counter of
slot 0 stays at 2 with no owner, `RcInv` is broken. -/
theorem import_notedge_leak :
    (importS ⟨1, complNotLeak 1 Policy.none 5, [0]⟩ 1 RSt.empty negRootFile).1 = .fail .oom ∧
    rcGet (importS ⟨1, complNotLeak 1 Policy.none 5, [0]⟩ 1 RSt.empty negRootFile).2.rc 0 = 2 ∧
    ¬ RcInv (importS ⟨1, complNotLeak 1 Policy.none 5, [0]⟩ 1 RSt.empty negRootFile).2 [] := by
  refine ⟨by decide +kernel, by decide +kernel, ?_⟩
  intro h
  have := h.rc_eq 0 ⟨0, .term true, .term false⟩ (by decide +kernel)
  revert this
  decide +kernel

/-- malformed files: child id not smaller than the node id; child on the same level; unknown
terminal; variable out of range — each rejected with exact counters (here: all zero references) -/
example :
    (importS ⟨9, complId, [0, 1]⟩ 2 RSt.empty ⟨[[84], [70]], [⟨0, [1, 3]⟩], [3], none⟩).1 = .fail .malformed ∧
    (importS ⟨9, complId, [0, 1]⟩ 2 RSt.empty ⟨[[84], [70]], [⟨1, [1, 2]⟩, ⟨1, [3, 2]⟩], [4], none⟩).1
      = .fail .malformed ∧
    (importS ⟨9, complId, [0, 1]⟩ 2 RSt.empty ⟨[[84], [70]], [⟨1, [1, 2]⟩, ⟨1, [3, 2]⟩], [4], none⟩).2.rc.toList
      = [1] ∧
    (importS ⟨9, complId, [0, 1]⟩ 2 RSt.empty ⟨[[88]], [], [1], none⟩).1 = .fail .malformed ∧
    (importS ⟨9, complId, [0]⟩ 2 RSt.empty ⟨[[84], [70]], [⟨1, [1, 2]⟩, ⟨0, [3, 2]⟩], [4], none⟩).1
      = .fail .malformed := by decide +kernel

/-! ## (3) same manager -/

/-- **C15, same manager.** Let `r` be a manager state with exact counters (`RcInv r ext`) whose
node table is hash consed (`Unique`), reduced (`NoRed`) and ordered with all levels `< nvars`, and
let `roots` point into it. For every iteration order `ord` of the exporter's hash maps the export
succeeds, and importing the file into the same manager (the state the export left behind) — with
ANY capacity, any callback, `suppvar_level_map` = the support levels — returns **exactly the
original edges**, leaves node table, apply cache and time stamp untouched, and the counters
exact with the new handles (`RcInv r' (roots ++ ext)`: each root's counter is up by one). -/
theorem import_export_same_manager (ord : List Refine.Edge → List Refine.Edge) (hord : ∀ l, (ord l).Perm l)
    (nvars : Nat) (r : RSt) (roots ext : List Refine.Edge) (h : RcInv r ext)
    (ok : StoreOK nvars r.st.store) (hu : r.st.store.Unique) (hn : r.st.store.NoRed)
    (hroots : ∀ x ∈ roots, r.st.store.has x) :
    ∃ d, (exportS false ord nvars r roots).1 = some d ∧
      ∀ cfg : ICfg, cfg.slm = suppLevels nvars d.nodes → ComplOK cfg.compl →
        ∃ r', importS cfg nvars (exportS false ord nvars r roots).2 d = (.ok roots, r') ∧
          r'.st = r.st ∧ RcInv r' (roots ++ ext) := by
  obtain ⟨terms, inner, hd, N⟩ := exportS_numbering ok hord roots hroots
  refine ⟨_, hd, ?_⟩
  intro cfg hslm hc
  have e : (exportS false ord nvars r roots).2.st.store = r.st.store := by rw [exportS_st]
  have h1 : RcInv (exportS false ord nvars r roots).2 ext := exportS_rcinv ord nvars roots h
  have hs := importS_same (r := (exportS false ord nvars r roots).2) (by rw [e]; exact ok)
    (by rw [e]; exact hu) (by rw [e]; exact hn) (roots := roots) (terms := terms) (inner := inner)
    (by rw [e]; exact N) cfg (by rw [e]; exact hslm)
  rw [e] at hs
  obtain ⟨r', hi, hst'⟩ := hs
  refine ⟨r', hi, by rw [hst', exportS_st], ?_⟩
  have := importS_rc hc nvars _ (mkDiagram r.st.store terms inner roots) ext h1
  rw [hi] at this
  exact this

/-- non-vacuity: the example manager satisfies every hypothesis; and the concrete run, with
capacity 0 (nothing is allocated) -/
example : ∃ d, (exportS false id 2 exR exRoots).1 = some d ∧
    ∀ cfg : ICfg, cfg.slm = suppLevels 2 d.nodes → ComplOK cfg.compl →
      ∃ r', importS cfg 2 (exportS false id 2 exR exRoots).2 d = (.ok exRoots, r') ∧
        r'.st = exR.st ∧ RcInv r' (exRoots ++ exRoots) :=
  import_export_same_manager id (fun _ => List.Perm.refl _) 2 exR exRoots exRoots exR_rcinv exR_ok
    exR_unique exR_nored exR_roots

example : (importS ⟨0, complId, [0, 1]⟩ 2 exR
      ⟨[[84], [70]], [⟨1, [1, 2]⟩, ⟨0, [3, 2]⟩, ⟨0, [1, 3]⟩], [4, 5], none⟩).1 = .ok exRoots ∧
    (importS ⟨0, complId, [0, 1]⟩ 2 exR
      ⟨[[84], [70]], [⟨1, [1, 2]⟩, ⟨0, [3, 2]⟩, ⟨0, [1, 3]⟩], [4, 5], none⟩).2.rc.toList = [3, 3, 3] := by
  decide +kernel

/-! ## (4) another manager with the same order -/

theorem rcinv_empty' : RcInv RSt.empty [] where
  ext_ok _ h := by cases h
  kids_ok i n h := by simp [RSt.empty, Store.get?] at h
  cache_ok _ _ h := by cases h
  rc_eq i n h := by simp [RSt.empty, Store.get?] at h

/-- in a closed ordered store every edge denotes a tree -/
theorem denotes_exists {nvars : Nat} {s : Store} (ok : StoreOK nvars s) :
    ∀ (n : Nat) (x : Refine.Edge), rk s nvars x ≤ n → s.has x → ∃ T, Denotes s x T := by
  intro n
  induction n with
  | zero =>
    intro x hr hx
    cases x with
    | term b => exact ⟨.leaf b, .term⟩
    | inner i =>
      obtain ⟨m, hm⟩ := hx
      have := ok.bound i m hm
      simp only [rk, hm] at hr
      omega
  | succ n ih =>
    intro x hr hx
    cases x with
    | term b => exact ⟨.leaf b, .term⟩
    | inner i =>
      obtain ⟨m, hm⟩ := hx
      obtain ⟨l, t, e⟩ := m
      have h1 := rk_kid ok (.inner i) t (by rw [kidsE_stored hm]; simp)
      have h2 := rk_kid ok (.inner i) e (by rw [kidsE_stored hm]; simp)
      obtain ⟨Tt, ht⟩ := ih t (by omega) (ok.kids i _ hm).1
      obtain ⟨Te, he⟩ := ih e (by omega) (ok.kids i _ hm).2
      exact ⟨.node l Tt Te, .inner hm ht he⟩

/-- **C15, fresh manager.** The file exported from a hash-consed, reduced, ordered manager `r`
imported into ANY other manager state `r0` with exact counters (`RcInv r0 ext0`) that has room for
the exported nodes and uses the same levels for the support variables: the import succeeds; the
returned roots denote the same trees as the exported ones (`Denotes`, position by position); the
target only grows (`Store.Le`); every slot of the result is an old one or the image of an exported
node (no garbage); the counters are exact with the new roots; and if the target was empty it holds
exactly one node per exported inner node (`d.nodes.length`). -/
theorem import_export_fresh_manager (ord : List Refine.Edge → List Refine.Edge) (hord : ∀ l, (ord l).Perm l)
    (nvars : Nat) (r : RSt) (roots : List Refine.Edge)
    (ok : StoreOK nvars r.st.store) (hu : r.st.store.Unique) (hn : r.st.store.NoRed)
    (hroots : ∀ x ∈ roots, r.st.store.has x) :
    ∃ d, (exportS false ord nvars r roots).1 = some d ∧
      ∀ (cfg : ICfg) (r0 : RSt) (ext0 : List Refine.Edge), cfg.slm = suppLevels nvars d.nodes →
        ComplOK cfg.compl → RcInv r0 ext0 → r0.st.store.count + d.nodes.length ≤ cfg.cap →
        ∃ roots' r', importS cfg nvars r0 d = (.ok roots', r') ∧
          roots'.length = roots.length ∧
          (∀ (k : Nat) (x x' : Refine.Edge), roots[k]? = some x → roots'[k]? = some x' →
            ∀ T, Denotes r.st.store x T ↔ Denotes r'.st.store x' T) ∧
          r0.st.store.Le r'.st.store ∧
          (∀ j n, r'.st.store.get? j = some n → r0.st.store.get? j = some n ∨
            ∃ T, Denotes r'.st.store (.inner j) T ∧ ∃ c, Denotes r.st.store c T ∧
              ∃ root ∈ roots, VisitS.Reach (kidsE r.st.store) root c) ∧
          RcInv r' (roots' ++ ext0) ∧
          ((∀ j, r0.st.store.get? j = none) → r'.st.store.count = r0.st.store.count + d.nodes.length) := by
  obtain ⟨terms, inner, hd, N⟩ := exportS_numbering ok hord roots hroots
  refine ⟨_, hd, ?_⟩
  intro cfg r0 ext0 hslm hc h0 hcap
  have hlen : (mkDiagram r.st.store terms inner roots).nodes.length = inner.length := by simp [mkDiagram]
  rw [hlen] at hcap
  obtain ⟨roots', r', hi, I⟩ := importS_other ok hu hn N cfg hslm r0 hcap
  refine ⟨roots', r', hi, I.len, ?_, I.le, ?_, ?_, ?_⟩
  · intro k x x' hx hx' T
    exact (I.sim k x x' hx hx').denotes T
  · intro j n hj
    rcases I.cover j n hj with h | ⟨c, hc, hs⟩
    · exact .inl h
    · right
      -- the image denotes what the source node denotes
      obtain ⟨i, m, rfl, hi', _⟩ := N.inner_stored c hc
      obtain ⟨T, hT⟩ := denotes_exists ok _ (.inner i) (Nat.le_refl _) ⟨m, hi'⟩
      exact ⟨T, (hs.denotes T).mp hT, .inner i, hT, N.reach _ (List.mem_append_right _ hc)⟩
  · have := importS_rc hc nvars r0 (mkDiagram r.st.store terms inner roots) ext0 h0
    rw [hi] at this
    exact this
  · intro he
    rw [hlen]
    exact I.count_eq he

/-- non-vacuity: the example manager exported and read into the EMPTY manager: three nodes, the
roots denote `x0 ∧ x1` and `x0 ∨ x1` again -/
example : ∃ d, (exportS false id 2 exR exRoots).1 = some d ∧
    ∃ roots' r', importS ⟨3, complId, suppLevels 2 d.nodes⟩ 2 RSt.empty d = (.ok roots', r') ∧
      r'.st.store.count = RSt.empty.st.store.count + d.nodes.length ∧ RcInv r' (roots' ++ []) := by
  obtain ⟨d, hd, h⟩ := import_export_fresh_manager id (fun _ => List.Perm.refl _) 2 exR exRoots exR_ok
    exR_unique exR_nored exR_roots
  have hn : d.nodes.length = 3 := by
    have : (exportS false id 2 exR exRoots).1.map (fun d => d.nodes.length) = some 3 := by decide +kernel
    rw [hd] at this
    simpa using this
  obtain ⟨roots', r', hi, _, _, _, _, hrc, hcnt⟩ := h ⟨3, complId, suppLevels 2 d.nodes⟩ RSt.empty [] rfl
    complId_ok rcinv_empty' (by rw [hn]; show RSt.empty.st.store.count + 3 ≤ 3; decide +kernel)
  exact ⟨d, hd, roots', r', hi, hcnt (fun j => by simp [RSt.empty, Store.get?]), hrc⟩

example : (importS ⟨3, complId, [0, 1]⟩ 2 RSt.empty
      ⟨[[84], [70]], [⟨1, [1, 2]⟩, ⟨0, [3, 2]⟩, ⟨0, [1, 3]⟩], [4, 5], none⟩).1 = .ok [.inner 1, .inner 2] ∧
    (importS ⟨3, complId, [0, 1]⟩ 2 RSt.empty
      ⟨[[84], [70]], [⟨1, [1, 2]⟩, ⟨0, [3, 2]⟩, ⟨0, [1, 3]⟩], [4, 5], none⟩).2.rc.toList = [3, 2, 2] ∧
    (importS ⟨2, complId, [0, 1]⟩ 2 RSt.empty
      ⟨[[84], [70]], [⟨1, [1, 2]⟩, ⟨0, [3, 2]⟩, ⟨0, [1, 3]⟩], [4, 5], none⟩).1 = .fail .oom ∧
    (importS ⟨2, complId, [0, 1]⟩ 2 RSt.empty
      ⟨[[84], [70]], [⟨1, [1, 2]⟩, ⟨0, [3, 2]⟩, ⟨0, [1, 3]⟩], [4, 5], none⟩).2.rc.toList = [2, 1] := by
  decide +kernel

/-! ## (5) down to bytes -/

/-- **C15, same manager, over BYTES.** For the file `d` the exporter writes (any iteration order)
from a hash-consed, reduced, ordered manager of addressable size, the ASCII node section
`nodeSection true nvars d` — the bytes between `.nodes` and `.end` of `Dddmp.exportFile` for a
manager with two terminals — followed by any `rest` is accepted by the byte-level importer model
`importAsciiLoop` (tokeniser, integer parsers, id / level checks of `import_ascii`) running with
the manager's unique table (`frozenAlg`); it consumes exactly the node section, and the table it
builds consists of the ORIGINAL edges (each paired with its level); `importRoots` on `.rootids`
then yields the original roots. -/
theorem import_export_bytes_same_manager (ord : List Refine.Edge → List Refine.Edge)
    (hord : ∀ l, (ord l).Perm l) (nvars : Nat) (r : RSt) (roots : List Refine.Edge)
    (ok : StoreOK nvars r.st.store) (hu : r.st.store.Unique) (hn : r.st.store.NoRed)
    (hroots : ∀ x ∈ roots, r.st.store.has x) :
    ∃ d, (exportS false ord nvars r roots).1 = some d ∧
      (d.terms.length + d.nodes.length < isizeMax → ∀ rest : List Nat,
        ∃ table, importAsciiLoop (frozenAlg r.st.store) 4 (suppLevels nvars d.nodes)
            (d.terms.length + d.nodes.length) 1 [] (nodeSection true nvars d ++ rest) = .ok (table, rest) ∧
          table.length = d.terms.length + d.nodes.length ∧
          importRoots (frozenAlg r.st.store) table d.roots = .ok (roots.map (tag r.st.store))) := by
  obtain ⟨terms, inner, hd, N⟩ := exportS_numbering ok hord roots hroots
  refine ⟨_, hd, ?_⟩
  intro hsz rest
  have hsz' : terms.length + inner.length < isizeMax := by simpa [mkDiagram] using hsz
  obtain ⟨h1, h2⟩ := bytes_same_manager ok hu hn N hsz' rest
  exact ⟨_, h1, by simp [mkDiagram], h2⟩

theorem ex_prefix_cons {x y tail : List Nat} (h : ∃ p, y = p ++ tail) : ∃ p, x ++ y = p ++ tail :=
  let ⟨p, hp⟩ := h; ⟨x ++ p, by rw [hp, List.append_assoc]⟩

/-- the ASCII node section is what `Dddmp.exportFile` writes between `.nodes` and `.end` for a
manager with binary nodes and two terminals (`binary_supported` is false) -/
theorem exportFile_nodeSection (g : Guards) (st : Settings) (m : MgrView) (d : Diagram)
    (hm : m.numTerminals = 2) :
    ∃ hdr, (exportFile g st m d).1 = hdr ++ nodeSection true m.nvars d ++ line ".end" [] := by
  unfold exportFile
  simp only [hm, show (2 = 1) = False from by decide, decide_false, Bool.and_false,
    Bool.not_false, Bool.or_true, Bool.true_or, List.append_assoc, if_true]
  iterate 14 apply ex_prefix_cons
  exact ⟨[], rfl⟩

/-- non-vacuity: the bytes of the example file and what the byte-level importer makes of them -/
example : nodeSection true 2 ⟨[[84], [70]], [⟨1, [1, 2]⟩, ⟨0, [3, 2]⟩, ⟨0, [1, 3]⟩], [4, 5], none⟩
    = [49, 32, 84, 32, 48, 32, 48, 10,  50, 32, 70, 32, 48, 32, 48, 10,  51, 32, 49, 32, 49, 32, 50, 10,
       52, 32, 48, 32, 51, 32, 50, 10,  53, 32, 48, 32, 49, 32, 51, 10] := by decide +kernel

example : ∃ d, (exportS false id 2 exR exRoots).1 = some d ∧ ∀ rest : List Nat,
    ∃ table, importAsciiLoop (frozenAlg exR.st.store) 4 (suppLevels 2 d.nodes)
        (d.terms.length + d.nodes.length) 1 [] (nodeSection true 2 d ++ rest) = .ok (table, rest) ∧
      table.length = d.terms.length + d.nodes.length ∧
      importRoots (frozenAlg exR.st.store) table d.roots = .ok (exRoots.map (tag exR.st.store)) := by
  obtain ⟨d, hd, h⟩ := import_export_bytes_same_manager id (fun _ => List.Perm.refl _) 2 exR exRoots exR_ok
    exR_unique exR_nored exR_roots
  have hn : d.terms.length + d.nodes.length = 5 := by
    have : (exportS false id 2 exR exRoots).1.map (fun d => d.terms.length + d.nodes.length) = some 5 := by
      decide +kernel
    rw [hd] at this
    simpa using this
  exact ⟨d, hd, h (by rw [hn]; decide)⟩

end OxiddModel.Dddmp.StoreS
