import OxiddModel.Dddmp.LemmasLoop
import OxiddModel.Bdd.RcSLemmasGc
import OxiddModel.Bdd.RcSLemmasOrd
import OxiddModel.Util.VisitS

/-!
# DDDMP export / import at STORE level with reference counters (C15, C05, C14)

`Dddmp/Model.lean` models exporter and importer over BYTES and over a pure edge algebra `Alg E`
(node creation is a function, nothing is counted, nothing can fail). This file puts the same two
procedures on the **counter store** of `Bdd/RcS.lean` (`RSt`: hash-consed id store, one `rc`
field per slot, `mkNodeR` = `reduce` + `get_or_insert` + `add_node` under a capacity) and makes
every `clone_edge` / `drop_edge` / drop guard of

* `crates/oxidd-dump/src/dddmp/export.rs` (`ExportSettings::export`: the `roots`
  `EdgeVecDropGuard`; `export_common`: `rec_add_map` with the per-level `EdgeHashMap`s and the
  terminal map, the bottom-up numbering, the node records, the maps dropped at the end),
* `crates/oxidd-core/src/util/edge_hash_map.rs` (`insert`: the key is cloned **iff it was not
  present**; `Drop`: every key is dropped once), `on_drop.rs` (`EdgeVecDropGuard`),
* `crates/oxidd-dump/src/dddmp/import.rs` (`import_ascii`: node table `nodes` of owned edges in an
  `EdgeVecDropGuard`, per child `clone_edge(&nodes[id - 1])`, the `complement` callback on a
  negative id, the level check, `child_edges` guard, `reduce(..).then_insert(..)?`; `import`: the
  roots cloned out of the table (complemented through the callback), the table dropped at the end
  and on every error path),
* `crates/oxidd-core/src/function.rs` (`BooleanFunction::not_edge_owned`: the operand is wrapped
  in an `EdgeDropGuard` before `not_edge` runs)

explicit. The file handled is the **structured file** of `Dddmp/Model.lean` (`Diagram`: terminal
descriptors, `SNode`s = level + signed child ids in export order, signed root ids); its bytes
are `Dddmp.nodeSection` / `Dddmp.exportFile` — bytes are not modelled again.

The simple BDD has two terminals, so `binary_supported` is false and the node section is the
ASCII one: the importer below follows `import_ascii` statement by statement.
-/
namespace OxiddModel.Dddmp.StoreS
open OxiddModel.Bdd OxiddModel.Bdd.Refine OxiddModel.Bdd.Rc
open OxiddModel.Dddmp

/-! ## helpers on the store -/

/-- the child edges of the node an edge points to (`node.children()`; none for a terminal) -/
def kidsE (s : Store) : Edge → List Edge
  | .term _ => []
  | .inner i =>
    match s.get? i with
    | some n => [n.t, n.e]
    | none => []

/-- `manager.get_node(&e).level()`: `LevelNo::MAX` for a terminal -/
def levelOfE (s : Store) : Edge → Nat
  | .term _ => levelMax
  | .inner i =>
    match s.get? i with
    | some n => n.level
    | none => levelMax

def isTermE : Edge → Bool
  | .term _ => true
  | .inner _ => false

/-- `clone_edge` of every element, last element first (the visited list grows at the front) -/
def cloneList (r : RSt) (l : List Edge) : RSt := l.foldr (fun e r => cloneEdge r e) r

/-- `drop_edge` of every element in order (`EdgeVecDropGuard::drop`, `EdgeHashMap::drop`) -/
def dropList (r : RSt) (l : List Edge) : RSt := l.foldl dropEdge r

/-! ## export -/

/-- `rec_add_map`: `map.insert(&e, 0)` clones the key iff it is new (`EdgeHashMap::insert`), and
only then the children are visited. The per-level maps and the terminal map together are the list
of keys inserted so far, newest first. The store is not touched; only counters move.

`leak = true` is the seeded defect `R3-C05-edgehashmap-insert-leak`: `insert` clones the key
although it is present. -/
def recAddMap (leak : Bool) (s : Store) : Nat → RSt × List Edge → Edge → RSt × List Edge
  | 0, st, _ => st
  | fuel+1, st, x =>
    if st.2.contains x then (if leak then (cloneEdge st.1 x, st.2) else st)
    else (kidsE s x).foldl (fun st k => recAddMap leak s fuel st k) (cloneEdge st.1 x, x :: st.2)

/-- `AsciiDisplay for BDDTerminal` -/
def termDesc : Edge → List Nat
  | .term true => [84]
  | .term false => [70]
  | .inner _ => []

/-- The numbering: terminal map first (ids `1..`), then the level maps from the bottom level up
(`node_map.iter_mut().enumerate().rev()`). `ord` is the iteration order of a hash map, applied
to the keys of one map in insertion order: the theorems hold for every `ord` that permutes. -/
def planTerms (ord : List Edge → List Edge) (vis : List Edge) : List Edge :=
  ord (vis.reverse.filter isTermE)

def levelGroup (ord : List Edge → List Edge) (s : Store) (vis : List Edge) (l : Nat) : List Edge :=
  ord (vis.reverse.filter (fun x => !isTermE x && levelOfE s x == l))

def planInner (ord : List Edge → List Edge) (s : Store) (vis : List Edge) : Nat → List Edge
  | 0 => []
  | k+1 => levelGroup ord s vis k ++ planInner ord s vis k

/-- the closure `idx` of `export_common`: 1-based position in the numbering (the simple BDD has no
complemented edges, so the sign is always `+`) -/
def idOf (all : List Edge) (x : Edge) : Int := ((all.idxOf x + 1 : Nat) : Int)

/-- the record of an inner node: its level and the ids of its children -/
def snodeOf (s : Store) (all : List Edge) (x : Edge) : SNode :=
  ⟨levelOfE s x, (kidsE s x).map (idOf all)⟩

/-- the traversal of all roots -/
def visitRoots (leak : Bool) (s : Store) (fuel : Nat) (st : RSt × List Edge) (roots : List Edge) :
    RSt × List Edge :=
  roots.foldl (recAddMap leak s fuel) st

/-- **`ExportSettings::export`** on the counter store. Returns the structured file (`none` where
the Rust code panics: a visited node on a level `≥ num_levels` — `node_map[level]` — which no
manager produces) and the state after the function has returned:

1. `roots.extend(iter.map(|f| manager.clone_edge(..)))`,
2. `rec_add_map` for every root (fuel `nvars + 1`: in an ordered store a path has at most `nvars`
   inner nodes and a terminal),
3. numbering, records,
4. the maps go out of scope (every key dropped once), then the `roots` guard. -/
def exportS (leak : Bool) (ord : List Edge → List Edge) (nvars : Nat) (r : RSt) (roots : List Edge) :
    Option Diagram × RSt :=
  let s := r.st.store
  let r1 := cloneList r roots.reverse
  let v := visitRoots leak s (nvars + 1) (r1, []) roots
  let terms := planTerms ord v.2
  let inner := planInner ord s v.2 nvars
  let all := terms ++ inner
  let d : Diagram :=
    { terms := terms.map termDesc, nodes := inner.map (snodeOf s all), roots := roots.map (idOf all),
      rootNames := none }
  let ok := v.2.all (fun x => isTermE x || decide (levelOfE s x < nvars))
  (if ok then some d else none, dropList (dropList v.1 v.2) roots)

/-! ## import -/

inductive Err where
  | malformed | oom | panic
deriving Repr, DecidableEq, Inhabited

inductive Out where
  | ok (roots : List Edge)
  | fail (e : Err)
deriving Repr, DecidableEq, Inhabited

inductive Step (α : Type) where
  | ok (a : α)
  | error (e : Err)
deriving Repr, DecidableEq

/-- the `complement` callback: consumes an owned edge, returns an owned edge or `OutOfMemory` -/
abbrev Compl := RSt → Edge → Option Edge × RSt

/-- `|_, e| Ok(e)` -/
def complId : Compl := fun r e => (some e, r)

/-- `BooleanFunction::not_edge_owned` (default implementation):
`let edge = EdgeDropGuard::new(manager, edge); Self::not_edge(manager, &edge)` — the guard drops
the operand on success **and** on `OutOfMemory` -/
def complNot (cap : Nat) (p : Policy) (fuel : Nat) : Compl := fun r e =>
  ((notR cap p fuel r e).1, dropEdge (notR cap p fuel r e).2 e)

/-- the seeded defect `R3-C14-notedgeowned-no-guard`: `let res = not_edge(manager, &edge)?;
manager.drop_edge(edge); Ok(res)` — the operand leaks when the negation runs out of memory -/
def complNotLeak (cap : Nat) (p : Policy) (fuel : Nat) : Compl := fun r e =>
  match notR cap p fuel r e with
  | (some h, r') => (some h, dropEdge r' e)
  | (none, r') => (none, r')

structure ICfg where
  /-- capacity of the node store (`add_node` fails when no slot is left) -/
  cap : Nat
  compl : Compl
  /-- `suppvar_level_map`: the level of each support variable in the importing manager -/
  slm : List Nat

def trueNames : List (List Nat) :=
  [[116], [84], [116, 114, 117, 101], [84, 114, 117, 101], [84, 82, 85, 69], [226, 138, 164], [49]]
def falseNames : List (List Nat) :=
  [[102], [70], [102, 97, 108, 115, 101], [70, 97, 108, 115, 101], [70, 65, 76, 83, 69], [226, 138, 165], [48]]

/-- `ParseTagged for BDDTerminal` on the UTF-8 bytes: `t T true True TRUE ⊤ 1` / `f F false False
FALSE ⊥ 0` -/
def parseTermBdd (s : List Nat) : Option Bool :=
  if trueNames.contains s then some true else if falseNames.contains s then some false else none

/-- the loop `for &child in &children` of `import_ascii`. `acc` is `child_edges` (an
`EdgeVecDropGuard`): on every `return` it is dropped here; the caller drops the node table. -/
def childLoop (compl : Compl) (nodeId level : Nat) (table : List Edge) :
    RSt → List Edge → List Int → Step (List Edge) × RSt
  | r, acc, [] => (.ok acc, r)
  | r, acc, c :: cs =>
    if c.natAbs ≥ nodeId then (.error .malformed, dropList r acc)      -- "children ids must be less than node"
    else
      match table[c.natAbs - 1]? with
      | none => (.error .panic, dropList r acc)                        -- `nodes[child_id - 1]` (not reachable)
      | some x =>
        let r1 := cloneEdge r x
        match (if c < 0 then compl r1 x else (some x, r1)) with
        | (none, r2) => (.error .oom, dropList r2 acc)
        | (some e, r2) =>
          -- `child_edges.push(e)` precedes the level check
          if level ≥ levelOfE r2.st.store e then (.error .malformed, dropList r2 (acc ++ [e]))
          else childLoop compl nodeId level table r2 (acc ++ [e]) cs

/-- one inner-node line of `import_ascii` (the terminal lines are `termLoop`) -/
def nodeStep (cfg : ICfg) (supp : List Nat) (nodeId : Nat) (table : List Edge) (r : RSt) (n : SNode) :
    Step Edge × RSt :=
  if n.children.length ≠ 2 then (.error .malformed, r)
  else if n.children.contains 0 then
    -- `children.contains(&0)`: the line is read as a terminal; the variable field (a decimal
    -- number) is the description — `0` and `1` are accepted spellings
    match parseTermBdd (decBytes (suppIdx supp n.level)) with
    | none => (.error .malformed, r)
    | some b => (.ok (.term b), r)
  else
    match cfg.slm[suppIdx supp n.level]? with
    | none => (.error .malformed, r)                                    -- "variable out of range"
    | some level =>
      match childLoop cfg.compl nodeId level table r [] n.children with
      | (.error e, r') => (.error e, r')
      | (.ok [t, e], r') =>
        match mkNodeR cfg.cap r' level t e with
        | (some x, r'') => (.ok x, r'')
        | (none, r'') => (.error .oom, r'')
      | (.ok cs, r') => (.error .panic, dropList r' cs)                 -- not reachable (`ARITY = 2`)

/-- terminal lines: `get_terminal` of the simple BDD is static (no counter, cannot fail) -/
def termLoop : List (List Nat) → Step (List Edge)
  | [] => .ok []
  | d :: ds =>
    match parseTermBdd d with
    | none => .error .malformed
    | some b =>
      match termLoop ds with
      | .ok t => .ok (.term b :: t)
      | .error e => .error e

/-- the node loop: `nodes.push(node)`; on an error the `nodes` guard drops the table -/
def nodeLoop (cfg : ICfg) (supp : List Nat) : RSt → List Edge → List SNode → Step (List Edge) × RSt
  | r, table, [] => (.ok table, r)
  | r, table, n :: ns =>
    match nodeStep cfg supp (table.length + 1) table r n with
    | (.error e, r') => (.error e, dropList r' table)
    | (.ok x, r') => nodeLoop cfg supp r' (table ++ [x]) ns

/-- the root loop of `import`; `acc` are the `F`s created so far (dropped on `?`) -/
def rootLoop (compl : Compl) (table : List Edge) : RSt → List Edge → List Int → Step (List Edge) × RSt
  | r, acc, [] => (.ok acc, r)
  | r, acc, c :: cs =>
    match (if c = 0 then none else table[c.natAbs - 1]?) with
    | none => (.error .panic, dropList r acc)                          -- excluded by `DumpHeader::load`
    | some x =>
      let r1 := cloneEdge r x
      match (if c > 0 then (some x, r1) else compl r1 x) with
      | (none, r2) => (.error .oom, dropList r2 acc)
      | (some e, r2) => rootLoop compl table r2 (acc ++ [e]) cs

/-- **`DumpHeader::load` (root-id checks) + `dddmp::import`** on the counter store, ASCII node
section, for the structured file `d` written from a manager with `nvars` levels. -/
def importS (cfg : ICfg) (nvars : Nat) (r : RSt) (d : Diagram) : Out × RSt :=
  if d.roots.any (fun id => id = 0 || id.natAbs > d.terms.length + d.nodes.length) then (.fail .malformed, r)
  else
    match termLoop d.terms with
    | .error e => (.fail e, r)
    | .ok tt =>
      match nodeLoop cfg (suppLevels nvars d.nodes) r tt d.nodes with
      | (.error e, r') => (.fail e, r')
      | (.ok table, r') =>
        match rootLoop cfg.compl table r' [] d.roots with
        | (.error e, r'') => (.fail e, dropList r'' table)
        | (.ok roots, r'') => (.ok roots, dropList r'' table)

end OxiddModel.Dddmp.StoreS
