import OxiddModel.Dddmp.LemmasLoop
import OxiddModel.Bcdd.RcSLemmasGc
import OxiddModel.Bcdd.RcSLemmasInv
import OxiddModel.Util.VisitS

/-!
# DDDMP export / import at STORE level with reference counters — complement edges (C15, C05, C14)

The BCDD counterpart of `Dddmp/StoreS.lean`: exporter and importer on the **counter store** of
`Bcdd/RcS.lean` (`RStC`: hash-consed id store of nodes `⟨level, t, e⟩` with a regular then-edge,
edges `⟨neg, tgt⟩`, one `rc` field per slot that belongs to the TARGET of an edge, `mkNodeR` =
`reduce` with tag normalisation + `get_or_insert` + `add_node` under a capacity). Every
`clone_edge` / `drop_edge` / drop guard of

* `crates/oxidd-dump/src/dddmp/export.rs` (`ExportSettings::export`: the `roots`
  `EdgeVecDropGuard`; `export_common`: `rec_add_map` with the per-level `EdgeHashMap`s and the
  terminal map, **keyed on the edge with the tag stripped** — `e.with_tag(Default::default())` —
  the bottom-up numbering, the closure `idx` (`if is_complemented(e) { -idx } else { idx }`), the
  node records, the maps dropped at the end),
* `crates/oxidd-core/src/util/edge_hash_map.rs` (`insert`: the key is cloned **iff it was not
  present**; `Drop`: every key is dropped once), `on_drop.rs` (`EdgeDropGuard`,
  `EdgeVecDropGuard`),
* `crates/oxidd-dump/src/dddmp/import.rs` (`import_bin`: the static terminal `T` in an
  `EdgeDropGuard`, the node table `nodes` of owned edges in an `EdgeVecDropGuard`, per node the
  guards `t = clone_edge(&nodes[idx(t)])`, `e = clone_edge(&nodes[idx(e)])`, the `complement`
  callback on `e.into_edge()` if the complement bit is set, the variable lookup, the level check,
  `reduce(..).then_insert(..)`; `import`: the roots cloned out of the table (complemented through
  the callback), the table dropped at the end and on every error path),
* `crates/oxidd-rules-bdd/src/complement_edge/apply_rec.rs` (`BooleanFunction::not_edge_owned` =
  `Ok(not_owned(edge))`: tag flip on the owned edge, no counter, cannot fail)

is explicit. The file handled is the **structured file** of `Dddmp/Model.lean` (`Diagram`); its
bytes are `Dddmp.nodeSection false` (a BCDD manager has ONE terminal, so `binary_supported` holds
and the node section is the binary one) — `StoreSCLemmasBytes.lean` goes through the bytes.
-/
namespace OxiddModel.Dddmp.StoreSC
open OxiddModel.Bcdd OxiddModel.Bcdd.Refine OxiddModel.Bcdd.Rc
open OxiddModel.Bdd.Rc (rcGet rcSet)
open OxiddModel.Dddmp

/-! ## helpers on the store -/

/-- `e.with_tag(Default::default())`: the regular edge to a target (the key of the hash maps) -/
def reg (t : Tgt) : EdgeC := ⟨false, t⟩

/-- the child edges of a node (`node.children()`; none for the terminal): the then-edge is regular -/
def kidsE (s : StoreC) : Tgt → List EdgeC
  | .term => []
  | .inner i =>
    match s.get? i with
    | some n => [reg n.t, n.e]
    | none => []

/-- the targets of the child edges -/
def kidsT (s : StoreC) : Tgt → List Tgt
  | .term => []
  | .inner i =>
    match s.get? i with
    | some n => [n.t, n.e.tgt]
    | none => []

/-- `manager.get_node(&e).level()`: `LevelNo::MAX` for the terminal -/
def levelOfT (s : StoreC) : Tgt → Nat
  | .term => levelMax
  | .inner i =>
    match s.get? i with
    | some n => n.level
    | none => levelMax

def levelOfE (s : StoreC) (x : EdgeC) : Nat := levelOfT s x.tgt

def isTermT : Tgt → Bool
  | .term => true
  | .inner _ => false

/-- `clone_edge` of every element, last element first -/
def cloneList (r : RStC) (l : List EdgeC) : RStC := l.foldr (fun e r => cloneEdge r e) r

/-- `drop_edge` of every element in order (`EdgeVecDropGuard::drop`, `EdgeHashMap::drop`) -/
def dropList (r : RStC) (l : List EdgeC) : RStC := l.foldl dropEdge r

/-! ## export -/

/-- `rec_add_map`: `map.insert(&e.with_tag(Default::default()), 0)` clones the (tag-stripped) key
iff it is new (`EdgeHashMap::insert`), and only then the children are visited. The per-level maps
and the terminal map together are the list of targets inserted so far, newest first. The store is
not touched; only counters move.

`leak = true` is the seeded defect `R3-C05-edgehashmap-insert-leak`: `insert` clones the key
although it is present. -/
def recAddMap (leak : Bool) (s : StoreC) : Nat → RStC × List Tgt → Tgt → RStC × List Tgt
  | 0, st, _ => st
  | fuel+1, st, x =>
    if st.2.contains x then (if leak then (cloneEdge st.1 (reg x), st.2) else st)
    else (kidsT s x).foldl (fun st k => recAddMap leak s fuel st k) (cloneEdge st.1 (reg x), x :: st.2)

/-- `AsciiDisplay for BCDDTerminal`: the single terminal is written as `T` -/
def termDescC : Tgt → List Nat := fun _ => [84]

/-- The numbering: terminal map first (ids `1..`), then the level maps from the bottom level up
(`node_map.iter_mut().enumerate().rev()`). `ord` is the iteration order of a hash map, applied
to the keys of one map in insertion order: the theorems hold for every `ord` that permutes. -/
def planTerms (ord : List Tgt → List Tgt) (vis : List Tgt) : List Tgt :=
  ord (vis.reverse.filter isTermT)

def levelGroup (ord : List Tgt → List Tgt) (s : StoreC) (vis : List Tgt) (l : Nat) : List Tgt :=
  ord (vis.reverse.filter (fun x => !isTermT x && levelOfT s x == l))

def planInner (ord : List Tgt → List Tgt) (s : StoreC) (vis : List Tgt) : Nat → List Tgt
  | 0 => []
  | k+1 => levelGroup ord s vis k ++ planInner ord s vis k

/-- the closure `idx` of `export_common`: the 1-based position of the target in the numbering,
negated for a complemented edge -/
def idOfC (all : List Tgt) (x : EdgeC) : Int :=
  if x.neg then -((all.idxOf x.tgt + 1 : Nat) : Int) else ((all.idxOf x.tgt + 1 : Nat) : Int)

/-- the record of an inner node `⟨level, t, e⟩`: its level, the (positive) id of the then-edge, the
signed id of the else-edge -/
def snodeOfC (s : StoreC) (all : List Tgt) (x : Tgt) : SNode :=
  ⟨levelOfT s x, (kidsE s x).map (idOfC all)⟩

/-- the traversal of all roots (`rec_add_map(.., root.borrowed())`: the tag is stripped at the
`insert`) -/
def visitRoots (leak : Bool) (s : StoreC) (fuel : Nat) (st : RStC × List Tgt) (roots : List EdgeC) :
    RStC × List Tgt :=
  roots.foldl (fun st x => recAddMap leak s fuel st x.tgt) st

/-- **`ExportSettings::export`** on the BCDD counter store. Returns the structured file (`none`
where the Rust code panics: a visited node on a level `≥ num_levels` — `node_map[level]` — which no
manager produces) and the state after the function has returned:

1. `roots.extend(iter.map(|f| manager.clone_edge(..)))`,
2. `rec_add_map` for every root (fuel `nvars + 1`),
3. numbering, records,
4. the maps go out of scope (every key — a regular edge — dropped once), then the `roots` guard. -/
def exportSC (leak : Bool) (ord : List Tgt → List Tgt) (nvars : Nat) (r : RStC) (roots : List EdgeC) :
    Option Diagram × RStC :=
  let s := r.st.store
  let r1 := cloneList r roots.reverse
  let v := visitRoots leak s (nvars + 1) (r1, []) roots
  let terms := planTerms ord v.2
  let inner := planInner ord s v.2 nvars
  let all := terms ++ inner
  let d : Diagram :=
    { terms := terms.map termDescC, nodes := inner.map (snodeOfC s all), roots := roots.map (idOfC all),
      rootNames := none }
  let ok := v.2.all (fun x => isTermT x || decide (levelOfT s x < nvars))
  (if ok then some d else none, dropList (dropList v.1 (v.2.map reg)) roots)

/-! ## import -/

inductive Err where
  | malformed | oom | panic
deriving Repr, DecidableEq, Inhabited

inductive OutC where
  | ok (roots : List EdgeC)
  | fail (e : Err)
deriving Repr, DecidableEq, Inhabited

inductive Step (α : Type) where
  | ok (a : α)
  | error (e : Err)
deriving Repr, DecidableEq

/-- the `complement` callback: consumes an owned edge, returns an owned edge or `OutOfMemory` -/
abbrev ComplC := RStC → EdgeC → Option EdgeC × RStC

/-- `|_, e| Ok(e)` -/
def complIdC : ComplC := fun r e => (some e, r)

/-- `BooleanFunction::not_edge_owned` of `BCDDFunction`: `Ok(not_owned(edge))` — the tag of the
owned edge is flipped; no counter changes, no allocation, no failure -/
def complNotC : ComplC := fun r e => (some (notE e), r)

structure ICfgC where
  /-- capacity of the node store (`add_node` fails when no slot is left) -/
  cap : Nat
  compl : ComplC
  /-- `suppvar_level_map`: the level of each support variable in the importing manager -/
  slm : List Nat

/-- the terminal `T` of `import_bin` (`M::Terminal::parse("T")`, `get_terminal`): static, no
counter — its `EdgeDropGuard` and every `clone_edge(&terminal)` are no-ops on the counters -/
def termT : EdgeC := termC true

/-- the terminal records (`Code::Terminal`): `nodes.push(manager.clone_edge(&terminal))` — the
descriptor is not in a binary file -/
def termTable (ds : List (List Nat)) : List EdgeC := ds.map (fun _ => termT)

/-- one inner-node record of `import_bin`, on the structured record `[t, e]`:

* `idx(.., t_code)`: `id == 0` / `id >= node_id` are errors; the binary format has no complement
  bit for the then-edge, a structured record with a negative then id has no binary form;
* `t = EdgeDropGuard(clone_edge(&nodes[t-1]))`;
* `idx(.., e_code)` (on an error the `t` guard drops), `e = EdgeDropGuard(clone_edge(&nodes[|e|-1]))`;
* `e_complement`: `complement(manager, e.into_edge())` — on `OutOfMemory` only the `t` guard is
  left;
* `suppvar_level_map.get(vid)`, `level >= t_level || level >= e_level`: errors, both guards drop
  (`e` first);
* `reduce(manager, level, [t.into_edge(), e.into_edge()]).then_insert(..)`.

The caller drops the node table on every error. -/
def nodeStepC (cfg : ICfgC) (supp : List Nat) (nodeId : Nat) (table : List EdgeC) (r : RStC) (n : SNode) :
    Step EdgeC × RStC :=
  match n.children with
  | [tc, ec] =>
    if tc ≤ 0 ∨ tc.natAbs ≥ nodeId then (.error .malformed, r)
    else
      match table[tc.natAbs - 1]? with
      | none => (.error .panic, r)                                        -- `nodes[..]` (not reachable)
      | some t =>
        let r1 := cloneEdge r t
        if ec = 0 ∨ ec.natAbs ≥ nodeId then (.error .malformed, dropEdge r1 t)
        else
          match table[ec.natAbs - 1]? with
          | none => (.error .panic, dropEdge r1 t)                        -- not reachable
          | some e0 =>
            let r2 := cloneEdge r1 e0
            match (if ec < 0 then cfg.compl r2 e0 else (some e0, r2)) with
            | (none, r3) => (.error .oom, dropEdge r3 t)
            | (some e, r3) =>
              match cfg.slm[suppIdx supp n.level]? with
              | none => (.error .malformed, dropEdge (dropEdge r3 e) t)   -- "variable ID out of range"
              | some level =>
                if level ≥ levelOfE r3.st.store t ∨ level ≥ levelOfE r3.st.store e then
                  (.error .malformed, dropEdge (dropEdge r3 e) t)
                else
                  match mkNodeR cfg.cap r3 level t e with
                  | (some x, r4) => (.ok x, r4)
                  | (none, r4) => (.error .oom, r4)
  | _ => (.error .malformed, r)                                           -- `ARITY == 2`

/-- the node loop: `nodes.push(node)`; on an error the `nodes` guard drops the table -/
def nodeLoopC (cfg : ICfgC) (supp : List Nat) : RStC → List EdgeC → List SNode → Step (List EdgeC) × RStC
  | r, table, [] => (.ok table, r)
  | r, table, n :: ns =>
    match nodeStepC cfg supp (table.length + 1) table r n with
    | (.error e, r') => (.error e, dropList r' table)
    | (.ok x, r') => nodeLoopC cfg supp r' (table ++ [x]) ns

/-- the root loop of `import`; `acc` are the `F`s created so far (dropped on `?`) -/
def rootLoopC (compl : ComplC) (table : List EdgeC) : RStC → List EdgeC → List Int → Step (List EdgeC) × RStC
  | r, acc, [] => (.ok acc, r)
  | r, acc, c :: cs =>
    match (if c = 0 then none else table[c.natAbs - 1]?) with
    | none => (.error .panic, dropList r acc)                          -- excluded by `DumpHeader::load`
    | some x =>
      let r1 := cloneEdge r x
      match (if c > 0 then (some x, r1) else compl r1 x) with
      | (none, r2) => (.error .oom, dropList r2 acc)
      | (some e, r2) => rootLoopC compl table r2 (acc ++ [e]) cs

/-- **`DumpHeader::load` (root-id checks) + `dddmp::import`** on the BCDD counter store, binary
node section, for the structured file `d` written from a manager with `nvars` levels. -/
def importSC (cfg : ICfgC) (nvars : Nat) (r : RStC) (d : Diagram) : OutC × RStC :=
  if d.roots.any (fun id => id = 0 || id.natAbs > d.terms.length + d.nodes.length) then (.fail .malformed, r)
  else
    match nodeLoopC cfg (suppLevels nvars d.nodes) r (termTable d.terms) d.nodes with
    | (.error e, r') => (.fail e, r')
    | (.ok table, r') =>
      match rootLoopC cfg.compl table r' [] d.roots with
      | (.error e, r'') => (.fail e, dropList r'' table)
      | (.ok roots, r'') => (.ok roots, dropList r'' table)

/-! ## concrete runs -/

/-- a 3-node store over 3 levels: slot 0 = `x2` (`⟨2, ⊤, ¬⊤⟩`), slot 1 = `⟨1, x2, ¬x2⟩` (complemented
else edge, shares slot 0 on both sides), slot 2 = `⟨0, [1], ¬x2⟩`; the counters are exact for the
external handles `[¬[2], [1]]` -/
def exStore : RStC :=
  ⟨⟨⟨#[some ⟨2, .term, ⟨true, .term⟩⟩, some ⟨1, .inner 0, ⟨true, .inner 0⟩⟩,
      some ⟨0, .inner 1, ⟨true, .inner 0⟩⟩]⟩, [], 0⟩, #[4, 3, 2]⟩

def exRoots : List EdgeC := [⟨true, .inner 2⟩, ⟨false, .inner 1⟩]

def exDiagram : Diagram :=
  { terms := [[84]], nodes := [⟨2, [1, -1]⟩, ⟨1, [2, -2]⟩, ⟨0, [3, -2]⟩], roots := [-4, 3], rootNames := none }

/-- what is compared in the concrete runs: the node table and the counters (the apply cache and
the time stamp are never touched) -/
def snap (r : RStC) : List (Option NodeC) × List Nat := (r.st.store.nodes.toList, r.rc.toList)

def view (d : Diagram) : List (List Nat) × List SNode × List Int := (d.terms, d.nodes, d.roots)

/-- the exporter writes `exDiagram` and leaves the state as it was -/
example : ((exportSC false id 3 exStore exRoots).1.map view, snap (exportSC false id 3 exStore exRoots).2)
    = (some (view exDiagram), snap exStore) := by decide +kernel

/-- the importer (callback `not_edge_owned`) returns the original edges; afterwards the two new
handles are counted -/
example : ((importSC ⟨3, complNotC, [0, 1, 2]⟩ 3 exStore exDiagram).1,
      snap (importSC ⟨3, complNotC, [0, 1, 2]⟩ 3 exStore exDiagram).2)
    = (.ok exRoots, (exStore.st.store.nodes.toList, [4, 4, 3])) := by decide +kernel

/-- **negative witness** (`R3-C05-edgehashmap-insert-leak`): with an `insert` that clones although
the key is present, the shared node (slot 0, reached three times) keeps two references too many,
slot 1 (reached twice) one -/
example : (exportSC true id 3 exStore exRoots).2.rc.toList = [6, 4, 2] := by decide +kernel

/-- **OutOfMemory**: capacity 0, empty manager — the first `reduce` fails, all guards and the table
drop, nothing is left -/
example : ((importSC ⟨0, complNotC, [0, 1, 2]⟩ 3 RStC.empty exDiagram).1,
      snap (importSC ⟨0, complNotC, [0, 1, 2]⟩ 3 RStC.empty exDiagram).2) = (.fail .oom, ([], [])) := by decide +kernel

/-- a manager holding only `x2` (slot 0), no handle -/
def exSmall : RStC := ⟨⟨⟨#[some ⟨2, .term, ⟨true, .term⟩⟩]⟩, [], 0⟩, #[1]⟩

/-- OutOfMemory in the middle: capacity 2 in `exSmall`: the first record is found, the second is
created, the third fails (`add_node`); both guards and the table drop: the counters of the
survivors are the table's own reference plus the stored parent edges (slot 0: `1 + 2`, the new
slot 1: `1`), nothing is leaked -/
example : ((importSC ⟨2, complNotC, [0, 1, 2]⟩ 3 exSmall exDiagram).1,
      snap (importSC ⟨2, complNotC, [0, 1, 2]⟩ 3 exSmall exDiagram).2)
    = (.fail .oom, ([some ⟨2, .term, ⟨true, .term⟩⟩, some ⟨1, .inner 0, ⟨true, .inner 0⟩⟩], [3, 1])) := by
  decide +kernel

end OxiddModel.Dddmp.StoreSC
