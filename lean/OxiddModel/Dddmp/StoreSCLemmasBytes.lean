import OxiddModel.Dddmp.StoreSCLemmasSame
import OxiddModel.Dddmp.Properties

/-!
# The BYTES the exporter writes, read back in the same BCDD manager

Connects the store-level exporter `exportSC` (`export_common` of
`crates/oxidd-dump/src/dddmp/export.rs`) with the byte-level model of the binary importer
(`importBin` / `importRoots` of `Dddmp/Model.lean`: `import_bin` and the root loop of `import` in
`crates/oxidd-dump/src/dddmp/import.rs`, with `decode_7bit`, `read_unescape`, the node-code byte,
the id and variable codes) through the binary round-trip theorem `Dddmp.export_import_struct`.

The manager side of the byte-level importer is an edge algebra `Alg E`. `frozenAlgC s` is the
BCDD manager with unique table `s`, looked at by an importer that only *finds* nodes
(`reduce` of `crates/oxidd-rules-bdd/src/complement_edge/mod.rs`: `t == e`, tag normalisation,
`get_or_insert` hit): an edge is carried with the level of its node.

`import_export_bytes_same_manager_C`: for every `NumberingC` of a hash-consed, reduced, ordered
store with the terminal present, the bytes `nodeSection false nvars (mkDiagramC …)` followed by
anything are accepted by `importBin Guards.code`, exactly the node section is consumed, and the
node table built is — entry by entry — the regular edge to the numbered target;
`importRoots_same_manager_C`: the root ids select the original root edges, complement bit
included; `importNodes_same_manager_C`: both, with the `.end` line.
-/
namespace OxiddModel.Dddmp.StoreSC
open OxiddModel.Bcdd OxiddModel.Bcdd.Refine OxiddModel.Bcdd.Rc
open OxiddModel.Bdd.Rc (rcGet rcSet)
open OxiddModel.Dddmp

/-- the BCDD manager with (frozen) unique table `s` as an edge algebra: an edge with the level of
its node; `reduce` returns the edge `mkNodeR` returns when the node is found -/
def frozenAlgC (s : StoreC) : Alg (Nat × EdgeC) where
  level x := x.1
  complement x := (x.1, notE x.2)
  reduce l cs :=
    match cs with
    | [t, e] =>
      (l, if t.2 = e.2 then t.2 else
        match s.find? (reduceNode l t.2 e.2) with
        | some i => ⟨(reduceRaw t.2 e.2).2.2, .inner i⟩
        | none => default)
    | _ => (l, default)
  parseTerminal d := if d = [84] then some (levelMax, ⟨false, .term⟩) else none
  arity := 2

theorem frozenAlgC_level_reduce (s : StoreC) (l : Nat) (cs : List (Nat × EdgeC)) :
    (frozenAlgC s).level ((frozenAlgC s).reduce l cs) = l := by
  unfold frozenAlgC
  simp only
  split <;> rfl

/-- the table entry for a numbered target: the regular edge, with the level of the node -/
def emb (s : StoreC) (t : Tgt) : Nat × EdgeC := (levelOfT s t, reg t)

/-! ## positions -/

theorem lookup_map {α : Type} (f : Tgt → α) {all pre rest : List Tgt} (h : all = pre ++ rest) {c : Tgt}
    (hc : c ∈ pre) : all.idxOf c < pre.length ∧ (pre.map f)[all.idxOf c]? = some (f c) := by
  have h1 : all.idxOf c = pre.idxOf c := by rw [h, List.idxOf_append]; simp [hc]
  have h2 : pre.idxOf c < pre.length := List.idxOf_lt_length_iff.mpr hc
  rw [h1]
  refine ⟨h2, ?_⟩
  rw [List.getElem?_map, List.getElem?_eq_getElem h2, List.getElem_idxOf]
  rfl

theorem terms_singleton {terms : List Tgt} (h : ∀ x ∈ terms, x = .term) (hl : terms.length = 1) :
    terms = [.term] := by
  match terms, hl with
  | [a], _ => rw [h a List.mem_cons_self]

/-- the level the exporter's `bin_idx` / variable code computation sees for a child id is the level
of the child in the store -/
theorem levelOfId_all {s : StoreC} {inner : List Tgt} (f : Tgt → SNode)
    (hf : ∀ x, (f x).level = levelOfT s x) {c : Tgt} (hc : c ∈ Tgt.term :: inner) :
    levelOfId 1 (inner.map f) ((Tgt.term :: inner).idxOf c + 1) = levelOfT s c := by
  cases c with
  | term => simp [levelOfId, levelOfT]
  | inner j =>
    have hci : Tgt.inner j ∈ inner := by
      rcases List.mem_cons.mp hc with h | h
      · cases h
      · exact h
    have hne : (Tgt.term == Tgt.inner j) = false := by
      rw [beq_eq_false_iff_ne]; intro h; cases h
    have hidx : (Tgt.term :: inner).idxOf (Tgt.inner j) = inner.idxOf (Tgt.inner j) + 1 := by
      rw [List.idxOf_cons, hne]; rfl
    have hlt : inner.idxOf (Tgt.inner j) < inner.length := List.idxOf_lt_length_iff.mpr hci
    rw [hidx]
    unfold levelOfId
    have h1 : ¬ (inner.idxOf (Tgt.inner j) + 1 + 1 ≤ 1) := by omega
    have h2 : inner.idxOf (Tgt.inner j) + 1 + 1 - 1 - 1 = inner.idxOf (Tgt.inner j) := by omega
    simp only [h1, if_false, h2, List.getElem?_map, List.getElem?_eq_getElem hlt, Option.map_some,
      List.getElem_idxOf, hf]

/-! ## the written node list is well formed -/

theorem wfNodes_of_numbering {nvars : Nat} {s : StoreC} (ok : StoreOKC nvars s)
    {roots : List EdgeC} {inner : List Tgt} (N : NumberingC s nvars roots [.term] inner)
    (hsz : (inner.length + 1) * 4 ≤ isizeMax) :
    WFNodes nvars (inner.map (snodeOfC s ([.term] ++ inner))) := by
  refine ⟨by simpa using hsz, ok.nvars_le, ?_⟩
  intro i hi
  have hi' : i < inner.length := by simpa using hi
  have hsplit : inner = inner.take i ++ inner[i] :: inner.drop (i + 1) := by
    rw [List.getElem_cons_drop]; exact (List.take_append_drop i inner).symm
  have hall : [Tgt.term] ++ inner = (Tgt.term :: inner.take i) ++ inner[i] :: inner.drop (i + 1) :=
    congrArg (Tgt.term :: ·) hsplit
  have hxm : inner[i] ∈ inner := List.getElem_mem _
  obtain ⟨j, n, hxj, hj, hlv⟩ := N.inner_stored inner[i] hxm
  obtain ⟨l, t, e⟩ := n
  have hk : kidsT s (.inner j) = [t, e.tgt] := kidsT_stored hj
  have hL : levelOfT s (.inner j) = l := levelOfT_stored hj
  have hbu := N.bottomUp _ _ _ hall
  rw [hxj, hk] at hbu
  have hpl : (Tgt.term :: inner.take i).length = i + 1 := by
    simp only [List.length_cons, List.length_take]; omega
  obtain ⟨ht1, _⟩ := lookup_map reg hall (hbu t (by simp))
  obtain ⟨he1, _⟩ := lookup_map reg hall (hbu e.tgt (by simp))
  rw [hpl] at ht1 he1
  have htall : t ∈ Tgt.term :: inner := by
    have := hbu t (by simp)
    rcases List.mem_cons.mp this with h | h
    · rw [h]; exact List.mem_cons_self
    · exact List.mem_cons_of_mem _ (List.mem_of_mem_take h)
  have heall : e.tgt ∈ Tgt.term :: inner := by
    have := hbu e.tgt (by simp)
    rcases List.mem_cons.mp this with h | h
    · rw [h]; exact List.mem_cons_self
    · exact List.mem_cons_of_mem _ (List.mem_of_mem_take h)
  have htl : l < levelOfT s t := kid_level_lt ok hj (by rw [hk]; simp)
  have hel : l < levelOfT s e.tgt := kid_level_lt ok hj (by rw [hk]; simp)
  have hlt := levelOfId_all (s := s) (inner := inner) (snodeOfC s ([.term] ++ inner)) (fun _ => rfl) htall
  have hle := levelOfId_all (s := s) (inner := inner) (snodeOfC s ([.term] ++ inner)) (fun _ => rfl) heall
  have hsn : (inner.map (snodeOfC s ([.term] ++ inner)))[i]
      = ⟨l, [idOfC ([.term] ++ inner) (reg t), idOfC ([.term] ++ inner) e]⟩ := by
    rw [List.getElem_map, hxj]
    simp only [snodeOfC, kidsE_stored hj, hL, List.map_cons, List.map_nil]
  refine ⟨idOfC ([.term] ++ inner) (reg t), idOfC ([.term] ++ inner) e, ?_, idOfC_reg_pos _ _, ?_,
    idOfC_ne_zero _ _, ?_, ?_, ?_, ?_⟩
  · rw [hsn]
  · rw [idOfC_natAbs]; exact Nat.succ_lt_succ ht1
  · rw [idOfC_natAbs]; exact Nat.succ_lt_succ he1
  · rw [hsn]; exact hlv
  · rw [hsn, idOfC_natAbs]
    rw [← hlt] at htl; exact htl
  · rw [hsn, idOfC_natAbs]
    rw [← hle] at hel; exact hel

theorem levelMaps_same (nvars : Nat) (nodes : List SNode) (h : nvars ≤ levelMax) :
    LevelMaps (suppLevels nvars nodes) (suppLevels nvars nodes) nvars := by
  have hb : ∀ x ∈ suppLevels nvars nodes, x < nvars := by
    intro x hx
    unfold suppLevels at hx
    exact List.mem_range.mp (List.mem_filter.mp hx).1
  have hlen : (suppLevels nvars nodes).length ≤ nvars := by
    unfold suppLevels
    exact Nat.le_trans (List.length_filter_le _ _) (by simp)
  refine ⟨suppLevels_pairwise _ _, suppLevels_pairwise _ _, rfl, hb, h, ?_, ?_⟩
  · unfold levelMax at h; unfold usize64; omega
  · intro x hx; have := hb x hx; omega

/-! ## the reference construction gives the original edges -/

theorem sel_tag (s : StoreC) (all : List Tgt) (e : EdgeC) :
    (if idOfC all e < 0 then (frozenAlgC s).complement (emb s e.tgt) else emb s e.tgt)
      = (levelOfT s e.tgt, e) := by
  by_cases hneg : e.neg = true
  · have hp : idOfC all e < 0 := (idOfC_neg_iff _ _).mpr hneg
    simp only [hp, if_true, frozenAlgC, emb]
    rw [tag_restore_neg hneg]
  · have hp : ¬ idOfC all e < 0 := by rw [idOfC_neg_iff]; exact hneg
    simp only [hp, if_false, emb]
    rw [tag_restore_pos hneg]

theorem reduce_hit {s : StoreC} (hu : s.Unique) {i l : Nat} {t : Tgt} {e : EdgeC}
    (h : s.get? i = some ⟨l, t, e⟩) (hte : reg t ≠ e) (a b : Nat) :
    (frozenAlgC s).reduce l [(a, reg t), (b, e)] = emb s (.inner i) := by
  simp only [frozenAlgC, hte, if_false, reduceNode_reg, find?_of_get? hu h, reduceRaw_reg, emb,
    levelOfT_stored h]
  rfl

theorem buildNodes_same {nvars : Nat} {s : StoreC} (ok : StoreOKC nvars s) (hu : s.Unique) (hn : s.NoRed)
    {roots : List EdgeC} {terms inner : List Tgt} (N : NumberingC s nvars roots terms inner) :
    ∀ (ipost ipre : List Tgt), inner = ipre ++ ipost →
      buildNodes (frozenAlgC s)
          (tlev (suppLevels nvars (inner.map (snodeOfC s (terms ++ inner))))
            (suppLevels nvars (inner.map (snodeOfC s (terms ++ inner)))))
          (ipost.map (snodeOfC s (terms ++ inner))) ((terms ++ ipre).map (emb s))
        = some ((terms ++ inner).map (emb s)) := by
  intro ipost
  induction ipost with
  | nil =>
    intro ipre hin
    simp only [List.map_nil, buildNodes]
    rw [hin]; simp
  | cons x ipost ih =>
    intro ipre hin
    have hall : terms ++ inner = (terms ++ ipre) ++ x :: ipost := by rw [hin]; simp
    have hx : x ∈ inner := by rw [hin]; simp
    obtain ⟨i, n, rfl, hi, hlv⟩ := N.inner_stored x hx
    obtain ⟨l, t, e⟩ := n
    have hk : kidsT s (.inner i) = [t, e.tgt] := kidsT_stored hi
    have hL : levelOfT s (.inner i) = l := levelOfT_stored hi
    have hsn : snodeOfC s (terms ++ inner) (.inner i)
        = ⟨l, [idOfC (terms ++ inner) (reg t), idOfC (terms ++ inner) e]⟩ := by
      simp only [snodeOfC, kidsE_stored hi, hL, List.map_cons, List.map_nil]
    have hbu := N.bottomUp (terms ++ ipre) (.inner i) ipost hall
    rw [hk] at hbu
    obtain ⟨_, ht2⟩ := lookup_map (emb s) hall (hbu t (by simp))
    obtain ⟨_, he2⟩ := lookup_map (emb s) hall (hbu e.tgt (by simp))
    have hsupp := level_mem_supp (terms := terms) hx (by rw [hL]; exact hlv)
    rw [hL] at hsupp
    have htl : tlev (suppLevels nvars (inner.map (snodeOfC s (terms ++ inner))))
        (suppLevels nvars (inner.map (snodeOfC s (terms ++ inner)))) l = l :=
      tlev_same_manager _ (suppLevels_pairwise _ _) l hsupp
        (by have := ok.nvars_le; have : l < nvars := hlv; omega)
    have hrt : (reg t).tgt = t := rfl
    have hstep : buildNode (frozenAlgC s)
        (tlev (suppLevels nvars (inner.map (snodeOfC s (terms ++ inner))))
          (suppLevels nvars (inner.map (snodeOfC s (terms ++ inner)))))
        ((terms ++ ipre).map (emb s)) (snodeOfC s (terms ++ inner) (.inner i)) = some (emb s (.inner i)) := by
      rw [hsn]
      simp only [buildNode, idOfC_natAbs, Nat.add_sub_cancel, hrt, ht2, he2, htl, sel_tag]
      rw [show emb s t = (levelOfT s t, reg t) from rfl, reduce_hit hu hi (hn i _ hi)]
    simp only [List.map_cons, buildNodes, hstep]
    have := ih (ipre ++ [.inner i]) (by rw [hin]; simp)
    rw [← this]; simp

/-! ## headline -/

/-- **The bytes the exporter writes, read by the byte-level importer in the same manager, give back
exactly the original edges**: node table entry `k` is the regular edge to the `k`-th numbered
target (with the level of its node), and exactly the node section is consumed. -/
theorem import_export_bytes_same_manager_C {nvars : Nat} {s : StoreC} (ok : StoreOKC nvars s)
    (hu : s.Unique) (hn : s.NoRed) {roots : List EdgeC} {terms inner : List Tgt}
    (N : NumberingC s nvars roots terms inner) (hT : (mkDiagramC s terms inner roots).terms.length = 1)
    (hsz : (inner.length + 1) * 4 ≤ isizeMax) (rest : List Nat) :
    importBin Guards.code (frozenAlgC s) ((mkDiagramC s terms inner roots).nodes.length + 1) nvars
        (suppLevels nvars (mkDiagramC s terms inner roots).nodes)
        (nodeSection false nvars (mkDiagramC s terms inner roots) ++ rest)
      = .ok ((terms ++ inner).map (fun t => (levelOfT s t, (⟨false, t⟩ : EdgeC))), rest) := by
  have hT' : terms.length = 1 := by simpa [mkDiagramC] using hT
  have hterms : terms = [.term] := terms_singleton N.terms_term hT'
  subst hterms
  have hw : WFNodes nvars (mkDiagramC s [.term] inner roots).nodes := wfNodes_of_numbering ok N hsz
  obtain ⟨built, hb, himp⟩ := export_import_struct Guards.code (frozenAlgC s) (levelMax, ⟨false, .term⟩)
    nvars nvars (suppLevels nvars (mkDiagramC s [.term] inner roots).nodes) (mkDiagramC s [.term] inner roots)
    rest (by simp [frozenAlgC]) rfl (frozenAlgC_level_reduce s) (fun _ => rfl) hT hw
    (levelMaps_same nvars _ ok.nvars_le)
  have hb' := buildNodes_same ok hu hn N inner [] (by simp)
  have hemb : ([Tgt.term] ++ []).map (emb s) = [(levelMax, (⟨false, .term⟩ : EdgeC))] := rfl
  rw [hemb] at hb'
  have : built = ([Tgt.term] ++ inner).map (emb s) := by
    have h2 : buildNodes (frozenAlgC s)
        (tlev (suppLevels nvars (mkDiagramC s [.term] inner roots).nodes)
          (suppLevels nvars (mkDiagramC s [.term] inner roots).nodes))
        (mkDiagramC s [.term] inner roots).nodes [(levelMax, (⟨false, .term⟩ : EdgeC))]
        = some (([Tgt.term] ++ inner).map (emb s)) := hb'
    rw [h2] at hb
    exact (Option.some.inj hb).symm
  rw [himp, this]
  rfl

/-- **the root loop on the table built from the bytes returns the original root edges** (with
their tags: a negative id goes through `complement` = tag flip) -/
theorem importRoots_same_manager_C {nvars : Nat} {s : StoreC} {roots : List EdgeC} {terms inner : List Tgt}
    (N : NumberingC s nvars roots terms inner) :
    importRoots (frozenAlgC s) ((terms ++ inner).map (fun t => (levelOfT s t, (⟨false, t⟩ : EdgeC))))
        (mkDiagramC s terms inner roots).roots
      = .ok (roots.map (fun x => (levelOfE s x, x))) := by
  have key : ∀ ks : List EdgeC, (∀ c ∈ ks, c.tgt ∈ terms ++ inner) →
      importRoots (frozenAlgC s) ((terms ++ inner).map (emb s)) (ks.map (idOfC (terms ++ inner)))
        = .ok (ks.map (fun x => (levelOfE s x, x))) := by
    intro ks
    induction ks with
    | nil => intro _; rfl
    | cons c ks ih =>
      intro hmem
      obtain ⟨_, h2⟩ := lookup_map (emb s) (all := terms ++ inner) (pre := terms ++ inner) (rest := [])
        (by simp) (hmem c List.mem_cons_self)
      simp only [List.map_cons, importRoots, idOfC_natAbs, Nat.add_sub_cancel, h2,
        ih (fun x hx => hmem x (List.mem_cons_of_mem _ hx))]
      have hsel : (if idOfC (terms ++ inner) c > 0 then emb s c.tgt
          else (frozenAlgC s).complement (emb s c.tgt)) = (levelOfE s c, c) := by
        by_cases hneg : c.neg = true
        · have hp : ¬ idOfC (terms ++ inner) c > 0 := by rw [idOfC_pos_iff]; simp [hneg]
          simp only [hp, if_false, frozenAlgC, emb, levelOfE]
          rw [tag_restore_neg hneg]
        · have hp : idOfC (terms ++ inner) c > 0 := by rw [idOfC_pos_iff]; simpa using hneg
          simp only [hp, if_true, emb, levelOfE]
          rw [tag_restore_pos hneg]
      rw [hsel]
  exact key roots N.roots_mem

/-- **node section, `.end` line and root loop together** (`import` after `DumpHeader::load`, binary
mode): the file body the exporter writes gives the original root edges back -/
theorem importNodes_same_manager_C {nvars : Nat} {s : StoreC} (ok : StoreOKC nvars s)
    (hu : s.Unique) (hn : s.NoRed) {roots : List EdgeC} {terms inner : List Tgt}
    (N : NumberingC s nvars roots terms inner) (hT : (mkDiagramC s terms inner roots).terms.length = 1)
    (hsz : (inner.length + 1) * 4 ≤ isizeMax) :
    importNodes Guards.code (frozenAlgC s)
        { ascii := false, nnodes := (mkDiagramC s terms inner roots).nodes.length + 1,
          rootids := (mkDiagramC s terms inner roots).roots }
        nvars (suppLevels nvars (mkDiagramC s terms inner roots).nodes)
        (nodeSection false nvars (mkDiagramC s terms inner roots) ++ [46, 101, 110, 100, 10])
      = .ok (roots.map (fun x => (levelOfE s x, x))) := by
  unfold importNodes
  simp only [Bool.false_eq_true, if_false,
    import_export_bytes_same_manager_C ok hu hn N hT hsz [46, 101, 110, 100, 10]]
  have : readsEnd [46, 101, 110, 100, 10] = true := by decide
  simp only [this, Bool.not_true, Bool.false_eq_true, if_false]
  exact importRoots_same_manager_C N

/-! ## non-vacuity -/

/-- the bytes of the concrete file: the escaped terminal record, then three records of one byte
plus arguments (`AbsoluteID` / `Relative1` variable codes, `Terminal` / `Relative1` / `AbsoluteID`
child codes, the complement bit set in all three) -/
example : nodeSection false 3 exDiagram = [0, 0, 36, 4, 127, 125, 4] := by decide

/-- … read back in the concrete store: every node is found -/
example : importBin Guards.code (frozenAlgC exStore.st.store) 4 3 [0, 1, 2]
      ([0, 0, 36, 4, 127, 125, 4] ++ [46, 101, 110, 100, 10])
    = .ok ([(levelMax, ⟨false, .term⟩), (2, ⟨false, .inner 0⟩), (1, ⟨false, .inner 1⟩), (0, ⟨false, .inner 2⟩)],
        [46, 101, 110, 100, 10]) := by decide +kernel

/-- the theorems applied to what `exportSC` wrote for the concrete store -/
example : ∃ d, (exportSC false id 3 exStore exRoots).1 = some d ∧
    importNodes Guards.code (frozenAlgC exStore.st.store)
        { ascii := false, nnodes := d.nodes.length + 1, rootids := d.roots } 3 (suppLevels 3 d.nodes)
        (nodeSection false 3 d ++ [46, 101, 110, 100, 10])
      = .ok [(0, ⟨true, .inner 2⟩), (1, ⟨false, .inner 1⟩)] := by
  obtain ⟨terms, inner, hd, N⟩ :=
    exportSC_numbering exStore_ok (ord := id) (fun _ => List.Perm.refl _) exRoots exRoots_has
  have hv : (exportSC false id 3 exStore exRoots).1.map view = some (view exDiagram) := by decide +kernel
  rw [hd] at hv
  simp only [Option.map_some, Option.some.injEq, view, Prod.mk.injEq] at hv
  obtain ⟨ht, hnodes, _⟩ := hv
  have hT : (mkDiagramC exStore.st.store terms inner exRoots).terms.length = 1 := by rw [ht]; rfl
  have hlen : inner.length = 3 := by
    have := congrArg List.length hnodes
    simpa [mkDiagramC, exDiagram] using this
  refine ⟨_, hd, ?_⟩
  rw [importNodes_same_manager_C exStore_ok exStore_unique exStore_nored N hT
    (by rw [hlen]; decide)]
  decide +kernel

end OxiddModel.Dddmp.StoreSC
