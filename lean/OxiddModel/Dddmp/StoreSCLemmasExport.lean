import OxiddModel.Dddmp.StoreSCLemmasRc

/-!
# What the exporter writes: the numbering of a well-formed BCDD store

Mirrors `export_common` of `crates/oxidd-dump/src/dddmp/export.rs` (`rec_add_map`, the terminal
map, the per-level maps numbered bottom-up, the closures `idx` / `bin_idx`) as modelled by
`exportSC` in `Dddmp/StoreSC.lean`.

`exportSC_numbering`: for a closed, ordered store whose levels are `< nvars`, roots that point into
the store and every iteration order `ord` of the hash maps (any permutation), the exporter
returns a file `mkDiagramC s terms inner roots` whose target lists form a `NumberingC`:

* the listed targets are exactly the targets reachable from the roots, each once (a node reached
  through a complemented and through a regular edge is listed once: the maps are keyed on the
  tag-stripped edge),
* every node comes after its children (ids are assigned bottom-up),
* the terminal (at most one entry) first.

The importer theorems (`StoreSCLemmasSame.lean`, `StoreSCLemmasBytes.lean`) are stated for every
`NumberingC`.
-/
namespace OxiddModel.Dddmp.StoreSC
open OxiddModel.Bcdd OxiddModel.Bcdd.Refine OxiddModel.Bcdd.Rc
open OxiddModel.Bdd.Rc (rcGet rcSet)
open OxiddModel.Dddmp

/-- the manager invariants the exporter relies on -/
structure StoreOKC (nvars : Nat) (s : StoreC) : Prop where
  kids : ∀ i n, s.get? i = some n → s.hasT n.t ∧ s.has n.e
  ord : s.Ordered
  bound : ∀ i n, s.get? i = some n → n.level < nvars
  nvars_le : nvars ≤ levelMax

/-- the file for a given numbering -/
def mkDiagramC (s : StoreC) (terms inner : List Tgt) (roots : List EdgeC) : Diagram :=
  { terms := terms.map termDescC, nodes := inner.map (snodeOfC s (terms ++ inner)),
    roots := roots.map (idOfC (terms ++ inner)), rootNames := none }

/-- a bottom-up numbering of the part of the store reachable from the roots: the terminal (if
reachable; `nodup` makes it at most one entry) first, then the inner targets -/
structure NumberingC (s : StoreC) (nvars : Nat) (roots : List EdgeC) (terms inner : List Tgt) : Prop where
  terms_term : ∀ x ∈ terms, x = .term
  inner_stored : ∀ x ∈ inner, ∃ i n, x = .inner i ∧ s.get? i = some n ∧ n.level < nvars
  nodup : (terms ++ inner).Nodup
  bottomUp : ∀ pre x post, terms ++ inner = pre ++ x :: post → ∀ c ∈ kidsT s x, c ∈ pre
  roots_mem : ∀ x ∈ roots, x.tgt ∈ terms ++ inner
  reach : ∀ x ∈ terms ++ inner, ∃ root ∈ roots, VisitS.Reach (kidsT s) root.tgt x

/-! ## the traversal is `VisitS.visit` -/

theorem foldl_snd {α : Type} {f : RStC × List Tgt → α → RStC × List Tgt} {g : List Tgt → α → List Tgt}
    (h : ∀ st k, (f st k).2 = g st.2 k) (ks : List α) (st : RStC × List Tgt) :
    (ks.foldl f st).2 = ks.foldl g st.2 := by
  induction ks generalizing st with
  | nil => rfl
  | cons k ks ih => simp only [List.foldl_cons]; rw [ih, h]

theorem recAddMap_snd (s : StoreC) (fuel : Nat) : ∀ (st : RStC × List Tgt) (x : Tgt),
    (recAddMap false s fuel st x).2 = VisitS.visit (kidsT s) fuel st.2 x := by
  induction fuel with
  | zero => intro st x; rfl
  | succ fuel ih =>
    intro st x
    simp only [recAddMap, VisitS.visit]
    split
    · simp
    · exact foldl_snd (g := fun set k => VisitS.visit (kidsT s) fuel set k) (fun st k => ih st k) _ _

theorem visitRoots_snd (s : StoreC) (fuel : Nat) (st : RStC × List Tgt) (roots : List EdgeC) :
    (visitRoots false s fuel st roots).2 = (roots.map (·.tgt)).foldl (VisitS.visit (kidsT s) fuel) st.2 := by
  rw [List.foldl_map]
  exact foldl_snd (f := fun st (x : EdgeC) => recAddMap false s fuel st x.tgt)
    (g := fun set (x : EdgeC) => VisitS.visit (kidsT s) fuel set x.tgt)
    (fun st k => recAddMap_snd s fuel st k.tgt) roots st

/-! ## rank -/

/-- distance to the bottom: strictly decreasing from a node to its children -/
def rk (s : StoreC) (nvars : Nat) : Tgt → Nat
  | .term => 0
  | .inner i =>
    match s.get? i with
    | some n => nvars - n.level
    | none => 0

theorem levelOfT_stored {s : StoreC} {i : Nat} {n : NodeC} (h : s.get? i = some n) :
    levelOfT s (.inner i) = n.level := by simp [levelOfT, h]

theorem kidsT_stored {s : StoreC} {i : Nat} {n : NodeC} (h : s.get? i = some n) :
    kidsT s (.inner i) = [n.t, n.e.tgt] := by simp [kidsT, h]

theorem kidsE_stored {s : StoreC} {i : Nat} {n : NodeC} (h : s.get? i = some n) :
    kidsE s (.inner i) = [reg n.t, n.e] := by simp [kidsE, h]

theorem kid_hasT {nvars : Nat} {s : StoreC} (ok : StoreOKC nvars s) {x c : Tgt} (hc : c ∈ kidsT s x) :
    s.hasT c := by
  cases x with
  | term => simp [kidsT] at hc
  | inner i =>
    cases h : s.get? i with
    | none => simp [kidsT, h] at hc
    | some n =>
      rw [kidsT_stored h] at hc
      rcases List.mem_cons.mp hc with hc | hc
      · rw [hc]; exact (ok.kids i n h).1
      · have : c = n.e.tgt := by simpa using hc
        rw [this]; exact (ok.kids i n h).2

/-- children are on strictly larger levels (the terminal: `LevelNo::MAX`) -/
theorem kid_level_lt {nvars : Nat} {s : StoreC} (ok : StoreOKC nvars s) {i : Nat} {n : NodeC}
    (h : s.get? i = some n) {c : Tgt} (hc : c ∈ kidsT s (.inner i)) : n.level < levelOfT s c := by
  have hh := kid_hasT ok hc
  rw [kidsT_stored h] at hc
  have hb := ok.bound i n h
  have hl := ok.nvars_le
  cases c with
  | term => simp only [levelOfT]; omega
  | inner j =>
    obtain ⟨m, hm⟩ := hh
    rw [levelOfT_stored hm]
    refine ok.ord i n j m h ?_ hm
    rcases List.mem_cons.mp hc with hc | hc
    · exact .inl hc.symm
    · have : Tgt.inner j = n.e.tgt := by simpa using hc
      exact .inr this.symm

theorem rk_kid {nvars : Nat} {s : StoreC} (ok : StoreOKC nvars s) (y z : Tgt) (hz : z ∈ kidsT s y) :
    rk s nvars z < rk s nvars y := by
  cases y with
  | term => simp [kidsT] at hz
  | inner i =>
    cases h : s.get? i with
    | none => simp [kidsT, h] at hz
    | some n =>
      have hlt := kid_level_lt ok h hz
      have hb := ok.bound i n h
      simp only [rk, h]
      cases z with
      | term => simp only; omega
      | inner j =>
        obtain ⟨m, hm⟩ := kid_hasT ok hz
        rw [levelOfT_stored hm] at hlt
        have := ok.bound j m hm
        simp only [hm]; omega

theorem ranked {nvars : Nat} {s : StoreC} (ok : StoreOKC nvars s) (x : Tgt) :
    VisitS.Ranked (kidsT s) (rk s nvars) x :=
  fun y _ z hz => rk_kid ok y z hz

theorem rk_lt {nvars : Nat} (s : StoreC) (x : Tgt) : rk s nvars x < nvars + 1 := by
  cases x with
  | term => simp [rk]
  | inner i =>
    simp only [rk]
    split <;> omega

/-! ## the visited list -/

theorem reach_has {nvars : Nat} {s : StoreC} (ok : StoreOKC nvars s) {x y : Tgt}
    (h : VisitS.Reach (kidsT s) x y) (hx : s.hasT x) : s.hasT y := by
  induction h with
  | refl => exact hx
  | step hk _ ih => exact ih (kid_hasT ok hk)

/-- the list after visiting all roots: duplicate free and exactly the reachable edges -/
theorem visitAll_spec {nvars : Nat} {s : StoreC} (ok : StoreOKC nvars s) :
    ∀ (roots : List Tgt) (set : List Tgt), set.Nodup →
      (∀ y ∈ set, ∀ z, VisitS.Reach (kidsT s) y z → z ∈ set) →
      (roots.foldl (VisitS.visit (kidsT s) (nvars + 1)) set).Nodup ∧
      ∀ y, y ∈ roots.foldl (VisitS.visit (kidsT s) (nvars + 1)) set ↔
        y ∈ set ∨ ∃ root ∈ roots, VisitS.Reach (kidsT s) root y := by
  intro roots
  induction roots with
  | nil =>
    intro set hn _
    exact ⟨hn, fun y => by simp⟩
  | cons a roots ih =>
    intro set hn hcl
    simp only [List.foldl_cons]
    obtain ⟨n1, m1⟩ := VisitS.visit_spec (kidsT s) (rk s nvars) (nvars + 1) set a (ranked ok a)
      (rk_lt s a) hn (fun y hy _ z hz => hcl y hy z hz)
    have hcl' : ∀ y ∈ VisitS.visit (kidsT s) (nvars + 1) set a, ∀ z, VisitS.Reach (kidsT s) y z →
        z ∈ VisitS.visit (kidsT s) (nvars + 1) set a := by
      intro y hy z hz
      rcases (m1 y).mp hy with hy | hy
      · exact (m1 z).mpr (.inl (hcl y hy z hz))
      · exact (m1 z).mpr (.inr (hy.trans hz))
    obtain ⟨n2, m2⟩ := ih _ n1 hcl'
    refine ⟨n2, fun y => ?_⟩
    rw [m2 y, m1 y]
    constructor
    · rintro ((h | h) | ⟨root, hr, h⟩)
      · exact .inl h
      · exact .inr ⟨a, List.mem_cons_self, h⟩
      · exact .inr ⟨root, List.mem_cons_of_mem _ hr, h⟩
    · rintro (h | ⟨root, hr, h⟩)
      · exact .inl (.inl h)
      · rcases List.mem_cons.mp hr with rfl | hr
        · exact .inl (.inr h)
        · exact .inr ⟨root, hr, h⟩

/-! ## the numbering -/

theorem mem_planTerms {ord : List Tgt → List Tgt} (hord : ∀ l, (ord l).Perm l) (vis : List Tgt) (x : Tgt) :
    x ∈ planTerms ord vis ↔ x ∈ vis ∧ isTermT x = true := by
  unfold planTerms
  rw [(hord _).mem_iff, List.mem_filter, List.mem_reverse]

theorem mem_levelGroup {ord : List Tgt → List Tgt} (hord : ∀ l, (ord l).Perm l) (s : StoreC) (vis : List Tgt)
    (l : Nat) (x : Tgt) :
    x ∈ levelGroup ord s vis l ↔ x ∈ vis ∧ isTermT x = false ∧ levelOfT s x = l := by
  unfold levelGroup
  rw [(hord _).mem_iff, List.mem_filter, List.mem_reverse]
  simp

theorem mem_planInner {ord : List Tgt → List Tgt} (hord : ∀ l, (ord l).Perm l) (s : StoreC) (vis : List Tgt)
    (x : Tgt) : ∀ k, x ∈ planInner ord s vis k ↔ x ∈ vis ∧ isTermT x = false ∧ levelOfT s x < k := by
  intro k
  induction k with
  | zero => simp [planInner]
  | succ k ih =>
    simp only [planInner, List.mem_append, ih, mem_levelGroup hord]
    constructor
    · rintro (⟨h1, h2, h3⟩ | ⟨h1, h2, h3⟩)
      · exact ⟨h1, h2, by omega⟩
      · exact ⟨h1, h2, by omega⟩
    · rintro ⟨h1, h2, h3⟩
      by_cases h : levelOfT s x = k
      · exact .inl ⟨h1, h2, h⟩
      · exact .inr ⟨h1, h2, by omega⟩

theorem nodup_filter_reverse {vis : List Tgt} (hn : vis.Nodup) (p : Tgt → Bool) :
    (vis.reverse.filter p).Nodup :=
  List.Pairwise.filter p ((List.reverse_perm vis).nodup_iff.mpr hn)

theorem nodup_planInner {ord : List Tgt → List Tgt} (hord : ∀ l, (ord l).Perm l) (s : StoreC) {vis : List Tgt}
    (hn : vis.Nodup) : ∀ k, (planInner ord s vis k).Nodup := by
  intro k
  induction k with
  | zero => simp [planInner]
  | succ k ih =>
    simp only [planInner]
    rw [List.nodup_append]
    refine ⟨?_, ih, ?_⟩
    · unfold levelGroup
      exact (hord _).nodup_iff.mpr (nodup_filter_reverse hn _)
    · intro a ha b hb hab
      subst hab
      have h1 := (mem_levelGroup hord s vis k a).mp ha
      have h2 := (mem_planInner hord s vis a k).mp hb
      omega

/-- the list is sorted by level, largest first -/
theorem sorted_planInner {ord : List Tgt → List Tgt} (hord : ∀ l, (ord l).Perm l) (s : StoreC) (vis : List Tgt) :
    ∀ k, (planInner ord s vis k).Pairwise (fun a b => levelOfT s b ≤ levelOfT s a) := by
  intro k
  induction k with
  | zero => simp [planInner]
  | succ k ih =>
    simp only [planInner]
    rw [List.pairwise_append]
    refine ⟨?_, ih, ?_⟩
    · refine List.Pairwise.imp_of_mem (R := fun _ _ => True) ?_ (List.pairwise_of_forall (fun _ _ => trivial))
      intro a b ha hb _
      have h1 := (mem_levelGroup hord s vis k a).mp ha
      have h2 := (mem_levelGroup hord s vis k b).mp hb
      omega
    · intro a ha b hb
      have h1 := (mem_levelGroup hord s vis k a).mp ha
      have h2 := (mem_planInner hord s vis b k).mp hb
      omega

theorem levelOfT_term {s : StoreC} {x : Tgt} (h : isTermT x = true) : levelOfT s x = levelMax := by
  cases x with
  | term => rfl
  | inner i => simp [isTermT] at h

theorem exists_root_map {P : Tgt → Prop} (roots : List EdgeC) :
    (∃ root ∈ roots.map (·.tgt), P root) ↔ ∃ root ∈ roots, P root.tgt := by
  constructor
  · rintro ⟨t, ht, hp⟩
    obtain ⟨x, hx, rfl⟩ := List.mem_map.mp ht
    exact ⟨x, hx, hp⟩
  · rintro ⟨x, hx, hp⟩
    exact ⟨x.tgt, List.mem_map_of_mem hx, hp⟩

/-- **the exporter's node lists form a numbering** -/
theorem numbering_of_visit {nvars : Nat} {s : StoreC} (ok : StoreOKC nvars s)
    {ord : List Tgt → List Tgt} (hord : ∀ l, (ord l).Perm l) (roots : List EdgeC)
    (hroots : ∀ x ∈ roots, s.has x) :
    NumberingC s nvars roots
      (planTerms ord ((roots.map (·.tgt)).foldl (VisitS.visit (kidsT s) (nvars + 1)) []))
      (planInner ord s ((roots.map (·.tgt)).foldl (VisitS.visit (kidsT s) (nvars + 1)) []) nvars) := by
  obtain ⟨hn, hm⟩ := visitAll_spec ok (roots.map (·.tgt)) [] List.nodup_nil (fun y hy => by cases hy)
  generalize (roots.map (·.tgt)).foldl (VisitS.visit (kidsT s) (nvars + 1)) [] = vis at hn hm
  have hm' : ∀ y, y ∈ vis ↔ ∃ root ∈ roots, VisitS.Reach (kidsT s) root.tgt y := by
    intro y; rw [hm y, exists_root_map]; simp
  have hhas : ∀ y ∈ vis, s.hasT y := by
    intro y hy
    obtain ⟨root, hr, hreach⟩ := (hm' y).mp hy
    exact reach_has ok hreach (hroots root hr)
  -- membership in the numbering
  have hall : ∀ y, y ∈ planTerms ord vis ++ planInner ord s vis nvars ↔ y ∈ vis := by
    intro y
    rw [List.mem_append, mem_planTerms hord, mem_planInner hord]
    constructor
    · rintro (h | h) <;> exact h.1
    · intro hy
      cases y with
      | term => exact .inl ⟨hy, rfl⟩
      | inner i =>
        obtain ⟨n, hi⟩ := hhas _ hy
        exact .inr ⟨hy, rfl, by rw [levelOfT_stored hi]; exact ok.bound i n hi⟩
  -- sortedness
  have hsorted : (planTerms ord vis ++ planInner ord s vis nvars).Pairwise
      (fun a b => levelOfT s b ≤ levelOfT s a) := by
    rw [List.pairwise_append]
    refine ⟨?_, sorted_planInner hord s vis nvars, ?_⟩
    · refine List.Pairwise.imp_of_mem (R := fun _ _ => True) ?_ (List.pairwise_of_forall (fun _ _ => trivial))
      intro a b ha hb _
      rw [levelOfT_term ((mem_planTerms hord vis a).mp ha).2, levelOfT_term ((mem_planTerms hord vis b).mp hb).2]
      exact Nat.le_refl _
    · intro a ha b hb
      rw [levelOfT_term ((mem_planTerms hord vis a).mp ha).2]
      have := (mem_planInner hord s vis b nvars).mp hb
      have := ok.nvars_le
      omega
  have hnodup : (planTerms ord vis ++ planInner ord s vis nvars).Nodup := by
    rw [List.nodup_append]
    refine ⟨?_, nodup_planInner hord s hn nvars, ?_⟩
    · unfold planTerms
      exact (hord _).nodup_iff.mpr (nodup_filter_reverse hn _)
    · intro a ha b hb hab
      subst hab
      have h1 := ((mem_planTerms hord vis a).mp ha).2
      have h2 := ((mem_planInner hord s vis a nvars).mp hb).2.1
      rw [h1] at h2; cases h2
  refine ⟨?_, ?_, hnodup, ?_, ?_, ?_⟩
  · intro x hx
    have := ((mem_planTerms hord vis x).mp hx).2
    cases x with
    | term => rfl
    | inner i => simp [isTermT] at this
  · intro x hx
    obtain ⟨h1, h2, h3⟩ := (mem_planInner hord s vis x nvars).mp hx
    cases x with
    | term => simp [isTermT] at h2
    | inner i =>
      obtain ⟨n, hi⟩ := hhas _ h1
      exact ⟨i, n, rfl, hi, ok.bound i n hi⟩
  · intro pre x post heq c hc
    have hxall : x ∈ planTerms ord vis ++ planInner ord s vis nvars := by rw [heq]; simp
    have hxv := (hall x).mp hxall
    -- the child is visited
    have hcv : c ∈ vis := by
      obtain ⟨root, hr, hreach⟩ := (hm' x).mp hxv
      exact (hm' c).mpr ⟨root, hr, hreach.trans (.step hc .refl)⟩
    have hcall := (hall c).mpr hcv
    -- and on a strictly larger level
    have hlt : levelOfT s x < levelOfT s c := by
      cases x with
      | term => simp [kidsT] at hc
      | inner i =>
        cases h : s.get? i with
        | none => simp [kidsT, h] at hc
        | some n => rw [levelOfT_stored h]; exact kid_level_lt ok h hc
    rw [heq] at hcall hsorted
    rcases List.mem_append.mp hcall with h | h
    · exact h
    · rcases List.mem_cons.mp h with rfl | h
      · omega
      · have := (List.pairwise_append.mp hsorted).2.1
        have := (List.pairwise_cons.mp this).1 c h
        omega
  · intro x hx
    exact (hall x.tgt).mpr ((hm' x.tgt).mpr ⟨x, hx, .refl⟩)
  · intro x hx
    exact (hm' x).mp ((hall x).mp hx)

/-- **what `exportSC` returns**: the file of a numbering of the reachable part, for every
iteration order of the hash maps -/
theorem exportSC_numbering {nvars : Nat} {r : RStC} (ok : StoreOKC nvars r.st.store)
    {ord : List Tgt → List Tgt} (hord : ∀ l, (ord l).Perm l) (roots : List EdgeC)
    (hroots : ∀ x ∈ roots, r.st.store.has x) :
    ∃ terms inner, (exportSC false ord nvars r roots).1 = some (mkDiagramC r.st.store terms inner roots) ∧
      NumberingC r.st.store nvars roots terms inner := by
  have hv := visitRoots_snd r.st.store (nvars + 1) (cloneList r roots.reverse, []) roots
  simp only at hv
  have hnum := numbering_of_visit ok hord roots hroots
  refine ⟨_, _, ?_, hnum⟩
  simp only [exportSC, hv, mkDiagramC]
  -- the range check of `node_map[level]` passes
  obtain ⟨hn, hm⟩ := visitAll_spec ok (roots.map (·.tgt)) [] List.nodup_nil (fun y hy => by cases hy)
  have hokc : ((roots.map (·.tgt)).foldl (VisitS.visit (kidsT r.st.store) (nvars + 1)) []).all
      (fun x => isTermT x || decide (levelOfT r.st.store x < nvars)) = true := by
    rw [List.all_eq_true]
    intro x hx
    cases x with
    | term => rfl
    | inner i =>
      obtain ⟨root, hr, hreach⟩ : ∃ root ∈ roots, VisitS.Reach (kidsT r.st.store) root.tgt (.inner i) := by
        have := (hm (.inner i)).mp hx; rw [exists_root_map] at this; simpa using this
      obtain ⟨n, hi⟩ := reach_has ok hreach (hroots root hr)
      simp [isTermT, levelOfT_stored hi, ok.bound i n hi]
  simp only [hokc, if_true]

/-! ## non-vacuity -/

/-- the slots of the concrete store of `StoreSC.lean` -/
theorem exStore_get {i : Nat} {n : NodeC} (h : exStore.st.store.get? i = some n) :
    (i = 0 ∧ n = ⟨2, .term, ⟨true, .term⟩⟩) ∨ (i = 1 ∧ n = ⟨1, .inner 0, ⟨true, .inner 0⟩⟩) ∨
    (i = 2 ∧ n = ⟨0, .inner 1, ⟨true, .inner 0⟩⟩) := by
  match i, h with
  | 0, h =>
    have h0 : exStore.st.store.get? 0 = some ⟨2, .term, ⟨true, .term⟩⟩ := by decide +kernel
    rw [h0] at h; cases h; exact .inl ⟨rfl, rfl⟩
  | 1, h =>
    have h0 : exStore.st.store.get? 1 = some ⟨1, .inner 0, ⟨true, .inner 0⟩⟩ := by decide +kernel
    rw [h0] at h; cases h; exact .inr (.inl ⟨rfl, rfl⟩)
  | 2, h =>
    have h0 : exStore.st.store.get? 2 = some ⟨0, .inner 1, ⟨true, .inner 0⟩⟩ := by decide +kernel
    rw [h0] at h; cases h; exact .inr (.inr ⟨rfl, rfl⟩)
  | k + 3, h =>
    have : exStore.st.store.get? (k + 3) = none := by simp [exStore, StoreC.get?]
    rw [this] at h; cases h

theorem exStore_has0 : exStore.st.store.hasT (.inner 0) := ⟨_, (by decide +kernel :
  exStore.st.store.get? 0 = some ⟨2, .term, ⟨true, .term⟩⟩)⟩
theorem exStore_has1 : exStore.st.store.hasT (.inner 1) := ⟨_, (by decide +kernel :
  exStore.st.store.get? 1 = some ⟨1, .inner 0, ⟨true, .inner 0⟩⟩)⟩
theorem exStore_has2 : exStore.st.store.hasT (.inner 2) := ⟨_, (by decide +kernel :
  exStore.st.store.get? 2 = some ⟨0, .inner 1, ⟨true, .inner 0⟩⟩)⟩

theorem exStore_ok : StoreOKC 3 exStore.st.store := by
  refine ⟨?_, ?_, ?_, by decide⟩
  · intro i n hi
    rcases exStore_get hi with ⟨rfl, rfl⟩ | ⟨rfl, rfl⟩ | ⟨rfl, rfl⟩
    · exact ⟨trivial, trivial⟩
    · exact ⟨exStore_has0, exStore_has0⟩
    · exact ⟨exStore_has1, exStore_has0⟩
  · intro i n j m hi hor hj
    rcases exStore_get hi with ⟨rfl, rfl⟩ | ⟨rfl, rfl⟩ | ⟨rfl, rfl⟩ <;>
      rcases exStore_get hj with ⟨rfl, rfl⟩ | ⟨rfl, rfl⟩ | ⟨rfl, rfl⟩ <;>
      revert hor <;> decide
  · intro i n hi
    rcases exStore_get hi with ⟨rfl, rfl⟩ | ⟨rfl, rfl⟩ | ⟨rfl, rfl⟩ <;> decide

theorem exRoots_has : ∀ x ∈ exRoots, exStore.st.store.has x := by
  intro x hx
  simp only [exRoots, List.mem_cons, List.not_mem_nil, or_false] at hx
  rcases hx with rfl | rfl
  · exact exStore_has2
  · exact exStore_has1

/-- `exportSC_numbering` applied to the concrete store (complemented else edges, a complemented
root, a node reached through a regular and through a complemented edge) -/
example : ∃ terms inner,
    (exportSC false id 3 exStore exRoots).1 = some (mkDiagramC exStore.st.store terms inner exRoots) ∧
      NumberingC exStore.st.store 3 exRoots terms inner :=
  exportSC_numbering exStore_ok (fun _ => List.Perm.refl _) exRoots exRoots_has

/-- … and the numbering it finds is the one of `exDiagram` -/
example : view (mkDiagramC exStore.st.store [.term] [.inner 0, .inner 1, .inner 2] exRoots) = view exDiagram := by
  decide +kernel

end OxiddModel.Dddmp.StoreSC
