import OxiddModel.Dddmp.StoreSC

/-!
# Counters under export and import (BCDD)

Mirrors the counter traffic of `ExportSettings::export` / `export_common` / `rec_add_map`
(`crates/oxidd-dump/src/dddmp/export.rs`), `EdgeHashMap::{insert, drop}`
(`crates/oxidd-core/src/util/edge_hash_map.rs`), `import_bin` / `import`
(`crates/oxidd-dump/src/dddmp/import.rs`) as modelled in `Dddmp/StoreSC.lean`.

* `exportSC_st`, `exportSC_rcGet`: the exporter changes no counter and nothing else — for every
  store, root list, iteration order and fuel (the clones of `EdgeHashMap::insert` are exactly
  the keys the map drops);
* `importSC_rc`: the importer keeps `RcInv`: on success the caller owns the roots, on every error
  (malformed record, level check, OutOfMemory in `reduce` or in the complement callback, at any
  node) it owns nothing more.
-/
namespace OxiddModel.Dddmp.StoreSC
open OxiddModel.Bcdd OxiddModel.Bcdd.Refine OxiddModel.Bcdd.Rc
open OxiddModel.Bdd.Rc (rcGet rcSet)
open OxiddModel.Dddmp

/-! ## counters of clone / drop lists -/

@[simp] theorem cloneList_st (r : RStC) (l : List EdgeC) : (cloneList r l).st = r.st := by
  induction l with
  | nil => rfl
  | cons a l ih => simp [cloneList, List.foldr_cons] at ih ⊢; exact ih

@[simp] theorem dropList_st (r : RStC) (l : List EdgeC) : (dropList r l).st = r.st := by
  induction l generalizing r with
  | nil => rfl
  | cons a l ih => simp only [dropList, List.foldl_cons] at ih ⊢; rw [ih]; simp

theorem extCnt_nil (k : Nat) : extCnt [] k = 0 := rfl

theorem extCnt_append (a b : List EdgeC) (k : Nat) : extCnt (a ++ b) k = extCnt a k + extCnt b k := by
  induction a with
  | nil => simp [extCnt_nil]
  | cons x a ih => simp only [List.cons_append, extCnt_cons, ih]; omega

theorem extCnt_reverse (a : List EdgeC) (k : Nat) : extCnt a.reverse k = extCnt a k :=
  extCnt_perm (List.reverse_perm a) k

theorem rcGet_cloneList (r : RStC) (l : List EdgeC) (k : Nat) :
    rcGet (cloneList r l).rc k = rcGet r.rc k + extCnt l k := by
  induction l with
  | nil => simp [cloneList, extCnt_nil]
  | cons a l ih =>
    have : cloneList r (a :: l) = cloneEdge (cloneList r l) a := rfl
    rw [this, rcGet_cloneEdge, ih, extCnt_cons]
    omega

theorem rcGet_dropList (r : RStC) (l : List EdgeC) (k : Nat) :
    rcGet (dropList r l).rc k = rcGet r.rc k - extCnt l k := by
  induction l generalizing r with
  | nil => simp [dropList, extCnt_nil]
  | cons a l ih =>
    have : dropList r (a :: l) = dropList (dropEdge r a) l := rfl
    rw [this, ih, rcGet_dropEdge, extCnt_cons]
    omega

theorem cloneList_append (r : RStC) (a b : List EdgeC) :
    cloneList r (a ++ b) = cloneList (cloneList r b) a := by
  simp [cloneList, List.foldr_append]

/-! ## `rec_add_map`: the clones are exactly the new keys -/

/-- postcondition of the traversal: keys are only added (at the front) and exactly the new keys
(regular edges) were cloned -/
def AddPost (st st' : RStC × List Tgt) : Prop :=
  ∃ new, st'.2 = new ++ st.2 ∧ st'.1 = cloneList st.1 (new.map reg)

theorem AddPost.refl (st : RStC × List Tgt) : AddPost st st := ⟨[], rfl, rfl⟩

theorem AddPost.trans {a b c : RStC × List Tgt} (h1 : AddPost a b) (h2 : AddPost b c) : AddPost a c := by
  obtain ⟨n1, e1, c1⟩ := h1
  obtain ⟨n2, e2, c2⟩ := h2
  exact ⟨n2 ++ n1, by rw [e2, e1, List.append_assoc], by rw [c2, c1, List.map_append, cloneList_append]⟩

theorem foldl_addPost {α : Type} {f : RStC × List Tgt → α → RStC × List Tgt}
    (hf : ∀ st k, AddPost st (f st k)) (ks : List α) (st : RStC × List Tgt) :
    AddPost st (ks.foldl f st) := by
  induction ks generalizing st with
  | nil => exact AddPost.refl _
  | cons k ks ih => exact (hf st k).trans (ih _)

theorem recAddMap_post (s : StoreC) (fuel : Nat) : ∀ (st : RStC × List Tgt) (x : Tgt),
    AddPost st (recAddMap false s fuel st x) := by
  induction fuel with
  | zero => intro st x; exact AddPost.refl _
  | succ fuel ih =>
    intro st x
    simp only [recAddMap]
    split
    · simp only [Bool.false_eq_true, ↓reduceIte]; exact AddPost.refl _
    · have h0 : AddPost st (cloneEdge st.1 (reg x), x :: st.2) := ⟨[x], rfl, rfl⟩
      exact h0.trans (foldl_addPost (fun st k => ih st k) _ _)

theorem visitRoots_post (s : StoreC) (fuel : Nat) (st : RStC × List Tgt) (roots : List EdgeC) :
    AddPost st (visitRoots false s fuel st roots) :=
  foldl_addPost (f := fun st (x : EdgeC) => recAddMap false s fuel st x.tgt)
    (fun st k => recAddMap_post s fuel st k.tgt) roots st

/-! ## the exporter changes nothing -/

/-- **the exporter leaves node table, apply cache and time stamp alone** -/
theorem exportSC_st (ord : List Tgt → List Tgt) (nvars : Nat) (r : RStC) (roots : List EdgeC) :
    (exportSC false ord nvars r roots).2.st = r.st := by
  obtain ⟨new, _, h1⟩ := visitRoots_post r.st.store (nvars + 1) (cloneList r roots.reverse, []) roots
  simp only [exportSC, dropList_st, h1, cloneList_st]

/-- **the exporter changes no counter** -/
theorem exportSC_rcGet (ord : List Tgt → List Tgt) (nvars : Nat) (r : RStC) (roots : List EdgeC) (k : Nat) :
    rcGet (exportSC false ord nvars r roots).2.rc k = rcGet r.rc k := by
  obtain ⟨new, h2, h1⟩ := visitRoots_post r.st.store (nvars + 1) (cloneList r roots.reverse, []) roots
  simp only [exportSC, rcGet_dropList, h1, h2, rcGet_cloneList, List.append_nil, extCnt_reverse]
  omega

/-- `RcInv` looks at the counters only through `rcGet` -/
theorem rcinv_of_rcGet {r r' : RStC} {ext : List EdgeC} (h : RcInv r ext) (hs : r'.st = r.st)
    (hc : ∀ k, rcGet r'.rc k = rcGet r.rc k) : RcInv r' ext := by
  refine ⟨?_, ?_, ?_, ?_⟩
  · rw [hs]; exact h.ext_ok
  · rw [hs]; exact h.kids_ok
  · rw [hs]; exact h.cache_ok
  · intro i n hi; rw [hs] at hi ⊢; rw [hc]; exact h.rc_eq i n hi

/-- the exporter keeps the invariant, whoever owns what -/
theorem exportSC_rc (ord : List Tgt → List Tgt) (nvars : Nat) {r : RStC} (roots : List EdgeC)
    {ext : List EdgeC} (h : RcInv r ext) : RcInv (exportSC false ord nvars r roots).2 ext :=
  rcinv_of_rcGet h (exportSC_st ord nvars r roots) (exportSC_rcGet ord nvars r roots)

/-! ## the importer keeps the counters exact -/

/-- what the importer needs from the complement callback: it consumes the operand; the result (if
any) is owned by the caller -/
def ComplOKC (compl : ComplC) : Prop :=
  ∀ r e ext, RcInv r (e :: ext) →
    match compl r e with
    | (some x, r') => RcInv r' (x :: ext)
    | (none, r') => RcInv r' ext

theorem complIdC_ok : ComplOKC complIdC := fun _ _ _ h => h

/-- `not_edge_owned` of the BCDD: the tag of an owned edge is irrelevant for the counters -/
theorem complNotC_ok : ComplOKC complNotC := fun _ _ _ h => h.notE_head

theorem dropList_rc {r : RStC} (l : List EdgeC) {ext : List EdgeC} (h : RcInv r (l ++ ext)) :
    RcInv (dropList r l) ext := by
  induction l generalizing r with
  | nil => exact h
  | cons a l ih => exact ih (dropEdge_rc h)

/-- postcondition of a step that returns owned edges `α → List EdgeC` -/
def StepPost {α : Type} (own : α → List EdgeC) (ext : List EdgeC) (R : Step α × RStC) : Prop :=
  match R with
  | (.ok a, r') => RcInv r' (own a ++ ext)
  | (.error _, r') => RcInv r' ext

theorem nodeStepC_rc {cfg : ICfgC} (hc : ComplOKC cfg.compl) (supp : List Nat) (nodeId : Nat)
    (table : List EdgeC) (ext : List EdgeC) (hsub : ∀ y ∈ table, y ∈ ext) (r : RStC) (n : SNode)
    (h : RcInv r ext) :
    StepPost (fun x => [x]) ext (nodeStepC cfg supp nodeId table r n) := by
  unfold nodeStepC
  split
  · rename_i tc ec _
    split
    · exact h
    · cases ht : table[tc.natAbs - 1]? with
      | none => exact h
      | some t =>
        simp only
        have hte : t ∈ ext := hsub t (List.mem_of_getElem? ht)
        have h1 : RcInv (cloneEdge r t) (t :: ext) := cloneEdge_rc h (h.ext_ok t hte)
        split
        · exact dropEdge_rc h1
        · cases he : table[ec.natAbs - 1]? with
          | none => exact dropEdge_rc h1
          | some e0 =>
            simp only
            have hee : e0 ∈ t :: ext := List.mem_cons_of_mem _ (hsub e0 (List.mem_of_getElem? he))
            have h2 : RcInv (cloneEdge (cloneEdge r t) e0) (e0 :: t :: ext) :=
              cloneEdge_rc h1 (h1.ext_ok e0 hee)
            have h3 : match (if ec < 0 then cfg.compl (cloneEdge (cloneEdge r t) e0) e0
                else (some e0, cloneEdge (cloneEdge r t) e0)) with
                | (some e, r3) => RcInv r3 (e :: t :: ext)
                | (none, r3) => RcInv r3 (t :: ext) := by
              by_cases hneg : ec < 0
              · simp only [hneg, if_true]; exact hc _ _ _ h2
              · simp only [hneg, if_false]; exact h2
            generalize (if ec < 0 then cfg.compl (cloneEdge (cloneEdge r t) e0) e0
                else (some e0, cloneEdge (cloneEdge r t) e0)) = R at h3
            obtain ⟨o, r3⟩ := R
            cases o with
            | none => exact dropEdge_rc h3
            | some e =>
              simp only at h3 ⊢
              split
              · exact dropEdge_rc (dropEdge_rc h3)
              · rename_i level _
                split
                · exact dropEdge_rc (dropEdge_rc h3)
                · have := mkNodeR_rc (cap := cfg.cap) (l := level) (r := r3) (t := t) (e := e) (ext := ext)
                    (RcInv.swap h3)
                  generalize mkNodeR cfg.cap r3 level t e = M at this
                  obtain ⟨o, r4⟩ := M
                  cases o with
                  | some x => exact this
                  | none => exact this
  · exact h

theorem nodeLoopC_rc {cfg : ICfgC} (hc : ComplOKC cfg.compl) (supp : List Nat) (ext : List EdgeC) :
    ∀ (ns : List SNode) (r : RStC) (table : List EdgeC), RcInv r (table ++ ext) →
      StepPost (fun l => l) ext (nodeLoopC cfg supp r table ns) := by
  intro ns
  induction ns with
  | nil => intro r table h; exact h
  | cons n ns ih =>
    intro r table h
    simp only [nodeLoopC]
    have hs := nodeStepC_rc hc supp (table.length + 1) table (table ++ ext)
      (fun y hy => List.mem_append_left _ hy) r n h
    generalize nodeStepC cfg supp (table.length + 1) table r n = R at hs
    obtain ⟨o, r'⟩ := R
    cases o with
    | error e => exact dropList_rc table hs
    | ok x =>
      simp only [StepPost] at hs
      refine ih r' (table ++ [x]) (hs.perm ?_)
      simp only [List.append_assoc, List.singleton_append]
      exact List.perm_middle.symm

/-- the static terminal: owning copies of it costs nothing -/
theorem rcinv_add_terms {r : RStC} {ext : List EdgeC} (h : RcInv r ext) (ds : List (List Nat)) :
    RcInv r (termTable ds ++ ext) := by
  induction ds with
  | nil => exact h
  | cons a t ih => exact cloneEdge_rc (x := termT) ih trivial

theorem rootLoopC_rc {compl : ComplC} (hc : ComplOKC compl) (table : List EdgeC)
    (ext : List EdgeC) (hsub : ∀ y ∈ table, y ∈ ext) :
    ∀ (cs : List Int) (r : RStC) (acc : List EdgeC), RcInv r (acc ++ ext) →
      StepPost (fun l => l) ext (rootLoopC compl table r acc cs) := by
  intro cs
  induction cs with
  | nil => intro r acc h; exact h
  | cons c cs ih =>
    intro r acc h
    simp only [rootLoopC]
    cases hx : (if c = 0 then none else table[c.natAbs - 1]?) with
    | none => exact dropList_rc acc h
    | some x =>
      simp only
      have hx' : table[c.natAbs - 1]? = some x := by
        split at hx
        · cases hx
        · exact hx
      have hxe : x ∈ acc ++ ext := List.mem_append_right _ (hsub x (List.mem_of_getElem? hx'))
      have h1 : RcInv (cloneEdge r x) (x :: (acc ++ ext)) := cloneEdge_rc h (h.ext_ok x hxe)
      have h2 : match (if c > 0 then (some x, cloneEdge r x) else compl (cloneEdge r x) x) with
          | (some e, r2) => RcInv r2 (e :: (acc ++ ext))
          | (none, r2) => RcInv r2 (acc ++ ext) := by
        by_cases hpos : c > 0
        · simp only [hpos, if_true]; exact h1
        · simp only [hpos, if_false]; exact hc _ _ _ h1
      generalize (if c > 0 then (some x, cloneEdge r x) else compl (cloneEdge r x) x) = R at h2
      obtain ⟨o, r2⟩ := R
      cases o with
      | none => exact dropList_rc acc h2
      | some e =>
        simp only at h2 ⊢
        exact ih r2 (acc ++ [e]) (h2.perm
          (by simp only [List.append_assoc, List.singleton_append]; exact List.perm_middle.symm))

/-- **the importer keeps the counters exact** -/
theorem importSC_rc {cfg : ICfgC} (hc : ComplOKC cfg.compl) (nvars : Nat) (r : RStC) (d : Diagram)
    (ext : List EdgeC) (h : RcInv r ext) :
    match importSC cfg nvars r d with
    | (.ok roots, r') => RcInv r' (roots ++ ext)
    | (.fail _, r') => RcInv r' ext := by
  unfold importSC
  by_cases hhd : d.roots.any (fun id => id = 0 || id.natAbs > d.terms.length + d.nodes.length) = true
  · simp only [hhd, if_true]; exact h
  · simp only [hhd, Bool.false_eq_true, if_false]
    have h0 : RcInv r (termTable d.terms ++ ext) := rcinv_add_terms h d.terms
    have hn := nodeLoopC_rc hc (suppLevels nvars d.nodes) ext d.nodes r (termTable d.terms) h0
    generalize nodeLoopC cfg (suppLevels nvars d.nodes) r (termTable d.terms) d.nodes = R at hn
    obtain ⟨o, r'⟩ := R
    cases o with
    | error e => exact hn
    | ok table =>
      simp only [StepPost] at hn ⊢
      have hr := rootLoopC_rc hc table (table ++ ext) (fun y hy => List.mem_append_left _ hy)
        d.roots r' [] hn
      generalize rootLoopC cfg.compl table r' [] d.roots = R2 at hr
      obtain ⟨o2, r''⟩ := R2
      cases o2 with
      | error e => exact dropList_rc table hr
      | ok roots =>
        simp only [StepPost] at hr ⊢
        exact dropList_rc table (hr.perm (by
          rw [← List.append_assoc]
          exact (List.perm_append_comm).append_right ext |>.trans (by rw [List.append_assoc])))

/-! ## non-vacuity -/

/-- the concrete store of `StoreSC.lean` satisfies the invariant for its two handles -/
theorem exStore_rc : RcInv exStore exRoots := by
  refine ⟨?_, ?_, ?_, ?_⟩
  · intro e he
    simp only [exRoots, List.mem_cons, List.not_mem_nil, or_false] at he
    rcases he with rfl | rfl
    · exact ⟨_, (by decide +kernel : exStore.st.store.get? 2 = some ⟨0, .inner 1, ⟨true, .inner 0⟩⟩)⟩
    · exact ⟨_, (by decide +kernel : exStore.st.store.get? 1 = some ⟨1, .inner 0, ⟨true, .inner 0⟩⟩)⟩
  · intro i n hi
    match i, hi with
    | 0, hi =>
      have : n = ⟨2, .term, ⟨true, .term⟩⟩ := by
        have h0 : exStore.st.store.get? 0 = some ⟨2, .term, ⟨true, .term⟩⟩ := by decide +kernel
        rw [h0] at hi; cases hi; rfl
      subst this; exact ⟨trivial, trivial⟩
    | 1, hi =>
      have h0 : exStore.st.store.get? 1 = some ⟨1, .inner 0, ⟨true, .inner 0⟩⟩ := by decide +kernel
      rw [h0] at hi; cases hi
      exact ⟨⟨_, (by decide +kernel : exStore.st.store.get? 0 = some ⟨2, .term, ⟨true, .term⟩⟩)⟩,
        ⟨_, (by decide +kernel : exStore.st.store.get? 0 = some ⟨2, .term, ⟨true, .term⟩⟩)⟩⟩
    | 2, hi =>
      have h0 : exStore.st.store.get? 2 = some ⟨0, .inner 1, ⟨true, .inner 0⟩⟩ := by decide +kernel
      rw [h0] at hi; cases hi
      exact ⟨⟨_, (by decide +kernel : exStore.st.store.get? 1 = some ⟨1, .inner 0, ⟨true, .inner 0⟩⟩)⟩,
        ⟨_, (by decide +kernel : exStore.st.store.get? 0 = some ⟨2, .term, ⟨true, .term⟩⟩)⟩⟩
    | k + 3, hi =>
      have : exStore.st.store.get? (k + 3) = none := by
        simp [exStore, StoreC.get?]
      rw [this] at hi; cases hi
  · intro k v hkv; cases hkv
  · intro i n hi
    match i, hi with
    | 0, _ => decide +kernel
    | 1, _ => decide +kernel
    | 2, _ => decide +kernel
    | k + 3, hi =>
      have : exStore.st.store.get? (k + 3) = none := by
        simp [exStore, StoreC.get?]
      rw [this] at hi; cases hi

/-- `importSC_rc` applied: after the re-import the caller owns four handles and every counter is
exact -/
example : ∃ r', importSC ⟨3, complNotC, [0, 1, 2]⟩ 3 exStore exDiagram = (.ok exRoots, r') ∧
    RcInv r' (exRoots ++ exRoots) := by
  have h := importSC_rc (cfg := ⟨3, complNotC, [0, 1, 2]⟩) complNotC_ok 3 exStore exDiagram exRoots exStore_rc
  have h1 : (importSC ⟨3, complNotC, [0, 1, 2]⟩ 3 exStore exDiagram).1 = .ok exRoots := by decide +kernel
  generalize importSC ⟨3, complNotC, [0, 1, 2]⟩ 3 exStore exDiagram = R at h h1
  obtain ⟨o, r'⟩ := R
  simp only at h1
  subst h1
  exact ⟨r', rfl, h⟩

end OxiddModel.Dddmp.StoreSC
