import OxiddModel.Dddmp.StoreSCLemmasExport

/-!
# Re-import into the same BCDD manager: hash consing finds every node

Mirrors `import_bin` / `import` of `crates/oxidd-dump/src/dddmp/import.rs` (as `importSC`) run on
what `export_common` of `export.rs` writes (as `mkDiagramC`), with the callback
`BCDDFunction::not_edge_owned` (`complNotC`).

`importSC_same`: for every `NumberingC` of a hash-consed (`Unique`), reduced (`NoRed`) store, the
importer run on `mkDiagramC` **in the same store** returns exactly the original root edges —
complemented else edges and complemented roots go through the callback, which flips the tag of the
regular table entry — and leaves the store component (`st`: node table, apply cache, time stamp)
unchanged, whatever the capacity (no slot is needed).
-/
namespace OxiddModel.Dddmp.StoreSC
open OxiddModel.Bcdd OxiddModel.Bcdd.Refine OxiddModel.Bcdd.Rc
open OxiddModel.Bdd.Rc (rcGet rcSet)
open OxiddModel.Dddmp

/-! ## ids -/

theorem idOfC_natAbs (all : List Tgt) (c : EdgeC) : (idOfC all c).natAbs = all.idxOf c.tgt + 1 := by
  unfold idOfC
  split <;> simp only [Int.natAbs_neg, Int.natAbs_natCast]

theorem idOfC_ne_zero (all : List Tgt) (c : EdgeC) : idOfC all c ≠ 0 := by
  have := idOfC_natAbs all c
  intro h; rw [h] at this; simp at this

theorem idOfC_neg_iff (all : List Tgt) (c : EdgeC) : idOfC all c < 0 ↔ c.neg = true := by
  have hp : (0 : Int) < ((all.idxOf c.tgt + 1 : Nat) : Int) := Int.natCast_pos.mpr (Nat.succ_pos _)
  unfold idOfC
  cases hc : c.neg
  · simp only [Bool.false_eq_true, if_false, iff_false]; omega
  · simp only [if_true, iff_true]; omega

theorem idOfC_pos_iff (all : List Tgt) (c : EdgeC) : idOfC all c > 0 ↔ c.neg = false := by
  have h1 := idOfC_neg_iff all c
  have h2 := idOfC_ne_zero all c
  cases hc : c.neg
  · simp only [hc, Bool.false_eq_true, iff_false] at h1; simp only [iff_true]; omega
  · simp only [hc, iff_true] at h1; simp only [Bool.true_eq_false, iff_false]; omega

theorem idOfC_reg_pos (all : List Tgt) (t : Tgt) : 0 < idOfC all (reg t) :=
  (idOfC_pos_iff all (reg t)).mpr rfl

/-- the entry of the table for a target is found at its id -/
theorem table_lookup {all pre rest : List Tgt} (h : all = pre ++ rest) {c : Tgt} (hc : c ∈ pre) :
    all.idxOf c < pre.length ∧ (pre.map reg)[all.idxOf c]? = some (reg c) := by
  have h1 : all.idxOf c = pre.idxOf c := by rw [h, List.idxOf_append]; simp [hc]
  have h2 : pre.idxOf c < pre.length := List.idxOf_lt_length_iff.mpr hc
  rw [h1]
  refine ⟨h2, ?_⟩
  rw [List.getElem?_map, List.getElem?_eq_getElem h2, List.getElem_idxOf]
  rfl

/-- the callback restores the tag: `not_owned` of the regular entry for a complemented edge -/
theorem tag_restore_neg {x : EdgeC} (h : x.neg = true) : notE (reg x.tgt) = x := by
  obtain ⟨n, t⟩ := x
  cases n
  · cases h
  · rfl

theorem tag_restore_pos {x : EdgeC} (h : ¬ x.neg = true) : reg x.tgt = x := by
  obtain ⟨n, t⟩ := x
  cases n
  · rfl
  · exact absurd rfl h

/-! ## the root loop -/

theorem rootLoopC_same {all : List Tgt} :
    ∀ (ks : List EdgeC) (r : RStC) (acc : List EdgeC), (∀ c ∈ ks, c.tgt ∈ all) →
      ∃ r', rootLoopC complNotC (all.map reg) r acc (ks.map (idOfC all)) = (.ok (acc ++ ks), r') ∧
        r'.st = r.st := by
  intro ks
  induction ks with
  | nil => intro r acc _; exact ⟨r, by simp [rootLoopC], rfl⟩
  | cons c ks ih =>
    intro r acc hmem
    obtain ⟨h1, h2⟩ := table_lookup (all := all) (pre := all) (rest := []) (by simp)
      (hmem c List.mem_cons_self)
    simp only [List.map_cons, rootLoopC, idOfC_natAbs, idOfC_ne_zero, if_false, Nat.add_sub_cancel, h2]
    obtain ⟨r', he, hst⟩ := ih (cloneEdge r (reg c.tgt)) (acc ++ [c])
      (fun x hx => hmem x (List.mem_cons_of_mem _ hx))
    have hsel : (if idOfC all c > 0 then (some (reg c.tgt), cloneEdge r (reg c.tgt))
        else complNotC (cloneEdge r (reg c.tgt)) (reg c.tgt)) = (some c, cloneEdge r (reg c.tgt)) := by
      by_cases hn : c.neg = true
      · have hp : ¬ idOfC all c > 0 := by rw [idOfC_pos_iff]; simp [hn]
        simp only [hp, if_false, complNotC]
        rw [tag_restore_neg hn]
      · have hp : idOfC all c > 0 := by rw [idOfC_pos_iff]; simpa using hn
        simp only [hp, if_true]
        rw [tag_restore_pos hn]
    rw [hsel]
    refine ⟨r', ?_, by rw [hst, cloneEdge_st]⟩
    simp only
    rw [he]; simp

/-! ## `reduce` finds the node -/

theorem find?_of_get? {s : StoreC} (hu : s.Unique) {i : Nat} {n : NodeC} (h : s.get? i = some n) :
    s.find? n = some i := by
  cases hf : s.find? n with
  | none => exact absurd h (find?_none hf i)
  | some j => rw [hu j i n (find?_some hf) h]

theorem reduceRaw_reg (t : Tgt) (e : EdgeC) : reduceRaw (reg t) e = (reg t, e, false) := rfl

theorem reduceNode_reg (l : Nat) (t : Tgt) (e : EdgeC) : reduceNode l (reg t) e = ⟨l, t, e⟩ := rfl

theorem mkNodeR_hit (cap : Nat) {r : RStC} (hu : r.st.store.Unique) {i : Nat} {l : Nat} {t : Tgt} {e : EdgeC}
    (h : r.st.store.get? i = some ⟨l, t, e⟩) (hte : reg t ≠ e) :
    mkNodeR cap r l (reg t) e
      = (some (reg (.inner i)), cloneEdge (dropEdge (dropEdge r (reg t)) e) (reg (.inner i))) := by
  unfold mkNodeR
  simp only [hte, if_false, reduceNode_reg, find?_of_get? hu h, reduceRaw_reg]
  rfl

/-! ## support levels of the written file -/

theorem level_mem_supp {s : StoreC} {nvars : Nat} {terms inner : List Tgt} {x : Tgt} (hx : x ∈ inner)
    (hl : levelOfT s x < nvars) :
    levelOfT s x ∈ suppLevels nvars (inner.map (snodeOfC s (terms ++ inner))) :=
  mem_suppLevels nvars _ (snodeOfC s (terms ++ inner) x) (List.mem_map_of_mem hx) hl

theorem slm_same {s : StoreC} {nvars : Nat} {terms inner : List Tgt} {x : Tgt} (hx : x ∈ inner)
    (hl : levelOfT s x < nvars) :
    (suppLevels nvars (inner.map (snodeOfC s (terms ++ inner))))[suppIdx
      (suppLevels nvars (inner.map (snodeOfC s (terms ++ inner)))) (levelOfT s x)]? = some (levelOfT s x) :=
  getElem?_suppIdx _ (suppLevels_pairwise _ _) _ (level_mem_supp hx hl)

/-! ## one node, all nodes -/

theorem nodeStepC_same {nvars : Nat} {s : StoreC} (ok : StoreOKC nvars s) (hu : s.Unique) (hn : s.NoRed)
    {roots : List EdgeC} {terms inner : List Tgt} (N : NumberingC s nvars roots terms inner) (cfg : ICfgC)
    (hslm : cfg.slm = suppLevels nvars (inner.map (snodeOfC s (terms ++ inner))))
    (hcompl : cfg.compl = complNotC)
    {pre post : List Tgt} {x : Tgt} (hall : terms ++ inner = pre ++ x :: post) (hx : x ∈ inner)
    (r : RStC) (hs : r.st.store = s) :
    ∃ r', nodeStepC cfg (suppLevels nvars (inner.map (snodeOfC s (terms ++ inner)))) (pre.length + 1)
        (pre.map reg) r (snodeOfC s (terms ++ inner) x) = (.ok (reg x), r') ∧ r'.st = r.st := by
  obtain ⟨i, n, rfl, hi, hlv⟩ := N.inner_stored x hx
  obtain ⟨l, t, e⟩ := n
  have hk : kidsT s (.inner i) = [t, e.tgt] := kidsT_stored hi
  have hL : levelOfT s (.inner i) = l := levelOfT_stored hi
  have hsn : snodeOfC s (terms ++ inner) (.inner i)
      = ⟨l, [idOfC (terms ++ inner) (reg t), idOfC (terms ++ inner) e]⟩ := by
    simp only [snodeOfC, kidsE_stored hi, hL, List.map_cons, List.map_nil]
  have hbu := N.bottomUp pre (.inner i) post hall
  rw [hk] at hbu
  have hslmx := slm_same (terms := terms) hx (by rw [hL]; exact hlv)
  rw [hL] at hslmx
  have htl : l < levelOfT s t := kid_level_lt ok hi (by rw [hk]; simp)
  have hel : l < levelOfT s e.tgt := kid_level_lt ok hi (by rw [hk]; simp)
  obtain ⟨ht1, ht2⟩ := table_lookup hall (hbu t (by simp))
  obtain ⟨he1, he2⟩ := table_lookup hall (hbu e.tgt (by simp))
  unfold nodeStepC
  rw [hsn]
  have hrt : (reg t).tgt = t := rfl
  simp only [idOfC_natAbs, Nat.add_sub_cancel, hrt]
  have htpos := idOfC_reg_pos (terms ++ inner) t
  have hc1 : ¬ (idOfC (terms ++ inner) (reg t) ≤ 0 ∨ (terms ++ inner).idxOf t + 1 ≥ pre.length + 1) := by
    omega
  have hc2 : ¬ (idOfC (terms ++ inner) e = 0 ∨ (terms ++ inner).idxOf e.tgt + 1 ≥ pre.length + 1) := by
    have := idOfC_ne_zero (terms ++ inner) e
    omega
  simp only [hc1, if_false, ht2, hc2, he2, hcompl]
  -- the else edge with its tag
  have hsel : (if idOfC (terms ++ inner) e < 0
        then complNotC (cloneEdge (cloneEdge r (reg t)) (reg e.tgt)) (reg e.tgt)
        else (some (reg e.tgt), cloneEdge (cloneEdge r (reg t)) (reg e.tgt)))
      = (some e, cloneEdge (cloneEdge r (reg t)) (reg e.tgt)) := by
    by_cases hneg : e.neg = true
    · have hp : idOfC (terms ++ inner) e < 0 := (idOfC_neg_iff _ _).mpr hneg
      simp only [hp, if_true, complNotC]
      rw [tag_restore_neg hneg]
    · have hp : ¬ idOfC (terms ++ inner) e < 0 := by rw [idOfC_neg_iff]; exact hneg
      simp only [hp, if_false]
      rw [tag_restore_pos hneg]
  rw [hsel]
  simp only [hslm, hslmx]
  have hlvl : ¬ (l ≥ levelOfE (cloneEdge (cloneEdge r (reg t)) (reg e.tgt)).st.store (reg t) ∨
      l ≥ levelOfE (cloneEdge (cloneEdge r (reg t)) (reg e.tgt)).st.store e) := by
    simp only [cloneEdge_st, hs, levelOfE, hrt]; omega
  simp only [hlvl, if_false]
  have hte : reg t ≠ e := hn i _ hi
  have hs2 : (cloneEdge (cloneEdge r (reg t)) (reg e.tgt)).st.store = s := by
    simp only [cloneEdge_st]; exact hs
  rw [mkNodeR_hit cfg.cap (by rw [hs2]; exact hu) (by rw [hs2]; exact hi) hte]
  exact ⟨_, rfl, by simp⟩

theorem nodeLoopC_same {nvars : Nat} {s : StoreC} (ok : StoreOKC nvars s) (hu : s.Unique) (hn : s.NoRed)
    {roots : List EdgeC} {terms inner : List Tgt} (N : NumberingC s nvars roots terms inner) (cfg : ICfgC)
    (hslm : cfg.slm = suppLevels nvars (inner.map (snodeOfC s (terms ++ inner))))
    (hcompl : cfg.compl = complNotC) :
    ∀ (ipost ipre : List Tgt) (r : RStC), inner = ipre ++ ipost → r.st.store = s →
      ∃ r', nodeLoopC cfg (suppLevels nvars (inner.map (snodeOfC s (terms ++ inner)))) r
          ((terms ++ ipre).map reg) (ipost.map (snodeOfC s (terms ++ inner)))
            = (.ok ((terms ++ inner).map reg), r') ∧ r'.st = r.st := by
  intro ipost
  induction ipost with
  | nil =>
    intro ipre r hin _
    refine ⟨r, ?_, rfl⟩
    simp only [List.map_nil, nodeLoopC]
    rw [hin]; simp
  | cons x ipost ih =>
    intro ipre r hin hs
    simp only [List.map_cons, nodeLoopC]
    have hall : terms ++ inner = (terms ++ ipre) ++ x :: ipost := by rw [hin]; simp
    obtain ⟨r1, h1, hst1⟩ := nodeStepC_same ok hu hn N cfg hslm hcompl hall (by rw [hin]; simp) r hs
    rw [List.length_map, h1]
    simp only
    obtain ⟨r2, h2, hst2⟩ := ih (ipre ++ [x]) r1 (by rw [hin]; simp) (by rw [hst1]; exact hs)
    refine ⟨r2, ?_, by rw [hst2, hst1]⟩
    rw [← h2]; simp

/-- the terminal records give the regular terminal edges -/
theorem termTable_terms {terms : List Tgt} (h : ∀ x ∈ terms, x = .term) :
    termTable (terms.map termDescC) = terms.map reg := by
  induction terms with
  | nil => rfl
  | cons a t ih =>
    have ha := h a List.mem_cons_self
    subst ha
    have := ih (fun x hx => h x (List.mem_cons_of_mem _ hx))
    simp only [termTable, List.map_cons, List.map_map] at this ⊢
    rw [this]
    rfl

/-- **re-import into the same manager** -/
theorem importSC_same {nvars : Nat} {r : RStC} (ok : StoreOKC nvars r.st.store) (hu : r.st.store.Unique)
    (hn : r.st.store.NoRed) {roots : List EdgeC} {terms inner : List Tgt}
    (N : NumberingC r.st.store nvars roots terms inner) (cfg : ICfgC)
    (hslm : cfg.slm = suppLevels nvars (mkDiagramC r.st.store terms inner roots).nodes)
    (hcompl : cfg.compl = complNotC) :
    ∃ r', importSC cfg nvars r (mkDiagramC r.st.store terms inner roots) = (.ok roots, r') ∧ r'.st = r.st := by
  unfold importSC
  -- the header check
  have hhd : (mkDiagramC r.st.store terms inner roots).roots.any (fun id => id = 0 || id.natAbs >
      (mkDiagramC r.st.store terms inner roots).terms.length + (mkDiagramC r.st.store terms inner roots).nodes.length)
      = false := by
    rw [List.any_eq_false]
    intro id hid
    simp only [mkDiagramC, List.mem_map] at hid
    obtain ⟨x, hx, rfl⟩ := hid
    have hm := N.roots_mem x hx
    have := List.idxOf_lt_length_iff.mpr hm
    simp only [mkDiagramC, List.length_map, idOfC_natAbs, idOfC_ne_zero, decide_false, Bool.false_or,
      decide_eq_true_eq]
    simp only [List.length_append] at this
    omega
  simp only [hhd, Bool.false_eq_true, if_false]
  obtain ⟨r1, h1, hst1⟩ := nodeLoopC_same ok hu hn N cfg hslm hcompl inner [] r (by simp) rfl
  have h1' : nodeLoopC cfg (suppLevels nvars (mkDiagramC r.st.store terms inner roots).nodes) r
      (termTable (mkDiagramC r.st.store terms inner roots).terms)
      (mkDiagramC r.st.store terms inner roots).nodes = (.ok ((terms ++ inner).map reg), r1) := by
    have : termTable (mkDiagramC r.st.store terms inner roots).terms = terms.map reg :=
      termTable_terms N.terms_term
    rw [this]
    simpa [mkDiagramC] using h1
  rw [h1']
  simp only
  obtain ⟨r2, h2, hst2⟩ := rootLoopC_same (all := terms ++ inner) roots r1 [] N.roots_mem
  have h2' : rootLoopC cfg.compl ((terms ++ inner).map reg) r1 [] (mkDiagramC r.st.store terms inner roots).roots
      = (.ok roots, r2) := by rw [hcompl]; simpa [mkDiagramC] using h2
  rw [h2']
  exact ⟨_, rfl, by rw [dropList_st, hst2, hst1]⟩

/-! ## non-vacuity -/

theorem exStore_unique : exStore.st.store.Unique := by
  intro i j n hi hj
  rcases exStore_get hi with ⟨rfl, rfl⟩ | ⟨rfl, rfl⟩ | ⟨rfl, rfl⟩ <;>
    rcases exStore_get hj with ⟨rfl, h⟩ | ⟨rfl, h⟩ | ⟨rfl, h⟩ <;>
    first | rfl | (revert h; decide)

theorem exStore_nored : exStore.st.store.NoRed := by
  intro i n hi
  rcases exStore_get hi with ⟨rfl, rfl⟩ | ⟨rfl, rfl⟩ | ⟨rfl, rfl⟩ <;> decide

/-- `importSC_same` applied to what `exportSC` wrote for the concrete store — with capacity 0: no
slot is needed, every record is found in the unique table, the complemented else edges and the
complemented root come back through `not_edge_owned` -/
example : ∃ d, (exportSC false id 3 exStore exRoots).1 = some d ∧
    ∃ r', importSC ⟨0, complNotC, suppLevels 3 d.nodes⟩ 3 exStore d = (.ok exRoots, r') ∧ r'.st = exStore.st := by
  obtain ⟨terms, inner, hd, N⟩ :=
    exportSC_numbering exStore_ok (ord := id) (fun _ => List.Perm.refl _) exRoots exRoots_has
  exact ⟨_, hd, importSC_same exStore_ok exStore_unique exStore_nored N ⟨0, complNotC, _⟩ rfl rfl⟩

end OxiddModel.Dddmp.StoreSC
