import OxiddModel.Dddmp.StoreSLemmasSame
import OxiddModel.Dddmp.LemmasAsciiRound
import OxiddModel.Dddmp.Properties

/-!
# Down to BYTES: the exporter's file read back by the byte-level importer with the manager's
unique table

The byte-level importer of `Dddmp/Model.lean` (`importAsciiLoop`, `importRoots`: tokeniser,
integer parsers, id and level checks — the model tied to the Rust code by the `dddmp` stream) is
parametrised by a pure edge algebra. `frozenAlg s` is the manager `s` seen as such an algebra
while no node has to be allocated: an edge carries the level the importer read for it,
`reduce` is the reduction rule followed by the unique-table lookup (`frozenReduce`, which is what
`mkNodeR` returns whenever it does not allocate: `mkNodeR_frozen`), terminals are parsed by
`ParseTagged for BDDTerminal`.

`bytes_same_manager`: the BYTES `nodeSection true nvars d` of the file `d` the exporter writes for
a hash-consed, reduced, ordered store — any iteration order of the hash maps — are accepted by
`importAsciiLoop (frozenAlg s)`, consumed exactly, and yield the table of the ORIGINAL edges;
`importRoots` then selects the original roots. This composes `exportS_numbering` with the ASCII
byte round trip `importAscii_nodeSection` (`LemmasAsciiRound.lean`).
-/
namespace OxiddModel.Dddmp.StoreS
open OxiddModel.Bdd OxiddModel.Bdd.Refine OxiddModel.Bdd.Rc
open OxiddModel.Dddmp

/-- reduction rule + unique-table lookup, no allocation -/
def frozenReduce (s : Store) (l : Nat) (t e : Refine.Edge) : Refine.Edge :=
  if t = e then t else
  match s.find? ⟨l, t, e⟩ with
  | some i => .inner i
  | none => .term false

/-- the manager as an edge algebra (edges paired with the level read for them) -/
def frozenAlg (s : Store) : Alg (Nat × Refine.Edge) where
  level x := x.1
  complement x := x
  reduce l cs :=
    match cs with
    | [t, e] => (l, frozenReduce s l t.2 e.2)
    | _ => (l, .term false)
  parseTerminal d := (parseTermBdd d).map (fun b => (levelMax, Refine.Edge.term b))
  arity := 2

/-- whenever `reduce` does not allocate, it returns `frozenReduce` -/
theorem mkNodeR_frozen (cap : Nat) (r : RSt) (l : Nat) (t e : Refine.Edge)
    (h : t = e ∨ ∃ i, r.st.store.find? ⟨l, t, e⟩ = some i) :
    (mkNodeR cap r l t e).1 = some (frozenReduce r.st.store l t e) := by
  unfold mkNodeR frozenReduce
  by_cases hte : t = e
  · simp [hte]
  · rcases h with h | ⟨i, hi⟩
    · exact absurd h hte
    · simp [hte, hi]

/-- an edge with its level -/
def tag (s : Store) (x : Refine.Edge) : Nat × Refine.Edge := (levelOfE s x, x)

theorem frozenAlg_level_reduce (s : Store) (l : Nat) (cs : List (Nat × Refine.Edge)) :
    (frozenAlg s).level ((frozenAlg s).reduce l cs) = l := by
  unfold frozenAlg
  simp only
  split <;> rfl

/-! ## the written node list is well formed -/

theorem supp_lt {nvars : Nat} {nodes : List SNode} {x : Nat} (h : x ∈ suppLevels nvars nodes) : x < nvars := by
  unfold suppLevels at h
  simpa using (List.mem_filter.mp h).1

theorem suppLevels_length_le' (nvars : Nat) (nodes : List SNode) : (suppLevels nvars nodes).length ≤ nvars := by
  unfold suppLevels
  have := List.length_filter_le (fun l => nodes.any (fun n => n.level = l)) (List.range nvars)
  simpa using this

theorem levelMaps_same (nvars : Nat) (nodes : List SNode) (h : nvars ≤ levelMax) :
    LevelMaps (suppLevels nvars nodes) (suppLevels nvars nodes) nvars where
  hsupp := suppLevels_pairwise _ _
  hslm := suppLevels_pairwise _ _
  hlen := rfl
  hbound := fun _ hx => supp_lt hx
  hnl := h
  hsl := by
    have := suppLevels_length_le' nvars nodes
    unfold levelMax at h; unfold usize64; omega
  hsb := fun _ hx => by have := supp_lt hx; omega

/-- the element at a position of the numbering -/
theorem all_getElem_inner {terms inner : List Refine.Edge} {k : Nat} (hk : k < inner.length) :
    (terms ++ inner)[terms.length + k]? = some inner[k] := by
  rw [List.getElem?_append_right (by omega)]
  simp [hk]

/-- the level the file records for an id is the level of the node -/
theorem levelOfId_numbering {s : Store} {nvars : Nat} {roots terms inner : List Refine.Edge}
    (N : Numbering s nvars roots terms inner) {c : Refine.Edge} (hc : c ∈ terms ++ inner) :
    levelOfId terms.length (inner.map (snodeOf s (terms ++ inner))) ((terms ++ inner).idxOf c + 1)
      = levelOfE s c := by
  have hlt := List.idxOf_lt_length_iff.mpr hc
  have hget : (terms ++ inner)[(terms ++ inner).idxOf c] = c := List.getElem_idxOf hlt
  unfold levelOfId
  by_cases hq : (terms ++ inner).idxOf c < terms.length
  · have : (terms ++ inner).idxOf c + 1 ≤ terms.length := hq
    simp only [this, if_true]
    have hct : c ∈ terms := by
      rw [← hget, List.getElem_append_left hq]
      exact List.getElem_mem _
    exact (levelOfE_term (N.terms_term c hct)).symm
  · have : ¬ ((terms ++ inner).idxOf c + 1 ≤ terms.length) := by omega
    simp only [this, if_false]
    simp only [List.length_append] at hlt
    have hk : (terms ++ inner).idxOf c - terms.length < inner.length := by omega
    have e1 : (terms ++ inner).idxOf c + 1 - terms.length - 1 = (terms ++ inner).idxOf c - terms.length := by omega
    rw [e1, List.getElem?_map, List.getElem?_eq_getElem hk]
    simp only [Option.map_some, snodeOf]
    have : inner[(terms ++ inner).idxOf c - terms.length] = c := by
      rw [List.getElem_append_right (by omega)] at hget
      exact hget
    rw [this]

theorem wfNodesA_of_numbering {nvars : Nat} {s : Store} (ok : StoreOK nvars s)
    {roots terms inner : List Refine.Edge} (N : Numbering s nvars roots terms inner)
    (hsz : terms.length + inner.length < isizeMax) :
    WFNodesA terms.length nvars (inner.map (snodeOf s (terms ++ inner))) := by
  refine ⟨by simpa using hsz, ok.nvars_le, ?_⟩
  intro k hk
  have hk' : k < inner.length := by simpa using hk
  obtain ⟨i, n, hx, hi, hlv⟩ := N.inner_stored inner[k] (List.getElem_mem _)
  obtain ⟨l, t, e⟩ := n
  have hkids : kidsE s inner[k] = [t, e] := by rw [hx]; exact kidsE_stored hi
  have hL : levelOfE s inner[k] = l := by rw [hx]; exact levelOfE_stored hi
  have hall : terms ++ inner = (terms ++ inner.take k) ++ inner[k] :: inner.drop (k + 1) := by
    rw [List.append_assoc]
    congr 1
    rw [List.getElem_cons_drop, List.take_append_drop]
  have hbu := N.bottomUp _ _ _ hall
  rw [hkids] at hbu
  have hprelen : (terms ++ inner.take k).length = terms.length + k := by
    simp [List.length_take]; omega
  have ht := table_lookup hall (hbu t (by simp))
  have he := table_lookup hall (hbu e (by simp))
  rw [hprelen] at ht he
  have htm : t ∈ terms ++ inner := by rw [hall]; exact List.mem_append_left _ (hbu t (by simp))
  have hem : e ∈ terms ++ inner := by rw [hall]; exact List.mem_append_left _ (hbu e (by simp))
  refine ⟨idOf (terms ++ inner) t, idOf (terms ++ inner) e, ?_, idOf_ne_zero _ _, ?_, idOf_ne_zero _ _, ?_, ?_, ?_, ?_⟩
  · simp only [List.getElem_map, snodeOf, hkids, List.map_cons, List.map_nil]
  · rw [idOf_natAbs]; omega
  · rw [idOf_natAbs]; omega
  · simp only [List.getElem_map, snodeOf, hL]; exact hlv
  · simp only [List.getElem_map, snodeOf, hL, idOf_natAbs]
    rw [levelOfId_numbering N htm]
    have := kid_level_lt ok hi (c := t) (by rw [kidsE_stored hi]; simp)
    exact this
  · simp only [List.getElem_map, snodeOf, hL, idOf_natAbs]
    rw [levelOfId_numbering N hem]
    have := kid_level_lt ok hi (c := e) (by rw [kidsE_stored hi]; simp)
    exact this

/-! ## the reference construction rebuilds the original edges -/

theorem buildNodesA_same {nvars : Nat} {s : Store} (ok : StoreOK nvars s) (hu : s.Unique) (hn : s.NoRed)
    {roots terms inner : List Refine.Edge} (N : Numbering s nvars roots terms inner) :
    ∀ (ipost ipre : List Refine.Edge), inner = ipre ++ ipost →
      buildNodesA (frozenAlg s)
        (tlev (suppLevels nvars (inner.map (snodeOf s (terms ++ inner))))
          (suppLevels nvars (inner.map (snodeOf s (terms ++ inner)))))
        (ipost.map (snodeOf s (terms ++ inner))) ((terms ++ ipre).map (tag s))
        = some ((terms ++ inner).map (tag s)) := by
  intro ipost
  induction ipost with
  | nil => intro ipre hin; simp [buildNodesA, hin]
  | cons x ipost ih =>
    intro ipre hin
    have hxin : x ∈ inner := by rw [hin]; simp
    have hall : terms ++ inner = (terms ++ ipre) ++ x :: ipost := by rw [hin]; simp
    obtain ⟨i, n, rfl, hi, hlv⟩ := N.inner_stored x hxin
    obtain ⟨l, t, e⟩ := n
    have hk : kidsE s (.inner i) = [t, e] := kidsE_stored hi
    have hL : levelOfE s (.inner i) = l := levelOfE_stored hi
    have hbu := N.bottomUp _ _ _ hall
    rw [hk] at hbu
    obtain ⟨_, ht2⟩ := table_lookup hall (hbu t (by simp))
    obtain ⟨_, he2⟩ := table_lookup hall (hbu e (by simp))
    have hlmem := level_mem_supp (terms := terms) hxin (by rw [hL]; exact hlv)
    rw [hL] at hlmem
    have hlv' : l < nvars := hlv
    have htl := tlev_same_manager _ (suppLevels_pairwise _ _) l hlmem (by have := ok.nvars_le; omega)
    have hte : t ≠ e := hn i _ hi
    simp only [List.map_cons, buildNodesA, buildNodeA, snodeOf, hk, hL, List.map_nil, idOf_natAbs,
      Nat.add_sub_cancel, List.getElem?_map, ht2, he2, Option.map_some]
    have hneg1 : ¬ (idOf (terms ++ inner) t < 0) := by have := idOf_pos (terms ++ inner) t; omega
    have hneg2 : ¬ (idOf (terms ++ inner) e < 0) := by have := idOf_pos (terms ++ inner) e; omega
    simp only [hneg1, hneg2, if_false, htl]
    have hred : (frozenAlg s).reduce l [tag s t, tag s e] = tag s (.inner i) := by
      simp only [frozenAlg, tag, frozenReduce, hte, if_false, find?_of_get? hu hi, hL]
    rw [hred]
    have := ih (ipre ++ [.inner i]) (by rw [hin]; simp)
    simpa using this

theorem importRoots_same (s : Store) (all : List Refine.Edge) :
    ∀ (roots : List Refine.Edge), (∀ x ∈ roots, x ∈ all) →
      importRoots (frozenAlg s) (all.map (tag s)) (roots.map (idOf all)) = .ok (roots.map (tag s)) := by
  intro roots
  induction roots with
  | nil => intro _; rfl
  | cons c roots ih =>
    intro h
    obtain ⟨_, h2⟩ := table_lookup (rest := []) (all := all) (by simp) (h c List.mem_cons_self)
    have hpos : idOf all c > 0 := idOf_pos all c
    simp only [List.map_cons, importRoots, idOf_natAbs, Nat.add_sub_cancel, List.getElem?_map, h2,
      Option.map_some, ih (fun x hx => h x (List.mem_cons_of_mem _ hx)), hpos, if_true]

/-- **bytes → original edges (same manager)** -/
theorem bytes_same_manager {nvars : Nat} {s : Store} (ok : StoreOK nvars s) (hu : s.Unique) (hn : s.NoRed)
    {roots terms inner : List Refine.Edge} (N : Numbering s nvars roots terms inner)
    (hsz : terms.length + inner.length < isizeMax) (rest : List Nat) :
    importAsciiLoop (frozenAlg s) 4 (suppLevels nvars (mkDiagram s terms inner roots).nodes)
        ((mkDiagram s terms inner roots).terms.length + (mkDiagram s terms inner roots).nodes.length) 1 []
        (nodeSection true nvars (mkDiagram s terms inner roots) ++ rest)
      = .ok ((terms ++ inner).map (tag s), rest) ∧
    importRoots (frozenAlg s) ((terms ++ inner).map (tag s)) (mkDiagram s terms inner roots).roots
      = .ok (roots.map (tag s)) := by
  refine ⟨?_, importRoots_same s _ roots N.roots_mem⟩
  have hlen : (mkDiagram s terms inner roots).terms.length = (terms.map (tag s)).length := by
    simp [mkDiagram]
  obtain ⟨built, hb, hl⟩ := importAscii_nodeSection (frozenAlg s) rfl (terms.map (tag s)) nvars nvars
    (suppLevels nvars (mkDiagram s terms inner roots).nodes) (mkDiagram s terms inner roots) rest hlen
    (by
      intro k hk
      have hk' : k < terms.length := by simpa [mkDiagram] using hk
      have hx := N.terms_term terms[k] (List.getElem_mem _)
      have e1 : (mkDiagram s terms inner roots).terms[k] = termDesc terms[k] := by simp [mkDiagram]
      have e2 : (terms.map (tag s))[k]'(hlen ▸ hk) = tag s terms[k] := by simp
      rw [e1, e2]
      generalize terms[k] = x at hx
      cases x with
      | inner i => simp [isTermE] at hx
      | term b =>
        cases b
        · have hp : parseTermBdd [70] = some false := by decide
          exact ⟨by decide, by simp [frozenAlg, termDesc, hp, tag, levelOfE], rfl⟩
        · have hp : parseTermBdd [84] = some true := by decide
          exact ⟨by decide, by simp [frozenAlg, termDesc, hp, tag, levelOfE], rfl⟩)
    (frozenAlg_level_reduce s) (fun _ => rfl)
    (by simpa [mkDiagram] using wfNodesA_of_numbering ok N hsz)
    (levelMaps_same nvars _ ok.nvars_le)
  have hb' := buildNodesA_same ok hu hn N inner [] (by simp)
  simp only [List.append_nil] at hb'
  simp only [mkDiagram] at hb hl ⊢
  rw [hb'] at hb
  cases hb
  exact hl

end OxiddModel.Dddmp.StoreS
