import OxiddModel.Dddmp.StoreSLemmasRc

/-!
# What the exporter writes: the numbering of a well-formed store

`exportS_numbering`: for a closed, ordered store whose levels are `< nvars`, roots that point into
the store and every iteration order `ord` of the hash maps (any permutation), the exporter
returns a file `mkDiagram s terms inner roots` whose node lists form a `Numbering`:

* the listed nodes are exactly the nodes reachable from the roots, each once,
* every node comes after its children (ids are assigned bottom-up),
* terminals first.

The importer theorems (`StoreSLemmasRound.lean`) are stated for every `Numbering`.
-/
namespace OxiddModel.Dddmp.StoreS
open OxiddModel.Bdd OxiddModel.Bdd.Refine OxiddModel.Bdd.Rc
open OxiddModel.Dddmp

/-- the manager invariants the exporter relies on -/
structure StoreOK (nvars : Nat) (s : Store) : Prop where
  kids : ∀ i n, s.get? i = some n → s.has n.t ∧ s.has n.e
  ord : s.Ordered
  bound : ∀ i n, s.get? i = some n → n.level < nvars
  nvars_le : nvars ≤ levelMax

/-- the file for a given numbering -/
def mkDiagram (s : Store) (terms inner roots : List Edge) : Diagram :=
  { terms := terms.map termDesc, nodes := inner.map (snodeOf s (terms ++ inner)),
    roots := roots.map (idOf (terms ++ inner)), rootNames := none }

/-- a bottom-up numbering of the part of the store reachable from the roots -/
structure Numbering (s : Store) (nvars : Nat) (roots terms inner : List Edge) : Prop where
  terms_term : ∀ x ∈ terms, isTermE x = true
  inner_stored : ∀ x ∈ inner, ∃ i n, x = .inner i ∧ s.get? i = some n ∧ n.level < nvars
  nodup : (terms ++ inner).Nodup
  bottomUp : ∀ pre x post, terms ++ inner = pre ++ x :: post → ∀ c ∈ kidsE s x, c ∈ pre
  roots_mem : ∀ x ∈ roots, x ∈ terms ++ inner
  reach : ∀ x ∈ terms ++ inner, ∃ root ∈ roots, VisitS.Reach (kidsE s) root x

/-! ## the traversal is `VisitS.visit` -/

theorem foldl_snd {f : RSt × List Edge → Edge → RSt × List Edge} {g : List Edge → Edge → List Edge}
    (h : ∀ st k, (f st k).2 = g st.2 k) (ks : List Edge) (st : RSt × List Edge) :
    (ks.foldl f st).2 = ks.foldl g st.2 := by
  induction ks generalizing st with
  | nil => rfl
  | cons k ks ih => simp only [List.foldl_cons]; rw [ih, h]

theorem recAddMap_snd (s : Store) (fuel : Nat) : ∀ (st : RSt × List Edge) (x : Edge),
    (recAddMap false s fuel st x).2 = VisitS.visit (kidsE s) fuel st.2 x := by
  induction fuel with
  | zero => intro st x; rfl
  | succ fuel ih =>
    intro st x
    simp only [recAddMap, VisitS.visit]
    split
    · simp
    · exact foldl_snd (g := fun set k => VisitS.visit (kidsE s) fuel set k) (fun st k => ih st k) _ _

theorem visitRoots_snd (s : Store) (fuel : Nat) (st : RSt × List Edge) (roots : List Edge) :
    (visitRoots false s fuel st roots).2 = roots.foldl (VisitS.visit (kidsE s) fuel) st.2 :=
  foldl_snd (fun st k => recAddMap_snd s fuel st k) roots st

/-! ## rank -/

/-- distance to the bottom: strictly decreasing from a node to its children -/
def rk (s : Store) (nvars : Nat) : Edge → Nat
  | .term _ => 0
  | .inner i =>
    match s.get? i with
    | some n => nvars - n.level
    | none => 0

theorem levelOfE_stored {s : Store} {i : Nat} {n : Node} (h : s.get? i = some n) :
    levelOfE s (.inner i) = n.level := by simp [levelOfE, h]

theorem kidsE_stored {s : Store} {i : Nat} {n : Node} (h : s.get? i = some n) :
    kidsE s (.inner i) = [n.t, n.e] := by simp [kidsE, h]

/-- children are on strictly larger levels (terminals: `LevelNo::MAX`) -/
theorem kid_level_lt {nvars : Nat} {s : Store} (ok : StoreOK nvars s) {i : Nat} {n : Node}
    (h : s.get? i = some n) {c : Edge} (hc : c ∈ kidsE s (.inner i)) : n.level < levelOfE s c := by
  rw [kidsE_stored h] at hc
  have hb := ok.bound i n h
  have hl := ok.nvars_le
  cases c with
  | term b => simp only [levelOfE]; omega
  | inner j =>
    have hh : s.has (.inner j) := by
      rcases List.mem_cons.mp hc with hc | hc
      · rw [hc]; exact (ok.kids i n h).1
      · have : Edge.inner j = n.e := by simpa using hc
        rw [this]; exact (ok.kids i n h).2
    obtain ⟨m, hm⟩ := hh
    rw [levelOfE_stored hm]
    refine ok.ord i n j m h ?_ hm
    rcases List.mem_cons.mp hc with hc | hc
    · exact .inl hc.symm
    · have : Edge.inner j = n.e := by simpa using hc
      exact .inr this.symm

theorem kid_has {nvars : Nat} {s : Store} (ok : StoreOK nvars s) {x c : Edge} (hc : c ∈ kidsE s x) :
    s.has c := by
  cases x with
  | term b => simp [kidsE] at hc
  | inner i =>
    cases h : s.get? i with
    | none => simp [kidsE, h] at hc
    | some n =>
      rw [kidsE_stored h] at hc
      rcases List.mem_cons.mp hc with hc | hc
      · rw [hc]; exact (ok.kids i n h).1
      · have : c = n.e := by simpa using hc
        rw [this]; exact (ok.kids i n h).2

theorem rk_kid {nvars : Nat} {s : Store} (ok : StoreOK nvars s) (y z : Edge) (hz : z ∈ kidsE s y) :
    rk s nvars z < rk s nvars y := by
  cases y with
  | term b => simp [kidsE] at hz
  | inner i =>
    cases h : s.get? i with
    | none => simp [kidsE, h] at hz
    | some n =>
      have hlt := kid_level_lt ok h hz
      have hb := ok.bound i n h
      simp only [rk, h]
      cases z with
      | term b => simp only; omega
      | inner j =>
        obtain ⟨m, hm⟩ := kid_has ok hz
        rw [levelOfE_stored hm] at hlt
        have := ok.bound j m hm
        simp only [hm]; omega

theorem ranked {nvars : Nat} {s : Store} (ok : StoreOK nvars s) (x : Edge) :
    VisitS.Ranked (kidsE s) (rk s nvars) x :=
  fun y _ z hz => rk_kid ok y z hz

theorem rk_lt {nvars : Nat} (s : Store) (x : Edge) : rk s nvars x < nvars + 1 := by
  cases x with
  | term b => simp [rk]
  | inner i =>
    simp only [rk]
    split <;> omega

/-! ## the visited list -/

theorem reach_has {nvars : Nat} {s : Store} (ok : StoreOK nvars s) {x y : Edge}
    (h : VisitS.Reach (kidsE s) x y) (hx : s.has x) : s.has y := by
  induction h with
  | refl => exact hx
  | step hk _ ih => exact ih (kid_has ok hk)

/-- the list after visiting all roots: duplicate free and exactly the reachable edges -/
theorem visitAll_spec {nvars : Nat} {s : Store} (ok : StoreOK nvars s) :
    ∀ (roots : List Edge) (set : List Edge), set.Nodup →
      (∀ y ∈ set, ∀ z, VisitS.Reach (kidsE s) y z → z ∈ set) →
      (roots.foldl (VisitS.visit (kidsE s) (nvars + 1)) set).Nodup ∧
      ∀ y, y ∈ roots.foldl (VisitS.visit (kidsE s) (nvars + 1)) set ↔
        y ∈ set ∨ ∃ root ∈ roots, VisitS.Reach (kidsE s) root y := by
  intro roots
  induction roots with
  | nil =>
    intro set hn _
    exact ⟨hn, fun y => by simp⟩
  | cons a roots ih =>
    intro set hn hcl
    simp only [List.foldl_cons]
    obtain ⟨n1, m1⟩ := VisitS.visit_spec (kidsE s) (rk s nvars) (nvars + 1) set a (ranked ok a)
      (rk_lt s a) hn (fun y hy _ z hz => hcl y hy z hz)
    have hcl' : ∀ y ∈ VisitS.visit (kidsE s) (nvars + 1) set a, ∀ z, VisitS.Reach (kidsE s) y z →
        z ∈ VisitS.visit (kidsE s) (nvars + 1) set a := by
      intro y hy z hz
      rcases (m1 y).mp hy with hy | hy
      · exact (m1 z).mpr (.inl (hcl y hy z hz))
      · exact (m1 z).mpr (.inr (hy.trans hz))
    obtain ⟨n2, m2⟩ := ih _ n1 hcl'
    refine ⟨n2, fun y => ?_⟩
    rw [m2 y, m1 y]
    constructor
    · rintro ((h | h) | ⟨root, hr, h⟩)
      · exact .inl h
      · exact .inr ⟨a, List.mem_cons_self, h⟩
      · exact .inr ⟨root, List.mem_cons_of_mem _ hr, h⟩
    · rintro (h | ⟨root, hr, h⟩)
      · exact .inl (.inl h)
      · rcases List.mem_cons.mp hr with rfl | hr
        · exact .inl (.inr h)
        · exact .inr ⟨root, hr, h⟩

/-! ## the numbering -/

theorem mem_planTerms {ord : List Edge → List Edge} (hord : ∀ l, (ord l).Perm l) (vis : List Edge) (x : Edge) :
    x ∈ planTerms ord vis ↔ x ∈ vis ∧ isTermE x = true := by
  unfold planTerms
  rw [(hord _).mem_iff, List.mem_filter, List.mem_reverse]

theorem mem_levelGroup {ord : List Edge → List Edge} (hord : ∀ l, (ord l).Perm l) (s : Store) (vis : List Edge)
    (l : Nat) (x : Edge) :
    x ∈ levelGroup ord s vis l ↔ x ∈ vis ∧ isTermE x = false ∧ levelOfE s x = l := by
  unfold levelGroup
  rw [(hord _).mem_iff, List.mem_filter, List.mem_reverse]
  simp

theorem mem_planInner {ord : List Edge → List Edge} (hord : ∀ l, (ord l).Perm l) (s : Store) (vis : List Edge)
    (x : Edge) : ∀ k, x ∈ planInner ord s vis k ↔ x ∈ vis ∧ isTermE x = false ∧ levelOfE s x < k := by
  intro k
  induction k with
  | zero => simp [planInner]
  | succ k ih =>
    simp only [planInner, List.mem_append, ih, mem_levelGroup hord]
    constructor
    · rintro (⟨h1, h2, h3⟩ | ⟨h1, h2, h3⟩)
      · exact ⟨h1, h2, by omega⟩
      · exact ⟨h1, h2, by omega⟩
    · rintro ⟨h1, h2, h3⟩
      by_cases h : levelOfE s x = k
      · exact .inl ⟨h1, h2, h⟩
      · exact .inr ⟨h1, h2, by omega⟩

theorem nodup_filter_reverse {vis : List Edge} (hn : vis.Nodup) (p : Edge → Bool) :
    (vis.reverse.filter p).Nodup :=
  List.Pairwise.filter p ((List.reverse_perm vis).nodup_iff.mpr hn)

theorem nodup_planInner {ord : List Edge → List Edge} (hord : ∀ l, (ord l).Perm l) (s : Store) {vis : List Edge}
    (hn : vis.Nodup) : ∀ k, (planInner ord s vis k).Nodup := by
  intro k
  induction k with
  | zero => simp [planInner]
  | succ k ih =>
    simp only [planInner]
    rw [List.nodup_append]
    refine ⟨?_, ih, ?_⟩
    · unfold levelGroup
      exact (hord _).nodup_iff.mpr (nodup_filter_reverse hn _)
    · intro a ha b hb hab
      subst hab
      have h1 := (mem_levelGroup hord s vis k a).mp ha
      have h2 := (mem_planInner hord s vis a k).mp hb
      omega

/-- the list is sorted by level, largest first -/
theorem sorted_planInner {ord : List Edge → List Edge} (hord : ∀ l, (ord l).Perm l) (s : Store) (vis : List Edge) :
    ∀ k, (planInner ord s vis k).Pairwise (fun a b => levelOfE s b ≤ levelOfE s a) := by
  intro k
  induction k with
  | zero => simp [planInner]
  | succ k ih =>
    simp only [planInner]
    rw [List.pairwise_append]
    refine ⟨?_, ih, ?_⟩
    · refine List.Pairwise.imp_of_mem (R := fun _ _ => True) ?_ (List.pairwise_of_forall (fun _ _ => trivial))
      intro a b ha hb _
      have h1 := (mem_levelGroup hord s vis k a).mp ha
      have h2 := (mem_levelGroup hord s vis k b).mp hb
      omega
    · intro a ha b hb
      have h1 := (mem_levelGroup hord s vis k a).mp ha
      have h2 := (mem_planInner hord s vis b k).mp hb
      omega

theorem levelOfE_term {s : Store} {x : Edge} (h : isTermE x = true) : levelOfE s x = levelMax := by
  cases x with
  | term b => rfl
  | inner i => simp [isTermE] at h

/-- **the exporter's node lists form a numbering** -/
theorem numbering_of_visit {nvars : Nat} {s : Store} (ok : StoreOK nvars s)
    {ord : List Edge → List Edge} (hord : ∀ l, (ord l).Perm l) (roots : List Edge)
    (hroots : ∀ x ∈ roots, s.has x) :
    Numbering s nvars roots
      (planTerms ord (roots.foldl (VisitS.visit (kidsE s) (nvars + 1)) []))
      (planInner ord s (roots.foldl (VisitS.visit (kidsE s) (nvars + 1)) []) nvars) := by
  obtain ⟨hn, hm⟩ := visitAll_spec ok roots [] List.nodup_nil (fun y hy => by cases hy)
  generalize roots.foldl (VisitS.visit (kidsE s) (nvars + 1)) [] = vis at hn hm
  have hm' : ∀ y, y ∈ vis ↔ ∃ root ∈ roots, VisitS.Reach (kidsE s) root y := by
    intro y; rw [hm y]; simp
  have hhas : ∀ y ∈ vis, s.has y := by
    intro y hy
    obtain ⟨root, hr, hreach⟩ := (hm' y).mp hy
    exact reach_has ok hreach (hroots root hr)
  -- membership in the numbering
  have hall : ∀ y, y ∈ planTerms ord vis ++ planInner ord s vis nvars ↔ y ∈ vis := by
    intro y
    rw [List.mem_append, mem_planTerms hord, mem_planInner hord]
    constructor
    · rintro (h | h) <;> exact h.1
    · intro hy
      cases y with
      | term b => exact .inl ⟨hy, rfl⟩
      | inner i =>
        obtain ⟨n, hi⟩ := hhas _ hy
        exact .inr ⟨hy, rfl, by rw [levelOfE_stored hi]; exact ok.bound i n hi⟩
  -- sortedness
  have hsorted : (planTerms ord vis ++ planInner ord s vis nvars).Pairwise
      (fun a b => levelOfE s b ≤ levelOfE s a) := by
    rw [List.pairwise_append]
    refine ⟨?_, sorted_planInner hord s vis nvars, ?_⟩
    · refine List.Pairwise.imp_of_mem (R := fun _ _ => True) ?_ (List.pairwise_of_forall (fun _ _ => trivial))
      intro a b ha hb _
      rw [levelOfE_term ((mem_planTerms hord vis a).mp ha).2, levelOfE_term ((mem_planTerms hord vis b).mp hb).2]
      exact Nat.le_refl _
    · intro a ha b hb
      rw [levelOfE_term ((mem_planTerms hord vis a).mp ha).2]
      have := (mem_planInner hord s vis b nvars).mp hb
      have := ok.nvars_le
      omega
  have hnodup : (planTerms ord vis ++ planInner ord s vis nvars).Nodup := by
    rw [List.nodup_append]
    refine ⟨?_, nodup_planInner hord s hn nvars, ?_⟩
    · unfold planTerms
      exact (hord _).nodup_iff.mpr (nodup_filter_reverse hn _)
    · intro a ha b hb hab
      subst hab
      have h1 := ((mem_planTerms hord vis a).mp ha).2
      have h2 := ((mem_planInner hord s vis a nvars).mp hb).2.1
      rw [h1] at h2; cases h2
  refine ⟨?_, ?_, hnodup, ?_, ?_, ?_⟩
  · intro x hx; exact ((mem_planTerms hord vis x).mp hx).2
  · intro x hx
    obtain ⟨h1, h2, h3⟩ := (mem_planInner hord s vis x nvars).mp hx
    cases x with
    | term b => simp [isTermE] at h2
    | inner i =>
      obtain ⟨n, hi⟩ := hhas _ h1
      exact ⟨i, n, rfl, hi, ok.bound i n hi⟩
  · intro pre x post heq c hc
    have hxall : x ∈ planTerms ord vis ++ planInner ord s vis nvars := by rw [heq]; simp
    have hxv := (hall x).mp hxall
    -- the child is visited
    have hcv : c ∈ vis := by
      obtain ⟨root, hr, hreach⟩ := (hm' x).mp hxv
      exact (hm' c).mpr ⟨root, hr, hreach.trans (.step hc .refl)⟩
    have hcall := (hall c).mpr hcv
    -- and on a strictly larger level
    have hlt : levelOfE s x < levelOfE s c := by
      cases x with
      | term b => simp [kidsE] at hc
      | inner i =>
        cases h : s.get? i with
        | none => simp [kidsE, h] at hc
        | some n => rw [levelOfE_stored h]; exact kid_level_lt ok h hc
    rw [heq] at hcall hsorted
    rcases List.mem_append.mp hcall with h | h
    · exact h
    · rcases List.mem_cons.mp h with rfl | h
      · omega
      · have := (List.pairwise_append.mp hsorted).2.1
        have := (List.pairwise_cons.mp this).1 c h
        omega
  · intro x hx
    exact (hall x).mpr ((hm' x).mpr ⟨x, hx, .refl⟩)
  · intro x hx
    exact (hm' x).mp ((hall x).mp hx)

/-- **what `exportS` returns**: the file of a numbering of the reachable part, for every
iteration order of the hash maps -/
theorem exportS_numbering {nvars : Nat} {r : RSt} (ok : StoreOK nvars r.st.store)
    {ord : List Edge → List Edge} (hord : ∀ l, (ord l).Perm l) (roots : List Edge)
    (hroots : ∀ x ∈ roots, r.st.store.has x) :
    ∃ terms inner, (exportS false ord nvars r roots).1 = some (mkDiagram r.st.store terms inner roots) ∧
      Numbering r.st.store nvars roots terms inner := by
  have hv := visitRoots_snd r.st.store (nvars + 1) (cloneList r roots.reverse, []) roots
  simp only at hv
  have hnum := numbering_of_visit ok hord roots hroots
  refine ⟨_, _, ?_, hnum⟩
  simp only [exportS, hv, mkDiagram]
  -- the range check of `node_map[level]` passes
  obtain ⟨hn, hm⟩ := visitAll_spec ok roots [] List.nodup_nil (fun y hy => by cases hy)
  have hokc : (roots.foldl (VisitS.visit (kidsE r.st.store) (nvars + 1)) []).all
      (fun x => isTermE x || decide (levelOfE r.st.store x < nvars)) = true := by
    rw [List.all_eq_true]
    intro x hx
    cases x with
    | term b => rfl
    | inner i =>
      obtain ⟨root, hr, hreach⟩ : ∃ root ∈ roots, VisitS.Reach (kidsE r.st.store) root (.inner i) := by
        have := (hm (.inner i)).mp hx; simpa using this
      obtain ⟨n, hi⟩ := reach_has ok hreach (hroots root hr)
      simp [isTermE, levelOfE_stored hi, ok.bound i n hi]
  simp only [hokc, if_true]

end OxiddModel.Dddmp.StoreS
