import OxiddModel.Dddmp.StoreSLemmasSame
import OxiddModel.Bdd.CapS

/-!
# Import into another manager with the same order

`Sim s s2 x y`: edge `x` of store `s` and edge `y` of store `s2` unfold to the same diagram
(node by node the same level and similar children). `Sim` implies that both denote the same
tree (`Sim.denotes`), is injective on a hash-consed source (`Sim.inj`) and is kept when the
target grows.

`importS_other`: for every `Numbering` of a hash-consed, reduced source store, the importer run
on `mkDiagram` in ANY target store with enough free capacity (and the same levels for the support
variables) succeeds; the returned roots are `Sim`ilar to the exported ones, the target only grows,
every slot of the result is an old slot or the image of an exported node, and if the target was
empty it holds exactly one node per exported inner node (`count_eq`): no garbage.
-/
namespace OxiddModel.Dddmp.StoreS
open OxiddModel.Bdd OxiddModel.Bdd.BDD OxiddModel.Bdd.Refine OxiddModel.Bdd.Rc
open OxiddModel.Dddmp

/-! ## similarity of edges of two stores -/

inductive Sim (s s2 : Store) : Edge → Edge → Prop
  | term {b : Bool} : Sim s s2 (.term b) (.term b)
  | inner {i j l : Nat} {t e t' e' : Edge} : s.get? i = some ⟨l, t, e⟩ → s2.get? j = some ⟨l, t', e'⟩ →
      Sim s s2 t t' → Sim s s2 e e' → Sim s s2 (.inner i) (.inner j)

theorem Sim.mono {s s2 s2' : Store} (hle : s2.Le s2') {x y : Edge} (h : Sim s s2 x y) : Sim s s2' x y := by
  induction h with
  | term => exact .term
  | inner hi hj _ _ iht ihe => exact .inner hi (hle _ _ hj) iht ihe

theorem Sim.level {s s2 : Store} {x y : Edge} (h : Sim s s2 x y) : levelOfE s2 y = levelOfE s x := by
  cases h with
  | term => rfl
  | inner hi hj _ _ => rw [levelOfE_stored hi, levelOfE_stored hj]

/-- on a hash-consed source two edges with the same image are equal -/
theorem Sim.inj {s s2 : Store} (hu : s.Unique) {x y : Edge} (h : Sim s s2 x y) :
    ∀ {x' : Edge}, Sim s s2 x' y → x = x' := by
  induction h with
  | term => intro x' h'; cases h'; rfl
  | @inner i j l t e t' e' hi hj _ _ iht ihe =>
    intro x' h'
    cases h' with
    | @inner i2 _ l2 t2 e2 t2' e2' hi2 hj2 ht2 he2 =>
      rw [hj] at hj2
      cases hj2
      have h1 := iht ht2
      have h2 := ihe he2
      subst h1 h2
      rw [hu i i2 _ hi hi2]

theorem Sim.denotes_mp {s s2 : Store} {x : Edge} {T : BDD} (hd : Denotes s x T) :
    ∀ {y : Edge}, Sim s s2 x y → Denotes s2 y T := by
  induction hd with
  | term => intro y h; cases h; exact .term
  | @inner i l t tt e te hi _ _ iht ihe =>
    intro y h
    cases h with
    | inner hi2 hj ht he =>
      rw [hi] at hi2; cases hi2
      exact .inner hj (iht ht) (ihe he)

theorem Sim.denotes_mpr {s s2 : Store} {y : Edge} {T : BDD} (hd : Denotes s2 y T) :
    ∀ {x : Edge}, Sim s s2 x y → Denotes s x T := by
  induction hd with
  | term => intro x h; cases h; exact .term
  | @inner j l t' tt e' te hj _ _ iht ihe =>
    intro x h
    cases h with
    | inner hi hj2 ht he =>
      rw [hj] at hj2; cases hj2
      exact .inner hi (iht ht) (ihe he)

/-- similar edges denote the same tree -/
theorem Sim.denotes {s s2 : Store} {x y : Edge} (h : Sim s s2 x y) (T : BDD) :
    Denotes s x T ↔ Denotes s2 y T :=
  ⟨fun hd => Sim.denotes_mp hd h, fun hd => Sim.denotes_mpr hd h⟩

theorem sim_of_term {s s2 : Store} {x : Edge} (h : isTermE x = true) : Sim s s2 x x := by
  cases x with
  | term b => exact .term
  | inner i => simp [isTermE] at h

/-! ## single steps of the loops -/

theorem childLoop_step (compl : Compl) (level : Nat) {all pre rest table : List Edge} (h : all = pre ++ rest)
    (hlen : table.length = pre.length) {c c' : Edge} (hc : c ∈ pre) (hc' : table[all.idxOf c]? = some c')
    (r : RSt) (hl : level < levelOfE r.st.store c') (acc : List Edge) (cs : List Int) :
    childLoop compl (table.length + 1) level table r acc (idOf all c :: cs)
      = childLoop compl (table.length + 1) level table (cloneEdge r c') (acc ++ [c']) cs := by
  obtain ⟨h1, _⟩ := table_lookup h hc
  simp only [childLoop, idOf_natAbs]
  have hge : ¬ (all.idxOf c + 1 ≥ table.length + 1) := by omega
  have hneg : ¬ (idOf all c < 0) := by have := idOf_pos all c; omega
  simp only [hge, if_false, Nat.add_sub_cancel, hc', hneg]
  have hlvl : ¬ (level ≥ levelOfE (cloneEdge r c').st.store c') := by
    rw [cloneEdge_st]; omega
  simp only [hlvl, if_false]

theorem rootLoop_step (compl : Compl) {all table : List Edge} {c c' : Edge}
    (hc' : table[all.idxOf c]? = some c') (r : RSt) (acc : List Edge) (cs : List Int) :
    rootLoop compl table r acc (idOf all c :: cs) = rootLoop compl table (cloneEdge r c') (acc ++ [c']) cs := by
  simp only [rootLoop, idOf_natAbs, idOf_ne_zero, if_false, Nat.add_sub_cancel, hc']
  have hpos : idOf all c > 0 := idOf_pos all c
  simp only [hpos, if_true]

/-- `reduce` of two different children in a store with a free slot -/
theorem mkNodeR_ok (cap : Nat) (r : RSt) (l : Nat) {t e : Edge} (hte : t ≠ e) (hcap : r.st.store.count < cap) :
    ∃ j r', mkNodeR cap r l t e = (some (.inner j), r') ∧ r.st.store.Le r'.st.store ∧
      r'.st.store.get? j = some ⟨l, t, e⟩ ∧
      ((r.st.store.get? j = some ⟨l, t, e⟩ ∧ r'.st.store = r.st.store) ∨
       ((∀ k, r.st.store.get? k ≠ some ⟨l, t, e⟩) ∧ r'.st.store.count = r.st.store.count + 1 ∧
        ∀ k, k ≠ j → r'.st.store.get? k = r.st.store.get? k)) := by
  unfold mkNodeR
  simp only [hte, if_false]
  cases hf : r.st.store.find? ⟨l, t, e⟩ with
  | some i =>
    refine ⟨i, _, rfl, ?_, ?_, .inl ⟨find?_some hf, ?_⟩⟩
    · simp; exact Store.Le.refl _
    · simp; exact find?_some hf
    · simp
  | none =>
    simp only [hcap, if_true]
    refine ⟨_, _, rfl, alloc_le _ _, ?_, .inr ⟨find?_none hf, count_alloc _ _, ?_⟩⟩
    · simp only [get?_alloc, if_true]
    · intro k hk
      simp only [get?_alloc, hk, if_false]

/-! ## the loop invariant -/

/-- state of the import into the target after the source nodes `pre` have been read -/
structure LInv (s s0 : Store) (nterms : Nat) (pre table : List Edge) (rk : RSt) : Prop where
  len : table.length = pre.length
  sim : ∀ (k : Nat) (c c' : Edge), pre[k]? = some c → table[k]? = some c' → Sim s rk.st.store c c'
  le : s0.Le rk.st.store
  cover : ∀ j n, rk.st.store.get? j = some n →
    s0.get? j = some n ∨ ∃ c ∈ pre, Sim s rk.st.store c (.inner j)
  count_le : rk.st.store.count ≤ s0.count + (pre.length - nterms)
  count_eq : (∀ j, s0.get? j = none) → rk.st.store.count = s0.count + (pre.length - nterms)

theorem LInv.lookup {s s0 : Store} {nterms : Nat} {pre table : List Edge} {rk : RSt}
    (I : LInv s s0 nterms pre table rk) {all rest : List Edge} (h : all = pre ++ rest) {c : Edge} (hc : c ∈ pre) :
    ∃ c', table[all.idxOf c]? = some c' ∧ Sim s rk.st.store c c' := by
  obtain ⟨h1, h2⟩ := table_lookup h hc
  have hlt : all.idxOf c < table.length := by rw [I.len]; exact h1
  exact ⟨table[all.idxOf c], List.getElem?_eq_getElem hlt, I.sim _ _ _ h2 (List.getElem?_eq_getElem hlt)⟩

theorem LInv.of_st {s s0 : Store} {nterms : Nat} {pre table : List Edge} {rk rk' : RSt}
    (I : LInv s s0 nterms pre table rk) (h : rk'.st = rk.st) : LInv s s0 nterms pre table rk' := by
  refine ⟨I.len, ?_, ?_, ?_, ?_, ?_⟩ <;> rw [h]
  · exact I.sim
  · exact I.le
  · exact I.cover
  · exact I.count_le
  · exact I.count_eq

/-- one inner node read into the target -/
theorem nodeStep_other {nvars : Nat} {s : Store} (ok : StoreOK nvars s) (hu : s.Unique) (hn : s.NoRed)
    {roots terms inner : List Edge} (N : Numbering s nvars roots terms inner) (cfg : ICfg)
    (hslm : cfg.slm = suppLevels nvars (inner.map (snodeOf s (terms ++ inner))))
    {s0 : Store} {pre table post : List Edge} {x : Edge} (hall : terms ++ inner = pre ++ x :: post)
    (hx : x ∈ inner) (hpre : terms.length ≤ pre.length) (r : RSt) (I : LInv s s0 terms.length pre table r)
    (hcap : r.st.store.count < cfg.cap) :
    ∃ x' r', nodeStep cfg (suppLevels nvars (inner.map (snodeOf s (terms ++ inner)))) (table.length + 1) table r
        (snodeOf s (terms ++ inner) x) = (.ok x', r') ∧
      LInv s s0 terms.length (pre ++ [x]) (table ++ [x']) r' := by
  obtain ⟨i, n, rfl, hi, hlv⟩ := N.inner_stored x hx
  obtain ⟨l, t, e⟩ := n
  have hk : kidsE s (.inner i) = [t, e] := kidsE_stored hi
  have hL : levelOfE s (.inner i) = l := levelOfE_stored hi
  have hsn : snodeOf s (terms ++ inner) (.inner i) = ⟨l, [idOf (terms ++ inner) t, idOf (terms ++ inner) e]⟩ := by
    simp only [snodeOf, hk, hL, List.map_cons, List.map_nil]
  have hbu := N.bottomUp pre (.inner i) post hall
  rw [hk] at hbu
  have hslmx := slm_same (terms := terms) hx (by rw [hL]; exact hlv)
  rw [hL] at hslmx
  have htp : t ∈ pre := hbu t (by simp)
  have hep : e ∈ pre := hbu e (by simp)
  obtain ⟨t', ht', hst⟩ := I.lookup hall htp
  obtain ⟨e', he', hse⟩ := I.lookup hall hep
  have hlt : l < levelOfE r.st.store t' := by
    rw [hst.level]; exact kid_level_lt ok hi (by rw [hk]; simp)
  have hle : l < levelOfE (cloneEdge r t').st.store e' := by
    rw [cloneEdge_st, hse.level]; exact kid_level_lt ok hi (by rw [hk]; simp)
  unfold nodeStep
  rw [hsn]
  have hc0 : ([idOf (terms ++ inner) t, idOf (terms ++ inner) e] : List Int).contains 0 = false := by
    have h1 := idOf_ne_zero (terms ++ inner) t
    have h2 := idOf_ne_zero (terms ++ inner) e
    simp [Ne.symm h1, Ne.symm h2]
  simp only [List.length_cons, List.length_nil, ne_eq, not_true_eq_false, if_false, hc0,
    Bool.false_eq_true, hslm, hslmx]
  rw [childLoop_step cfg.compl l hall I.len htp ht' r hlt, childLoop_step cfg.compl l hall I.len hep he' _ hle]
  simp only [childLoop, List.nil_append, List.cons_append]
  -- `reduce`
  have hte : t' ≠ e' := by
    intro h; subst h
    exact hn i _ hi (hst.inj hu hse)
  obtain ⟨j, r', hmk, hle', hget, hcase⟩ := mkNodeR_ok cfg.cap (cloneEdge (cloneEdge r t') e') l hte
    (by simpa using hcap)
  rw [hmk]
  simp only [cloneEdge_st] at hle' hcase
  refine ⟨.inner j, r', rfl, ?_⟩
  have hsimx : Sim s r'.st.store (.inner i) (.inner j) := .inner hi hget (hst.mono hle') (hse.mono hle')
  have hxnot : Edge.inner i ∉ pre := by
    intro hm
    have := N.nodup
    rw [hall] at this
    exact (List.nodup_append.mp this).2.2 _ hm _ List.mem_cons_self rfl
  refine ⟨by simp [I.len], ?_, I.le.trans hle', ?_, ?_, ?_⟩
  · intro k c c' hc hc'
    by_cases hk : k < pre.length
    · rw [List.getElem?_append_left hk] at hc
      rw [List.getElem?_append_left (by rw [I.len]; exact hk)] at hc'
      exact (I.sim k c c' hc hc').mono hle'
    · have hk' : k = pre.length := by
        have := (List.getElem?_eq_some_iff.mp hc).1
        simp at this; omega
      subst hk'
      have e1 : (pre ++ [Edge.inner i])[pre.length]? = some (.inner i) := by simp
      have e2 : (table ++ [Edge.inner j])[pre.length]? = some (.inner j) := by rw [← I.len]; simp
      rw [e1] at hc; rw [e2] at hc'
      cases hc; cases hc'
      exact hsimx
  · intro k n hkn
    rcases hcase with ⟨_, hsame⟩ | ⟨_, _, hother⟩
    · rw [hsame] at hkn
      rcases I.cover k n hkn with h | ⟨c, hc, hs⟩
      · exact .inl h
      · exact .inr ⟨c, List.mem_append_left _ hc, hs.mono hle'⟩
    · by_cases hkj : k = j
      · subst hkj
        exact .inr ⟨.inner i, by simp, hsimx⟩
      · rw [hother k hkj] at hkn
        rcases I.cover k n hkn with h | ⟨c, hc, hs⟩
        · exact .inl h
        · exact .inr ⟨c, List.mem_append_left _ hc, hs.mono hle'⟩
  · have := I.count_le
    simp only [List.length_append, List.length_cons, List.length_nil]
    rcases hcase with ⟨_, hsame⟩ | ⟨_, hcnt, _⟩
    · rw [hsame]; omega
    · rw [hcnt]; omega
  · intro hempty
    have := I.count_eq hempty
    simp only [List.length_append, List.length_cons, List.length_nil]
    rcases hcase with ⟨hhit, _⟩ | ⟨_, hcnt, _⟩
    · -- a hit in a target that started empty: the slot is the image of an earlier node
      exfalso
      rcases I.cover j _ hhit with h | ⟨c, hc, hs⟩
      · rw [hempty j] at h; cases h
      · have hsx : Sim s r.st.store (.inner i) (.inner j) := .inner hi hhit hst hse
        have := hs.inj hu hsx
        subst this
        exact hxnot hc
    · rw [hcnt]; omega

theorem nodeLoop_other {nvars : Nat} {s : Store} (ok : StoreOK nvars s) (hu : s.Unique) (hn : s.NoRed)
    {roots terms inner : List Edge} (N : Numbering s nvars roots terms inner) (cfg : ICfg)
    (hslm : cfg.slm = suppLevels nvars (inner.map (snodeOf s (terms ++ inner)))) {s0 : Store}
    (hcap : s0.count + inner.length ≤ cfg.cap) :
    ∀ (ipost ipre table : List Edge) (r : RSt), inner = ipre ++ ipost →
      LInv s s0 terms.length (terms ++ ipre) table r →
      ∃ table' r', nodeLoop cfg (suppLevels nvars (inner.map (snodeOf s (terms ++ inner)))) r table
          (ipost.map (snodeOf s (terms ++ inner))) = (.ok table', r') ∧
        LInv s s0 terms.length (terms ++ inner) table' r' := by
  intro ipost
  induction ipost with
  | nil =>
    intro ipre table r hin I
    refine ⟨table, r, by simp [nodeLoop], ?_⟩
    rw [hin]; simpa using I
  | cons x ipost ih =>
    intro ipre table r hin I
    simp only [List.map_cons, nodeLoop]
    have hall : terms ++ inner = (terms ++ ipre) ++ x :: ipost := by rw [hin]; simp
    have hc : r.st.store.count < cfg.cap := by
      have := I.count_le
      have hl : inner.length = ipre.length + (ipost.length + 1) := by rw [hin]; simp
      simp only [List.length_append] at this
      omega
    obtain ⟨x', r1, h1, I1⟩ := nodeStep_other ok hu hn N cfg hslm hall (by rw [hin]; simp) (by simp) r I hc
    rw [h1]
    simp only
    have : terms ++ ipre ++ [x] = terms ++ (ipre ++ [x]) := by simp
    rw [this] at I1
    exact ih (ipre ++ [x]) _ r1 (by rw [hin]; simp) I1

/-- the root loop: the roots are looked up in the table -/
theorem rootLoop_other {s s0 : Store} {nterms : Nat} {all table : List Edge} :
    ∀ (ks : List Edge) (r : RSt) (acc : List Edge), LInv s s0 nterms all table r → (∀ c ∈ ks, c ∈ all) →
      ∀ (compl : Compl), ∃ ks' r', rootLoop compl table r acc (ks.map (idOf all)) = (.ok (acc ++ ks'), r') ∧
        r'.st = r.st ∧ ks'.length = ks.length ∧
        ∀ (k : Nat) (c c' : Edge), ks[k]? = some c → ks'[k]? = some c' → Sim s r.st.store c c' := by
  intro ks
  induction ks with
  | nil => intro r acc _ _ compl; exact ⟨[], r, by simp [rootLoop], rfl, rfl, by simp⟩
  | cons c ks ih =>
    intro r acc I hmem compl
    obtain ⟨c', hc', hs⟩ := I.lookup (all := all) (rest := []) (by simp) (hmem c List.mem_cons_self)
    simp only [List.map_cons]
    rw [rootLoop_step compl hc']
    obtain ⟨ks', r', he, hst, hlen, hsim⟩ := ih (cloneEdge r c') (acc ++ [c']) (I.of_st (cloneEdge_st _ _))
      (fun x hx => hmem x (List.mem_cons_of_mem _ hx)) compl
    refine ⟨c' :: ks', r', by rw [he]; simp, by rw [hst, cloneEdge_st], by simp [hlen], ?_⟩
    intro k a a' ha ha'
    cases k with
    | zero => simp at ha ha'; subst ha ha'; exact hs
    | succ k =>
      simp only [List.getElem?_cons_succ] at ha ha'
      have := hsim k a a' ha ha'
      rwa [cloneEdge_st] at this

/-- result of an import into another manager -/
structure Imported (s : Store) (roots inner : List Edge) (r0 : RSt) (roots' : List Edge) (r' : RSt) : Prop where
  len : roots'.length = roots.length
  sim : ∀ (k : Nat) (c c' : Edge), roots[k]? = some c → roots'[k]? = some c' → Sim s r'.st.store c c'
  le : r0.st.store.Le r'.st.store
  /-- no garbage: every slot is an old one or the image of an exported node -/
  cover : ∀ j n, r'.st.store.get? j = some n →
    r0.st.store.get? j = some n ∨ ∃ c ∈ inner, Sim s r'.st.store c (.inner j)
  count_le : r'.st.store.count ≤ r0.st.store.count + inner.length
  /-- into an empty manager: exactly one node per exported node -/
  count_eq : (∀ j, r0.st.store.get? j = none) → r'.st.store.count = r0.st.store.count + inner.length

/-- **import into another manager with the same order** -/
theorem importS_other {nvars : Nat} {s : Store} (ok : StoreOK nvars s) (hu : s.Unique) (hn : s.NoRed)
    {roots terms inner : List Edge} (N : Numbering s nvars roots terms inner) (cfg : ICfg)
    (hslm : cfg.slm = suppLevels nvars (mkDiagram s terms inner roots).nodes) (r0 : RSt)
    (hcap : r0.st.store.count + inner.length ≤ cfg.cap) :
    ∃ roots' r', importS cfg nvars r0 (mkDiagram s terms inner roots) = (.ok roots', r') ∧
      Imported s roots inner r0 roots' r' := by
  unfold importS
  have hhd : (mkDiagram s terms inner roots).roots.any (fun id => id = 0 || id.natAbs >
      (mkDiagram s terms inner roots).terms.length + (mkDiagram s terms inner roots).nodes.length) = false := by
    rw [List.any_eq_false]
    intro id hid
    simp only [mkDiagram, List.mem_map] at hid
    obtain ⟨x, hx, rfl⟩ := hid
    have hm := N.roots_mem x hx
    have := List.idxOf_lt_length_iff.mpr hm
    simp only [mkDiagram, List.length_map, idOf_natAbs, idOf_ne_zero, decide_false, Bool.false_or,
      decide_eq_true_eq]
    simp only [List.length_append] at this
    omega
  simp only [hhd, Bool.false_eq_true, if_false]
  have ht : termLoop (mkDiagram s terms inner roots).terms = .ok terms := termLoop_terms_ok terms N.terms_term
  rw [ht]
  simp only
  -- the table of terminals
  have I0 : LInv s r0.st.store terms.length (terms ++ []) terms r0 := by
    refine ⟨by simp, ?_, Store.Le.refl _, fun j n h => .inl h, by simp, fun _ => by simp⟩
    intro k c c' hc hc'
    simp only [List.append_nil] at hc
    rw [hc] at hc'; cases hc'
    exact sim_of_term (N.terms_term c (List.mem_of_getElem? hc))
  obtain ⟨table, r1, h1, I1⟩ := nodeLoop_other ok hu hn N cfg hslm hcap inner [] terms r0 (by simp) I0
  have h1' : nodeLoop cfg (suppLevels nvars (mkDiagram s terms inner roots).nodes) r0 terms
      (mkDiagram s terms inner roots).nodes = (.ok table, r1) := by
    simpa [mkDiagram] using h1
  rw [h1']
  simp only
  obtain ⟨roots', r2, h2, hst2, hlen, hsim⟩ := rootLoop_other roots r1 [] I1 N.roots_mem cfg.compl
  have h2' : rootLoop cfg.compl table r1 [] (mkDiagram s terms inner roots).roots = (.ok roots', r2) := by
    simpa [mkDiagram] using h2
  rw [h2']
  refine ⟨roots', _, rfl, ?_⟩
  have hst : (dropList r2 table).st = r1.st := by rw [dropList_st, hst2]
  refine ⟨hlen, ?_, ?_, ?_, ?_, ?_⟩
  · rw [hst]; exact hsim
  · rw [hst]; exact I1.le
  · rw [hst]
    intro j n hjn
    rcases I1.cover j n hjn with h | ⟨c, hc, hs⟩
    · exact .inl h
    · rcases List.mem_append.mp hc with hc | hc
      · -- a terminal is not similar to an inner edge
        have := N.terms_term c hc
        cases c with
        | term b => cases hs
        | inner i => simp [isTermE] at this
      · exact .inr ⟨c, hc, hs⟩
  · rw [hst]; have := I1.count_le; simp only [List.length_append] at this; omega
  · rw [hst]; intro he; have := I1.count_eq he; simp only [List.length_append] at this; omega

end OxiddModel.Dddmp.StoreS
