import OxiddModel.Dddmp.StoreS
import OxiddModel.Bdd.RcSLemmasAlg

/-!
# Counters under export and import

* `exportS_st`, `exportS_rcGet`: the exporter changes no counter and nothing else — for every
  store, root list, iteration order and fuel (the clones of `EdgeHashMap::insert` are exactly
  the keys the map drops);
* `importS_rc`: the importer keeps `RcInv`: on success the caller owns the roots, on every error
  (malformed record, level check, OutOfMemory in `reduce` or in the complement callback, at any
  node) it owns nothing more.
-/
namespace OxiddModel.Dddmp.StoreS
open OxiddModel.Bdd OxiddModel.Bdd.Refine OxiddModel.Bdd.Rc
open OxiddModel.Dddmp

/-! ## counters of clone / drop lists -/

theorem rcGet_cloneEdge (r : RSt) (x : Edge) (k : Nat) :
    rcGet (cloneEdge r x).rc k = rcGet r.rc k + cnt x k := by
  cases x with
  | term b => simp [cloneEdge, cnt]
  | inner j =>
    simp only [cloneEdge, rcGet_rcSet, cnt]
    by_cases hkj : k = j
    · subst hkj; simp
    · have : Edge.inner j ≠ Edge.inner k := fun e => hkj (by cases e; rfl)
      simp [hkj, this]

theorem cnt_eq_count (x : Edge) (k : Nat) : cnt x k = [x].count (.inner k) := by
  simp only [cnt, List.count_cons, List.count_nil]
  by_cases h : x = .inner k <;> simp [h]

@[simp] theorem cloneList_st (r : RSt) (l : List Edge) : (cloneList r l).st = r.st := by
  induction l with
  | nil => rfl
  | cons a l ih => simp [cloneList, List.foldr_cons] at ih ⊢; exact ih

@[simp] theorem dropList_st (r : RSt) (l : List Edge) : (dropList r l).st = r.st := by
  induction l generalizing r with
  | nil => rfl
  | cons a l ih => simp only [dropList, List.foldl_cons] at ih ⊢; rw [ih]; simp

theorem rcGet_cloneList (r : RSt) (l : List Edge) (k : Nat) :
    rcGet (cloneList r l).rc k = rcGet r.rc k + l.count (.inner k) := by
  induction l with
  | nil => simp [cloneList]
  | cons a l ih =>
    have : cloneList r (a :: l) = cloneEdge (cloneList r l) a := rfl
    rw [this, rcGet_cloneEdge, ih, cnt_eq_count, List.count_cons (a := .inner k) (b := a)]
    simp only [List.count_cons, List.count_nil]
    omega

theorem rcGet_dropList (r : RSt) (l : List Edge) (k : Nat) :
    rcGet (dropList r l).rc k = rcGet r.rc k - l.count (.inner k) := by
  induction l generalizing r with
  | nil => simp [dropList]
  | cons a l ih =>
    have : dropList r (a :: l) = dropList (dropEdge r a) l := rfl
    rw [this, ih, rcGet_dropEdge, cnt_eq_count]
    simp only [List.count_cons, List.count_nil]
    omega

theorem cloneList_append (r : RSt) (a b : List Edge) :
    cloneList r (a ++ b) = cloneList (cloneList r b) a := by
  simp [cloneList, List.foldr_append]

/-! ## `rec_add_map`: the clones are exactly the new keys -/

/-- postcondition of the traversal: keys are only added (at the front) and exactly the new keys
were cloned -/
def AddPost (st st' : RSt × List Edge) : Prop :=
  ∃ new, st'.2 = new ++ st.2 ∧ st'.1 = cloneList st.1 new

theorem AddPost.refl (st : RSt × List Edge) : AddPost st st := ⟨[], rfl, rfl⟩

theorem AddPost.trans {a b c : RSt × List Edge} (h1 : AddPost a b) (h2 : AddPost b c) : AddPost a c := by
  obtain ⟨n1, e1, c1⟩ := h1
  obtain ⟨n2, e2, c2⟩ := h2
  exact ⟨n2 ++ n1, by rw [e2, e1, List.append_assoc], by rw [c2, c1, cloneList_append]⟩

theorem foldl_addPost {f : RSt × List Edge → Edge → RSt × List Edge}
    (hf : ∀ st k, AddPost st (f st k)) (ks : List Edge) (st : RSt × List Edge) :
    AddPost st (ks.foldl f st) := by
  induction ks generalizing st with
  | nil => exact AddPost.refl _
  | cons k ks ih => exact (hf st k).trans (ih _)

theorem recAddMap_post (s : Store) (fuel : Nat) : ∀ (st : RSt × List Edge) (x : Edge),
    AddPost st (recAddMap false s fuel st x) := by
  induction fuel with
  | zero => intro st x; exact AddPost.refl _
  | succ fuel ih =>
    intro st x
    simp only [recAddMap]
    split
    · simp only [Bool.false_eq_true, ↓reduceIte]; exact AddPost.refl _
    · have h0 : AddPost st (cloneEdge st.1 x, x :: st.2) := ⟨[x], rfl, rfl⟩
      exact h0.trans (foldl_addPost (fun st k => ih st k) _ _)

theorem visitRoots_post (s : Store) (fuel : Nat) (st : RSt × List Edge) (roots : List Edge) :
    AddPost st (visitRoots false s fuel st roots) :=
  foldl_addPost (fun st k => recAddMap_post s fuel st k) roots st

/-! ## the exporter changes nothing -/

theorem exportS_st (ord : List Edge → List Edge) (nvars : Nat) (r : RSt) (roots : List Edge) :
    (exportS false ord nvars r roots).2.st = r.st := by
  obtain ⟨new, _, h1⟩ := visitRoots_post r.st.store (nvars + 1) (cloneList r roots.reverse, []) roots
  simp only [exportS, dropList_st, h1, cloneList_st]

theorem exportS_rcGet (ord : List Edge → List Edge) (nvars : Nat) (r : RSt) (roots : List Edge) (k : Nat) :
    rcGet (exportS false ord nvars r roots).2.rc k = rcGet r.rc k := by
  obtain ⟨new, h2, h1⟩ := visitRoots_post r.st.store (nvars + 1) (cloneList r roots.reverse, []) roots
  simp only [exportS, rcGet_dropList, h1, h2, rcGet_cloneList, List.append_nil, List.count_reverse]
  omega

/-- `RcInv` looks at the counters only through `rcGet` -/
theorem RcInv.of_rcGet {r r' : RSt} {ext : List Edge} (h : RcInv r ext) (hs : r'.st = r.st)
    (hc : ∀ k, rcGet r'.rc k = rcGet r.rc k) : RcInv r' ext := by
  refine ⟨?_, ?_, ?_, ?_⟩
  · rw [hs]; exact h.ext_ok
  · rw [hs]; exact h.kids_ok
  · rw [hs]; exact h.cache_ok
  · intro i n hi; rw [hs] at hi ⊢; rw [hc]; exact h.rc_eq i n hi

/-! ## the importer keeps the counters exact -/

/-- what the importer needs from the complement callback: it consumes the operand; the result (if
any) is owned by the caller -/
def ComplOK (compl : Compl) : Prop :=
  ∀ r e ext, RcInv r (e :: ext) →
    match compl r e with
    | (some x, r') => RcInv r' (x :: ext)
    | (none, r') => RcInv r' ext

theorem complId_ok : ComplOK complId := fun _ _ _ h => h

theorem complNot_ok {p : Policy} (pok : p.OK) (cap fuel : Nat) : ComplOK (complNot cap p fuel) := by
  intro r e ext h
  have hp := notR_rc pok cap fuel r e (e :: ext) h (h.ext_ok e List.mem_cons_self)
  unfold complNot
  obtain ⟨_, hp⟩ := hp
  cases hr : notR cap p fuel r e with
  | mk o r' =>
    rw [hr] at hp
    cases o with
    | some x => exact dropEdge_rc (RcInv.swap hp)
    | none => exact dropEdge_rc hp

theorem rcinv_perm {r : RSt} {a b : List Edge} (h : RcInv r a) (hp : a.Perm b) : RcInv r b :=
  h.congr (fun e => hp.count_eq e)

theorem dropList_rc {r : RSt} (l : List Edge) {ext : List Edge} (h : RcInv r (l ++ ext)) :
    RcInv (dropList r l) ext := by
  induction l generalizing r with
  | nil => exact h
  | cons a l ih => exact ih (dropEdge_rc h)

theorem has_of_mem_table {r : RSt} {ext : List Edge} (h : RcInv r ext) {table : List Edge} {k : Nat} {x : Edge}
    (hx : table[k]? = some x) (hsub : ∀ y ∈ table, y ∈ ext) : r.st.store.has x :=
  h.ext_ok x (hsub x (List.mem_of_getElem? hx))

/-- postcondition of a step that returns owned edges `α → List Edge` -/
def StepPost {α : Type} (own : α → List Edge) (ext : List Edge) (R : Step α × RSt) : Prop :=
  match R with
  | (.ok a, r') => RcInv r' (own a ++ ext)
  | (.error _, r') => RcInv r' ext

theorem childLoop_rc {compl : Compl} (hc : ComplOK compl) (nodeId level : Nat) (table : List Edge)
    (ext : List Edge) (hsub : ∀ y ∈ table, y ∈ ext) :
    ∀ (cs : List Int) (r : RSt) (acc : List Edge), RcInv r (acc ++ ext) →
      StepPost (fun l => l) ext (childLoop compl nodeId level table r acc cs) := by
  intro cs
  induction cs with
  | nil => intro r acc h; exact h
  | cons c cs ih =>
    intro r acc h
    simp only [childLoop]
    split
    · exact dropList_rc acc h
    · cases hx : table[c.natAbs - 1]? with
      | none => exact dropList_rc acc h
      | some x =>
        simp only
        have hxe : x ∈ acc ++ ext := List.mem_append_right _ (hsub x (List.mem_of_getElem? hx))
        have h1 : RcInv (cloneEdge r x) (x :: (acc ++ ext)) := cloneEdge_rc h (h.ext_ok x hxe)
        -- the (possibly complemented) child
        have h2 : match (if c < 0 then compl (cloneEdge r x) x else (some x, cloneEdge r x)) with
            | (some e, r2) => RcInv r2 (e :: (acc ++ ext))
            | (none, r2) => RcInv r2 (acc ++ ext) := by
          by_cases hneg : c < 0
          · simp only [hneg, if_true]; exact hc _ _ _ h1
          · simp only [hneg, if_false]; exact h1
        generalize (if c < 0 then compl (cloneEdge r x) x else (some x, cloneEdge r x)) = R at h2
        obtain ⟨o, r2⟩ := R
        cases o with
        | none => exact dropList_rc acc h2
        | some e =>
          simp only at h2 ⊢
          have h3 : RcInv r2 ((acc ++ [e]) ++ ext) :=
            rcinv_perm h2 (by simp only [List.append_assoc, List.singleton_append]; exact List.perm_middle.symm)
          split
          · exact dropList_rc _ h3
          · exact ih r2 (acc ++ [e]) h3

theorem nodeStep_rc {cfg : ICfg} (hc : ComplOK cfg.compl) (supp : List Nat) (nodeId : Nat) (table : List Edge)
    (ext : List Edge) (hsub : ∀ y ∈ table, y ∈ ext) (r : RSt) (n : SNode) (h : RcInv r ext) :
    StepPost (fun x => [x]) ext (nodeStep cfg supp nodeId table r n) := by
  unfold nodeStep
  split
  · exact h
  · split
    · split
      · exact h
      · rename_i b _
        exact cloneEdge_rc (x := .term b) h trivial
    · split
      · exact h
      · rename_i level _
        have hl := childLoop_rc hc nodeId level table ext hsub n.children r [] h
        generalize childLoop cfg.compl nodeId level table r [] n.children = R at hl
        obtain ⟨o, r'⟩ := R
        cases o with
        | error e => exact hl
        | ok cs =>
          simp only [StepPost] at hl
          match cs, hl with
          | [t, e], hl =>
            simp only
            have := mkNodeR_rc (cap := cfg.cap) (l := level) (r := r') (t := t) (e := e) (ext := ext) hl
            generalize mkNodeR cfg.cap r' level t e = M at this
            obtain ⟨o, r''⟩ := M
            cases o with
            | some x => exact this
            | none => exact this
          | [], hl => exact dropList_rc _ hl
          | [_], hl => exact dropList_rc _ hl
          | _ :: _ :: _ :: _, hl => exact dropList_rc _ hl

theorem nodeLoop_rc {cfg : ICfg} (hc : ComplOK cfg.compl) (supp : List Nat) (ext : List Edge) :
    ∀ (ns : List SNode) (r : RSt) (table : List Edge), RcInv r (table ++ ext) →
      StepPost (fun l => l) ext (nodeLoop cfg supp r table ns) := by
  intro ns
  induction ns with
  | nil => intro r table h; exact h
  | cons n ns ih =>
    intro r table h
    simp only [nodeLoop]
    have hs := nodeStep_rc hc supp (table.length + 1) table (table ++ ext)
      (fun y hy => List.mem_append_left _ hy) r n h
    generalize nodeStep cfg supp (table.length + 1) table r n = R at hs
    obtain ⟨o, r'⟩ := R
    cases o with
    | error e => exact dropList_rc table hs
    | ok x =>
      simp only [StepPost] at hs
      refine ih r' (table ++ [x]) (rcinv_perm hs ?_)
      simp only [List.append_assoc, List.singleton_append]
      exact List.perm_middle.symm

theorem termLoop_terms : ∀ (ds : List (List Nat)) (t : List Edge), termLoop ds = .ok t →
    ∀ x ∈ t, isTermE x = true := by
  intro ds
  induction ds with
  | nil => intro t h; simp [termLoop] at h; subst h; simp
  | cons d ds ih =>
    intro t h
    simp only [termLoop] at h
    cases hp : parseTermBdd d with
    | none => simp [hp] at h
    | some b =>
      simp only [hp] at h
      cases hr : termLoop ds with
      | error e => simp [hr] at h
      | ok t' =>
        simp only [hr, Step.ok.injEq] at h
        subst h
        intro x hx
        rcases List.mem_cons.mp hx with rfl | hx
        · rfl
        · exact ih t' hr x hx

theorem rcinv_add_terms {r : RSt} {ext : List Edge} (h : RcInv r ext) (t : List Edge)
    (ht : ∀ x ∈ t, isTermE x = true) : RcInv r (t ++ ext) := by
  induction t with
  | nil => exact h
  | cons a t ih =>
    have ha := ht a List.mem_cons_self
    cases a with
    | inner i => simp [isTermE] at ha
    | term b =>
      have := cloneEdge_rc (x := .term b) (ih (fun x hx => ht x (List.mem_cons_of_mem _ hx))) trivial
      exact this

theorem rootLoop_rc {compl : Compl} (hc : ComplOK compl) (table : List Edge)
    (ext : List Edge) (hsub : ∀ y ∈ table, y ∈ ext) :
    ∀ (cs : List Int) (r : RSt) (acc : List Edge), RcInv r (acc ++ ext) →
      StepPost (fun l => l) ext (rootLoop compl table r acc cs) := by
  intro cs
  induction cs with
  | nil => intro r acc h; exact h
  | cons c cs ih =>
    intro r acc h
    simp only [rootLoop]
    cases hx : (if c = 0 then none else table[c.natAbs - 1]?) with
    | none => exact dropList_rc acc h
    | some x =>
      simp only
      have hx' : table[c.natAbs - 1]? = some x := by
        split at hx
        · cases hx
        · exact hx
      have hxe : x ∈ acc ++ ext := List.mem_append_right _ (hsub x (List.mem_of_getElem? hx'))
      have h1 : RcInv (cloneEdge r x) (x :: (acc ++ ext)) := cloneEdge_rc h (h.ext_ok x hxe)
      have h2 : match (if c > 0 then (some x, cloneEdge r x) else compl (cloneEdge r x) x) with
          | (some e, r2) => RcInv r2 (e :: (acc ++ ext))
          | (none, r2) => RcInv r2 (acc ++ ext) := by
        by_cases hpos : c > 0
        · simp only [hpos, if_true]; exact h1
        · simp only [hpos, if_false]; exact hc _ _ _ h1
      generalize (if c > 0 then (some x, cloneEdge r x) else compl (cloneEdge r x) x) = R at h2
      obtain ⟨o, r2⟩ := R
      cases o with
      | none => exact dropList_rc acc h2
      | some e =>
        simp only at h2 ⊢
        exact ih r2 (acc ++ [e]) (rcinv_perm h2
          (by simp only [List.append_assoc, List.singleton_append]; exact List.perm_middle.symm))

/-- **the importer keeps the counters exact** -/
theorem importS_rc {cfg : ICfg} (hc : ComplOK cfg.compl) (nvars : Nat) (r : RSt) (d : Diagram)
    (ext : List Edge) (h : RcInv r ext) :
    match importS cfg nvars r d with
    | (.ok roots, r') => RcInv r' (roots ++ ext)
    | (.fail _, r') => RcInv r' ext := by
  unfold importS
  by_cases hhd : d.roots.any (fun id => id = 0 || id.natAbs > d.terms.length + d.nodes.length) = true
  · simp only [hhd, if_true]; exact h
  · simp only [hhd, Bool.false_eq_true, if_false]
    cases ht : termLoop d.terms with
    | error e => exact h
    | ok tt =>
      simp only
      have h0 : RcInv r (tt ++ ext) := rcinv_add_terms h tt (termLoop_terms _ _ ht)
      have hn := nodeLoop_rc hc (suppLevels nvars d.nodes) ext d.nodes r tt h0
      generalize nodeLoop cfg (suppLevels nvars d.nodes) r tt d.nodes = R at hn
      obtain ⟨o, r'⟩ := R
      cases o with
      | error e => exact hn
      | ok table =>
        simp only [StepPost] at hn ⊢
        have hr := rootLoop_rc hc table (table ++ ext) (fun y hy => List.mem_append_left _ hy)
          d.roots r' [] hn
        generalize rootLoop cfg.compl table r' [] d.roots = R2 at hr
        obtain ⟨o2, r''⟩ := R2
        cases o2 with
        | error e => exact dropList_rc table hr
        | ok roots =>
          simp only [StepPost] at hr ⊢
          exact dropList_rc table (rcinv_perm hr (by
            rw [← List.append_assoc]
            exact (List.perm_append_comm).append_right ext |>.trans (by rw [List.append_assoc])))

end OxiddModel.Dddmp.StoreS
