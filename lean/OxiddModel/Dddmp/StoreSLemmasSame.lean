import OxiddModel.Dddmp.StoreSLemmasExport

/-!
# Re-import into the same manager: hash consing finds every node

`importS_same`: for every `Numbering` of a hash-consed (`Unique`), reduced (`NoRed`) store, the
importer run on `mkDiagram` **in the same store** returns exactly the original root edges and
leaves the store component (`st`: node table, apply cache, time stamp) unchanged — whatever the
capacity (no slot is needed) and whatever the complement callback (it is never called).
-/
namespace OxiddModel.Dddmp.StoreS
open OxiddModel.Bdd OxiddModel.Bdd.Refine OxiddModel.Bdd.Rc
open OxiddModel.Dddmp

/-! ## ids -/

theorem idOf_natAbs (all : List Edge) (c : Edge) : (idOf all c).natAbs = all.idxOf c + 1 := by
  simp only [idOf, Int.natAbs_natCast]

theorem idOf_pos (all : List Edge) (c : Edge) : 0 < idOf all c := by
  simp only [idOf]; omega

theorem idOf_ne_zero (all : List Edge) (c : Edge) : idOf all c ≠ 0 := by
  have := idOf_pos all c; omega

/-- an edge of the table is found at its id -/
theorem table_lookup {all table rest : List Edge} (h : all = table ++ rest) {c : Edge} (hc : c ∈ table) :
    all.idxOf c < table.length ∧ table[all.idxOf c]? = some c := by
  have h1 : all.idxOf c = table.idxOf c := by rw [h, List.idxOf_append]; simp [hc]
  have h2 : table.idxOf c < table.length := List.idxOf_lt_length_iff.mpr hc
  rw [h1]
  exact ⟨h2, by rw [List.getElem?_eq_getElem h2, List.getElem_idxOf]⟩

/-! ## terminals -/

theorem termLoop_terms_ok : ∀ (terms : List Edge), (∀ x ∈ terms, isTermE x = true) →
    termLoop (terms.map termDesc) = .ok terms := by
  intro terms
  induction terms with
  | nil => intro _; rfl
  | cons a t ih =>
    intro h
    have ha := h a List.mem_cons_self
    have := ih (fun x hx => h x (List.mem_cons_of_mem _ hx))
    cases a with
    | inner i => simp [isTermE] at ha
    | term b =>
      cases b with
      | true =>
        have hp : parseTermBdd (termDesc (.term true)) = some true := by decide
        simp only [List.map_cons, termLoop, hp, this]
      | false =>
        have hp : parseTermBdd (termDesc (.term false)) = some false := by decide
        simp only [List.map_cons, termLoop, hp, this]

/-! ## the child loop and the root loop on positive ids -/

theorem childLoop_pos (compl : Compl) (level : Nat) (s : Store) {all table rest : List Edge}
    (h : all = table ++ rest) :
    ∀ (ks : List Edge) (r : RSt) (acc : List Edge), r.st.store = s → (∀ c ∈ ks, c ∈ table) →
      (∀ c ∈ ks, level < levelOfE s c) →
      ∃ r', childLoop compl (table.length + 1) level table r acc (ks.map (idOf all)) = (.ok (acc ++ ks), r') ∧
        r'.st = r.st := by
  intro ks
  induction ks with
  | nil => intro r acc _ _ _; exact ⟨r, by simp [childLoop], rfl⟩
  | cons c ks ih =>
    intro r acc hs hmem hlv
    obtain ⟨h1, h2⟩ := table_lookup h (hmem c List.mem_cons_self)
    have hl := hlv c List.mem_cons_self
    simp only [List.map_cons, childLoop, idOf_natAbs]
    have hge : ¬ (all.idxOf c + 1 ≥ table.length + 1) := by omega
    have hneg : ¬ (idOf all c < 0) := by have := idOf_pos all c; omega
    simp only [hge, if_false, Nat.add_sub_cancel, h2, hneg]
    have hlvl : ¬ (level ≥ levelOfE (cloneEdge r c).st.store c) := by
      rw [cloneEdge_st, hs]; omega
    simp only [hlvl, if_false]
    obtain ⟨r', he, hst⟩ := ih (cloneEdge r c) (acc ++ [c]) (by rw [cloneEdge_st]; exact hs)
      (fun x hx => hmem x (List.mem_cons_of_mem _ hx)) (fun x hx => hlv x (List.mem_cons_of_mem _ hx))
    refine ⟨r', ?_, by rw [hst, cloneEdge_st]⟩
    rw [he]; simp

theorem rootLoop_pos (compl : Compl) {all table : List Edge} (h : all = table) :
    ∀ (ks : List Edge) (r : RSt) (acc : List Edge), (∀ c ∈ ks, c ∈ table) →
      ∃ r', rootLoop compl table r acc (ks.map (idOf all)) = (.ok (acc ++ ks), r') ∧ r'.st = r.st := by
  intro ks
  induction ks with
  | nil => intro r acc _; exact ⟨r, by simp [rootLoop], rfl⟩
  | cons c ks ih =>
    intro r acc hmem
    obtain ⟨h1, h2⟩ := table_lookup (rest := []) (by simpa using h) (hmem c List.mem_cons_self)
    simp only [List.map_cons, rootLoop, idOf_natAbs, idOf_ne_zero, if_false, Nat.add_sub_cancel, h2]
    have hpos : idOf all c > 0 := idOf_pos all c
    simp only [hpos, if_true]
    obtain ⟨r', he, hst⟩ := ih (cloneEdge r c) (acc ++ [c]) (fun x hx => hmem x (List.mem_cons_of_mem _ hx))
    refine ⟨r', ?_, by rw [hst, cloneEdge_st]⟩
    rw [he]; simp

/-! ## `reduce` finds the node -/

theorem find?_of_get? {s : Store} (hu : s.Unique) {i : Nat} {n : Node} (h : s.get? i = some n) :
    s.find? n = some i := by
  cases hf : s.find? n with
  | none => exact absurd h (find?_none hf i)
  | some j => rw [hu j i n (find?_some hf) h]

theorem mkNodeR_hit (cap : Nat) {r : RSt} (hu : r.st.store.Unique) {i : Nat} {l : Nat} {t e : Edge}
    (h : r.st.store.get? i = some ⟨l, t, e⟩) (hte : t ≠ e) :
    mkNodeR cap r l t e = (some (.inner i), cloneEdge (dropEdge (dropEdge r t) e) (.inner i)) := by
  unfold mkNodeR
  simp only [hte, if_false, find?_of_get? hu h]

/-! ## support levels of the written file -/

theorem level_mem_supp {s : Store} {nvars : Nat} {terms inner : List Edge} {x : Edge} (hx : x ∈ inner)
    (hl : levelOfE s x < nvars) :
    levelOfE s x ∈ suppLevels nvars (inner.map (snodeOf s (terms ++ inner))) :=
  mem_suppLevels nvars _ (snodeOf s (terms ++ inner) x) (List.mem_map_of_mem hx) hl

theorem slm_same {s : Store} {nvars : Nat} {terms inner : List Edge} {x : Edge} (hx : x ∈ inner)
    (hl : levelOfE s x < nvars) :
    (suppLevels nvars (inner.map (snodeOf s (terms ++ inner))))[suppIdx
      (suppLevels nvars (inner.map (snodeOf s (terms ++ inner)))) (levelOfE s x)]? = some (levelOfE s x) :=
  getElem?_suppIdx _ (suppLevels_pairwise _ _) _ (level_mem_supp hx hl)

/-! ## one node, all nodes -/

theorem nodeStep_same {nvars : Nat} {s : Store} (ok : StoreOK nvars s) (hu : s.Unique) (hn : s.NoRed)
    {roots terms inner : List Edge} (N : Numbering s nvars roots terms inner) (cfg : ICfg)
    (hslm : cfg.slm = suppLevels nvars (inner.map (snodeOf s (terms ++ inner))))
    {table post : List Edge} {x : Edge} (hall : terms ++ inner = table ++ x :: post) (hx : x ∈ inner)
    (r : RSt) (hs : r.st.store = s) :
    ∃ r', nodeStep cfg (suppLevels nvars (inner.map (snodeOf s (terms ++ inner)))) (table.length + 1) table r
        (snodeOf s (terms ++ inner) x) = (.ok x, r') ∧ r'.st = r.st := by
  obtain ⟨i, n, rfl, hi, hlv⟩ := N.inner_stored x hx
  obtain ⟨l, t, e⟩ := n
  have hk : kidsE s (.inner i) = [t, e] := kidsE_stored hi
  have hL : levelOfE s (.inner i) = l := levelOfE_stored hi
  have hsn : snodeOf s (terms ++ inner) (.inner i) = ⟨l, [idOf (terms ++ inner) t, idOf (terms ++ inner) e]⟩ := by
    simp only [snodeOf, hk, hL, List.map_cons, List.map_nil]
  have hbu := N.bottomUp table (.inner i) post hall
  rw [hk] at hbu
  have hslmx := slm_same (terms := terms) hx (by rw [hL]; exact hlv)
  rw [hL] at hslmx
  unfold nodeStep
  rw [hsn]
  have hc0 : ([idOf (terms ++ inner) t, idOf (terms ++ inner) e] : List Int).contains 0 = false := by
    have h1 := idOf_ne_zero (terms ++ inner) t
    have h2 := idOf_ne_zero (terms ++ inner) e
    simp [Ne.symm h1, Ne.symm h2]
  simp only [List.length_cons, List.length_nil, ne_eq, not_true_eq_false, if_false, hc0,
    Bool.false_eq_true, hslm, hslmx]
  obtain ⟨r1, hcl, hst1⟩ := childLoop_pos cfg.compl l s hall [t, e] r [] hs hbu (by
    intro c hc
    have := kid_level_lt ok hi (by rw [hk]; exact hc)
    exact this)
  have hcl' : childLoop cfg.compl (table.length + 1) l table r []
      [idOf (terms ++ inner) t, idOf (terms ++ inner) e] = (.ok [t, e], r1) := by simpa using hcl
  rw [hcl']
  simp only
  have hs1 : r1.st.store = s := by rw [hst1]; exact hs
  have hte : t ≠ e := hn i _ hi
  rw [mkNodeR_hit cfg.cap (by rw [hs1]; exact hu) (by rw [hs1]; exact hi) hte]
  exact ⟨_, rfl, by simp [hst1]⟩

theorem nodeLoop_same {nvars : Nat} {s : Store} (ok : StoreOK nvars s) (hu : s.Unique) (hn : s.NoRed)
    {roots terms inner : List Edge} (N : Numbering s nvars roots terms inner) (cfg : ICfg)
    (hslm : cfg.slm = suppLevels nvars (inner.map (snodeOf s (terms ++ inner)))) :
    ∀ (ipost ipre : List Edge) (r : RSt), inner = ipre ++ ipost → r.st.store = s →
      ∃ r', nodeLoop cfg (suppLevels nvars (inner.map (snodeOf s (terms ++ inner)))) r (terms ++ ipre)
          (ipost.map (snodeOf s (terms ++ inner))) = (.ok (terms ++ inner), r') ∧ r'.st = r.st := by
  intro ipost
  induction ipost with
  | nil =>
    intro ipre r hin _
    refine ⟨r, ?_, rfl⟩
    simp only [List.map_nil, nodeLoop]
    rw [hin]; simp
  | cons x ipost ih =>
    intro ipre r hin hs
    simp only [List.map_cons, nodeLoop]
    have hall : terms ++ inner = (terms ++ ipre) ++ x :: ipost := by rw [hin]; simp
    obtain ⟨r1, h1, hst1⟩ := nodeStep_same ok hu hn N cfg hslm hall (by rw [hin]; simp) r hs
    rw [h1]
    simp only
    obtain ⟨r2, h2, hst2⟩ := ih (ipre ++ [x]) r1 (by rw [hin]; simp) (by rw [hst1]; exact hs)
    refine ⟨r2, ?_, by rw [hst2, hst1]⟩
    rw [← h2]; simp

/-- **re-import into the same manager** -/
theorem importS_same {nvars : Nat} {r : RSt} (ok : StoreOK nvars r.st.store) (hu : r.st.store.Unique)
    (hn : r.st.store.NoRed) {roots terms inner : List Edge}
    (N : Numbering r.st.store nvars roots terms inner) (cfg : ICfg)
    (hslm : cfg.slm = suppLevels nvars (mkDiagram r.st.store terms inner roots).nodes) :
    ∃ r', importS cfg nvars r (mkDiagram r.st.store terms inner roots) = (.ok roots, r') ∧ r'.st = r.st := by
  unfold importS
  -- the header check
  have hhd : (mkDiagram r.st.store terms inner roots).roots.any (fun id => id = 0 || id.natAbs >
      (mkDiagram r.st.store terms inner roots).terms.length + (mkDiagram r.st.store terms inner roots).nodes.length)
      = false := by
    rw [List.any_eq_false]
    intro id hid
    simp only [mkDiagram, List.mem_map] at hid
    obtain ⟨x, hx, rfl⟩ := hid
    have hm := N.roots_mem x hx
    have := List.idxOf_lt_length_iff.mpr hm
    simp only [mkDiagram, List.length_map, idOf_natAbs, idOf_ne_zero, decide_false, Bool.false_or,
      decide_eq_true_eq]
    simp only [List.length_append] at this
    omega
  simp only [hhd, Bool.false_eq_true, if_false]
  have ht : termLoop (mkDiagram r.st.store terms inner roots).terms = .ok terms :=
    termLoop_terms_ok terms N.terms_term
  rw [ht]
  simp only
  obtain ⟨r1, h1, hst1⟩ := nodeLoop_same ok hu hn N cfg hslm inner [] r (by simp) rfl
  have h1' : nodeLoop cfg (suppLevels nvars (mkDiagram r.st.store terms inner roots).nodes) r terms
      (mkDiagram r.st.store terms inner roots).nodes = (.ok (terms ++ inner), r1) := by
    simpa [mkDiagram] using h1
  rw [h1']
  simp only
  obtain ⟨r2, h2, hst2⟩ := rootLoop_pos cfg.compl (all := terms ++ inner) rfl roots r1 [] N.roots_mem
  have h2' : rootLoop cfg.compl (terms ++ inner) r1 [] (mkDiagram r.st.store terms inner roots).roots
      = (.ok roots, r2) := by simpa [mkDiagram] using h2
  rw [h2']
  exact ⟨_, rfl, by rw [dropList_st, hst2, hst1]⟩

end OxiddModel.Dddmp.StoreS
