import OxiddModel.Util.Proto
import OxiddModel.DimacsParse.Model

/-!
Line protocol `dimacsparse` (see `harness/src/bin/c18_dimacsparse.rs`):

`p <opts: 0..3> <input bytes as hex | ->` (`q …`: the same without the resource rule) ↦
`OK <canonical problem>` | `ERR` | `PANIC <kind>` | `SKIP`.

`opts`: bit 0 = `ParseOptions::var_order`, bit 1 = `ParseOptions::clause_tree`.

`SKIP` (resource rule shared with the Rust side, both decide it by the same scan of the raw bytes
and do not run the parser): the input contains a decimal number in `10000 ..= usize::MAX/16`, i.e. a
number the parser may accept as a count and reserve memory for (KF-parser-alloc), or more than
1000 bytes `(` / `[` (recursion depth, KF-parser-deep-nesting).
-/
namespace OxiddModel.DimacsParse

open OxiddModel.Circuit
open OxiddModel.AigerParse (isDigit maxCap)

def hexVal (c : Char) : Option Nat :=
  if '0' ≤ c ∧ c ≤ '9' then some (c.toNat - '0'.toNat)
  else if 'a' ≤ c ∧ c ≤ 'f' then some (c.toNat - 'a'.toNat + 10)
  else none

def unhex : List Char → Option Bytes
  | [] => some []
  | a :: b :: r =>
    match hexVal a, hexVal b, unhex r with
    | some x, some y, some bs => some ((16 * x + y) :: bs)
    | _, _, _ => none
  | _ => none

def hexDigit (n : Nat) : Char := if n < 10 then Char.ofNat (48 + n) else Char.ofNat (87 + n)

def hex (bs : Bytes) : String :=
  String.ofList (bs.flatMap fun b => [hexDigit (b / 16), hexDigit (b % 16)])

/-- value of the maximal digit run at the head -/
def digitRun (acc : Nat) : Bytes → Nat × Bytes
  | [] => (acc, [])
  | b :: r => if isDigit b then digitRun (acc * 10 + (b - 48)) r else (acc, b :: r)

/-- the resource rule, part 1: some decimal number of the input lies in `10000 ..= maxCap` -/
def tooBig : (fuel : Nat) → Bytes → Bool
  | 0, _ => false
  | _ + 1, [] => false
  | fuel + 1, b :: r =>
    if isDigit b then
      let (v, r') := digitRun 0 (b :: r)
      if 10000 ≤ v ∧ v ≤ maxCap then true else tooBig fuel r'
    else tooBig fuel r

/-- the resource rule, part 2: more than 1000 opening parentheses / brackets -/
def tooDeep (bs : Bytes) : Bool := (bs.filter fun b => b == 40 || b == 91).length > 1000

def showLit : Lit → String
  | .const false => "F"
  | .const true => "T"
  | .input neg i => (if neg then "!" else "") ++ "i" ++ toString i
  | .gate neg g => (if neg then "!" else "") ++ "g" ++ toString g

def showLits (ls : List Lit) : String := ",".intercalate (ls.map showLit)

mutual
def showTree : Tree → String
  | .leaf n => toString n
  | .inner cs => "[" ++ showTrees cs ++ "]"
def showTrees : List Tree → String
  | [] => ""
  | [t] => showTree t
  | t :: ts => showTree t ++ "," ++ showTrees ts
end

def showKind : Kind → String
  | .and => "a"
  | .or => "o"
  | .xor => "x"

def showProblem (p : Problem') : String :=
  let v := p.vars
  let ord := if v.len ≠ v.order.length then "-" else "[" ++ ",".intercalate (v.order.map toString) ++ "]"
  let tree := match v.orderTree with
    | none => "-"
    | some t => showTree t
  let names :=
    if v.names.isEmpty then ""
    else ",".intercalate ((List.range v.len).map fun i =>
      match v.names.getD i none with
      | none => "~"
      | some b => "x" ++ hex b)
  s!"OK n={v.len} ord={ord} tree={tree} hn={boolStr (!v.names.isEmpty)} names=[{names}] g=[" ++
    ";".intercalate (p.gates.map fun (k, ins) => showKind k ++ ":" ++ showLits ins) ++
    s!"] r={showLit p.root}"

def showPanic : PanicKind → String
  | .index => "index"
  | .unwrap => "unwrap"
  | .arith => "arith"
  | .debugAssert => "debug-assert"
  | .unreachable => "unreachable"
  | .fuel => "fuel"
  | .subClauses => "arith"
  | .validOrder => "valid-order"
  | .validTree => "valid-tree"
  | .validNames => "valid-names"

def showRes : Res Problem' → String
  | .ok p => showProblem p
  | .error .syntax => "ERR"
  | .error (.fail _) => "ERR"
  | .error (.panic k) => "PANIC " ++ showPanic k
  | .error .resource => "RESOURCE"

def optsOf : String → Option Opts
  | "0" => some ⟨false, false⟩
  | "1" => some ⟨true, false⟩
  | "2" => some ⟨false, true⟩
  | "3" => some ⟨true, true⟩
  | _ => none

def stepLine (cfg : Cfg) (skip : Bool) (line : String) : String :=
  match words line with
  | [op, o, h] =>
    if op ≠ "p" ∧ op ≠ "q" then "bad-op" else
    let skip := skip && op = "p"
    let bytes? := if h = "-" then some [] else unhex h.toList
    match bytes?, optsOf o with
    | some bytes, some opts =>
      if skip && (tooBig (bytes.length + 1) bytes || tooDeep bytes) then "SKIP"
      else showRes (parseCfg cfg opts bytes)
    | _, _ => "bad-op"
  | _ => "bad-op"

def proto : Proto :=
  { σ := Unit, init := (), step := fun s l => (s, stepLine Cfg.fixed true l) }

/-- the parser before commits 8fca6ca and 393b137 of `/repo` -/
def protoBeforeFix : Proto :=
  { σ := Unit, init := (), step := fun s l => (s, stepLine Cfg.beforeFix true l) }

/-- with the proposed repair of KF-parser-co-zero-clauses (to be run against a parser that has it) -/
def protoProposed : Proto :=
  { σ := Unit, init := (), step := fun s l => (s, stepLine Cfg.proposed true l) }

/-- without the resource rule (for `run --no-skip 1`, used to confirm findings by hand) -/
def protoNoSkip : Proto :=
  { σ := Unit, init := (), step := fun s l => (s, stepLine Cfg.fixed false l) }

end OxiddModel.DimacsParse
