import OxiddModel.DimacsParse.Model
import OxiddModel.AigerParse.LemmasBasic

/-!
# The program logic for the DIMACS parser model, and the specifications of the primitives

`Sat A r Q`: if `r` is a value it satisfies `Q`; if `r` is a model panic of kind `k` then `A k`
(`A = NoPanic`: no panic at all).
-/
namespace OxiddModel.DimacsParse

open OxiddModel.Circuit
open OxiddModel.AigerParse (isDigit isSpace isAlnum u64Loop space0 maxCap u64Loop_len space0_len)

def Sat {α : Type} (A : PanicKind → Prop) (r : Res α) (Q : α → Prop) : Prop :=
  match r with
  | .ok a => Q a
  | .error d => ∀ k, d = .panic k → A k

abbrev NoPanic : PanicKind → Prop := fun _ => False

theorem Sat.ok {α : Type} {A : PanicKind → Prop} {Q : α → Prop} {a : α} (h : Q a) :
    Sat A (.ok a) Q := h

theorem Sat.syntax {α : Type} {A : PanicKind → Prop} {Q : α → Prop} :
    Sat A (.error .syntax : Res α) Q := by
  intro k hk; cases hk

theorem Sat.fail {α : Type} {A : PanicKind → Prop} {Q : α → Prop} {c : Cls} :
    Sat A (.error (.fail c) : Res α) Q := by
  intro k hk; cases hk

theorem Sat.pure {α : Type} {A : PanicKind → Prop} {Q : α → Prop} {a : α} (h : Q a) :
    Sat A (pure a : Res α) Q := h

theorem Sat.throwFail {α : Type} {A : PanicKind → Prop} {Q : α → Prop} {c : Cls} :
    Sat A (throw (.fail c) : Res α) Q := by
  intro k hk; cases hk

theorem Sat.throwSyntax {α : Type} {A : PanicKind → Prop} {Q : α → Prop} :
    Sat A (throw .syntax : Res α) Q := by
  intro k hk; cases hk

theorem Sat.bind {α β : Type} {A : PanicKind → Prop} {x : Res α} {f : α → Res β} {Q : α → Prop}
    {R : β → Prop} (hx : Sat A x Q) (hf : ∀ a, Q a → Sat A (f a) R) : Sat A (x >>= f) R := by
  cases x with
  | ok a => exact hf a hx
  | error d => exact hx

theorem Sat.resource {α : Type} {A : PanicKind → Prop} {Q : α → Prop} :
    Sat A (.error .resource : Res α) Q := by
  intro k hk; cases hk

theorem Sat.panic {α : Type} {A : PanicKind → Prop} {Q : α → Prop} {k : PanicKind} (h : A k) :
    Sat A (.error (.panic k) : Res α) Q := by
  intro k' hk; cases hk; exact h

theorem Sat.mono {α : Type} {A : PanicKind → Prop} {r : Res α} {Q Q' : α → Prop} (h : Sat A r Q)
    (hq : ∀ a, Q a → Q' a) : Sat A r Q' := by
  cases r with
  | ok a => exact hq a h
  | error d => exact h

theorem Sat.weaken {α : Type} {A A' : PanicKind → Prop} {r : Res α} {Q : α → Prop} (h : Sat A r Q)
    (hA : ∀ k, A k → A' k) : Sat A' r Q := by
  cases r with
  | ok a => exact h
  | error d => intro k hk; exact hA k (h k hk)

theorem Sat.of_ok {α : Type} {A : PanicKind → Prop} {r : Res α} {Q : α → Prop} {a : α}
    (h : Sat A r Q) (hr : r = .ok a) : Q a := by
  subst hr; exact h

/-- an error of `x` passed on unchanged -/
theorem Sat.of_error {α β : Type} {A : PanicKind → Prop} {r : Res α} {Q : α → Prop} {R : β → Prop}
    {d : Diag} (h : Sat A r Q) (hr : r = .error d) : Sat A (.error d : Res β) R := by
  subst hr; exact h

theorem Sat.no_panic {α : Type} {r : Res α} {Q : α → Prop} (h : Sat NoPanic r Q) (k : PanicKind) :
    r ≠ .error (.panic k) := by
  intro hr; subst hr; exact h k rfl

theorem Sat.cut {α : Type} {A : PanicKind → Prop} {r : Res α} {Q : α → Prop} {c : Cls}
    (h : Sat A r Q) : Sat A (cut c r) Q := by
  unfold DimacsParse.cut
  split
  · exact Sat.fail
  · exact h

/-! ## `Literal` constructors -/

theorem mkInput_sat {A : PanicKind → Prop} {neg : Bool} {v : Nat} (h : v ≤ 2 ^ 62 - 3) :
    Sat A (mkInput neg v) (fun l => l = .input neg v) := by
  unfold mkInput; rw [if_pos h]; exact rfl

theorem mkGate_sat {A : PanicKind → Prop} {neg : Bool} {g : Nat} (h : g ≤ 2 ^ 62 - 1) :
    Sat A (mkGate neg g) (fun l => l = .gate neg g) := by
  unfold mkGate; rw [if_pos h]; exact rfl

/-! ## primitives: no panic, the rest of the input is shorter -/

theorem u64_sat {A : PanicKind → Prop} (inp : Bytes) :
    Sat A (u64 inp) (fun p => p.2.length < inp.length) := by
  cases inp with
  | nil => exact Sat.syntax
  | cons b rest =>
    simp only [u64]
    split
    · split
      · rename_i r hr
        have := u64Loop_len _ _ _ hr
        show r.2.length < (b :: rest).length
        simp; omega
      · exact Sat.syntax
    · exact Sat.syntax

theorem u64_len {inp : Bytes} {p : Nat × Bytes} (h : u64 inp = .ok p) : p.2.length < inp.length :=
  (u64_sat (A := NoPanic) inp).of_ok h

theorem u64_not_panic {inp : Bytes} {k : PanicKind} : u64 inp ≠ .error (.panic k) :=
  (u64_sat (A := NoPanic) inp).no_panic k

theorem space1_sat {A : PanicKind → Prop} (inp : Bytes) :
    Sat A (space1 inp) (fun p => p.2.length < inp.length) := by
  cases inp with
  | nil => exact Sat.syntax
  | cons b rest =>
    simp only [space1]
    split
    · have := space0_len rest
      show (space0 rest).length < (b :: rest).length
      simp; omega
    · exact Sat.syntax

theorem multispace0_len (inp : Bytes) : (multispace0 inp).length ≤ inp.length := by
  induction inp with
  | nil => simp [multispace0]
  | cons b rest ih => simp only [multispace0]; split <;> simp <;> omega

theorem lineEnding_sat {A : PanicKind → Prop} (inp : Bytes) :
    Sat A (lineEnding inp) (fun p => p.2.length < inp.length) := by
  unfold lineEnding
  split
  · show _ < _; simp
  · show _ < _; simp; omega
  · exact Sat.syntax

theorem eol_sat {A : PanicKind → Prop} (inp : Bytes) :
    Sat A (eol inp) (fun p => p.2.length < inp.length) := by
  unfold eol
  exact (lineEnding_sat (space0 inp)).mono
    (fun p hp => Nat.lt_of_lt_of_le hp (space0_len inp))

theorem notLineEnding_sat {A : PanicKind → Prop} (inp : Bytes) :
    Sat A (notLineEnding inp) (fun p => p.2.length ≤ inp.length) := by
  induction inp with
  | nil => exact Sat.ok (Nat.le_refl _)
  | cons b rest ih =>
    simp only [notLineEnding]
    split
    · exact Sat.ok (Nat.le_refl _)
    · split
      · split
        · split
          · exact Sat.ok (Nat.le_refl _)
          · exact Sat.syntax
        · exact Sat.syntax
      · split
        · rename_i e he; exact ih.of_error he
        · rename_i name r he
          have := ih.of_ok he
          show r.length ≤ (b :: rest).length
          simp at this ⊢; omega

theorem skipLine_len (inp : Bytes) : (skipLine inp).length ≤ inp.length := by
  induction inp with
  | nil => simp [skipLine]
  | cons b rest ih => simp only [skipLine]; split <;> simp <;> omega

theorem not_startsWithSpace_space0 (inp : Bytes) : startsWithSpace (space0 inp) = false := by
  induction inp with
  | nil => simp [space0, startsWithSpace]
  | cons b rest ih =>
    simp only [space0]
    split
    · exact ih
    · rename_i h; simp only [startsWithSpace]; simpa using h

/-! ## `format`, `problem_line` -/

theorem formatInner_len {inp : Bytes} {f : Format} {r : Bytes} (h : formatInner inp = some (f, r)) :
    r.length < inp.length := by
  unfold formatInner at h
  split at h <;> simp at h <;> (obtain ⟨_, rfl⟩ := h; simp <;> omega)

theorem format_sat {A : PanicKind → Prop} (inp : Bytes) :
    Sat A (format inp) (fun p => p.2.length < inp.length) := by
  unfold format
  split
  · rename_i f r h
    split
    · exact Sat.ok (formatInner_len h)
    · exact Sat.syntax
  · exact Sat.syntax

theorem problemLineInner_sat {A : PanicKind → Prop} (inp : Bytes) :
    Sat A (problemLineInner inp)
      (fun p => p.1.2.1 ≤ maxCap ∧ p.1.2.2 ≤ maxCap ∧ p.2.length < inp.length) := by
  unfold problemLineInner
  split
  · rename_i r0
    apply Sat.bind (space1_sat r0)
    rintro ⟨_, r1⟩ l1
    apply Sat.bind (format_sat r1)
    rintro ⟨fmt, r2⟩ l2
    apply Sat.bind (space1_sat r2)
    rintro ⟨_, r3⟩ l3
    apply Sat.bind (u64_sat r3)
    rintro ⟨numVars, r4⟩ l4
    dsimp only at l1 l2 l3 l4 ⊢
    split
    · exact Sat.throwFail
    · rename_i hv
      split
      · apply Sat.bind (space1_sat r4)
        rintro ⟨_, r5⟩ l5
        apply Sat.bind (u64_sat r5)
        rintro ⟨numClauses, r6⟩ l6
        dsimp only at l5 l6 ⊢
        split
        · exact Sat.throwFail
        · rename_i hc
          apply Sat.bind (lineEnding_sat (space0 r6))
          rintro ⟨_, r7⟩ l7
          have := space0_len r6
          refine Sat.pure ?_
          dsimp only at l7 ⊢
          refine ⟨by omega, by omega, ?_⟩
          simp only [List.length_cons] at *; omega
      · apply Sat.bind (lineEnding_sat (space0 r4))
        rintro ⟨_, r7⟩ l7
        have := space0_len r4
        refine Sat.pure ?_
        dsimp only at l7 ⊢
        refine ⟨by omega, by simp [maxCap], ?_⟩
        simp only [List.length_cons] at *; omega
  · exact Sat.fail

theorem problemLine_sat {A : PanicKind → Prop} (inp : Bytes) :
    Sat A (problemLine inp)
      (fun p => p.1.2.1 ≤ maxCap ∧ p.1.2.2 ≤ maxCap ∧ p.2.length < inp.length) :=
  (problemLineInner_sat inp).cut

end OxiddModel.DimacsParse
