import OxiddModel.DimacsParse.LemmasPre

/-!
# `cnf::parse`: the token loop, the clause count, `retain_gates`, `make_conj_tree`
-/
namespace OxiddModel.DimacsParse

open OxiddModel.Circuit
open OxiddModel.AigerParse (isDigit isSpace isAlnum u64Loop space0 maxCap u64Loop_len space0_len)

theorem pushGate_sat {A : PanicKind → Prop} (gs : Gates) (k : Kind) :
    Sat A (pushGate gs k)
      (fun p => p.2 = gs ++ [(k, [])] ∧ p.1 = .gate false gs.length ∧ p.2.length < vecLimit) := by
  unfold pushGate
  split
  · exact Sat.resource
  · rename_i h
    have hg : gs.length ≤ 2 ^ 62 - 1 := by unfold vecLimit at h; omega
    have := mkGate_sat (A := A) (neg := false) hg
    split
    · rename_i e he; exact this.of_error he
    · rename_i l he
      have hl := this.of_ok he
      refine Sat.ok ⟨rfl, hl, ?_⟩
      simp only [List.length_append, List.length_singleton]; omega

theorem appendLast_length (ls : List Lit) : ∀ gs : Gates, (appendLast ls gs).length = gs.length
  | [] => rfl
  | [(_, _)] => rfl
  | g :: g' :: gs => by
    simp only [appendLast, List.length_cons]
    have := appendLast_length ls (g' :: gs)
    simp only [List.length_cons] at this
    omega

theorem pushInputs_sat {A : PanicKind → Prop} (gs : Gates) (ls : List Lit) (h : gs ≠ []) :
    Sat A (pushInputs gs ls) (fun r => r.length = gs.length) := by
  unfold pushInputs
  cases gs with
  | nil => exact absurd rfl h
  | cons g gs' =>
    simp only [List.isEmpty_cons, Bool.false_eq_true, if_false]
    exact Sat.ok (appendLast_length ls _)

theorem setLastKind_sat {A : PanicKind → Prop} (k : Kind) : ∀ (gs : Gates), gs ≠ [] →
    Sat A (setLastKind k gs) (fun r => r.length = gs.length)
  | [], h => absurd rfl h
  | [(_, _)], _ => Sat.ok rfl
  | g :: g' :: gs, _ => by
    simp only [setLastKind]
    have ih := setLastKind_sat (A := A) k (g' :: gs) (by simp)
    split
    · rename_i e he; exact ih.of_error he
    · rename_i r he
      have := ih.of_ok he
      refine Sat.ok ?_
      simp only [List.length_cons] at this ⊢
      omega

theorem cnfLex_len {inp : Bytes} {t : CnfTok} {r : Bytes} (h : cnfLex inp = some (t, r)) :
    r.length < inp.length := by
  unfold cnfLex at h
  have hm := multispace0_len inp
  dsimp only at h
  split at h
  · rename_i n r' hu
    cases h
    have : r.length < (multispace0 inp).length := u64_len hu
    omega
  · split at h
    all_goals first
      | (cases h; rename_i heq; rw [heq] at hm; simp only [List.length_cons] at hm; omega)
      | cases h

theorem cnfLoop_sat (numVars : Nat) (hnv : numVars ≤ maxCap) : ∀ (fuel : Nat) (gates : Gates)
    (neg : Bool) (inp : Bytes), inp.length + 1 ≤ fuel → gates ≠ [] →
    Sat NoPanic (cnfLoop numVars fuel gates neg inp) (fun p => p.1 ≠ []) := by
  intro fuel
  induction fuel with
  | zero => intro g n inp h; omega
  | succ fuel ih =>
    intro gates neg inp hf hne
    simp only [cnfLoop]
    split
    · exact Sat.ok hne
    · rename_i n r hl
      have := cnfLex_len hl
      split
      · have hp := pushGate_sat (A := NoPanic) gates .or
        split
        · rename_i e he; exact hp.of_error he
        · rename_i l gates' he
          obtain ⟨hg, _, _⟩ := hp.of_ok he
          dsimp only at hg
          exact ih gates' neg r (by omega) (by rw [hg]; simp)
      · rename_i hn0
        split
        · exact Sat.fail
        · rename_i hle
          have hin := mkInput_sat (A := NoPanic) (neg := neg) (v := n - 1)
            (by unfold maxCap at hnv; omega)
          split
          · rename_i e he; exact hin.of_error he
          · rename_i l he
            have hpi := pushInputs_sat (A := NoPanic) gates [l] hne
            split
            · rename_i e he2; exact hpi.of_error he2
            · rename_i gates' he2
              have hlen := hpi.of_ok he2
              refine ih gates' false r (by omega) ?_
              intro hc; rw [hc] at hlen
              exact hne (List.length_eq_zero_iff.1 hlen.symm)
    · rename_i r hl
      have := cnfLex_len hl
      split
      · exact ih gates true r (by omega) hne
      · exact Sat.fail
    · rename_i r hl
      have := cnfLex_len hl
      split
      · rename_i gate hg
        split
        · exact Sat.fail
        · have hs := setLastKind_sat (A := NoPanic) .xor gates hne
          split
          · rename_i e he; exact hs.of_error he
          · rename_i gates' he
            have hlen := hs.of_ok he
            refine ih gates' neg r (by omega) ?_
            intro hc; rw [hc] at hlen
            exact hne (List.length_eq_zero_iff.1 hlen.symm)
      · exact ih gates neg r (by omega) hne

theorem cnfPop_sat (gates : Gates) (numClauses : Nat) :
    Sat NoPanic (cnfPop gates numClauses) (fun r => r.length = numClauses) := by
  unfold cnfPop
  split
  · split
    · rename_i hlen
      split
      · rename_i hnone
        rw [List.getLast?_eq_none_iff] at hnone
        subst hnone; simp at hlen
      · split
        · refine Sat.ok ?_
          simp only [List.length_dropLast]; omega
        · exact Sat.fail
    · exact Sat.fail
  · rename_i h
    exact Sat.ok (by simpa using h)

theorem retainLoop_sat : ∀ (gs : Gates) (isFls : Bool) (conj : List Lit) (gate : Nat)
    (kept : Gates), gate + gs.length ≤ 2 ^ 62 - 1 →
    Sat NoPanic (retainLoop gs isFls conj gate kept)
      (fun p => (isFls = true → p.1 = true) ∧
        (p.1 = false → p.2.1.length = conj.length + gs.length)) := by
  intro gs
  induction gs with
  | nil =>
    intro f c g k _
    exact Sat.ok ⟨fun h => h, fun _ => rfl⟩
  | cons g gs ih =>
    intro isFls conj gate kept hb
    obtain ⟨k, ins⟩ := g
    simp only [retainLoop]
    simp only [List.length_cons] at hb
    split
    · rename_i hf
      refine (ih isFls conj gate kept (by omega)).mono ?_
      intro p hp
      refine ⟨hp.1, fun hpf => ?_⟩
      rw [hp.1 hf] at hpf; cases hpf
    · rename_i hf
      have hff : isFls = false := by simpa using hf
      split
      · refine (ih true conj gate kept (by omega)).mono ?_
        intro p hp
        refine ⟨fun h => (by rw [hff] at h; cases h), fun hpf => ?_⟩
        rw [hp.1 rfl] at hpf; cases hpf
      · rename_i l
        refine (ih false (conj ++ [l]) gate kept (by omega)).mono ?_
        intro p hp
        refine ⟨fun h => (by rw [hff] at h; cases h), fun hpf => ?_⟩
        have := hp.2 hpf
        simp only [List.length_append, List.length_cons, List.length_nil] at this ⊢
        omega
      · have hg := mkGate_sat (A := NoPanic) (neg := false) (g := gate) (by omega)
        split
        · rename_i e he; exact hg.of_error he
        · rename_i l he
          refine (ih false (conj ++ [l]) (gate + 1) _ (by omega)).mono ?_
          intro p hp
          refine ⟨fun h => (by rw [hff] at h; cases h), fun hpf => ?_⟩
          have := hp.2 hpf
          simp only [List.length_append, List.length_cons, List.length_nil] at this ⊢
          omega

mutual
theorem mkConj_sat (conj : List Lit) : ∀ (t : Tree) (gates : Gates) (stack : List Lit),
    (∀ x ∈ t.flatten, x < conj.length) →
    Sat NoPanic (mkConj conj t gates stack) (fun p => p.2.2 = stack)
  | .leaf i, gates, stack, h => by
    simp only [mkConj]
    split
    · rename_i hnone
      rw [List.getElem?_eq_none_iff] at hnone
      have := h i (by simp [Tree.flatten])
      omega
    · exact Sat.ok rfl
  | .inner cs, gates, stack, h => by
    simp only [mkConj]
    have hl := mkConjList_sat conj cs gates stack (by simpa [Tree.flatten] using h)
    split
    · rename_i e he; exact hl.of_error he
    · rename_i gates1 stack1 he
      obtain ⟨ws, hws⟩ := hl.of_ok he
      dsimp only at hws
      have hp := pushGate_sat (A := NoPanic) gates1 .and
      split
      · rename_i e he2; exact hp.of_error he2
      · rename_i root gates2 he2
        obtain ⟨hg2, _, _⟩ := hp.of_ok he2
        dsimp only at hg2
        split
        · have hpi := pushInputs_sat (A := NoPanic) gates2 (stack1.drop stack.length)
            (by rw [hg2]; simp)
          split
          · rename_i e he3; exact hpi.of_error he3
          · refine Sat.ok ?_
            show List.take stack.length stack1 = stack
            rw [hws]; exact List.take_left' rfl
        · rename_i hnot
          rw [hws, List.length_append] at hnot; omega
theorem mkConjList_sat (conj : List Lit) : ∀ (cs : List Tree) (gates : Gates) (stack : List Lit),
    (∀ x ∈ Tree.flattenList cs, x < conj.length) →
    Sat NoPanic (mkConjList conj cs gates stack) (fun p => ∃ ws, p.2 = stack ++ ws)
  | [], gates, stack, _ => Sat.ok ⟨[], by simp⟩
  | c :: cs, gates, stack, h => by
    simp only [mkConjList]
    have h1 := mkConj_sat conj c gates stack
      (fun x hx => h x (by simp [Tree.flattenList, hx]))
    split
    · rename_i e he; exact h1.of_error he
    · rename_i l gates' stack' he
      have hs : stack' = stack := h1.of_ok he
      subst hs
      refine (mkConjList_sat conj cs gates' (stack' ++ [l])
        (fun x hx => h x (by simp [Tree.flattenList, hx]))).mono ?_
      rintro p ⟨ws, hws⟩
      exact ⟨l :: ws, by rw [hws]; simp⟩
end

theorem cnfRoot_sat (vars : VarSet) (ct : Option Tree) (gates : Gates)
    (hlen : gates.length < vecLimit)
    (hct : ∀ t, ct = some t → ∀ x ∈ t.flatten, x < gates.length) :
    Sat NoPanic (cnfRoot vars ct gates) (fun p => p.vars = vars) := by
  unfold cnfRoot
  split
  · exact Sat.ok rfl
  · have hr := retainLoop_sat gates false [] 0 [] (by unfold vecLimit at hlen; omega)
    split
    · rename_i e he; exact hr.of_error he
    · rename_i isFls conj kept he
      have hpost := hr.of_ok he
      dsimp only at hpost
      split
      · exact Sat.ok rfl
      · rename_i hf
        have hcl : conj.length = gates.length := by
          have := hpost.2 (by simpa using hf)
          simpa using this
        split
        · rename_i t
          have hm := mkConj_sat conj t kept [] (fun x hx => hcl ▸ hct t rfl x hx)
          split
          · rename_i e he2; exact hm.of_error he2
          · exact Sat.ok rfl
        · have hp := pushGate_sat (A := NoPanic) kept .and
          split
          · rename_i e he2; exact hp.of_error he2
          · rename_i root gates1 he2
            obtain ⟨hg1, _, _⟩ := hp.of_ok he2
            dsimp only at hg1
            have hpi := pushInputs_sat (A := NoPanic) gates1 conj (by rw [hg1]; simp)
            split
            · rename_i e he3; exact hpi.of_error he3
            · exact Sat.ok rfl

theorem cnfLoop_len (numVars : Nat) : ∀ (fuel : Nat) (gates : Gates) (neg : Bool) (inp : Bytes)
    (p : Gates × Bytes), cnfLoop numVars fuel gates neg inp = .ok p →
    gates.length < vecLimit → p.1.length < vecLimit := by
  intro fuel
  induction fuel with
  | zero => intro g n inp p h; simp [cnfLoop] at h
  | succ fuel ih =>
    intro gates neg inp p h hl
    simp only [cnfLoop] at h
    split at h
    · cases h; exact hl
    · split at h
      · have hp := pushGate_sat (A := NoPanic) gates .or
        split at h
        · cases h
        · rename_i l gates' he
          exact ih _ _ _ _ h (hp.of_ok he).2.2
      · split at h
        · cases h
        · split at h
          · cases h
          · split at h
            · cases h
            · rename_i gates' he2
              by_cases hne : gates = []
              · subst hne; simp [pushInputs] at he2
              · have := (pushInputs_sat (A := NoPanic) gates _ hne).of_ok he2
                exact ih _ _ _ _ h (by omega)
    · split at h
      · exact ih _ _ _ _ h hl
      · cases h
    · split at h
      · split at h
        · cases h
        · split at h
          · cases h
          · rename_i gates' he
            by_cases hne : gates = []
            · subst hne; simp [setLastKind] at he
            · have := (setLastKind_sat (A := NoPanic) .xor gates hne).of_ok he
              exact ih _ _ _ _ h (by omega)
      · exact ih _ _ _ _ h hl

theorem cnfParse_sat (pre : Preamble) (inp : Bytes) (hpre : PreOut pre) :
    Sat NoPanic (cnfParse pre inp) (fun p => p.vars = pre.vars) := by
  unfold cnfParse
  have hp := pushGate_sat (A := NoPanic) [] .or
  split
  · rename_i e he; exact hp.of_error he
  · rename_i l gates0 he
    obtain ⟨hg0, _, hl0⟩ := hp.of_ok he
    dsimp only at hg0 hl0
    have hloop := cnfLoop_sat pre.vars.len hpre.len (inp.length + 1) gates0 false inp
      (Nat.le_refl _) (by rw [hg0]; simp)
    split
    · rename_i e he2; exact hloop.of_error he2
    · rename_i gates rest he2
      have hlen := cnfLoop_len _ _ _ _ _ _ he2 hl0
      dsimp only at hlen
      split
      · exact Sat.syntax
      · have hpop := cnfPop_sat gates pre.numClauses
        split
        · rename_i e he3; exact hpop.of_error he3
        · rename_i gates' he3
          have hnc : gates'.length = pre.numClauses := hpop.of_ok he3
          refine cnfRoot_sat pre.vars pre.clauseTree gates' ?_ ?_
          · have := hpre.nc; unfold maxCap at this; unfold vecLimit; omega
          · intro t ht x hx
            rw [hnc]; exact hpre.ctree t ht x hx

end OxiddModel.DimacsParse
