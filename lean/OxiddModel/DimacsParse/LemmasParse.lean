import OxiddModel.DimacsParse.LemmasSat

/-!
# `parse`: which panics are reachable, and exactly when
-/
namespace OxiddModel.DimacsParse

open OxiddModel.Circuit
open OxiddModel.AigerParse (isDigit isSpace isAlnum u64Loop space0 maxCap u64Loop_len space0_len)

theorem parseCfg_sat (cfg : Cfg) (o : Opts) (inp : Bytes) :
    Sat OpenPanic (parseCfg cfg o inp) (fun _ => True) := by
  unfold parseCfg
  have hp := preamble_sat cfg o.varOrder o.clauseTree inp
  split
  · rename_i e he; exact hp.of_error he
  · rename_i pre rest he
    obtain ⟨hout, _⟩ := hp.of_ok he
    dsimp only at hout
    split
    · exact ((cnfParse_sat pre rest hout).weaken (fun k hk => hk.elim)).mono (fun _ _ => trivial)
    · exact ((satParse_sat pre.vars _ _ rest hout.len).weaken (fun k hk => hk.elim)).mono
        (fun _ _ => trivial)

theorem parseCfg_plain_sat (cfg : Cfg) (inp : Bytes) :
    Sat NoPanic (parseCfg cfg ⟨false, false⟩ inp) (fun _ => True) := by
  unfold parseCfg
  have hp := preamble_plain_sat cfg inp
  have hp2 := preamble_sat cfg false false inp
  dsimp only
  split
  · rename_i e he; exact hp.of_error he
  · rename_i pre rest he
    obtain ⟨hout, _⟩ := hp2.of_ok he
    dsimp only at hout
    split
    · exact (cnfParse_sat pre rest hout).mono (fun _ _ => trivial)
    · exact (satParse_sat pre.vars _ _ rest hout.len).mono (fun _ _ => trivial)

/-- without `ParseOptions::clause_tree` no clause tree is recorded -/
theorem preLoop_noClauseTree (cfg : Cfg) : ∀ (fuel : Nat) (st : PreSt) (inp : Bytes)
    (p : PreSt × Bytes),
    preLoop cfg false fuel st inp = .ok p → st.clauseTree = none → p.1.clauseTree = none := by
  intro fuel
  induction fuel with
  | zero => intro st inp p h; simp [preLoop] at h
  | succ fuel ih =>
    intro st inp p h hn
    simp only [preLoop] at h
    split at h
    · cases h; exact hn
    · split at h
      · simp only [Bool.false_eq_true, if_false] at h
        exact ih _ _ _ h hn
      · split at h
        · split at h
          · cases h
          · split at h
            · cases h
            · split at h
              · cases h
              · exact ih _ _ _ h hn
        · split at h
          · split at h
            · cases h
            · rename_i st' hs
              refine ih _ _ _ h ?_
              -- `preRecord` does not touch the clause tree
              unfold preRecord at hs
              split at hs
              · cases hs
              · split at hs
                · cases hs
                · split at hs
                  · cases hs
                  · split at hs
                    · cases hs
                    · unfold recordStore at hs
                      split at hs
                      · cases hs; exact hn
                      · cases hs
          · cases h

/-- where a panic of `parse` comes from: one of the options is set, the loop over the order lines
ends normally, and what follows it (`preFinish`) panics -/
theorem parseCfg_panic_iff (cfg : Cfg) (o : Opts) (inp : Bytes) (k : PanicKind) :
    parseCfg cfg o inp = .error (.panic k) ↔
      (o.varOrder || o.clauseTree) = true ∧
      ∃ st r, preLoop cfg o.clauseTree (inp.length + 1) {} inp = .ok (st, r) ∧
        preFinish cfg st r = .error (.panic k) := by
  constructor
  · intro h
    unfold parseCfg at h
    have hp := preamble_sat cfg o.varOrder o.clauseTree inp
    split at h
    · rename_i e he
      cases h
      unfold preamble at he
      split at he
      · rename_i hopt
        refine ⟨hopt, ?_⟩
        have hl := preLoop_sat cfg o.clauseTree (inp.length + 1) {} inp PreInv.init (Nat.le_refl _)
        split at he
        · rename_i e' he'
          cases he
          exact absurd he' (hl.no_panic k)
        · rename_i st r he'
          exact ⟨st, r, he', he⟩
      · have hc := comments_sat (inp.length + 1) inp (Nat.le_refl _)
        split at he
        · rename_i e' he'
          cases he
          exact absurd he' (hc.no_panic k)
        · rename_i r he'
          have hpl := problemLine_sat (A := NoPanic) r
          split at he
          · rename_i e' he2
            cases he
            exact absurd he2 (hpl.no_panic k)
          · cases he
    · rename_i pre rest he
      obtain ⟨hout, _⟩ := hp.of_ok he
      dsimp only at hout
      split at h
      · exact absurd h ((cnfParse_sat pre rest hout).no_panic k)
      · exact absurd h ((satParse_sat pre.vars _ _ rest hout.len).no_panic k)
  · rintro ⟨hopt, st, r, hl, hf⟩
    unfold parseCfg preamble
    rw [if_pos hopt]
    simp only [hl, hf]

theorem preChkVars_not_panic (st : PreSt) (nv : Nat) (k : PanicKind) :
    preChkVars st nv ≠ .error (.panic k) := by
  unfold preChkVars
  intro h
  split at h
  · split at h <;> cases h
  · split at h
    · cases h
    · split at h <;> cases h

theorem preChkClauses_panic_iff (cfg : Cfg) (st : PreSt) (hmc : st.maxClause ≤ maxCap)
    (fmt : Format) (nc : Nat) (k : PanicKind) :
    preChkClauses cfg st fmt nc = .error (.panic k) ↔
      k = .subClauses ∧ cfg.clauseCount = false ∧ st.clauseTree.isSome = true ∧ fmt = .cnf ∧
        nc = 0 := by
  unfold preChkClauses
  constructor
  · intro h
    split at h
    · rename_i hs
      split at h
      · cases h
      · rename_i hf
        split at h
        · split at h
          · rename_i hov
            unfold maxCap at hmc; omega
          · split at h <;> cases h
        · rename_i hcc
          split at h
          · rename_i hz
            cases h
            exact ⟨rfl, by simpa using hcc, hs, by simpa using hf, hz⟩
          · split at h <;> cases h
    · cases h
  · rintro ⟨rfl, hcc, hs, rfl, rfl⟩
    simp [hs, hcc]

theorem checkValid_panic_iff (v : VarSet) (h : v.order = [] ∨ v.order.length = v.len)
    (k : PanicKind) :
    checkValid v = .error (.panic k) ↔
      (k = .validTree ∧ v.order = [] ∧ v.orderTree.isSome = true) ∨
      (k = .validNames ∧ (v.order ≠ [] ∨ v.orderTree = none) ∧ v.names.getLast? = some none) := by
  have h1 : (!(v.order.isEmpty || v.order.length == v.len)) = false := by
    cases h with
    | inl h => simp [h]
    | inr h => simp [h]
  unfold checkValid
  rw [h1]
  simp only [Bool.false_eq_true, if_false]
  constructor
  · intro hc
    split at hc
    · rename_i h2
      cases hc
      left
      refine ⟨rfl, ?_, ?_⟩
      · cases ho : v.order with
        | nil => rfl
        | cons a as => simp [ho] at h2
      · cases ht : v.orderTree with
        | none => simp [ht] at h2
        | some t => rfl
    · rename_i h2
      split at hc
      · rename_i h3
        cases hc
        right
        refine ⟨rfl, ?_, ?_⟩
        · cases ho : v.order with
          | nil =>
            right
            simpa [ho] using h2
          | cons a as => left; simp
        · simpa using h3
      · cases hc
  · intro hc
    cases hc with
    | inl hc =>
      obtain ⟨rfl, ho, ht⟩ := hc
      have : v.orderTree.isNone = false := by
        cases h' : v.orderTree with
        | none => rw [h'] at ht; cases ht
        | some t => rfl
      simp [ho, this]
    | inr hc =>
      obtain ⟨rfl, ho, hn⟩ := hc
      have h2 : (!(!v.order.isEmpty || v.orderTree.isNone)) = false := by
        cases ho with
        | inl ho =>
          cases h' : v.order with
          | nil => exact absurd h' ho
          | cons a as => simp
        | inr ho => simp [ho]
      rw [h2]
      simp [hn]

/-- `preFinish` panics exactly when the order lines are complete, the problem line is well
formed, the variable counts fit, and then either the clause count check subtracts from zero
or `check_valid` fails -/
theorem preFinish_panic_iff (cfg : Cfg) (st : PreSt) (inp : Bytes) (k : PanicKind) :
    preFinish cfg st inp = .error (.panic k) ↔
      (st.orderTree.isNone && st.names.length != st.order.length) = false ∧
      ∃ fmt nv nc next, problemLine inp = .ok ((fmt, nv, nc), next) ∧ preChkVars st nv = .ok () ∧
        (preChkClauses cfg st fmt nc = .error (.panic k) ∨
          (preChkClauses cfg st fmt nc = .ok () ∧
            checkValid ⟨nv, st.order, st.orderTree, cleanupNames cfg st.names⟩ = .error (.panic k))) := by
  constructor
  · intro h
    unfold preFinish at h
    split at h
    · cases h
    · rename_i h0
      refine ⟨by simpa using h0, ?_⟩
      have hpl := problemLine_sat (A := NoPanic) inp
      split at h
      · rename_i e he
        cases h
        exact absurd he (hpl.no_panic k)
      · rename_i fmt nv nc next he
        refine ⟨fmt, nv, nc, next, he, ?_⟩
        split at h
        · rename_i e he1
          cases h
          exact absurd he1 (preChkVars_not_panic st nv k)
        · rename_i u he1
          cases u
          refine ⟨he1, ?_⟩
          split at h
          · rename_i e he2
            cases h
            exact .inl he2
          · rename_i u2 he2
            cases u2
            refine .inr ⟨he2, ?_⟩
            dsimp only at h
            split at h
            · rename_i e he3
              cases h
              exact he3
            · cases h
  · rintro ⟨h0, fmt, nv, nc, next, hpl, hv, hc⟩
    unfold preFinish
    rw [h0]
    simp only [Bool.false_eq_true, if_false, hpl, hv]
    cases hc with
    | inl hc => simp only [hc]
    | inr hc => simp only [hc.1, hc.2]

/-- distinct numbers below `n` are at most `n` many -/
theorem nodup_lt_length_le : ∀ (n : Nat) (L : List Nat), L.Nodup → (∀ x ∈ L, x < n) →
    L.length ≤ n := by
  intro n
  induction n with
  | zero =>
    intro L _ hlt
    cases L with
    | nil => exact Nat.le_refl _
    | cons x xs => exact absurd (hlt x List.mem_cons_self) (Nat.not_lt_zero _)
  | succ n ih =>
    intro L hnd hlt
    by_cases hn : n ∈ L
    · have h1 := ih (L.erase n) (hnd.erase n) (fun x hx => by
        have := (hnd.mem_erase_iff).1 hx
        have := hlt x this.2
        omega)
      have h2 := List.length_erase_of_mem hn
      omega
    · have := ih L hnd (fun x hx => by
        have := hlt x hx
        have : x ≠ n := fun h => hn (h ▸ hx)
        omega)
      omega

/-- `n` distinct numbers below `n` cover `0 .. n-1` -/
theorem nodup_full_cover {L : List Nat} (hnd : L.Nodup) (hlt : ∀ x ∈ L, x < L.length) (i : Nat)
    (hi : i < L.length) : i ∈ L := by
  by_cases h : i ∈ L
  · exact h
  · exfalso
    have hnd' : (i :: L).Nodup := List.nodup_cons.2 ⟨h, hnd⟩
    have := nodup_lt_length_le L.length (i :: L) hnd' (fun x hx => by
      cases hx with
      | head => exact hi
      | tail _ hx => exact hlt x hx)
    simp only [List.length_cons] at this
    omega

/-- the last entry of the cleaned name table is an entry of the table that is not the marker -/
theorem cleanupNames_getLast {cfg : Cfg} {ns : List (Option Bytes)}
    (h : (cleanupNames cfg ns).getLast? = some none) : cfg.namesCleanup = false ∧ none ∈ ns := by
  unfold cleanupNames at h
  rw [List.getLast?_map, List.getLast?_reverse] at h
  have hnot := List.head?_dropWhile_not
    (fun x : Option Bytes => x == some [] || (cfg.namesCleanup && x == none)) ns.reverse
  cases hh : (List.dropWhile
      (fun x : Option Bytes => x == some [] || (cfg.namesCleanup && x == none)) ns.reverse).head? with
  | none => rw [hh] at h; cases h
  | some x =>
    rw [hh] at h hnot
    have hx : x ∈ ns := by
      have := List.mem_of_mem_head? (show x ∈ (List.dropWhile _ ns.reverse).head? from hh)
      exact List.mem_reverse.1 ((List.dropWhile_sublist _).subset this)
    simp only [Option.map_some, Option.some.injEq] at h
    cases x with
    | none =>
      refine ⟨?_, hx⟩
      cases hc : cfg.namesCleanup with
      | false => rfl
      | true => simp [hc] at hnot
    | some b =>
      cases b with
      | nil => simp at hnot
      | cons c cs => simp at h

/-- without an order tree the name table has no holes, so the third assertion of `check_valid`
cannot fail -/
theorem notree_names_complete {st : PreSt} (hinv : PreInv st) (hnone : st.orderTree = none)
    (hlen : st.names.length = st.order.length) : none ∉ st.names := by
  obtain ⟨hnd, hall⟩ := hinv.notree hnone
  have hlt : ∀ x ∈ st.order, x < st.order.length := by
    intro x hx
    obtain ⟨e, he⟩ := hall x hx
    rw [← hlen]
    by_cases hx' : x < st.names.length
    · exact hx'
    · rw [List.getElem?_eq_none (by omega)] at he; cases he
  intro hmem
  obtain ⟨i, hi⟩ := List.mem_iff_getElem?.1 hmem
  have hil : i < st.names.length := by
    by_cases h : i < st.names.length
    · exact h
    · rw [List.getElem?_eq_none (by omega)] at hi; cases hi
  obtain ⟨e, he⟩ := hall i (nodup_full_cover hnd hlt i (hlen ▸ hil))
  rw [hi] at he; cases he

/-- with commit 393b137 every recorded variable order tree has a leaf -/
theorem preLoop_treeNonEmpty (cfg : Cfg) (hc : cfg.treeNonEmpty = true) (pct : Bool) :
    ∀ (fuel : Nat) (st : PreSt) (inp : Bytes) (p : PreSt × Bytes),
    preLoop cfg pct fuel st inp = .ok p → (∀ t, st.orderTree = some t → t.flatten ≠ []) →
    ∀ t, p.1.orderTree = some t → t.flatten ≠ [] := by
  intro fuel
  induction fuel with
  | zero => intro st inp p h; simp [preLoop] at h
  | succ fuel ih =>
    intro st inp p h hn
    simp only [preLoop] at h
    split at h
    · cases h; exact hn
    · split at h
      · split at h
        · split at h
          · cases h
          · split at h
            · cases h
            · split at h
              · cases h
              · exact ih _ _ _ h hn
        · exact ih _ _ _ h hn
      · split at h
        · rename_i next2 _
          split at h
          · cases h
          · have ht := tree_sat cfg true true next2
            split at h
            · cases h
            · rename_i t mv r he
              obtain ⟨_, _, _, hperm⟩ := ht.of_ok he
              split at h
              · cases h
              · refine ih _ _ _ h ?_
                intro t' ht'
                cases ht'
                exact (hperm rfl).2.2.2 hc
        · split at h
          · split at h
            · cases h
            · rename_i st' hs
              refine ih _ _ _ h ?_
              -- `preRecord` does not touch the order tree
              unfold preRecord at hs
              split at hs
              · cases hs
              · split at hs
                · cases hs
                · split at hs
                  · cases hs
                  · split at hs
                    · cases hs
                    · unfold recordStore at hs
                      split at hs
                      · cases hs; exact hn
                      · cases hs
          · cases h

end OxiddModel.DimacsParse
