import OxiddModel.DimacsParse.LemmasTree

/-!
# `preamble`: the loop over the order lines, what follows it, the plain comment mode
-/
namespace OxiddModel.DimacsParse

open OxiddModel.Circuit
open OxiddModel.AigerParse (isDigit isSpace isAlnum u64Loop space0 maxCap u64Loop_len space0_len)

/-- the panics that are reachable in the code as it is (open findings) -/
def OpenPanic (k : PanicKind) : Prop := k = .subClauses ∨ k = .validTree ∨ k = .validNames

structure PreInv (st : PreSt) : Prop where
  tree : ∀ t, st.orderTree = some t → st.order = t.flatten ∧ t.flatten.Nodup ∧
    (∀ x ∈ t.flatten, x < t.flatten.length) ∧ (t.flatten ≠ [] → st.treeMaxVar + 1 = t.flatten.length)
  notree : st.orderTree = none → st.order.Nodup ∧ ∀ x ∈ st.order, ∃ e, st.names[x]? = some (some e)
  ctree : ∀ t, st.clauseTree = some t → ∀ x ∈ t.flatten, x ≤ st.maxClause
  mc : st.maxClause ≤ maxCap

theorem PreInv.init : PreInv {} := by
  refine ⟨?_, ?_, ?_, Nat.zero_le _⟩
  · intro t h; cases h
  · intro _; exact ⟨List.nodup_nil, fun x hx => by cases hx⟩
  · intro t h; cases h

theorem cSpace_len {inp next : Bytes} (h : cSpace inp = some next) :
    next.length + 2 ≤ inp.length ∧ ∃ r, inp = 99 :: r := by
  unfold cSpace at h
  split at h
  · rename_i b rest
    split at h
    · cases h
      have := space0_len rest
      exact ⟨by simp; omega, _, rfl⟩
    · cases h
  · cases h

theorem tag2Space_len {a b : Nat} {inp next : Bytes} (h : tag2Space a b inp = some next) :
    next.length < inp.length := by
  unfold tag2Space at h
  split at h
  · rename_i x y s rest
    split at h
    · cases h
      have := space0_len rest
      simp; omega
    · cases h
  · cases h

theorem skipLine_lt {r : Bytes} : (skipLine (99 :: r)).length < (99 :: r).length := by
  have := skipLine_len r
  simp [skipLine]; omega

theorem varOrderRecord_sat {A : PanicKind → Prop} (inp : Bytes) :
    Sat A (varOrderRecord inp) (fun p => p.2.length < inp.length) := by
  unfold varOrderRecord
  apply Sat.bind (u64_sat inp)
  rintro ⟨var, r0⟩ l0
  apply Sat.bind (notLineEnding_sat r0)
  rintro ⟨name, r1⟩ l1
  apply Sat.bind (lineEnding_sat r1)
  rintro ⟨_, r2⟩ l2
  dsimp only at l0 l1 l2 ⊢
  split
  · exact Sat.pure (by show r2.length < _; omega)
  · split
    · exact Sat.pure (by show r2.length < _; omega)
    · exact Sat.throwSyntax

theorem recordNames_sat (names : List (Option Bytes)) (numVars : Nat) (h0 : numVars ≠ 0) :
    Sat NoPanic (recordNames names numVars) (fun ns =>
      numVars - 1 < ns.length ∧
      (∀ (x : Nat) (e : Bytes), names[x]? = some (some e) → ns[x]? = some (some e)) ∧
      (∀ e : Bytes, names[numVars - 1]? ≠ some (some e))) := by
  unfold recordNames
  split
  · rename_i hgt
    refine Sat.ok ⟨by simp; omega, ?_, ?_⟩
    · intro x e he
      have hx : x < names.length := by
        by_cases hx : x < names.length
        · exact hx
        · rw [List.getElem?_eq_none (by omega)] at he; cases he
      rw [List.getElem?_append_left hx]; exact he
    · intro e he
      rw [List.getElem?_eq_none (by omega)] at he; cases he
  · rename_i hle
    split
    · rename_i hnone
      rw [List.getElem?_eq_none_iff] at hnone
      omega
    · rename_i e he
      split
      · exact Sat.fail
      · rename_i hsome
        refine Sat.ok ⟨by omega, fun x e h => h, ?_⟩
        intro e' he'
        rw [he] at he'
        cases he'
        simp at hsome

theorem recordEntry_sat (nameSet : List Bytes) (name : Option Bytes) :
    Sat NoPanic (recordEntry nameSet name) (fun _ => True) := by
  unfold recordEntry
  split
  · split
    · exact Sat.fail
    · split
      · exact Sat.fail
      · exact Sat.ok trivial
  · exact Sat.ok trivial

theorem preRecord_sat (st : PreSt) (var : Nat) (name : Option Bytes) (hinv : PreInv st) :
    Sat NoPanic (preRecord st var name) PreInv := by
  unfold preRecord
  split
  · exact Sat.fail
  · rename_i hv0
    split
    · exact Sat.fail
    · have hn := recordNames_sat st.names var hv0
      split
      · rename_i e he; exact hn.of_error he
      · rename_i names he
        obtain ⟨hlt, hkeep, hnew⟩ := hn.of_ok he
        have hen := recordEntry_sat st.nameSet name
        split
        · rename_i e he2; exact hen.of_error he2
        · rename_i en _
          unfold recordStore
          rw [if_pos hlt]
          refine Sat.ok ⟨?_, ?_, hinv.ctree, hinv.mc⟩
          · intro t ht
            have ht' : st.orderTree = some t := ht
            have := hinv.tree t ht'
            have hnn : st.orderTree.isNone = false := by rw [ht']; rfl
            simpa [hnn] using this
          · intro hnone
            have hnone' : st.orderTree = none := hnone
            obtain ⟨hnd, hall⟩ := hinv.notree hnone'
            have hisn : st.orderTree.isNone = true := by rw [hnone']; rfl
            simp only [hisn, if_true]
            refine ⟨?_, ?_⟩
            · rw [List.nodup_append]
              refine ⟨hnd, by simp, ?_⟩
              intro a ha b hb
              simp only [List.mem_singleton] at hb
              subst hb
              intro hab; subst hab
              obtain ⟨e, he⟩ := hall _ ha
              exact hnew e he
            · intro x hx
              simp only [List.mem_append, List.mem_singleton] at hx
              by_cases hxv : x = var - 1
              · subst hxv
                exact ⟨en.1, by simp [hlt]⟩
              · cases hx with
                | inl hx =>
                  obtain ⟨e, he⟩ := hall x hx
                  refine ⟨e, ?_⟩
                  rw [List.getElem?_set, if_neg (fun h => hxv h.symm)]
                  exact hkeep x e he
                | inr hx => exact absurd hx hxv

theorem cleanupNames_length (cfg : Cfg) (ns : List (Option Bytes)) :
    (cleanupNames cfg ns).length ≤ ns.length := by
  unfold cleanupNames
  simp only [List.length_map, List.length_reverse]
  have := (List.dropWhile_sublist
    (fun x : Option Bytes => x == some [] || (cfg.namesCleanup && x == none))
    (l := ns.reverse)).length_le
  simpa using this

/-- the invariant of an accepted preamble -/
structure PreOut (pre : Preamble) : Prop where
  len : pre.vars.len ≤ maxCap
  nc : pre.numClauses ≤ maxCap
  ctree : ∀ t, pre.clauseTree = some t → ∀ x ∈ t.flatten, x < pre.numClauses
  order : pre.vars.order = [] ∨
    (pre.vars.order.length = pre.vars.len ∧ pre.vars.order.Nodup ∧ ∀ x ∈ pre.vars.order, x < pre.vars.len)
  otree : ∀ t, pre.vars.orderTree = some t → pre.vars.order = t.flatten ∧ pre.vars.order ≠ []
  names : pre.vars.names.length ≤ pre.vars.len ∧ pre.vars.names.getLast? ≠ some none

theorem checkValid_sat (v : VarSet) (h : v.order = [] ∨ v.order.length = v.len) :
    Sat OpenPanic (checkValid v)
      (fun _ => (v.order ≠ [] ∨ v.orderTree = none) ∧ v.names.getLast? ≠ some none) := by
  unfold checkValid
  split
  · rename_i h1
    exfalso
    cases h with
    | inl h => simp [h] at h1
    | inr h => simp [h] at h1
  · split
    · exact Sat.panic (.inr (.inl rfl))
    · rename_i h2
      split
      · exact Sat.panic (.inr (.inr rfl))
      · rename_i h3
        refine Sat.ok ⟨?_, ?_⟩
        · cases ho : v.order with
          | nil =>
            right
            simp [ho] at h2
            exact h2
          | cons a as => left; simp
        · intro hc; apply h3; rw [hc]; rfl

theorem preLoop_sat (cfg : Cfg) (pct : Bool) : ∀ (fuel : Nat) (st : PreSt) (inp : Bytes), PreInv st →
    inp.length + 1 ≤ fuel →
    Sat NoPanic (preLoop cfg pct fuel st inp) (fun p => PreInv p.1 ∧ p.2.length ≤ inp.length) := by
  intro fuel
  induction fuel with
  | zero => intro st inp _ h; omega
  | succ fuel ih =>
    intro st inp hinv hf
    simp only [preLoop]
    split
    · exact Sat.ok ⟨hinv, Nat.le_refl _⟩
    · rename_i next hc
      obtain ⟨hcl, r0, hr0⟩ := cSpace_len hc
      split
      · rename_i next2 h2
        have := tag2Space_len h2
        split
        · split
          · exact Sat.fail
          · have ht := tree_sat cfg false false next2
            split
            · rename_i e he; exact ht.of_error he
            · rename_i t mc r he
              obtain ⟨hlen, hmax, hcap, _⟩ := ht.of_ok he
              dsimp only at hlen hmax hcap
              have he2 := eol_sat (A := NoPanic) r
              split
              · rename_i e he'; exact he2.of_error he'
              · rename_i u r' he'
                have hr' : r'.length < r.length := he2.of_ok he'
                refine (ih _ r' ?_ (by omega)).mono (fun p hp => ⟨hp.1, by have := hp.2; omega⟩)
                refine ⟨hinv.tree, hinv.notree, ?_, hcap⟩
                intro t' ht' x hx
                cases ht'
                show x ≤ mc
                rw [hmax]; exact le_listMax hx
        · subst hr0
          have := skipLine_lt (r := r0)
          exact (ih st _ hinv (by omega)).mono (fun p hp => ⟨hp.1, by have := hp.2; omega⟩)
      · split
        · rename_i next2 h2
          have := tag2Space_len h2
          split
          · exact Sat.fail
          · have ht := tree_sat cfg true true next2
            split
            · rename_i e he; exact ht.of_error he
            · rename_i t mv r he
              obtain ⟨hlen, hmax, _, hperm⟩ := ht.of_ok he
              dsimp only at hlen hmax hperm
              have he2 := eol_sat (A := NoPanic) r
              split
              · rename_i e he'; exact he2.of_error he'
              · rename_i u r' he'
                have hr' : r'.length < r.length := he2.of_ok he'
                refine (ih _ r' ?_ (by omega)).mono (fun p hp => ⟨hp.1, by have := hp.2; omega⟩)
                obtain ⟨h1, h2, h3, _⟩ := hperm rfl
                refine ⟨?_, ?_, hinv.ctree, hinv.mc⟩
                · intro t' ht'
                  cases ht'
                  exact ⟨rfl, h2, h1, h3⟩
                · intro hn; cases hn
        · have hv := varOrderRecord_sat (A := NoPanic) next
          split
          · rename_i var name r he
            have hr : r.length < next.length := hv.of_ok he
            have hrec := preRecord_sat st var name hinv
            split
            · rename_i e he'; exact hrec.of_error he'
            · rename_i st' hs
              exact (ih st' r (hrec.of_ok hs) (by omega)).mono
                (fun p hp => ⟨hp.1, by have := hp.2; omega⟩)
          · exact Sat.fail

theorem preChkVars_sat (st : PreSt) (numVars : Nat) (hinv : PreInv st)
    (h0 : ¬ (st.orderTree.isNone && st.names.length != st.order.length) = true) :
    Sat NoPanic (preChkVars st numVars) (fun _ =>
      (st.order = [] ∨ (st.order.length = numVars ∧ st.order.Nodup ∧ ∀ x ∈ st.order, x < numVars)) ∧
      st.names.length ≤ numVars) := by
  unfold preChkVars
  split
  · rename_i hn
    have hnone : st.orderTree = none := by
      cases h : st.orderTree with
      | none => rfl
      | some t => rw [h] at hn; cases hn
    obtain ⟨hnd, hall⟩ := hinv.notree hnone
    have hlen : st.names.length = st.order.length := by
      simp [hn] at h0; exact h0
    have hlt : ∀ x ∈ st.order, x < st.order.length := by
      intro x hx
      obtain ⟨e, he⟩ := hall x hx
      rw [← hlen]
      by_cases hx' : x < st.names.length
      · exact hx'
      · rw [List.getElem?_eq_none (by omega)] at he; cases he
    split
    · exact Sat.fail
    · rename_i h1
      refine Sat.ok ?_
      cases ho : st.order with
      | nil =>
        refine ⟨.inl rfl, ?_⟩
        rw [hlen, ho]; simp
      | cons a as =>
        have hne : numVars = st.order.length := by
          simp [ho] at h1; simp [ho]; exact h1
        rw [← ho]
        refine ⟨.inr ⟨hne.symm, hnd, fun x hx => hne ▸ hlt x hx⟩, by omega⟩
  · rename_i hn
    obtain ⟨t, ht⟩ : ∃ t, st.orderTree = some t := by
      cases h : st.orderTree with
      | none => rw [h] at hn; exact absurd rfl hn
      | some t => exact ⟨t, rfl⟩
    obtain ⟨hord, hnd, hlt, hmax⟩ := hinv.tree t ht
    split
    · exact Sat.fail
    · rename_i h1
      split
      · exact Sat.fail
      · rename_i h2
        refine Sat.ok ⟨?_, by omega⟩
        by_cases he : t.flatten = []
        · left; rw [hord, he]
        · right
          have := hmax he
          have hnv : numVars = st.treeMaxVar + 1 := by simpa using h1
          rw [hord]
          refine ⟨by omega, hnd, fun x hx => ?_⟩
          have := hlt x hx
          omega

theorem preChkClauses_sat (cfg : Cfg) (st : PreSt) (format : Format) (numClauses : Nat)
    (hinv : PreInv st) :
    Sat OpenPanic (preChkClauses cfg st format numClauses) (fun _ =>
      ∀ t, st.clauseTree = some t → ∀ x ∈ t.flatten, x < numClauses) := by
  unfold preChkClauses
  split
  · split
    · exact Sat.fail
    · split
      · split
        · rename_i hov
          have := hinv.mc
          unfold maxCap at this
          omega
        · split
          · exact Sat.fail
          · rename_i hm
            refine Sat.ok ?_
            intro t ht x hx
            have := hinv.ctree t ht x hx
            have hmc : st.maxClause + 1 = numClauses := by simpa using hm
            omega
      · split
        · exact Sat.panic (.inl rfl)
        · rename_i hnz
          split
          · exact Sat.fail
          · rename_i hm
            refine Sat.ok ?_
            intro t ht x hx
            have := hinv.ctree t ht x hx
            have hmc : st.maxClause = numClauses - 1 := by simpa using hm
            omega
  · rename_i hn
    refine Sat.ok ?_
    intro t ht
    rw [ht] at hn; simp at hn

theorem preFinish_sat (cfg : Cfg) (st : PreSt) (inp : Bytes) (hinv : PreInv st) :
    Sat OpenPanic (preFinish cfg st inp) (fun p => PreOut p.1 ∧ p.2.length < inp.length) := by
  unfold preFinish
  split
  · exact Sat.fail
  · rename_i h0
    have hp := problemLine_sat (A := OpenPanic) inp
    split
    · rename_i e he; exact hp.of_error he
    · rename_i format numVars numClauses next he
      obtain ⟨hnv, hnc, hlen⟩ := hp.of_ok he
      dsimp only at hnv hnc hlen
      have h1 := (preChkVars_sat st numVars hinv h0).weaken (A' := OpenPanic) (fun k hk => hk.elim)
      split
      · rename_i e he1; exact h1.of_error he1
      · rename_i u1 he1
        obtain ⟨hord, hnames⟩ := h1.of_ok he1
        have h2 := preChkClauses_sat cfg st format numClauses hinv
        split
        · rename_i e he2; exact h2.of_error he2
        · rename_i u2 he2
          have hct := h2.of_ok he2
          dsimp only
          have h3 := checkValid_sat
            { len := numVars, order := st.order, orderTree := st.orderTree,
              names := cleanupNames cfg st.names }
            (by
              cases hord with
              | inl h => exact .inl h
              | inr h => exact .inr h.1)
          split
          · rename_i e he3; exact h3.of_error he3
          · rename_i u3 he3
            obtain ⟨hvt, hvn⟩ := h3.of_ok he3
            dsimp only at hvt hvn
            refine Sat.ok ⟨⟨hnv, hnc, hct, hord, ?_, ?_, hvn⟩, hlen⟩
            · intro t ht
              have ht' : st.orderTree = some t := ht
              refine ⟨(hinv.tree t ht').1, ?_⟩
              cases hvt with
              | inl h => exact h
              | inr h => rw [ht'] at h; cases h
            · exact Nat.le_trans (cleanupNames_length _ _) hnames

theorem comments_sat : ∀ (fuel : Nat) (inp : Bytes), inp.length + 1 ≤ fuel →
    Sat NoPanic (comments fuel inp) (fun r => r.length ≤ inp.length) := by
  intro fuel
  induction fuel with
  | zero => intro inp h; omega
  | succ fuel ih =>
    intro inp hf
    simp only [comments]
    split
    · rename_i r
      have := skipLine_len r
      simp only [List.length_cons] at hf ⊢
      exact (ih (skipLine r) (by omega)).mono (fun p hp => by omega)
    · exact Sat.ok (Nat.le_refl _)

theorem preamble_sat (cfg : Cfg) (pvo pct : Bool) (inp : Bytes) :
    Sat OpenPanic (preamble cfg pvo pct inp) (fun p => PreOut p.1 ∧ p.2.length < inp.length) := by
  unfold preamble
  split
  · have hl := (preLoop_sat cfg pct (inp.length + 1) {} inp PreInv.init (Nat.le_refl _)).weaken
      (A' := OpenPanic) (fun k hk => hk.elim)
    split
    · rename_i e he; exact hl.of_error he
    · rename_i st r he
      obtain ⟨hinv, hlen⟩ := hl.of_ok he
      dsimp only at hinv hlen
      exact (preFinish_sat cfg st r hinv).mono (fun p hp => ⟨hp.1, by have := hp.2; omega⟩)
  · have hc := (comments_sat (inp.length + 1) inp (Nat.le_refl _)).weaken
      (A' := OpenPanic) (fun k hk => hk.elim)
    split
    · rename_i e he; exact hc.of_error he
    · rename_i r he
      have hlen : r.length ≤ inp.length := hc.of_ok he
      have hp := problemLine_sat (A := OpenPanic) r
      split
      · rename_i e he2; exact hp.of_error he2
      · rename_i format numVars numClauses next he2
        obtain ⟨hnv, hnc, hl2⟩ := hp.of_ok he2
        dsimp only at hnv hnc hl2
        refine Sat.ok ⟨⟨hnv, hnc, ?_, .inl rfl, ?_, ?_⟩, by show next.length < _; omega⟩
        · intro t ht; cases ht
        · intro t ht; cases ht
        · exact ⟨Nat.zero_le _, by simp⟩

/-- no panic at all when neither option is set -/
theorem preamble_plain_sat (cfg : Cfg) (inp : Bytes) :
    Sat NoPanic (preamble cfg false false inp) (fun _ => True) := by
  unfold preamble
  simp only [Bool.or_self, Bool.false_eq_true, if_false]
  have hc := comments_sat (inp.length + 1) inp (Nat.le_refl _)
  split
  · rename_i e he; exact hc.of_error he
  · rename_i r he
    have hp := problemLine_sat (A := NoPanic) r
    split
    · rename_i e he2; exact hp.of_error he2
    · exact Sat.ok trivial

end OxiddModel.DimacsParse
