import OxiddModel.DimacsParse.LemmasCnf

/-!
# `sat::parse`: `lex`, `expect`, the recursive `formula` with its operand stack
-/
namespace OxiddModel.DimacsParse

open OxiddModel.Circuit
open OxiddModel.AigerParse (isDigit isSpace isAlnum u64Loop space0 maxCap u64Loop_len space0_len)

/-- `Sat` for results with the `Rpar` pseudo error: values satisfy `Q`, ordinary errors are not
panics, `Rpar` errors satisfy `R` -/
def SatF {α : Type} (r : Except SatErr α) (Q : α → Prop) (R : Bytes → Gates → List Lit → Prop) :
    Prop :=
  match r with
  | .ok a => Q a
  | .error (.e d) => ∀ k, d ≠ .panic k
  | .error (.rpar i g s) => R i g s

theorem SatF.fail {α : Type} {Q : α → Prop} {R : Bytes → Gates → List Lit → Prop} {c : Cls} :
    SatF (.error (.e (.fail c)) : Except SatErr α) Q R := by
  intro k hk; cases hk

theorem SatF.of_res {α β : Type} {x : Res α} {P : α → Prop} {Q : β → Prop}
    {R : Bytes → Gates → List Lit → Prop} {d : Diag} (h : Sat NoPanic x P) (hx : x = .error d) :
    SatF (.error (.e d) : Except SatErr β) Q R := by
  subst hx
  intro k hk; subst hk; exact h k rfl

/-- an error of a recursive call passed on unchanged -/
theorem SatF.of_error {α β : Type} {x : Except SatErr α} {P : α → Prop} {Q : β → Prop}
    {R R' : Bytes → Gates → List Lit → Prop} {e : SatErr} (h : SatF x P R) (hx : x = .error e)
    (hR : ∀ i g s, R i g s → R' i g s) : SatF (.error e : Except SatErr β) Q R' := by
  subst hx
  cases e with
  | e d => exact h
  | rpar i g s => exact hR i g s h

theorem satLex_sat (n : Nat) (inp : Bytes) :
    Sat NoPanic (satLex n inp) (fun p => (∀ t, p.1 = some t → p.2.length < inp.length) ∧
      (∀ v, p.1 = some (.var v) → 1 ≤ v ∧ v ≤ n)) := by
  unfold satLex
  have hm := multispace0_len inp
  dsimp only
  split
  · exact Sat.ok ⟨fun t h => (by cases h), fun v h => (by cases h)⟩
  · split
    · rename_i v r hu
      have hl : r.length < (multispace0 inp).length := u64_len hu
      split
      · exact Sat.fail
      · rename_i hv
        refine Sat.ok ⟨fun t _ => (by show r.length < _; omega), fun v' h => ?_⟩
        cases h; omega
    · split
      all_goals first
        | exact Sat.syntax
        | (rename_i heq
           refine Sat.ok ⟨fun t _ => ?_, fun v h => (by cases h)⟩
           rw [heq] at hm; simp only [List.length_cons] at hm ⊢; omega)
        | (rename_i heq
           split
           · refine Sat.ok ⟨fun t _ => ?_, fun v h => (by cases h)⟩
             rw [heq] at hm; simp only [List.length_cons] at hm ⊢; omega
           · exact Sat.syntax)

theorem satExpect_sat (n : Nat) (kind : SatTok) (inp : Bytes) :
    Sat NoPanic (satExpect n kind inp) (fun r => r.length < inp.length) := by
  unfold satExpect
  have hl := satLex_sat n inp
  split
  · rename_i e he; exact hl.of_error he
  · exact Sat.fail
  · rename_i tok r he
    have := (hl.of_ok he).1 tok rfl
    split
    · exact Sat.fail
    · exact Sat.ok this

theorem formula_loop (ax ae : Bool) (n : Nat) (hn : n ≤ maxCap) : ∀ fuel : Nat,
    (∀ gates stack inp, 2 * inp.length + 1 ≤ fuel →
      SatF (formula ax ae n fuel gates stack inp)
        (fun p => p.2.2.1 = stack ∧ p.2.2.2.length < inp.length)
        (fun i _ s => s = stack ∧ i.length < inp.length)) ∧
    (∀ gates stack inp, 2 * inp.length + 2 ≤ fuel →
      SatF (satLoop ax ae n fuel gates stack inp)
        (fun p => (∃ ws, p.2.1 = stack ++ ws) ∧ p.2.2.length < inp.length)
        (fun _ _ _ => False)) := by
  intro fuel
  induction fuel with
  | zero => exact ⟨fun g s inp h => by omega, fun g s inp h => by omega⟩
  | succ fuel ih =>
    obtain ⟨ihF, ihL⟩ := ih
    constructor
    · intro gates stack inp hf
      simp only [formula]
      have hlex := satLex_sat n inp
      split
      · rename_i d hd; exact SatF.of_res hlex hd
      · exact SatF.fail
      · rename_i tok r hl
        obtain ⟨hlen, hvar⟩ := hlex.of_ok hl
        have hr : r.length < inp.length := hlen tok rfl
        dsimp only at hvar
        cases tok with
        | var v =>
          dsimp only
          have hv := hvar v rfl
          have hin := mkInput_sat (A := NoPanic) (neg := false) (v := v - 1)
            (by unfold maxCap at hn; omega)
          split
          · rename_i d hd; exact SatF.of_res hin hd
          · exact ⟨rfl, hr⟩
        | lpar =>
          dsimp only
          have hrec := ihF gates stack r (by omega)
          split
          · rename_i e he
            exact hrec.of_error he (fun i g s h => ⟨h.1, by have := h.2; omega⟩)
          · rename_i l gates' stack' r' he
            rw [he] at hrec
            obtain ⟨hs, hl'⟩ : stack' = stack ∧ r'.length < r.length := hrec
            have hex := satExpect_sat n .rpar r'
            split
            · rename_i d hd; exact SatF.of_res hex hd
            · rename_i r'' he2
              have : r''.length < r'.length := hex.of_ok he2
              exact ⟨hs, by show r''.length < _; omega⟩
        | rpar =>
          dsimp only
          exact ⟨rfl, hr⟩
        | neg =>
          dsimp only
          have hlex2 := satLex_sat n r
          split
          · rename_i d hd; exact SatF.of_res hlex2 hd
          · exact SatF.fail
          · rename_i tok2 r2 hl2
            obtain ⟨hlen2, hvar2⟩ := hlex2.of_ok hl2
            have hr2 : r2.length < r.length := hlen2 tok2 rfl
            dsimp only at hvar2
            cases tok2 with
            | var v =>
              dsimp only
              have hv := hvar2 v rfl
              have hin := mkInput_sat (A := NoPanic) (neg := true) (v := v - 1)
                (by unfold maxCap at hn; omega)
              split
              · rename_i d hd; exact SatF.of_res hin hd
              · exact ⟨rfl, by show r2.length < _; omega⟩
            | lpar =>
              dsimp only
              have hrec := ihF gates stack r2 (by omega)
              split
              · rename_i e he
                exact hrec.of_error he (fun i g s h => ⟨h.1, by have := h.2; omega⟩)
              · rename_i l gates' stack' r' he
                rw [he] at hrec
                obtain ⟨hs, hl'⟩ : stack' = stack ∧ r'.length < r2.length := hrec
                have hex := satExpect_sat n .rpar r'
                split
                · rename_i d hd; exact SatF.of_res hex hd
                · rename_i r'' he2
                  have : r''.length < r'.length := hex.of_ok he2
                  exact ⟨hs, by show r''.length < _; omega⟩
            | rpar | neg | and | or | xor | eq => exact SatF.fail
        | and | or | xor | eq =>
          dsimp only
          split
          · exact SatF.fail
          · split
            · exact SatF.fail
            · have hex := satExpect_sat n .lpar r
              split
              · rename_i d hd; exact SatF.of_res hex hd
              · rename_i r1 he1
                have hr1 : r1.length < r.length := hex.of_ok he1
                have hloop := ihL gates stack r1 (by omega)
                split
                · rename_i e he2
                  exact hloop.of_error he2 (fun i g s h => h.elim)
                · rename_i gates1 stack1 r2 he2
                  rw [he2] at hloop
                  obtain ⟨⟨ws, hws⟩, hl2⟩ :
                    (∃ ws, stack1 = stack ++ ws) ∧ r2.length < r1.length := hloop
                  have htake : List.take stack.length stack1 = stack := by
                    rw [hws]; exact List.take_left' rfl
                  split
                  · split
                    · exact ⟨htake, by show r2.length < _; omega⟩
                    · exact ⟨htake, by show r2.length < _; omega⟩
                    · have hp := fun k => pushGate_sat (A := NoPanic) gates1 k
                      split
                      · rename_i d hd; exact SatF.of_res (hp _) hd
                      · rename_i l gates2 hpg
                        obtain ⟨hg2, _, _⟩ := (hp _).of_ok hpg
                        dsimp only at hg2
                        have hpi := fun ls => pushInputs_sat (A := NoPanic) gates2 ls
                          (by rw [hg2]; simp)
                        split
                        · rename_i d hd; exact SatF.of_res (hpi _) hd
                        · exact ⟨htake, by show r2.length < _; omega⟩
                  · rename_i hnot
                    rw [hws, List.length_append] at hnot; omega
    · intro gates stack inp hf
      simp only [satLoop]
      have hrec := ihF gates stack inp (by omega)
      split
      · rename_i sub gates' stack' i he
        rw [he] at hrec
        obtain ⟨hs, hl⟩ : stack' = stack ∧ i.length < inp.length := hrec
        have hloop := ihL gates' (stack' ++ [sub]) i (by omega)
        cases hres : satLoop ax ae n fuel gates' (stack' ++ [sub]) i with
        | error e =>
          rw [hres] at hloop
          cases e with
          | e d => exact hloop
          | rpar i g s => exact hloop
        | ok p =>
          rw [hres] at hloop
          obtain ⟨⟨ws, hws⟩, hl2⟩ := hloop
          exact ⟨⟨sub :: ws, by rw [hws, hs]; simp⟩, by omega⟩
      · rename_i input gates' stack' he
        rw [he] at hrec
        obtain ⟨hs, hl⟩ : stack' = stack ∧ input.length < inp.length := hrec
        exact ⟨⟨[], by simp [hs]⟩, hl⟩
      · rename_i e hnr he
        rw [he] at hrec
        cases e with
        | e d => exact hrec
        | rpar i g s => exact absurd rfl (hnr i g s)

theorem satParse_sat (vars : VarSet) (ax ae : Bool) (inp : Bytes) (hn : vars.len ≤ maxCap) :
    Sat NoPanic (satParse vars ax ae inp) (fun p => p.vars = vars) := by
  unfold satParse
  have h := (formula_loop ax ae vars.len hn (2 * inp.length + 2)).1 [] [] inp (by omega)
  split
  · rename_i d hd
    rw [hd] at h
    intro k hk; exact h k hk
  · exact Sat.syntax
  · split
    · exact Sat.syntax
    · exact Sat.ok rfl

end OxiddModel.DimacsParse
