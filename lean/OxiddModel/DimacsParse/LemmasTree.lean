import OxiddModel.DimacsParse.LemmasBasic

/-!
# `util::tree`: no panic, enough fuel, the buffer discipline, the maximum, and the bit set

`Ins ins L`: the `FixedBitSet` `ins` is the set of the distinct numbers `L`, and its length is
the largest of them plus one. With `unique_leaves` the parser keeps this invariant for the leaves
read so far, so that at the end (no zero bit) the leaves are a permutation of `0 .. len-1`.
-/
namespace OxiddModel.DimacsParse

open OxiddModel.Circuit
open OxiddModel.AigerParse (isDigit isSpace isAlnum u64Loop space0 maxCap u64Loop_len space0_len)

def listMax : List Nat → Nat
  | [] => 0
  | x :: xs => max x (listMax xs)

theorem listMax_append (a b : List Nat) : listMax (a ++ b) = max (listMax a) (listMax b) := by
  induction a with
  | nil => simp [listMax]
  | cons x xs ih => simp only [List.cons_append, listMax, ih]; omega

theorem le_listMax {L : List Nat} {x : Nat} (h : x ∈ L) : x ≤ listMax L := by
  induction L with
  | nil => cases h
  | cons y ys ih =>
    simp only [listMax]
    cases h with
    | head => exact Nat.le_max_left _ _
    | tail _ h' => exact Nat.le_trans (ih h') (Nat.le_max_right _ _)

theorem listMax_mem {L : List Nat} (h : L ≠ []) : listMax L ∈ L := by
  induction L with
  | nil => exact absurd rfl h
  | cons y ys ih =>
    simp only [listMax]
    by_cases hy : ys = []
    · subst hy; simp [listMax]
    · have := ih hy
      by_cases hle : listMax ys ≤ y
      · rw [Nat.max_eq_left hle]; exact List.mem_cons_self
      · rw [Nat.max_eq_right (by omega)]; exact List.mem_cons_of_mem _ this

/-- pigeonhole: distinct numbers below `n` that cover `0 .. n-1` are `n` many -/
theorem nodup_cover_length : ∀ (n : Nat) (L : List Nat), L.Nodup → (∀ x ∈ L, x < n) →
    (∀ i, i < n → i ∈ L) → L.length = n := by
  intro n
  induction n with
  | zero =>
    intro L _ hlt _
    cases L with
    | nil => rfl
    | cons x xs => exact absurd (hlt x List.mem_cons_self) (Nat.not_lt_zero _)
  | succ n ih =>
    intro L hnd hlt hcov
    have hn : n ∈ L := hcov n (Nat.lt_succ_self n)
    have h1 := ih (L.erase n) (hnd.erase n)
      (fun x hx => by
        have := (hnd.mem_erase_iff).1 hx
        have := hlt x this.2
        omega)
      (fun i hi => (hnd.mem_erase_iff).2 ⟨by omega, hcov i (by omega)⟩)
    have h2 := List.length_erase_of_mem hn
    have : L.length ≠ 0 := by
      intro h0; rw [List.length_eq_zero_iff] at h0; subst h0; cases hn
    omega

structure Ins (ins : List Bool) (L : List Nat) : Prop where
  nodup : L.Nodup
  mem : ∀ i, ins.getD i false = true ↔ i ∈ L
  top : ins = [] ∨ ins.length - 1 ∈ L

theorem Ins.nil : Ins [] [] := ⟨List.nodup_nil, fun i => by simp, .inl rfl⟩

theorem getD_lt {ins : List Bool} {i : Nat} (h : ins.getD i false = true) : i < ins.length := by
  rw [List.getD_eq_getElem?_getD] at h
  by_cases hi : i < ins.length
  · exact hi
  · rw [List.getElem?_eq_none (by omega)] at h; simp at h

theorem Ins.lt {ins : List Bool} {L : List Nat} (h : Ins ins L) {x : Nat} (hx : x ∈ L) :
    x < ins.length := getD_lt ((h.mem x).2 hx)

theorem growInsert_length (ins : List Bool) (n : Nat) :
    (growInsert ins n).length = max ins.length (n + 1) := by
  unfold growInsert
  simp only [List.length_set, List.length_append, List.length_replicate]
  omega

theorem growInsert_getD (ins : List Bool) (n i : Nat) :
    (growInsert ins n).getD i false = (if i = n then true else ins.getD i false) := by
  unfold growInsert
  simp only [List.getD_eq_getElem?_getD, List.getElem?_set, List.length_append,
    List.length_replicate, List.getElem?_append, List.getElem?_replicate]
  by_cases h : i = n
  · subst h
    simp only [if_true]
    rw [if_pos (by omega)]; rfl
  · rw [if_neg (fun h' => h h'.symm), if_neg h]
    split
    · rfl
    · rename_i hlt
      rw [List.getElem?_eq_none (by omega)]
      split <;> rfl

theorem Ins.grow {ins : List Bool} {L : List Nat} (h : Ins ins L) {n : Nat}
    (hn : ¬ (n < ins.length ∧ ins.getD n false = true)) : Ins (growInsert ins n) (L ++ [n]) := by
  have hnotin : n ∉ L := fun hm => hn ⟨h.lt hm, (h.mem n).2 hm⟩
  refine ⟨?_, ?_, ?_⟩
  · rw [List.nodup_append]
    refine ⟨h.nodup, (by simp), ?_⟩
    intro a ha b hb
    simp only [List.mem_singleton] at hb
    subst hb
    intro hab; subst hab; exact hnotin ha
  · intro i
    rw [growInsert_getD]
    simp only [List.mem_append, List.mem_singleton]
    by_cases hi : i = n
    · simp [hi]
    · rw [if_neg hi, h.mem i]
      constructor
      · exact fun hm => .inl hm
      · intro hm
        cases hm with
        | inl hm => exact hm
        | inr hm => exact absurd hm hi
  · right
    rw [growInsert_length]
    simp only [List.mem_append, List.mem_singleton]
    by_cases hlt : n + 1 ≤ ins.length
    · rw [Nat.max_eq_left hlt]
      cases h.top with
      | inl he => subst he; simp at hlt
      | inr ht => exact .inl ht
    · rw [Nat.max_eq_right (by omega)]
      right; omega

/-- at the end of `tree` (no zero bit): the leaves are a permutation of `0 .. len-1`, and the
largest is `len - 1` -/
theorem Ins.full {ins : List Bool} {L : List Nat} (h : Ins ins L) (hz : ins.contains false = false) :
    L.length = ins.length ∧ (∀ x ∈ L, x < L.length) ∧ (L ≠ [] → listMax L + 1 = L.length) := by
  have hall : ∀ i, i < ins.length → i ∈ L := by
    intro i hi
    rw [← h.mem i, List.getD_eq_getElem?_getD, List.getElem?_eq_getElem hi]
    cases hb : ins[i] with
    | true => rfl
    | false =>
      have : false ∈ ins := hb ▸ List.getElem_mem hi
      have := List.contains_iff_mem.2 this
      rw [hz] at this; cases this
  have hlen := nodup_cover_length ins.length L h.nodup (fun x hx => h.lt hx) hall
  refine ⟨hlen, fun x hx => hlen ▸ h.lt hx, ?_⟩
  intro hne
  have h1 := h.lt (listMax_mem hne)
  cases h.top with
  | inl he =>
    subst he
    simp at hlen; exact absurd hlen hne
  | inr ht =>
    have := le_listMax ht
    omega

/-! ## the two mutually recursive functions -/

structure RecPost (un : Bool) (st : TreeSt) (inp : Bytes) (res : (Tree × Nat) × TreeSt × Bytes) :
    Prop where
  buf : res.2.1.buffer = st.buffer
  len : res.2.2.length < inp.length
  max : res.1.2 = listMax res.1.1.flatten
  cap : res.1.2 ≤ maxCap
  ins : un = true → ∀ L, Ins st.inserted L → Ins res.2.1.inserted (L ++ res.1.1.flatten)

structure LoopPost (un : Bool) (st : TreeSt) (inp : Bytes) (max0 : Nat)
    (res : Nat × TreeSt × Bytes) : Prop where
  len : res.2.2.length < inp.length
  subs : ∃ subs, res.2.1.buffer = st.buffer ++ subs ∧
    res.1 = max max0 (listMax (Tree.flattenList subs)) ∧ (max0 ≤ maxCap → res.1 ≤ maxCap) ∧
    (un = true → ∀ L, Ins st.inserted L → Ins res.2.1.inserted (L ++ Tree.flattenList subs))

theorem flattenList_singleton (t : Tree) : Tree.flattenList [t] = t.flatten := by
  simp [Tree.flattenList]

theorem tree_rec_loop (ob un : Bool) : ∀ fuel : Nat,
    (∀ st inp, 2 * inp.length + 1 ≤ fuel → startsWithSpace inp = false →
      Sat NoPanic (treeRec ob un fuel st inp) (RecPost un st inp)) ∧
    (∀ st inp max0, 2 * inp.length + 2 ≤ fuel →
      Sat NoPanic (treeLoop ob un fuel st inp max0) (LoopPost un st inp max0)) := by
  intro fuel
  induction fuel with
  | zero =>
    exact ⟨fun st inp h => by omega, fun st inp m h => by omega⟩
  | succ fuel ih =>
    obtain ⟨ihRec, ihLoop⟩ := ih
    constructor
    · intro st inp hf hsp
      simp only [treeRec, hsp, Bool.false_eq_true, if_false]
      split
      · -- a number
        rename_i n r hu
        have hl : r.length < inp.length := u64_len hu
        have := space0_len r
        split
        · exact Sat.fail
        · split
          · exact Sat.fail
          · rename_i hcap _
            obtain ⟨n', hn'le, hn'eq⟩ : ∃ n', n' ≤ n ∧ (if ob = true then n - 1 else n) = n' :=
              ⟨_, by split <;> omega, rfl⟩
            rw [hn'eq]
            split
            · exact Sat.fail
            · rename_i hcond
              refine Sat.ok ⟨rfl, by show (space0 r).length < _; omega, ?_, ?_, ?_⟩
              · simp [Tree.flatten, listMax]
              · show n' ≤ maxCap
                omega
              · intro hun L hL
                simp only [Tree.flatten]
                apply hL.grow
                intro ⟨h1, h2⟩
                apply hcond
                rw [hun, h2]; simp [h1]
      · -- not a number
        split
        · rename_i r _
          have := space0_len r
          have hfl : 2 * (space0 r).length + 2 ≤ fuel := by
            simp only [List.length_cons] at hf; omega
          have hloop := ihLoop st (space0 r) 0 hfl
          split
          · rename_i e he; exact hloop.of_error he
          · rename_i mx st' rest he
            obtain ⟨hlen, subs, hbuf, hmax, hcap, hins⟩ := hloop.of_ok he
            dsimp only at hlen hbuf hmax hcap hins
            have hcap' : mx ≤ maxCap := hcap (Nat.zero_le _)
            have hrest : rest.length < (91 :: r).length := by
              simp only [List.length_cons]; omega
            split
            · rename_i hone
              have hsl : subs.length = 1 := by
                rw [hbuf, List.length_append] at hone; omega
              obtain ⟨t, rfl⟩ : ∃ t, subs = [t] := by
                match subs, hsl with
                | [t], _ => exact ⟨t, rfl⟩
              rw [hbuf, List.getLast?_concat]
              refine Sat.ok ⟨by simp, hrest, ?_, hcap', ?_⟩
              · show mx = _
                rw [hmax, flattenList_singleton]; simp
              · intro hun L hL
                have := hins hun L hL
                rw [flattenList_singleton] at this
                exact this
            · split
              · refine Sat.ok ⟨?_, hrest, ?_, hcap', ?_⟩
                · show List.take st.buffer.length st'.buffer = st.buffer
                  rw [hbuf]; exact List.take_left' rfl
                · show mx = listMax (Tree.flatten (.inner (List.drop st.buffer.length st'.buffer)))
                  rw [hbuf, List.drop_left' rfl, hmax]; simp [Tree.flatten]
                · intro hun L hL
                  show Ins st'.inserted
                    (L ++ Tree.flatten (.inner (List.drop st.buffer.length st'.buffer)))
                  rw [hbuf, List.drop_left' rfl]
                  exact hins hun L hL
              · rename_i hnot
                rw [hbuf, List.length_append] at hnot; omega
        · exact Sat.fail
    · intro st inp max0 hf
      simp only [treeLoop]
      have hs0 := space0_len inp
      split
      · rename_i r hsp
        refine Sat.ok ⟨?_, [], by simp, by simp [Tree.flattenList, listMax], fun h => h, ?_⟩
        · show r.length < inp.length
          have : (space0 inp).length = r.length + 1 := by rw [hsp]; simp
          omega
        · intro _ L hL; simpa [Tree.flattenList] using hL
      · have hrec := ihRec st (space0 inp) (by omega) (not_startsWithSpace_space0 inp)
        split
        · rename_i e he; exact hrec.of_error he
        · rename_i sub subMax st' i he
          obtain ⟨hbuf, hlen, hmax, hcapsub, hins⟩ := hrec.of_ok he
          dsimp only at hbuf hlen hmax hcapsub hins
          have hs1 := space0_len i
          split
          · rename_i r hsp
            refine Sat.ok ⟨?_, [sub], by simp [hbuf], ?_, ?_, ?_⟩
            · show r.length < inp.length
              have : (space0 i).length = r.length + 1 := by rw [hsp]; simp
              omega
            · show (if subMax ≥ max0 then subMax else max0) = _
              rw [flattenList_singleton, ← hmax]
              split <;> omega
            · intro h0
              show (if subMax ≥ max0 then subMax else max0) ≤ maxCap
              split <;> omega
            · intro hun L hL
              rw [flattenList_singleton]
              exact hins hun L hL
          · rename_i r hsp
            have hr : (space0 i).length = r.length + 1 := by rw [hsp]; simp
            have hm' : (if subMax ≥ max0 then subMax else max0) = max max0 subMax := by
              split <;> omega
            rw [hm']
            have hloop := ihLoop { st' with buffer := st'.buffer ++ [sub] } r
              (max max0 subMax) (by omega)
            refine hloop.mono ?_
            rintro res ⟨hlen2, subs, hbuf2, hmax2, hcap2, hins2⟩
            dsimp only at hlen2 hbuf2 hmax2 hcap2 hins2
            refine ⟨by omega, sub :: subs, ?_, ?_, ?_, ?_⟩
            · rw [hbuf2, hbuf]; simp
            · rw [hmax2]
              simp only [Tree.flattenList, listMax_append, ← hmax]
              omega
            · intro h0
              exact hcap2 (by omega)
            · intro hun L hL
              have := hins2 hun (L ++ sub.flatten) (hins hun L hL)
              simpa [Tree.flattenList, List.append_assoc] using this
          · exact Sat.fail

structure TreePost (cfg : Cfg) (un : Bool) (inp : Bytes) (res : (Tree × Nat) × Bytes) : Prop where
  len : res.2.length < inp.length
  max : res.1.2 = listMax res.1.1.flatten
  cap : res.1.2 ≤ maxCap
  perm : un = true →
    (∀ x ∈ res.1.1.flatten, x < res.1.1.flatten.length) ∧ res.1.1.flatten.Nodup ∧
    (res.1.1.flatten ≠ [] → res.1.2 + 1 = res.1.1.flatten.length) ∧
    (cfg.treeNonEmpty = true → res.1.1.flatten ≠ [])

theorem tree_sat (cfg : Cfg) (ob un : Bool) (inp : Bytes) :
    Sat NoPanic (tree cfg ob un inp) (TreePost cfg un inp) := by
  unfold tree
  have hs := space0_len inp
  have hrec := (tree_rec_loop ob un (2 * (space0 inp).length + 2)).1 ⟨[], []⟩ (space0 inp)
    (by omega) (not_startsWithSpace_space0 inp)
  dsimp only
  split
  · rename_i e he; exact (Sat.cut hrec).of_error he
  · rename_i res st rest he
    obtain ⟨_, hlen, hmax, hcap, hins⟩ := (Sat.cut hrec).of_ok he
    dsimp only at hlen hmax hcap hins
    split
    · exact Sat.fail
    · rename_i hz
      split
      · exact Sat.fail
      · rename_i hemp
        refine Sat.ok ⟨by show rest.length < _; omega, hmax, hcap, ?_⟩
        intro hun
        have hI := hins hun [] Ins.nil
        simp only [List.nil_append] at hI
        have hfull := hI.full (by simpa using hz)
        refine ⟨hfull.2.1, hI.nodup, ?_, ?_⟩
        · intro hne
          show res.2 + 1 = _
          rw [hmax]; exact hfull.2.2 hne
        · intro hne hfl
          -- no leaf: the bit set is empty
          have hl0 : st.inserted.length = 0 := by
            rw [← hfull.1, hfl]; rfl
          have : st.inserted = [] := List.length_eq_zero_iff.1 hl0
          rw [hne, this] at hemp
          simp at hemp

end OxiddModel.DimacsParse
