import OxiddModel.DimacsParse.LemmasParse

/-!
# Well-formedness of the gates of an accepted problem

`Topo n gs`: every input of gate number `j` is a constant, a circuit input below `n`, or a gate
below `j` — in particular every literal names something that exists, and the circuit is acyclic.
-/
namespace OxiddModel.DimacsParse

open OxiddModel.Circuit
open OxiddModel.AigerParse (isDigit isSpace isAlnum u64Loop space0 maxCap u64Loop_len space0_len)

/-- the literal names a constant, an input below `n` or a gate below `g` -/
def litOk (n g : Nat) : Lit → Prop
  | .const _ => True
  | .input _ i => i < n
  | .gate _ k => k < g

theorem litOk.mono {n a b : Nat} {l : Lit} (h : litOk n a l) (hab : a ≤ b) : litOk n b l := by
  cases l with
  | const c => trivial
  | input neg i => exact h
  | gate neg k => exact Nat.lt_of_lt_of_le h hab

theorem litOk_not {n g : Nat} {l : Lit} (h : litOk n g l) : litOk n g l.not := by
  cases l <;> exact h

/-- the literal is a circuit input below `n` -/
def IsIn (n : Nat) : Lit → Prop
  | .input _ i => i < n
  | _ => False

theorem IsIn.litOk {n g : Nat} {l : Lit} (h : IsIn n l) : litOk n g l := by
  cases l with
  | const c => cases h
  | input neg i => exact h
  | gate neg k => cases h

def InputsOnly (n : Nat) (gs : Gates) : Prop := ∀ g ∈ gs, ∀ l ∈ g.2, IsIn n l

def Topo (n : Nat) (gs : Gates) : Prop :=
  ∀ (j : Nat) (k : Kind) (ins : List Lit), gs[j]? = some (k, ins) → ∀ l ∈ ins, litOk n j l

theorem Topo.nil {n : Nat} : Topo n [] := by
  intro j k ins h; simp at h

theorem InputsOnly.topo {n : Nat} {gs : Gates} (h : InputsOnly n gs) : Topo n gs := by
  intro j k ins hj l hl
  exact (h (k, ins) (List.mem_of_getElem? hj) l hl).litOk

theorem Topo.snoc {n : Nat} {gs : Gates} (h : Topo n gs) (k : Kind) (ins : List Lit)
    (hins : ∀ l ∈ ins, litOk n gs.length l) : Topo n (gs ++ [(k, ins)]) := by
  intro j k' ins' hj l hl
  by_cases hlt : j < gs.length
  · rw [List.getElem?_append_left hlt] at hj
    exact h j k' ins' hj l hl
  · rw [List.getElem?_append_right (by omega)] at hj
    by_cases hz : j - gs.length = 0
    · rw [hz] at hj
      simp only [List.getElem?_cons_zero, Option.some.injEq, Prod.mk.injEq] at hj
      obtain ⟨_, rfl⟩ := hj
      have : j = gs.length := by omega
      subst this
      exact hins l hl
    · obtain ⟨m, hm⟩ : ∃ m, j - gs.length = m + 1 := ⟨j - gs.length - 1, by omega⟩
      rw [hm] at hj; simp at hj

theorem appendLast_snoc (ls : List Lit) (k : Kind) (ins : List Lit) : ∀ gs : Gates,
    appendLast ls (gs ++ [(k, ins)]) = gs ++ [(k, ins ++ ls)]
  | [] => rfl
  | [g] => by
    obtain ⟨k', i'⟩ := g
    simp [appendLast]
  | g :: g' :: gs => by
    have ih := appendLast_snoc ls k ins (g' :: gs)
    simp only [List.cons_append] at ih ⊢
    rw [appendLast, ih]
    · intro _ _ _ h; cases h

theorem appendLast_mem (ls : List Lit) : ∀ (gs : Gates) (g : Gate), g ∈ appendLast ls gs →
    ∃ g0 ∈ gs, ∀ l ∈ g.2, l ∈ g0.2 ∨ l ∈ ls
  | [], g, h => by simp [appendLast] at h
  | [(k, ins)], g, h => by
    simp only [appendLast, List.mem_singleton] at h
    subst h
    exact ⟨(k, ins), by simp, fun l hl => by simpa using hl⟩
  | g1 :: g2 :: gs, g, h => by
    rw [appendLast] at h
    · cases h with
      | head => exact ⟨g1, by simp, fun l hl => .inl hl⟩
      | tail _ h =>
        obtain ⟨g0, hg0, hsub⟩ := appendLast_mem ls (g2 :: gs) g h
        exact ⟨g0, List.mem_cons_of_mem _ hg0, hsub⟩
    · intro _ _ _ h; cases h

theorem setLastKind_mem (kind : Kind) : ∀ (gs r : Gates), setLastKind kind gs = .ok r →
    ∀ g ∈ r, ∃ g0 ∈ gs, g.2 = g0.2
  | [], r, h => by simp [setLastKind] at h
  | [(k, ins)], r, h => by
    simp only [setLastKind, Except.ok.injEq] at h
    subst h
    intro g hg
    simp only [List.mem_singleton] at hg
    subst hg
    exact ⟨(k, ins), by simp, rfl⟩
  | g1 :: g2 :: gs, r, h => by
    simp only [setLastKind] at h
    split at h
    · cases h
    · rename_i r' hr'
      cases h
      intro g hg
      cases hg with
      | head => exact ⟨g1, by simp, rfl⟩
      | tail _ hg =>
        obtain ⟨g0, hg0, he⟩ := setLastKind_mem kind (g2 :: gs) r' hr' g hg
        exact ⟨g0, List.mem_cons_of_mem _ hg0, he⟩

theorem pushGate_ok {gs : Gates} {k : Kind} {l : Lit} {gs' : Gates}
    (h : pushGate gs k = .ok (l, gs')) : gs' = gs ++ [(k, [])] ∧ l = .gate false gs.length := by
  have := (pushGate_sat (A := NoPanic) gs k).of_ok h
  exact ⟨this.1, this.2.1⟩

theorem pushInputs_ok {gs : Gates} {ls : List Lit} {gs' : Gates}
    (h : pushInputs gs ls = .ok gs') : gs' = appendLast ls gs := by
  unfold pushInputs at h
  split at h
  · cases h
  · cases h; rfl

theorem mkInput_ok {neg : Bool} {v : Nat} {l : Lit} (h : mkInput neg v = .ok l) :
    l = .input neg v := by
  unfold mkInput at h
  split at h
  · cases h; rfl
  · cases h

theorem mkGate_ok {neg : Bool} {v : Nat} {l : Lit} (h : mkGate neg v = .ok l) :
    l = .gate neg v := by
  unfold mkGate at h
  split at h
  · cases h; rfl
  · cases h

/-! ## CNF -/

theorem cnfLoop_inputs (numVars : Nat) : ∀ (fuel : Nat) (gates : Gates) (neg : Bool) (inp : Bytes)
    (p : Gates × Bytes), cnfLoop numVars fuel gates neg inp = .ok p →
    InputsOnly numVars gates → InputsOnly numVars p.1 := by
  intro fuel
  induction fuel with
  | zero => intro g n inp p h; simp [cnfLoop] at h
  | succ fuel ih =>
    intro gates neg inp p h hio
    simp only [cnfLoop] at h
    split at h
    · cases h; exact hio
    · rename_i n r _
      split at h
      · split at h
        · cases h
        · rename_i l gates' he
          refine ih _ _ _ _ h ?_
          rw [(pushGate_ok he).1]
          intro g hg
          rw [List.mem_append] at hg
          cases hg with
          | inl hg => exact hio g hg
          | inr hg =>
            simp only [List.mem_singleton] at hg
            subst hg
            intro l hl; cases hl
      · rename_i hn0
        split at h
        · cases h
        · rename_i hle
          split at h
          · cases h
          · rename_i l he
            split at h
            · cases h
            · rename_i gates' he2
              refine ih _ _ _ _ h ?_
              rw [pushInputs_ok he2]
              intro g hg l' hl'
              obtain ⟨g0, hg0, hsub⟩ := appendLast_mem [l] gates g hg
              cases hsub l' hl' with
              | inl hin => exact hio g0 hg0 l' hin
              | inr hin =>
                simp only [List.mem_singleton] at hin
                subst hin
                rw [mkInput_ok he]
                show n - 1 < numVars
                omega
    · split at h
      · exact ih _ _ _ _ h hio
      · cases h
    · split at h
      · split at h
        · cases h
        · split at h
          · cases h
          · rename_i gates' he
            refine ih _ _ _ _ h ?_
            intro g hg l hl
            obtain ⟨g0, hg0, heq⟩ := setLastKind_mem .xor gates gates' he g hg
            exact hio g0 hg0 l (heq ▸ hl)
      · exact ih _ _ _ _ h hio

theorem cnfPop_inputs {n : Nat} {gates gates' : Gates} {nc : Nat} (h : cnfPop gates nc = .ok gates')
    (hio : InputsOnly n gates) : InputsOnly n gates' := by
  unfold cnfPop at h
  split at h
  · split at h
    · split at h
      · cases h
      · split at h
        · cases h
          intro g hg
          exact hio g (List.dropLast_subset _ hg)
        · cases h
    · cases h
  · cases h; exact hio

theorem retainLoop_wf (n : Nat) : ∀ (gs : Gates) (isFls : Bool) (conj : List Lit) (gate : Nat)
    (kept : Gates) (p : Bool × List Lit × Gates), retainLoop gs isFls conj gate kept = .ok p →
    InputsOnly n gs → InputsOnly n kept → gate = kept.length →
    (∀ l ∈ conj, litOk n kept.length l) →
    InputsOnly n p.2.2 ∧ ∀ l ∈ p.2.1, litOk n p.2.2.length l := by
  intro gs
  induction gs with
  | nil =>
    intro f c g k p h _ hk _ hc
    simp only [retainLoop, Except.ok.injEq] at h
    subst h
    exact ⟨hk, hc⟩
  | cons g gs ih =>
    intro isFls conj gate kept p h hgs hk hg hc
    obtain ⟨k, ins⟩ := g
    have hgs' : InputsOnly n gs := fun g hg => hgs g (List.mem_cons_of_mem _ hg)
    simp only [retainLoop] at h
    split at h
    · exact ih _ _ _ _ _ h hgs' hk hg hc
    · split at h
      · exact ih _ _ _ _ _ h hgs' hk hg hc
      · rename_i l
        refine ih _ _ _ _ _ h hgs' hk hg ?_
        intro l' hl'
        rw [List.mem_append] at hl'
        cases hl' with
        | inl hl' => exact hc l' hl'
        | inr hl' =>
          simp only [List.mem_singleton] at hl'
          subst hl'
          exact (hgs (k, [l']) (by simp) l' (by simp)).litOk
      · split at h
        · cases h
        · rename_i l he
          refine ih _ _ _ _ _ h hgs' ?_ (by simp [hg]) ?_
          · intro g' hg'
            rw [List.mem_append] at hg'
            cases hg' with
            | inl hg' => exact hk g' hg'
            | inr hg' =>
              simp only [List.mem_singleton] at hg'
              subst hg'
              exact hgs (k, ins) (by simp)
          · intro l' hl'
            rw [List.mem_append] at hl'
            simp only [List.length_append, List.length_singleton]
            cases hl' with
            | inl hl' => exact (hc l' hl').mono (by omega)
            | inr hl' =>
              simp only [List.mem_singleton] at hl'
              subst hl'
              rw [mkGate_ok he, hg]
              show kept.length < kept.length + 1
              omega

mutual
theorem mkConj_wf (n : Nat) (conj : List Lit) : ∀ (t : Tree) (gates : Gates) (stack : List Lit)
    (p : Lit × Gates × List Lit), mkConj conj t gates stack = .ok p → Topo n gates →
    (∀ l ∈ conj, litOk n gates.length l) →
    Topo n p.2.1 ∧ gates.length ≤ p.2.1.length ∧ litOk n p.2.1.length p.1 ∧ p.2.2 = stack
  | .leaf i, gates, stack, p, h, ht, hc => by
    simp only [mkConj] at h
    split at h
    · cases h
    · rename_i l hl
      cases h
      exact ⟨ht, Nat.le_refl _, hc l (List.mem_of_getElem? hl), rfl⟩
  | .inner cs, gates, stack, p, h, ht, hc => by
    simp only [mkConj] at h
    split at h
    · cases h
    · rename_i gates1 stack1 he
      obtain ⟨ht1, hle1, ws, hws, hwsok⟩ := mkConjList_wf n conj cs gates stack _ he ht hc
      dsimp only at ht1 hle1 hws hwsok
      split at h
      · cases h
      · rename_i root gates2 he2
        obtain ⟨hg2, hroot⟩ := pushGate_ok he2
        split at h
        · split at h
          · cases h
          · rename_i gates3 he3
            cases h
            have hg3 : gates3 = gates1 ++ [(Kind.and, ws)] := by
              rw [pushInputs_ok he3, hg2, appendLast_snoc, hws, List.drop_left' rfl]
              simp
            dsimp only
            rw [hg3]
            refine ⟨ht1.snoc _ _ hwsok, ?_, ?_, ?_⟩
            · simp only [List.length_append, List.length_singleton]; omega
            · rw [hroot]
              show gates1.length < (gates1 ++ [(Kind.and, ws)]).length
              simp
            · rw [hws]; exact List.take_left' rfl
        · cases h
theorem mkConjList_wf (n : Nat) (conj : List Lit) : ∀ (cs : List Tree) (gates : Gates)
    (stack : List Lit) (p : Gates × List Lit), mkConjList conj cs gates stack = .ok p →
    Topo n gates → (∀ l ∈ conj, litOk n gates.length l) →
    Topo n p.1 ∧ gates.length ≤ p.1.length ∧
      ∃ ws, p.2 = stack ++ ws ∧ ∀ l ∈ ws, litOk n p.1.length l
  | [], gates, stack, p, h, ht, _ => by
    simp only [mkConjList, Except.ok.injEq] at h
    subst h
    exact ⟨ht, Nat.le_refl _, [], by simp, fun l hl => by cases hl⟩
  | c :: cs, gates, stack, p, h, ht, hc => by
    simp only [mkConjList] at h
    split at h
    · cases h
    · rename_i l gates' stack' he
      obtain ⟨ht', hle', hl', hs'⟩ := mkConj_wf n conj c gates stack _ he ht hc
      dsimp only at ht' hle' hl' hs'
      subst hs'
      obtain ⟨ht2, hle2, ws, hws, hwsok⟩ := mkConjList_wf n conj cs gates' (stack' ++ [l]) p h ht'
        (fun x hx => (hc x hx).mono hle')
      refine ⟨ht2, by omega, l :: ws, by rw [hws]; simp, ?_⟩
      intro x hx
      cases hx with
      | head => exact hl'.mono hle2
      | tail _ hx => exact hwsok x hx
end

theorem cnfRoot_wf (vars : VarSet) (ct : Option Tree) (gates : Gates) (p : Problem')
    (h : cnfRoot vars ct gates = .ok p) (hio : InputsOnly vars.len gates) :
    p.vars = vars ∧ Topo vars.len p.gates ∧ litOk vars.len p.gates.length p.root := by
  unfold cnfRoot at h
  split at h
  · cases h
    exact ⟨rfl, hio.topo, trivial⟩
  · split at h
    · cases h
    · rename_i isFls conj kept he
      obtain ⟨hk, hc⟩ := retainLoop_wf vars.len gates false [] 0 [] _ he hio
        (fun g hg => by cases hg) rfl (fun l hl => by cases hl)
      dsimp only at hk hc
      split at h
      · cases h
        exact ⟨rfl, Topo.nil, trivial⟩
      · split at h
        · rename_i t
          split at h
          · cases h
          · rename_i root gates' st' he2
            cases h
            obtain ⟨ht, _, hr, _⟩ := mkConj_wf vars.len conj t kept [] _ he2 hk.topo hc
            exact ⟨rfl, ht, hr⟩
        · split at h
          · cases h
          · rename_i root gates1 he2
            obtain ⟨hg1, hroot⟩ := pushGate_ok he2
            split at h
            · cases h
            · rename_i gates2 he3
              cases h
              have hg2 : gates2 = kept ++ [(Kind.and, conj)] := by
                rw [pushInputs_ok he3, hg1, appendLast_snoc]; simp
              dsimp only
              rw [hg2]
              refine ⟨rfl, hk.topo.snoc _ _ hc, ?_⟩
              rw [hroot]
              show kept.length < (kept ++ [(Kind.and, conj)]).length
              simp

theorem cnfParse_wf (pre : Preamble) (inp : Bytes) (p : Problem') (h : cnfParse pre inp = .ok p) :
    p.vars = pre.vars ∧ Topo pre.vars.len p.gates ∧ litOk pre.vars.len p.gates.length p.root := by
  unfold cnfParse at h
  split at h
  · cases h
  · rename_i l gates0 he
    split at h
    · cases h
    · rename_i gates rest he2
      split at h
      · cases h
      · split at h
        · cases h
        · rename_i gates' he3
          refine cnfRoot_wf pre.vars pre.clauseTree gates' p h ?_
          refine cnfPop_inputs he3 (cnfLoop_inputs _ _ _ _ _ _ he2 ?_)
          rw [(pushGate_ok he).1]
          intro g hg
          simp only [List.nil_append, List.mem_singleton] at hg
          subst hg
          intro l hl; cases hl

/-! ## SAT -/

def FPost (n : Nat) (gates : Gates) (stack : List Lit) :
    Except SatErr (Lit × Gates × List Lit × Bytes) → Prop
  | .ok (l, g', s', _) => Topo n g' ∧ gates.length ≤ g'.length ∧ litOk n g'.length l ∧ s' = stack
  | .error (.rpar _ g s) => g = gates ∧ s = stack
  | .error (.e _) => True

def LPost (n : Nat) (gates : Gates) (stack : List Lit) :
    Except SatErr (Gates × List Lit × Bytes) → Prop
  | .ok (g', s', _) => Topo n g' ∧ gates.length ≤ g'.length ∧
      ∃ ws, s' = stack ++ ws ∧ ∀ l ∈ ws, litOk n g'.length l
  | .error _ => True

theorem FPost.of_error {n : Nat} {gates : Gates} {stack : List Lit}
    {x : Except SatErr (Lit × Gates × List Lit × Bytes)} {e : SatErr}
    (h : FPost n gates stack x) (hx : x = .error e) : FPost n gates stack (.error e) := by
  subst hx; exact h

/-- the operand loop never passes an `Rpar` on -/
theorem satLoop_no_rpar (ax ae : Bool) (n : Nat) : ∀ (fuel : Nat) (gates : Gates)
    (stack : List Lit) (inp i : Bytes) (g : Gates) (s : List Lit),
    satLoop ax ae n fuel gates stack inp ≠ .error (.rpar i g s) := by
  intro fuel
  induction fuel with
  | zero => intro gates stack inp i g s h; simp [satLoop] at h
  | succ fuel ih =>
    intro gates stack inp i g s h
    simp only [satLoop] at h
    split at h
    · exact ih _ _ _ _ _ _ h
    · cases h
    · rename_i e hnr _
      cases h
      exact hnr _ _ _ rfl

theorem formula_wf (ax ae : Bool) (n : Nat) : ∀ fuel : Nat,
    (∀ gates stack inp, Topo n gates →
      FPost n gates stack (formula ax ae n fuel gates stack inp)) ∧
    (∀ gates stack inp, Topo n gates →
      LPost n gates stack (satLoop ax ae n fuel gates stack inp)) := by
  intro fuel
  induction fuel with
  | zero => exact ⟨fun g s inp _ => trivial, fun g s inp _ => trivial⟩
  | succ fuel ih =>
    obtain ⟨ihF, ihL⟩ := ih
    constructor
    · intro gates stack inp ht
      simp only [formula]
      have hlex := satLex_sat n inp
      split
      · trivial
      · trivial
      · rename_i tok r hl
        obtain ⟨_, hvar⟩ := hlex.of_ok hl
        dsimp only at hvar
        cases tok with
        | var v =>
          dsimp only
          have hv := hvar v rfl
          split
          · trivial
          · rename_i l he
            rw [mkInput_ok he]
            exact ⟨ht, Nat.le_refl _, (by show v - 1 < n; omega), rfl⟩
        | lpar =>
          dsimp only
          have hrec := ihF gates stack r ht
          split
          · rename_i e he; exact hrec.of_error he
          · rename_i l gates' stack' r' he
            rw [he] at hrec
            split
            · trivial
            · exact hrec
        | rpar =>
          dsimp only
          exact ⟨rfl, rfl⟩
        | neg =>
          dsimp only
          have hlex2 := satLex_sat n r
          split
          · trivial
          · trivial
          · rename_i tok2 r2 hl2
            obtain ⟨_, hvar2⟩ := hlex2.of_ok hl2
            dsimp only at hvar2
            cases tok2 with
            | var v =>
              dsimp only
              have hv := hvar2 v rfl
              split
              · trivial
              · rename_i l he
                rw [mkInput_ok he]
                exact ⟨ht, Nat.le_refl _, (by show v - 1 < n; omega), rfl⟩
            | lpar =>
              dsimp only
              have hrec := ihF gates stack r2 ht
              split
              · rename_i e he; exact hrec.of_error he
              · rename_i l gates' stack' r' he
                rw [he] at hrec
                split
                · trivial
                · obtain ⟨h1, h2, h3, h4⟩ := hrec
                  exact ⟨h1, h2, litOk_not h3, h4⟩
            | rpar | neg | and | or | xor | eq => trivial
        | and | or | xor | eq =>
          dsimp only
          split
          · trivial
          · split
            · trivial
            · split
              · trivial
              · rename_i r1 he1
                have hloop := ihL gates stack r1 ht
                split
                · rename_i e he2
                  cases e with
                  | e d => trivial
                  | rpar i g s =>
                    exact absurd he2 (satLoop_no_rpar ax ae n fuel gates stack r1 i g s)
                · rename_i gates1 stack1 r2 he2
                  rw [he2] at hloop
                  obtain ⟨ht1, hle1, ws, hws, hwsok⟩ := hloop
                  have htake : List.take stack.length stack1 = stack := by
                    rw [hws]; exact List.take_left' rfl
                  have hdrop : List.drop stack.length stack1 = ws := by
                    rw [hws]; exact List.drop_left' rfl
                  split
                  · rw [hdrop]
                    split
                    · exact ⟨ht1, hle1, trivial, htake⟩
                    · rename_i l
                      exact ⟨ht1, hle1, hwsok l (by simp), htake⟩
                    · split
                      · trivial
                      · rename_i l gates2 hpg
                        obtain ⟨hg2, hl⟩ := pushGate_ok hpg
                        split
                        · trivial
                        · rename_i gates3 hpi
                          obtain ⟨kind, hg2'⟩ : ∃ kind : Kind, gates2 = gates1 ++ [(kind, [])] :=
                            ⟨_, hg2⟩
                          have hg3 : gates3 = gates1 ++ [(kind, ws)] := by
                            rw [pushInputs_ok hpi, hg2', appendLast_snoc]; simp
                          refine ⟨?_, ?_, ?_, htake⟩
                          · rw [hg3]; exact ht1.snoc _ _ hwsok
                          · rw [hg3]; simp only [List.length_append, List.length_singleton]; omega
                          · have hlg : litOk n gates3.length l := by
                              rw [hl, hg3]
                              show gates1.length < (gates1 ++ [(kind, ws)]).length
                              simp
                            split
                            · exact litOk_not hlg
                            · exact hlg
                  · trivial
    · intro gates stack inp ht
      simp only [satLoop]
      have hrec := ihF gates stack inp ht
      split
      · rename_i sub gates' stack' i he
        rw [he] at hrec
        obtain ⟨ht', hle', hsub, hs⟩ := hrec
        subst hs
        have hloop := ihL gates' (stack' ++ [sub]) i ht'
        cases hres : satLoop ax ae n fuel gates' (stack' ++ [sub]) i with
        | error e => trivial
        | ok p =>
          obtain ⟨g2, s2, r2⟩ := p
          rw [hres] at hloop
          obtain ⟨ht2, hle2, ws, hws, hwsok⟩ := hloop
          refine ⟨ht2, by omega, sub :: ws, by rw [hws]; simp, ?_⟩
          intro x hx
          cases hx with
          | head => exact hsub.mono hle2
          | tail _ hx => exact hwsok x hx
      · rename_i input gates' stack' he
        rw [he] at hrec
        obtain ⟨hg, hs⟩ := hrec
        subst hg; subst hs
        exact ⟨ht, Nat.le_refl _, [], by simp, fun l hl => by cases hl⟩
      · trivial

theorem satParse_wf (vars : VarSet) (ax ae : Bool) (inp : Bytes) (p : Problem')
    (h : satParse vars ax ae inp = .ok p) :
    p.vars = vars ∧ Topo vars.len p.gates ∧ litOk vars.len p.gates.length p.root := by
  unfold satParse at h
  have hw := (formula_wf ax ae vars.len (2 * inp.length + 2)).1 [] [] inp Topo.nil
  split at h
  · cases h
  · cases h
  · rename_i root gates st rest he
    rw [he] at hw
    obtain ⟨ht, _, hr, _⟩ := hw
    split at h
    · cases h
    · cases h
      exact ⟨rfl, ht, hr⟩

end OxiddModel.DimacsParse
