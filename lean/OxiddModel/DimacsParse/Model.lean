import OxiddModel.AigerParse.Model

/-!
# Byte-level model of the DIMACS parser (`crates/oxidd-parser/src/dimacs.rs`, `util.rs`)

`parse opts bytes` mirrors `oxidd_parser::dimacs::parse(&options)(bytes)` on raw bytes
(`Bytes = List Nat`, every element `< 256`), statement by statement:

* the `nom` layer (`u64`, `space0/1`, `multispace0`, `line_ending`, `not_line_ending`, `char`, `tag`,
  `word`, `cut`, `alt`, `many0_count`, `iterator`; the pure scanners `u64Loop`, `space0`, `isDigit`,
  `isSpace`, `isAlnum`, `maxCap` are those of `OxiddModel.AigerParse.Model`),
* `format`, `problem_line` (`p cnf <#vars> <#clauses>` / `p sat[e][x] <#vars>`),
* `preamble` in both modes: plain comments (`many0_count(util::comment)`), and — with
  `ParseOptions::var_order` or `::clause_tree` — the loop over `c co <tree>`, `c vo <tree>` and
  `c <var> [<name>]` lines with `util::tree` (the recursive `rec`, the `FixedBitSet inserted`, the
  shared `buffer`), `util::var_order_record`, `str::from_utf8`, the name set, the consistency
  checks after the problem line, the clean-up of the name table and `VarSet::check_valid`,
* `cnf::parse` (`lex`, the token loop incl. XOR clauses, the clause count check, `retain_gates`,
  `make_conj_tree`), `sat::parse` (`lex`, `expect`, the recursive `formula` with its operand `stack`,
  the `SatParserErr::Rpar` pseudo error that carries the remaining input), and `parse`.

Made explicit:

* every place where the Rust code can **panic** returns `Diag.panic k`: slice / `Vec` indexing
  (`vars.names[var]`, `conjuncts[i]`, `stack[saved_stack_len..]`, `buffer.split_off`; `.index`),
  `unwrap` (`buffer.pop().unwrap()`, `last_gate().unwrap()`; `.unwrap`), `unreachable!()`
  (`.unreachable`), debug assertions (`Literal::from_input`, `Vec2d::push_element(s)`,
  `set_last_gate_kind`, `debug_assert!(space1(input).is_err())` in `tree::rec`; `.debugAssert`), and
  — with their own kinds because they are reachable, see `Properties.lean` —
  `num_clauses.1 - 1` (`.subClauses`, KF-parser-co-zero-clauses) and the three assertions of
  `VarSet::check_valid` (`.validOrder`, `.validTree` = KF-parser-empty-order-tree, `.validNames`).
  `.fuel` is the model's own artefact for the loops that are bounded by the input length only.
* `nom`'s `Err::Error` (`Diag.syntax`) and `Err::Failure` (`Diag.fail cls`) are kept apart (`alt`,
  `iterator`, `many0_count`, `if let Ok(..)` and `cut` react to them differently).

The model is parametric in a `Cfg` (one flag per repair of `/repo`): `Cfg.fixed` is the code as it
is (`parse`, driver `dimacsparse`; after commits 8fca6ca — name clean-up — and 393b137 — trees
without leaves rejected), `Cfg.beforeFix` the code before them (`parseBeforeFix`, driver
`dimacsparse-before-fix`), `Cfg.proposed` has the proposed repair of the remaining open finding
KF-parser-co-zero-clauses as well (`parseProposed`, driver `dimacsparse-proposed`; tied to a patched
copy of the crate, see REPORT.md).

Out of scope (resource behaviour; `known_findings.json`: KF-parser-alloc, KF-parser-deep-nesting):
`Vec::with_capacity` / `reserve` / `resize` / `FixedBitSet::grow` succeed in the model whatever
the size, recursion depth is unbounded, diagnostic spans are not represented
(KF-parser-diag-span is about `load_file`, not about the parsers). A `Vec<usize>` holds fewer
than `2^60` elements; `pushGate` returns `Diag.resource` beyond that (so that the debug assertion
of `Literal::from_gate(false, gates.len())` is represented and provably unreachable).
`usize` is 64 bit; overflow checks and debug assertions are on (as in the harness profile).
-/
namespace OxiddModel.DimacsParse

open OxiddModel.Circuit
open OxiddModel.AigerParse (isDigit isSpace isAlnum u64Loop space0 maxCap)

abbrev Bytes := List Nat

/-- kinds (sites) of Rust panics made explicit in the model -/
inductive PanicKind where
  | index | unwrap | arith | debugAssert | unreachable | fuel
  /-- `max_clause.1 != num_clauses.1 - 1` with `num_clauses.1 == 0` -/
  | subClauses
  /-- `assert!(self.order.is_empty() || self.order.len() == self.len)` -/
  | validOrder
  /-- `assert!(!self.order.is_empty() || self.order_tree.is_none())` -/
  | validTree
  /-- `assert_ne!(self.names.last(), Some(&None))` -/
  | validNames
  deriving DecidableEq, Repr, Inhabited

/-- message classes of `fail` / `fail_with_contexts` / `from_external_error` / `cut` -/
inductive Cls where
  | problemLine        -- `cut(inner)` of `problem_line` (incl. "all lines in the preamble must begin …")
  | tooManyVars | tooManyClauses
  | clauseOrderOnce | varTreeOnce
  | varZero | varTooLarge | secondVar | invalidUtf8 | secondName
  | expectedRecord | expectedAnother
  | numVarsMismatch | nameNonExisting
  | treeOnlyCnf | numClausesMismatch
  | treeNumTooLarge | treeZero | treeSecond | treeComma | treeExpected | treeMissing | treeCut
  | treeEmpty
  | cnfVarRange | cnfExpectedVar | cnfXorPlace | cnfClauseCount
  | satVarRange | satExpected | satXorNotAllowed | satEqNotAllowed
  deriving DecidableEq, Repr, Inhabited

inductive Diag where
  /-- `nom::Err::Error` -/
  | syntax
  /-- `nom::Err::Failure` with a message of class `c` -/
  | fail (c : Cls)
  /-- the real code would panic here -/
  | panic (k : PanicKind)
  /-- a `Vec` would have to hold `2^60` or more elements (the real code aborts or panics with
  `capacity overflow` long before; out of scope, KF-parser-alloc) -/
  | resource
  deriving DecidableEq, Repr, Inhabited

def Diag.isPanic : Diag → Bool
  | .panic _ => true
  | _ => false

abbrev Res (α : Type) := Except Diag α
abbrev P (α : Type) := Bytes → Res (α × Bytes)

/-! ## the `nom` primitives -/

/-- `nom::character::complete::u64` -/
def u64 : P Nat
  | [] => .error .syntax
  | b :: rest =>
    if isDigit b then
      match u64Loop (b - 48) rest with
      | some r => .ok r
      | none => .error .syntax
    else .error .syntax

/-- `space1` -/
def space1 : P Unit
  | [] => .error .syntax
  | b :: rest => if isSpace b then .ok ((), space0 rest) else .error .syntax

/-- the bytes `multispace0` skips: blank, tab, CR, LF -/
def isMultispace (b : Nat) : Bool := b == 32 || b == 9 || b == 13 || b == 10

/-- `multispace0` -/
def multispace0 : Bytes → Bytes
  | [] => []
  | b :: rest => if isMultispace b then multispace0 rest else b :: rest

/-- `line_ending`: `\n` or `\r\n` -/
def lineEnding : P Unit
  | 10 :: rest => .ok ((), rest)
  | 13 :: 10 :: rest => .ok ((), rest)
  | _ => .error .syntax

/-- `util::eol = preceded(space0, value((), line_ending))` -/
def eol : P Unit := fun inp => lineEnding (space0 inp)

/-- `not_line_ending`: up to the first `\r` or `\n`; a `\r` that is not followed by `\n` is an
error -/
def notLineEnding : Bytes → Res (Bytes × Bytes)
  | [] => .ok ([], [])
  | b :: rest =>
    if b = 10 then .ok ([], b :: rest)
    else if b = 13 then
      match rest with
      | c :: _ => if c = 10 then .ok ([], b :: rest) else .error .syntax
      | [] => .error .syntax
    else
      match notLineEnding rest with
      | .error e => .error e
      | .ok (name, r) => .ok (b :: name, r)

/-- `match memchr(b'\n', input) { Some(i) => &input[i + 1..], None => &input[input.len()..] }` -/
def skipLine : Bytes → Bytes
  | [] => []
  | b :: rest => if b = 10 then rest else skipLine rest

/-- `util::trim_start` -/
def trimStart : Bytes → Bytes := space0
/-- `util::trim_end` -/
def trimEnd (s : Bytes) : Bytes := (s.reverse.dropWhile isSpace).reverse
/-- `util::trim` -/
def trim (s : Bytes) : Bytes := trimEnd (trimStart s)

/-- `cut`: an `Err::Error` becomes an `Err::Failure` (class `c` stands for the context message) -/
def cut {α : Type} (c : Cls) : Res α → Res α
  | .error .syntax => .error (.fail c)
  | r => r

/-- the check of `util::word` on what follows the word -/
def wordEnd : Bytes → Bool
  | [] => true
  | c :: _ => !isAlnum c

/-! ## `Literal` constructors with their debug assertions -/

/-- `Literal::from_input` (`debug_assert!(input <= MAX_INPUT)`, `MAX_INPUT = 2^62 - 3`) -/
def mkInput (neg : Bool) (v : Nat) : Res Lit :=
  if v ≤ 2 ^ 62 - 3 then .ok (.input neg v) else .error (.panic .debugAssert)

/-- `Literal::from_gate` (`debug_assert!(gate <= MAX_GATE)`, `MAX_GATE = 2^62 - 1`) -/
def mkGate (neg : Bool) (g : Nat) : Res Lit :=
  if g ≤ 2 ^ 62 - 1 then .ok (.gate neg g) else .error (.panic .debugAssert)

/-! ## `Tree`, `VarSet`, `Circuit` -/

/-- `Tree<usize>` -/
inductive Tree where
  | inner (cs : List Tree)
  | leaf (n : Nat)
  deriving Repr, Inhabited

mutual
/-- `Tree::flatten_into` -/
def Tree.flatten : Tree → List Nat
  | .leaf n => [n]
  | .inner cs => Tree.flattenList cs
def Tree.flattenList : List Tree → List Nat
  | [] => []
  | c :: cs => c.flatten ++ Tree.flattenList cs
end

/-- `VarSet` -/
structure VarSet where
  len : Nat
  order : List Nat
  orderTree : Option Tree
  /-- UTF-8 bytes of the names -/
  names : List (Option Bytes)
  deriving Repr, Inhabited

/-- `Vec2d` of gates as a list of (kind, inputs) -/
abbrev Gates := List Gate

/-- the number of elements a `Vec<usize>` can hold at most, plus one -/
def vecLimit : Nat := 2 ^ 60

/-- `Circuit::push_gate(kind)`: `Literal::from_gate(false, self.gates.len())`, then `push_vec` -/
def pushGate (gates : Gates) (kind : Kind) : Res (Lit × Gates) :=
  if gates.length + 1 ≥ vecLimit then .error .resource
  else
    match mkGate false gates.length with
    | .error e => .error e
    | .ok l => .ok (l, gates ++ [(kind, [])])

/-- append to the inputs of the last gate -/
def appendLast (ls : List Lit) : Gates → Gates
  | [] => []
  | [(k, ins)] => [(k, ins ++ ls)]
  | g :: gs => g :: appendLast ls gs

/-- `Circuit::push_gate_input(s)`: `debug_assert!(!self.is_empty())`, then the literals are
appended to the data vector, i.e. to the last gate -/
def pushInputs (gates : Gates) (ls : List Lit) : Res Gates :=
  if gates.isEmpty then .error (.panic .debugAssert) else .ok (appendLast ls gates)

/-- `Circuit::set_last_gate_kind` (`panic!("there are no gates in the circuit")`) -/
def setLastKind (kind : Kind) : Gates → Res Gates
  | [] => .error (.panic .debugAssert)
  | [(_, ins)] => .ok [(kind, ins)]
  | g :: g' :: gs =>
    match setLastKind kind (g' :: gs) with
    | .error e => .error e
    | .ok r => .ok (g :: r)

/-! ## `format`, `problem_line` -/

inductive Format where
  | cnf
  | sat (xor eq : Bool)
  deriving DecidableEq, Repr, Inhabited

/-- the closure `inner` of `format`. `SATE` is `Format::SAT { xor: false, eq: false }` in the
Rust source (as it is) -/
def formatInner : Bytes → Option (Format × Bytes)
  | 99 :: 110 :: 102 :: r => some (.cnf, r)
  | 115 :: 97 :: 116 :: 101 :: 120 :: r => some (.sat true true, r)
  | 115 :: 97 :: 116 :: 101 :: r => some (.sat false false, r)
  | 115 :: 97 :: 116 :: 120 :: r => some (.sat true false, r)
  | 115 :: 97 :: 116 :: r => some (.sat false false, r)
  | _ => none

/-- `format = context_loc(.., word(inner))` -/
def format : P Format := fun inp =>
  match formatInner inp with
  | some (f, r) => if wordEnd r then .ok (f, r) else .error .syntax
  | none => .error .syntax

/-- the closure `inner` of `problem_line` -/
def problemLineInner : P (Format × Nat × Nat) := fun inp =>
  match inp with
  | 112 :: r0 => do
    let (_, r1) ← space1 r0
    let (fmt, r2) ← format r1
    let (_, r3) ← space1 r2
    let (numVars, r4) ← u64 r3
    if numVars > maxCap then throw (.fail .tooManyVars)
    if fmt = .cnf then
      let (_, r5) ← space1 r4
      let (numClauses, r6) ← u64 r5
      if numClauses > maxCap then throw (.fail .tooManyClauses)
      let (_, r7) ← lineEnding (space0 r6)
      pure ((fmt, numVars, numClauses), r7)
    else
      let (_, r5) ← lineEnding (space0 r4)
      pure ((fmt, numVars, 0), r5)
  | _ => .error (.fail .problemLine)

/-- `problem_line = context_loc(.., cut(inner))` -/
def problemLine : P (Format × Nat × Nat) := fun inp => cut .problemLine (problemLineInner inp)

/-! ## configuration: which repairs of `/repo` the model follows -/

/-- one flag per repair (`Cfg.fixed` = `/repo` as it is, which is what `parse` and the driver
`dimacsparse` run; `Cfg.beforeFix` = before commits 8fca6ca and 393b137; `Cfg.proposed` = with the
proposed repair of the remaining open finding as well) -/
structure Cfg where
  /-- commit 8fca6ca (KF-parser-order-names): the first clean-up loop of the name table stops only
  at a non-empty name, i.e. it pops trailing `None` entries (variables without a record) as well as
  trailing `Some("")` markers -/
  namesCleanup : Bool
  /-- commit 393b137 (KF-parser-empty-order-tree): `util::tree` rejects a tree without leaves -/
  treeNonEmpty : Bool
  /-- proposed (`proposed_fix.diff`, KF-parser-co-zero-clauses): `max_clause.1 + 1 != num_clauses.1`
  instead of `max_clause.1 != num_clauses.1 - 1` -/
  clauseCount : Bool
  deriving DecidableEq, Repr

/-- the code as it is in `/repo` -/
def Cfg.fixed : Cfg := ⟨true, true, false⟩
/-- the code before commits 8fca6ca and 393b137 -/
def Cfg.beforeFix : Cfg := ⟨false, false, false⟩
/-- with the proposed repair of KF-parser-co-zero-clauses as well -/
def Cfg.proposed : Cfg := ⟨true, true, true⟩

/-! ## `util::tree` -/

/-- `inserted.grow_and_insert(n)` (`FixedBitSet` as a list of bits) -/
def growInsert (ins : List Bool) (n : Nat) : List Bool :=
  (ins ++ List.replicate (n + 1 - ins.length) false).set n true

/-- the mutable state of `rec`: the bit set `inserted` and the shared `buffer` -/
structure TreeSt where
  inserted : List Bool
  buffer : List Tree
  deriving Inhabited

def startsWithSpace : Bytes → Bool
  | [] => false
  | b :: _ => isSpace b

mutual
/-- `tree::rec`; the result is `(tree, max)` (spans are not represented) -/
def treeRec (oneBased unique : Bool) : (fuel : Nat) → TreeSt → Bytes →
    Res ((Tree × Nat) × TreeSt × Bytes)
  | 0, _, _ => .error (.panic .fuel)
  | fuel + 1, st, inp =>
    -- `debug_assert!(space1::<_, E>(input).is_err())`
    if startsWithSpace inp then .error (.panic .debugAssert)
    else
      match u64 inp with
      | .ok (n, r) =>
        let r := space0 r
        if n > maxCap then .error (.fail .treeNumTooLarge)
        else if oneBased && n == 0 then .error (.fail .treeZero)
        else
          let n := if oneBased then n - 1 else n
          if unique && decide (n < st.inserted.length) && st.inserted.getD n false then
            .error (.fail .treeSecond)
          else .ok ((.leaf n, n), { st with inserted := growInsert st.inserted n }, r)
      | .error _ =>
        match inp with
        | 91 :: r =>
          let r := space0 r
          let bufferPos := st.buffer.length
          match treeLoop oneBased unique fuel st r 0 with
          | .error e => .error e
          | .ok (max, st', rest) =>
            if st'.buffer.length = bufferPos + 1 then
              -- flatten `[42]` into `42`: `buffer.pop().unwrap()`
              match st'.buffer.getLast? with
              | none => .error (.panic .unwrap)
              | some t => .ok ((t, max), { st' with buffer := st'.buffer.dropLast }, rest)
            else if bufferPos ≤ st'.buffer.length then
              -- `Tree::Inner(buffer.split_off(buffer_pos).into_boxed_slice())`
              .ok ((.inner (st'.buffer.drop bufferPos), max),
                { st' with buffer := st'.buffer.take bufferPos }, rest)
            else .error (.panic .index)
        | _ => .error (.fail .treeExpected)
/-- the `loop` of `rec` after `[`; `max` is the running maximum; returns the input after `]` -/
def treeLoop (oneBased unique : Bool) : (fuel : Nat) → TreeSt → Bytes → Nat →
    Res (Nat × TreeSt × Bytes)
  | 0, _, _, _ => .error (.panic .fuel)
  | fuel + 1, st, inp, max =>
    match space0 inp with
    | 93 :: r => .ok (max, st, r)
    | inp1 =>
      match treeRec oneBased unique fuel st inp1 with
      | .error e => .error e
      | .ok ((sub, subMax), st', i) =>
        let st'' : TreeSt := { st' with buffer := st'.buffer ++ [sub] }
        let max' := if subMax ≥ max then subMax else max
        match space0 i with
        | 93 :: r => .ok (max', st'', r)
        | 44 :: r => treeLoop oneBased unique fuel st'' r max'
        | _ => .error (.fail .treeComma)
end

/-- `util::tree(one_based, unique_leaves)`: `(tree, max)` -/
def tree (cfg : Cfg) (oneBased unique : Bool) : P (Tree × Nat) := fun inp =>
  let inp := space0 inp
  match cut .treeCut (treeRec oneBased unique (2 * inp.length + 2) ⟨[], []⟩ inp) with
  | .error e => .error e
  | .ok (res, st, rest) =>
    -- `inserted.zeroes().next()`
    if st.inserted.contains false then .error (.fail .treeMissing)
    -- commit 393b137: `if inserted.is_empty() { return fail(span, "tree must have at least one leaf") }`
    else if cfg.treeNonEmpty && st.inserted.isEmpty then .error (.fail .treeEmpty)
    else .ok (res, rest)

/-! ## `util::var_order_record`, `std::str::from_utf8` -/

/-- `util::var_order_record`: `(var, name)` -/
def varOrderRecord : P (Nat × Option Bytes) := fun inp => do
  let (var, r0) ← u64 inp
  let (name, r1) ← notLineEnding r0
  let (_, r2) ← lineEnding r1
  let trimmed := trim name
  if trimmed.isEmpty then pure ((var, none), r2)
  else if startsWithSpace name then pure ((var, some trimmed), r2)
  else throw .syntax

def isCont (b : Nat) : Bool := 128 ≤ b && b ≤ 191

/-- `std::str::from_utf8(..).is_ok()` -/
def utf8Valid : (fuel : Nat) → Bytes → Bool
  | 0, _ => false
  | _ + 1, [] => true
  | fuel + 1, b :: rest =>
    if b < 128 then utf8Valid fuel rest
    else if 194 ≤ b && b ≤ 223 then
      match rest with
      | c :: r1 => isCont c && utf8Valid fuel r1
      | _ => false
    else if 224 ≤ b && b ≤ 239 then
      match rest with
      | c :: d :: r2 =>
        ((b == 224 && 160 ≤ c && c ≤ 191) || (225 ≤ b && b ≤ 236 && isCont c) ||
          (b == 237 && 128 ≤ c && c ≤ 159) || (238 ≤ b && b ≤ 239 && isCont c)) &&
        isCont d && utf8Valid fuel r2
      | _ => false
    else if 240 ≤ b && b ≤ 244 then
      match rest with
      | c :: d :: e :: r3 =>
        ((b == 240 && 144 ≤ c && c ≤ 191) || (241 ≤ b && b ≤ 243 && isCont c) ||
          (b == 244 && 128 ≤ c && c ≤ 143)) &&
        isCont d && isCont e && utf8Valid fuel r3
      | _ => false
    else false

/-! ## `preamble` -/

structure Preamble where
  format : Format
  vars : VarSet
  numClauses : Nat
  clauseTree : Option Tree
  deriving Inhabited

/-- the local variables of the `loop` of `preamble` (spans are not represented) -/
structure PreSt where
  names : List (Option Bytes) := []
  order : List Nat := []
  orderTree : Option Tree := none
  treeMaxVar : Nat := 0
  nameSet : List Bytes := []
  clauseTree : Option Tree := none
  maxClause : Nat := 0
  deriving Inhabited

/-- `preceded(char('c'), space1)` -/
def cSpace : Bytes → Option Bytes
  | 99 :: b :: rest => if isSpace b then some (space0 rest) else none
  | _ => none

/-- `preceded(tag([a, b]), space1)` -/
def tag2Space (a b : Nat) : Bytes → Option Bytes
  | x :: y :: s :: rest => if x = a ∧ y = b ∧ isSpace s then some (space0 rest) else none
  | _ => none

/-- `if num_vars > names.len() { names.resize(num_vars, None); … } else if names[var].is_some() { fail }` -/
def recordNames (names : List (Option Bytes)) (numVars : Nat) : Res (List (Option Bytes)) :=
  if numVars > names.length then .ok (names ++ List.replicate (numVars - names.length) none)
  else
    match names[numVars - 1]? with
    | none => .error (.panic .index)
    | some e => if e.isSome then .error (.fail .secondVar) else .ok names

/-- the right-hand side of `vars.names[var] = Some(..)`: the entry (`""` marks an unnamed variable
as present) and the name set -/
def recordEntry (nameSet : List Bytes) : Option Bytes → Res (Bytes × List Bytes)
  | some nm =>
    if !utf8Valid (nm.length + 1) nm then .error (.fail .invalidUtf8)
    else if nameSet.contains nm then .error (.fail .secondName)
    else .ok (nm, nm :: nameSet)
  | none => .ok ([], nameSet)

/-- `vars.names[var] = Some(entry); if vars.order_tree.is_none() { vars.order.push(var) }` -/
def recordStore (st : PreSt) (names : List (Option Bytes)) (v : Nat) (en : Bytes × List Bytes) :
    Res PreSt :=
  if v < names.length then
    .ok { st with
      names := names.set v (some en.1), nameSet := en.2,
      order := if st.orderTree.isNone then st.order ++ [v] else st.order }
  else .error (.panic .index)

/-- the body of the variable order record branch -/
def preRecord (st : PreSt) (var : Nat) (name : Option Bytes) : Res PreSt :=
  if var = 0 then .error (.fail .varZero)
  else if var > maxCap then .error (.fail .varTooLarge)
  else
    match recordNames st.names var with
    | .error e => .error e
    | .ok names =>
      match recordEntry st.nameSet name with
      | .error e => .error e
      | .ok en => recordStore st names (var - 1) en

/-- the `loop` of `preamble` (order mode) -/
def preLoop (cfg : Cfg) (parseClauseTree : Bool) : (fuel : Nat) → PreSt → Bytes → Res (PreSt × Bytes)
  | 0, _, _ => .error (.panic .fuel)
  | fuel + 1, st, inp =>
    match cSpace inp with
    | none => .ok (st, inp)
    | some next =>
      match tag2Space 99 111 next with
      | some next2 =>
        if parseClauseTree then
          if st.clauseTree.isSome then .error (.fail .clauseOrderOnce)
          else
            match tree cfg false false next2 with
            | .error e => .error e
            | .ok ((t, maxClause), r) =>
              match eol r with
              | .error e => .error e
              | .ok (_, r') =>
                preLoop cfg parseClauseTree fuel { st with clauseTree := some t, maxClause } r'
        else preLoop cfg parseClauseTree fuel st (skipLine inp)
      | none =>
        match tag2Space 118 111 next with
        | some next2 =>
          if st.orderTree.isSome then .error (.fail .varTreeOnce)
          else
            match tree cfg true true next2 with
            | .error e => .error e
            | .ok ((t, treeMaxVar), r) =>
              match eol r with
              | .error e => .error e
              | .ok (_, r') =>
                preLoop cfg parseClauseTree fuel
                  { st with treeMaxVar, order := t.flatten, orderTree := some t } r'
        | none =>
          match varOrderRecord next with
          | .ok ((var, name), r) =>
            match preRecord st var name with
            | .error e => .error e
            | .ok st' => preLoop cfg parseClauseTree fuel st' r
          | .error _ => .error (.fail .expectedRecord)

/-- the clean-up of the name table: trailing `Some("")` popped (with the repair: trailing `None`
too), the other `Some("")` ↦ `None` -/
def cleanupNames (cfg : Cfg) (ns : List (Option Bytes)) : List (Option Bytes) :=
  ((ns.reverse.dropWhile (fun x => x == some [] || (cfg.namesCleanup && x == none))).reverse).map fun
    | some [] => none
    | x => x

/-- `VarSet::check_valid` -/
def checkValid (v : VarSet) : Res Unit :=
  if !(v.order.isEmpty || v.order.length == v.len) then .error (.panic .validOrder)
  else if !(!v.order.isEmpty || v.orderTree.isNone) then .error (.panic .validTree)
  else if v.names.getLast? == some none then .error (.panic .validNames)
  else .ok ()

/-- the checks of the number of variables after the problem line -/
def preChkVars (st : PreSt) (numVars : Nat) : Res Unit :=
  if st.orderTree.isNone then
    if !st.order.isEmpty && numVars != st.order.length then .error (.fail .numVarsMismatch)
    else .ok ()
  else if numVars != st.treeMaxVar + 1 then .error (.fail .numVarsMismatch)
  else if st.names.length > numVars then .error (.fail .nameNonExisting)
  else .ok ()

/-- the checks of the clause tree after the problem line -/
def preChkClauses (cfg : Cfg) (st : PreSt) (format : Format) (numClauses : Nat) : Res Unit :=
  if st.clauseTree.isSome then
    if format != .cnf then .error (.fail .treeOnlyCnf)
    else if cfg.clauseCount then
      -- proposed: `max_clause.1 + 1 != num_clauses.1`
      if st.maxClause + 1 ≥ 2 ^ 64 then .error (.panic .arith)
      else if st.maxClause + 1 != numClauses then .error (.fail .numClausesMismatch)
      else .ok ()
    -- `max_clause.1 != num_clauses.1 - 1`
    else if numClauses = 0 then .error (.panic .subClauses)
    else if st.maxClause != numClauses - 1 then .error (.fail .numClausesMismatch)
    else .ok ()
  else .ok ()

/-- what follows the `loop` in the order mode of `preamble` -/
def preFinish (cfg : Cfg) (st : PreSt) (inp : Bytes) : Res (Preamble × Bytes) :=
  if st.orderTree.isNone && st.names.length != st.order.length then
    .error (.fail .expectedAnother)
  else
    match problemLine inp with
    | .error e => .error e
    | .ok ((format, numVars, numClauses), next) =>
      match preChkVars st numVars with
      | .error e => .error e
      | .ok _ =>
        match preChkClauses cfg st format numClauses with
        | .error e => .error e
        | .ok _ =>
          let vars : VarSet :=
            { len := numVars, order := st.order, orderTree := st.orderTree,
              names := cleanupNames cfg st.names }
          match checkValid vars with
          | .error e => .error e
          | .ok _ => .ok ({ format, vars, numClauses, clauseTree := st.clauseTree }, next)

/-- `many0_count(util::comment)`; `util::comment` = `c` and everything up to the next `\n` -/
def comments : (fuel : Nat) → Bytes → Res Bytes
  | 0, _ => .error (.panic .fuel)
  | fuel + 1, inp =>
    match inp with
    | 99 :: r => comments fuel (skipLine r)
    | _ => .ok inp

/-- `preamble(parse_var_order, parse_clause_tree)` -/
def preamble (cfg : Cfg) (parseVarOrder parseClauseTree : Bool) : P Preamble := fun inp =>
  if parseVarOrder || parseClauseTree then
    match preLoop cfg parseClauseTree (inp.length + 1) {} inp with
    | .error e => .error e
    | .ok (st, r) => preFinish cfg st r
  else
    match comments (inp.length + 1) inp with
    | .error e => .error e
    | .ok r =>
      match problemLine r with
      | .error e => .error e
      | .ok ((format, numVars, numClauses), next) =>
        .ok ({ format, vars := ⟨numVars, [], none, []⟩, numClauses, clauseTree := none }, next)

/-! ## the parsed problem -/

/-- `Problem { circuit: Circuit { inputs, gates }, details: ProblemDetails::Root(root) }` -/
structure Problem' where
  vars : VarSet
  gates : Gates
  root : Lit
  deriving Repr, Inhabited

/-! ## `mod cnf` -/

inductive CnfTok where
  | int (n : Nat) | neg | xor
  deriving DecidableEq, Repr

/-- `cnf::lex = preceded(multispace0, alt((u64, '-', one_of("xX"))))`; `none` = `Err::Error` -/
def cnfLex (inp : Bytes) : Option (CnfTok × Bytes) :=
  let inp := multispace0 inp
  match u64 inp with
  | .ok (n, r) => some (.int n, r)
  | .error _ =>
    match inp with
    | 45 :: r => some (.neg, r)
    | 120 :: r => some (.xor, r)
    | 88 :: r => some (.xor, r)
    | _ => none

/-- `for token in &mut it { … }` followed by `it.finish()`: the gates and the remaining input -/
def cnfLoop (numVars : Nat) : (fuel : Nat) → Gates → Bool → Bytes → Res (Gates × Bytes)
  | 0, _, _, _ => .error (.panic .fuel)
  | fuel + 1, gates, neg, inp =>
    match cnfLex inp with
    | none => .ok (gates, inp)
    | some (.int n, r) =>
      if n = 0 then
        match pushGate gates .or with
        | .error e => .error e
        | .ok (_, gates') => cnfLoop numVars fuel gates' neg r
      else if n > numVars then .error (.fail .cnfVarRange)
      else
        match mkInput neg (n - 1) with
        | .error e => .error e
        | .ok l =>
          match pushInputs gates [l] with
          | .error e => .error e
          | .ok gates' => cnfLoop numVars fuel gates' false r
    | some (.neg, r) =>
      if !neg then cnfLoop numVars fuel gates true r else .error (.fail .cnfExpectedVar)
    | some (.xor, r) =>
      match gates.getLast? with
      | some gate =>
        if !gate.2.isEmpty then .error (.fail .cnfXorPlace)
        else
          match setLastKind .xor gates with
          | .error e => .error e
          | .ok gates' => cnfLoop numVars fuel gates' neg r
      | none => cnfLoop numVars fuel gates neg r

/-- the closure passed to `retain_gates`, folded over the gates: `(is_false, conj, gate, kept)` -/
def retainLoop : Gates → Bool → List Lit → Nat → Gates → Res (Bool × List Lit × Gates)
  | [], isFls, conj, _, kept => .ok (isFls, conj, kept)
  | (k, ins) :: gs, isFls, conj, gate, kept =>
    if isFls then retainLoop gs isFls conj gate kept
    else
      match ins with
      | [] => retainLoop gs true conj gate kept
      | [l] => retainLoop gs false (conj ++ [l]) gate kept
      | _ =>
        match mkGate false gate with
        | .error e => .error e
        | .ok l => retainLoop gs false (conj ++ [l]) (gate + 1) (kept ++ [(k, ins)])

mutual
/-- `make_conj_tree` -/
def mkConj (conj : List Lit) : Tree → Gates → List Lit → Res (Lit × Gates × List Lit)
  | .leaf i, gates, stack =>
    match conj[i]? with
    | none => .error (.panic .index)
    | some l => .ok (l, gates, stack)
  | .inner cs, gates, stack =>
    let saved := stack.length
    match mkConjList conj cs gates stack with
    | .error e => .error e
    | .ok (gates1, stack1) =>
      match pushGate gates1 .and with
      | .error e => .error e
      | .ok (root, gates2) =>
        -- `stack[saved_stack_len..]`
        if saved ≤ stack1.length then
          match pushInputs gates2 (stack1.drop saved) with
          | .error e => .error e
          | .ok gates3 => .ok (root, gates3, stack1.take saved)
        else .error (.panic .index)
/-- `for child in children { let l = make_conj_tree(..); stack.push(l) }` -/
def mkConjList (conj : List Lit) : List Tree → Gates → List Lit → Res (Gates × List Lit)
  | [], gates, stack => .ok (gates, stack)
  | c :: cs, gates, stack =>
    match mkConj conj c gates stack with
    | .error e => .error e
    | .ok (l, gates', stack') => mkConjList conj cs gates' (stack' ++ [l])
end

/-- `if num_gates != num_clauses { if num_gates == num_clauses + 1 && last_gate().unwrap().inputs.is_empty()
{ pop_gate() } else { return Err(..) } }` -/
def cnfPop (gates : Gates) (numClauses : Nat) : Res Gates :=
  if gates.length ≠ numClauses then
    if gates.length = numClauses + 1 then
      -- `circuit.last_gate().unwrap().inputs.is_empty()`
      match gates.getLast? with
      | none => .error (.panic .unwrap)
      | some g => if g.2.isEmpty then .ok gates.dropLast else .error (.fail .cnfClauseCount)
    else .error (.fail .cnfClauseCount)
  else .ok gates

/-- the computation of the root in `cnf::parse` -/
def cnfRoot (vars : VarSet) (clauseTree : Option Tree) (gates : Gates) : Res Problem' :=
  if gates.length = 0 then .ok ⟨vars, gates, .const true⟩
  else
    match retainLoop gates false [] 0 [] with
    | .error e => .error e
    | .ok (isFls, conj, kept) =>
      if isFls then .ok ⟨vars, [], .const false⟩
      else
        match clauseTree with
        | some t =>
          match mkConj conj t kept [] with
          | .error e => .error e
          | .ok (root, gates', _) => .ok ⟨vars, gates', root⟩
        | none =>
          match pushGate kept .and with
          | .error e => .error e
          | .ok (root, gates1) =>
            match pushInputs gates1 conj with
            | .error e => .error e
            | .ok gates2 => .ok ⟨vars, gates2, root⟩

/-- `cnf::parse(preamble)` -/
def cnfParse (pre : Preamble) (inp : Bytes) : Res Problem' :=
  match pushGate [] .or with
  | .error e => .error e
  | .ok (_, gates0) =>
    match cnfLoop pre.vars.len (inp.length + 1) gates0 false inp with
    | .error e => .error e
    | .ok (gates, rest) =>
      -- `multispace0`, `eof`
      if !(multispace0 rest).isEmpty then .error .syntax
      else
        match cnfPop gates pre.numClauses with
        | .error e => .error e
        | .ok gates' => cnfRoot pre.vars pre.clauseTree gates'

/-! ## `mod sat` -/

inductive SatTok where
  | var (n : Nat) | lpar | rpar | neg | and | or | xor | eq
  deriving DecidableEq, Repr

/-- `sat::lex(num_vars)`: `none` = end of input -/
def satLex (numVars : Nat) (inp : Bytes) : Res (Option SatTok × Bytes) :=
  let inp := multispace0 inp
  if inp.isEmpty then .ok (none, inp)
  else
    match u64 inp with
    | .ok (n, r) =>
      -- `map_res_fail`
      if n = 0 ∨ n > numVars then .error (.fail .satVarRange) else .ok (some (.var n), r)
    | .error _ =>
      match inp with
      | 40 :: r => .ok (some .lpar, r)
      | 41 :: r => .ok (some .rpar, r)
      | 45 :: r => .ok (some .neg, r)
      | 42 :: r => .ok (some .and, r)
      | 43 :: r => .ok (some .or, r)
      | 120 :: 111 :: 114 :: r => if wordEnd r then .ok (some .xor, r) else .error .syntax
      | 61 :: r => .ok (some .eq, r)
      | _ => .error .syntax

/-- `SatParserErr`: an ordinary error, or `Rpar { input, .. }` — thrown by `formula` at a `)`,
caught by the operand loop. The circuit and the stack are `&mut` in Rust, so the catcher sees
them as they were when the error was thrown: the pseudo error carries them -/
inductive SatErr where
  | e (d : Diag)
  | rpar (input : Bytes) (gates : Gates) (stack : List Lit)

/-- `sat::expect(kind, ..)` -/
def satExpect (numVars : Nat) (kind : SatTok) (inp : Bytes) : Res Bytes :=
  match satLex numVars inp with
  | .error e => .error e
  | .ok (none, _) => .error (.fail .satExpected)
  | .ok (some tok, r) => if tok ≠ kind then .error (.fail .satExpected) else .ok r

def liftSat {α : Type} : Res α → Except SatErr α
  | .ok a => .ok a
  | .error d => .error (.e d)

mutual
/-- `sat::formula` -/
def formula (allowXor allowEq : Bool) (numVars : Nat) : (fuel : Nat) → Gates → List Lit → Bytes →
    Except SatErr (Lit × Gates × List Lit × Bytes)
  | 0, _, _, _ => .error (.e (.panic .fuel))
  | fuel + 1, gates, stack, inp =>
    match satLex numVars inp with
    | .error d => .error (.e d)
    | .ok (none, _) => .error (.e (.fail .satExpected))
    | .ok (some tok, r) =>
      match tok with
      | .var n =>
        match mkInput false (n - 1) with
        | .error d => .error (.e d)
        | .ok l => .ok (l, gates, stack, r)
      | .lpar =>
        match formula allowXor allowEq numVars fuel gates stack r with
        | .error e => .error e
        | .ok (l, gates', stack', r') =>
          match satExpect numVars .rpar r' with
          | .error d => .error (.e d)
          | .ok r'' => .ok (l, gates', stack', r'')
      | .rpar => .error (.rpar r gates stack)
      | .neg =>
        match satLex numVars r with
        | .error d => .error (.e d)
        | .ok (none, _) => .error (.e (.fail .satExpected))
        | .ok (some tok2, r2) =>
          match tok2 with
          | .var n =>
            match mkInput true (n - 1) with
            | .error d => .error (.e d)
            | .ok l => .ok (l, gates, stack, r2)
          | .lpar =>
            match formula allowXor allowEq numVars fuel gates stack r2 with
            | .error e => .error e
            | .ok (l, gates', stack', r') =>
              match satExpect numVars .rpar r' with
              | .error d => .error (.e d)
              | .ok r'' => .ok (l.not, gates', stack', r'')
          | _ => .error (.e (.fail .satExpected))
      | op =>
        if op = .xor ∧ !allowXor then .error (.e (.fail .satXorNotAllowed))
        else if op = .eq ∧ !allowEq then .error (.e (.fail .satEqNotAllowed))
        else
          match satExpect numVars .lpar r with
          | .error d => .error (.e d)
          | .ok r1 =>
            let saved := stack.length
            match satLoop allowXor allowEq numVars fuel gates stack r1 with
            | .error e => .error e
            | .ok (gates1, stack1, r2) =>
              -- `&stack[saved_stack_len..]`
              if saved ≤ stack1.length then
                let children := stack1.drop saved
                let stack2 := stack1.take saved
                match children with
                | [] =>
                  match op with
                  | .and | .eq => .ok (.const true, gates1, stack2, r2)
                  | .or | .xor => .ok (.const false, gates1, stack2, r2)
                  | _ => .error (.e (.panic .unreachable))
                | [l] => .ok (l, gates1, stack2, r2)
                | _ =>
                  let kind : Kind := match op with
                    | .and => .and
                    | .or => .or
                    | _ => .xor
                  match pushGate gates1 kind with
                  | .error d => .error (.e d)
                  | .ok (l, gates2) =>
                    match pushInputs gates2 children with
                    | .error d => .error (.e d)
                    | .ok gates3 =>
                      let l' := if op = .eq ∧ children.length % 2 = 0 then l.not else l
                      .ok (l', gates3, stack2, r2)
              else .error (.e (.panic .index))
/-- the operand `loop` of `formula`: gates, stack and the input after the closing `)` -/
def satLoop (allowXor allowEq : Bool) (numVars : Nat) : (fuel : Nat) → Gates → List Lit → Bytes →
    Except SatErr (Gates × List Lit × Bytes)
  | 0, _, _, _ => .error (.e (.panic .fuel))
  | fuel + 1, gates, stack, inp =>
    match formula allowXor allowEq numVars fuel gates stack inp with
    | .ok (sub, gates', stack', i) => satLoop allowXor allowEq numVars fuel gates' (stack' ++ [sub]) i
    | .error (.rpar input gates' stack') => .ok (gates', stack', input)
    | .error e => .error e
end

/-- `sat::parse(vars, allow_xor, allow_eq)` followed by `preceded(multispace0, eof)` -/
def satParse (vars : VarSet) (allowXor allowEq : Bool) (inp : Bytes) : Res Problem' :=
  match formula allowXor allowEq vars.len (2 * inp.length + 2) [] [] inp with
  | .error (.e d) => .error d
  | .error (.rpar _ _ _) => .error .syntax
  | .ok (root, gates, _, rest) =>
    if !(multispace0 rest).isEmpty then .error .syntax else .ok ⟨vars, gates, root⟩

/-! ## `parse` -/

structure Opts where
  varOrder : Bool
  clauseTree : Bool
  deriving DecidableEq, Repr, Inhabited

/-- `oxidd_parser::dimacs::parse(&ParseOptions { var_order, clause_tree, .. })`, parametric in `cfg` -/
def parseCfg (cfg : Cfg) (o : Opts) (inp : Bytes) : Res Problem' :=
  match preamble cfg o.varOrder o.clauseTree inp with
  | .error e => .error e
  | .ok (pre, rest) =>
    match pre.format with
    | .cnf => cnfParse pre rest
    | .sat xor eq => satParse pre.vars xor eq rest

/-- `oxidd_parser::dimacs::parse(&ParseOptions { var_order, clause_tree, .. })` as it is in `/repo` -/
def parse (o : Opts) (inp : Bytes) : Res Problem' := parseCfg Cfg.fixed o inp

/-- the parser before commits 8fca6ca and 393b137 (kept so that the repaired defects stay
documented as theorems) -/
def parseBeforeFix (o : Opts) (inp : Bytes) : Res Problem' := parseCfg Cfg.beforeFix o inp

/-- the parser with the proposed repair of KF-parser-co-zero-clauses -/
def parseProposed (o : Opts) (inp : Bytes) : Res Problem' := parseCfg Cfg.proposed o inp

end OxiddModel.DimacsParse
