import OxiddModel.DimacsParse.LemmasWf

/-!
# Property C18, second sentence, for the DIMACS parser: totality and consistency

"The DIMACS, AIGER (ASCII and binary) and NNF parsers return a problem or a diagnostic for
arbitrary input bytes without panicking".

`parse o bytes` is the byte-level model of `oxidd_parser::dimacs::parse(&options)(bytes)` as it is in
`/repo` (`Model.lean`, `Cfg.fixed`); `parseBeforeFix` is the code before commits 8fca6ca / 393b137,
`parseProposed` the code with the proposed repair of the remaining finding. `Diag.panic k` marks the
places where the Rust code panics (overflow checks and debug assertions on, as in the harness
profile). "Never a panic" is still **false** of the code as it is (one open finding); proved:

* `parse_no_panic_fails`, `parse_panics_co_zero_clauses`: the witness `c co [0]\np cnf 1 0\n`
  (KF-parser-co-zero-clauses, `num_clauses.1 - 1`; confirmed on the real parser by the stream),
* `parse_no_oob`: this is the only reachable panic site — for all byte strings and all option
  settings there is no slice / `Vec` index out of range, no `unwrap` of `None`, no `unreachable!()`, no
  failing debug assertion (`Literal` constructors, `Vec2d`, `tree::rec`, `VarSet::check_valid`), no
  other arithmetic overflow, and the fuel of the model's loops suffices,
* `parse_panic_exact`: exactly when it happens; `parse_no_panic_partial`: never without the
  option `clause_tree` (in particular with the default options, `parse_no_panic_plain`),
* `parseProposed_no_panic`: with the proposed one-line repair the parser never panics,
* `parseBeforeFix_no_oob`, `parseBeforeFix_panic_exact`, `parseBeforeFix_panics_*`: before the two
  repairs there were exactly two more sites (the second and third assertion of
  `VarSet::check_valid`: KF-parser-empty-order-tree, and KF-parser-order-names, which was found with
  this model),
* `parse_ok_wellformed`: every accepted problem is internally consistent.
-/
namespace OxiddModel.DimacsParse

open OxiddModel.Circuit
open OxiddModel.AigerParse (maxCap)

def panicOf {α : Type} : Res α → Option PanicKind
  | .error (.panic k) => some k
  | _ => none

def isFail {α : Type} : Res α → Bool
  | .error (.fail _) => true
  | _ => false

theorem panicOf_eq {α : Type} {r : Res α} {k : PanicKind} (h : panicOf r = some k) :
    r = .error (.panic k) := by
  unfold panicOf at h
  split at h
  · cases h; rfl
  · cases h

/-- `c co [0]\np cnf 1 0\n` -/
def witnessCoZero : Bytes := [99, 32, 99, 111, 32, 91, 48, 93, 10, 112, 32, 99, 110, 102, 32, 49, 32, 48, 10]
/-- `c vo []\np cnf 1 1\n1 0\n` -/
def witnessEmptyTree : Bytes :=
  [99, 32, 118, 111, 32, 91, 93, 10, 112, 32, 99, 110, 102, 32, 49, 32, 49, 10, 49, 32, 48, 10]
/-- `c vo [1, 2]\nc 2\np cnf 2 1\n1 0\n` -/
def witnessNames : Bytes :=
  [99, 32, 118, 111, 32, 91, 49, 44, 32, 50, 93, 10, 99, 32, 50, 10, 112, 32, 99, 110, 102, 32, 50,
    32, 49, 10, 49, 32, 48, 10]

/-- KF-parser-co-zero-clauses (open): `num_clauses.1 - 1` underflows -/
theorem parse_panics_co_zero_clauses :
    panicOf (parse ⟨false, true⟩ witnessCoZero) = some .subClauses := by decide

/-- KF-parser-empty-order-tree (repaired by 393b137):
`assert!(!self.order.is_empty() || self.order_tree.is_none())` -/
theorem parseBeforeFix_panics_empty_order_tree :
    panicOf (parseBeforeFix ⟨true, false⟩ witnessEmptyTree) = some .validTree := by decide

/-- KF-parser-order-names (found with this model, repaired by 8fca6ca):
`assert_ne!(self.names.last(), Some(&None))` -/
theorem parseBeforeFix_panics_order_names :
    panicOf (parseBeforeFix ⟨true, false⟩ witnessNames) = some .validNames := by decide

/-- after 393b137 the tree without leaves gives a diagnostic -/
example : isFail (parse ⟨true, false⟩ witnessEmptyTree) = true := by decide
/-- after 8fca6ca the witness of KF-parser-order-names is accepted -/
example : (parse ⟨true, false⟩ witnessNames).toOption.isSome = true := by decide

/-- Full statement (false of the code as it is):
`∀ o inp k, parse o inp ≠ .error (.panic k)`. -/
theorem parse_no_panic_fails : ¬ ∀ (o : Opts) (inp : Bytes) (k : PanicKind),
    parse o inp ≠ .error (.panic k) := by
  intro h
  exact h _ _ _ (panicOf_eq parse_panics_co_zero_clauses)

/-- where the order-line loop ends and what the problem line says -/
structure PanicSite (cfg : Cfg) (o : Opts) (inp : Bytes) (st : PreSt) (fmt : Format) (nv nc : Nat) :
    Prop where
  /-- one of the options is set -/
  opt : (o.varOrder || o.clauseTree) = true
  /-- the loop over the `c …` lines ends normally in state `st`, a well-formed problem line follows -/
  loop : ∃ r next, preLoop cfg o.clauseTree (inp.length + 1) {} inp = .ok (st, r) ∧
    problemLine r = .ok ((fmt, nv, nc), next)
  /-- without an order tree every variable up to the largest has its record -/
  complete : (st.orderTree.isNone && st.names.length != st.order.length) = false
  /-- the declared number of variables fits the order lines -/
  vars : preChkVars st nv = .ok ()

/-- **(a), exactly**, for every configuration: the parser panics iff, after the order lines and
the problem line have been read and the variable counts fit,
* a clause tree was read (`c co …` with `clause_tree`), the format is `cnf`, the number of clauses
  is `0` (`num_clauses.1 - 1`) and the proposed repair is not in, or
* the clause checks pass and the variable order tree has no leaves (`c vo []`), or
* the clause checks pass, there is a variable order tree with leaves, and the cleaned name table
  ends with a variable that has no record. -/
theorem parseCfg_panic_exact (cfg : Cfg) (o : Opts) (inp : Bytes) (k : PanicKind) :
    parseCfg cfg o inp = .error (.panic k) ↔
      ∃ st fmt nv nc, PanicSite cfg o inp st fmt nv nc ∧
        ((k = .subClauses ∧ cfg.clauseCount = false ∧ o.clauseTree = true ∧
            st.clauseTree.isSome = true ∧ fmt = .cnf ∧ nc = 0) ∨
         (k = .validTree ∧ preChkClauses cfg st fmt nc = .ok () ∧
            ∃ t, st.orderTree = some t ∧ t.flatten = []) ∨
         (k = .validNames ∧ preChkClauses cfg st fmt nc = .ok () ∧
            ∃ t, st.orderTree = some t ∧ t.flatten ≠ [] ∧
              (cleanupNames cfg st.names).getLast? = some none)) := by
  rw [parseCfg_panic_iff]
  constructor
  · rintro ⟨hopt, st, r, hl, hf⟩
    have hinv : PreInv st :=
      ((preLoop_sat cfg o.clauseTree (inp.length + 1) {} inp PreInv.init (Nat.le_refl _)).of_ok hl).1
    obtain ⟨h0, fmt, nv, nc, next, hpl, hv, hc⟩ := (preFinish_panic_iff cfg st r k).1 hf
    refine ⟨st, fmt, nv, nc, ⟨hopt, ⟨r, next, hl, hpl⟩, h0, hv⟩, ?_⟩
    have hord := ((preChkVars_sat st nv hinv (by rw [h0]; simp)).of_ok hv).1
    cases hc with
    | inl hc =>
      obtain ⟨rfl, hcc, hs, rfl, rfl⟩ := (preChkClauses_panic_iff cfg st hinv.mc fmt nc k).1 hc
      refine .inl ⟨rfl, hcc, ?_, hs, rfl, rfl⟩
      cases hct : o.clauseTree with
      | true => rfl
      | false =>
        rw [hct] at hl
        have := preLoop_noClauseTree cfg _ _ _ _ hl rfl
        rw [show st.clauseTree = none from this] at hs; cases hs
    | inr hc =>
      obtain ⟨hcc, hcv⟩ := hc
      have hord' : st.order = [] ∨ st.order.length = nv := by
        cases hord with
        | inl h => exact .inl h
        | inr h => exact .inr h.1
      cases (checkValid_panic_iff ⟨nv, st.order, st.orderTree, cleanupNames cfg st.names⟩ hord' k).1 hcv with
      | inl h =>
        obtain ⟨rfl, ho, ht⟩ := h
        dsimp only at ho ht
        cases hot : st.orderTree with
        | none => rw [hot] at ht; cases ht
        | some t =>
          refine .inr (.inl ⟨rfl, hcc, t, rfl, ?_⟩)
          rw [← (hinv.tree t hot).1]; exact ho
      | inr h =>
        obtain ⟨rfl, ho, hn⟩ := h
        dsimp only at ho hn
        cases hot : st.orderTree with
        | none =>
          exfalso
          have hlen : st.names.length = st.order.length := by
            rw [hot] at h0; simpa using h0
          exact notree_names_complete hinv hot hlen (cleanupNames_getLast hn).2
        | some t =>
          refine .inr (.inr ⟨rfl, hcc, t, rfl, ?_, hn⟩)
          rw [← (hinv.tree t hot).1]
          cases ho with
          | inl ho => exact ho
          | inr ho => rw [hot] at ho; cases ho
  · rintro ⟨st, fmt, nv, nc, ⟨hopt, ⟨r, next, hl, hpl⟩, h0, hv⟩, hc⟩
    refine ⟨hopt, st, r, hl, ?_⟩
    have hinv : PreInv st :=
      ((preLoop_sat cfg o.clauseTree (inp.length + 1) {} inp PreInv.init (Nat.le_refl _)).of_ok hl).1
    have hord := ((preChkVars_sat st nv hinv (by rw [h0]; simp)).of_ok hv).1
    have hord' : st.order = [] ∨ st.order.length = nv := by
      cases hord with
      | inl h => exact .inl h
      | inr h => exact .inr h.1
    rw [preFinish_panic_iff]
    refine ⟨h0, fmt, nv, nc, next, hpl, hv, ?_⟩
    cases hc with
    | inl hc =>
      obtain ⟨rfl, hcc, _, hs, rfl, rfl⟩ := hc
      exact .inl ((preChkClauses_panic_iff cfg st hinv.mc _ _ _).2 ⟨rfl, hcc, hs, rfl, rfl⟩)
    | inr hc =>
      cases hc with
      | inl hc =>
        obtain ⟨rfl, hcc, t, hot, hfl⟩ := hc
        refine .inr ⟨hcc, (checkValid_panic_iff _ hord' _).2 (.inl ⟨rfl, ?_, ?_⟩)⟩
        · show st.order = []
          rw [(hinv.tree t hot).1]; exact hfl
        · show st.orderTree.isSome = true
          rw [hot]; rfl
      | inr hc =>
        obtain ⟨rfl, hcc, t, hot, hfl, hn⟩ := hc
        refine .inr ⟨hcc, (checkValid_panic_iff _ hord' _).2 (.inr ⟨rfl, .inl ?_, hn⟩)⟩
        show st.order ≠ []
        rw [(hinv.tree t hot).1]; exact hfl

/-- the second site needs a tree without leaves: gone with 393b137 -/
theorem no_validTree_of_treeNonEmpty {cfg : Cfg} (hc : cfg.treeNonEmpty = true) {o : Opts}
    {inp : Bytes} {st : PreSt} {fmt : Format} {nv nc : Nat} (hs : PanicSite cfg o inp st fmt nv nc)
    {t : Tree} (ht : st.orderTree = some t) : t.flatten ≠ [] := by
  obtain ⟨r, next, hl, _⟩ := hs.loop
  exact preLoop_treeNonEmpty cfg hc _ _ _ _ _ hl (fun t h => by cases h) t ht

/-- **(a)** For all byte strings and all option settings: if the parser panics, it is at
`num_clauses.1 - 1`. -/
theorem parse_no_oob (o : Opts) (inp : Bytes) (k : PanicKind)
    (h : parse o inp = .error (.panic k)) : k = .subClauses := by
  obtain ⟨st, fmt, nv, nc, hs, hc⟩ := (parseCfg_panic_exact Cfg.fixed o inp k).1 h
  cases hc with
  | inl hc => exact hc.1
  | inr hc =>
    cases hc with
    | inl hc =>
      obtain ⟨_, _, t, ht, hfl⟩ := hc
      exact absurd hfl (no_validTree_of_treeNonEmpty rfl hs ht)
    | inr hc =>
      obtain ⟨_, _, t, _, _, hn⟩ := hc
      have := (cleanupNames_getLast hn).1
      cases this

example : parse ⟨false, true⟩ witnessCoZero = .error (.panic .subClauses) :=
  panicOf_eq parse_panics_co_zero_clauses

/-- **(a), exactly**, for the code as it is: the parser panics iff the option `clause_tree` is
set, a clause tree line `c co …` was read, the order lines and the problem line are well formed,
the variable counts fit, the format is `cnf` and the declared number of clauses is `0`. -/
theorem parse_panic_exact (o : Opts) (inp : Bytes) (k : PanicKind) :
    parse o inp = .error (.panic k) ↔
      k = .subClauses ∧ ∃ st fmt nv nc, PanicSite Cfg.fixed o inp st fmt nv nc ∧
        o.clauseTree = true ∧ st.clauseTree.isSome = true ∧ fmt = .cnf ∧ nc = 0 := by
  constructor
  · intro h
    have hk := parse_no_oob o inp k h
    subst hk
    obtain ⟨st, fmt, nv, nc, hs, hc⟩ := (parseCfg_panic_exact Cfg.fixed o inp _).1 h
    refine ⟨rfl, st, fmt, nv, nc, hs, ?_⟩
    cases hc with
    | inl hc => exact ⟨hc.2.2.1, hc.2.2.2.1, hc.2.2.2.2.1, hc.2.2.2.2.2⟩
    | inr hc =>
      cases hc with
      | inl hc => cases hc.1
      | inr hc => cases hc.1
  · rintro ⟨rfl, st, fmt, nv, nc, hs, h1, h2, h3, h4⟩
    exact (parseCfg_panic_exact Cfg.fixed o inp _).2
      ⟨st, fmt, nv, nc, hs, .inl ⟨rfl, rfl, h1, h2, h3, h4⟩⟩

/-- **(a), partial**: without the option `clause_tree` the parser never panics, whatever the
bytes and whether or not `var_order` is set. -/
theorem parse_no_panic_partial (o : Opts) (h : o.clauseTree = false) (inp : Bytes) (k : PanicKind) :
    parse o inp ≠ .error (.panic k) := by
  intro hp
  obtain ⟨_, _, _, _, _, _, hct, _⟩ := (parse_panic_exact o inp k).1 hp
  rw [h] at hct; cases hct

/-- in particular with the default options -/
theorem parse_no_panic_plain (inp : Bytes) (k : PanicKind) :
    parse ⟨false, false⟩ inp ≠ .error (.panic k) :=
  parse_no_panic_partial ⟨false, false⟩ rfl inp k

/-- `p cnf 1 1\n1 0\n` is accepted -/
example : (parse ⟨false, false⟩ [112, 32, 99, 110, 102, 32, 49, 32, 49, 10, 49, 32, 48, 10]).toOption.isSome = true := by
  decide

/-- With the proposed repair (`max_clause.1 + 1 != num_clauses.1`, `proposed_fix.diff`) the parser
never panics: for all byte strings and all option settings it returns a problem or a
diagnostic. -/
theorem parseProposed_no_panic (o : Opts) (inp : Bytes) (k : PanicKind) :
    parseProposed o inp ≠ .error (.panic k) := by
  intro h
  obtain ⟨st, fmt, nv, nc, hs, hc⟩ := (parseCfg_panic_exact Cfg.proposed o inp k).1 h
  cases hc with
  | inl hc => cases hc.2.1
  | inr hc =>
    cases hc with
    | inl hc =>
      obtain ⟨_, _, t, ht, hfl⟩ := hc
      exact absurd hfl (no_validTree_of_treeNonEmpty rfl hs ht)
    | inr hc =>
      obtain ⟨_, _, t, _, _, hn⟩ := hc
      have := (cleanupNames_getLast hn).1
      cases this

/-- the witness of the open finding gets a diagnostic -/
example : isFail (parseProposed ⟨false, true⟩ witnessCoZero) = true := by decide

/-- Before commits 8fca6ca and 393b137: three sites, and only these. -/
theorem parseBeforeFix_no_oob (o : Opts) (inp : Bytes) (k : PanicKind)
    (h : parseBeforeFix o inp = .error (.panic k)) :
    k = .subClauses ∨ k = .validTree ∨ k = .validNames := by
  have := parseCfg_sat Cfg.beforeFix o inp
  unfold parseBeforeFix at h
  rw [h] at this
  exact this k rfl

/-- … and exactly when (see `parseCfg_panic_exact` for the reading) -/
theorem parseBeforeFix_panic_exact (o : Opts) (inp : Bytes) (k : PanicKind) :
    parseBeforeFix o inp = .error (.panic k) ↔
      ∃ st fmt nv nc, PanicSite Cfg.beforeFix o inp st fmt nv nc ∧
        ((k = .subClauses ∧ o.clauseTree = true ∧ st.clauseTree.isSome = true ∧ fmt = .cnf ∧ nc = 0) ∨
         (k = .validTree ∧ preChkClauses Cfg.beforeFix st fmt nc = .ok () ∧
            ∃ t, st.orderTree = some t ∧ t.flatten = []) ∨
         (k = .validNames ∧ preChkClauses Cfg.beforeFix st fmt nc = .ok () ∧
            ∃ t, st.orderTree = some t ∧ t.flatten ≠ [] ∧
              (cleanupNames Cfg.beforeFix st.names).getLast? = some none)) := by
  unfold parseBeforeFix
  rw [parseCfg_panic_exact]
  constructor
  · rintro ⟨st, fmt, nv, nc, hs, hc⟩
    refine ⟨st, fmt, nv, nc, hs, ?_⟩
    cases hc with
    | inl hc => exact .inl ⟨hc.1, hc.2.2⟩
    | inr hc => exact .inr hc
  · rintro ⟨st, fmt, nv, nc, hs, hc⟩
    refine ⟨st, fmt, nv, nc, hs, ?_⟩
    cases hc with
    | inl hc => exact .inl ⟨hc.1, rfl, hc.2⟩
    | inr hc => exact .inr hc

/-! ## (b) accepted problems are internally consistent -/

/-- what the oracle `sane` of the harness checks on the real parser, and more -/
structure WellFormed (p : Problem') : Prop where
  /-- the number of variables is one the parser accepts -/
  len : p.vars.len ≤ maxCap
  /-- a linear order, when present, is a permutation of the declared variables -/
  order : p.vars.order = [] ∨
    (p.vars.order.length = p.vars.len ∧ p.vars.order.Nodup ∧ ∀ x ∈ p.vars.order, x < p.vars.len)
  /-- an order tree comes with its non-empty flattening as the linear order -/
  tree : ∀ t, p.vars.orderTree = some t → p.vars.order = t.flatten ∧ p.vars.order ≠ []
  /-- the name table is not longer than the variables and has minimal length -/
  names : p.vars.names.length ≤ p.vars.len ∧ p.vars.names.getLast? ≠ some none
  /-- every input of gate `j` is a constant, a declared variable, or a gate before `j` (so every
  literal names something that exists, the clause tree refers to existing clauses only, and the
  circuit is acyclic) -/
  gates : Topo p.vars.len p.gates
  /-- the root names something that exists -/
  root : litOk p.vars.len p.gates.length p.root

/-- **(b)** Every problem the parser accepts — whatever the bytes and the options — is
internally consistent. -/
theorem parseCfg_ok_wellformed (cfg : Cfg) (o : Opts) (inp : Bytes) (p : Problem')
    (h : parseCfg cfg o inp = .ok p) : WellFormed p := by
  unfold parseCfg at h
  have hp := preamble_sat cfg o.varOrder o.clauseTree inp
  split at h
  · cases h
  · rename_i pre rest he
    obtain ⟨hout, _⟩ := hp.of_ok he
    dsimp only at hout
    have key : p.vars = pre.vars ∧ Topo pre.vars.len p.gates ∧
        litOk pre.vars.len p.gates.length p.root := by
      split at h
      · exact cnfParse_wf pre rest p h
      · exact satParse_wf pre.vars _ _ rest p h
    obtain ⟨hv, ht, hr⟩ := key
    have h1 := hout.len
    have h2 := hout.order
    have h3 := hout.otree
    have h4 := hout.names
    rw [← hv] at h1 h2 h3 h4 ht hr
    exact ⟨h1, h2, h3, h4, ht, hr⟩

/-- **(b)** for the code as it is -/
theorem parse_ok_wellformed (o : Opts) (inp : Bytes) (p : Problem') (h : parse o inp = .ok p) :
    WellFormed p := parseCfg_ok_wellformed Cfg.fixed o inp p h

/-- `c 1 a`, `c 2 b`, `c 3`, `c co [[0, 1], [2]]`, `p cnf 3 3`, `1 2 0 -1 3 0 x 1 2 3 0` with both
options: accepted (records, names, clause tree, an XOR clause) -/
example : (parse ⟨true, true⟩ [99, 32, 49, 32, 97, 10, 99, 32, 50, 32, 98, 10, 99, 32, 51, 10, 99, 32, 99, 111, 32, 91, 91, 48, 44, 32, 49, 93, 44, 32, 91, 50, 93, 93, 10, 112, 32, 99, 110, 102, 32, 51, 32, 51, 10, 49, 32, 50, 32, 48, 32, 45, 49, 32, 51, 32, 48, 32, 120, 32, 49, 32, 50, 32, 51, 32, 48, 10]).toOption.isSome = true := by decide

/-- `c vo [[2, 3], [1]]`, `p satex 3`, `=(xor(1 2) -(3))`: accepted (order tree, SAT formula) -/
example : (parse ⟨true, false⟩ [99, 32, 118, 111, 32, 91, 91, 50, 44, 32, 51, 93, 44, 32, 91, 49, 93, 93, 10, 112, 32, 115, 97, 116, 101, 120, 32, 51, 10, 61, 40, 120, 111, 114, 40, 49, 32, 50, 41, 32, 45, 40, 51, 41, 41, 10]).toOption.isSome = true := by decide

end OxiddModel.DimacsParse
