import OxiddModel.DimacsParse.LemmasWf
import OxiddModel.AigerParse.Roundtrip

/-!
# (c) Print / parse round trip for CNF files

`printCnf c` writes a CNF (with XOR clauses) in the plain shape
`p cnf <#vars> <#clauses>\n` followed by one line ` [x] <lit> … <lit> 0` per clause. For every
admissible `c` the parser (default options) reads exactly the printed clauses back:
`parse ⟨false, false⟩ (printCnf c) = cnfRoot vars none (cnfGates c)`, where `cnfGates` is the list of
OR / XOR gates the clauses denote and `cnfRoot` is the parser's own, input-independent
post-processing (`retain_gates`, the final AND gate), which is total on such lists
(`cnfRoot_cnfGates_ok`).

`printNat`, `NoDigitHead`, `u64Loop_digits` … are those of `OxiddModel.AigerParse.Roundtrip`.
-/
namespace OxiddModel.DimacsParse

open OxiddModel.Circuit
open OxiddModel.AigerParse (isDigit isSpace isAlnum u64Loop space0 maxCap printNat NoDigitHead
  u64Loop_digits printNat_digits digitsVal digitsVal_printNat printNat_ne_nil)

/-- a CNF: number of variables, clauses of (is XOR, literals (negated, variable ≥ 1)) -/
structure CnfFile where
  nvars : Nat
  clauses : List (Bool × List (Bool × Nat))

def CnfFile.Admissible (c : CnfFile) : Prop :=
  c.nvars ≤ maxCap ∧ c.clauses.length < maxCap ∧
    ∀ cl ∈ c.clauses, ∀ l ∈ cl.2, 1 ≤ l.2 ∧ l.2 ≤ c.nvars

def printLit (l : Bool × Nat) : Bytes := 32 :: ((if l.1 then [45] else []) ++ printNat l.2)

def printClause (cl : Bool × List (Bool × Nat)) : Bytes :=
  (if cl.1 then [120] else []) ++ (cl.2.flatMap printLit ++ [32, 48, 10])

def printCnf (c : CnfFile) : Bytes :=
  [112, 32, 99, 110, 102, 32] ++ (printNat c.nvars ++ 32 :: (printNat c.clauses.length ++
    10 :: c.clauses.flatMap printClause))

def toLit (l : Bool × Nat) : Lit := .input l.1 (l.2 - 1)

def toGate (cl : Bool × List (Bool × Nat)) : Gate := (if cl.1 then .xor else .or, cl.2.map toLit)

/-- the gates the clauses denote -/
def cnfGates (c : CnfFile) : Gates := c.clauses.map toGate

/-! ## tokens -/

theorem u64_print (n : Nat) (hn : n < 2 ^ 64) (rest : Bytes) (hr : NoDigitHead rest) :
    u64 (printNat n ++ rest) = .ok (n, rest) := by
  have hd := printNat_digits n
  have hv := digitsVal_printNat n
  have hne := printNat_ne_nil n
  generalize printNat n = ds at hd hv hne
  cases ds with
  | nil => exact absurd rfl hne
  | cons d ds =>
    have hdd : isDigit d = true := hd d (List.mem_cons_self ..)
    have hv' : digitsVal (d - 48) ds = n := by
      simpa [digitsVal] using hv
    simp only [List.cons_append, u64, hdd, if_true]
    rw [u64Loop_digits ds (d - 48) rest (fun x hx => hd x (List.mem_cons_of_mem _ hx)) hr
      (by rw [hv']; exact hn), hv']

theorem printNat_head (n : Nat) : ∃ d ds, printNat n = d :: ds ∧ isDigit d = true := by
  have hd := printNat_digits n
  have hne := printNat_ne_nil n
  cases h : printNat n with
  | nil => exact absurd h hne
  | cons d ds => exact ⟨d, ds, rfl, hd d (h ▸ List.mem_cons_self ..)⟩

theorem digit_not_space {d : Nat} (h : isDigit d = true) :
    isSpace d = false ∧ isMultispace d = false := by
  simp only [isDigit, Bool.and_eq_true, decide_eq_true_eq] at h
  simp only [isSpace, isMultispace, Bool.or_eq_false_iff, beq_eq_false_iff_ne]
  omega

theorem space0_printNat (n : Nat) (rest : Bytes) :
    space0 (printNat n ++ rest) = printNat n ++ rest := by
  obtain ⟨d, ds, h, hd⟩ := printNat_head n
  rw [h]
  simp [space0, (digit_not_space hd).1]

theorem multispace0_printNat (n : Nat) (rest : Bytes) :
    multispace0 (printNat n ++ rest) = printNat n ++ rest := by
  obtain ⟨d, ds, h, hd⟩ := printNat_head n
  rw [h]
  simp [multispace0, (digit_not_space hd).2]

theorem cnfLex_int (n : Nat) (hn : n < 2 ^ 64) (rest : Bytes) (hr : NoDigitHead rest) :
    cnfLex (printNat n ++ rest) = some (.int n, rest) := by
  unfold cnfLex
  simp only [multispace0_printNat, u64_print n hn rest hr]

theorem cnfLex_sep (rest : Bytes) : cnfLex (32 :: rest) = cnfLex rest ∧
    cnfLex (10 :: rest) = cnfLex rest := by
  constructor <;> simp [cnfLex, multispace0, isMultispace]

theorem cnfLex_neg (rest : Bytes) : cnfLex (45 :: rest) = some (.neg, rest) := by
  simp [cnfLex, multispace0, isMultispace, u64, isDigit]

theorem cnfLex_xor (rest : Bytes) : cnfLex (120 :: rest) = some (.xor, rest) := by
  simp [cnfLex, multispace0, isMultispace, u64, isDigit]

/-! ## the token loop -/

theorem pushInputs_snoc (done : Gates) (k : Kind) (ins ls : List Lit) :
    pushInputs (done ++ [(k, ins)]) ls = .ok (done ++ [(k, ins ++ ls)]) := by
  unfold pushInputs
  rw [appendLast_snoc]
  simp

theorem setLastKind_snoc (kind k : Kind) (ins : List Lit) : ∀ done : Gates,
    setLastKind kind (done ++ [(k, ins)]) = .ok (done ++ [(kind, ins)])
  | [] => rfl
  | [g] => by
    obtain ⟨k', i'⟩ := g
    simp [setLastKind]
  | g :: g' :: gs => by
    have ih := setLastKind_snoc kind k ins (g' :: gs)
    simp only [List.cons_append] at ih ⊢
    rw [setLastKind, ih]

theorem pushGate_snoc (gs : Gates) (k : Kind) (h : gs.length + 1 < vecLimit) :
    pushGate gs k = .ok (.gate false gs.length, gs ++ [(k, [])]) := by
  unfold pushGate mkGate
  rw [if_neg (by omega), if_pos (by unfold vecLimit at h; omega)]

theorem noDigitHead_lits (ls : List (Bool × Nat)) (rest : Bytes) (hr : NoDigitHead rest) :
    NoDigitHead (ls.flatMap printLit ++ rest) := by
  cases ls with
  | nil => simpa using hr
  | cons l ls => simp [printLit, NoDigitHead, isDigit]

/-- the literals of one clause: each ` [-]<var>` appends one input to the last gate -/
theorem cnfLoop_lits (nv : Nat) (hnv : nv ≤ maxCap) : ∀ (ls : List (Bool × Nat)) (fuel : Nat)
    (done : Gates) (k : Kind) (ins : List Lit) (rest : Bytes),
    (∀ l ∈ ls, 1 ≤ l.2 ∧ l.2 ≤ nv) → NoDigitHead rest →
    (ls.flatMap printLit ++ rest).length + 1 ≤ fuel →
    ∃ fuel', rest.length + 1 ≤ fuel' ∧
      cnfLoop nv fuel (done ++ [(k, ins)]) false (ls.flatMap printLit ++ rest) =
      cnfLoop nv fuel' (done ++ [(k, ins ++ ls.map toLit)]) false rest := by
  intro ls
  induction ls with
  | nil =>
    intro fuel done k ins rest _ _ hf
    exact ⟨fuel, by simpa using hf, by simp⟩
  | cons l ls ih =>
    intro fuel done k ins rest hok hr hf
    obtain ⟨neg, v⟩ := l
    have hv := hok (neg, v) List.mem_cons_self
    dsimp only at hv
    have hv64 : v < 2 ^ 64 := by unfold maxCap at hnv; omega
    have hnd := noDigitHead_lits ls rest hr
    have hin : mkInput neg (v - 1) = .ok (toLit (neg, v)) := by
      unfold mkInput; rw [if_pos (by unfold maxCap at hnv; omega)]; rfl
    simp only [List.flatMap_cons, printLit, List.cons_append, List.append_assoc,
      List.length_cons, List.length_append] at hf ⊢
    cases neg with
    | false =>
      simp only [Bool.false_eq_true, if_false, List.nil_append, List.length_nil] at hf ⊢
      obtain ⟨f1, rfl⟩ : ∃ f1, fuel = f1 + 1 := ⟨fuel - 1, by omega⟩
      obtain ⟨fuel', hf', heq⟩ := ih f1 done k (ins ++ [toLit (false, v)]) rest
        (fun l hl => hok l (List.mem_cons_of_mem _ hl)) hr
        (by simp only [List.length_append] at hf ⊢; omega)
      refine ⟨fuel', hf', ?_⟩
      rw [cnfLoop, (cnfLex_sep _).1, cnfLex_int v hv64 _ hnd]
      simp only
      rw [if_neg (by omega), if_neg (by omega), hin]
      simp only [pushInputs_snoc]
      rw [heq]
      simp
    | true =>
      simp only [if_true, List.cons_append, List.nil_append, List.length_cons] at hf ⊢
      obtain ⟨f2, rfl⟩ : ∃ f2, fuel = f2 + 2 := ⟨fuel - 2, by omega⟩
      obtain ⟨fuel', hf', heq⟩ := ih f2 done k (ins ++ [toLit (true, v)]) rest
        (fun l hl => hok l (List.mem_cons_of_mem _ hl)) hr
        (by simp only [List.length_append] at hf ⊢; omega)
      refine ⟨fuel', hf', ?_⟩
      rw [cnfLoop, (cnfLex_sep _).1, cnfLex_neg]
      simp only [Bool.not_false, if_true]
      rw [cnfLoop, cnfLex_int v hv64 _ hnd]
      simp only
      rw [if_neg (by omega), if_neg (by omega), hin]
      simp only [pushInputs_snoc]
      rw [heq]
      simp

/-- one clause line: the gate under construction is completed and a new one is opened -/
theorem cnfLoop_clause (nv : Nat) (hnv : nv ≤ maxCap) (cl : Bool × List (Bool × Nat)) (fuel : Nat)
    (done : Gates) (rest : Bytes)
    (hok : ∀ l ∈ cl.2, 1 ≤ l.2 ∧ l.2 ≤ nv) (hlen : done.length + 2 < vecLimit)
    (hf : (printClause cl ++ rest).length + 1 ≤ fuel) :
    ∃ fuel', (10 :: rest).length + 1 ≤ fuel' ∧
      cnfLoop nv fuel (done ++ [(.or, [])]) false (printClause cl ++ rest) =
      cnfLoop nv fuel' (done ++ [toGate cl] ++ [(.or, [])]) false (10 :: rest) := by
  obtain ⟨x, ls⟩ := cl
  dsimp only at hok
  have hr : NoDigitHead (32 :: 48 :: 10 :: rest) := by simp [NoDigitHead, isDigit]
  have tail : ∀ (k : Kind) (fuel1 : Nat),
      (ls.flatMap printLit ++ (32 :: 48 :: 10 :: rest)).length + 1 ≤ fuel1 →
      ∃ fuel', (10 :: rest).length + 1 ≤ fuel' ∧
        cnfLoop nv fuel1 (done ++ [(k, [])]) false (ls.flatMap printLit ++ (32 :: 48 :: 10 :: rest)) =
        cnfLoop nv fuel' (done ++ [(k, ls.map toLit)] ++ [(.or, [])]) false (10 :: rest) := by
    intro k fuel1 hf1
    obtain ⟨f2, hf2, heq⟩ := cnfLoop_lits nv hnv ls fuel1 done k [] _ hok hr hf1
    obtain ⟨f3, rfl⟩ : ∃ f3, f2 = f3 + 1 := ⟨f2 - 1, by simp only [List.length_cons] at hf2; omega⟩
    refine ⟨f3, by simp only [List.length_cons] at hf2 ⊢; omega, ?_⟩
    rw [heq, cnfLoop, (cnfLex_sep _).1]
    have h0 : cnfLex (48 :: 10 :: rest) = some (.int 0, 10 :: rest) := by
      have := cnfLex_int 0 (by omega) (10 :: rest) (by simp [NoDigitHead, isDigit])
      rw [show printNat 0 = [48] by rw [printNat]; simp] at this
      exact this
    rw [h0]
    simp only [if_true, List.nil_append]
    rw [pushGate_snoc _ _ (by simp only [List.length_append, List.length_singleton]; omega)]
  cases x with
  | false =>
    simp only [printClause, Bool.false_eq_true, if_false, List.nil_append, List.append_assoc,
      List.cons_append, toGate] at hf ⊢
    obtain ⟨f', h1, h2⟩ := tail .or fuel hf
    exact ⟨f', h1, by simpa using h2⟩
  | true =>
    simp only [printClause, if_true, List.cons_append, List.nil_append, List.append_assoc,
      List.length_cons, toGate] at hf ⊢
    obtain ⟨f1, rfl⟩ : ∃ f1, fuel = f1 + 1 := ⟨fuel - 1, by omega⟩
    obtain ⟨fuel', hf', heq⟩ := tail .xor f1 (by omega)
    refine ⟨fuel', hf', ?_⟩
    rw [cnfLoop, cnfLex_xor]
    simp only [List.getLast?_concat, List.isEmpty_nil, Bool.not_true, Bool.false_eq_true, if_false,
      setLastKind_snoc]
    simpa using heq

/-- a separator before a token is skipped by `lex` -/
theorem cnfLoop_skip_nl (nv : Nat) (fuel : Nat) (gates : Gates) (neg : Bool) (X : Bytes)
    (h : cnfLex X ≠ none) : cnfLoop nv fuel gates neg (10 :: X) = cnfLoop nv fuel gates neg X := by
  cases fuel with
  | zero => rfl
  | succ f =>
    rw [cnfLoop, cnfLoop, (cnfLex_sep X).2]
    cases hx : cnfLex X with
    | none => exact absurd hx h
    | some p =>
      obtain ⟨t, r⟩ := p
      cases t <;> rfl

theorem cnfLex_printClause (nv : Nat) (hnv : nv ≤ maxCap) (cl : Bool × List (Bool × Nat))
    (rest : Bytes) (hok : ∀ l ∈ cl.2, 1 ≤ l.2 ∧ l.2 ≤ nv) :
    cnfLex (printClause cl ++ rest) ≠ none := by
  obtain ⟨x, ls⟩ := cl
  cases x with
  | true => simp [printClause, cnfLex_xor]
  | false =>
    cases ls with
    | nil =>
      have h0 : cnfLex (48 :: 10 :: rest) = some (.int 0, 10 :: rest) := by
        have := cnfLex_int 0 (by omega) (10 :: rest) (by simp [NoDigitHead, isDigit])
        rw [show printNat 0 = [48] by rw [printNat]; simp] at this
        exact this
      simp [printClause, (cnfLex_sep _).1, h0]
    | cons l ls =>
      obtain ⟨neg, v⟩ := l
      have hv := hok (neg, v) List.mem_cons_self
      dsimp only at hv
      cases neg with
      | true => simp [printClause, printLit, (cnfLex_sep _).1, cnfLex_neg]
      | false =>
        have := cnfLex_int v (by unfold maxCap at hnv; omega)
          (ls.flatMap printLit ++ (32 :: 48 :: 10 :: rest))
          (noDigitHead_lits ls _ (by simp [NoDigitHead, isDigit]))
        simp [printClause, printLit, (cnfLex_sep _).1, this]

/-- all clause lines -/
theorem cnfLoop_clauses (nv : Nat) (hnv : nv ≤ maxCap) : ∀ (cs : List (Bool × List (Bool × Nat)))
    (fuel : Nat) (done : Gates) (lead : Bytes),
    (∀ cl ∈ cs, ∀ l ∈ cl.2, 1 ≤ l.2 ∧ l.2 ≤ nv) → done.length + cs.length + 1 < vecLimit →
    (lead = [] ∨ lead = [10]) →
    (lead ++ cs.flatMap printClause).length + 1 ≤ fuel →
    ∃ rest, multispace0 rest = [] ∧
      cnfLoop nv fuel (done ++ [(.or, [])]) false (lead ++ cs.flatMap printClause) =
      .ok (done ++ cs.map toGate ++ [(.or, [])], rest) := by
  intro cs
  induction cs with
  | nil =>
    intro fuel done lead _ _ hlead hf
    obtain ⟨f1, rfl⟩ : ∃ f1, fuel = f1 + 1 := ⟨fuel - 1, by omega⟩
    refine ⟨lead, ?_, ?_⟩
    · cases hlead with
      | inl h => subst h; rfl
      | inr h => subst h; simp [multispace0, isMultispace]
    · cases hlead with
      | inl h => subst h; simp [cnfLoop, cnfLex, multispace0, u64]
      | inr h => subst h; simp [cnfLoop, cnfLex, multispace0, isMultispace, u64]
  | cons cl cs ih =>
    intro fuel done lead hok hlen hlead hf
    simp only [List.flatMap_cons, List.length_cons, List.map_cons] at hf hlen ⊢
    -- skip the leading newline of the previous line
    have hskip : ∀ fuel1, (printClause cl ++ cs.flatMap printClause).length + 1 ≤ fuel1 →
        ∃ rest, multispace0 rest = [] ∧
          cnfLoop nv fuel1 (done ++ [(.or, [])]) false (printClause cl ++ cs.flatMap printClause) =
          .ok (done ++ toGate cl :: cs.map toGate ++ [(.or, [])], rest) := by
      intro fuel1 hf1
      obtain ⟨f2, hf2, heq⟩ := cnfLoop_clause nv hnv cl fuel1 done (cs.flatMap printClause)
        (hok cl List.mem_cons_self) (by omega) hf1
      obtain ⟨rest, hr, heq2⟩ := ih f2 (done ++ [toGate cl]) [10]
        (fun c hc => hok c (List.mem_cons_of_mem _ hc))
        (by simp only [List.length_append, List.length_singleton]; omega) (.inr rfl)
        (by simpa using hf2)
      refine ⟨rest, hr, ?_⟩
      rw [heq]
      simp only [List.singleton_append] at heq2
      rw [heq2]
      simp
    cases hlead with
    | inl h =>
      subst h
      simpa using hskip fuel (by simpa using hf)
    | inr h =>
      subst h
      simp only [List.singleton_append, List.length_cons] at hf ⊢
      obtain ⟨rest, hr, heq⟩ := hskip fuel (by omega)
      refine ⟨rest, hr, ?_⟩
      rw [cnfLoop_skip_nl nv fuel _ _ _
        (cnfLex_printClause nv hnv cl _ (hok cl List.mem_cons_self))]
      exact heq

/-! ## the problem line, the whole file -/

theorem problemLine_print (nv nc : Nat) (hnv : nv ≤ maxCap) (hnc : nc ≤ maxCap) (body : Bytes) :
    problemLine ([112, 32, 99, 110, 102, 32] ++ (printNat nv ++ 32 :: (printNat nc ++ 10 :: body))) =
      .ok ((.cnf, nv, nc), body) := by
  have h1 : space1 (32 :: 99 :: 110 :: 102 :: 32 :: (printNat nv ++ 32 :: (printNat nc ++ 10 :: body))) =
      .ok ((), 99 :: 110 :: 102 :: 32 :: (printNat nv ++ 32 :: (printNat nc ++ 10 :: body))) := by
    simp [space1, isSpace, space0]
  have h2 : format (99 :: 110 :: 102 :: 32 :: (printNat nv ++ 32 :: (printNat nc ++ 10 :: body))) =
      .ok (.cnf, 32 :: (printNat nv ++ 32 :: (printNat nc ++ 10 :: body))) := by
    simp [format, formatInner, wordEnd, isAlnum, isDigit]
  have h3 : space1 (32 :: (printNat nv ++ 32 :: (printNat nc ++ 10 :: body))) =
      .ok ((), printNat nv ++ 32 :: (printNat nc ++ 10 :: body)) := by
    simp [space1, isSpace, space0_printNat]
  have h4 := u64_print nv (by unfold maxCap at hnv; omega) (32 :: (printNat nc ++ 10 :: body))
    (by simp [NoDigitHead, isDigit])
  have h5 : space1 (32 :: (printNat nc ++ 10 :: body)) = .ok ((), printNat nc ++ 10 :: body) := by
    simp [space1, isSpace, space0_printNat]
  have h6 := u64_print nc (by unfold maxCap at hnc; omega) (10 :: body)
    (by simp [NoDigitHead, isDigit])
  have h7 : lineEnding (space0 (10 :: body)) = .ok ((), body) := by
    simp [space0, isSpace, lineEnding]
  unfold problemLine problemLineInner
  simp only [List.cons_append, List.nil_append, h1, h2, h3, h4, h5, h6, h7, bind, Except.bind,
    pure, Except.pure]
  rw [if_neg (by omega)]
  simp only [if_true]
  rw [if_neg (by omega)]
  rfl

theorem cnfPop_snoc (gs : Gates) (nc : Nat) (h : gs.length = nc) :
    cnfPop (gs ++ [(.or, [])]) nc = .ok gs := by
  unfold cnfPop
  rw [if_pos (by simp; omega), if_pos (by simp; omega)]
  simp

/-- **(c)** A printed CNF file is read back: the parser (default options) sees exactly the
printed clauses, as OR / XOR gates over the declared variables, and hands them to its
post-processing `cnfRoot`. -/
theorem parse_printCnf (c : CnfFile) (h : c.Admissible) :
    parse ⟨false, false⟩ (printCnf c) = cnfRoot ⟨c.nvars, [], none, []⟩ none (cnfGates c) := by
  obtain ⟨hnv, hnc, hok⟩ := h
  have hpl := problemLine_print c.nvars c.clauses.length hnv (Nat.le_of_lt hnc)
    (c.clauses.flatMap printClause)
  have hcom : ∀ n r, comments (n + 1) (112 :: r) = .ok (112 :: r) := by
    intro n r; simp [comments]
  have hpre : preamble Cfg.fixed false false (printCnf c) =
      .ok (⟨.cnf, ⟨c.nvars, [], none, []⟩, c.clauses.length, none⟩, c.clauses.flatMap printClause) := by
    unfold preamble printCnf
    simp only [Bool.or_self, Bool.false_eq_true, if_false, List.cons_append, List.nil_append,
      List.length_cons, hcom]
    simp only [List.cons_append, List.nil_append] at hpl
    rw [hpl]
  obtain ⟨rest, hrest, hloop⟩ := cnfLoop_clauses c.nvars hnv c.clauses
    ((c.clauses.flatMap printClause).length + 1) [] [] hok
    (by unfold vecLimit; unfold maxCap at hnc; simp only [List.length_nil]; omega) (.inl rfl)
    (by simp)
  simp only [List.nil_append] at hloop
  unfold parse parseCfg
  simp only [hpre]
  unfold cnfParse
  rw [pushGate_snoc [] .or (by unfold vecLimit; simp)]
  simp only [List.nil_append, hloop, hrest, List.isEmpty_nil, Bool.not_true,
    Bool.false_eq_true, if_false]
  rw [cnfPop_snoc _ _ (by simp)]
  rfl

/-! ## the post-processing is total -/

theorem retainLoop_total : ∀ (gs : Gates) (f : Bool) (conj : List Lit) (gate : Nat) (kept : Gates),
    gate + gs.length ≤ 2 ^ 62 - 1 →
    ∃ p, retainLoop gs f conj gate kept = .ok p ∧ p.2.2.length ≤ kept.length + gs.length := by
  intro gs
  induction gs with
  | nil => intro f c g k _; exact ⟨_, rfl, by simp⟩
  | cons g gs ih =>
    intro f conj gate kept hb
    obtain ⟨k, ins⟩ := g
    simp only [List.length_cons] at hb ⊢
    simp only [retainLoop]
    split
    · obtain ⟨p, hp, hl⟩ := ih f conj gate kept (by omega)
      exact ⟨p, hp, by omega⟩
    · split
      · obtain ⟨p, hp, hl⟩ := ih true conj gate kept (by omega)
        exact ⟨p, hp, by omega⟩
      · rename_i l
        obtain ⟨p, hp, hl⟩ := ih false (conj ++ [l]) gate kept (by omega)
        exact ⟨p, hp, by omega⟩
      · have hg : mkGate false gate = .ok (.gate false gate) := by
          unfold mkGate; rw [if_pos (by omega)]
        rw [hg]
        obtain ⟨p, hp, hl⟩ := ih false (conj ++ [.gate false gate]) (gate + 1)
          (kept ++ [(k, ins)]) (by omega)
        refine ⟨p, hp, ?_⟩
        simp only [List.length_append, List.length_singleton] at hl
        omega

theorem cnfRoot_total (vars : VarSet) (gs : Gates) (h : gs.length < maxCap) :
    ∃ P, cnfRoot vars none gs = .ok P ∧ P.vars = vars := by
  unfold cnfRoot
  split
  · exact ⟨_, rfl, rfl⟩
  · obtain ⟨p, hp, hl⟩ := retainLoop_total gs false [] 0 [] (by unfold maxCap at h; omega)
    obtain ⟨f, conj, kept⟩ := p
    simp only [hp]
    split
    · exact ⟨_, rfl, rfl⟩
    · dsimp only at hl
      rw [pushGate_snoc kept .and (by
        unfold vecLimit; unfold maxCap at h; simp only [List.length_nil] at hl; omega)]
      simp only [pushInputs_snoc]
      exact ⟨_, rfl, rfl⟩

/-- **(c)**, with (b): a printed admissible CNF file is accepted, and the problem is the
well-formed one `cnfRoot` makes of the printed clauses. -/
theorem parse_printCnf_ok (c : CnfFile) (h : c.Admissible) :
    ∃ P, parse ⟨false, false⟩ (printCnf c) = .ok P ∧
      cnfRoot ⟨c.nvars, [], none, []⟩ none (cnfGates c) = .ok P ∧
      P.vars = ⟨c.nvars, [], none, []⟩ := by
  obtain ⟨P, hP, hv⟩ := cnfRoot_total ⟨c.nvars, [], none, []⟩ (cnfGates c)
    (by unfold cnfGates; simpa using h.2.1)
  exact ⟨P, by rw [parse_printCnf c h, hP], hP, hv⟩

/-- `p cnf 3 3`, ` 1 -2 0`, `x 2 3 0`, ` -3 0` -/
def exampleCnf : CnfFile :=
  ⟨3, [(false, [(false, 1), (true, 2)]), (true, [(false, 2), (false, 3)]), (false, [(true, 3)])]⟩

example : exampleCnf.Admissible := by
  refine ⟨by decide, by decide, ?_⟩
  decide

/-- the two proper clauses become gates 0 and 1, the unit clause a literal of the final AND -/
example : (cnfRoot ⟨3, [], none, []⟩ none (cnfGates exampleCnf)).toOption.map
      (fun p => (p.gates, p.root)) =
    some ([(.or, [.input false 0, .input true 1]), (.xor, [.input false 1, .input false 2]),
      (.and, [.gate false 0, .gate false 1, .input true 2])], .gate false 2) := by decide

end OxiddModel.DimacsParse
