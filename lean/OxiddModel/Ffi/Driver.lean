import OxiddModel.Util.Proto
import OxiddModel.Ffi.Model
import OxiddModel.Bdd.Model
import OxiddModel.Bdd.Store
import OxiddModel.Bcdd.Model
import OxiddModel.Zbdd.Model
import OxiddModel.Zbdd.Store
import OxiddModel.Reorder.Model

/-!
Line-protocol driver for the C interface model (protocol `capi`, scenario `c19_capi`).

Every operation line becomes one `Ffi.Call` executed by `Ffi.step` — the ownership state machine
of `Model.lean` — with the Rust API function behind the entry point taken from the tree models
(`OxiddModel.Bdd`, `OxiddModel.Bcdd`, `OxiddModel.Zbdd`). The printed tree is the one obtained by
walking a handle with `oxidd_*_cofactors` / `oxidd_*_node_var` (BCDD: the Shannon expansion, the
complement bits are not visible through the C API); `gc` and `end` print the number of inner
nodes reachable from the references counted by the `Rc` layer, i.e. from what the wrapper *code*
keeps alive, and every line ends with the documentation-level ledger ` | o<funcs> m<mrefs>`.
-/
namespace OxiddModel.Ffi

open OxiddModel

/-- variable order and names of the manager -/
structure Env where
  n : Nat := 0
  l2v : Array Nat := #[]
  v2l : Array Nat := #[]
  /-- name per variable, `""` = unnamed (`VarNameMap`) -/
  names : List String := []

namespace Env
def lvl (e : Env) (v : Nat) : Nat := e.v2l.getD v v
def vr (e : Env) (l : Nat) : Nat := e.l2v.getD l l
/-- assignment of the levels from the bits of `a` (bit `v` = value of variable `v`) -/
def sigma (e : Env) (a : Nat) : Nat → Bool := fun l => a.testBit (e.vr l)
end Env

/-- the Rust API of one diagram kind on denotations `α` -/
structure Kind (α : Type) where
  name : String
  showT : Env → α → String
  constT : Env → α
  constF : α
  var : Env → Nat → α
  notVar : Env → Nat → α
  isTerminal : α → Bool
  applyNot : Env → α → α
  /-- connectives and the other two-function entry points -/
  op2 : Env → String → Option (α → α → α)
  applyIte : Env → α → α → α → α
  /-- `apply_forall/exists/unique` -/
  applyq : Env → String → String → Option (α → α → α → α)
  /-- `subset0/subset1/change` by variable number -/
  varOp : Env → String → Option (α → Nat → α)
  subst : Option (Env → List (Nat × α) → α → α)
  cof : α → Option (α × α)
  nodeCount : α → Nat
  sat : Env → α → Bool
  valid : Env → α → Bool
  satCount : Env → Nat → α → Option Nat
  pickVec : Env → α → Option String
  pickDD : Env → α → α
  eval : Env → α → Nat → Bool
  level : α → Option Nat
  /-- the same function under the new order (`Env` is the new one, the array the old level→var map) -/
  reorder : Env → Array Nat → α → α
  /-- inner nodes stored after a collection with the given external references -/
  reach : Env → List α → Nat
  zconst : String → Option α
  singleton : Option (Env → Nat → α)
  makeNode : Option (α → α → α → α)

/-! ## BDD -/

namespace KBdd
open Bdd

partial def showT (e : Env) : BDD → String
  | .leaf true => "T"
  | .leaf false => "F"
  | .node l t f => s!"(v{e.vr l} {showT e t} {showT e f})"

def parseOp : String → Option Op
  | "and" => some .and | "or" => some .or | "nand" => some .nand | "nor" => some .nor
  | "xor" => some .xor | "equiv" => some .equiv | "imp" => some .imp | "imp_strict" => some .impStrict
  | _ => none

def parseQuant : String → Option Quant
  | "forall" => some .forall_ | "exists" => some .exists_ | "unique" => some .unique
  | _ => none

def reorderTree (e : Env) (old : Array Nat) : BDD → BDD
  | .leaf b => .leaf b
  | .node l t f => applyIte (var (e.lvl (old.getD l l))) (reorderTree e old t) (reorderTree e old f)

/-- arbitrary-precision naturals: `>> 1` is exact or NaN -/
def satCountNat (vars : Nat) : BDD → Option Nat
  | .leaf b => some (if b then 2 ^ vars else 0)
  | .node _ t e =>
    match satCountNat vars t, satCountNat vars e with
    | some a, some b => if (a + b) % 2 = 0 then some ((a + b) / 2) else none
    | _, _ => none

def kind : Kind BDD where
  name := "bdd"
  showT := showT
  constT := fun _ => .leaf true
  constF := .leaf false
  var := fun e v => var (e.lvl v)
  notVar := fun e v => notVar (e.lvl v)
  isTerminal := BDD.isLeaf
  applyNot := fun _ => applyNot
  op2 := fun _ s =>
    match parseOp s with
    | some op => some (applyBin op)
    | none =>
      match s with
      | "restrict" => some restrict
      | "pickset" => some pickCubeDDSet
      | _ => (parseQuant s).map fun q => quant q
  applyIte := fun _ => applyIte
  applyq := fun _ q op =>
    match parseQuant q, parseOp op with
    | some q, some op => some (applyQuant q op)
    | _, _ => none
  varOp := fun _ _ => none
  subst := some fun e ps f => substitute (substPrepare (ps.map fun p => (e.lvl p.1, p.2))) f
  cof := fun f => match f with
    | .node _ t e => some (t, e)
    | .leaf _ => none
  nodeCount := nodeCount
  sat := fun _ f => f != .leaf false
  valid := fun _ f => f == .leaf true
  satCount := fun _ vars f => satCountNat vars f
  pickVec := fun e f =>
    match pickCube (fun _ => false) f with
    | none => none
    | some path =>
      some (String.ofList ((List.range e.n).map fun v =>
        match path.lookup (e.lvl v) with
        | some true => '1'
        | some false => '0'
        | none => '-'))
  pickDD := fun _ => pickCubeDD (fun _ => false)
  eval := fun e f a => f.eval (e.sigma a)
  level := levelOf
  reorder := reorderTree
  reach := fun _ hs => (reachList hs).length
  zconst := fun _ => none
  singleton := none
  makeNode := none

end KBdd

/-! ## BCDD -/

namespace KBcdd
open Bcdd

/-- the Shannon expansion, as seen through `oxidd_bcdd_cofactors` -/
partial def showT (e : Env) (f : Edge) : String :=
  match f.n with
  | .top => if f.neg then "F" else "T"
  | .node l _ _ _ => s!"(v{e.vr l} {showT e (cofT f)} {showT e (cofE f)})"

def parseOp : String → Option Op
  | "and" => some .and | "or" => some .or | "nand" => some .nand | "nor" => some .nor
  | "xor" => some .xor | "equiv" => some .equiv | "imp" => some .imp | "imp_strict" => some .impStrict
  | _ => none

def parseQuant : String → Option Quant
  | "forall" => some .forall_ | "exists" => some .exists_ | "unique" => some .unique
  | _ => none

partial def reorderNode (e : Env) (old : Array Nat) : CNode → Edge
  | .top => terminal true
  | .node l t en f =>
    let f' := reorderNode e old f
    applyIte (var (e.lvl (old.getD l l))) (reorderNode e old t) (if en then applyNot f' else f')

def reorderEdge (e : Env) (old : Array Nat) (x : Edge) : Edge :=
  let r := reorderNode e old x.n
  if x.neg then applyNot r else r

def satCountNat (vars : Nat) : Bool → CNode → Option Nat
  | tag, .top => some (if tag then 0 else 2 ^ vars)
  | tag, .node _ t en e =>
    match satCountNat vars tag t, satCountNat vars (tag != en) e with
    | some a, some b => if (a + b) % 2 = 0 then some ((a + b) / 2) else none
    | _, _ => none

def kind : Kind Edge where
  name := "bcdd"
  showT := showT
  constT := fun _ => terminal true
  constF := terminal false
  var := fun e v => var (e.lvl v)
  notVar := fun e v => notVar (e.lvl v)
  isTerminal := fun f => f.n.isTop
  applyNot := fun _ => applyNot
  op2 := fun _ s =>
    match parseOp s with
    | some op => some (applyOp op)
    | none =>
      match s with
      | "restrict" => some restrict
      | "pickset" => some pickCubeDDSet
      | _ => (parseQuant s).map fun q => quant q
  applyIte := fun _ => applyIte
  applyq := fun _ q op =>
    match parseQuant q, parseOp op with
    | some q, some op => some (applyQuantOp q op)
    | _, _ => none
  varOp := fun _ _ => none
  subst := some fun e ps f => substitute (substPrepare (ps.map fun p => (e.lvl p.1, p.2))) f
  cof := fun f => match f.n with
    | .node .. => some (cofT f, cofE f)
    | .top => none
  nodeCount := nodeCount
  sat := fun _ f => f != terminal false
  valid := fun _ f => f == terminal true
  satCount := fun _ vars f => satCountNat vars f.neg f.n
  pickVec := fun e f =>
    match pickCube (fun _ => false) f with
    | none => none
    | some path =>
      some (String.ofList ((List.range e.n).map fun v =>
        match path.lookup (e.lvl v) with
        | some true => '1'
        | some false => '0'
        | none => '-'))
  pickDD := fun _ => pickCubeDD (fun _ => false)
  eval := fun e f a => evalEdge (e.sigma a) f
  level := fun f => match f.n with
    | .node l _ _ _ => some l
    | .top => none
  reorder := reorderEdge
  reach := fun _ hs => (hs.foldl (fun acc x => innerNodes x.n acc) []).length
  zconst := fun _ => none
  singleton := none
  makeNode := none

end KBcdd

/-! ## ZBDD -/

namespace KZbdd
open Zbdd

partial def showT (e : Env) : ZDD → String
  | .empty => "E"
  | .base => "B"
  | .node l hi lo => s!"(v{e.vr l} {showT e hi} {showT e lo})"

def parseOp : String → Option Op
  | "and" => some .and | "or" => some .or | "nand" => some .nand | "nor" => some .nor
  | "xor" => some .xor | "equiv" => some .equiv | "imp" => some .imp | "imp_strict" => some .impStrict
  | _ => none

def reorderTree (e : Env) (old : Array Nat) : ZDD → ZDD
  | .node l hi lo =>
    union (reorderTree e old lo) (subset .change (e.lvl (old.getD l l)) (reorderTree e old hi))
  | t => t

def satCountNat (n vars : Nat) (f : ZDD) : Option Nat :=
  let c := pathCount f
  if vars ≥ n then some (c <<< (vars - n))
  else if c % 2 ^ (n - vars) = 0 then some (c >>> (n - vars)) else none

def kind : Kind ZDD where
  name := "zbdd"
  showT := showT
  constT := fun e => constT e.n
  constF := constF
  var := fun e v => var e.n (e.lvl v)
  notVar := fun e v => notVar e.n (e.lvl v)
  isTerminal := ZDD.isTerminal
  applyNot := fun e => applyNot e.n
  op2 := fun e s =>
    match parseOp s with
    | some op => some (applyBin e.n op)
    | none =>
      match s with
      | "union" => some union
      | "intsec" => some intsec
      | "diff" => some diff
      | "pickset" => some pickCubeDDSet
      | _ => none
  applyIte := fun e => applyIte e.n
  applyq := fun _ _ _ => none
  varOp := fun e s =>
    match s with
    | "subset0" => some fun f v => subset .subset0 (e.lvl v) f
    | "subset1" => some fun f v => subset .subset1 (e.lvl v) f
    | "change" => some fun f v => subset .change (e.lvl v) f
    | _ => none
  subst := none
  cof := fun f => match f with
    | .node _ hi lo => some (hi, lo)
    | _ => none
  nodeCount := nodeCount
  sat := fun _ f => f != constF
  valid := fun e f => f == constT e.n
  satCount := fun e vars f => satCountNat e.n vars f
  pickVec := fun e f =>
    match pickCube (fun _ => false) f with
    | none => none
    | some path =>
      some (String.ofList ((List.range e.n).map fun v =>
        match path.lookup (e.lvl v) with
        | some (some true) => '1'
        | some (some false) => '0'
        | some none => '-'
        | none => '0'))
  pickDD := fun _ => pickCubeDD (fun _ => false)
  eval := fun e f a => evalEdge e.n (e.sigma a) f
  level := fun f => match f with
    | .node l _ _ => some l
    | _ => none
  reorder := reorderTree
  reach := fun e hs => (reachList e.n hs).length
  zconst := fun s => match s with
    | "empty" => some .empty
    | "base" => some .base
    | _ => none
  singleton := some fun e v => singleton (e.lvl v)
  makeNode := some fun v hi lo => makeNode v.level hi lo

end KZbdd

/-! ## the generic driver -/

/-- hex rendering of a truth table given as bits, least significant first -/
def toHex (n : Nat) : String :=
  if n = 0 then "0" else String.ofList (Nat.toDigits 16 n)

def parseBin (s : String) : Nat := s.foldl (fun a c => 2 * a + (if c == '1' then 1 else 0)) 0

structure DSt (α : Type) where
  env : Env := {}
  st : State α := {}
  /-- name ↦ handle value and number of C-owned references held under this name -/
  h : List (String × H α × Nat) := []
  /-- substitution objects: name ↦ id -/
  sids : List (String × Nat) := []
  nextId : Nat := 0
  /-- `inner_node_capacity = 0`: every node allocation fails -/
  cap0 : Bool := false
  ended : Bool := false

section generic
variable {α : Type} [DecidableEq α]

def DSt.tail (s : DSt α) : String := s!" | o{s.st.led.funcs.length} m{s.st.led.mrefs}"

def DSt.get (s : DSt α) (name : String) : Option (H α) :=
  match s.h.lookup name with
  | some (h, _) => some h
  | none => none

def DSt.bound (s : DSt α) (name : String) : Bool := (s.h.lookup name).isSome

/-- bind a fresh name to a returned handle -/
def DSt.bind (s : DSt α) (name : String) (h : H α) : DSt α :=
  { s with h := (name, h, if h.isValid then 1 else 0) :: s.h }

/-- one reference held under `name` is gone -/
def DSt.dec (s : DSt α) (name : String) : DSt α :=
  match s.h.lookup name with
  | some (.valid d, c) =>
    if c ≤ 1 then { s with h := s.h.filter (·.1 ≠ name) }
    else { s with h := s.h.map fun e => if e.1 = name then (name, .valid d, c - 1) else e }
  | _ => s

def DSt.inc (s : DSt α) (name : String) : DSt α :=
  { s with h := s.h.map fun e => match e with
    | (nm, .valid d, c) => if nm = name then (nm, .valid d, c + 1) else (nm, .valid d, c)
    | e => e }

def showH (K : Kind α) (e : Env) : H α → String
  | .valid d => K.showT e d
  | .invalid => "INVALID"

/-- the allocation behaviour of the manager: with capacity 0 every result that is not a terminal
is `Err(OutOfMemory)` -/
def alloc (K : Kind α) (cap0 : Bool) (r : α) : Option α :=
  if cap0 && !K.isTerminal r then none else some r

/-- execute a handle-returning call and bind the result -/
def callBind (K : Kind α) (cfg : Cfg) (s : DSt α) (name : String) (c : Call α) : DSt α × String :=
  if s.bound name then (s, "bad-op") else
  match step cfg s.st c with
  | some (st, .handle h) =>
    let s' := ({ s with st := st }).bind name h
    (s', showH K s.env h ++ s'.tail)
  | _ => (s, "bad-op")

def truthTable (K : Kind α) (e : Env) (f : α) : Nat :=
  (List.range (2 ^ e.n)).foldl (fun acc a => if K.eval e f a then acc ||| (1 <<< a) else acc) 0

/-- `VarNameMap::add_named`: returns the new names, and the variable already using a name -/
def addNamed (names : List String) : List String → List String × Option Nat
  | [] => (names, none)
  | nm :: rest =>
    if nm = "" then addNamed (names ++ [""]) rest
    else
      match names.findIdx? (· = nm) with
      | some v => (names, some v)
      | none => addNamed (names ++ [nm]) rest

def extendEnv (e : Env) (names : List String) : Env :=
  let n2 := names.length
  let k := n2 - e.n
  { n := n2, l2v := e.l2v ++ Array.range' e.n k, v2l := e.v2l ++ Array.range' e.n k, names := names }

def showOptV : Option Nat → String
  | some v => toString v
  | none => "-"

def stepK (K : Kind α) (cfg : Cfg) (s : DSt α) (line : String) : DSt α × String :=
  let ws := words line
  let e := s.env
  let fin (s' : DSt α) (o : String) : DSt α × String := (s', o ++ s'.tail)
  if s.ended then (s, "bad-op") else
  if ws.head? = some "dddmp" || ws.head? = some "dot" || ws.head? = some "import" then
    -- exports borrow their arguments; an invalid function makes the DDDMP export fail
    let names := (ws.drop 1).filter fun x => !x.contains '='
    let fs := names.filterMap s.get
    if fs.length ≠ names.length || names.isEmpty then (s, "bad-op")
    else if (step cfg s.st (.query fs)).isNone then (s, "bad-op")
    else if ws.head? = some "dot" then fin s "ok"
    else fin s (if fs.all (·.isValid) then "ok" else "err")
  else
  match ws with
  | ["addvars", k] =>
    match k.toNat? with
    | some k =>
      let e' := extendEnv e (e.names ++ List.replicate k "")
      fin { s with env := e' } s!"{e.n}..{e'.n}"
    | none => (s, "bad-op")
  | "addnamed" :: names =>
    -- `iter=1` selects `add_named_vars_iter`: same result
    let names := names.filter fun x => !x.contains '='
    let (names', dup) := addNamed e.names (names.map fun x => if x = "-" then "" else x)
    let e' := extendEnv e names'
    fin { s with env := e' } s!"{e.n}..{e'.n} dup={showOptV dup}"
  | ["numvars"] => fin s (toString e.n)
  | ["numnamed"] => fin s (toString (e.names.filter (· ≠ "")).length)
  | ["varname", v] =>
    match v.toNat? with
    | some v =>
      if v < e.n then
        let nm := e.names.getD v ""
        fin s (if nm = "" then "-" else nm)
      else (s, "bad-op")
    | none => (s, "bad-op")
  | ["varname", v, "cb=1"] =>
    -- `with_var_name`: the same name, seen by a callback
    match v.toNat? with
    | some v =>
      if v < e.n then
        let nm := e.names.getD v ""
        fin s (if nm = "" then "-" else nm)
      else (s, "bad-op")
    | none => (s, "bad-op")
  | ["name2var", nm] =>
    if nm = "-" then fin s "-" else fin s (showOptV (e.names.findIdx? (· = nm)))
  | ["setname", v, nm] =>
    match v.toNat? with
    | some v =>
      if v < e.n then
        if nm = "-" then fin { s with env := { e with names := e.names.set v "" } } "ok"
        else
          match e.names.findIdx? (· = nm) with
          | some w => if w = v then fin s "ok" else fin s s!"dup={w}"
          | none => fin { s with env := { e with names := e.names.set v nm } } "ok"
      else (s, "bad-op")
    | none => (s, "bad-op")
  | ["v2l", v] =>
    match v.toNat? with
    | some v => if v < e.n then fin s (toString (e.lvl v)) else (s, "bad-op")
    | none => (s, "bad-op")
  | ["l2v", l] =>
    match l.toNat? with
    | some l => if l < e.n then fin s (toString (e.vr l)) else (s, "bad-op")
    | none => (s, "bad-op")
  | "order" :: rest =>
    let order := rest.filterMap String.toNat?
    if order.length = rest.length && order.all (· < e.n) && order.eraseDups.length = order.length then
      let l2v := if order.length ≤ 1 then e.l2v else Reorder.newL2v e.l2v e.v2l order
      let v2l := Id.run do
        let mut a := Array.replicate e.n 0
        for l in [0 : e.n] do
          a := a.set! (l2v.getD l 0) l
        return a
      let e' : Env := { e with l2v := l2v, v2l := v2l }
      let r := K.reorder e' e.l2v
      let mapH : H α → H α := fun h => match h with
        | .valid d => .valid (r d)
        | .invalid => .invalid
      let st : State α := {
        rc := { s.st.rc with nodes := s.st.rc.nodes.map r }
        led := { s.st.led with funcs := s.st.led.funcs.map r,
                               pairs := s.st.led.pairs.map fun p => (p.1, p.2.1, r p.2.2) } }
      fin { s with env := e', st := st, h := s.h.map fun x => (x.1, mapH x.2.1, x.2.2) }
        (joinSp (l2v.toList.map toString))
    else (s, "bad-op")
  | ["const", name, v] =>
    if v = "T" then callBind K cfg s name (.construct (alloc K s.cap0 (K.constT e)))
    else if v = "F" then callBind K cfg s name (.construct (alloc K s.cap0 K.constF))
    else (s, "bad-op")
  | ["var", name, v] =>
    match v.toNat? with
    | some v => if v < e.n then callBind K cfg s name (.construct (alloc K s.cap0 (K.var e v))) else (s, "bad-op")
    | none => (s, "bad-op")
  | ["notvar", name, v] =>
    match v.toNat? with
    | some v => if v < e.n then callBind K cfg s name (.construct (alloc K s.cap0 (K.notVar e v))) else (s, "bad-op")
    | none => (s, "bad-op")
  | ["zconst", name, v] =>
    match K.zconst v with
    | some d => callBind K cfg s name (.construct (some d))
    | none => (s, "bad-op")
  | ["singleton", name, v] =>
    match K.singleton, v.toNat? with
    | some f, some v => if v < e.n then callBind K cfg s name (.construct (alloc K s.cap0 (f e v))) else (s, "bad-op")
    | _, _ => (s, "bad-op")
  | ["invalid", name] =>
    if s.bound name then (s, "bad-op") else fin (s.bind name .invalid) "INVALID"
  | ["pool", name, a, b] =>
    -- `oxidd_*_and` called from inside the worker pool
    match K.op2 e "and", s.get a, s.get b with
    | some f, some x, some y => callBind K cfg s name (.op2 (fun p q => alloc K s.cap0 (f p q)) x y)
    | _, _, _ => (s, "bad-op")
  | ["op", name, "not", a] =>
    match s.get a with
    | some f => callBind K cfg s name (.op1 (fun x => alloc K s.cap0 (K.applyNot e x)) f)
    | none => (s, "bad-op")
  | ["op", name, "ite", a, b, c] =>
    match s.get a, s.get b, s.get c with
    | some f, some g, some h => callBind K cfg s name (.op3 (fun x y z => alloc K s.cap0 (K.applyIte e x y z)) f g h)
    | _, _, _ => (s, "bad-op")
  | ["op", name, op, a, b] =>
    if op = "restrict" || op = "pickset" || op = "forall" || op = "exists" || op = "unique"
        || op = "union" || op = "intsec" || op = "diff" then (s, "bad-op") else
    match K.op2 e op, s.get a, s.get b with
    | some f, some x, some y => callBind K cfg s name (.op2 (fun p q => alloc K s.cap0 (f p q)) x y)
    | _, _, _ => (s, "bad-op")
  | ["quant", name, q, a, vs] =>
    if q = "forall" || q = "exists" || q = "unique" then
      match K.op2 e q, s.get a, s.get vs with
      | some f, some x, some y => callBind K cfg s name (.op2 (fun p q => alloc K s.cap0 (f p q)) x y)
      | _, _, _ => (s, "bad-op")
    else (s, "bad-op")
  | ["applyq", name, q, op, a, b, vs] =>
    match K.applyq e q op, s.get a, s.get b, s.get vs with
    | some f, some x, some y, some z => callBind K cfg s name (.op3 (fun p q r => alloc K s.cap0 (f p q r)) x y z)
    | _, _, _, _ => (s, "bad-op")
  | ["restrict", name, a, c] =>
    if K.name = "zbdd" then (s, "bad-op") else
    match K.op2 e "restrict", s.get a, s.get c with
    | some f, some x, some y => callBind K cfg s name (.op2 (fun p q => alloc K s.cap0 (f p q)) x y)
    | _, _, _ => (s, "bad-op")
  | ["pick", name, a] =>
    match s.get a with
    | some f => callBind K cfg s name (.op1 (fun x => alloc K s.cap0 (K.pickDD e x)) f)
    | none => (s, "bad-op")
  | ["pickset", name, a, b] =>
    match K.op2 e "pickset", s.get a, s.get b with
    | some f, some x, some y => callBind K cfg s name (.op2 (fun p q => alloc K s.cap0 (f p q)) x y)
    | _, _, _ => (s, "bad-op")
  | ["coft", name, a] =>
    -- `f.cofactor_true().into()`: `None` for terminals
    match s.get a with
    | some f => callBind K cfg s name (.op1 (fun x => (K.cof x).map (·.1)) f)
    | none => (s, "bad-op")
  | ["cofe", name, a] =>
    match s.get a with
    | some f => callBind K cfg s name (.op1 (fun x => (K.cof x).map (·.2)) f)
    | none => (s, "bad-op")
  | "mksubst" :: sid :: pairs =>
    if K.subst.isNone || (s.sids.lookup sid).isSome then (s, "bad-op") else
    let ps := pairs.filterMap fun p =>
      match p.splitOn "=" with
      | [v, hn] =>
        match v.toNat?, s.get hn with
        | some v, some h => if v < e.n then some (v, h) else none
        | _, _ => none
      | _ => none
    if ps.length ≠ pairs.length then (s, "bad-op")
    else if ps.any (fun p => !p.2.isValid) then fin s "skip-invalid"
    else
      let id := s.nextId
      let calls : List (Call α) := .substNew id :: ps.map fun p => .substAddPair id p.1 p.2
      match run cfg s.st calls with
      | some (st, _) => fin { s with st := st, sids := (sid, id) :: s.sids, nextId := id + 1 } "ok"
      | none => (s, "bad-op")
  | ["cof", n1, n2, a] =>
    if s.bound n1 || s.bound n2 || n1 = n2 then (s, "bad-op") else
    match s.get a with
    | some f =>
      match step cfg s.st (.cofactors K.cof f) with
      | some (st, .pair x y) =>
        let s' := (({ s with st := st }).bind n1 x).bind n2 y
        if x.isValid then fin s' s!"{showH K e x} {showH K e y}" else fin s' "none"
      | _ => (s, "bad-op")
    | none => (s, "bad-op")
  | [op, name, a, b] =>
    if op = "subset0" || op = "subset1" || op = "change" then
      match K.varOp e op, s.get a, b.toNat? with
      | some f, some x, some v =>
        if v < e.n then callBind K cfg s name (.op2Var (fun p v => alloc K s.cap0 (f p v)) x v) else (s, "bad-op")
      | _, _, _ => (s, "bad-op")
    else if op = "union" || op = "intsec" || op = "diff" then
      match K.op2 e op, s.get a, s.get b with
      | some f, some x, some y => callBind K cfg s name (.op2 (fun p q => alloc K s.cap0 (f p q)) x y)
      | _, _, _ => (s, "bad-op")
    else if op = "subst" then
      -- `subst h a s|NULL`
      if s.bound name then (s, "bad-op") else
      match K.subst, s.get a with
      | some f, some x =>
        if b = "NULL" then callBind K cfg s name (.substitute (fun p o => alloc K s.cap0 (f e o p)) x none)
        else
          match s.sids.lookup b with
          | some id => callBind K cfg s name (.substitute (fun p o => alloc K s.cap0 (f e o p)) x (some id))
          | none => (s, "bad-op")
      | _, _ => (s, "bad-op")
    else (s, "bad-op")
  | ["mknode", name, v, hi, lo] =>
    if s.bound name then (s, "bad-op") else
    match K.makeNode, s.get v, s.get hi, s.get lo with
    | some mk, some x, some y, some z =>
      match step cfg s.st (.makeNode (fun a b c => alloc K s.cap0 (mk a b c)) x y z) with
      | some (st, .handle h) =>
        -- the names `hi` and `lo` lose one reference each (documentation)
        let s' := (((({ s with st := st }).dec hi).dec lo).bind name h)
        (s', showH K e h ++ s'.tail)
      | _ => (s, "bad-op")
    | _, _, _, _ => (s, "bad-op")
  | ["othermgr", vars] =>
    -- a second manager is used on the same thread in between; the main manager is not touched
    match vars.toNat? with
    | some _ => fin s "ok"
    | none => (s, "bad-op")
  | [q, a] =>
    if q = "ref" then
      match s.get a with
      | some f =>
        match step cfg s.st (.ref f) with
        | some (st, _) => fin (({ s with st := st }).inc a) "ok"
        | none => (s, "bad-op")
      | none => (s, "bad-op")
    else if q = "unref" then
      match s.get a with
      | some f =>
        match step cfg s.st (.unref f) with
        | some (st, _) => fin (({ s with st := st }).dec a) "ok"
        | none => (s, "bad-op")
      | none => (s, "bad-op")
    else if q = "cmgr" then
      match s.get a with
      | some .invalid => fin s "skip-invalid"
      | some f =>
        match step cfg s.st (.containingManager f) with
        | some (st, _) => fin { s with st := st } "ok"
        | none => (s, "bad-op")
      | none => (s, "bad-op")
    else if q = "dropsubst" then
      match s.sids.lookup a with
      | some id =>
        match step cfg s.st (.substFree id) with
        | some (st, _) => fin { s with st := st, sids := s.sids.filter (·.1 ≠ a) } "ok"
        | none => (s, "bad-op")
      | none => (s, "bad-op")
    else
    match s.get a with
    | none => (s, "bad-op")
    | some .invalid =>
      if q = "level" || q = "nvar" then fin s "-"
      else if q = "count" || q = "sat" || q = "valid" || q = "pickvec" || q = "show" || q = "tt" then fin s "skip-invalid"
      else (s, "bad-op")
    | some (.valid f) =>
      if (step cfg s.st (.query [.valid f])).isNone then (s, "bad-op") else
      match q with
      | "count" => fin s (toString (K.nodeCount f))
      | "sat" => fin s (boolStr (K.sat e f))
      | "valid" => fin s (boolStr (K.valid e f))
      | "level" => fin s (showOptV (K.level f))
      | "nvar" => fin s (showOptV ((K.level f).map e.vr))
      | "show" => fin s (K.showT e f)
      | "tt" => fin s (toHex (truthTable K e f))
      | "pickvec" => fin s ((K.pickVec e f).getD "NONE")
      | _ => (s, "bad-op")
  | ["satcount", a, vars] =>
    match s.get a, vars.toNat? with
    | some .invalid, some _ => fin s "skip-invalid"
    | some (.valid f), some vars =>
      match K.satCount e vars f with
      | some c => fin s s!"{c} {c}"
      | none => fin s "NaN NaN"
    | _, _ => (s, "bad-op")
  | ["eval", a, bits] =>
    match s.get a with
    | some .invalid => fin s "skip-invalid"
    | some (.valid f) => fin s (boolStr (K.eval e f (parseBin bits)))
    | none => (s, "bad-op")
  | ["mref"] =>
    match step cfg s.st .managerRef with
    | some (st, _) => fin { s with st := st } "ok"
    | none => (s, "bad-op")
  | ["munref"] =>
    if s.st.led.mrefs ≤ 1 then (s, "bad-op") else
    match step cfg s.st .managerUnref with
    | some (st, _) => fin { s with st := st } "ok"
    | none => (s, "bad-op")
  | ["gc"] => fin s (toString (K.reach e s.st.rc.nodes))
  | q :: hs =>
    if q = "end" && hs.isEmpty then
      -- release everything the client owns, collect, release the manager
      match run cfg s.st (releaseAll s.st) with
      | some (st, _) =>
        let cnt := K.reach e st.rc.nodes
        match run cfg st (List.replicate st.led.mrefs .managerUnref) with
        | some (st', _) =>
          let s' : DSt α := { s with st := st', h := [], sids := [], ended := true }
          (s', toString cnt ++ s'.tail)
        | none => (s, "bad-op")
      | none => (s, "bad-op")
    else (s, "bad-op")
  | _ => (s, "bad-op")

end generic

/-! ## the protocol: the kind is chosen by the `mgr` line -/

inductive St where
  | none
  /-- the process executing the calls is gone (ZBDD `add_vars` without room for the tautology
  chain prints "Out of memory" and aborts) -/
  | dead
  | bdd (s : DSt Bdd.BDD)
  | bcdd (s : DSt Bcdd.Edge)
  | zbdd (s : DSt Zbdd.ZDD)

def kv (ws : List String) (key : String) : Option String :=
  ws.findSome? fun w => if w.startsWith (key ++ "=") then some (w.drop (key.length + 1)).toString else none

def newDSt {α : Type} [DecidableEq α] (cfg : Cfg) (vars : Nat) (cap0 : Bool) : DSt α :=
  let st : State α := match step cfg ({} : State α) .managerNew with
    | some (st, _) => st
    | none => {}
  { env := { n := vars, l2v := Array.range vars, v2l := Array.range vars, names := List.replicate vars "" },
    st := st, cap0 := cap0 }

def stepCfg (cfg : Cfg) (s : St) (line : String) : St × String :=
  match words line with
  | "mgr" :: kind :: rest =>
    let vars := ((kv rest "vars").bind String.toNat?).getD 0
    let cap0 := (kv rest "cap") == some "0"
    let cap := (kv rest "cap").bind String.toNat?
    match kind with
    | "bdd" => let d : DSt Bdd.BDD := newDSt cfg vars cap0; (.bdd d, "ok" ++ d.tail)
    | "bcdd" => let d : DSt Bcdd.Edge := newDSt cfg vars cap0; (.bcdd d, "ok" ++ d.tail)
    | "zbdd" =>
      -- known finding KF-zbdd-addvars-oom: no room for one tautology node per variable
      if (match cap with | some c => decide (c < vars) | none => false) then (.dead, "CRASH") else
      let d : DSt Zbdd.ZDD := newDSt cfg vars cap0; (.zbdd d, "ok" ++ d.tail)
    | _ => (s, "bad-op")
  | _ =>
    match s with
    | .none => (s, "bad-op")
    | .dead => (s, "DEAD")
    | .bdd d => let (d', o) := stepK KBdd.kind cfg d line; (.bdd d', o)
    | .bcdd d => let (d', o) := stepK KBcdd.kind cfg d line; (.bcdd d', o)
    | .zbdd d => let (d', o) := stepK KZbdd.kind cfg d line; (.zbdd d', o)

/-- the code as it is in /repo -/
def proto : Proto := { σ := St, init := .none, step := stepCfg Cfg.current }

/-- the wrapper before `oxidd_zbdd_make_node` was repaired (leaks `hi`/`lo` when `var` or `hi` is
invalid); reproduces the stream of the unfixed library -/
def protoBeforeFix : Proto := { σ := St, init := .none, step := stepCfg Cfg.beforeFix }

/-- registered as `capi-fixed` in `Main.lean` while the fix was pending; now the same as `proto` -/
def protoFixed : Proto := proto

end OxiddModel.Ffi
