import OxiddModel.Util.Proto
import OxiddModel.Generated.SrcFfiAbi

/-!
# Driver of the `capi-abi` stream (C19): layouts and the INVALID bit pattern predicted from the source

Every output line of `harness/src/bin/c19_abi.rs` (`size_of` / `align_of` / `offset_of!` of the
harness's `#[repr(C)]` mirrors as rustc lays them out, the bytes of the handle that the real
`liboxidd_ffi_c.so` returns for an INVALID argument, handles / pairs / manager handles passed and
returned by value) is predicted here from the tables `tools/extract_ffi_abi.py` extracts from
`crates/oxidd-ffi-c/src/*.rs`, with the C layout algorithm of `Generated/RulesFfiAbi.lean`.
The driver is stateless.
-/
namespace OxiddModel.Ffi.DriverAbi
open OxiddModel.Generated OxiddModel.Generated.Abi

def commaNats (l : List Nat) : String := ",".intercalate (l.map toString)

/-- `layout <c type>`: the row of the mirror table gives the parsed type -/
def layoutLine (ss : List Struct) (es : List Enum) (tbl : List MirrorRow) (ty : String) : String :=
  match tbl.find? (·.cname = ty) with
  | none => "bad-op"
  | some r =>
    match layoutOf ss es r.cty with
    | none => "bad-op"
    | some (l, offs) => s!"layout {ty} size={l.size} align={l.align} offsets={commaNats offs}"

def hexDigit (n : Nat) : Char := "0123456789abcdef".toList.getD n '?'
def hexByte (b : Nat) : String := String.ofList [hexDigit (b / 16 % 16), hexDigit (b % 16)]

/-- `n` little-endian bytes of `v` -/
def leBytes : Nat → Nat → List Nat
  | 0, _ => []
  | n + 1, v => (v % 256) :: leBytes n (v / 256)

/-- write `bs` at offset `off` -/
def writeAt (buf : List Nat) (off : Nat) (bs : List Nat) : List Nat :=
  buf.take off ++ bs ++ buf.drop (off + bs.length)

/-- the bytes of a struct value given by (field, integer value) pairs in declaration order;
padding is zero (the harness reads a value produced by a `const`, whose padding rustc zeroes —
the handle structs have none) -/
def structBytes (ss : List Struct) (es : List Enum) (name : String) (vals : List (String × Nat)) : Option (List Nat) :=
  match ss.find? (·.name = name), layoutOf ss es (.named name) with
  | some s, some (l, offs) =>
    if s.fields.map (·.1) ≠ vals.map (·.1) then none else
    let sizes := s.fields.map fun f => ((layTy ss es layFuel f.2).map (·.size)).getD 0
    some ((offs.zip (sizes.zip (vals.map (·.2)))).foldl (fun buf x => writeAt buf x.1 (leBytes x.2.1 x.2.2))
      (List.replicate l.size 0))
  | _, _ => none

def invalidLine (ss : List Struct) (es : List Enum) (fams : List Family) (k : String) : String :=
  match fams.find? (·.kind = k) with
  | none => "bad-op"
  | some fam =>
    match structBytes ss es fam.funcTy fam.invalid with
    | none => s!"invalid {k} error:layout"
    | some bs => s!"invalid {k} bytes={String.join (bs.map hexByte)}"

/-- documented roles of the fields of `oxidd_<k>_pair_t` -/
def pairRole : String → String
  | "first" => "cofactor_true"
  | "second" => "cofactor_false"
  | _ => "other"

def pairLine (ss : List Struct) (fams : List Family) (k : String) : String :=
  match fams.find? (·.kind = k) with
  | none => "bad-op"
  | some fam =>
    match ss.find? (·.name = fam.pairTy) with
    | some s =>
      match s.fields.map (·.1) with
      | [a, b] => s!"pair {k} first={pairRole a} second={pairRole b} valid=1"
      | _ => s!"pair {k} error:fields"
    | none => s!"pair {k} error:nopair"

def managerLine (fams : List Family) (k : String) : String :=
  if fams.any (·.kind = k) then s!"manager {k} containing=1 ref_same=1 num_vars=1" else "bad-op"

def stepOn (ss : List Struct) (es : List Enum) (fams : List Family) (tbl : List MirrorRow) (line : String) : String :=
  match words line with
  | ["layout", ty] => layoutLine ss es tbl ty
  | ["invalid", k] => invalidLine ss es fams k
  | ["pair", k] => pairLine ss fams k
  | ["manager", k] => managerLine fams k
  | _ => "bad-op"

def step (line : String) : String := stepOn abiStructs abiEnums abiFamilies abiMirrorTable line

end OxiddModel.Ffi.DriverAbi

namespace OxiddModel.Ffi
/-- protocol `capi-abi` -/
def protoAbi : OxiddModel.Proto :=
  { σ := Unit, init := (), step := fun s l => (s, DriverAbi.step l) }
end OxiddModel.Ffi
