import OxiddModel.Ffi.Driver
import OxiddModel.Ffi.Multi

/-!
Line-protocol driver for several managers alive at once (protocol `capi-multi`, scenario
`c19_capi_multi`).

```text
mgr <name> <bdd|bcdd|zbdd> vars=<n>     a new manager under <name> (a live one of that name must
                                        have been ended before)
@<name> <operation line of `capi`>      the operation on that manager (everything of `Driver.lean`)
@<name> mlast <h>                       unref the LAST manager handle while the function handle <h>
                                        is live, use <h>, then get a manager handle back with
                                        `containing_manager(h)`: the manager must have survived
```

The state is the finite map of `Multi.lean` (manager name ↦ single-manager component, here with the
kind-specific driver state `Ffi.St` of `Driver.lean`); a line changes the component of the named
manager with the single-manager step `stepCfg` (which executes `Ffi.step`) and nothing else —
`Multi.mstep` on `MCall.on`.  In particular every answer on a manager is computed from that
manager's component alone, whatever was executed on the others in between
(`Multi.ffi_manager_isolation`).
-/
namespace OxiddModel.Ffi.Multi

open OxiddModel OxiddModel.Ffi

structure DM where
  mgrs : List (String × St) := []

section
variable {α : Type} [DecidableEq α]

/-- `mlast h`: `manager_unref` of the last manager handle, a query on `h`, `containing_manager(h)` -/
def mlastK (cfg : Cfg) (s : DSt α) (a : String) : DSt α × String :=
  if s.ended || s.st.led.mrefs ≠ 1 then (s, "bad-op") else
  match s.get a with
  | some (.valid d) =>
    match run cfg s.st [.managerUnref, .query [.valid d], .containingManager (.valid d)] with
    | some (st, _) =>
      -- between the first and the last call the client holds no manager handle: the manager lives
      -- on because of the function reference (`Multi.ffi_manager_freed_iff`)
      if st.rc.mgr = 0 then (s, "bad-op") else
      let s' := { s with st := st }
      (s', "ok" ++ s'.tail)
    | none => (s, "bad-op")
  | _ => (s, "bad-op")

end

def mlast (cfg : Cfg) (s : St) (a : String) : St × String :=
  match s with
  | .bdd d => let (d', o) := mlastK cfg d a; (.bdd d', o)
  | .bcdd d => let (d', o) := mlastK cfg d a; (.bcdd d', o)
  | .zbdd d => let (d', o) := mlastK cfg d a; (.zbdd d', o)
  | s => (s, "bad-op")

def St.live : St → Bool
  | .bdd d => !d.ended
  | .bcdd d => !d.ended
  | .zbdd d => !d.ended
  | _ => false

def stepM (cfg : Cfg) (s : DM) (line : String) : DM × String :=
  match words line with
  | "mgr" :: name :: rest =>
    if (match s.mgrs.lookup name with | some st => St.live st | none => false) then (s, "bad-op") else
    let (st, o) := stepCfg cfg .none (joinSp ("mgr" :: rest))
    if o = "bad-op" then (s, "bad-op")
    else ({ mgrs := (name, st) :: s.mgrs.filter (·.1 ≠ name) }, o)
  | tag :: rest =>
    if !tag.startsWith "@" || rest.isEmpty || rest.head? = some "mgr" then (s, "bad-op") else
    let name := (tag.drop 1).toString
    match s.mgrs.lookup name with
    | none => (s, "bad-op")
    | some st =>
      let (st', o) :=
        match rest with
        | ["mlast", a] => mlast cfg st a
        | _ => stepCfg cfg st (joinSp rest)
      ({ mgrs := s.mgrs.map fun e => if e.1 = name then (name, st') else e }, o)
  | _ => (s, "bad-op")

/-- the code as it is in /repo -/
def proto : Proto := { σ := DM, init := {}, step := stepM Cfg.current }

end OxiddModel.Ffi.Multi
