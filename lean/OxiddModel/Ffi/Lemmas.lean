import OxiddModel.Ffi.Model

/-!
Helper lemmas for the ownership state machine: the invariant `Inv` relating the reference counts
kept by the wrapper code (`Rc`) to the documentation-level ledger, and its preservation by the
building blocks of `step`.
-/
namespace OxiddModel.Ffi

variable {α : Type} [DecidableEq α]

/-- The reference counts kept on the Rust side are exactly what the C client owns according to
the documentation: per node, the external references are the owned handles plus the clones held
by substitution objects; the manager is referenced once per manager handle and once per
function reference. -/
def Inv (s : State α) : Prop :=
  (∀ d, s.rc.nodes.count d = s.led.funcs.count d + s.led.substRefs.count d) ∧
  s.rc.mgr = s.led.mrefs + s.led.funcs.length + s.led.substRefs.length

theorem inv_init : Inv ({} : State α) := by
  constructor
  · intro d; simp [Ledger.substRefs]
  · simp [Ledger.substRefs]

theorem owns_valid {l : Ledger α} {d : α} : l.owns (.valid d) = true ↔ d ∈ l.funcs := by
  simp [Ledger.owns]

theorem owns_invalid (l : Ledger α) : l.owns (.invalid : H α) = true := rfl

/-- a new `Function` value handed to the C caller -/
theorem inv_new (rc : Rc α) (led : Ledger α) (d : α) (h : Inv ⟨rc, led⟩) :
    Inv ⟨rc.newFunction d, led.acquire (.valid d)⟩ := by
  obtain ⟨h1, h2⟩ := h
  constructor
  · intro x
    have := h1 x
    simp only [Rc.newFunction, Ledger.acquire, H.refs, Ledger.substRefs, List.count_cons,
      List.cons_append, List.nil_append] at this ⊢
    omega
  · simp only [Rc.newFunction, Ledger.acquire, H.refs, Ledger.substRefs, List.cons_append,
      List.nil_append, List.length_cons] at h2 ⊢
    omega

omit [DecidableEq α] in
theorem acquire_invalid (led : Ledger α) : led.acquire (.invalid : H α) = led := by
  simp [Ledger.acquire, H.refs]

/-- `.into()` of an `AllocResult` -/
theorem inv_ret (s : State α) (r : Option α) (h : Inv s) :
    Inv ⟨(s.rc.ret r).1, s.led.acquire (s.rc.ret r).2⟩ := by
  cases r with
  | none => simpa [Rc.ret, acquire_invalid] using h
  | some d => simpa [Rc.ret] using inv_new s.rc s.led d h

/-- an owned reference is dropped -/
theorem inv_drop (rc : Rc α) (led : Ledger α) (d : α) (hm : d ∈ led.funcs) (h : Inv ⟨rc, led⟩) :
    Inv ⟨rc.dropFunction d, led.release (.valid d)⟩ := by
  obtain ⟨h1, h2⟩ := h
  have hpos : 0 < led.funcs.count d := List.count_pos_iff.mpr hm
  constructor
  · intro x
    have := h1 x
    simp only [Rc.dropFunction, Ledger.release, Ledger.substRefs, List.count_erase] at this ⊢
    by_cases hx : d = x
    · subst hx
      simp only [beq_self_eq_true, if_true]
      omega
    · have : (d == x) = false := by simpa using hx
      simp only [this]
      simpa [Ledger.substRefs] using h1 x
  · have hl : 0 < led.funcs.length := List.length_pos_of_mem hm
    simp only [Rc.dropFunction, Ledger.release, Ledger.substRefs, List.length_erase, hm, if_true] at h2 ⊢
    omega

theorem inv_mgr_new (rc : Rc α) (led : Ledger α) (h : Inv ⟨rc, led⟩) :
    Inv ⟨rc.newManagerRef, { led with mrefs := led.mrefs + 1 }⟩ := by
  obtain ⟨h1, h2⟩ := h
  constructor
  · intro x; simpa [Rc.newManagerRef, Ledger.substRefs] using h1 x
  · simp only [Rc.newManagerRef, Ledger.substRefs] at h2 ⊢
    omega

theorem inv_mgr_drop (rc : Rc α) (led : Ledger α) (hp : led.mrefs ≠ 0) (h : Inv ⟨rc, led⟩) :
    Inv ⟨rc.dropManagerRef, { led with mrefs := led.mrefs - 1 }⟩ := by
  obtain ⟨h1, h2⟩ := h
  constructor
  · intro x; simpa [Rc.dropManagerRef, Ledger.substRefs] using h1 x
  · simp only [Rc.dropManagerRef, Ledger.substRefs] at h2 ⊢
    omega

/-- `substitution_add_pair`: the clone belongs to the object -/
theorem inv_add_pair (rc : Rc α) (led : Ledger α) (id v : Nat) (d : α) (h : Inv ⟨rc, led⟩) :
    Inv ⟨rc.newFunction d, { led with pairs := led.pairs ++ [(id, v, d)] }⟩ := by
  obtain ⟨h1, h2⟩ := h
  constructor
  · intro x
    have := h1 x
    simp only [Rc.newFunction, Ledger.substRefs, List.map_append, List.map_cons, List.map_nil,
      List.count_append, List.count_cons, List.count_nil] at this ⊢
    omega
  · simp only [Rc.newFunction, Ledger.substRefs, List.map_append, List.length_append,
      List.length_map, List.length_cons, List.length_nil] at h2 ⊢
    omega

/-- dropping a list of replacement functions one by one -/
theorem foldl_drop (ps : List (Nat × Nat × α)) :
    ∀ rc : Rc α, (∀ x, (ps.map (·.2.2)).count x ≤ rc.nodes.count x) → ps.length ≤ rc.mgr →
      (∀ x, (ps.foldl (fun rc p => rc.dropFunction p.2.2) rc).nodes.count x
          = rc.nodes.count x - (ps.map (·.2.2)).count x) ∧
      (ps.foldl (fun rc p => rc.dropFunction p.2.2) rc).mgr = rc.mgr - ps.length := by
  induction ps with
  | nil => intro rc _ _; simp
  | cons p ps ih =>
    intro rc hc hm
    have hc' : ∀ x, (ps.map (·.2.2)).count x ≤ (rc.dropFunction p.2.2).nodes.count x := by
      intro x
      have hx := hc x
      simp only [List.map_cons, List.count_cons] at hx
      simp only [Rc.dropFunction, List.count_erase]
      omega
    have hm' : ps.length ≤ (rc.dropFunction p.2.2).mgr := by
      simp only [List.length_cons, Rc.dropFunction] at hm ⊢
      omega
    obtain ⟨i1, i2⟩ := ih (rc.dropFunction p.2.2) hc' hm'
    constructor
    · intro x
      have hx := hc x
      rw [List.foldl_cons, i1 x]
      simp only [List.map_cons, List.count_cons] at hx ⊢
      simp only [Rc.dropFunction, List.count_erase]
      omega
    · rw [List.foldl_cons, i2]
      simp only [List.length_cons, Rc.dropFunction] at hm ⊢
      omega

theorem count_map_filter_split (l : List (Nat × Nat × α)) (id : Nat) (x : α) :
    (l.map (·.2.2)).count x
      = ((l.filter (·.1 = id)).map (·.2.2)).count x + ((l.filter (·.1 ≠ id)).map (·.2.2)).count x := by
  induction l with
  | nil => simp
  | cons p l ih =>
    by_cases hp : p.1 = id
    · simp [hp, List.count_cons, ih]; omega
    · simp [hp, List.count_cons, ih]; omega

omit [DecidableEq α] in
theorem length_filter_split (l : List (Nat × Nat × α)) (id : Nat) :
    l.length = (l.filter (·.1 = id)).length + (l.filter (·.1 ≠ id)).length := by
  induction l with
  | nil => simp
  | cons p l ih =>
    by_cases hp : p.1 = id
    · simp [hp, ih]; omega
    · simp [hp, ih]; omega

/-- `substitution_free` -/
theorem inv_subst_free (rc : Rc α) (led : Ledger α) (id : Nat) (h : Inv ⟨rc, led⟩) :
    Inv ⟨(led.pairs.filter (·.1 = id)).foldl (fun rc p => rc.dropFunction p.2.2) rc,
         { led with substIds := led.substIds.erase id, pairs := led.pairs.filter (·.1 ≠ id) }⟩ := by
  obtain ⟨h1, h2⟩ := h
  have hc : ∀ x, ((led.pairs.filter (·.1 = id)).map (·.2.2)).count x ≤ rc.nodes.count x := by
    intro x
    have a := h1 x
    have b := count_map_filter_split led.pairs id x
    simp only [Ledger.substRefs] at a
    omega
  have hm : (led.pairs.filter (·.1 = id)).length ≤ rc.mgr := by
    have b := length_filter_split led.pairs id
    simp only [Ledger.substRefs, List.length_map] at h2
    omega
  obtain ⟨f1, f2⟩ := foldl_drop (led.pairs.filter (·.1 = id)) rc hc hm
  constructor
  · intro x
    have a := h1 x
    have b := count_map_filter_split led.pairs id x
    have c := hc x
    simp only [Ledger.substRefs] at a ⊢
    rw [f1 x]
    omega
  · have b := length_filter_split led.pairs id
    simp only [Ledger.substRefs, List.length_map] at h2 ⊢
    rw [f2]
    omega

/-- where the wrapper before the fix and the current one coincide: `hi`/`lo` are only left behind when the
closure that takes them over is not reached -/
def makeNodeAgree (var hi lo : H α) : Bool :=
  (hi.isValid || !lo.isValid) && (var.isValid || !hi.isValid)

theorem makeNodeRc_agree (mk : α → α → α → Option α) (rc : Rc α) (var hi lo : H α)
    (h : makeNodeAgree var hi lo = true) :
    makeNodeRc Cfg.beforeFix mk rc var hi lo = makeNodeRc Cfg.current mk rc var hi lo := by
  cases var <;> cases hi <;> cases lo <;>
    simp_all [makeNodeAgree, makeNodeRc, Cfg.beforeFix, Cfg.current, H.get, H.isValid, Rc.ret]

/-- `make_node` (current wrapper) keeps the invariant -/
theorem inv_make_node (mk : α → α → α → Option α) (s : State α) (var hi lo : H α)
    (ho : s.led.owns hi = true) (hl : (s.led.release hi).owns lo = true) (h : Inv s) :
    Inv ⟨(makeNodeRc Cfg.current mk s.rc var hi lo).1,
         ((s.led.release hi).release lo).acquire (makeNodeRc Cfg.current mk s.rc var hi lo).2⟩ := by
  -- release `hi`
  have h1 : Inv ⟨(match hi with | .valid x => s.rc.dropFunction x | .invalid => s.rc), s.led.release hi⟩ := by
    cases hi with
    | invalid => simpa [Ledger.release] using h
    | valid x => exact inv_drop s.rc s.led x (owns_valid.mp ho) h
  -- release `lo`
  have h2 : Inv ⟨(match lo with
        | .valid y => (match hi with | .valid x => s.rc.dropFunction x | .invalid => s.rc).dropFunction y
        | .invalid => (match hi with | .valid x => s.rc.dropFunction x | .invalid => s.rc)),
      (s.led.release hi).release lo⟩ := by
    cases lo with
    | invalid => simpa [Ledger.release] using h1
    | valid y => exact inv_drop _ (s.led.release hi) y (owns_valid.mp hl) h1
  have h3 := inv_ret ⟨_, (s.led.release hi).release lo⟩
    (var.get.bind fun v => hi.get.bind fun a => lo.get.bind fun b => mk v a b) h2
  simp only [makeNodeRc, Cfg.current, if_true]
  exact h3

end OxiddModel.Ffi
