/-!
# The C interface (`crates/oxidd-ffi-c`) as an ownership state machine

The C API hands out *handles* (`oxidd_bdd_t { _p, _i }`, `oxidd_bcdd_t`, `oxidd_zbdd_t`): the raw
parts of a Rust `Function` value (`Function::into_raw`), or `INVALID` (`_p == NULL`) when an
operation ran out of memory. The wrappers in `bdd.rs` / `bcdd.rs` / `zbdd.rs` are built from the
helpers of `util/mod.rs`:

* `CFunction::get(self) -> AllocResult<ManuallyDrop<F>>`: `Err(OutOfMemory)` for `INVALID`,
  otherwise `F::from_raw(..)` wrapped in `ManuallyDrop` — a *borrow*: the temporary is never
  dropped, the count of the node is untouched;
* `From<AllocResult<F>> for bdd_t`: `Ok(f) ⇒ f.into_raw()` (the reference held by `f` is handed
  to the C caller), `Err(_) ⇒ INVALID`;
* `op1/op2/op2_var/op3/op3_combined`: `f.get().and_then(|f| op(&f, &*g.get()?, …)).into()`;
* `ref`: `forget(f.get().clone())`, `unref`: `drop(F::from_raw(..))`.

Two layers are modelled and related by `Inv` (theorem `ffi_balance`):

* `Rc` — what the wrapper *code* does to the reference counts kept on the Rust side: one entry in
  `nodes` per external reference to a node (a `Function` value that is alive outside the store),
  `mgr` strong references to the manager (every `Function` holds one, cf. the doc comment of
  `oxidd_bdd_t`: "contributes to both the reference count of the referenced node and the manager");
* `Ledger` — what the C client owns according to the *documentation* ("returned `oxidd_bdd_t`
  instances must be deallocated using `oxidd_bdd_unref()`", "functions taking `oxidd_bdd_t`
  instances as arguments do not take ownership of them", `oxidd_zbdd_make_node`: "takes ownership
  of `hi` and `lo`").

The denotation type `α` of a handle is abstract (`BDD` trees for the BDD entry points; any type
with decidable equality for BCDD/ZBDD). The Rust API function behind an entry point is a
parameter of the call (`α → α → Option α`, `none` = `Err(OutOfMemory)`).
-/
namespace OxiddModel.Ffi

/-- a C handle value -/
inductive H (α : Type) where
  | invalid
  | valid (d : α)
deriving DecidableEq, Repr, Inhabited

namespace H
variable {α : Type}

/-- `CFunction::get`: `Err(OutOfMemory)` for `INVALID`, otherwise the function *borrowed*
(`ManuallyDrop`) -/
def get : H α → Option α
  | invalid => none
  | valid d => some d

/-- `From<AllocResult<F>>` / `From<Option<F>>`: `into_raw` or `INVALID` -/
def ofResult : Option α → H α
  | none => invalid
  | some d => valid d

def isValid : H α → Bool
  | invalid => false
  | valid _ => true

/-- the references a handle stands for: none (INVALID) or one -/
def refs : H α → List α
  | invalid => []
  | valid d => [d]

end H

/-! ## the helpers of `util/mod.rs` (value level) -/
section helpers
variable {α τ : Type}

/-- `op1`: `f.get().and_then(|f| op(&f)).into()` -/
def op1 (op : α → Option α) (f : H α) : H α := .ofResult (f.get.bind op)

/-- `op2`: `lhs.get().and_then(|lhs| op(&lhs, &*rhs.get()?)).into()` -/
def op2 (op : α → α → Option α) (l r : H α) : H α :=
  .ofResult (l.get.bind fun l => r.get.bind fun r => op l r)

/-- `op2_var` -/
def op2Var (op : α → Nat → Option α) (l : H α) (v : Nat) : H α :=
  .ofResult (l.get.bind fun l => op l v)

/-- `op3` -/
def op3 (op : α → α → α → Option α) (a b c : H α) : H α :=
  .ofResult (a.get.bind fun a => b.get.bind fun b => c.get.bind fun c => op a b c)

/-- `op3_combined` (the `apply_forall/exists/unique` entry points) -/
def op3Combined (op : α → τ → α → α → Option α) (x : τ) (a b c : H α) : H α :=
  .ofResult (a.get.bind fun a => b.get.bind fun b => c.get.bind fun c => op a x b c)

end helpers

/-! ## state -/

/-- reference counts on the Rust side, as manipulated by the wrapper code -/
structure Rc (α : Type) where
  /-- one entry per external reference to a node -/
  nodes : List α := []
  /-- strong references to the manager -/
  mgr : Nat := 0
deriving Repr

/-- a substitution object (`oxidd_bdd_substitution_t`): pairs of a variable and a *cloned*
replacement function -/
abbrev SubstObj (α : Type) := List (Nat × α)

/-- what the C client owns according to the documentation -/
structure Ledger (α : Type) where
  /-- function references: one entry per reference (a handle `ref`ed twice appears three times) -/
  funcs : List α := []
  /-- manager references -/
  mrefs : Nat := 0
  /-- ids of the live substitution objects -/
  substIds : List Nat := []
  /-- their pairs `(object id, variable, replacement)` in insertion order; every replacement is a
  reference owned by the object -/
  pairs : List (Nat × Nat × α) := []
deriving Repr

structure State (α : Type) where
  rc : Rc α := {}
  led : Ledger α := {}
deriving Repr

/-- version of the modelled code: `current` is `crates/oxidd-ffi-c` as it is, `beforeFix` the
wrapper before commit "oxidd_zbdd_make_node releases hi and lo on every path" (kept for the
`…_before_fix` witnesses and the protocol `protoBeforeFix`) -/
structure Cfg where
  /-- `oxidd_zbdd_make_node` releases `hi` and `lo` on every path (as documented): it takes them
  over (`get().map(ManuallyDrop::into_inner)`) before anything can fail. Before the fix the closure
  taking them over only ran when `var` was valid, and `lo` was only taken when `hi` was valid. -/
  makeNodeAlwaysConsumes : Bool
deriving Repr, DecidableEq

def Cfg.beforeFix : Cfg := { makeNodeAlwaysConsumes := false }
def Cfg.current : Cfg := { makeNodeAlwaysConsumes := true }

section ops
variable {α : Type} [DecidableEq α]

namespace Rc

/-- a `Function` value comes into existence outside the store (operation result, `clone`) -/
def newFunction (rc : Rc α) (d : α) : Rc α := { nodes := d :: rc.nodes, mgr := rc.mgr + 1 }

/-- a `Function` value is dropped (or moved into the store as a child edge) -/
def dropFunction (rc : Rc α) (d : α) : Rc α := { nodes := rc.nodes.erase d, mgr := rc.mgr - 1 }

/-- a `ManagerRef` value comes into existence / is dropped -/
def newManagerRef (rc : Rc α) : Rc α := { rc with mgr := rc.mgr + 1 }
def dropManagerRef (rc : Rc α) : Rc α := { rc with mgr := rc.mgr - 1 }

/-- `.into()` on an `AllocResult<F>`: the new value's reference is handed out (`into_raw`, no
drop), an error becomes `INVALID` -/
def ret (rc : Rc α) (r : Option α) : Rc α × H α :=
  match r with
  | some d => (rc.newFunction d, .valid d)
  | none => (rc, .invalid)

end Rc

namespace Ledger

/-- the caller receives a handle it has to `unref` -/
def acquire (l : Ledger α) (h : H α) : Ledger α := { l with funcs := h.refs ++ l.funcs }

/-- the caller gives up one reference of `h` -/
def release (l : Ledger α) (h : H α) : Ledger α :=
  match h with
  | .invalid => l
  | .valid d => { l with funcs := l.funcs.erase d }

/-- references held by the substitution objects -/
def substRefs (l : Ledger α) : List α := l.pairs.map (·.2.2)

/-- the substitution object `id` as the wrapper passes it to `substitute` -/
def substObj (l : Ledger α) (id : Nat) : SubstObj α := (l.pairs.filter (·.1 = id)).map (·.2)

/-- the C client may pass `h`: it is `INVALID` or a reference it owns -/
def owns (l : Ledger α) (h : H α) : Bool :=
  match h with
  | .invalid => true
  | .valid d => l.funcs.contains d

end Ledger

/-- exported functions; the Rust API function behind an entry point is a parameter -/
inductive Call (α : Type) where
  /-- `oxidd_*_manager_new` -/
  | managerNew
  | managerRef
  | managerUnref
  /-- `oxidd_*_containing_manager` (requires a valid function) -/
  | containingManager (f : H α)
  /-- `oxidd_*_var/not_var/true/false/singleton/empty/base`: result of the Rust constructor -/
  | construct (r : Option α)
  /-- `not`, `pick_cube_dd`, `cofactor_true`, `cofactor_false` -/
  | op1 (op : α → Option α) (f : H α)
  /-- the connectives, `forall/exists/unique`, `restrict`, `pick_cube_dd_set`, `union/intsec/diff` -/
  | op2 (op : α → α → Option α) (l r : H α)
  /-- `subset0/subset1/change` -/
  | op2Var (op : α → Nat → Option α) (l : H α) (v : Nat)
  /-- `ite`, and `apply_forall/exists/unique` with the operator folded into `op` -/
  | op3 (op : α → α → α → Option α) (a b c : H α)
  /-- `oxidd_*_cofactors`: both cofactors or a pair of invalid handles -/
  | cofactors (cof : α → Option (α × α)) (f : H α)
  /-- `oxidd_zbdd_make_node(var, hi, lo)` -/
  | makeNode (mk : α → α → α → Option α) (var hi lo : H α)
  /-- `oxidd_*_ref` / `oxidd_*_unref` -/
  | ref (f : H α)
  | unref (f : H α)
  /-- `node_count`, `sat_count`, `eval`, `pick_cube`, `node_level`, exports …: arguments borrowed -/
  | query (fs : List (H α))
  /-- `oxidd_*_substitution_new/add_pair/free`, `oxidd_*_substitute` -/
  | substNew (id : Nat)
  | substAddPair (id : Nat) (v : Nat) (r : H α)
  | substitute (op : α → SubstObj α → Option α) (f : H α) (id : Option Nat)
  | substFree (id : Nat)

/-- return values -/
inductive Ret (α : Type) where
  | unit
  | handle (h : H α)
  | pair (a b : H α)
deriving Repr

def Ret.handles : Ret α → List (H α)
  | .unit => []
  | .handle h => [h]
  | .pair a b => [a, b]

/-- the function arguments of a call -/
def Call.args : Call α → List (H α)
  | .containingManager f => [f]
  | .op1 _ f => [f]
  | .op2 _ l r => [l, r]
  | .op2Var _ l _ => [l]
  | .op3 _ a b c => [a, b, c]
  | .cofactors _ f => [f]
  | .makeNode _ v h l => [v, h, l]
  | .ref f => [f]
  | .unref f => [f]
  | .query fs => fs
  | .substAddPair _ _ r => [r]
  | .substitute _ f _ => [f]
  | _ => []

/-- calls that are documented to take a reference away from the caller -/
def Call.releases : Call α → Bool
  | .unref _ => true
  | .makeNode .. => true
  | _ => false

/-- `oxidd_zbdd_make_node` on the reference counts, path by path as in `zbdd.rs` -/
def makeNodeRc (cfg : Cfg) (mk : α → α → α → Option α) (rc : Rc α) (var hi lo : H α) : Rc α × H α :=
  if cfg.makeNodeAlwaysConsumes then
    -- `let hi = hi.get().map(ManuallyDrop::into_inner); let lo = …;` first: both are owned values
    -- from here on and are dropped (or moved into `make_node`) on every path
    let rc := (match hi with | .valid h => rc.dropFunction h | .invalid => rc)
    let rc := (match lo with | .valid l => rc.dropFunction l | .invalid => rc)
    rc.ret (var.get.bind fun v => hi.get.bind fun h => lo.get.bind fun l => mk v h l)
  else
    -- the wrapper before the fix
    match var.get with
    | none => (rc, .invalid)                      -- the closure of `and_then` does not run
    | some v =>
      match hi.get with
      | none => (rc, .invalid)                    -- `hi.get()?` returns before `lo` is taken
      | some h =>
        -- `ManuallyDrop::into_inner(hi.get()?)`: `hi` is an owned value from here on
        match lo.get with
        | none => (rc.dropFunction h, .invalid)   -- `lo.get()?` returns: `hi` is dropped
        | some l =>
          -- both are moved into `make_node` (`into_edge`), which consumes them also on failure
          ((rc.dropFunction h).dropFunction l).ret (mk v h l)

/-- One exported function: effect of the wrapper code on `Rc`, effect on the `Ledger` according
to the documentation, return value. `none`: the C client violates a documented precondition
(passes a handle it does not own, releases a manager reference it does not hold, passes an
invalid handle where a valid one is required, uses an unknown substitution object). -/
def step (cfg : Cfg) (s : State α) : Call α → Option (State α × Ret α)
  | .managerNew =>
    -- `new_manager(..).into_raw()`
    some ({ rc := s.rc.newManagerRef, led := { s.led with mrefs := s.led.mrefs + 1 } }, .unit)
  | .managerRef =>
    -- `forget(manager.get().clone())`
    if s.led.mrefs = 0 then none else
    some ({ rc := s.rc.newManagerRef, led := { s.led with mrefs := s.led.mrefs + 1 } }, .unit)
  | .managerUnref =>
    -- `drop(ManagerRef::from_raw(..))`
    if s.led.mrefs = 0 then none else
    some ({ rc := s.rc.dropManagerRef, led := { s.led with mrefs := s.led.mrefs - 1 } }, .unit)
  | .containingManager f =>
    -- `f.get().expect(..)`; `f.manager_ref().into_raw()`
    if !s.led.owns f || !f.isValid then none else
    some ({ rc := s.rc.newManagerRef, led := { s.led with mrefs := s.led.mrefs + 1 } }, .unit)
  | .construct r =>
    if s.led.mrefs = 0 then none else
    let R := s.rc.ret r
    some ({ rc := R.1, led := s.led.acquire R.2 }, .handle R.2)
  | .op1 op f =>
    if !s.led.owns f then none else
    let R := s.rc.ret (f.get.bind op)
    some ({ rc := R.1, led := s.led.acquire R.2 }, .handle R.2)
  | .op2 op l r =>
    if !(s.led.owns l && s.led.owns r) then none else
    let R := s.rc.ret (l.get.bind fun l => r.get.bind fun r => op l r)
    some ({ rc := R.1, led := s.led.acquire R.2 }, .handle R.2)
  | .op2Var op l v =>
    if !s.led.owns l then none else
    let R := s.rc.ret (l.get.bind fun l => op l v)
    some ({ rc := R.1, led := s.led.acquire R.2 }, .handle R.2)
  | .op3 op a b c =>
    if !(s.led.owns a && s.led.owns b && s.led.owns c) then none else
    let R := s.rc.ret (a.get.bind fun a => b.get.bind fun b => c.get.bind fun c => op a b c)
    some ({ rc := R.1, led := s.led.acquire R.2 }, .handle R.2)
  | .cofactors cof f =>
    if !s.led.owns f then none else
    match f.get.bind cof with
    | some (t, e) =>
      -- `f.cofactors()` returns two new `Function` values, both handed out
      let rc := (s.rc.newFunction t).newFunction e
      some ({ rc := rc, led := (s.led.acquire (.valid t)).acquire (.valid e) }, .pair (.valid t) (.valid e))
    | none => some (s, .pair .invalid .invalid)
  | .makeNode mk var hi lo =>
    -- the client gives away one reference of `hi` and one of `lo` (two if they are the same handle)
    if !(s.led.owns var && s.led.owns hi && (s.led.release hi).owns lo) then none else
    let R := makeNodeRc cfg mk s.rc var hi lo
    -- documentation: "This function takes ownership of `hi` and `lo` (but not `var`)"
    some ({ rc := R.1, led := (((s.led.release hi).release lo).acquire R.2) }, .handle R.2)
  | .ref f =>
    -- `forget(f.get().clone())`
    if !s.led.owns f then none else
    match f with
    | .valid d => some ({ rc := s.rc.newFunction d, led := s.led.acquire f }, .handle f)
    | .invalid => some (s, .handle f)
  | .unref f =>
    -- `if !f._p.is_null() { drop(F::from_raw(..)) }`
    if !s.led.owns f then none else
    match f with
    | .valid d => some ({ rc := s.rc.dropFunction d, led := s.led.release f }, .unit)
    | .invalid => some (s, .unit)
  | .query fs =>
    if fs.all s.led.owns then some (s, .unit) else none
  | .substNew id =>
    if s.led.substIds.contains id then none else
    some ({ s with led := { s.led with substIds := id :: s.led.substIds } }, .unit)
  | .substAddPair id v r =>
    -- `replacement.get().expect(..)`; `subst.replacements.push((*r).clone())`
    match r with
    | .valid d =>
      if !(s.led.substIds.contains id && s.led.owns r) then none else
      some ({ rc := s.rc.newFunction d, led := { s.led with pairs := s.led.pairs ++ [(id, v, d)] } }, .unit)
    | .invalid => none
  | .substitute op f id =>
    if !s.led.owns f then none else
    match id with
    | none => some (s, .handle .invalid)          -- `substitution.is_null()`
    | some id =>
      if !s.led.substIds.contains id then none else
      let R := s.rc.ret (f.get.bind fun f => op f (s.led.substObj id))
      some ({ rc := R.1, led := s.led.acquire R.2 }, .handle R.2)
  | .substFree id =>
    -- `drop(Box::from_raw(..))` drops the `Vec<F>` of replacements
    if !s.led.substIds.contains id then none else
    let rc := (s.led.pairs.filter (·.1 = id)).foldl (fun rc p => rc.dropFunction p.2.2) s.rc
    some ({ rc := rc, led := { s.led with substIds := s.led.substIds.erase id,
                                          pairs := s.led.pairs.filter (·.1 ≠ id) } }, .unit)

/-- a sequence of calls; the return values are collected -/
def run (cfg : Cfg) : State α → List (Call α) → Option (State α × List (Ret α))
  | s, [] => some (s, [])
  | s, c :: cs =>
    match step cfg s c with
    | none => none
    | some (s', r) =>
      match run cfg s' cs with
      | none => none
      | some (s'', rs) => some (s'', r :: rs)

/-- the calls that release everything the client owns: every substitution object is freed, every
function reference is `unref`ed -/
def releaseAll (s : State α) : List (Call α) :=
  (s.led.substIds.map fun id => Call.substFree id) ++ (s.led.funcs.map fun d => Call.unref (.valid d))

end ops

end OxiddModel.Ffi
