import OxiddModel.Ffi.Model

/-!
# Several managers alive at once in one C client (C19)

`Model.lean` describes one manager.  A C client may create any number of managers, of the same or
of different kinds (`oxidd_bdd_manager_new`, `oxidd_bcdd_manager_new`, `oxidd_zbdd_manager_new`),
and interleave calls on them arbitrarily.  Here the client-visible state is a finite map from
manager identifiers to the single-manager states of `Model.lean` (each with its own reference
counts `Rc` and its own ledger), a call is tagged with the manager its arguments belong to, and
a manager lives exactly as long as its reference count — manager handles plus one per function
reference (`oxidd_bdd_t`: "contributes to both the reference count of the referenced node and the
manager") plus one per clone held by a substitution object — is positive.

The wrapper layer itself has no state: `Generated.ffi_stateless` (extracted from the source on every
run).  To show what the isolation theorem excludes, the model has a switch `sharedCountCache`
reproducing a seeded defect (a thread-local memo table for `sat_count` keyed by the node index
`_i` of the handle but not by the manager): with the switch on, `ffi_manager_isolation` fails
(`ffi_isolation_fails_with_shared_cache`).

Passing a handle of manager A to a function together with a handle or manager of B is undefined
behaviour by contract; such calls are not expressible (`MCall.on m c`: every argument of `c` is
looked up in the ledger of `m`).
-/
namespace OxiddModel.Ffi.Multi

open OxiddModel.Ffi

/-- configuration: the single-manager configuration, and the seeded defect -/
structure MCfg where
  base : Cfg
  /-- `oxidd_*_sat_count` consults a table shared by all managers on the thread (NOT in /repo) -/
  sharedCountCache : Bool
deriving Repr, DecidableEq

def MCfg.current : MCfg := { base := Cfg.current, sharedCountCache := false }
def MCfg.seededCache : MCfg := { base := Cfg.current, sharedCountCache := true }

/-- client-visible state of the library -/
structure MState (α : Type) where
  /-- live managers by identifier, each with its own counts and ledger -/
  mgrs : List (Nat × State α) := []
  /-- managers whose memory has been released (their count reached zero) -/
  freed : List Nat := []
  /-- next fresh identifier -/
  next : Nat := 0
  /-- wrapper-level memo table `node index ↦ count` (only used by the seeded configuration) -/
  cache : List (Nat × Nat) := []
deriving Repr

/-- calls of the C client -/
inductive MCall (α : Type) where
  /-- `oxidd_*_manager_new` -/
  | new
  /-- an exported function all of whose manager / function arguments belong to manager `m` -/
  | on (m : Nat) (c : Call α)
  /-- `oxidd_*_sat_count(f, vars)` on a function of manager `m`: `cnt` is the Rust API's count in
  that manager, `key` the node index stored in the handle (`_i`) -/
  | count (m : Nat) (f : H α) (cnt : α → Nat) (key : α → Nat)

inductive MRet (α : Type) where
  /-- the identifier of the new manager -/
  | mgr (m : Nat)
  | ret (r : Ret α)
  | num (n : Nat)
deriving Repr

section ops
variable {α : Type} [DecidableEq α]

omit [DecidableEq α] in
/-- `oxidd_*_manager_new` -/
def _root_.OxiddModel.Ffi.Call.isNew : Call α → Bool
  | .managerNew => true
  | _ => false

def MState.get (s : MState α) (m : Nat) : Option (State α) := s.mgrs.lookup m

/-- manager `m` has the new component `st`; a count of zero releases the manager -/
def MState.settle (s : MState α) (m : Nat) (st : State α) : MState α :=
  if st.rc.mgr = 0 then
    { s with mgrs := s.mgrs.filter (fun e => e.1 ≠ m), freed := m :: s.freed }
  else
    { s with mgrs := s.mgrs.map fun e => if e.1 = m then (m, st) else e }

/-- One call. `none`: a documented precondition is violated (unknown or already released
manager, or `Ffi.step` is undefined on the manager's component). -/
def mstep (cfg : MCfg) (s : MState α) : MCall α → Option (MState α × MRet α)
  | .new =>
    match step cfg.base ({} : State α) .managerNew with
    | some (st, _) => some ({ s with mgrs := (s.next, st) :: s.mgrs, next := s.next + 1 }, .mgr s.next)
    | none => none
  | .on m c =>
    -- a new manager is `MCall.new`
    if c.isNew then none else
    match s.get m with
    | none => none
    | some st =>
      match step cfg.base st c with
      | none => none
      | some (st', r) => some (s.settle m st', .ret r)
  | .count m f cnt key =>
    match s.get m, f with
    | some st, .valid d =>
      -- `f.get().expect(..)`: the function must be valid and owned
      if !st.led.owns f then none else
      if cfg.sharedCountCache then
        match s.cache.lookup (key d) with
        | some n => some (s, .num n)
        | none => some ({ s with cache := (key d, cnt d) :: s.cache }, .num (cnt d))
      else some (s, .num (cnt d))
    | _, _ => none

def mrun (cfg : MCfg) : MState α → List (MCall α) → Option (MState α × List (MRet α))
  | s, [] => some (s, [])
  | s, c :: cs =>
    match mstep cfg s c with
    | none => none
    | some (s', r) =>
      match mrun cfg s' cs with
      | none => none
      | some (s'', rs) => some (s'', r :: rs)

/-- releasing everything the client owns in manager `m` (component `st`): substitution objects,
function references, then the manager handles -/
def releaseCalls (m : Nat) (st : State α) : List (MCall α) :=
  (releaseAll st).map (MCall.on m) ++ List.replicate st.led.mrefs (MCall.on m .managerUnref)

end ops

end OxiddModel.Ffi.Multi
