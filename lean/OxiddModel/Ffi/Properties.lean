import OxiddModel.Ffi.Lemmas
import OxiddModel.Bdd.PropertiesC05

/-!
# C19 — the C interface: ownership is balanced, results equal the Rust API's

Headline theorems about the ownership state machine of `Model.lean` (all for **every** call
sequence a C client can issue without violating a documented precondition, every denotation type
and every Rust API function behind the entry points, including allocation failures).
-/
namespace OxiddModel.Ffi

variable {α : Type} [DecidableEq α]

/-! ## 1. balance -/

/-- calls on which the wrapper before the fix and the current wrapper do the same -/
def Call.makeNodeOk : Call α → Bool
  | .makeNode _ v h l => makeNodeAgree v h l
  | _ => true

/-- One exported function keeps the reference counts of the
Rust side equal to what the C client owns according to the documentation. -/
theorem step_inv {s s' : State α} {c : Call α} {r : Ret α}
    (h : Inv s) (hs : step Cfg.current s c = some (s', r)) : Inv s' := by
  cases c with
  | managerNew =>
    simp only [step, Option.some.injEq, Prod.mk.injEq] at hs
    obtain ⟨rfl, _⟩ := hs
    exact inv_mgr_new s.rc s.led h
  | managerRef =>
    simp only [step] at hs
    split at hs
    · cases hs
    · simp only [Option.some.injEq, Prod.mk.injEq] at hs
      obtain ⟨rfl, _⟩ := hs
      exact inv_mgr_new s.rc s.led h
  | managerUnref =>
    simp only [step] at hs
    split at hs
    · cases hs
    · rename_i hp
      simp only [Option.some.injEq, Prod.mk.injEq] at hs
      obtain ⟨rfl, _⟩ := hs
      exact inv_mgr_drop s.rc s.led hp h
  | containingManager f =>
    simp only [step] at hs
    split at hs
    · cases hs
    · simp only [Option.some.injEq, Prod.mk.injEq] at hs
      obtain ⟨rfl, _⟩ := hs
      exact inv_mgr_new s.rc s.led h
  | construct r0 =>
    simp only [step] at hs
    split at hs
    · cases hs
    · simp only [Option.some.injEq, Prod.mk.injEq] at hs
      obtain ⟨rfl, _⟩ := hs
      exact inv_ret s r0 h
  | op1 op f =>
    simp only [step] at hs
    split at hs
    · cases hs
    · simp only [Option.some.injEq, Prod.mk.injEq] at hs
      obtain ⟨rfl, _⟩ := hs
      exact inv_ret s _ h
  | op2 op l r0 =>
    simp only [step] at hs
    split at hs
    · cases hs
    · simp only [Option.some.injEq, Prod.mk.injEq] at hs
      obtain ⟨rfl, _⟩ := hs
      exact inv_ret s _ h
  | op2Var op l v =>
    simp only [step] at hs
    split at hs
    · cases hs
    · simp only [Option.some.injEq, Prod.mk.injEq] at hs
      obtain ⟨rfl, _⟩ := hs
      exact inv_ret s _ h
  | op3 op a b c0 =>
    simp only [step] at hs
    split at hs
    · cases hs
    · simp only [Option.some.injEq, Prod.mk.injEq] at hs
      obtain ⟨rfl, _⟩ := hs
      exact inv_ret s _ h
  | cofactors cof f =>
    simp only [step] at hs
    split at hs
    · cases hs
    · split at hs
      · simp only [Option.some.injEq, Prod.mk.injEq] at hs
        obtain ⟨rfl, _⟩ := hs
        exact inv_new _ _ _ (inv_new s.rc s.led _ h)
      · simp only [Option.some.injEq, Prod.mk.injEq] at hs
        obtain ⟨rfl, _⟩ := hs
        exact h
  | makeNode mk v hi lo =>
    simp only [step] at hs
    split at hs
    · cases hs
    · rename_i hg
      have hg' : (s.led.owns v && s.led.owns hi && (s.led.release hi).owns lo) = true := by
        simpa using hg
      simp only [Bool.and_eq_true] at hg'
      simp only [Option.some.injEq, Prod.mk.injEq] at hs
      obtain ⟨rfl, _⟩ := hs
      exact inv_make_node mk s v hi lo hg'.1.2 hg'.2 h
  | ref f =>
    simp only [step] at hs
    split at hs
    · cases hs
    · split at hs
      · simp only [Option.some.injEq, Prod.mk.injEq] at hs
        obtain ⟨rfl, _⟩ := hs
        exact inv_new s.rc s.led _ h
      · simp only [Option.some.injEq, Prod.mk.injEq] at hs
        obtain ⟨rfl, _⟩ := hs
        exact h
  | unref f =>
    cases f with
    | invalid =>
      simp only [step, owns_invalid, Bool.not_true, Bool.false_eq_true, if_false,
        Option.some.injEq, Prod.mk.injEq] at hs
      obtain ⟨rfl, _⟩ := hs
      exact h
    | valid d =>
      simp only [step] at hs
      by_cases ho : s.led.owns (.valid d) = true
      · simp only [ho, Bool.not_true, Bool.false_eq_true, if_false, Option.some.injEq,
          Prod.mk.injEq] at hs
        obtain ⟨rfl, _⟩ := hs
        exact inv_drop s.rc s.led d (owns_valid.mp ho) h
      · simp [ho] at hs
  | query fs =>
    simp only [step] at hs
    split at hs
    · simp only [Option.some.injEq, Prod.mk.injEq] at hs
      obtain ⟨rfl, _⟩ := hs
      exact h
    · cases hs
  | substNew id =>
    simp only [step] at hs
    split at hs
    · cases hs
    · simp only [Option.some.injEq, Prod.mk.injEq] at hs
      obtain ⟨rfl, _⟩ := hs
      exact h
  | substAddPair id v r0 =>
    simp only [step] at hs
    split at hs
    · split at hs
      · cases hs
      · simp only [Option.some.injEq, Prod.mk.injEq] at hs
        obtain ⟨rfl, _⟩ := hs
        exact inv_add_pair s.rc s.led id v _ h
    · cases hs
  | substitute op f id =>
    simp only [step] at hs
    split at hs
    · cases hs
    · split at hs
      · simp only [Option.some.injEq, Prod.mk.injEq] at hs
        obtain ⟨rfl, _⟩ := hs
        exact h
      · split at hs
        · cases hs
        · simp only [Option.some.injEq, Prod.mk.injEq] at hs
          obtain ⟨rfl, _⟩ := hs
          exact inv_ret s _ h
  | substFree id =>
    simp only [step] at hs
    split at hs
    · cases hs
    · simp only [Option.some.injEq, Prod.mk.injEq] at hs
      obtain ⟨rfl, _⟩ := hs
      exact inv_subst_free s.rc s.led id h

/-- away from its two defective paths the `make_node` wrapper before the fix behaves like the
current one -/
theorem step_before_fix_eq (s : State α) (c : Call α) (hc : c.makeNodeOk = true) :
    step Cfg.beforeFix s c = step Cfg.current s c := by
  cases c <;> try rfl
  case makeNode mk v hi lo =>
    simp only [Call.makeNodeOk] at hc
    simp only [step, makeNodeRc_agree mk s.rc v hi lo hc]

theorem run_inv : ∀ (cs : List (Call α)) (s s' : State α) (rs : List (Ret α)),
    Inv s → run Cfg.current s cs = some (s', rs) → Inv s'
  | [], s, s', rs, h, hr => by
    simp only [run, Option.some.injEq, Prod.mk.injEq] at hr
    obtain ⟨rfl, _⟩ := hr
    exact h
  | c :: cs, s, s', rs, h, hr => by
    simp only [run] at hr
    split at hr
    · cases hr
    · rename_i s1 r1 hs1
      split at hr
      · cases hr
      · rename_i s2 rs2 hr2
        simp only [Option.some.injEq, Prod.mk.injEq] at hr
        obtain ⟨rfl, _⟩ := hr
        exact run_inv cs s1 _ _ (step_inv h hs1) hr2

theorem run_inv_before_fix : ∀ (cs : List (Call α)) (s s' : State α) (rs : List (Ret α)),
    Inv s → (∀ c ∈ cs, c.makeNodeOk = true) → run Cfg.beforeFix s cs = some (s', rs) → Inv s'
  | [], s, s', rs, h, _, hr => by
    simp only [run, Option.some.injEq, Prod.mk.injEq] at hr
    obtain ⟨rfl, _⟩ := hr
    exact h
  | c :: cs, s, s', rs, h, hok, hr => by
    simp only [run] at hr
    split at hr
    · cases hr
    · rename_i s1 r1 hs1
      split at hr
      · cases hr
      · rename_i s2 rs2 hr2
        simp only [Option.some.injEq, Prod.mk.injEq] at hr
        obtain ⟨rfl, _⟩ := hr
        rw [step_before_fix_eq s c (hok c (List.mem_cons_self ..))] at hs1
        exact run_inv_before_fix cs s1 _ _ (step_inv h hs1)
          (fun c' hc' => hok c' (List.mem_cons_of_mem _ hc')) hr2

/-- **C19, "handle ownership is balanced".** For every sequence of C API calls issued on a fresh library state — any entry points,
any arguments the client is entitled to pass (owned or invalid handles), any allocation failures
— the reference counts maintained by the wrapper code are exactly what the documentation tells
the client it owns: per node, the number of external references equals the number of owned
handles to it plus the clones held by live substitution objects; the manager is referenced once
per owned manager handle and once per function reference. No entry point leaks a reference and
none releases one it was not given. -/
theorem ffi_balance (cs : List (Call α)) (s : State α) (rs : List (Ret α))
    (hr : run Cfg.current ({} : State α) cs = some (s, rs)) : Inv s :=
  run_inv cs {} s rs inv_init hr

/-- **The same for the wrapper before the fix**, for call sequences that never reach the two
defective paths of the old `oxidd_zbdd_make_node` (an invalid `var` with a valid `hi`/`lo`, or an invalid
`hi` with a valid `lo`). The full statement is false for `Cfg.beforeFix`, see
`ffi_balance_before_fix_fails`. -/
theorem ffi_balance_before_fix_partial (cs : List (Call α)) (s : State α) (rs : List (Ret α))
    (hok : ∀ c ∈ cs, c.makeNodeOk = true)
    (hr : run Cfg.beforeFix ({} : State α) cs = some (s, rs)) : Inv s :=
  run_inv_before_fix cs {} s rs inv_init hok hr

/-- a ZBDD-like scenario over `α = Nat`: two sets `1` and `2` are created, then
`oxidd_zbdd_make_node(INVALID, 1, 2)` is called -/
def leakCalls : List (Call Nat) :=
  [.managerNew, .construct (some 1), .construct (some 2),
   .makeNode (fun _ _ _ => some 3) .invalid (.valid 1) (.valid 2)]

/-- **`ffi_balance` failed for the code before the fix** (kept as regression witness): after `make_node` with an invalid `var` the
documentation says the client owns nothing any more (`hi` and `lo` were taken over), but the
wrapper did not release them — both nodes keep an external reference for ever. -/
theorem ffi_balance_before_fix_fails :
    ∃ s rs, run Cfg.beforeFix ({} : State Nat) leakCalls = some (s, rs) ∧
      s.led.funcs = [] ∧ s.rc.nodes = [2, 1] ∧ ¬ Inv s := by
  refine ⟨_, _, rfl, rfl, rfl, ?_⟩
  intro h
  have := h.1 1
  revert this
  decide

/-- non-vacuity of `ffi_balance`: the same calls are a legal sequence for the current wrapper,
which releases both -/
example : ∃ s rs, run Cfg.current ({} : State Nat) leakCalls = some (s, rs) ∧ s.rc.nodes = [] ∧
    s.led.funcs = [] ∧ s.rc.mgr = 1 := ⟨_, _, rfl, rfl, rfl, rfl⟩

/-- non-vacuity of `ffi_balance` (and of `ffi_balance_before_fix_partial`): a sequence with operations, `ref`/`unref`, cofactors and
a substitution object -/
def sampleCalls : List (Call Nat) :=
  [.managerNew, .construct (some 1), .construct (some 2),
   .op2 (fun a b => some (a + b)) (.valid 1) (.valid 2),
   .ref (.valid 3), .cofactors (fun d => some (d - 1, d - 2)) (.valid 3),
   .substNew 0, .substAddPair 0 0 (.valid 2), .unref (.valid 2),
   .substitute (fun d o => some (d + o.length)) (.valid 3) (some 0),
   .unref (.valid 3), .op1 (fun _ => none) (.valid 1), .managerRef]

example : (∀ c ∈ sampleCalls, c.makeNodeOk = true) ∧
    ∃ s rs, run Cfg.current ({} : State Nat) sampleCalls = some (s, rs) ∧
      s.led.funcs = [4, 1, 3, 2, 1] ∧ s.rc.nodes = [4, 1, 2, 3, 2, 1] ∧ s.led.pairs = [(0, 0, 2)] ∧
      s.rc.mgr = 8 ∧ s.led.mrefs = 2 := by
  refine ⟨by decide, _, _, rfl, rfl, rfl, rfl, rfl, rfl⟩

/-! ## 2. the ledger is creations + refs − unrefs; arguments are borrowed -/

/-- references a call takes away from the client according to the documentation -/
def Call.released : Call α → List α
  | .unref f => f.refs
  | .makeNode _ _ hi lo => hi.refs ++ lo.refs
  | _ => []

/-- references a call hands to the client: every valid handle it returns (`ref` returns its
argument, which now stands for one more reference) -/
def Ret.acquired (r : Ret α) : List α := r.handles.flatMap H.refs

theorem count_acquire (l : Ledger α) (h : H α) (d : α) :
    (l.acquire h).funcs.count d = l.funcs.count d + h.refs.count d := by
  simp [Ledger.acquire, List.count_append]; omega

theorem count_release (l : Ledger α) (h : H α) (d : α) (ho : l.owns h = true) :
    (l.release h).funcs.count d + h.refs.count d = l.funcs.count d := by
  cases h with
  | invalid => simp [Ledger.release, H.refs]
  | valid x =>
    have hm := owns_valid.mp ho
    have hpos : 0 < l.funcs.count x := List.count_pos_iff.mpr hm
    simp only [Ledger.release, H.refs, List.count_erase, List.count_cons, List.count_nil]
    by_cases hx : x = d
    · subst hx; simp; omega
    · have : (x == d) = false := by simpa using hx
      simp [this]

/-- one call changes the number of owned references to a node by exactly what it returns minus
what it is documented to take -/
theorem step_ledger {cfg : Cfg} {s s' : State α} {c : Call α} {r : Ret α}
    (hs : step cfg s c = some (s', r)) (d : α) :
    s'.led.funcs.count d + c.released.count d = s.led.funcs.count d + r.acquired.count d := by
  cases c with
  | managerNew =>
    simp only [step, Option.some.injEq, Prod.mk.injEq] at hs
    obtain ⟨rfl, rfl⟩ := hs
    simp [Call.released, Ret.acquired, Ret.handles]
  | managerRef =>
    simp only [step] at hs
    split at hs
    · cases hs
    · simp only [Option.some.injEq, Prod.mk.injEq] at hs
      obtain ⟨rfl, rfl⟩ := hs
      simp [Call.released, Ret.acquired, Ret.handles]
  | managerUnref =>
    simp only [step] at hs
    split at hs
    · cases hs
    · simp only [Option.some.injEq, Prod.mk.injEq] at hs
      obtain ⟨rfl, rfl⟩ := hs
      simp [Call.released, Ret.acquired, Ret.handles]
  | containingManager f =>
    simp only [step] at hs
    split at hs
    · cases hs
    · simp only [Option.some.injEq, Prod.mk.injEq] at hs
      obtain ⟨rfl, rfl⟩ := hs
      simp [Call.released, Ret.acquired, Ret.handles]
  | construct r0 =>
    simp only [step] at hs
    split at hs
    · cases hs
    · simp only [Option.some.injEq, Prod.mk.injEq] at hs
      obtain ⟨rfl, rfl⟩ := hs
      simp [Call.released, Ret.acquired, Ret.handles, count_acquire]
  | op1 op f =>
    simp only [step] at hs
    split at hs
    · cases hs
    · simp only [Option.some.injEq, Prod.mk.injEq] at hs
      obtain ⟨rfl, rfl⟩ := hs
      simp [Call.released, Ret.acquired, Ret.handles, count_acquire]
  | op2 op l r0 =>
    simp only [step] at hs
    split at hs
    · cases hs
    · simp only [Option.some.injEq, Prod.mk.injEq] at hs
      obtain ⟨rfl, rfl⟩ := hs
      simp [Call.released, Ret.acquired, Ret.handles, count_acquire]
  | op2Var op l v =>
    simp only [step] at hs
    split at hs
    · cases hs
    · simp only [Option.some.injEq, Prod.mk.injEq] at hs
      obtain ⟨rfl, rfl⟩ := hs
      simp [Call.released, Ret.acquired, Ret.handles, count_acquire]
  | op3 op a b c0 =>
    simp only [step] at hs
    split at hs
    · cases hs
    · simp only [Option.some.injEq, Prod.mk.injEq] at hs
      obtain ⟨rfl, rfl⟩ := hs
      simp [Call.released, Ret.acquired, Ret.handles, count_acquire]
  | cofactors cof f =>
    simp only [step] at hs
    split at hs
    · cases hs
    · split at hs
      · simp only [Option.some.injEq, Prod.mk.injEq] at hs
        obtain ⟨rfl, rfl⟩ := hs
        simp [Call.released, Ret.acquired, Ret.handles, count_acquire, H.refs, List.count_cons]
        omega
      · simp only [Option.some.injEq, Prod.mk.injEq] at hs
        obtain ⟨rfl, rfl⟩ := hs
        simp [Call.released, Ret.acquired, Ret.handles, H.refs]
  | makeNode mk v hi lo =>
    simp only [step] at hs
    split at hs
    · cases hs
    · rename_i hg
      have hg' : (s.led.owns v && s.led.owns hi && (s.led.release hi).owns lo) = true := by
        simpa using hg
      simp only [Bool.and_eq_true] at hg'
      simp only [Option.some.injEq, Prod.mk.injEq] at hs
      obtain ⟨rfl, rfl⟩ := hs
      have a := count_release s.led hi d hg'.1.2
      have b := count_release (s.led.release hi) lo d hg'.2
      simp only [Call.released, Ret.acquired, Ret.handles, count_acquire, List.count_append,
        List.flatMap_cons, List.flatMap_nil, List.append_nil]
      omega
  | ref f =>
    cases f with
    | invalid =>
      simp only [step, owns_invalid, Bool.not_true, Bool.false_eq_true, if_false,
        Option.some.injEq, Prod.mk.injEq] at hs
      obtain ⟨rfl, rfl⟩ := hs
      simp [Call.released, Ret.acquired, Ret.handles, H.refs]
    | valid x =>
      simp only [step] at hs
      split at hs
      · cases hs
      · simp only [Option.some.injEq, Prod.mk.injEq] at hs
        obtain ⟨rfl, rfl⟩ := hs
        simp [Call.released, Ret.acquired, Ret.handles, count_acquire]
  | unref f =>
    cases f with
    | invalid =>
      simp only [step, owns_invalid, Bool.not_true, Bool.false_eq_true, if_false,
        Option.some.injEq, Prod.mk.injEq] at hs
      obtain ⟨rfl, rfl⟩ := hs
      simp [Call.released, Ret.acquired, Ret.handles, H.refs]
    | valid x =>
      simp only [step] at hs
      by_cases ho : s.led.owns (.valid x) = true
      · simp only [ho, Bool.not_true, Bool.false_eq_true, if_false, Option.some.injEq,
          Prod.mk.injEq] at hs
        obtain ⟨rfl, rfl⟩ := hs
        have a := count_release s.led (.valid x) d ho
        simp only [Call.released, Ret.acquired, Ret.handles, List.flatMap_nil, List.count_nil]
        omega
      · simp [ho] at hs
  | query fs =>
    simp only [step] at hs
    split at hs
    · simp only [Option.some.injEq, Prod.mk.injEq] at hs
      obtain ⟨rfl, rfl⟩ := hs
      simp [Call.released, Ret.acquired, Ret.handles]
    · cases hs
  | substNew id =>
    simp only [step] at hs
    split at hs
    · cases hs
    · simp only [Option.some.injEq, Prod.mk.injEq] at hs
      obtain ⟨rfl, rfl⟩ := hs
      simp [Call.released, Ret.acquired, Ret.handles]
  | substAddPair id v r0 =>
    simp only [step] at hs
    split at hs
    · split at hs
      · cases hs
      · simp only [Option.some.injEq, Prod.mk.injEq] at hs
        obtain ⟨rfl, rfl⟩ := hs
        simp [Call.released, Ret.acquired, Ret.handles]
    · cases hs
  | substitute op f id =>
    simp only [step] at hs
    split at hs
    · cases hs
    · split at hs
      · simp only [Option.some.injEq, Prod.mk.injEq] at hs
        obtain ⟨rfl, rfl⟩ := hs
        simp [Call.released, Ret.acquired, Ret.handles, H.refs]
      · split at hs
        · cases hs
        · simp only [Option.some.injEq, Prod.mk.injEq] at hs
          obtain ⟨rfl, rfl⟩ := hs
          simp [Call.released, Ret.acquired, Ret.handles, count_acquire]
  | substFree id =>
    simp only [step] at hs
    split at hs
    · cases hs
    · simp only [Option.some.injEq, Prod.mk.injEq] at hs
      obtain ⟨rfl, rfl⟩ := hs
      simp [Call.released, Ret.acquired, Ret.handles]

/-- everything released / acquired along a run -/
def releasedAll (cs : List (Call α)) : List α := cs.flatMap Call.released
def acquiredAll (rs : List (Ret α)) : List α := rs.flatMap Ret.acquired

theorem run_ledger {cfg : Cfg} : ∀ (cs : List (Call α)) (s s' : State α) (rs : List (Ret α)),
    run cfg s cs = some (s', rs) → ∀ d,
      s'.led.funcs.count d + (releasedAll cs).count d = s.led.funcs.count d + (acquiredAll rs).count d
  | [], s, s', rs, hr, d => by
    simp only [run, Option.some.injEq, Prod.mk.injEq] at hr
    obtain ⟨rfl, rfl⟩ := hr
    simp [releasedAll, acquiredAll]
  | c :: cs, s, s', rs, hr, d => by
    simp only [run] at hr
    split at hr
    · cases hr
    · rename_i s1 r1 hs1
      split at hr
      · cases hr
      · rename_i s2 rs2 hr2
        simp only [Option.some.injEq, Prod.mk.injEq] at hr
        obtain ⟨rfl, rfl⟩ := hr
        have a := step_ledger hs1 d
        have b := run_ledger cs s1 s2 rs2 hr2 d
        simp only [releasedAll, acquiredAll, List.flatMap_cons, List.count_append] at b ⊢
        omega

/-- **C19, "every function documented to return a handle returns one owned reference, ref/unref
change the counts by exactly one".** For every call sequence (either configuration) and every
node: the number of references the client owns at the end is the number of valid handles the
calls returned (`ref` returns one more for its argument) minus the references it gave back with
`unref` or handed to `make_node` — nothing else changes the ledger. Together with `ffi_balance`
the same holds for the reference counts on the Rust side. -/
theorem ffi_ledger_history (cfg : Cfg) (cs : List (Call α)) (s : State α) (rs : List (Ret α))
    (hr : run cfg ({} : State α) cs = some (s, rs)) (d : α) :
    s.led.funcs.count d + (releasedAll cs).count d = (acquiredAll rs).count d := by
  have := run_ledger cs {} s rs hr d
  simpa using this

example : ∃ s rs, run Cfg.current ({} : State Nat) sampleCalls = some (s, rs) ∧
    s.led.funcs.count 3 = 1 ∧ (releasedAll sampleCalls).count 3 = 1 ∧ (acquiredAll rs).count 3 = 2 :=
  ⟨_, _, rfl, by decide, by decide, by decide⟩

/-- entry points that release references: `unref`, `make_node` (documented), and
`substitution_free` (the object's own clones) -/
def Call.consumes : Call α → Bool
  | .unref _ => true
  | .makeNode .. => true
  | .substFree _ => true
  | _ => false

theorem ret_nodes_mono (rc : Rc α) (r : Option α) (d : α) :
    rc.nodes.count d ≤ (rc.ret r).1.nodes.count d := by
  cases r <;> simp [Rc.ret, Rc.newFunction, List.count_cons]

/-- **C19, "functions taking handles do not consume them".** Apart from `unref`, `make_node` and
`substitution_free`, no exported function lowers the reference count of any node (wrapper code,
either configuration), and every handle the client owned before the call it still owns
afterwards — in particular all arguments. -/
theorem ffi_args_borrowed {cfg : Cfg} {s s' : State α} {c : Call α} {r : Ret α}
    (hs : step cfg s c = some (s', r)) (hc : c.consumes = false) :
    (∀ d, s.rc.nodes.count d ≤ s'.rc.nodes.count d) ∧
    (∀ h : H α, s.led.owns h = true → s'.led.owns h = true) := by
  have hrel : c.released = [] := by
    cases c <;> simp_all [Call.consumes, Call.released]
  constructor
  · intro d
    cases c with
    | unref f => simp [Call.consumes] at hc
    | makeNode mk v hi lo => simp [Call.consumes] at hc
    | substFree id => simp [Call.consumes] at hc
    | managerNew =>
      simp only [step, Option.some.injEq, Prod.mk.injEq] at hs
      obtain ⟨rfl, _⟩ := hs
      simp [Rc.newManagerRef]
    | managerRef =>
      simp only [step] at hs
      split at hs
      · cases hs
      · simp only [Option.some.injEq, Prod.mk.injEq] at hs
        obtain ⟨rfl, _⟩ := hs
        simp [Rc.newManagerRef]
    | managerUnref =>
      simp only [step] at hs
      split at hs
      · cases hs
      · simp only [Option.some.injEq, Prod.mk.injEq] at hs
        obtain ⟨rfl, _⟩ := hs
        simp [Rc.dropManagerRef]
    | containingManager f =>
      simp only [step] at hs
      split at hs
      · cases hs
      · simp only [Option.some.injEq, Prod.mk.injEq] at hs
        obtain ⟨rfl, _⟩ := hs
        simp [Rc.newManagerRef]
    | construct r0 =>
      simp only [step] at hs
      split at hs
      · cases hs
      · simp only [Option.some.injEq, Prod.mk.injEq] at hs
        obtain ⟨rfl, _⟩ := hs
        exact ret_nodes_mono _ _ d
    | op1 op f =>
      simp only [step] at hs
      split at hs
      · cases hs
      · simp only [Option.some.injEq, Prod.mk.injEq] at hs
        obtain ⟨rfl, _⟩ := hs
        exact ret_nodes_mono _ _ d
    | op2 op l r0 =>
      simp only [step] at hs
      split at hs
      · cases hs
      · simp only [Option.some.injEq, Prod.mk.injEq] at hs
        obtain ⟨rfl, _⟩ := hs
        exact ret_nodes_mono _ _ d
    | op2Var op l v =>
      simp only [step] at hs
      split at hs
      · cases hs
      · simp only [Option.some.injEq, Prod.mk.injEq] at hs
        obtain ⟨rfl, _⟩ := hs
        exact ret_nodes_mono _ _ d
    | op3 op a b c0 =>
      simp only [step] at hs
      split at hs
      · cases hs
      · simp only [Option.some.injEq, Prod.mk.injEq] at hs
        obtain ⟨rfl, _⟩ := hs
        exact ret_nodes_mono _ _ d
    | cofactors cof f =>
      simp only [step] at hs
      split at hs
      · cases hs
      · split at hs
        · simp only [Option.some.injEq, Prod.mk.injEq] at hs
          obtain ⟨rfl, _⟩ := hs
          simp only [Rc.newFunction, List.count_cons]
          omega
        · simp only [Option.some.injEq, Prod.mk.injEq] at hs
          obtain ⟨rfl, _⟩ := hs
          exact Nat.le_refl _
    | ref f =>
      cases f with
      | invalid =>
        simp only [step, owns_invalid, Bool.not_true, Bool.false_eq_true, if_false,
          Option.some.injEq, Prod.mk.injEq] at hs
        obtain ⟨rfl, _⟩ := hs
        exact Nat.le_refl _
      | valid x =>
        simp only [step] at hs
        split at hs
        · cases hs
        · simp only [Option.some.injEq, Prod.mk.injEq] at hs
          obtain ⟨rfl, _⟩ := hs
          simp only [Rc.newFunction, List.count_cons]
          omega
    | query fs =>
      simp only [step] at hs
      split at hs
      · simp only [Option.some.injEq, Prod.mk.injEq] at hs
        obtain ⟨rfl, _⟩ := hs
        exact Nat.le_refl _
      · cases hs
    | substNew id =>
      simp only [step] at hs
      split at hs
      · cases hs
      · simp only [Option.some.injEq, Prod.mk.injEq] at hs
        obtain ⟨rfl, _⟩ := hs
        exact Nat.le_refl _
    | substAddPair id v r0 =>
      simp only [step] at hs
      split at hs
      · split at hs
        · cases hs
        · simp only [Option.some.injEq, Prod.mk.injEq] at hs
          obtain ⟨rfl, _⟩ := hs
          simp only [Rc.newFunction, List.count_cons]
          omega
      · cases hs
    | substitute op f id =>
      simp only [step] at hs
      split at hs
      · cases hs
      · split at hs
        · simp only [Option.some.injEq, Prod.mk.injEq] at hs
          obtain ⟨rfl, _⟩ := hs
          exact Nat.le_refl _
        · split at hs
          · cases hs
          · simp only [Option.some.injEq, Prod.mk.injEq] at hs
            obtain ⟨rfl, _⟩ := hs
            exact ret_nodes_mono _ _ d
  · intro h ho
    cases h with
    | invalid => rfl
    | valid x =>
      have hm := owns_valid.mp ho
      have hpos : 0 < s.led.funcs.count x := List.count_pos_iff.mpr hm
      have := step_ledger hs x
      rw [hrel] at this
      simp only [List.count_nil, Nat.add_zero] at this
      apply owns_valid.mpr
      apply List.count_pos_iff.mp
      omega

example : ∃ s', step Cfg.current ⟨⟨[7, 5], 3⟩, ⟨[7, 5], 1, [], []⟩⟩
      (.op2 (fun a b => some (a + b)) (.valid 5) (.valid (7 : Nat))) = some (s', .handle (.valid 12)) ∧
    s'.led.owns (.valid 5) = true ∧ s'.led.owns (.valid 7) = true ∧ s'.rc.nodes = [12, 7, 5] :=
  ⟨_, rfl, by decide, by decide, rfl⟩

/-! ## 3. invalid handles propagate -/

/-- entry points documented to accept invalid functions ("to permit chaining") -/
def Call.chains : Call α → Bool
  | .op1 .. => true
  | .op2 .. => true
  | .op2Var .. => true
  | .op3 .. => true
  | .cofactors .. => true
  | .substitute .. => true
  | .ref _ => true
  | .unref _ => true
  | _ => false

/-- some function argument is `INVALID` (or the substitution pointer is `NULL`) -/
def Call.hasInvalidArg (c : Call α) : Bool :=
  c.args.any (fun h => !h.isValid) ||
    (match c with
     | .substitute _ _ none => true
     | _ => false)

/-- **C19, "an invalid (out-of-memory) handle passed to an operation yields an invalid handle
instead of a crash".** For every chaining entry point (`op1/op2/op2_var/op3/op3_combined`
wrappers, `cofactors`, `substitute`, `ref`, `unref`): if any function argument is `INVALID`, the
call is defined (no precondition is violated), every returned handle is `INVALID`, and neither the
reference counts nor the ledger change — the Rust API function behind it is never called. -/
theorem ffi_invalid_propagates {cfg : Cfg} {s s' : State α} {c : Call α} {r : Ret α}
    (hs : step cfg s c = some (s', r)) (hc : c.chains = true) (hi : c.hasInvalidArg = true) :
    s' = s ∧ ∀ h ∈ r.handles, h = .invalid := by
  cases c with
  | op1 op f =>
    simp only [step] at hs
    split at hs
    · cases hs
    · simp only [Option.some.injEq, Prod.mk.injEq] at hs
      obtain ⟨rfl, rfl⟩ := hs
      cases f <;>
        simp_all [Call.hasInvalidArg, Call.args, H.isValid, H.get, Rc.ret, acquire_invalid, Ret.handles]
  | op2 op l r0 =>
    simp only [step] at hs
    split at hs
    · cases hs
    · simp only [Option.some.injEq, Prod.mk.injEq] at hs
      obtain ⟨rfl, rfl⟩ := hs
      cases l <;> cases r0 <;>
        simp_all [Call.hasInvalidArg, Call.args, H.isValid, H.get, Rc.ret, acquire_invalid, Ret.handles]
  | op2Var op l v =>
    simp only [step] at hs
    split at hs
    · cases hs
    · simp only [Option.some.injEq, Prod.mk.injEq] at hs
      obtain ⟨rfl, rfl⟩ := hs
      cases l <;>
        simp_all [Call.hasInvalidArg, Call.args, H.isValid, H.get, Rc.ret, acquire_invalid, Ret.handles]
  | op3 op a b c0 =>
    simp only [step] at hs
    split at hs
    · cases hs
    · simp only [Option.some.injEq, Prod.mk.injEq] at hs
      obtain ⟨rfl, rfl⟩ := hs
      cases a <;> cases b <;> cases c0 <;>
        simp_all [Call.hasInvalidArg, Call.args, H.isValid, H.get, Rc.ret, acquire_invalid, Ret.handles]
  | cofactors cof f =>
    cases f with
    | valid x => simp [Call.hasInvalidArg, Call.args, H.isValid] at hi
    | invalid =>
      simp only [step, owns_invalid, H.get, Option.bind, Bool.not_true, Bool.false_eq_true,
        if_false, Option.some.injEq, Prod.mk.injEq] at hs
      obtain ⟨rfl, rfl⟩ := hs
      simp [Ret.handles]
  | substitute op f id =>
    simp only [step] at hs
    split at hs
    · cases hs
    · split at hs
      · simp only [Option.some.injEq, Prod.mk.injEq] at hs
        obtain ⟨rfl, rfl⟩ := hs
        simp [Ret.handles]
      · split at hs
        · cases hs
        · simp only [Option.some.injEq, Prod.mk.injEq] at hs
          obtain ⟨rfl, rfl⟩ := hs
          cases f <;>
            simp_all [Call.hasInvalidArg, Call.args, H.isValid, H.get, Rc.ret, acquire_invalid, Ret.handles]
  | ref f =>
    cases f with
    | valid x => simp [Call.hasInvalidArg, Call.args, H.isValid] at hi
    | invalid =>
      simp only [step, owns_invalid, Bool.not_true, Bool.false_eq_true, if_false,
        Option.some.injEq, Prod.mk.injEq] at hs
      obtain ⟨rfl, rfl⟩ := hs
      simp [Ret.handles]
  | unref f =>
    cases f with
    | valid x => simp [Call.hasInvalidArg, Call.args, H.isValid] at hi
    | invalid =>
      simp only [step, owns_invalid, Bool.not_true, Bool.false_eq_true, if_false,
        Option.some.injEq, Prod.mk.injEq] at hs
      obtain ⟨rfl, rfl⟩ := hs
      simp [Ret.handles]
  | _ => simp [Call.chains] at hc

/-- `make_node` with an invalid argument returns `INVALID` (both configurations); which of `hi`,
`lo` it releases on the way is the subject of `ffi_balance` -/
theorem ffi_makeNode_invalid (cfg : Cfg) (mk : α → α → α → Option α) (rc : Rc α) (v hi lo : H α)
    (h : v.isValid = false ∨ hi.isValid = false ∨ lo.isValid = false) :
    (makeNodeRc cfg mk rc v hi lo).2 = .invalid := by
  cases cfg with
  | mk b =>
    cases b <;> cases v <;> cases hi <;> cases lo <;>
      simp_all [makeNodeRc, H.isValid, H.get, Rc.ret]

example : step Cfg.current ⟨⟨[5], 2⟩, ⟨[5], 1, [], []⟩⟩
      (.op3 (fun a b c => some (a + b + c)) (.valid 5) .invalid (.valid (5 : Nat)))
    = some (⟨⟨[5], 2⟩, ⟨[5], 1, [], []⟩⟩, .handle .invalid) := rfl

/-! ## 4. after releasing everything the store is empty -/

/-- every pair belongs to a live substitution object -/
def PairsWF (s : State α) : Prop := ∀ p ∈ s.led.pairs, p.1 ∈ s.led.substIds

theorem step_pairs_wf {cfg : Cfg} {s s' : State α} {c : Call α} {r : Ret α}
    (h : PairsWF s) (hs : step cfg s c = some (s', r)) : PairsWF s' := by
  cases c with
  | substNew id =>
    simp only [step] at hs
    split at hs
    · cases hs
    · simp only [Option.some.injEq, Prod.mk.injEq] at hs
      obtain ⟨rfl, _⟩ := hs
      intro p hp
      exact List.mem_cons_of_mem _ (h p hp)
  | substAddPair id v r0 =>
    cases r0 with
    | invalid => simp [step] at hs
    | valid x =>
      simp only [step] at hs
      split at hs
      · cases hs
      · rename_i hg
        have hg' : (s.led.substIds.contains id && s.led.owns (.valid x)) = true := by simpa using hg
        simp only [Bool.and_eq_true, List.contains_iff_mem] at hg'
        simp only [Option.some.injEq, Prod.mk.injEq] at hs
        obtain ⟨rfl, _⟩ := hs
        intro p hp
        simp only [List.mem_append, List.mem_singleton] at hp
        rcases hp with hp | rfl
        · exact h p hp
        · exact hg'.1
  | substFree id =>
    simp only [step] at hs
    split at hs
    · cases hs
    · simp only [Option.some.injEq, Prod.mk.injEq] at hs
      obtain ⟨rfl, _⟩ := hs
      intro p hp
      simp only [List.mem_filter, decide_eq_true_eq] at hp
      exact (List.mem_erase_of_ne hp.2).mpr (h p hp.1)
  | managerNew =>
    simp only [step, Option.some.injEq, Prod.mk.injEq] at hs
    obtain ⟨rfl, _⟩ := hs
    exact h
  | managerRef =>
    simp only [step] at hs
    split at hs
    · cases hs
    · simp only [Option.some.injEq, Prod.mk.injEq] at hs
      obtain ⟨rfl, _⟩ := hs
      exact h
  | managerUnref =>
    simp only [step] at hs
    split at hs
    · cases hs
    · simp only [Option.some.injEq, Prod.mk.injEq] at hs
      obtain ⟨rfl, _⟩ := hs
      exact h
  | containingManager f =>
    simp only [step] at hs
    split at hs
    · cases hs
    · simp only [Option.some.injEq, Prod.mk.injEq] at hs
      obtain ⟨rfl, _⟩ := hs
      exact h
  | construct r0 =>
    simp only [step] at hs
    split at hs
    · cases hs
    · simp only [Option.some.injEq, Prod.mk.injEq] at hs
      obtain ⟨rfl, _⟩ := hs
      exact h
  | op1 op f =>
    simp only [step] at hs
    split at hs
    · cases hs
    · simp only [Option.some.injEq, Prod.mk.injEq] at hs
      obtain ⟨rfl, _⟩ := hs
      exact h
  | op2 op l r0 =>
    simp only [step] at hs
    split at hs
    · cases hs
    · simp only [Option.some.injEq, Prod.mk.injEq] at hs
      obtain ⟨rfl, _⟩ := hs
      exact h
  | op2Var op l v =>
    simp only [step] at hs
    split at hs
    · cases hs
    · simp only [Option.some.injEq, Prod.mk.injEq] at hs
      obtain ⟨rfl, _⟩ := hs
      exact h
  | op3 op a b c0 =>
    simp only [step] at hs
    split at hs
    · cases hs
    · simp only [Option.some.injEq, Prod.mk.injEq] at hs
      obtain ⟨rfl, _⟩ := hs
      exact h
  | cofactors cof f =>
    simp only [step] at hs
    split at hs
    · cases hs
    · split at hs <;>
      · simp only [Option.some.injEq, Prod.mk.injEq] at hs
        obtain ⟨rfl, _⟩ := hs
        exact h
  | makeNode mk v hi lo =>
    simp only [step] at hs
    split at hs
    · cases hs
    · simp only [Option.some.injEq, Prod.mk.injEq] at hs
      obtain ⟨rfl, _⟩ := hs
      cases hi <;> cases lo <;> exact h
  | ref f =>
    simp only [step] at hs
    split at hs
    · cases hs
    · split at hs <;>
      · simp only [Option.some.injEq, Prod.mk.injEq] at hs
        obtain ⟨rfl, _⟩ := hs
        exact h
  | unref f =>
    simp only [step] at hs
    split at hs
    · cases hs
    · split at hs <;>
      · simp only [Option.some.injEq, Prod.mk.injEq] at hs
        obtain ⟨rfl, _⟩ := hs
        exact h
  | query fs =>
    simp only [step] at hs
    split at hs
    · simp only [Option.some.injEq, Prod.mk.injEq] at hs
      obtain ⟨rfl, _⟩ := hs
      exact h
    · cases hs
  | substitute op f id =>
    simp only [step] at hs
    split at hs
    · cases hs
    · split at hs
      · simp only [Option.some.injEq, Prod.mk.injEq] at hs
        obtain ⟨rfl, _⟩ := hs
        exact h
      · split at hs
        · cases hs
        · simp only [Option.some.injEq, Prod.mk.injEq] at hs
          obtain ⟨rfl, _⟩ := hs
          exact h

theorem run_pairs_wf {cfg : Cfg} : ∀ (cs : List (Call α)) (s s' : State α) (rs : List (Ret α)),
    PairsWF s → run cfg s cs = some (s', rs) → PairsWF s'
  | [], s, s', rs, h, hr => by
    simp only [run, Option.some.injEq, Prod.mk.injEq] at hr
    obtain ⟨rfl, _⟩ := hr
    exact h
  | c :: cs, s, s', rs, h, hr => by
    simp only [run] at hr
    split at hr
    · cases hr
    · rename_i s1 r1 hs1
      split at hr
      · cases hr
      · rename_i s2 rs2 hr2
        simp only [Option.some.injEq, Prod.mk.injEq] at hr
        obtain ⟨rfl, _⟩ := hr
        exact run_pairs_wf cs s1 _ _ (step_pairs_wf h hs1) hr2

theorem run_append {cfg : Cfg} : ∀ (a b : List (Call α)) (s s1 s2 : State α) (r1 r2 : List (Ret α)),
    run cfg s a = some (s1, r1) → run cfg s1 b = some (s2, r2) → run cfg s (a ++ b) = some (s2, r1 ++ r2)
  | [], b, s, s1, s2, r1, r2, ha, hb => by
    simp only [run, Option.some.injEq, Prod.mk.injEq] at ha
    obtain ⟨rfl, rfl⟩ := ha
    simpa using hb
  | c :: a, b, s, s1, s2, r1, r2, ha, hb => by
    simp only [run] at ha
    split at ha
    · cases ha
    · rename_i s' r' hs'
      split at ha
      · cases ha
      · rename_i s'' rs'' hr''
        simp only [Option.some.injEq, Prod.mk.injEq] at ha
        obtain ⟨rfl, rfl⟩ := ha
        have := run_append a b s' s'' s2 rs'' r2 hr'' hb
        simp only [List.cons_append, run, hs', this]

/-- freeing all substitution objects -/
theorem run_free {cfg : Cfg} : ∀ (ids : List Nat) (s : State α), s.led.substIds = ids →
    ∃ s1 rs, run cfg s (ids.map fun id => Call.substFree id) = some (s1, rs) ∧
      s1.led.substIds = [] ∧ s1.led.funcs = s.led.funcs ∧ s1.led.mrefs = s.led.mrefs ∧
      ∀ p ∈ s1.led.pairs, p ∈ s.led.pairs ∧ p.1 ∉ ids
  | [], s, h => ⟨s, [], by simp [run], h, rfl, rfl, fun p hp => ⟨hp, by simp⟩⟩
  | i :: ids, s, h => by
    have hc : s.led.substIds.contains i = true := by simp [h]
    let s0 : State α :=
      ⟨(s.led.pairs.filter (·.1 = i)).foldl (fun rc p => rc.dropFunction p.2.2) s.rc,
       { s.led with substIds := s.led.substIds.erase i, pairs := s.led.pairs.filter (·.1 ≠ i) }⟩
    have hs0 : step cfg s (.substFree i) = some (s0, .unit) := by
      simp only [step, hc, Bool.not_true, Bool.false_eq_true, if_false, s0]
    have hids : s0.led.substIds = ids := by simp [s0, h]
    obtain ⟨s1, rs, hr, e1, e2, e3, e4⟩ := run_free (cfg := cfg) ids s0 hids
    refine ⟨s1, .unit :: rs, ?_, e1, ?_, ?_, ?_⟩
    · simp only [List.map_cons, run, hs0, hr]
    · simpa [s0] using e2
    · simpa [s0] using e3
    · intro p hp
      obtain ⟨a, b⟩ := e4 p hp
      simp only [s0, List.mem_filter, decide_eq_true_eq] at a
      refine ⟨a.1, ?_⟩
      simp only [List.mem_cons, not_or]
      exact ⟨a.2, b⟩

/-- `unref` of every owned reference -/
theorem run_unref {cfg : Cfg} : ∀ (fs : List α) (s : State α), s.led.funcs = fs →
    ∃ s2 rs, run cfg s (fs.map fun d => Call.unref (.valid d)) = some (s2, rs) ∧
      s2.led.funcs = [] ∧ s2.led.substIds = s.led.substIds ∧ s2.led.pairs = s.led.pairs ∧
      s2.led.mrefs = s.led.mrefs
  | [], s, h => ⟨s, [], by simp [run], h, rfl, rfl, rfl⟩
  | d :: fs, s, h => by
    have ho : s.led.owns (.valid d) = true := by simp [Ledger.owns, h]
    let s0 : State α := ⟨s.rc.dropFunction d, s.led.release (.valid d)⟩
    have hs0 : step cfg s (.unref (.valid d)) = some (s0, .unit) := by
      simp only [step, ho, Bool.not_true, Bool.false_eq_true, if_false, s0]
    have hfs : s0.led.funcs = fs := by simp [s0, Ledger.release, h]
    obtain ⟨s2, rs, hr, e1, e2, e3, e4⟩ := run_unref (cfg := cfg) fs s0 hfs
    refine ⟨s2, .unit :: rs, ?_, e1, ?_, ?_, ?_⟩
    · simp only [List.map_cons, run, hs0, hr]
    · simpa [s0, Ledger.release] using e2
    · simpa [s0, Ledger.release] using e3
    · simpa [s0, Ledger.release] using e4

omit [DecidableEq α] in
theorem releaseAll_ok (s : State α) : ∀ c ∈ releaseAll s, c.makeNodeOk = true := by
  intro c hc
  simp only [releaseAll, List.mem_append, List.mem_map] at hc
  rcases hc with ⟨_, _, rfl⟩ | ⟨_, _, rfl⟩ <;> rfl

/-- Releasing everything from a balanced state: the calls are all legal, and afterwards the client
owns nothing and no node has an external reference; only the manager handles remain. -/
theorem release_all_spec (cfg : Cfg) (s : State α) (hi : Inv s) (hw : PairsWF s) :
    ∃ s' rs, run cfg s (releaseAll s) = some (s', rs) ∧
      s'.led.funcs = [] ∧ s'.led.pairs = [] ∧ s'.led.substIds = [] ∧
      s'.rc.nodes = [] ∧ s'.rc.mgr = s.led.mrefs ∧ s'.led.mrefs = s.led.mrefs := by
  obtain ⟨s1, r1, h1, a1, a2, a3, a4⟩ := run_free (cfg := cfg) s.led.substIds s rfl
  obtain ⟨s2, r2, h2, b1, b2, b3, b4⟩ := run_unref (cfg := cfg) s1.led.funcs s1 rfl
  have hrun : run cfg s (releaseAll s) = some (s2, r1 ++ r2) := by
    rw [a2] at h2
    have := run_append _ _ s s1 s2 r1 r2 h1 h2
    simpa [releaseAll] using this
  have hp : s2.led.pairs = [] := by
    rw [b3]
    apply List.eq_nil_iff_forall_not_mem.mpr
    intro p hp
    obtain ⟨x, y⟩ := a4 p hp
    exact y (hw p x)
  have hinv : Inv s2 := by
    cases cfg with
    | mk b =>
      cases b
      · exact run_inv_before_fix _ s s2 _ hi (releaseAll_ok s) hrun
      · exact run_inv _ s s2 _ hi hrun
  have hn : s2.rc.nodes = [] := by
    apply List.eq_nil_iff_forall_not_mem.mpr
    intro d hd
    have := hinv.1 d
    have hpos : 0 < s2.rc.nodes.count d := List.count_pos_iff.mpr hd
    simp [b1, Ledger.substRefs, hp] at this
    omega
  refine ⟨s2, r1 ++ r2, hrun, b1, hp, by rw [b2, a1], hn, ?_, by rw [b4, a3]⟩
  have := hinv.2
  simp [b1, Ledger.substRefs, hp, b4, a3] at this
  exact this

omit [DecidableEq α] in
theorem pairs_wf_init : PairsWF ({} : State α) := by intro p hp; cases hp

/-- **C19, "after all handles are unref'ed … the manager holds no nodes" — ownership part.**
After *any* call sequence on a fresh library state, releasing what the
ledger says the client owns — `substitution_free` for every live object, `unref` once per owned
reference — is a legal call sequence, after which no node has an external reference any more
(`rc.nodes = []`) and the manager is referenced exactly by the manager handles the client still
holds. -/
theorem ffi_all_unref_empty (cs : List (Call α)) (s : State α) (rs : List (Ret α))
    (hr : run Cfg.current ({} : State α) cs = some (s, rs)) :
    ∃ s' rs', run Cfg.current s (releaseAll s) = some (s', rs') ∧
      s'.led.funcs = [] ∧ s'.led.pairs = [] ∧ s'.rc.nodes = [] ∧ s'.rc.mgr = s'.led.mrefs := by
  obtain ⟨s', rs', h1, h2, h3, _, h5, h6, h7⟩ :=
    release_all_spec Cfg.current s (ffi_balance cs s rs hr) (run_pairs_wf cs {} s rs pairs_wf_init hr)
  exact ⟨s', rs', h1, h2, h3, h5, by rw [h6, h7]⟩

/-- the same for the wrapper before the fix, away from the defective paths of `make_node`; without the
hypothesis the conclusion fails (`ffi_all_unref_before_fix_fails`) -/
theorem ffi_all_unref_empty_before_fix_partial (cs : List (Call α)) (s : State α) (rs : List (Ret α))
    (hok : ∀ c ∈ cs, c.makeNodeOk = true)
    (hr : run Cfg.beforeFix ({} : State α) cs = some (s, rs)) :
    ∃ s' rs', run Cfg.beforeFix s (releaseAll s) = some (s', rs') ∧
      s'.led.funcs = [] ∧ s'.led.pairs = [] ∧ s'.rc.nodes = [] ∧ s'.rc.mgr = s'.led.mrefs := by
  obtain ⟨s', rs', h1, h2, h3, _, h5, h6, h7⟩ :=
    release_all_spec Cfg.beforeFix s (ffi_balance_before_fix_partial cs s rs hok hr)
      (run_pairs_wf cs {} s rs pairs_wf_init hr)
  exact ⟨s', rs', h1, h2, h3, h5, by rw [h6, h7]⟩

/-- before the fix the two sets passed to `make_node(INVALID, 1, 2)` stayed referenced for ever: after
releasing everything the client owns (nothing) both nodes still have an external reference -/
theorem ffi_all_unref_before_fix_fails :
    ∃ s rs s' rs', run Cfg.beforeFix ({} : State Nat) leakCalls = some (s, rs) ∧
      run Cfg.beforeFix s (releaseAll s) = some (s', rs') ∧ s'.rc.nodes = [2, 1] :=
  ⟨_, _, _, _, rfl, rfl, rfl⟩

/-- **… hence the collected store is empty** (BDD entry points, `OxiddModel.Bdd.gc_all_dropped`):
the external references are the handles of the store model of C05; once everything is released a
collection removes every node, for every well-formed store. -/
theorem ffi_all_unref_gc_empty (cs : List (Call Bdd.BDD)) (s : State Bdd.BDD) (rs : List (Ret Bdd.BDD))
    (hr : run Cfg.current ({} : State Bdd.BDD) cs = some (s, rs)) :
    ∃ s' rs', run Cfg.current s (releaseAll s) = some (s', rs') ∧
      ∀ (numLevels : Nat) (S : List Bdd.BDD), Bdd.StoreWF s'.rc.nodes numLevels S →
        Bdd.gc s'.rc.nodes numLevels S = [] := by
  obtain ⟨s', rs', h1, _, _, h4, _⟩ := ffi_all_unref_empty cs s rs hr
  refine ⟨s', rs', h1, ?_⟩
  intro n S wf
  rw [h4] at wf ⊢
  exact Bdd.gc_all_dropped wf

/-- non-vacuity: after the sample sequence five references and one substitution object are owned;
releasing them is the run below and leaves no external reference -/
example : ∃ s rs s' rs', run Cfg.current ({} : State Nat) sampleCalls = some (s, rs) ∧
    (releaseAll s).length = 6 ∧ run Cfg.current s (releaseAll s) = some (s', rs') ∧
    s'.rc.nodes = [] ∧ s'.rc.mgr = 2 :=
  ⟨_, _, _, _, rfl, rfl, rfl, rfl, rfl⟩

/-! ## 5. results equal the Rust API's (BDD entry points) -/

section eqRust
open Bdd

/-- one-function entry points: `oxidd_bdd_not`, `oxidd_bdd_pick_cube_dd`,
`oxidd_bdd_cofactor_true/false` -/
inductive Fn1 where
  | not | pick | cofT | cofE
deriving DecidableEq, Repr

/-- two-function entry points: the eight connectives, `forall/exists/unique`, `restrict`,
`pick_cube_dd_set` -/
inductive Fn2 where
  | bin (op : Op) | quant (q : Quant) | restrict | pickset
deriving DecidableEq, Repr

/-- three-function entry points: `ite`, `apply_forall/exists/unique` -/
inductive Fn3 where
  | ite | applyq (q : Quant) (op : Op)
deriving DecidableEq, Repr

/-- the Rust API (tree model of `oxidd-rules-bdd/src/simple`, `Bdd/Model.lean`) -/
def Fn1.rust : Fn1 → BDD → Option BDD
  | .not, f => some (applyNot f)
  | .pick, f => some (pickCubeDD (fun _ => false) f)
  | .cofT, .node _ t _ => some t
  | .cofT, .leaf _ => none
  | .cofE, .node _ _ e => some e
  | .cofE, .leaf _ => none

def Fn2.rust : Fn2 → BDD → BDD → BDD
  | .bin op, f, g => applyBin op f g
  | .quant q, f, vs => Bdd.quant q f vs
  | .restrict, f, c => Bdd.restrict f c
  | .pickset, f, ls => pickCubeDDSet f ls

def Fn3.rust : Fn3 → BDD → BDD → BDD → BDD
  | .ite, f, g, h => applyIte f g h
  | .applyq q op, f, g, vs => applyQuant q op f g vs

/-- a call of the BDD C API; arguments are positions in the list of handles returned so far -/
inductive BddOp where
  | const (b : Bool)
  | var (l : Nat)
  | notVar (l : Nat)
  | f1 (f : Fn1) (i : Nat)
  | f2 (f : Fn2) (i j : Nat)
  | f3 (f : Fn3) (i j k : Nat)
deriving Repr

/-- the manager's allocation decision for one call -/
def allocR (fail : Bool) (d : BDD) : Option BDD := if fail then none else some d

/-- the call executed through the **Rust API** on optional values (`?`-chaining of
`AllocResult`s); outer `none`: an argument position does not exist -/
def rustApi (fail : Bool) (env : List (Option BDD)) : BddOp → Option (Option BDD)
  | .const b => some (some (.leaf b))
  | .var l => some (allocR fail (Bdd.var l))
  | .notVar l => some (allocR fail (Bdd.notVar l))
  | .f1 f i =>
    match env[i]? with
    | some a => some (a.bind fun x => (f.rust x).bind (allocR fail))
    | none => none
  | .f2 f i j =>
    match env[i]?, env[j]? with
    | some a, some b => some (a.bind fun x => b.bind fun y => allocR fail (f.rust x y))
    | _, _ => none
  | .f3 f i j k =>
    match env[i]?, env[j]?, env[k]? with
    | some a, some b, some c =>
      some (a.bind fun x => b.bind fun y => c.bind fun z => allocR fail (f.rust x y z))
    | _, _, _ => none

/-- the same call through the **C API**: the exported function applied to the handles -/
def cCall (fail : Bool) (henv : List (H BDD)) : BddOp → Option (Call BDD)
  | .const b => some (.construct (some (.leaf b)))
  | .var l => some (.construct (allocR fail (Bdd.var l)))
  | .notVar l => some (.construct (allocR fail (Bdd.notVar l)))
  | .f1 f i =>
    match henv[i]? with
    | some a => some (.op1 (fun x => (f.rust x).bind (allocR fail)) a)
    | none => none
  | .f2 f i j =>
    match henv[i]?, henv[j]? with
    | some a, some b => some (.op2 (fun x y => allocR fail (f.rust x y)) a b)
    | _, _ => none
  | .f3 f i j k =>
    match henv[i]?, henv[j]?, henv[k]? with
    | some a, some b, some c => some (.op3 (fun x y z => allocR fail (f.rust x y z)) a b c)
    | _, _, _ => none

/-- a sequence of calls through the C API; every returned handle is appended to `henv` -/
def cRun (cfg : Cfg) : State BDD → List (H BDD) → List (BddOp × Bool) → Option (State BDD × List (H BDD))
  | s, henv, [] => some (s, henv)
  | s, henv, (o, fail) :: os =>
    match cCall fail henv o with
    | none => none
    | some c =>
      match step cfg s c with
      | some (s', .handle h) => cRun cfg s' (henv ++ [h]) os
      | _ => none

/-- the same sequence through the Rust API -/
def rustRun : List (Option BDD) → List (BddOp × Bool) → Option (List (Option BDD))
  | env, [] => some env
  | env, (o, fail) :: os =>
    match rustApi fail env o with
    | none => none
    | some r => rustRun (env ++ [r]) os

theorem getElem?_map_get (henv : List (H BDD)) (i : Nat) :
    (henv.map H.get)[i]? = (henv[i]?).map H.get := by simp

theorem get_ofResult (r : Option BDD) : (H.ofResult r).get = r := by cases r <;> rfl

theorem ret_snd_get (rc : Rc BDD) (r : Option BDD) : (rc.ret r).2.get = r := by cases r <;> rfl

/-- one call: the handle returned by the C entry point denotes exactly the result of the Rust API
call on the denotations of the argument handles (invalid ↔ `Err`) -/
theorem step_eq_rust {cfg : Cfg} {s s' : State BDD} {henv : List (H BDD)} {o : BddOp} {fail : Bool}
    {c : Call BDD} {r : Ret BDD} (hc : cCall fail henv o = some c) (hs : step cfg s c = some (s', r)) :
    ∃ h, r = .handle h ∧ rustApi fail (henv.map H.get) o = some h.get := by
  cases o with
  | const b =>
    simp only [cCall, Option.some.injEq] at hc
    subst hc
    simp only [step] at hs
    split at hs
    · cases hs
    · simp only [Option.some.injEq, Prod.mk.injEq] at hs
      obtain ⟨_, rfl⟩ := hs
      exact ⟨_, rfl, by simp [rustApi, ret_snd_get]⟩
  | var l =>
    simp only [cCall, Option.some.injEq] at hc
    subst hc
    simp only [step] at hs
    split at hs
    · cases hs
    · simp only [Option.some.injEq, Prod.mk.injEq] at hs
      obtain ⟨_, rfl⟩ := hs
      exact ⟨_, rfl, by simp [rustApi, ret_snd_get]⟩
  | notVar l =>
    simp only [cCall, Option.some.injEq] at hc
    subst hc
    simp only [step] at hs
    split at hs
    · cases hs
    · simp only [Option.some.injEq, Prod.mk.injEq] at hs
      obtain ⟨_, rfl⟩ := hs
      exact ⟨_, rfl, by simp [rustApi, ret_snd_get]⟩
  | f1 f i =>
    simp only [cCall] at hc
    split at hc
    · rename_i a ha
      simp only [Option.some.injEq] at hc
      subst hc
      simp only [step] at hs
      split at hs
      · cases hs
      · simp only [Option.some.injEq, Prod.mk.injEq] at hs
        obtain ⟨_, rfl⟩ := hs
        refine ⟨_, rfl, ?_⟩
        simp only [rustApi, getElem?_map_get, ha, Option.map_some, ret_snd_get]
    · cases hc
  | f2 f i j =>
    simp only [cCall] at hc
    split at hc
    · rename_i a b ha hb
      simp only [Option.some.injEq] at hc
      subst hc
      simp only [step] at hs
      split at hs
      · cases hs
      · simp only [Option.some.injEq, Prod.mk.injEq] at hs
        obtain ⟨_, rfl⟩ := hs
        refine ⟨_, rfl, ?_⟩
        simp only [rustApi, getElem?_map_get, ha, hb, Option.map_some, ret_snd_get]
    · cases hc
  | f3 f i j k =>
    simp only [cCall] at hc
    split at hc
    · rename_i a b c0 ha hb hc0
      simp only [Option.some.injEq] at hc
      subst hc
      simp only [step] at hs
      split at hs
      · cases hs
      · simp only [Option.some.injEq, Prod.mk.injEq] at hs
        obtain ⟨_, rfl⟩ := hs
        refine ⟨_, rfl, ?_⟩
        simp only [rustApi, getElem?_map_get, ha, hb, hc0, Option.map_some, ret_snd_get]
    · cases hc

/-- **C19, "any sequence of C API calls produces the same functions as the corresponding Rust API
calls".** For every sequence of BDD entry points (constants, variables, `not`, the eight
connectives, `ite`, quantifiers, `apply_*`, `restrict`, `pick_cube_dd(_set)`, single cofactors),
every choice of argument handles among those returned so far, every allocation behaviour of the
manager and both configurations: if the C client can issue the sequence, then the Rust API
sequence is defined as well and the handle returned by every call denotes exactly the Rust API's
result (`applyNot`, `applyBin op`, `applyIte`, … of `Bdd/Model.lean`) — an invalid handle exactly
where the Rust API returns `Err(OutOfMemory)`/`None` or got such an argument. -/
theorem ffi_eq_rust (cfg : Cfg) : ∀ (os : List (BddOp × Bool)) (s s' : State BDD) (henv henv' : List (H BDD)),
    cRun cfg s henv os = some (s', henv') →
      rustRun (henv.map H.get) os = some (henv'.map H.get)
  | [], s, s', henv, henv', h => by
    simp only [cRun, Option.some.injEq, Prod.mk.injEq] at h
    obtain ⟨_, rfl⟩ := h
    rfl
  | (o, fail) :: os, s, s', henv, henv', h => by
    simp only [cRun] at h
    split at h
    · cases h
    · rename_i c hc
      split at h
      · rename_i s1 h1 hs
        obtain ⟨h2, e1, e2⟩ := step_eq_rust hc hs
        cases e1
        have := ffi_eq_rust cfg os s1 s' (henv ++ [h1]) henv' h
        simp only [rustRun, e2]
        simpa using this
      · cases h

/-- non-vacuity: `⊤`, `x0`, `¬x0`, the cofactor of `⊤` (invalid: a terminal has none), an
operation on the invalid handle, an allocation failure, and a connective -/
def sampleOps : List (BddOp × Bool) :=
  [(.const true, false), (.var 0, false), (.f1 .not 1, false), (.f1 .cofT 0, false),
   (.f2 (.bin .or) 3 1, false), (.f3 .ite 1 2 1, true), (.f2 (.bin .and) 1 2, false)]

example : ∃ s henv, cRun Cfg.current ⟨{}, { mrefs := 1 }⟩ [] sampleOps = some (s, henv) ∧
    henv.map H.isValid = [true, true, true, false, false, false, true] ∧
    henv[6]? = some (.valid (applyBin .and (Bdd.var 0) (applyNot (Bdd.var 0)))) := by
  simp [sampleOps, cRun, cCall, allocR, step, Ledger.owns, Ledger.acquire, Rc.ret, H.get, H.refs,
    Fn1.rust, Fn2.rust]
  refine ⟨_, _, ⟨rfl, rfl⟩, ?_, ?_⟩ <;> simp [H.isValid]

end eqRust

end OxiddModel.Ffi
