import OxiddModel.Ffi.Properties
import OxiddModel.Ffi.Driver

/-!
# C19 — results equal the Rust API's, for all three diagram kinds

`Ffi.ffi_eq_rust` (in `Properties.lean`) is stated for the BDD entry points.  Here the same
statement is proved once for an arbitrary `Kind α` — the record of Rust API functions the `capi`
driver dispatches on (`Driver.lean`: `KBdd.kind`, `KBcdd.kind`, `KZbdd.kind`, built from the tree
models `Bdd/Model.lean`, `Bcdd/Model.lean`, `Zbdd/Model.lean`) — and instantiated for BCDD and ZBDD,
including the ZBDD-only entry points `empty`/`base`, `singleton`, `subset0/subset1/change`,
`union/intsec/diff` and the *consuming* `make_node`.
-/
namespace OxiddModel.Ffi

variable {α : Type} [DecidableEq α]

/-- a call of the C API of any kind; function arguments are positions in the list of handles
returned so far, operator names are those of the `capi` protocol -/
inductive KOp where
  | constT | constF
  | var (v : Nat) | notVar (v : Nat)
  /-- ZBDD `empty` / `base` -/
  | zconst (s : String)
  | singleton (v : Nat)
  | not (i : Nat) | pick (i : Nat) | cofT (i : Nat) | cofE (i : Nat)
  /-- connectives, `forall/exists/unique`, `restrict`, `pickset`, `union/intsec/diff` -/
  | op2 (name : String) (i j : Nat)
  | ite (i j k : Nat)
  /-- `apply_forall/exists/unique` -/
  | applyq (q op : String) (i j k : Nat)
  /-- `subset0/subset1/change` -/
  | varOp (name : String) (i v : Nat)
  /-- `make_node(var, hi, lo)`: consumes `hi` and `lo` -/
  | makeNode (i j k : Nat)
deriving Repr

/-- the manager's allocation decision for one call -/
def allocK (fail : Bool) (d : α) : Option α := if fail then none else some d

/-- the call through the **Rust API** of kind `K` on optional values (`?`-chaining of
`AllocResult`s); outer `none`: an argument position does not exist / the kind has no such function -/
def rustApiK (K : Kind α) (e : Env) (fail : Bool) (env : List (Option α)) : KOp → Option (Option α)
  | .constT => some (allocK fail (K.constT e))
  | .constF => some (allocK fail K.constF)
  | .var v => some (allocK fail (K.var e v))
  | .notVar v => some (allocK fail (K.notVar e v))
  | .zconst s => (K.zconst s).map some
  | .singleton v => K.singleton.map fun f => allocK fail (f e v)
  | .not i => (env[i]?).map fun a => a.bind fun x => allocK fail (K.applyNot e x)
  | .pick i => (env[i]?).map fun a => a.bind fun x => allocK fail (K.pickDD e x)
  | .cofT i => (env[i]?).map fun a => a.bind fun x => (K.cof x).map (·.1)
  | .cofE i => (env[i]?).map fun a => a.bind fun x => (K.cof x).map (·.2)
  | .op2 name i j =>
    match K.op2 e name, env[i]?, env[j]? with
    | some f, some a, some b => some (a.bind fun x => b.bind fun y => allocK fail (f x y))
    | _, _, _ => none
  | .ite i j k =>
    match env[i]?, env[j]?, env[k]? with
    | some a, some b, some c =>
      some (a.bind fun x => b.bind fun y => c.bind fun z => allocK fail (K.applyIte e x y z))
    | _, _, _ => none
  | .applyq q op i j k =>
    match K.applyq e q op, env[i]?, env[j]?, env[k]? with
    | some f, some a, some b, some c =>
      some (a.bind fun x => b.bind fun y => c.bind fun z => allocK fail (f x y z))
    | _, _, _, _ => none
  | .varOp name i v =>
    match K.varOp e name, env[i]? with
    | some f, some a => some (a.bind fun x => allocK fail (f x v))
    | _, _ => none
  | .makeNode i j k =>
    match K.makeNode, env[i]?, env[j]?, env[k]? with
    | some mk, some a, some b, some c =>
      some (a.bind fun v => b.bind fun h => c.bind fun l => allocK fail (mk v h l))
    | _, _, _, _ => none

/-- the same call through the **C API**: the exported function (its class in `Model.lean`) applied
to the handles -/
def cCallK (K : Kind α) (e : Env) (fail : Bool) (henv : List (H α)) : KOp → Option (Call α)
  | .constT => some (.construct (allocK fail (K.constT e)))
  | .constF => some (.construct (allocK fail K.constF))
  | .var v => some (.construct (allocK fail (K.var e v)))
  | .notVar v => some (.construct (allocK fail (K.notVar e v)))
  | .zconst s => (K.zconst s).map fun d => .construct (some d)
  | .singleton v => K.singleton.map fun f => .construct (allocK fail (f e v))
  | .not i => (henv[i]?).map fun a => .op1 (fun x => allocK fail (K.applyNot e x)) a
  | .pick i => (henv[i]?).map fun a => .op1 (fun x => allocK fail (K.pickDD e x)) a
  | .cofT i => (henv[i]?).map fun a => .op1 (fun x => (K.cof x).map (·.1)) a
  | .cofE i => (henv[i]?).map fun a => .op1 (fun x => (K.cof x).map (·.2)) a
  | .op2 name i j =>
    match K.op2 e name, henv[i]?, henv[j]? with
    | some f, some a, some b => some (.op2 (fun x y => allocK fail (f x y)) a b)
    | _, _, _ => none
  | .ite i j k =>
    match henv[i]?, henv[j]?, henv[k]? with
    | some a, some b, some c => some (.op3 (fun x y z => allocK fail (K.applyIte e x y z)) a b c)
    | _, _, _ => none
  | .applyq q op i j k =>
    match K.applyq e q op, henv[i]?, henv[j]?, henv[k]? with
    | some f, some a, some b, some c => some (.op3 (fun x y z => allocK fail (f x y z)) a b c)
    | _, _, _, _ => none
  | .varOp name i v =>
    match K.varOp e name, henv[i]? with
    | some f, some a => some (.op2Var (fun x v => allocK fail (f x v)) a v)
    | _, _ => none
  | .makeNode i j k =>
    match K.makeNode, henv[i]?, henv[j]?, henv[k]? with
    | some mk, some a, some b, some c => some (.makeNode (fun v h l => allocK fail (mk v h l)) a b c)
    | _, _, _, _ => none

/-- a sequence of calls through the C API; every returned handle is appended to `henv` -/
def cRunK (K : Kind α) (e : Env) (cfg : Cfg) :
    State α → List (H α) → List (KOp × Bool) → Option (State α × List (H α))
  | s, henv, [] => some (s, henv)
  | s, henv, (o, fail) :: os =>
    match cCallK K e fail henv o with
    | none => none
    | some c =>
      match step cfg s c with
      | some (s', .handle h) => cRunK K e cfg s' (henv ++ [h]) os
      | _ => none

/-- the same sequence through the Rust API -/
def rustRunK (K : Kind α) (e : Env) : List (Option α) → List (KOp × Bool) → Option (List (Option α))
  | env, [] => some env
  | env, (o, fail) :: os =>
    match rustApiK K e fail env o with
    | none => none
    | some r => rustRunK K e (env ++ [r]) os

omit [DecidableEq α] in
theorem ret_get (rc : Rc α) (r : Option α) : (rc.ret r).2.get = r := by cases r <;> rfl

/-- value of the handle returned by a handle-returning call: the `?`-chain of the arguments'
denotations (both configurations) -/
def Call.value : Call α → Option (Option α)
  | .construct r => some r
  | .op1 op f => some (f.get.bind op)
  | .op2 op l r => some (l.get.bind fun l => r.get.bind fun r => op l r)
  | .op2Var op l v => some (l.get.bind fun l => op l v)
  | .op3 op a b c => some (a.get.bind fun a => b.get.bind fun b => c.get.bind fun c => op a b c)
  | .makeNode mk v hi lo => some (v.get.bind fun v => hi.get.bind fun h => lo.get.bind fun l => mk v h l)
  | _ => none

theorem makeNodeRc_get (cfg : Cfg) (mk : α → α → α → Option α) (rc : Rc α) (v hi lo : H α) :
    (makeNodeRc cfg mk rc v hi lo).2.get = v.get.bind fun v => hi.get.bind fun h => lo.get.bind fun l => mk v h l := by
  cases cfg with
  | mk b =>
    cases b <;> cases v <;> cases hi <;> cases lo <;> first | rfl | exact ret_get _ _

theorem step_value {cfg : Cfg} {s s' : State α} {c : Call α} {r : Ret α} {val : Option α}
    (hv : c.value = some val) (hs : step cfg s c = some (s', r)) :
    ∃ h, r = .handle h ∧ h.get = val := by
  cases c with
  | construct r0 =>
    simp only [Call.value, Option.some.injEq] at hv; subst hv
    simp only [step] at hs
    split at hs
    · cases hs
    · simp only [Option.some.injEq, Prod.mk.injEq] at hs
      obtain ⟨_, rfl⟩ := hs
      exact ⟨_, rfl, ret_get _ _⟩
  | op1 op f =>
    simp only [Call.value, Option.some.injEq] at hv; subst hv
    simp only [step] at hs
    split at hs
    · cases hs
    · simp only [Option.some.injEq, Prod.mk.injEq] at hs
      obtain ⟨_, rfl⟩ := hs
      exact ⟨_, rfl, ret_get _ _⟩
  | op2 op l r0 =>
    simp only [Call.value, Option.some.injEq] at hv; subst hv
    simp only [step] at hs
    split at hs
    · cases hs
    · simp only [Option.some.injEq, Prod.mk.injEq] at hs
      obtain ⟨_, rfl⟩ := hs
      exact ⟨_, rfl, ret_get _ _⟩
  | op2Var op l v =>
    simp only [Call.value, Option.some.injEq] at hv; subst hv
    simp only [step] at hs
    split at hs
    · cases hs
    · simp only [Option.some.injEq, Prod.mk.injEq] at hs
      obtain ⟨_, rfl⟩ := hs
      exact ⟨_, rfl, ret_get _ _⟩
  | op3 op a b c0 =>
    simp only [Call.value, Option.some.injEq] at hv; subst hv
    simp only [step] at hs
    split at hs
    · cases hs
    · simp only [Option.some.injEq, Prod.mk.injEq] at hs
      obtain ⟨_, rfl⟩ := hs
      exact ⟨_, rfl, ret_get _ _⟩
  | makeNode mk v hi lo =>
    simp only [Call.value, Option.some.injEq] at hv; subst hv
    simp only [step] at hs
    split at hs
    · cases hs
    · simp only [Option.some.injEq, Prod.mk.injEq] at hs
      obtain ⟨_, rfl⟩ := hs
      exact ⟨_, rfl, makeNodeRc_get cfg mk s.rc v hi lo⟩
  | _ => simp [Call.value] at hv

omit [DecidableEq α] in
theorem getElem?_map_getK (henv : List (H α)) (i : Nat) :
    (henv.map H.get)[i]? = (henv[i]?).map H.get := by simp

omit [DecidableEq α] in
/-- the C call built for an operation has, as value, the Rust API's result on the denotations -/
theorem cCallK_value {K : Kind α} {e : Env} {fail : Bool} {henv : List (H α)} {o : KOp} {c : Call α}
    (hc : cCallK K e fail henv o = some c) :
    ∃ val, c.value = some val ∧ rustApiK K e fail (henv.map H.get) o = some val := by
  cases o with
  | constT => simp only [cCallK, Option.some.injEq] at hc; subst hc; exact ⟨_, rfl, rfl⟩
  | constF => simp only [cCallK, Option.some.injEq] at hc; subst hc; exact ⟨_, rfl, rfl⟩
  | var v => simp only [cCallK, Option.some.injEq] at hc; subst hc; exact ⟨_, rfl, rfl⟩
  | notVar v => simp only [cCallK, Option.some.injEq] at hc; subst hc; exact ⟨_, rfl, rfl⟩
  | zconst s =>
    simp only [cCallK] at hc
    cases hz : K.zconst s with
    | none => simp [hz] at hc
    | some d =>
      simp only [hz, Option.map_some, Option.some.injEq] at hc; subst hc
      exact ⟨_, rfl, by simp [rustApiK, hz]⟩
  | singleton v =>
    simp only [cCallK] at hc
    cases hz : K.singleton with
    | none => simp [hz] at hc
    | some f =>
      simp only [hz, Option.map_some, Option.some.injEq] at hc; subst hc
      exact ⟨_, rfl, by simp [rustApiK, hz]⟩
  | not i =>
    simp only [cCallK] at hc
    cases ha : henv[i]? with
    | none => simp [ha] at hc
    | some a =>
      simp only [ha, Option.map_some, Option.some.injEq] at hc; subst hc
      exact ⟨_, rfl, by simp [rustApiK, ha]⟩
  | pick i =>
    simp only [cCallK] at hc
    cases ha : henv[i]? with
    | none => simp [ha] at hc
    | some a =>
      simp only [ha, Option.map_some, Option.some.injEq] at hc; subst hc
      exact ⟨_, rfl, by simp [rustApiK, ha]⟩
  | cofT i =>
    simp only [cCallK] at hc
    cases ha : henv[i]? with
    | none => simp [ha] at hc
    | some a =>
      simp only [ha, Option.map_some, Option.some.injEq] at hc; subst hc
      exact ⟨_, rfl, by simp [rustApiK, ha]⟩
  | cofE i =>
    simp only [cCallK] at hc
    cases ha : henv[i]? with
    | none => simp [ha] at hc
    | some a =>
      simp only [ha, Option.map_some, Option.some.injEq] at hc; subst hc
      exact ⟨_, rfl, by simp [rustApiK, ha]⟩
  | op2 name i j =>
    simp only [cCallK] at hc
    split at hc
    · rename_i f a b hf ha hb
      simp only [Option.some.injEq] at hc; subst hc
      exact ⟨_, rfl, by simp only [rustApiK, hf, getElem?_map_getK, ha, hb, Option.map_some]⟩
    · cases hc
  | ite i j k =>
    simp only [cCallK] at hc
    split at hc
    · rename_i a b c0 ha hb hc0
      simp only [Option.some.injEq] at hc; subst hc
      exact ⟨_, rfl, by simp only [rustApiK, getElem?_map_getK, ha, hb, hc0, Option.map_some]⟩
    · cases hc
  | applyq q op i j k =>
    simp only [cCallK] at hc
    split at hc
    · rename_i f a b c0 hf ha hb hc0
      simp only [Option.some.injEq] at hc; subst hc
      exact ⟨_, rfl, by simp only [rustApiK, hf, getElem?_map_getK, ha, hb, hc0, Option.map_some]⟩
    · cases hc
  | varOp name i v =>
    simp only [cCallK] at hc
    split at hc
    · rename_i f a hf ha
      simp only [Option.some.injEq] at hc; subst hc
      exact ⟨_, rfl, by simp only [rustApiK, hf, getElem?_map_getK, ha, Option.map_some]⟩
    · cases hc
  | makeNode i j k =>
    simp only [cCallK] at hc
    split at hc
    · rename_i mk a b c0 hf ha hb hc0
      simp only [Option.some.injEq] at hc; subst hc
      exact ⟨_, rfl, by simp only [rustApiK, hf, getElem?_map_getK, ha, hb, hc0, Option.map_some]⟩
    · cases hc

/-- **C19, "any sequence of C API calls produces the same functions as the corresponding Rust API
calls" — every diagram kind.** For every record `K` of Rust API functions (the three kinds of the
`capi` driver are instances), every variable order `e`, every sequence of entry points (constants,
variables, `not`, connectives, `ite`, quantifiers, `apply_*`, `restrict`, `pick_cube_dd(_set)`,
single cofactors, ZBDD: `empty/base`, `singleton`, `subset0/1`, `change`, `union/intsec/diff`,
`make_node`), every choice of argument handles among those returned so far, every allocation
behaviour and both configurations of the wrapper: if the C client can issue the sequence, the Rust
API sequence is defined and every returned handle denotes exactly the Rust API's result — invalid
exactly where the Rust API returns `Err(OutOfMemory)`/`None` or got such an argument. -/
theorem ffi_eq_rust_kinds (K : Kind α) (e : Env) (cfg : Cfg) :
    ∀ (os : List (KOp × Bool)) (s s' : State α) (henv henv' : List (H α)),
      cRunK K e cfg s henv os = some (s', henv') →
        rustRunK K e (henv.map H.get) os = some (henv'.map H.get)
  | [], s, s', henv, henv', h => by
    simp only [cRunK, Option.some.injEq, Prod.mk.injEq] at h
    obtain ⟨_, rfl⟩ := h
    rfl
  | (o, fail) :: os, s, s', henv, henv', h => by
    simp only [cRunK] at h
    split at h
    · cases h
    · rename_i c hc
      split at h
      · rename_i s1 h1 hs
        obtain ⟨val, hv, hr⟩ := cCallK_value hc
        obtain ⟨h2, e1, e2⟩ := step_value hv hs
        cases e1
        have := ffi_eq_rust_kinds K e cfg os s1 s' (henv ++ [h1]) henv' h
        simp only [rustRunK, hr]
        simpa [e2] using this
      · cases h

/-- **… the BCDD entry points** (`Bcdd/Model.lean`: `applyNot`, `applyOp`, `applyIte`, `quant`,
`applyQuantOp`, `restrict`, `pickCubeDD(Set)`, Shannon cofactors) -/
theorem ffi_eq_rust_bcdd (e : Env) (cfg : Cfg) (os : List (KOp × Bool)) (s s' : State Bcdd.Edge)
    (henv henv' : List (H Bcdd.Edge)) (h : cRunK KBcdd.kind e cfg s henv os = some (s', henv')) :
    rustRunK KBcdd.kind e (henv.map H.get) os = some (henv'.map H.get) :=
  ffi_eq_rust_kinds KBcdd.kind e cfg os s s' henv henv' h

/-- **… the ZBDD entry points** (`Zbdd/Model.lean`: `subset`, `union`, `intsec`, `diff`, `applyNot`,
`applyBin`, `applyIte`, `makeNode`, `singleton`, …) -/
theorem ffi_eq_rust_zbdd (e : Env) (cfg : Cfg) (os : List (KOp × Bool)) (s s' : State Zbdd.ZDD)
    (henv henv' : List (H Zbdd.ZDD)) (h : cRunK KZbdd.kind e cfg s henv os = some (s', henv')) :
    rustRunK KZbdd.kind e (henv.map H.get) os = some (henv'.map H.get) :=
  ffi_eq_rust_kinds KZbdd.kind e cfg os s s' henv henv' h

/-- … and again the BDD ones, now including `pick`, quantifiers by name etc. through the driver's record -/
theorem ffi_eq_rust_bdd_kind (e : Env) (cfg : Cfg) (os : List (KOp × Bool)) (s s' : State Bdd.BDD)
    (henv henv' : List (H Bdd.BDD)) (h : cRunK KBdd.kind e cfg s henv os = some (s', henv')) :
    rustRunK KBdd.kind e (henv.map H.get) os = some (henv'.map H.get) :=
  ffi_eq_rust_kinds KBdd.kind e cfg os s s' henv henv' h

/-- two variables, identity order -/
def env2 : Env := { n := 2, l2v := #[0, 1], v2l := #[0, 1], names := ["", ""] }

/-- non-vacuity (ZBDD): `base`, `empty`, `{{x0}}`, `make_node(x0, base, empty)` (consumes handles 0
and 1), `subset1` of it, an operation that fails to allocate, `make_node` with that invalid handle -/
def sampleZ : List (KOp × Bool) :=
  [(.zconst "base", false), (.zconst "empty", false), (.singleton 0, false), (.makeNode 2 0 1, false),
   (.varOp "subset1" 3 0, false), (.singleton 1, true), (.makeNode 2 5 3, false)]

example : ∃ s henv, cRunK KZbdd.kind env2 Cfg.current ⟨{}, { mrefs := 1 }⟩ [] sampleZ = some (s, henv) ∧
    henv.map H.isValid = [true, true, true, true, true, false, false] ∧
    henv[3]? = some (.valid (Zbdd.singleton 0)) ∧ henv[4]? = some (.valid .base) ∧
    s.led.funcs = [.base, .node 0 .base .empty] := by
  refine ⟨_, _, rfl, ?_, ?_, ?_, ?_⟩ <;> decide

/-- non-vacuity (BCDD): `⊤`, `x0`, `¬x0`, the then-cofactor of `¬x0` (`⊥`), the cofactor of `⊤` (invalid), an
allocation failure, an operation on the invalid handle -/
def sampleC : List (KOp × Bool) :=
  [(.constT, false), (.var 0, false), (.not 1, false), (.cofT 2, false), (.cofT 0, false),
   (.notVar 1, true), (.not 5, false)]

example : ∃ s henv, cRunK KBcdd.kind env2 Cfg.current ⟨{}, { mrefs := 1 }⟩ [] sampleC = some (s, henv) ∧
    henv.map H.isValid = [true, true, true, true, false, false, false] ∧
    henv[3]? = some (.valid (Bcdd.terminal false)) := by
  refine ⟨_, _, rfl, ?_, ?_⟩ <;> decide

end OxiddModel.Ffi
