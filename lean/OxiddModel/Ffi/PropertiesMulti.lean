import OxiddModel.Ffi.Multi
import OxiddModel.Ffi.Properties

/-!
# C19 with several managers: isolation, balance, release

Headline theorems about `Multi.lean` — for **every** interleaving of calls on any number of
managers (any kinds: the denotation type is abstract), any allocation behaviour.
-/
namespace OxiddModel.Ffi.Multi

open OxiddModel.Ffi

variable {α : Type} [DecidableEq α]

/-! ## finite maps -/

theorem lookup_map_set {β : Type} (l : List (Nat × β)) (m m' : Nat) (v : β) :
    (l.map fun e => if e.1 = m then (m, v) else e).lookup m' =
      if m' = m then (l.lookup m).map (fun _ => v) else l.lookup m' := by
  induction l with
  | nil => simp [List.lookup]
  | cons e l ih =>
    obtain ⟨k, x⟩ := e
    simp only [List.map_cons]
    by_cases hk : k = m
    · subst hk
      by_cases hm : m' = k
      · subst hm; simp [List.lookup]
      · have : (m' == k) = false := by simpa using hm
        simp only [if_true, List.lookup, this, hm, if_false] at ih ⊢
        exact ih
    · by_cases hm : m' = m
      · subst hm
        have h1 : (m' == k) = false := by simpa using (fun h => hk (h ▸ rfl) : m' ≠ k)
        simp only [hk, if_false, List.lookup, h1, if_true] at ih ⊢
        exact ih
      · simp only [hk, if_false, hm] at ih ⊢
        by_cases h2 : m' = k
        · subst h2; simp [List.lookup]
        · have : (m' == k) = false := by simpa using h2
          simp only [List.lookup, this]
          exact ih

theorem lookup_filter_ne {β : Type} (l : List (Nat × β)) (m m' : Nat) :
    (l.filter fun e => e.1 ≠ m).lookup m' = if m' = m then none else l.lookup m' := by
  induction l with
  | nil => simp [List.lookup]
  | cons e l ih =>
    obtain ⟨k, x⟩ := e
    by_cases hk : k = m
    · subst hk
      simp only [List.filter, ne_eq, not_true_eq_false, decide_false]
      by_cases hm : m' = k
      · subst hm; simpa using ih
      · have : (m' == k) = false := by simpa using hm
        simp only [hm, if_false, List.lookup, this] at ih ⊢
        exact ih
    · have hd : decide (k ≠ m) = true := by simpa using hk
      simp only [List.filter, hd]
      by_cases hm : m' = m
      · subst hm
        have : (m' == k) = false := by simpa using (fun h => hk (h ▸ rfl) : m' ≠ k)
        simp only [if_true, List.lookup, this] at ih ⊢
        exact ih
      · simp only [hm, if_false] at ih ⊢
        by_cases h2 : m' = k
        · subst h2; simp [List.lookup]
        · have : (m' == k) = false := by simpa using h2
          simp only [List.lookup, this]
          exact ih

omit [DecidableEq α] in
theorem get_settle (s : MState α) (m m' : Nat) (st : State α) :
    (s.settle m st).get m' =
      if m' = m then (if st.rc.mgr = 0 then none else (s.get m).map fun _ => st) else s.get m' := by
  unfold MState.settle MState.get
  by_cases h0 : st.rc.mgr = 0
  · simp only [h0, if_true, lookup_filter_ne]
  · simp only [h0, if_false, lookup_map_set]


/-! ## 1. isolation -/

/-- the effect of a call on manager `m`, seen on the component of `m` alone -/
theorem mstep_on {cfg : MCfg} {s s' : MState α} {m : Nat} {c : Call α} {r : MRet α}
    (h : mstep cfg s (.on m c) = some (s', r)) :
    ∃ st st' r0, s.get m = some st ∧ step cfg.base st c = some (st', r0) ∧ r = .ret r0 ∧
      s' = s.settle m st' ∧ c.isNew = false := by
  simp only [mstep] at h
  split at h
  · cases h
  · rename_i hn
    split at h
    · cases h
    · rename_i st hst
      split at h
      · cases h
      · rename_i st' r0 hs
        simp only [Option.some.injEq, Prod.mk.injEq] at h
        obtain ⟨rfl, rfl⟩ := h
        exact ⟨st, st', r0, hst, hs, rfl, rfl, by simpa using hn⟩

/-- **C19 with several managers — isolation.** A call on manager `m` (any exported function,
any arguments the client may pass)
* does not change the component of any other manager: its handles, its reference counts (`Rc`:
  per-node external references and the manager count) and its ledger are the same before and after;
* returns what the single-manager machine `Ffi.step` returns on the component of `m` alone, and
  leaves `m` with that machine's successor state (or releases `m` if its count reached zero).
Hence the result of a call depends only on the denotations of the arguments in *their* manager. -/
theorem ffi_manager_isolation {s s' : MState α} {m : Nat} {c : Call α} {r : MRet α}
    (h : mstep MCfg.current s (.on m c) = some (s', r)) :
    (∀ m', m' ≠ m → s'.get m' = s.get m') ∧
    (∃ st st' r0, s.get m = some st ∧ step Cfg.current st c = some (st', r0) ∧ r = .ret r0 ∧
      s'.get m = if st'.rc.mgr = 0 then none else some st') ∧
    s'.cache = s.cache := by
  obtain ⟨st, st', r0, h1, h2, h3, h4, _⟩ := mstep_on h
  subst h4
  refine ⟨?_, ⟨st, st', r0, h1, h2, h3, ?_⟩, ?_⟩
  · intro m' hne
    simp [get_settle, hne]
  · simp [get_settle, h1]
  · unfold MState.settle; split <;> rfl

/-- … in particular two client states that agree on manager `m` get the same answer from every
call on `m`, whatever happened in the other managers in between -/
theorem ffi_result_depends_only_on_own_manager {s1 s2 s1' s2' : MState α} {m : Nat} {c : Call α}
    {r1 r2 : MRet α} (hm : s1.get m = s2.get m)
    (h1 : mstep MCfg.current s1 (.on m c) = some (s1', r1))
    (h2 : mstep MCfg.current s2 (.on m c) = some (s2', r2)) :
    r1 = r2 ∧ s1'.get m = s2'.get m := by
  obtain ⟨_, ⟨st1, st1', q1, a1, b1, c1, d1⟩, _⟩ := ffi_manager_isolation h1
  obtain ⟨_, ⟨st2, st2', q2, a2, b2, c2, d2⟩, _⟩ := ffi_manager_isolation h2
  rw [a1, a2] at hm
  cases hm
  rw [b1] at b2
  cases b2
  exact ⟨by rw [c1, c2], by rw [d1, d2]⟩

/-- **`sat_count` is a function of the manager's own diagram**: it returns the Rust API's count of
the argument's denotation in its manager and changes nothing — whatever was counted in other
managers before (same node indices, same variable counts, same gc counts …) -/
theorem ffi_count_isolated {s s' : MState α} {m : Nat} {f : H α} {cnt key : α → Nat} {r : MRet α}
    (h : mstep MCfg.current s (.count m f cnt key) = some (s', r)) :
    s' = s ∧ ∃ d, f = .valid d ∧ r = .num (cnt d) := by
  simp only [mstep, MCfg.current] at h
  split at h
  · rename_i st d hst
    split at h
    · cases h
    · simp only [Bool.false_eq_true, if_false, Option.some.injEq, Prod.mk.injEq] at h
      obtain ⟨rfl, rfl⟩ := h
      exact ⟨rfl, d, rfl, rfl⟩
  · cases h

/-- two managers with one variable each; `x` (denotation 1) in the first, `⊤` (denotation 2) in the
second, both stored under node index 5 -/
def cacheCalls : List (MCall Nat) :=
  [.new, .new, .on 0 (.construct (some 1)), .on 1 (.construct (some 2)),
   .count 0 (.valid 1) (fun _ => 1) (fun _ => 5),
   .count 1 (.valid 2) (fun _ => 2) (fun _ => 5)]

/-- **With the seeded thread-local memo table isolation fails**: the count of the function of the
second manager is answered with the count computed in the first one (1 instead of 2). -/
theorem ffi_isolation_fails_with_shared_cache :
    ∃ s rs, mrun MCfg.seededCache ({} : MState Nat) cacheCalls = some (s, rs) ∧
      rs.getLast? = some (.num 1) ∧
    ∃ s' rs', mrun MCfg.current ({} : MState Nat) cacheCalls = some (s', rs') ∧
      rs'.getLast? = some (.num 2) := by
  refine ⟨_, _, rfl, rfl, _, _, rfl, rfl⟩

/-- non-vacuity of `ffi_manager_isolation`: three managers, a call on the second one -/
example : ∃ s s' r, mrun MCfg.current ({} : MState Nat)
      [.new, .new, .new, .on 0 (.construct (some 7)), .on 2 (.construct (some 7)), .on 1 (.construct (some 4))] = some (s, r) ∧
    mstep MCfg.current s (.on 1 (.op2 (fun a b => some (a + b)) (.valid 4) (.valid 4))) = some (s', .ret (.handle (.valid 8))) ∧
    s'.get 0 = s.get 0 ∧ s'.get 2 = s.get 2 ∧ (s'.get 1).map (·.led.funcs) = some [8, 4] :=
  ⟨_, _, _, rfl, rfl, rfl, rfl, rfl⟩

/-! ## 2. balance -/

/-- every live manager is balanced, has a positive count and a fresh identifier; released managers
stay released -/
structure MInv (s : MState α) : Prop where
  inv : ∀ m st, s.get m = some st → Inv st ∧ PairsWF st ∧ st.rc.mgr ≠ 0
  lt : ∀ m st, s.get m = some st → m < s.next
  freedLt : ∀ m ∈ s.freed, m < s.next
  freedDead : ∀ m ∈ s.freed, s.get m = none

theorem minv_init : MInv ({} : MState α) where
  inv := fun _ _ h => by simp [MState.get, List.lookup] at h
  lt := fun _ _ h => by simp [MState.get, List.lookup] at h
  freedLt := fun _ h => by cases h
  freedDead := fun _ h => by cases h

theorem mstep_minv {s s' : MState α} {c : MCall α} {r : MRet α} (hi : MInv s)
    (h : mstep MCfg.current s c = some (s', r)) : MInv s' := by
  cases c with
  | new =>
    simp only [mstep, step, Option.some.injEq, Prod.mk.injEq] at h
    obtain ⟨rfl, _⟩ := h
    have hget : ∀ m, MState.get { s with mgrs := (s.next, (⟨({} : Rc α).newManagerRef, { ({} : Ledger α) with mrefs := 0 + 1 }⟩ : State α)) :: s.mgrs, next := s.next + 1 } m =
        if m = s.next then some ⟨({} : Rc α).newManagerRef, { ({} : Ledger α) with mrefs := 0 + 1 }⟩ else s.get m := by
      intro m
      unfold MState.get
      by_cases hm : m = s.next
      · subst hm; simp [List.lookup]
      · have : (m == s.next) = false := by simpa using hm
        simp [List.lookup, this, hm]
    refine ⟨?_, ?_, ?_, ?_⟩
    · intro m st hst
      rw [hget] at hst
      split at hst
      · cases hst
        exact ⟨inv_mgr_new _ _ inv_init, pairs_wf_init, by simp [Rc.newManagerRef]⟩
      · exact hi.inv m st hst
    · intro m st hst
      rw [hget] at hst
      split at hst
      · rename_i hm; subst hm; exact Nat.lt_succ_self _
      · exact Nat.lt_succ_of_lt (hi.lt m st hst)
    · intro m hm; exact Nat.lt_succ_of_lt (hi.freedLt m hm)
    · intro m hm
      rw [hget]
      have := hi.freedLt m hm
      have hne : m ≠ s.next := by omega
      simp only [hne, if_false]
      exact hi.freedDead m hm
  | on m c =>
    obtain ⟨st, st', r0, h1, h2, _, h4, _⟩ := mstep_on h
    subst h4
    have hinv := hi.inv m st h1
    have hst' : Inv st' := step_inv hinv.1 h2
    have hwf' : PairsWF st' := step_pairs_wf hinv.2.1 h2
    have hnext : (s.settle m st').next = s.next := by unfold MState.settle; split <;> rfl
    refine ⟨?_, ?_, ?_, ?_⟩
    · intro m' x hx
      rw [get_settle] at hx
      split at hx
      · split at hx
        · cases hx
        · rename_i h0
          rw [h1] at hx
          cases hx
          exact ⟨hst', hwf', h0⟩
      · exact hi.inv m' x hx
    · intro m' x hx
      rw [hnext]
      rw [get_settle] at hx
      split at hx
      · rename_i hm; subst hm; exact hi.lt _ st h1
      · exact hi.lt m' x hx
    · intro m' hm'
      rw [hnext]
      unfold MState.settle at hm'
      split at hm'
      · simp only [List.mem_cons] at hm'
        rcases hm' with rfl | hm'
        · exact hi.lt _ st h1
        · exact hi.freedLt m' hm'
      · exact hi.freedLt m' hm'
    · intro m' hm'
      rw [get_settle]
      by_cases h0 : st'.rc.mgr = 0
      · unfold MState.settle at hm'
        simp only [h0, if_true, List.mem_cons] at hm'
        split
        · simp
        · rcases hm' with rfl | hm'
          · rename_i hne; exact absurd rfl hne
          · exact hi.freedDead m' hm'
      · unfold MState.settle at hm'
        simp only [h0, if_false] at hm'
        have hd := hi.freedDead m' hm'
        split
        · rename_i hm; subst hm; rw [h1] at hd; cases hd
        · exact hd
  | count m f cnt key =>
    obtain ⟨rfl, _⟩ := ffi_count_isolated h
    exact hi

theorem mrun_minv : ∀ (cs : List (MCall α)) (s s' : MState α) (rs : List (MRet α)),
    MInv s → mrun MCfg.current s cs = some (s', rs) → MInv s'
  | [], s, s', rs, h, hr => by
    simp only [mrun, Option.some.injEq, Prod.mk.injEq] at hr
    obtain ⟨rfl, _⟩ := hr
    exact h
  | c :: cs, s, s', rs, h, hr => by
    simp only [mrun] at hr
    split at hr
    · cases hr
    · rename_i s1 r1 hs1
      split at hr
      · cases hr
      · rename_i s2 rs2 hr2
        simp only [Option.some.injEq, Prod.mk.injEq] at hr
        obtain ⟨rfl, _⟩ := hr
        exact mrun_minv cs s1 _ _ (mstep_minv h hs1) hr2

/-- **C19 with several managers — balance.** After any interleaving of calls on any number of
managers, every live manager is balanced on its own: per node the external references kept by the
wrapper code are the handles the client owns *in that manager* plus the clones held by its
substitution objects, and the manager's count is its manager handles plus one per such reference
(`Ffi.Inv`); the count of a live manager is positive, a released manager is never live again. -/
theorem ffi_balance_multi (cs : List (MCall α)) (s : MState α) (rs : List (MRet α))
    (hr : mrun MCfg.current ({} : MState α) cs = some (s, rs)) :
    (∀ m st, s.get m = some st → Inv st ∧ st.rc.mgr ≠ 0) ∧ (∀ m ∈ s.freed, s.get m = none) := by
  have h := mrun_minv cs {} s rs minv_init hr
  exact ⟨fun m st hst => ⟨(h.inv m st hst).1, (h.inv m st hst).2.2⟩, h.freedDead⟩

example : ∃ s rs, mrun MCfg.current ({} : MState Nat)
      [.new, .new, .on 1 (.construct (some 3)), .on 0 (.construct (some 3)), .on 1 (.ref (.valid 3)),
       .on 1 .managerUnref, .on 0 (.unref (.valid 3)), .on 0 .managerUnref] = some (s, rs) ∧
    s.freed = [0] ∧ (s.get 1).map (fun st => (st.rc.mgr, st.rc.nodes, st.led.mrefs)) = some (2, [3, 3], 0) :=
  ⟨_, _, rfl, rfl, rfl⟩

/-- **A manager is released exactly when its last handle is gone**: after a call on a balanced
manager `m`, `m` is no longer live iff the client holds no manager handle of it, no function
reference in it and no substitution object with a replacement from it. -/
theorem ffi_manager_freed_iff {s s' : MState α} {m : Nat} {c : Call α} {r : MRet α} (hi : MInv s)
    (h : mstep MCfg.current s (.on m c) = some (s', r)) :
    ∃ st st' r0, s.get m = some st ∧ step Cfg.current st c = some (st', r0) ∧
      ((s'.get m = none ∧ m ∈ s'.freed) ↔
        (st'.led.mrefs = 0 ∧ st'.led.funcs = [] ∧ st'.led.pairs = [])) ∧
      (s'.get m ≠ none → s'.get m = some st' ∧ m ∉ s'.freed) := by
  obtain ⟨st, st', r0, h1, h2, _, h4, _⟩ := mstep_on h
  subst h4
  have hinv : Inv st' := step_inv (hi.inv m st h1).1 h2
  have hnf : m ∉ s.freed := fun hm => by have := hi.freedDead m hm; rw [h1] at this; cases this
  have hcount : st'.rc.mgr = 0 ↔ (st'.led.mrefs = 0 ∧ st'.led.funcs = [] ∧ st'.led.pairs = []) := by
    have := hinv.2
    simp only [Ledger.substRefs, List.length_map] at this
    constructor
    · intro h0
      rw [h0] at this
      refine ⟨by omega, List.eq_nil_of_length_eq_zero (by omega), List.eq_nil_of_length_eq_zero (by omega)⟩
    · rintro ⟨a, b, c⟩
      rw [a, b, c] at this
      simpa using this
  refine ⟨st, st', r0, h1, h2, ?_, ?_⟩
  · rw [← hcount, get_settle]
    simp only [if_true, h1, Option.map_some]
    constructor
    · rintro ⟨a, _⟩
      split at a
      · assumption
      · cases a
    · intro h0
      refine ⟨by simp [h0], ?_⟩
      unfold MState.settle
      simp [h0]
  · intro hne
    rw [get_settle] at hne ⊢
    simp only [if_true, h1, Option.map_some] at hne ⊢
    split at hne
    · exact absurd rfl hne
    · rename_i h0
      refine ⟨by simp [h0], ?_⟩
      unfold MState.settle
      simpa [h0] using hnf


/-! ## 3. releasing everything -/

/-- `unref`, `substitution_free`: calls that leave the manager handles alone -/
def _root_.OxiddModel.Ffi.Call.keepsMgr : Call α → Bool
  | .unref _ => true
  | .substFree _ => true
  | _ => false

theorem step_keeps_mrefs {cfg : Cfg} {st st' : State α} {c : Call α} {r : Ret α}
    (hk : c.keepsMgr = true) (h : step cfg st c = some (st', r)) :
    st'.led.mrefs = st.led.mrefs ∧ c.isNew = false := by
  cases c with
  | unref f =>
    simp only [step] at h
    split at h
    · cases h
    · split at h <;>
      · simp only [Option.some.injEq, Prod.mk.injEq] at h
        obtain ⟨rfl, _⟩ := h
        exact ⟨by simp [Ledger.release], rfl⟩
  | substFree id =>
    simp only [step] at h
    split at h
    · cases h
    · simp only [Option.some.injEq, Prod.mk.injEq] at h
      obtain ⟨rfl, _⟩ := h
      exact ⟨rfl, rfl⟩
  | _ => simp [Call.keepsMgr] at hk

omit [DecidableEq α] in
theorem settle_alive (s : MState α) (m : Nat) (st st' : State α) (h1 : s.get m = some st)
    (h0 : st'.rc.mgr ≠ 0) :
    (s.settle m st').get m = some st' ∧ (∀ m', m' ≠ m → (s.settle m st').get m' = s.get m') ∧
      (s.settle m st').freed = s.freed := by
  refine ⟨by simp [get_settle, h1, h0], fun m' hne => by simp [get_settle, hne], ?_⟩
  unfold MState.settle
  simp [h0]

/-- a run of calls that keep the manager handles, on a manager of which the client holds a handle,
is a run of the several-manager machine that touches nothing else -/
theorem mrun_lift : ∀ (cs : List (Call α)) (s : MState α) (m : Nat) (st st' : State α) (rs : List (Ret α)),
    s.get m = some st → Inv st → 0 < st.led.mrefs → (∀ c ∈ cs, c.keepsMgr = true) →
    run Cfg.current st cs = some (st', rs) →
    ∃ s', mrun MCfg.current s (cs.map (MCall.on m)) = some (s', rs.map MRet.ret) ∧
      s'.get m = some st' ∧ (∀ m', m' ≠ m → s'.get m' = s.get m') ∧ s'.freed = s.freed
  | [], s, m, st, st', rs, h1, _, _, _, hr => by
    simp only [run, Option.some.injEq, Prod.mk.injEq] at hr
    obtain ⟨rfl, rfl⟩ := hr
    exact ⟨s, by simp [mrun], h1, fun _ _ => rfl, rfl⟩
  | c :: cs, s, m, st, st', rs, h1, hinv, hpos, hk, hr => by
    simp only [run] at hr
    split at hr
    · cases hr
    · rename_i st1 r1 hs1
      split at hr
      · cases hr
      · rename_i st2 rs2 hr2
        simp only [Option.some.injEq, Prod.mk.injEq] at hr
        obtain ⟨rfl, rfl⟩ := hr
        have hkc := step_keeps_mrefs (hk c (List.mem_cons_self ..)) hs1
        have hinv1 : Inv st1 := step_inv hinv hs1
        have hpos1 : 0 < st1.led.mrefs := by rw [hkc.1]; exact hpos
        have h0 : st1.rc.mgr ≠ 0 := by have := hinv1.2; omega
        obtain ⟨a, b, c3⟩ := settle_alive s m st st1 h1 h0
        obtain ⟨s', e1, e2, e3, e4⟩ := mrun_lift cs (s.settle m st1) m st1 st2 rs2 a hinv1 hpos1
          (fun c' hc' => hk c' (List.mem_cons_of_mem _ hc')) hr2
        refine ⟨s', ?_, e2, fun m' hne => by rw [e3 m' hne, b m' hne], by rw [e4, c3]⟩
        have hstep : mstep MCfg.current s (.on m c) = some (s.settle m st1, .ret r1) := by
          simp only [mstep, hkc.2, Bool.false_eq_true, if_false, h1, MCfg.current, hs1]
        simp only [List.map_cons, mrun, hstep, e1]

/-- unref'ing the manager handles of a manager that holds nothing else releases it -/
theorem mrun_munref : ∀ (k : Nat) (s : MState α) (m : Nat) (st : State α),
    s.get m = some st → st.led.mrefs = k → st.rc.mgr = k → 0 < k →
    ∃ s' rs, mrun MCfg.current s (List.replicate k (MCall.on m .managerUnref)) = some (s', rs) ∧
      s'.get m = none ∧ m ∈ s'.freed ∧ (∀ m', m' ≠ m → s'.get m' = s.get m')
  | 0, _, _, _, _, _, _, hk => by omega
  | k + 1, s, m, st, h1, hm, hc, _ => by
    let st1 : State α := { rc := st.rc.dropManagerRef, led := { st.led with mrefs := st.led.mrefs - 1 } }
    have hs : step Cfg.current st .managerUnref = some (st1, .unit) := by
      simp only [step, hm, Nat.add_one_ne_zero, if_false, st1]
    have hstep : mstep MCfg.current s (.on m .managerUnref) = some (s.settle m st1, .ret .unit) := by
      simp only [mstep, Call.isNew, Bool.false_eq_true, if_false, h1, MCfg.current, hs]
    have hm1 : st1.led.mrefs = k := by simp [st1, hm]
    have hc1 : st1.rc.mgr = k := by simp [st1, Rc.dropManagerRef, hc]
    by_cases hk0 : k = 0
    · subst hk0
      refine ⟨s.settle m st1, [.ret .unit], ?_, ?_, ?_, ?_⟩
      · simp only [List.replicate, mrun, hstep]
      · simp [get_settle, hc1]
      · unfold MState.settle; simp [hc1]
      · intro m' hne; simp [get_settle, hne]
    · have h0 : st1.rc.mgr ≠ 0 := by omega
      obtain ⟨a, b, _⟩ := settle_alive s m st st1 h1 h0
      obtain ⟨s', rs, e1, e2, e3, e4⟩ := mrun_munref k (s.settle m st1) m st1 a hm1 hc1 (by omega)
      refine ⟨s', .ret .unit :: rs, ?_, e2, e3, fun m' hne => by rw [e4 m' hne, b m' hne]⟩
      simp only [List.replicate, mrun, hstep, e1]

omit [DecidableEq α] in
theorem releaseAll_keepsMgr (st : State α) : ∀ c ∈ releaseAll st, c.keepsMgr = true := by
  intro c hc
  simp only [releaseAll, List.mem_append, List.mem_map] at hc
  rcases hc with ⟨_, _, rfl⟩ | ⟨_, _, rfl⟩ <;> rfl

/-- **C19 with several managers — "after all handles are unref'ed … the manager holds no nodes".**
After any interleaving of calls on any number of managers, for every live manager `m` of which the
client still holds a manager handle (it needs one to run the collection): freeing the substitution
objects and unref'ing every function reference of `m` is a legal call sequence, after which no node
of `m` has an external reference (so a collection empties it, `ffi_all_unref_gc_empty`), `m`'s
count is exactly the number of manager handles, and **no other manager has changed**; unref'ing
those manager handles then releases `m` — again without touching any other manager. -/
theorem ffi_all_unref_empty_multi (cs : List (MCall α)) (s : MState α) (rs : List (MRet α))
    (hr : mrun MCfg.current ({} : MState α) cs = some (s, rs))
    (m : Nat) (st : State α) (hm : s.get m = some st) (hpos : 0 < st.led.mrefs) :
    ∃ s1 r1 st1 s2 r2,
      mrun MCfg.current s ((releaseAll st).map (MCall.on m)) = some (s1, r1) ∧
      s1.get m = some st1 ∧ st1.rc.nodes = [] ∧ st1.led.funcs = [] ∧ st1.led.pairs = [] ∧
      st1.rc.mgr = st1.led.mrefs ∧ st1.led.mrefs = st.led.mrefs ∧
      (∀ m', m' ≠ m → s1.get m' = s.get m') ∧
      mrun MCfg.current s1 (List.replicate st1.led.mrefs (MCall.on m .managerUnref)) = some (s2, r2) ∧
      s2.get m = none ∧ m ∈ s2.freed ∧ (∀ m', m' ≠ m → s2.get m' = s.get m') := by
  have hI := mrun_minv cs {} s rs minv_init hr
  obtain ⟨hinv, hwf, _⟩ := hI.inv m st hm
  obtain ⟨st1, q1, a1, a2, a3, _, a5, a6, a7⟩ := release_all_spec Cfg.current st hinv hwf
  obtain ⟨s1, b1, b2, b3, _⟩ := mrun_lift (releaseAll st) s m st st1 q1 hm hinv hpos (releaseAll_keepsMgr st) a1
  obtain ⟨s2, r2, c1, c2, c3, c4⟩ := mrun_munref st1.led.mrefs s1 m st1 b2 rfl (by rw [a6, a7]) (by rw [a7]; exact hpos)
  exact ⟨s1, _, st1, s2, r2, b1, b2, a5, a2, a3, by rw [a6, a7], a7, b3, c1, c2, c3,
    fun m' hne => by rw [c4 m' hne, b3 m' hne]⟩

omit [DecidableEq α] in
/-- the calls of `ffi_all_unref_empty_multi` in one list -/
theorem releaseCalls_eq (m : Nat) (st : State α) :
    releaseCalls m st = (releaseAll st).map (MCall.on m) ++ List.replicate st.led.mrefs (MCall.on m .managerUnref) := rfl

/-- non-vacuity: two managers with live handles and a substitution object; releasing the first -/
example : ∃ s rs st s' rs', mrun MCfg.current ({} : MState Nat)
      [.new, .new, .on 0 (.construct (some 1)), .on 1 (.construct (some 1)), .on 0 (.construct (some 2)),
       .on 0 (.substNew 0), .on 0 (.substAddPair 0 0 (.valid 2)), .on 0 .managerRef] = some (s, rs) ∧
    s.get 0 = some st ∧ (releaseCalls 0 st).length = 5 ∧
    mrun MCfg.current s (releaseCalls 0 st) = some (s', rs') ∧ s'.get 0 = none ∧ s'.freed = [0] ∧
    s'.get 1 = s.get 1 :=
  ⟨_, _, _, _, _, rfl, rfl, rfl, rfl, rfl, rfl, rfl⟩

end OxiddModel.Ffi.Multi
