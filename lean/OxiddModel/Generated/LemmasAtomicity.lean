import OxiddModel.Generated.RulesAtomicity

/-!
# What "retain / release are single atomic read-modify-write operations" buys (C05, C07)

The store-level and thread-level models (`Bdd/RcS*`, `Bdd/Threads*`, `Alloc`) count references with
one *atomic* step per `clone_edge` / `drop_edge`.  This file gives that assumption a meaning that
can be checked against the operations extracted from the source:

* a counter function is a **program** of atomic actions on one shared counter (`Act`): a
  read-modify-write `rmw d`, a `load` into a thread-local register, a `store` of the register plus `d`;
* threads run such programs interleaved in any order (`run`, a schedule is a list of thread indices);
* `rmw_exact`: if every program consists of `rmw`/`load` actions only, then in **every** interleaving
  `counter + pending increments = initial counter + all increments` — when all threads are done the
  counter is exactly the initial value plus the number of retains minus the number of releases;
* `split_increment_loses_update`: the program `[load, store (+1)]` (an increment written as a separate
  load and store) run by two threads has an interleaving that ends one short — the lost update;
* `prog`: the program denoted by a list of extracted operations (`fetch_add(k)` ↦ `rmw k`,
  `fetch_sub(k)` ↦ `rmw (-k)`, `load` ↦ `load`, `store(..)` ↦ `store`; anything else: `none`).
-/
namespace OxiddModel.Generated.At

/-- an atomic action on the shared counter -/
inductive Act where
  | rmw (d : Int)
  | load
  /-- store `register + d` -/
  | store (d : Int)
deriving DecidableEq, Repr

/-- a thread: the remaining program and its register (the value last loaded) -/
structure Th where
  pc : List Act
  reg : Int
deriving DecidableEq, Repr

def Act.delta : Act → Int
  | .rmw d => d
  | _ => 0

def Act.atomic : Act → Bool
  | .store _ => false
  | _ => true

/-- one action of one thread -/
def step (c : Int) (t : Th) : Int × Th :=
  match t.pc with
  | [] => (c, t)
  | .rmw d :: r => (c + d, ⟨r, t.reg⟩)
  | .load :: r => (c, ⟨r, c⟩)
  | .store d :: r => (t.reg + d, ⟨r, t.reg⟩)

/-- thread `i` does one action (no-op when `i` is out of range or the thread is done) -/
def stepAt : Nat → Int → List Th → Int × List Th
  | _, c, [] => (c, [])
  | 0, c, t :: ts => ((step c t).1, (step c t).2 :: ts)
  | i + 1, c, t :: ts => ((stepAt i c ts).1, t :: (stepAt i c ts).2)

/-- run a schedule -/
def run : List Nat → Int → List Th → Int × List Th
  | [], c, ts => (c, ts)
  | i :: is, c, ts => run is (stepAt i c ts).1 (stepAt i c ts).2

/-- the sum of the increments a thread has still to perform -/
def Th.pending (t : Th) : Int := (t.pc.map Act.delta).sum
def pending (ts : List Th) : Int := (ts.map Th.pending).sum

def Th.atomic (t : Th) : Bool := t.pc.all Act.atomic
def allAtomic (ts : List Th) : Bool := ts.all Th.atomic
def allDone (ts : List Th) : Bool := ts.all (fun t => t.pc.isEmpty)

theorem step_inv (c : Int) (t : Th) (h : t.atomic = true) :
    (step c t).1 + (step c t).2.pending = c + t.pending ∧ (step c t).2.atomic = true := by
  obtain ⟨pc, reg⟩ := t
  cases pc with
  | nil => exact ⟨rfl, h⟩
  | cons a r =>
    cases a with
    | rmw d =>
      simp only [Th.atomic, List.all_cons, Bool.and_eq_true] at h
      refine ⟨?_, h.2⟩
      simp only [step, Th.pending, List.map_cons, List.sum_cons, Act.delta]; omega
    | load =>
      simp only [Th.atomic, List.all_cons, Bool.and_eq_true] at h
      refine ⟨?_, h.2⟩
      simp only [step, Th.pending, List.map_cons, List.sum_cons, Act.delta]; omega
    | store d => simp [Th.atomic, Act.atomic] at h

theorem stepAt_inv (i : Nat) (c : Int) (ts : List Th) (h : allAtomic ts = true) :
    (stepAt i c ts).1 + pending (stepAt i c ts).2 = c + pending ts ∧
      allAtomic (stepAt i c ts).2 = true := by
  induction ts generalizing i with
  | nil => cases i <;> exact ⟨rfl, rfl⟩
  | cons t ts ih =>
    simp only [allAtomic, List.all_cons, Bool.and_eq_true] at h
    cases i with
    | zero =>
      have hs := step_inv c t h.1
      refine ⟨?_, ?_⟩
      · simp only [stepAt, pending, List.map_cons, List.sum_cons]
        have := hs.1; omega
      · simp only [stepAt, allAtomic, List.all_cons, Bool.and_eq_true]; exact ⟨hs.2, h.2⟩
    | succ i =>
      have hs := ih i h.2
      refine ⟨?_, ?_⟩
      · simp only [stepAt, pending, List.map_cons, List.sum_cons]
        have := hs.1; simp only [pending] at this; omega
      · simp only [stepAt, allAtomic, List.all_cons, Bool.and_eq_true]; exact ⟨h.1, hs.2⟩

/-- **No update is ever lost**: with read-modify-write (and load) actions only, every interleaving
keeps `counter + pending = initial counter + initially pending`. -/
theorem rmw_exact (sched : List Nat) (c : Int) (ts : List Th) (h : allAtomic ts = true) :
    (run sched c ts).1 + pending (run sched c ts).2 = c + pending ts := by
  induction sched generalizing c ts with
  | nil => rfl
  | cons i is ih =>
    have hs := stepAt_inv i c ts h
    simp only [run]; rw [ih _ _ hs.2]; exact hs.1

theorem pending_done (ts : List Th) (h : allDone ts = true) : pending ts = 0 := by
  induction ts with
  | nil => rfl
  | cons t ts ih =>
    simp only [allDone, List.all_cons, Bool.and_eq_true, List.isEmpty_iff] at h
    simp only [pending, List.map_cons, List.sum_cons, Th.pending, h.1, List.map_nil, List.sum_nil]
    have := ih (by simpa [allDone] using h.2); simp only [pending] at this; omega

/-- … so once every thread has finished, the counter is the initial value plus all increments. -/
theorem rmw_exact_done (sched : List Nat) (c : Int) (ts : List Th) (h : allAtomic ts = true)
    (hd : allDone (run sched c ts).2 = true) : (run sched c ts).1 = c + pending ts := by
  have := rmw_exact sched c ts h; rw [pending_done _ hd] at this; omega

/-- the increment written as a separate load and store -/
def splitInc : List Act := [.load, .store 1]

/-- **Lost update**: two threads incrementing by load + store, both load before either stores:
the counter ends at 1, not 2.  (This is the shape of the seeded change to `dynamic.rs::retain`.) -/
theorem split_increment_loses_update :
    run [0, 1, 0, 1] 0 [⟨splitInc, 0⟩, ⟨splitInc, 0⟩] = (1, [⟨[], 0⟩, ⟨[], 0⟩]) := by decide

/-- the same two threads with a read-modify-write: 2 in this (and by `rmw_exact_done` every) schedule -/
example : run [0, 1] 0 [⟨[.rmw 1], 0⟩, ⟨[.rmw 1], 0⟩] = (2, [⟨[], 0⟩, ⟨[], 0⟩]) := by decide

/-! ## the program denoted by extracted operations -/

/-- the numeric operand of a `fetch_add` / `fetch_sub` (only the literals the models know) -/
def lit : String → Option Int
  | "1" => some 1
  | "2" => some 2
  | _ => none

def RcOp.act (o : RcOp) : Option Act :=
  match o.op with
  | .fetchAdd => (lit o.operand).map .rmw
  | .fetchSub => (lit o.operand).map (fun k => .rmw (-k))
  | .load => some .load
  | .store => some (.store 0)   -- a store of *some* value computed from a load: never atomic
  | _ => none

/-- the program of a function: its operations on the counter, in source order -/
def prog (ops : List RcOp) : Option (List Act) := ops.mapM RcOp.act

/-- does an operation belong to the site (file, owner, function)?  Owner `"*"`: any owner (a free
function or a method — `dynamic.rs` has `retain` as a free function and `release` as a method). -/
def RcOp.at (o : RcOp) (s : String × String × String) : Bool :=
  o.file == s.1 && (s.2.1 == "*" || o.owner == s.2.1) && o.fn == s.2.2

/-- the operations of one function -/
def opsOf (ops : List RcOp) (s : String × String × String) : List RcOp := ops.filter (·.at s)

/-- a site increments atomically: its program is the single action `rmw 1`, and the function
aborts on overflow -/
def isInc (ops : List RcOp) (s : String × String × String) : Bool :=
  prog (opsOf ops s) == some [.rmw 1] && (opsOf ops s).all (·.aborts)

/-- a site decrements atomically -/
def isDec (ops : List RcOp) (s : String × String × String) : Bool :=
  prog (opsOf ops s) == some [.rmw (-1)]

def AOp.isWrite : AOp → Bool
  | .load => false
  | _ => true

/-- the methods a reference counter may be touched with at all: the two read-modify-writes and
loads.  (`store`/`swap` overwrite concurrent updates; a `compare_exchange` loop or `fetch_update`
would be atomic too but is not what the models' sites are — it is reported.) -/
def AOp.allowed : AOp → Bool
  | .fetchAdd | .fetchSub | .load => true
  | _ => false

theorem isInc_prog {ops : List RcOp} {s : String × String × String} (h : isInc ops s = true) :
    prog (opsOf ops s) = some [.rmw 1] := by
  simp only [isInc, Bool.and_eq_true, beq_iff_eq] at h; exact h.1

theorem isDec_prog {ops : List RcOp} {s : String × String × String} (h : isDec ops s = true) :
    prog (opsOf ops s) = some [.rmw (-1)] := by
  simp only [isDec, beq_iff_eq] at h; exact h

end OxiddModel.Generated.At
