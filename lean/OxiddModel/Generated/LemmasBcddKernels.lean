import OxiddModel.Generated.RulesBcdd
import OxiddModel.Bcdd.Apply

/-!
# Meaning of the extracted BCDD kernel tables, tied to the model `Bcdd/Model.lean`

* `evalRows rows f g`: what a kernel's decision list returns for two model edges
  (`Bcdd.Edge`: complement tag + node; `Bcdd.terminal`, `Bcdd.applyNot` are the model's
  `get_terminal`, `not`);
* `rowsOK k rows`: the finite check (128 cases: same node?, each operand a terminal?, the two tags,
  the two *node* values at an assignment; inconsistent combinations excluded);
* `kernel_sound`: if `rowsOK`, then for ALL edges `f g` and assignments `σ` the list is total, a
  `Done(h)` result satisfies `h.eval σ = k.sem (f.eval σ) (g.eval σ)` (`Bcdd.Edge.eval`,
  `Bcdd.BOp.sem`), and `Nodes` is returned only for two different inner nodes (what `apply_bin`
  relies on when it reads their levels);
* `DRow.apply` / `modelRow` / `applyOp_eq_row`: the model's `Bcdd.applyOp` is, operator by
  operator, `[¬] applyBin k ([¬]f) ([¬]g)` with the flags of `modelRow` — so comparing the extracted
  derivation rows with `modelRow` (by `decide`) compares the source with the model.
-/
namespace OxiddModel.Generated.Bc

open OxiddModel.Bcdd

def Kern.toBOp : Kern → BOp
  | .and => .and
  | .xor => .xor

/-- tags as the model has them: `true` = `Complemented` -/
def BExpr.eval (fneg gneg : Bool) : BExpr → Bool
  | .lit b => b
  | .tagNone .f isNone => (!fneg) == isNone
  | .tagNone .g isNone => (!gneg) == isNone
  | .tagsEq eq => (fneg == gneg) == eq
  | .and a b => a.eval fneg gneg && b.eval fneg gneg
  | .or a b => a.eval fneg gneg || b.eval fneg gneg
  | .not a => !a.eval fneg gneg

/-- does the row's case apply? (`same`: both edges point to the same node; `ftop`/`gtop`: the
node is the terminal; `fneg`/`gneg`: the tags) -/
def KCond.holdsA (same ftop gtop fneg gneg : Bool) : KCond → Bool
  | .sameEq => same && fneg == gneg
  | .sameNe => same && fneg != gneg
  | .same => same
  | .innerInner => !ftop && !gtop
  | .innerTerm c => !ftop && gtop && gneg == c
  | .termInner c => ftop && !gtop && fneg == c
  | .termTerm => ftop && gtop

def KCond.holds (c : KCond) (f g : Edge) : Bool :=
  c.holdsA (f.n = g.n) f.n.isTop g.n.isTop f.neg g.neg

def pickE (f g : Edge) : Side → Edge
  | .f => f
  | .g => g

def KRes.inst (f g : Edge) : KRes → NodesOrDone
  | .nodes => .nodes
  | .clone s => .done (pickE f g s)
  | .neg s => .done (applyNot (pickE f g s))
  | .const e => .done (terminal (e.eval f.neg g.neg))

/-- the kernel's answer: result of the first row whose case applies -/
def evalRows (rows : List KRow) (f g : Edge) : Option NodesOrDone :=
  (rows.find? (·.cond.holds f g)).map (·.res.inst f g)

/-- value of a `Done` result, given the tags and the values `x`, `y` of the two *nodes* -/
def KRes.valA (fneg gneg x y : Bool) : KRes → Bool
  | .nodes => false
  | .clone .f => fneg != x
  | .clone .g => gneg != y
  | .neg .f => !(fneg != x)
  | .neg .g => !(gneg != y)
  | .const e => e.eval fneg gneg

def consistent (same ftop gtop x y : Bool) : Bool :=
  (!same || (ftop == gtop && x == y)) && (!ftop || x) && (!gtop || y) && (!(ftop && gtop) || same)

def rowsOKAt (k : Kern) (rows : List KRow) (same ftop gtop fneg gneg x y : Bool) : Bool :=
  match rows.find? (·.cond.holdsA same ftop gtop fneg gneg) with
  | none => false
  | some r =>
    match r.res with
    | .nodes => !same && !ftop && !gtop
    | res => res.valA fneg gneg x y == k.toBOp.sem (fneg != x) (gneg != y)

def bools : List Bool := [false, true]

def rowsOK (k : Kern) (rows : List KRow) : Bool :=
  bools.all fun same => bools.all fun ftop => bools.all fun gtop => bools.all fun fneg =>
  bools.all fun gneg => bools.all fun x => bools.all fun y =>
    !consistent same ftop gtop x y || rowsOKAt k rows same ftop gtop fneg gneg x y

theorem all_bools {p : Bool → Bool} (h : bools.all p = true) (b : Bool) : p b = true := by
  simp only [bools, List.all_cons, List.all_nil, Bool.and_true, Bool.and_eq_true] at h
  cases b
  · exact h.1
  · exact h.2

theorem isTop_eq {n : CNode} (h : n.isTop = true) : n = .top := by
  cases n
  · rfl
  · simp [CNode.isTop] at h

theorem inst_eval (r : KRes) (f g h : Edge) (σ : Nat → Bool) (hr : r.inst f g = .done h) :
    h.eval σ = r.valA f.neg g.neg (f.n.eval σ) (g.n.eval σ) := by
  cases r with
  | nodes => cases hr
  | clone s => cases s <;> (simp only [KRes.inst, pickE, NodesOrDone.done.injEq] at hr; subst hr; rfl)
  | neg s =>
    cases s <;> (simp only [KRes.inst, pickE, NodesOrDone.done.injEq] at hr; subst hr
                 simp only [Edge.eval, applyNot, KRes.valA]
                 cases f.neg <;> cases g.neg <;> cases f.n.eval σ <;> cases g.n.eval σ <;> rfl)
  | const e =>
    simp only [KRes.inst, NodesOrDone.done.injEq] at hr; subst hr
    simp only [Edge.eval, terminal, CNode.eval, KRes.valA]
    cases e.eval f.neg g.neg <;> rfl

/-- a kernel table that passes the finite check is correct for all edges and assignments -/
theorem kernel_sound (k : Kern) (rows : List KRow) (hok : rowsOK k rows = true) (f g : Edge)
    (σ : Nat → Bool) :
    match evalRows rows f g with
    | some (.done h) => h.eval σ = k.toBOp.sem (f.eval σ) (g.eval σ)
    | some .nodes => f.n ≠ g.n ∧ f.n.isTop = false ∧ g.n.isTop = false
    | none => False := by
  have h1 := all_bools (all_bools (all_bools (all_bools (all_bools (all_bools (all_bools hok
    (decide (f.n = g.n))) f.n.isTop) g.n.isTop) f.neg) g.neg) (f.n.eval σ)) (g.n.eval σ)
  have hc : consistent (decide (f.n = g.n)) f.n.isTop g.n.isTop (f.n.eval σ) (g.n.eval σ) = true := by
    simp only [consistent, Bool.and_eq_true, Bool.or_eq_true, Bool.not_eq_true', decide_eq_false_iff_not,
      beq_iff_eq, decide_eq_true_eq]
    refine ⟨⟨⟨?_, ?_⟩, ?_⟩, ?_⟩
    · by_cases h : f.n = g.n
      · right; rw [h]; exact ⟨rfl, rfl⟩
      · left; exact h
    · cases h : f.n.isTop
      · left; rfl
      · right; rw [isTop_eq h]; rfl
    · cases h : g.n.isTop
      · left; rfl
      · right; rw [isTop_eq h]; rfl
    · cases hf : f.n.isTop <;> cases hg : g.n.isTop <;> simp
      rw [isTop_eq hf, isTop_eq hg]
  rw [hc] at h1
  simp only [Bool.not_true, Bool.false_or, rowsOKAt] at h1
  simp only [evalRows, KCond.holds]
  cases hfind : rows.find? (fun r => r.cond.holdsA (decide (f.n = g.n)) f.n.isTop g.n.isTop f.neg g.neg) with
  | none => rw [hfind] at h1; cases h1
  | some r =>
    rw [hfind] at h1
    dsimp only at h1
    simp only [Option.map_some]
    cases hres : r.res with
    | nodes =>
      rw [hres] at h1
      simp only [KRes.inst]
      simp only [Bool.and_eq_true, Bool.not_eq_true', decide_eq_false_iff_not] at h1
      exact ⟨h1.1.1, h1.1.2, h1.2⟩
    | clone s =>
      rw [hres] at h1
      have := inst_eval (.clone s) f g _ σ rfl
      simp only [KRes.inst] at this ⊢
      rw [this]; simpa [Edge.eval] using h1
    | neg s =>
      rw [hres] at h1
      have := inst_eval (.neg s) f g _ σ rfl
      simp only [KRes.inst] at this ⊢
      rw [this]; simpa [Edge.eval] using h1
    | const e =>
      rw [hres] at h1
      have := inst_eval (.const e) f g _ σ rfl
      simp only [KRes.inst] at this ⊢
      rw [this]; simpa [Edge.eval] using h1

/-! ## the derivation of the eight operators -/

def opOfName : String → Option Op
  | "And" => some .and | "Or" => some .or | "Nand" => some .nand | "Nor" => some .nor
  | "Xor" => some .xor | "Equiv" => some .equiv | "Imp" => some .imp | "ImpStrict" => some .impStrict
  | _ => none

def nameOfOp : Op → String
  | .and => "And" | .or => "Or" | .nand => "Nand" | .nor => "Nor"
  | .xor => "Xor" | .equiv => "Equiv" | .imp => "Imp" | .impStrict => "ImpStrict"

def allOps : List Op := [.and, .or, .nand, .nor, .xor, .equiv, .imp, .impStrict]

def negIf (b : Bool) (e : Edge) : Edge := if b then applyNot e else e

/-- what a derivation row computes, with the model's `applyBin`/`applyNot` -/
def DRow.apply (r : DRow) (f g : Edge) : Edge :=
  let a := negIf r.negF f
  let b := negIf r.negG g
  negIf r.negRes (if r.swapped then applyBin r.kernel.toBOp b a else applyBin r.kernel.toBOp a b)

/-- the rows the model `Bcdd.applyOp` is built from -/
def modelRow : Op → DRow
  | .and => ⟨"And", .and, false, false, false, false⟩
  | .or => ⟨"Or", .and, true, true, true, false⟩
  | .nand => ⟨"Nand", .and, false, false, true, false⟩
  | .nor => ⟨"Nor", .and, true, true, false, false⟩
  | .xor => ⟨"Xor", .xor, false, false, false, false⟩
  | .equiv => ⟨"Equiv", .xor, false, false, true, false⟩
  | .imp => ⟨"Imp", .and, false, true, true, false⟩
  | .impStrict => ⟨"ImpStrict", .and, true, false, false, false⟩

theorem applyOp_eq_row (op : Op) (f g : Edge) : applyOp op f g = (modelRow op).apply f g := by
  cases op <;> rfl

/-- a row is a Boolean identity for its operator (`Bcdd.Op.sem`, `Bcdd.BOp.sem`) -/
def drowOK (r : DRow) : Bool :=
  match opOfName r.op with
  | none => false
  | some o =>
    bools.all fun a => bools.all fun b =>
      let a' := a != r.negF
      let b' := b != r.negG
      ((if r.swapped then r.kernel.toBOp.sem b' a' else r.kernel.toBOp.sem a' b') != r.negRes) == o.sem a b

theorem negIf_eval (b : Bool) (e : Edge) (σ : Nat → Bool) : (negIf b e).eval σ = ((e.eval σ) != b) := by
  cases b <;> simp [negIf, applyNot_eval]

/-- a row that passes `drowOK` computes its operator, for all edges and assignments -/
theorem drow_sound (r : DRow) (o : Op) (ho : opOfName r.op = some o) (h : drowOK r = true)
    (f g : Edge) (σ : Nat → Bool) : (r.apply f g).eval σ = o.sem (f.eval σ) (g.eval σ) := by
  simp only [drowOK, ho] at h
  have := all_bools (all_bools h (f.eval σ)) (g.eval σ)
  simp only [beq_iff_eq] at this
  rw [← this]
  simp only [DRow.apply, negIf_eval]
  cases r.swapped <;> simp [applyBin_eval, negIf_eval]

end OxiddModel.Generated.Bc
