import OxiddModel.Generated.RulesEpoch
import OxiddModel.Bdd.CountS

/-!
# Interpretation of the extracted epoch protocol in the model `Bdd/CountS.lean` (C12, C06)

* `ClearFacts.interp`: the function on `CountCache` that the extracted condition and actions of
  `SatCountCache::clear_if_invalid` denote;
* `gcSteps`: the history steps (`HOp`) a collection consists of, built from the extracted increments:
  one `gcBegin` (= `gc_count += 1`) per unit before the sweep, `gcFree s'` (the sweep), one
  `gcBegin` per unit after it, `gcEnd`;
* the general facts: the interpretation of the *modelled* facts is `CountCache.clearIfInvalid`, and
  the modelled collection `[gcBegin, gcFree s', gcEnd]` run as a block is the atomic step `gc s'`.
-/
namespace OxiddModel.Generated.Ep
open OxiddModel.Bdd.CountS

def Test.holds (c : CountCache) (gcCount vars : Nat) : Test → Bool
  | .ne .epoch => decide (gcCount ≠ c.epoch)
  | .eq .epoch => decide (gcCount = c.epoch)
  | .ne .vars => decide (vars ≠ c.vars)
  | .eq .vars => decide (vars = c.vars)

def Act.apply (gcCount vars : Nat) (c : CountCache) : Act → CountCache
  | .setEpoch => { c with epoch := gcCount }
  | .setVars => { c with vars := vars }
  | .clearMap => { c with map := [] }

/-- the function `clear_if_invalid` denotes -/
def ClearFacts.interp (cf : ClearFacts) (c : CountCache) (gcCount vars : Nat) : CountCache :=
  let fire := match cf.conn with
    | .any => cf.tests.any (·.holds c gcCount vars)
    | .all => cf.tests.all (·.holds c gcCount vars)
  if fire then cf.acts.foldl (Act.apply gcCount vars) c else c

/-- the facts the model `CountCache.clearIfInvalid` is written from -/
def modelClear : ClearFacts := ⟨.any, [.ne .epoch, .ne .vars], [.setEpoch, .setVars, .clearMap]⟩

theorem modelClear_interp (c : CountCache) (gcCount vars : Nat) :
    modelClear.interp c gcCount vars = c.clearIfInvalid gcCount vars := by
  simp only [ClearFacts.interp, modelClear, List.any_cons, List.any_nil, Bool.or_false, Test.holds,
    Bool.or_eq_true, decide_eq_true_eq, CountCache.clearIfInvalid, List.foldl_cons, List.foldl_nil, Act.apply]

/-- `amount` increments -/
def incSteps (incs : List Inc) (p : Pos) : List HOp :=
  (incs.filter (·.pos == p)).flatMap (fun i => List.replicate i.amount HOp.gcBegin)

/-- the steps of one collection that frees down to the store `s'` -/
def gcSteps (incs : List Inc) (s' : OxiddModel.Bdd.Refine.Store) : List HOp :=
  incSteps incs .before ++ [HOp.gcFree s'] ++ incSteps incs .after ++ [HOp.gcEnd]

/-- the facts the model's histories are written from: `gc_count` is advanced once, before the sweep -/
def modelGc : List Inc := [⟨.before, 1⟩]

/-- total amount added by a list of increments -/
def total (incs : List Inc) : Nat := (incs.map (·.amount)).sum

theorem modelGc_steps (s' : OxiddModel.Bdd.Refine.Store) :
    gcSteps modelGc s' = [HOp.gcBegin, HOp.gcFree s', HOp.gcEnd] := rfl

/-- run as a block (no step of another thread in between) the modelled collection is the atomic
history step `gc s'` -/
theorem modelGc_atomic (s' : OxiddModel.Bdd.Refine.Store) (st : HState) :
    (runAll (gcSteps modelGc s') st).1 = ((HOp.gc s').run st).1 := rfl

end OxiddModel.Generated.Ep
