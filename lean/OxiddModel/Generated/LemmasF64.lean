import OxiddModel.Generated.RulesF64
import OxiddModel.Mtbdd.F64

/-!
# Interpretation of the extracted `F64` constructions on bit patterns (C10, C01)

`Mtbdd/F64.lean` models an `F64` by its bit pattern and every arithmetic result as
`norm (a ∘ b)`, where `∘` is the IEEE-754 operation of the exact binary64 model `Num/Ieee.lean`
on the decoded operands (no Lean `Float`).  `Row.interp` is the function a constructing row denotes; for a `normalised` row
over `self.0 ∘ rhs.0` it is, definitionally, the model's `F64.add/sub/mul/div`.
-/
namespace OxiddModel.Generated.Fx
open OxiddModel.Mtbdd OxiddModel.Num

/-- the `f64` operator of the source, in the exact binary64 model -/
def BinOp.float : BinOp → Ieee.V → Ieee.V → Ieee.V
  | .add, x, y => Ieee.add x y
  | .sub, x, y => Ieee.sub x y
  | .mul, x, y => Ieee.mul x y
  | .div, x, y => Ieee.div x y

def BinOp.model : BinOp → UInt64 → UInt64 → UInt64
  | .add => F64.add
  | .sub => F64.sub
  | .mul => F64.mul
  | .div => F64.div

/-- the operator a function of this name must apply -/
def BinOp.ofName : String → Option BinOp
  | "add" => some .add
  | "sub" => some .sub
  | "mul" => some .mul
  | "div" => some .div
  | _ => none

/-- the bit pattern an arithmetic row produces from the operands' bit patterns -/
def Row.interp (r : Row) (a b : UInt64) : Option UInt64 :=
  match r.arg, r.kind with
  | .binop op, .normalised => some (F64.norm (op.float (F64.dec a) (F64.dec b)))
  | .binop op, .raw => some (F64.enc (op.float (F64.dec a) (F64.dec b)))
  | _, _ => none

/-- a normalised arithmetic row is the model's operation, for all operands -/
theorem interp_normalised (owner fn : String) (op : BinOp) (a b : UInt64) :
    (⟨owner, fn, .normalised, .binop op⟩ : Row).interp a b = some (op.model a b) := by
  cases op <;> rfl

/-- literals that are their own normal form (`-0.0` is not) -/
def Const.normal : Const → Bool
  | .negZero => false
  | _ => true

/-- a row builds a normalised value: through `from`, or raw from a normal literal; an arithmetic
function must also use the operator of its own name -/
def Row.ok (r : Row) : Bool :=
  match r.kind, r.arg with
  | .normaliser, _ => true
  | .normalised, .binop op => BinOp.ofName r.fn == some op
  | .normalised, _ => true
  | .raw, .const c => c.normal
  | .raw, _ => false

end OxiddModel.Generated.Fx
