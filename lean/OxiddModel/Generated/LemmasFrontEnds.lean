import OxiddModel.Generated.RulesFrontEnds
import OxiddModel.Bdd.Model
import OxiddModel.Bcdd.Model
import OxiddModel.Zbdd.Model
import OxiddModel.Mtbdd.Model
import OxiddModel.Tdd.Model

/-!
# Meaning of the front-end expressions in the models

For each diagram kind: the function an extracted `Fe.Expr` denotes when the kernels are the
model's functions (`apply_bin::<And>` ↦ `Bdd.applyBin .and`, ZBDD `apply_diff` ↦ `Zbdd.diff`, BCDD
`not(..)` ↦ `Bcdd.applyNot`, …).  `none` = the expression is outside the modelled vocabulary.
`ObFrontEnds.lean` proves that the extracted bodies denote the models' operator tables.
-/
namespace OxiddModel.Generated.Fe

/-! ## names of the const arguments and of the trait methods -/

/-- the trait method of each of the eight `BooleanOperator`s -/
inductive BOp8 where
  | and | or | nand | nor | xor | equiv | imp | impStrict
deriving DecidableEq, Repr

def BOp8.method : BOp8 → String
  | .and => "and_edge" | .or => "or_edge" | .nand => "nand_edge" | .nor => "nor_edge"
  | .xor => "xor_edge" | .equiv => "equiv_edge" | .imp => "imp_edge" | .impStrict => "imp_strict_edge"

def bop8 : String → Option BOp8
  | "And" => some .and | "Or" => some .or | "Nand" => some .nand | "Nor" => some .nor
  | "Xor" => some .xor | "Equiv" => some .equiv | "Imp" => some .imp | "ImpStrict" => some .impStrict
  | _ => none

/-- the three quantifiers and their trait methods -/
inductive Q3 where
  | forall_ | exists_ | unique
deriving DecidableEq, Repr

def Q3.method : Q3 → String
  | .forall_ => "forall_edge" | .exists_ => "exists_edge" | .unique => "unique_edge"
def Q3.applyMethod : Q3 → String
  | .forall_ => "apply_forall_edge" | .exists_ => "apply_exists_edge" | .unique => "apply_unique_edge"

/-! ## simple BDDs -/

def BOp8.bdd : BOp8 → Bdd.Op
  | .and => .and | .or => .or | .nand => .nand | .nor => .nor
  | .xor => .xor | .equiv => .equiv | .imp => .imp | .impStrict => .impStrict
def Q3.bdd : Q3 → Bdd.Quant
  | .forall_ => .forall_ | .exists_ => .exists_ | .unique => .unique

/-- the simple-BDD rules name a quantifier by its combining operator: `quant::<{ BDDOp::And }>` -/
def bddQuant : String → Option Bdd.Quant
  | "And" => some .forall_ | "Or" => some .exists_ | "Xor" => some .unique | _ => none

/-- `ps i`: the `i`-th parameter when it is an edge; `op`: the `op: BooleanOperator` parameter
(parameter 0 of `apply_forall_edge` …) -/
def denBdd (ps : Nat → Bdd.BDD) (op : Bdd.Op) : Expr → Option Bdd.BDD
  | .p i => some (ps i)
  | .term s => if s = "True" then some (.leaf true) else if s = "False" then some (.leaf false) else none
  | .call fn cs _ (.cons a .nil) =>
    match denBdd ps op a with
    | some x => if fn = "apply_not" ∧ cs = [] then some (Bdd.applyNot x) else none
    | none => none
  | .call fn cs _ (.cons a (.cons b .nil)) =>
    match denBdd ps op a, denBdd ps op b with
    | some x, some y =>
      if fn = "apply_bin" then
        match cs with
        | [c] => (bop8 c).map (fun o => Bdd.applyBin o.bdd x y)
        | _ => none
      else if fn = "quant" then
        match cs with
        | [c] => (bddQuant c).map (fun q => Bdd.quant q x y)
        | _ => none
      else if fn = "restrict" ∧ cs = [] then some (Bdd.restrict x y)
      else none
    | _, _ => none
  | .call fn cs _ (.cons a (.cons b (.cons c .nil))) =>
    match denBdd ps op a, denBdd ps op b, denBdd ps op c with
    | some x, some y, some z => if fn = "apply_ite" ∧ cs = [] then some (Bdd.applyIte x y z) else none
    | _, _, _ => none
  | .call fn cs _ (.cons (.p 0) (.cons a (.cons b (.cons c .nil)))) =>
    match denBdd ps op a, denBdd ps op b, denBdd ps op c with
    | some x, some y, some z =>
      if fn = "apply_quant_dispatch" then
        match cs with
        | [q] => (bddQuant q).map (fun q => Bdd.applyQuant q op x y z)
        | _ => none
      else none
    | _, _, _ => none
  | _ => none

/-- an arm of `apply_quant_dispatch` (simple BDDs): `apply_quant::<_, _, Q, { BDDOp::<X> }>(manager, rec, f, g, vars)`
denotes `Bdd.applyQuant q X f g vars` -/
def denBddDispatch (q : Bdd.Quant) (f g vars : Bdd.BDD) : Expr → Option Bdd.BDD
  | .call fn cs _ (.cons (.p 1) (.cons (.p 2) (.cons (.p 3) .nil))) =>
    if fn = "apply_quant" then
      match cs with
      | [qn, c] => if qn = "Q" then (bop8 c).map (fun o => Bdd.applyQuant q o.bdd f g vars) else none
      | _ => none
    else none
  | _ => none

/-! ## BCDDs -/

def BOp8.bcdd : BOp8 → Bcdd.Op
  | .and => .and | .or => .or | .nand => .nand | .nor => .nor
  | .xor => .xor | .equiv => .equiv | .imp => .imp | .impStrict => .impStrict
def Q3.bcdd : Q3 → Bcdd.Quant
  | .forall_ => .forall_ | .exists_ => .exists_ | .unique => .unique

def bcddQuant : String → Option Bcdd.Quant
  | "Forall" => some .forall_ | "Exists" => some .exists_ | "Unique" => some .unique | _ => none

def denBcdd (ps : Nat → Bcdd.Edge) (op : Bcdd.Op) : Expr → Option Bcdd.Edge
  | .p i => some (ps i)
  | .bterm b => some (Bcdd.terminal b)
  | .neg e => (denBcdd ps op e).map Bcdd.applyNot
  | .call fn cs _ (.cons a (.cons b .nil)) =>
    match denBcdd ps op a, denBcdd ps op b with
    | some x, some y =>
      if fn = "apply_bin" then
        if cs = ["And"] then some (Bcdd.applyAnd x y)
        else if cs = ["Xor"] then some (Bcdd.applyBin .xor x y)
        else none
      else if fn = "quant" then
        match cs with
        | [c] => (bcddQuant c).map (fun q => Bcdd.quant q x y)
        | _ => none
      else if fn = "restrict" ∧ cs = [] then some (Bcdd.restrict x y)
      else none
    | _, _ => none
  | .call fn cs _ (.cons a (.cons b (.cons c .nil))) =>
    match denBcdd ps op a, denBcdd ps op b, denBcdd ps op c with
    | some x, some y, some z => if fn = "apply_ite" ∧ cs = [] then some (Bcdd.applyIte x y z) else none
    | _, _, _ => none
  | .call fn cs _ (.cons (.p 0) (.cons a (.cons b (.cons c .nil)))) =>
    match denBcdd ps op a, denBcdd ps op b, denBcdd ps op c with
    | some x, some y, some z =>
      if fn = "apply_quant_dispatch" then
        match cs with
        | [q, qn] =>
          match bcddQuant q, bcddQuant qn with
          | some q, some qn => some (Bcdd.applyQuantDispatch q qn op x y z)
          | _, _ => none
        | _ => none
      else if fn = "apply_quant_unique_dispatch" ∧ cs = [] then some (Bcdd.applyQuantUniqueDispatch op x y z)
      else none
    | _, _, _ => none
  | _ => none

/-! ## ZBDDs -/

def BOp8.zbdd : BOp8 → Zbdd.Op
  | .and => .and | .or => .or | .nand => .nand | .nor => .nor
  | .xor => .xor | .equiv => .equiv | .imp => .imp | .impStrict => .impStrict

def zbddSubsetOp : String → Option Zbdd.SubsetOp
  | "0" => some .subset0 | "1" => some .subset1 | "-1" => some .change | _ => none

/-- `n`: the number of levels; `ps i`: the `i`-th parameter when it is an edge; `v2l`:
`manager.var_to_level`; `var`: the `var: VarNo` parameter (parameter 1 of `subset0_edge` …) -/
def denZbdd (n : Nat) (ps : Nat → Zbdd.ZDD) (v2l : Nat → Nat) (var : Nat) : Expr → Option Zbdd.ZDD
  | .p i => some (ps i)
  | .taut k => some (Zbdd.taut n k)
  | .term s => if s = "Empty" then some .empty else if s = "Base" then some .base else none
  | .call fn cs _ (.cons a (.cons b .nil)) =>
    match denZbdd n ps v2l var a, denZbdd n ps v2l var b with
    | some x, some y =>
      if cs ≠ [] then none
      else if fn = "apply_union" then some (Zbdd.union x y)
      else if fn = "apply_intsec" then some (Zbdd.intsec x y)
      else if fn = "apply_diff" then some (Zbdd.diff x y)
      else if fn = "apply_symm_diff" then some (Zbdd.symmDiff x y)
      else none
    | _, _ => none
  | .call fn cs _ (.cons a (.cons b (.cons (.num k) .nil))) =>
    match denZbdd n ps v2l var a, denZbdd n ps v2l var b with
    | some x, some y => if fn = "restrict" ∧ cs = [] ∧ 0 ≤ k then some (Zbdd.restrict n x y k.toNat) else none
    | _, _ => none
  | .call fn cs _ (.cons a (.cons (.p 1) (.cons (.varLevel (.p 1)) .nil))) =>
    match denZbdd n ps v2l var a with
    | some x =>
      if fn = "subset" then
        match cs with
        | [c] => (zbddSubsetOp c).map (fun o => Zbdd.subset o (v2l var) x)
        | _ => none
      else none
    | none => none
  | .call fn cs _ (.cons a (.cons b (.cons c .nil))) =>
    match denZbdd n ps v2l var a, denZbdd n ps v2l var b, denZbdd n ps v2l var c with
    | some x, some y, some z => if fn = "apply_ite" ∧ cs = [] then some (Zbdd.applyIte n x y z) else none
    | _, _, _ => none
  | _ => none

/-! ## MTBDDs -/

inductive AOp6 where
  | add | sub | mul | div | min | max
deriving DecidableEq, Repr

def AOp6.method : AOp6 → String
  | .add => "add_edge" | .sub => "sub_edge" | .mul => "mul_edge" | .div => "div_edge"
  | .min => "min_edge" | .max => "max_edge"
def AOp6.mtbdd : AOp6 → Mtbdd.Op
  | .add => .add | .sub => .sub | .mul => .mul | .div => .div | .min => .min | .max => .max
def aop6 : String → Option AOp6
  | "Add" => some .add | "Sub" => some .sub | "Mul" => some .mul | "Div" => some .div
  | "Min" => some .min | "Max" => some .max | _ => none

def denMtbdd {T : Type} [DecidableEq T] (L : Mtbdd.TermOps T) (ps : Nat → Mtbdd.MT T) : Expr → Option (Mtbdd.MT T)
  | .p i => some (ps i)
  | .call fn cs _ (.cons a (.cons b .nil)) =>
    match denMtbdd L ps a, denMtbdd L ps b with
    | some x, some y =>
      if fn = "apply_bin" then
        match cs with
        | [c] => (aop6 c).map (fun o => Mtbdd.applyBin L o.mtbdd x y)
        | _ => none
      else if fn = "restrict" ∧ cs = [] then some (Mtbdd.restrict L x y)
      else none
    | _, _ => none
  | .call fn cs _ (.cons a (.cons b (.cons c .nil))) =>
    match denMtbdd L ps a, denMtbdd L ps b, denMtbdd L ps c with
    | some x, some y, some z => if fn = "apply_ite" ∧ cs = [] then some (Mtbdd.applyIte L x y z) else none
    | _, _, _ => none
  | _ => none

/-! ## TDDs -/

def BOp8.tdd : BOp8 → Tdd.BinOp
  | .and => .and | .or => .or | .nand => .nand | .nor => .nor
  | .xor => .xor | .equiv => .equiv | .imp => .imp | .impStrict => .impStrict

def denTdd (gt : Tdd.TD → Tdd.TD → Bool) (ps : Nat → Tdd.TD) : Expr → Option Tdd.TD
  | .p i => some (ps i)
  | .term s =>
    if s = "True" then some (.leaf .t) else if s = "Unknown" then some (.leaf .u)
    else if s = "False" then some (.leaf .f) else none
  | .call fn cs _ (.cons a .nil) =>
    match denTdd gt ps a with
    | some x => if fn = "apply_not" ∧ cs = [] then some (Tdd.applyNot x) else none
    | none => none
  | .call fn cs _ (.cons a (.cons b .nil)) =>
    match denTdd gt ps a, denTdd gt ps b with
    | some x, some y =>
      if fn = "apply_bin" then
        match cs with
        | [c] => (bop8 c).map (fun o => Tdd.applyBin gt o.tdd x y)
        | _ => none
      else none
    | _, _ => none
  | .call fn cs _ (.cons a (.cons b (.cons c .nil))) =>
    match denTdd gt ps a, denTdd gt ps b, denTdd gt ps c with
    | some x, some y, some z => if fn = "apply_ite_rec" ∧ cs = [] then some (Tdd.applyIte gt x y z) else none
    | _, _, _ => none
  | _ => none

end OxiddModel.Generated.Fe
