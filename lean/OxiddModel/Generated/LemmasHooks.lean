import OxiddModel.Generated.RulesHooks
import OxiddModel.Pointer.Model

/-!
# Meaning of the extracted hook sequences in the manager model (`Pointer/Model.lean`)

`Hk.exec` runs a sequence of extracted rows on the bookkeeping state `PMgr`: a hook call appends
its notification to the log (`pre_reorder` + `pre_reorder_mut` are one notification of the model,
as are the two `post_reorder` calls — `Hk.paired` checks that they are adjacent), `resize_with`
resizes, the flag and the counters are set, rows under `if !self.reorder_gc_prepared` run iff the
flag is clear.  The theorems say that the sequences the model assumes (`Hk.modelRows`, which
`ObHooks.lean` proves equal to the extracted ones of *both* managers) are, run this way, exactly
`PMgr.addVars`, `PMgr.addNamedVars`, `PMgr.addNamedVarsFromMap`, `PMgr.gc`, `PMgr.reorderBegin`,
`PMgr.reorderEnd` — the functions `level_change_hooks` and `hooks_order` are about.
-/
namespace OxiddModel.Generated.Hk
open OxiddModel.Pointer OxiddModel.VarNames

/-- the run-time values the arguments of the rows refer to -/
structure Args where
  /-- value of an argument text in the current state -/
  val : String → PMgr → Nat
  /-- `names` of `add_named_vars` -/
  names : List String := []
  /-- `map` of `add_named_vars_from_map` -/
  map : VarNameMap := VarNameMap.new

def step (a : Args) (g : PMgr) (r : Row) : PMgr :=
  if r.ctx = .ifNotPrepared ∧ g.prepared then g else
  match r.ev with
  | .preReorder => g.preReorder
  | .postReorder => g.postReorder
  | .preGc => g.preGc
  | .postGc => g.postGc
  | .resize => g.resize (a.val r.arg g)
  | .vlmExtend => { g with vlm := g.vlm.extend (a.val r.arg g) }
  | .namesAddUnnamed => { g with map := g.map.addUnnamed (a.val r.arg g) }
  | .namesAddNamed => { g with map := (g.map.addNamed a.names).1 }
  | .namesSet => { g with map := a.map }
  | .setPrepared => { g with prepared := r.arg == "true" }
  | .unlock => { g with gcOngoing := false }
  | .gcCountInc => { g with gcCount := g.gcCount + 1 }
  | .reorderCountInc => { g with reorderCount := g.reorderCount + 1 }
  | .sweepLevel => { g with log := g.log ++ [Ev.remove] }
  | _ => g

def exec (a : Args) (rows : List Row) (g : PMgr) : PMgr := rows.foldl (step a) g

/-- every `pre_reorder` is directly followed by `pre_reorder_mut`, every `post_reorder` by
`post_reorder_mut` (same function, same condition), and the `_mut` variants occur only there -/
def paired : List Row → Bool
  | r :: r' :: rest =>
    if r.ev = .preReorder then r'.ev = .preReorderMut && r'.fn = r.fn && r'.ctx = r.ctx && paired rest
    else if r.ev = .postReorder then r'.ev = .postReorderMut && r'.fn = r.fn && r'.ctx = r.ctx && paired rest
    else r.ev ≠ .preReorderMut && r.ev ≠ .postReorderMut && paired (r' :: rest)
  | [r] => r.ev ≠ .preReorder && r.ev ≠ .postReorder && r.ev ≠ .preReorderMut && r.ev ≠ .postReorderMut
  | [] => true

/-- the sequences `Pointer/Model.lean` assumes -/
def modelRows : List Row :=
  [⟨"add_vars", .top, .preReorder, ""⟩, ⟨"add_vars", .top, .preReorderMut, ""⟩,
   ⟨"add_vars", .top, .resize, "new_len"⟩, ⟨"add_vars", .top, .vlmExtend, "additional"⟩,
   ⟨"add_vars", .top, .namesAddUnnamed, "additional"⟩,
   ⟨"add_vars", .top, .postReorder, ""⟩, ⟨"add_vars", .top, .postReorderMut, ""⟩,
   ⟨"add_named_vars", .top, .preReorder, ""⟩, ⟨"add_named_vars", .top, .preReorderMut, ""⟩,
   ⟨"add_named_vars", .top, .namesAddNamed, ""⟩, ⟨"add_named_vars", .top, .dropGuard, ""⟩,
   ⟨"add_named_vars", .guard, .resize, "new_len"⟩, ⟨"add_named_vars", .guard, .vlmExtend, "(new_len-len)asVarNo"⟩,
   ⟨"add_named_vars", .guard, .postReorder, ""⟩, ⟨"add_named_vars", .guard, .postReorderMut, ""⟩,
   ⟨"add_named_vars_from_map", .ifNamesNonEmpty, .ret, ""⟩,
   ⟨"add_named_vars_from_map", .ifNamesNonEmpty, .callAddNamedVars, ""⟩,
   ⟨"add_named_vars_from_map", .top, .preReorder, ""⟩, ⟨"add_named_vars_from_map", .top, .preReorderMut, ""⟩,
   ⟨"add_named_vars_from_map", .top, .resize, "n"⟩, ⟨"add_named_vars_from_map", .top, .vlmExtend, "n"⟩,
   ⟨"add_named_vars_from_map", .top, .namesSet, "map"⟩,
   ⟨"add_named_vars_from_map", .top, .postReorder, ""⟩, ⟨"add_named_vars_from_map", .top, .postReorderMut, ""⟩,
   ⟨"gc", .ifTryLockFails, .ret, ""⟩, ⟨"gc", .top, .gcCountInc, ""⟩, ⟨"gc", .ifNotPrepared, .preGc, ""⟩,
   ⟨"gc", .sweepLoop, .sweepLevel, ""⟩, ⟨"gc", .top, .sweepTerminals, ""⟩, ⟨"gc", .ifNotPrepared, .postGc, ""⟩,
   ⟨"gc", .top, .unlock, ""⟩,
   ⟨"reorder", .ifPrepared, .ret, ""⟩, ⟨"reorder", .ifPrepared, .callF, ""⟩,
   ⟨"reorder", .top, .preGc, ""⟩, ⟨"reorder", .top, .setPrepared, "true"⟩,
   ⟨"reorder", .top, .preReorder, ""⟩, ⟨"reorder", .top, .preReorderMut, ""⟩,
   ⟨"reorder", .top, .callF, ""⟩,
   ⟨"reorder", .top, .postReorder, ""⟩, ⟨"reorder", .top, .postReorderMut, ""⟩,
   ⟨"reorder", .top, .setPrepared, "false"⟩, ⟨"reorder", .top, .postGc, ""⟩,
   ⟨"reorder", .top, .gcCountInc, ""⟩, ⟨"reorder", .top, .reorderCountInc, ""⟩]

/-- the rows of one function that are not under an early-return condition -/
def body (fn : String) : List Row :=
  modelRows.filter (fun r => r.fn == fn && r.ctx != .ifPrepared && r.ctx != .ifTryLockFails && r.ctx != .ifNamesNonEmpty)

def beforeF (rows : List Row) : List Row := rows.takeWhile (fun r => r.ev != .callF)
def afterF (rows : List Row) : List Row := (rows.dropWhile (fun r => r.ev != .callF)).drop 1

/-- **`add_vars`**: `new_len` = the old number of levels + `additional` -/
theorem addVars_as_modelled (g : PMgr) (k : Nat) :
    exec { val := fun s _ => if s = "new_len" then g.tables + k else k } (body "add_vars") g = (g.addVars k).1 := rfl

/-- **`add_named_vars`**: the guard (resize to the new number of names, extend the variable↔level
map by the difference, *then* `post_reorder`) runs where it is dropped, after the names were added -/
theorem addNamedVars_as_modelled (g : PMgr) (names : List String) :
    exec { val := fun s g' => if s = "new_len" then g'.map.len else g'.map.len - g.map.len, names := names }
      (body "add_named_vars") g = (g.addNamedVars names).1 := rfl

/-- **`add_named_vars_from_map`** on a manager without variables (otherwise it returns
`self.add_named_vars(map.into_names_iter())`, rows under `ifNamesNonEmpty`) -/
theorem addNamedVarsFromMap_as_modelled (g : PMgr) (map : VarNameMap) (h : g.map.isEmpty = true) :
    exec { val := fun _ _ => map.len, map := map } (body "add_named_vars_from_map") g = (g.addNamedVarsFromMap map).1 := by
  simp only [PMgr.addNamedVarsFromMap, h]; rfl

/-- **`gc`** after a successful `try_lock` (a failed one returns before anything else, row
`ifTryLockFails`): count, `pre_gc` unless a reordering prepared it, sweep, `post_gc` likewise, unlock -/
theorem gc_as_modelled (g : PMgr) (h : g.gcOngoing = false) :
    exec { val := fun _ _ => 0 } (body "gc") { g with gcOngoing := true } = g.gc.1 := by
  unfold PMgr.gc
  simp only [h]
  cases hp : g.prepared <;> simp [exec, body, modelRows, step, PMgr.preGc, PMgr.postGc]

/-- **entry of `reorder`** (flag clear; otherwise `return f(self)`, rows under `ifPrepared`):
`pre_gc`, then the flag, then `pre_reorder` -/
theorem reorderBegin_as_modelled (g : PMgr) (h : g.prepared = false) :
    g.reorderBegin = { exec { val := fun _ _ => 0 } (beforeF (body "reorder")) g with stack := true :: g.stack } := by
  simp [PMgr.reorderBegin, h, exec, beforeF, body, modelRows, step, PMgr.preGc, PMgr.preReorder]

/-- **exit of `reorder`** (of the invocation that prepared it): `post_reorder`, the flag cleared,
*then* `post_gc`, then the two counters -/
theorem reorderEnd_as_modelled (g : PMgr) (st : List Bool) (h : g.stack = true :: st) (hp : g.prepared = true) :
    g.reorderEnd = some { exec { val := fun _ _ => 0 } (afterF (body "reorder")) g with stack := st } := by
  simp [PMgr.reorderEnd, h, hp, exec, afterF, body, modelRows, step, PMgr.postGc, PMgr.postReorder]

end OxiddModel.Generated.Hk
