import OxiddModel.Generated.RulesI64
import OxiddModel.Mtbdd.LemmasI64

/-!
# Meaning of the extracted `I64` arithmetic tables, and their agreement with `Mtbdd.I64.add/sub/mul/div/partialCmp`

The Rust operators are `match (self, rhs) { … }` over the four constructors.  An extracted table
(`List I6.Arm`, first matching arm wins) is compared with the model in two parts:

* **not both operands `Num`**: the result then depends on the operands only through their
  constructor and — for a `Num` payload tested by a guard like `n < 0`, or fed to `signum` — its
  sign.  `AVal` is this abstraction (6 values); `evalArmsAbs` interprets a table on abstract
  operands (a guard comparing with anything but `0`, or a `checked_*`/division result, has no
  abstract meaning: `none`, which fails the check).  `tableOKAbs` (finite, by `decide` in the
  obligation module) compares with the model on the 32 abstract pairs; `*_abs` (general lemmas
  about the model, here) show that the model's functions factor through the abstraction, whence
  `table_sound_nonnum`: agreement for **all** operand values.
* **both `Num`**: the first arm matching `(Num, Num)` must be unguarded and its expression must be
  *the model's* (`modelExpr`, compared by `decide`); `modelExpr_eval` shows that this expression
  evaluates to `I64.<op> (num a) (num b)` for all `a b`.  The arithmetic content of that arm
  (exact result when representable, sign of the overflow) is what `Mtbdd.I64.add_num/sub_num/
  mul_num/div_num` and the C10 theorems `i64_add_exact …` prove about the model.
-/
namespace OxiddModel.Generated.I6

open OxiddModel.Mtbdd

/-! ## concrete evaluation of a `(Num, Num)` expression -/

def Rel.eval : Rel → Int → Int → Bool
  | .lt, a, b => a < b
  | .le, a, b => a ≤ b
  | .gt, a, b => a > b
  | .ge, a, b => a ≥ b
  | .eq, a, b => a = b
  | .ne, a, b => a ≠ b

def Var.get (a b : Int) : Var → Int
  | .lhs => a
  | .rhs => b

def Cond.eval (a b : Int) : Cond → Bool
  | .cmp v r k => r.eval (v.get a b) k
  | .and c d => c.eval a b && d.eval a b
  | .or c d => c.eval a b || d.eval a b
  | .not c => !c.eval a b

def Meth.checked : Meth → Int → Int → Option Int
  | .add => I64.checkedAdd
  | .sub => I64.checkedSub
  | .mul => I64.checkedMul

/-- value of an expression for payloads `a` (left) and `b` (right) -/
def Expr.eval (a b : Int) : Expr → I64
  | .nan => .nan
  | .ninf => .ninf
  | .pinf => .pinf
  | .numLit k => .num k
  | .checked m ovf =>
    match m.checked a b with
    | some n => .num n
    | none => ovf.eval a b
  | .ite c t e => if c.eval a b then t.eval a b else e.eval a b
  | .tdiv => .num (Int.tdiv a b)
  | .cmp3 v k lt eq gt =>
    match compare (v.get a b) k with
    | .lt => lt.eval a b
    | .eq => eq.eval a b
    | .gt => gt.eval a b
  | .signProd pos neg other =>
    if a.sign * b.sign = 1 then pos.eval a b else if a.sign * b.sign = -1 then neg.eval a b
    else other.eval a b

/-- the operators -/
inductive AOp where
  | add | sub | mul | div
deriving DecidableEq, Repr

def AOp.fn : AOp → I64 → I64 → I64
  | .add => I64.add | .sub => I64.sub | .mul => I64.mul | .div => I64.div

/-- the `(Num(lhs), Num(rhs))` arm as the model `Mtbdd.I64.add/sub/mul/div` has it -/
def modelExpr : AOp → Expr
  | .add => .checked .add (.ite (.cmp .lhs .gt 0) .pinf .ninf)
  | .sub => .checked .sub (.ite (.cmp .rhs .lt 0) .pinf .ninf)
  | .mul => .checked .mul
      (.ite (.or (.and (.cmp .lhs .gt 0) (.cmp .rhs .gt 0)) (.and (.cmp .lhs .lt 0) (.cmp .rhs .lt 0))) .pinf .ninf)
  | .div => .ite (.cmp .rhs .eq 0) (.cmp3 .lhs 0 .ninf .nan .pinf)
      (.ite (.and (.cmp .lhs .eq (-9223372036854775808)) (.cmp .rhs .eq (-1))) .pinf .tdiv)

theorem modelExpr_eval (op : AOp) (a b : Int) : (modelExpr op).eval a b = op.fn (.num a) (.num b) := by
  cases op <;> simp only [modelExpr, Expr.eval, Cond.eval, Var.get, Meth.checked, AOp.fn] <;>
    simp only [Rel.eval]
  · simp only [I64.add]
    cases I64.checkedAdd a b <;> simp
  · simp only [I64.sub]
    cases I64.checkedSub a b <;> simp
  · simp only [I64.mul]
    cases I64.checkedMul a b <;> simp
  · simp only [I64.div, I64_MIN]
    by_cases h : b = 0
    · subst h
      simp only [decide_true, if_true]
      cases compare a 0 <;> rfl
    · simp only [h, decide_false, Bool.false_eq_true, if_false]
      by_cases hc : a = -9223372036854775808 ∧ b = -1 <;> simp [hc]

/-! ## the abstraction for operands that are not both `Num` -/

inductive Sign where
  | neg | zero | pos
deriving DecidableEq, Repr

def Sign.toInt : Sign → Int
  | .neg => -1 | .zero => 0 | .pos => 1

def sgn (n : Int) : Sign := if n < 0 then .neg else if n = 0 then .zero else .pos

/-- constructor, and for `Num` the sign of the payload -/
inductive AVal where
  | nan | ninf | num (s : Sign) | pinf
deriving DecidableEq, Repr

def AVal.cls : AVal → Cls
  | .nan => .nan | .ninf => .ninf | .num _ => .num | .pinf => .pinf

def AVal.isNum : AVal → Bool
  | .num _ => true
  | _ => false

/-- a representative: `Num(-1)`, `Num(0)`, `Num(1)` -/
def AVal.rep : AVal → I64
  | .nan => .nan | .ninf => .ninf | .pinf => .pinf
  | .num s => .num s.toInt

def abs : I64 → AVal
  | .nan => .nan | .ninf => .ninf | .pinf => .pinf
  | .num n => .num (sgn n)

def allAVals : List AVal := [.nan, .ninf, .num .neg, .num .zero, .num .pos, .pinf]

theorem mem_allAVals (a : AVal) : a ∈ allAVals := by
  cases a <;> (try rename_i s; cases s) <;> decide

def CPat.matches : CPat → Cls → Bool
  | .any, _ => true
  | .is c, d => c == d

def patsMatch (ps : List (CPat × CPat)) (c d : Cls) : Bool :=
  ps.any fun p => p.1.matches c && p.2.matches d

/-- sign of the payload a variable refers to, if that operand is a `Num` -/
def AVal.sign? : AVal → Option Sign
  | .num s => some s
  | _ => none

/-- a guard on abstract operands: only comparisons of a `Num` payload with `0` have a meaning -/
def Cond.evalAbs (x y : AVal) : Cond → Option Bool
  | .cmp v r k =>
    if k = 0 then
      match (match v with | .lhs => x.sign? | .rhs => y.sign?) with
      | some s => some (r.eval s.toInt 0)
      | none => none
    else none
  | .and c d => do let p ← c.evalAbs x y; let q ← d.evalAbs x y; pure (p && q)
  | .or c d => do let p ← c.evalAbs x y; let q ← d.evalAbs x y; pure (p || q)
  | .not c => do let p ← c.evalAbs x y; pure (!p)

/-- `signum` of an abstract operand (`None` for NaN) -/
def AVal.signum : AVal → Option Int
  | .nan => none | .ninf => some (-1) | .pinf => some 1
  | .num s => some s.toInt

/-- an arm's result on abstract operands; `checked_*`, division and three-way comparison only make
sense on two `Num`s: `none` -/
def Expr.evalAbs (x y : AVal) : Expr → Option I64
  | .nan => some .nan
  | .ninf => some .ninf
  | .pinf => some .pinf
  | .numLit k => some (.num k)
  | .ite c t e =>
    match c.evalAbs x y with
    | some true => t.evalAbs x y
    | some false => e.evalAbs x y
    | none => none
  | .signProd pos neg other =>
    match x.signum, y.signum with
    | some a, some b =>
      if a * b = 1 then pos.evalAbs x y else if a * b = -1 then neg.evalAbs x y else other.evalAbs x y
    | _, _ => none
  | _ => none

/-- first matching arm's result (`none`: no arm matches, or something has no abstract meaning) -/
def evalArmsAbs (x y : AVal) : List Arm → Option I64
  | [] => none
  | a :: rest =>
    if patsMatch a.pats x.cls y.cls then
      match a.guard with
      | none => a.res.evalAbs x y
      | some c =>
        match c.evalAbs x y with
        | some true => a.res.evalAbs x y
        | some false => evalArmsAbs x y rest
        | none => none
    else evalArmsAbs x y rest

/-- the table agrees with `f` on all abstract pairs that are not both `Num` -/
def tableOKAbs (f : I64 → I64 → I64) (tbl : List Arm) : Bool :=
  allAVals.all fun x => allAVals.all fun y =>
    (x.isNum && y.isNum) || evalArmsAbs x y tbl == some (f x.rep y.rep)

/-- the first arm whose pattern matches `(Num, Num)` -/
def numNumArm (tbl : List Arm) : Option Arm := tbl.find? fun a => patsMatch a.pats .num .num

/-- … is unguarded and its expression is the model's -/
def tableOKNum (op : AOp) (tbl : List Arm) : Bool :=
  match numNumArm tbl with
  | some a => a.guard == none && a.res == modelExpr op
  | none => false

/-- concrete meaning of a table on two `Num`s: the first arm whose pattern matches `(Num, Num)` and
whose guard holds -/
def evalArmsNum (a b : Int) : List Arm → Option I64
  | [] => none
  | r :: rest =>
    if patsMatch r.pats .num .num && (match r.guard with | none => true | some c => c.eval a b)
    then some (r.res.eval a b) else evalArmsNum a b rest

/-! ### the model's functions factor through the abstraction -/

def notBothNum (x y : I64) : Prop := ¬((abs x).isNum = true ∧ (abs y).isNum = true)

theorem sgn_cases (n : Int) :
    (n < 0 ∧ sgn n = .neg) ∨ (n = 0 ∧ sgn n = .zero) ∨ (0 < n ∧ sgn n = .pos) := by
  unfold sgn
  by_cases h1 : n < 0
  · simp [h1]
  · by_cases h2 : n = 0
    · simp [h2]
    · simp only [h1, h2, if_false]
      refine Or.inr (Or.inr ⟨by omega, trivial⟩)

theorem sign_sgn (n : Int) : (sgn n).toInt.sign = n.sign := by
  rcases sgn_cases n with ⟨h, e⟩ | ⟨h, e⟩ | ⟨h, e⟩ <;> rw [e]
  · rw [Int.sign_eq_neg_one_of_neg h]; rfl
  · subst h; rfl
  · rw [Int.sign_eq_one_of_pos h]; rfl

theorem lt_zero_sgn (n : Int) : ((sgn n).toInt < 0) ↔ n < 0 := by
  rcases sgn_cases n with ⟨h, e⟩ | ⟨h, e⟩ | ⟨h, e⟩ <;> rw [e] <;> simp only [Sign.toInt] <;>
    constructor <;> intro h' <;> omega

theorem add_abs (x y : I64) (h : notBothNum x y) : I64.add x y = I64.add (abs x).rep (abs y).rep := by
  cases x <;> cases y <;> first | rfl | (exfalso; exact h ⟨rfl, rfl⟩)

theorem sub_abs (x y : I64) (h : notBothNum x y) : I64.sub x y = I64.sub (abs x).rep (abs y).rep := by
  cases x <;> cases y <;> first | rfl | (exfalso; exact h ⟨rfl, rfl⟩)

theorem mul_abs (x y : I64) (h : notBothNum x y) : I64.mul x y = I64.mul (abs x).rep (abs y).rep := by
  cases x <;> cases y <;> first | rfl | (exfalso; exact h ⟨rfl, rfl⟩) | skip
  all_goals simp only [I64.mul, I64.signum, abs, AVal.rep, sign_sgn]

theorem div_abs (x y : I64) (h : notBothNum x y) : I64.div x y = I64.div (abs x).rep (abs y).rep := by
  cases x <;> cases y <;> first | rfl | (exfalso; exact h ⟨rfl, rfl⟩) | skip
  all_goals simp only [I64.div, abs, AVal.rep, lt_zero_sgn]

theorem AOp.fn_abs (op : AOp) (x y : I64) (h : notBothNum x y) :
    op.fn x y = op.fn (abs x).rep (abs y).rep := by
  cases op
  · exact add_abs x y h
  · exact sub_abs x y h
  · exact mul_abs x y h
  · exact div_abs x y h

/-! ### soundness of the two checks -/

/-- agreement on the abstract pairs lifts to all operand values that are not both `Num` -/
theorem table_sound_nonnum (op : AOp) (tbl : List Arm) (hc : tableOKAbs op.fn tbl = true)
    (x y : I64) (h : notBothNum x y) : evalArmsAbs (abs x) (abs y) tbl = some (op.fn x y) := by
  simp only [tableOKAbs, List.all_eq_true] at hc
  have := hc (abs x) (mem_allAVals _) (abs y) (mem_allAVals _)
  simp only [Bool.or_eq_true, Bool.and_eq_true, beq_iff_eq] at this
  rcases this with hb | he
  · exact absurd hb h
  · rw [he, ← AOp.fn_abs op x y h]

theorem evalArmsNum_of_find (a b : Int) (r : Arm) (hg : r.guard = none) :
    ∀ tbl : List Arm, numNumArm tbl = some r → evalArmsNum a b tbl = some (r.res.eval a b)
  | [], h => by simp [numNumArm] at h
  | s :: rest, h => by
    simp only [numNumArm, List.find?_cons] at h
    simp only [evalArmsNum]
    split at h
    · rename_i hm
      simp only [Option.some.injEq] at h; subst h
      simp [hm, hg]
    · rename_i hm
      have : patsMatch s.pats Cls.num Cls.num = false := by simpa using hm
      simp only [this, Bool.false_and, Bool.false_eq_true, if_false]
      exact evalArmsNum_of_find a b r hg rest h

/-- on two `Num`s the table computes the model's function, for all payloads -/
theorem table_sound_num (op : AOp) (tbl : List Arm) (hc : tableOKNum op tbl = true) (a b : Int) :
    evalArmsNum a b tbl = some (op.fn (.num a) (.num b)) := by
  simp only [tableOKNum] at hc
  split at hc
  · rename_i r hr
    simp only [Bool.and_eq_true, beq_iff_eq] at hc
    rw [evalArmsNum_of_find a b r hc.1 tbl hr, hc.2, modelExpr_eval]
  · cases hc

/-! ## `partial_cmp` -/

def CRes.toOrd : CRes → Option (Option Ordering)
  | .numCmp => none
  | .less => some (some .lt)
  | .equal => some (some .eq)
  | .greater => some (some .gt)
  | .unordered => some none

def evalCArmsAbs (x y : AVal) : List CArm → Option (Option Ordering)
  | [] => none
  | a :: rest => if patsMatch a.pats x.cls y.cls then a.res.toOrd else evalCArmsAbs x y rest

def cmpOKAbs (tbl : List CArm) : Bool :=
  allAVals.all fun x => allAVals.all fun y =>
    (x.isNum && y.isNum) || evalCArmsAbs x y tbl == some (I64.partialCmp x.rep y.rep)

/-- the first arm matching `(Num, Num)` is `Some(lhs.cmp(rhs))` -/
def cmpOKNum (tbl : List CArm) : Bool :=
  match tbl.find? fun a => patsMatch a.pats .num .num with
  | some a => a.res == .numCmp
  | none => false

theorem partialCmp_abs (x y : I64) (h : notBothNum x y) :
    I64.partialCmp x y = I64.partialCmp (abs x).rep (abs y).rep := by
  cases x <;> cases y <;> first | rfl | (exfalso; exact h ⟨rfl, rfl⟩)

theorem cmp_sound_nonnum (tbl : List CArm) (hc : cmpOKAbs tbl = true) (x y : I64)
    (h : notBothNum x y) : evalCArmsAbs (abs x) (abs y) tbl = some (I64.partialCmp x y) := by
  simp only [cmpOKAbs, List.all_eq_true] at hc
  have := hc (abs x) (mem_allAVals _) (abs y) (mem_allAVals _)
  simp only [Bool.or_eq_true, Bool.and_eq_true, beq_iff_eq] at this
  rcases this with hb | he
  · exact absurd hb h
  · rw [he, ← partialCmp_abs x y h]

/-- the model's `(Num, Num)` arm is `compare` on the payloads (definitionally) -/
theorem partialCmp_num (a b : Int) : I64.partialCmp (.num a) (.num b) = some (compare a b) := rfl

end OxiddModel.Generated.I6
